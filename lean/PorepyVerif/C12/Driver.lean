/- C12 line-protocol driver: `lake env lean --run PorepyVerif/C12/Driver.lean`
   op "tpfa": topology + geometry + permeability + boundary flags -> the six stored matrices as triplets. -/
import PorepyVerif.Common.Wire
import PorepyVerif.C12.Model
open Lean PV PorepyVerif.C12

def v3Of (l : List Rat) : R V3 :=
  match l with
  | [a, b, c] => pure ⟨a, b, c⟩
  | _ => throw "vector must have 3 components"

def m3Of (l : List Rat) : R M3 :=
  match l with
  | [a, b, c, d, e, f, g, h, i] => pure ⟨⟨a, b, c⟩, ⟨d, e, f⟩, ⟨g, h, i⟩⟩
  | _ => throw "tensor must have 9 components"

def zero3 : V3 := ⟨0, 0, 0⟩

def look (a : Array α) (d : α) : Nat → α := fun i => (a[i]?).getD d

def tripJson (t : Trip) : Json := Json.arr #[ofNat t.1, ofNat t.2.1, ofRat t.2.2]

/-- shape of `coo_matrix((v, (i, j)))` without an explicit shape argument: largest index + 1 -/
def inferred (ts : List Trip) : Nat × Nat :=
  ts.foldl (fun (acc : Nat × Nat) t => (max acc.1 (t.1 + 1), max acc.2 (t.2.1 + 1))) (0, 0)

def matJson (shape : Nat × Nat) (ts : List Trip) : Json :=
  obj [("shape", ofNats [shape.1, shape.2]), ("t", ofList tripJson ts)]

def run (j : Json) : R Json := do
  let op ← fStr j "op"
  match op with
  | "tpfa0" =>
    -- 0-d shortcut of the code: empty matrices
    let nc ← fNat j "nc"
    let vsd ← fNat j "vsd"
    let w := nc * max vsd 1
    pure (obj [("flux", matJson (0, nc) []), ("bound_flux", matJson (0, 0) []),
               ("bound_pressure_cell", matJson (0, nc) []), ("bound_pressure_face", matJson (0, 0) []),
               ("vector_source", matJson (0, w) []), ("bound_pressure_vector_source", matJson (0, w) []),
               ("degenerate", Json.bool false)])
  | "tpfa" =>
    let nf ← fNat j "nf"
    let nc ← fNat j "nc"
    let fi ← fNats j "fi"
    let ci ← fNats j "ci"
    let sg ← fRats j "sgn"
    if fi.length != ci.length || fi.length != sg.length then throw "fi/ci/sgn length mismatch" else
    let normals ← (← fRatss j "normals").mapM v3Of
    let fcs ← (← fRatss j "fc").mapM v3Of
    let ccs ← (← fRatss j "cc").mapM v3Of
    let perms ← (← fRatss j "perm").mapM m3Of
    if normals.length != nf || fcs.length != nf then throw "face array length" else
    if ccs.length != nc || perms.length != nc then throw "cell array length" else
    let bndr ← fNats j "bndr"
    let isDir ← fNats j "is_dir"
    let isNeu ← fNats j "is_neu"
    let isInt ← fNats j "is_int"
    if isDir.length != nf || isNeu.length != nf || isInt.length != nf then throw "flag array length" else
    let vsd ← fNat j "vsd"
    let flag (l : List Nat) : Nat → Bool := look (l.map (· != 0)).toArray false
    let g : Grid := {
      nf := nf, nc := nc,
      hf := (fi.zip (ci.zip sg)).map (fun (f, c, s) => ⟨f, c, s⟩),
      normal := look normals.toArray zero3, fc := look fcs.toArray zero3, cc := look ccs.toArray zero3,
      perm := look perms.toArray ⟨zero3, zero3, zero3⟩,
      bndr := bndr, isDir := flag isDir, isNeu := flag isNeu, isInt := flag isInt }
    let fl := fluxT g
    let vs := vecSrcT g vsd
    let bvs := bpVecSrcT g vsd
    pure (obj [("flux", matJson (inferred fl) fl), ("bound_flux", matJson (nf, nf) (boundFluxT g)),
               ("bound_pressure_cell", matJson (nf, nc) (bpCellT g)),
               ("bound_pressure_face", matJson (nf, nf) (bpFaceT g)),
               ("vector_source", matJson (inferred vs) vs),
               ("bound_pressure_vector_source", matJson (inferred bvs) bvs),
               ("degenerate", Json.bool (degenerate g)),
               -- the decidable hypotheses of the grid-level theorems, evaluated on the real grid
               ("wellFormed", Json.bool (wellFormedB g)), ("bndOK", Json.bool (bndOK g)),
               ("cartLike", Json.bool (cartLike g)), ("korthGrid", Json.bool (korthGrid g (g.perm 0)))])
  | _ => throw s!"unknown op {op}"

def main : IO Unit := runPure run
