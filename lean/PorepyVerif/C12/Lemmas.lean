/-
C12 — helper lemmas: finite sums, triplet lists, harmonic combination, incidence of well-formed grids.
-/
import Mathlib.Algebra.Order.Field.Rat
import Mathlib.Tactic.Ring
import Mathlib.Tactic.Linarith
import Mathlib.Tactic.FieldSimp
import Mathlib.Tactic.Positivity
import Mathlib.Tactic.LinearCombination
import PorepyVerif.C12.Model

namespace PorepyVerif.C12

/-! ### `sumTo` -/

theorem sumTo_congr (n : Nat) (F G : Nat → Rat) (h : ∀ i, i < n → F i = G i) : sumTo n F = sumTo n G := by
  induction n with
  | zero => rfl
  | succ n ih =>
    simp only [sumTo]
    rw [ih (fun i hi => h i (Nat.lt_succ_of_lt hi)), h n (Nat.lt_succ_self n)]

theorem sumTo_zero (n : Nat) : sumTo n (fun _ => 0) = 0 := by
  induction n with
  | zero => rfl
  | succ n ih => simp [sumTo, ih]

theorem sumTo_add (n : Nat) (F G : Nat → Rat) : sumTo n (fun i => F i + G i) = sumTo n F + sumTo n G := by
  induction n with
  | zero => simp [sumTo]
  | succ n ih => simp only [sumTo, ih]; ring

theorem sumTo_mul_left (n : Nat) (a : Rat) (F : Nat → Rat) : sumTo n (fun i => a * F i) = a * sumTo n F := by
  induction n with
  | zero => simp [sumTo]
  | succ n ih => simp only [sumTo, ih]; ring

theorem sumTo_nonneg (n : Nat) (F : Nat → Rat) (h : ∀ i, i < n → 0 ≤ F i) : 0 ≤ sumTo n F := by
  induction n with
  | zero => simp [sumTo]
  | succ n ih =>
    simp only [sumTo]
    have := ih (fun i hi => h i (Nat.lt_succ_of_lt hi))
    have := h n (Nat.lt_succ_self n)
    linarith

theorem sumTo_nonpos (n : Nat) (F : Nat → Rat) (h : ∀ i, i < n → F i ≤ 0) : sumTo n F ≤ 0 := by
  induction n with
  | zero => simp [sumTo]
  | succ n ih =>
    simp only [sumTo]
    have := ih (fun i hi => h i (Nat.lt_succ_of_lt hi))
    have := h n (Nat.lt_succ_self n)
    linarith

theorem sumTo_pos (n : Nat) (F : Nat → Rat) (h : ∀ i, i < n → 0 ≤ F i) (k : Nat) (hk : k < n) (hpos : 0 < F k) :
    0 < sumTo n F := by
  induction n with
  | zero => omega
  | succ n ih =>
    simp only [sumTo]
    have h0 := sumTo_nonneg n F (fun i hi => h i (Nat.lt_succ_of_lt hi))
    have hn := h n (Nat.lt_succ_self n)
    by_cases hkn : k = n
    · subst hkn; linarith
    · have := ih (fun i hi => h i (Nat.lt_succ_of_lt hi)) (by omega)
      linarith

theorem sumTo_swap (n m : Nat) (F : Nat → Nat → Rat) :
    sumTo n (fun i => sumTo m (fun j => F i j)) = sumTo m (fun j => sumTo n (fun i => F i j)) := by
  induction n with
  | zero => simp [sumTo, sumTo_zero]
  | succ n ih =>
    simp only [sumTo, ih]
    rw [← sumTo_add]

/-- `Σ_{i<n} [a = i] v = v` when `a < n` -/
theorem sumTo_ite_eq (n a : Nat) (v : Rat) (ha : a < n) : sumTo n (fun i => if a = i then v else 0) = v := by
  induction n with
  | zero => omega
  | succ n ih =>
    simp only [sumTo]
    by_cases h : a = n
    · subst h
      have : sumTo a (fun i => if a = i then v else 0) = 0 := by
        rw [sumTo_congr a _ (fun _ => 0) (fun i hi => by rw [if_neg (by omega)]), sumTo_zero]
      rw [this]; simp
    · rw [ih (by omega), if_neg h]; simp

/-- splitting off the diagonal term -/
theorem sumTo_split (n c : Nat) (F : Nat → Rat) (hc : c < n) :
    sumTo n F = F c + sumTo n (fun i => if i = c then 0 else F i) := by
  have h1 : sumTo n F = sumTo n (fun i => (if c = i then F c else 0) + (if i = c then 0 else F i)) := by
    apply sumTo_congr
    intro i _
    by_cases h : i = c
    · subst h; simp
    · rw [if_neg (fun e => h e.symm), if_neg h]; simp
  rw [h1, sumTo_add, sumTo_ite_eq n c (F c) hc]

/-! ### triplet lists built from half-faces -/

def cfT (l : List HF) : List Trip := l.map (fun h => (h.face, h.cell, h.sgn))

theorem cellFacesT_eq (g : Grid) : cellFacesT g = cfT g.hf := rfl

theorem entry_scale (T : Nat → Rat) (l : List HF) (f c : Nat) :
    entry (l.map (fun h => (h.face, h.cell, T h.face * h.sgn))) f c = T f * entry (cfT l) f c := by
  induction l with
  | nil => simp [entry, cfT]
  | cons h l ih =>
    simp only [List.map_cons, entry, cfT] at ih ⊢
    rw [ih]
    by_cases hc : h.face = f ∧ h.cell = c
    · rw [if_pos hc, if_pos hc, hc.1]; ring
    · rw [if_neg hc, if_neg hc]; ring

theorem rowApply_scale (T : Nat → Rat) (l : List HF) (f : Nat) (p : Nat → Rat) :
    rowApply (l.map (fun h => (h.face, h.cell, T h.face * h.sgn))) f p = T f * rowApply (cfT l) f p := by
  induction l with
  | nil => simp [rowApply, cfT]
  | cons h l ih =>
    simp only [List.map_cons, rowApply, cfT] at ih ⊢
    rw [ih]
    by_cases hc : h.face = f
    · rw [if_pos hc, if_pos hc, hc]; ring
    · rw [if_neg hc, if_neg hc]; ring

theorem rowApply_cf (l : List HF) (f : Nat) (p : Nat → Rat) :
    rowApply (cfT l) f p = sgnDot (l.filter (fun h => h.face == f)) p := by
  induction l with
  | nil => simp [rowApply, cfT, sgnDot]
  | cons h l ih =>
    simp only [cfT, List.map_cons, rowApply] at ih ⊢
    rw [ih]
    by_cases hc : h.face = f
    · rw [if_pos hc, List.filter_cons_of_pos (by simpa using hc)]; simp [sgnDot]
    · rw [if_neg hc, List.filter_cons_of_neg (by simpa using hc)]; simp

/-- `Σ_{h∈l} [cell_h = c] sgn_h` -/
def incOf : List HF → Nat → Rat
  | [], _ => 0
  | h :: r, c => (if h.cell = c then h.sgn else 0) + incOf r c

theorem entry_cf (l : List HF) (f c : Nat) :
    entry (cfT l) f c = incOf (l.filter (fun h => h.face == f)) c := by
  induction l with
  | nil => simp [entry, cfT, incOf]
  | cons h l ih =>
    simp only [cfT, List.map_cons, entry] at ih ⊢
    rw [ih]
    by_cases hc : h.face = f
    · rw [List.filter_cons_of_pos (by simpa using hc)]
      simp [incOf, hc]
    · rw [List.filter_cons_of_neg (by simpa using hc)]
      simp [hc]

theorem inc_eq (g : Grid) (f c : Nat) : inc g f c = incOf (hfOf g f) c := by
  unfold inc hfOf; rw [cellFacesT_eq, entry_cf]

theorem fluxEntry_eq (g : Grid) (f c : Nat) : entry (fluxT g) f c = trans g f * inc g f c := by
  unfold fluxT inc; rw [entry_scale (trans g), cellFacesT_eq]

theorem sgnDot_const (l : List HF) (c : Rat) : sgnDot l (fun _ => c) = c * sgnSum l := by
  induction l with
  | nil => simp [sgnDot, sgnSum]
  | cons h l ih => simp only [sgnDot, sgnSum, ih]; ring

theorem flux_rowApply (g : Grid) (f : Nat) (p : Nat → Rat) :
    rowApply (fluxT g) f p = trans g f * sgnDot (hfOf g f) p := by
  unfold fluxT hfOf; rw [rowApply_scale (trans g), rowApply_cf]

theorem sumTo_incOf (l : List HF) (n : Nat) (h : ∀ x ∈ l, x.cell < n) : sumTo n (incOf l) = sgnSum l := by
  induction l with
  | nil => simp [incOf, sgnSum]; exact sumTo_zero n
  | cons a l ih =>
    have : incOf (a :: l) = fun c => (if a.cell = c then a.sgn else 0) + incOf l c := by
      funext c; rfl
    rw [this, sumTo_add, sumTo_ite_eq n a.cell a.sgn (h a (by simp)), ih (fun x hx => h x (by simp [hx]))]
    rfl

/-- diagonal matrices given as a list of `(f, f, v f)` without repeated indices -/
theorem rowApply_diag (l : List Nat) (v : Nat → Rat) (f : Nat) (bc : Nat → Rat) (hnd : l.Nodup) :
    rowApply (l.map (fun i => (i, i, v i))) f bc = if f ∈ l then v f * bc f else 0 := by
  induction l with
  | nil => simp [rowApply]
  | cons a l ih =>
    have hnd' := List.nodup_cons.mp hnd
    simp only [List.map_cons, rowApply]
    rw [ih hnd'.2]
    by_cases ha : a = f
    · subst ha
      simp [hnd'.1]
    · have : f ≠ a := fun e => ha e.symm
      simp [ha, this]

theorem rowApply_filter (l : List Trip) (q : Trip → Bool) (f : Nat) (bc : Nat → Rat)
    (hq : ∀ t ∈ l, q t = false → t.2.2 = 0) : rowApply (l.filter q) f bc = rowApply l f bc := by
  induction l with
  | nil => rfl
  | cons t l ih =>
    obtain ⟨a, b, v⟩ := t
    have ih' := ih (fun t ht => hq t (by simp [ht]))
    by_cases hqt : q (a, b, v) = true
    · rw [List.filter_cons_of_pos hqt]; simp only [rowApply, ih']
    · rw [List.filter_cons_of_neg hqt]
      have hv : v = 0 := hq (a, b, v) (by simp) (by simpa using hqt)
      simp only [rowApply, ih', hv]; simp

/-- rows of matrices whose value only depends on the face (`bound_pressure_cell`) -/
theorem rowApply_weight (W : Nat → Rat) (l : List HF) (f : Nat) (p : Nat → Rat) :
    rowApply (l.map (fun h => (h.face, h.cell, W h.face))) f p
      = W f * ((l.filter (fun h => h.face == f)).map (fun h => p h.cell)).sum := by
  induction l with
  | nil => simp [rowApply]
  | cons h l ih =>
    simp only [List.map_cons, rowApply]
    rw [ih]
    by_cases hc : h.face = f
    · rw [if_pos hc, List.filter_cons_of_pos (by simpa using hc), hc]; simp; ring
    · rw [if_neg hc, List.filter_cons_of_neg (by simpa using hc)]; simp

/-! ### vector source -/

theorem rowApply_append (l1 l2 : List Trip) (f : Nat) (v : Nat → Rat) :
    rowApply (l1 ++ l2) f v = rowApply l1 f v + rowApply l2 f v := by
  induction l1 with
  | nil => simp [rowApply]
  | cons t l ih =>
    obtain ⟨a, b, w⟩ := t
    simp only [List.cons_append, rowApply, ih]; ring

theorem rowApply_range (n a : Nat) (b : Nat → Nat) (w : Nat → Rat) (f : Nat) (v : Nat → Rat) :
    rowApply ((List.range n).map (fun k => (a, b k, w k))) f v
      = if a = f then sumTo n (fun k => w k * v (b k)) else 0 := by
  induction n with
  | zero => simp [rowApply, sumTo]
  | succ n ih =>
    rw [List.range_succ, List.map_append, rowApply_append, ih]
    simp only [List.map_cons, List.map_nil, rowApply, sumTo]
    split_ifs <;> ring

theorem vsVec_at (vsd : Nat) (G : V3) (c k : Nat) (hk : k < vsd) : vsVec vsd G (c * vsd + k) = G.get k := by
  unfold vsVec
  rw [Nat.mul_comm, Nat.mul_add_mod, Nat.mod_eq_of_lt hk]

/-- `Σ_{k<vsd} d_k G_k` is the full dot product when the components beyond `vsd` do not contribute -/
theorem sumTo_dot (vsd : Nat) (d G : V3) (h1 : 1 ≤ vsd) (h3 : vsd ≤ 3)
    (hz : ∀ k, vsd ≤ k → k < 3 → d.get k * G.get k = 0) :
    sumTo vsd (fun k => d.get k * G.get k) = d.dot G := by
  have e3 : sumTo 3 (fun k => d.get k * G.get k) = d.dot G := by
    simp only [sumTo, V3.get, V3.dot]; ring
  rcases (by omega : vsd = 1 ∨ vsd = 2 ∨ vsd = 3) with rfl | rfl | rfl
  · have a1 := hz 1 (by omega) (by omega)
    have a2 := hz 2 (by omega) (by omega)
    rw [← e3]; simp only [sumTo, a1, a2]; ring
  · have a2 := hz 2 (by omega) (by omega)
    rw [← e3]; simp only [sumTo, a2]; ring
  · exact e3

theorem vecSrc_rowApply (vsd : Nat) (W : HF → Nat → Rat) (l : List HF) (f : Nat) (v : Nat → Rat) :
    rowApply (l.flatMap (fun h => (List.range vsd).map (fun k => (h.face, h.cell * vsd + k, W h k)))) f v
      = ((l.filter (fun h => h.face == f)).map
          (fun h => sumTo vsd (fun k => W h k * v (h.cell * vsd + k)))).sum := by
  induction l with
  | nil => simp [rowApply]
  | cons h l ih =>
    rw [List.flatMap_cons, rowApply_append, ih, rowApply_range]
    by_cases hc : h.face = f
    · rw [if_pos hc, List.filter_cons_of_pos (by simpa using hc)]; simp
    · rw [if_neg hc, List.filter_cons_of_neg (by simpa using hc)]; simp


theorem vecSrc_inner (g : Grid) (vsd : Nat) (G : V3) (h : HF) (T : Rat) (h1 : 1 ≤ vsd) (h3 : vsd ≤ 3)
    (hz : ∀ k, vsd ≤ k → k < 3 → (dvec g h).get k * G.get k = 0) :
    sumTo vsd (fun k => (T * (dvec g h).get k * h.sgn) * vsVec vsd G (h.cell * vsd + k))
      = T * (h.sgn * (dvec g h).dot G) := by
  rw [← sumTo_dot vsd (dvec g h) G h1 h3 hz, ← sumTo_mul_left, ← sumTo_mul_left]
  apply sumTo_congr
  intro k hk
  rw [vsVec_at vsd G h.cell k hk]; ring

/-- hydrostatic bookkeeping on the half-faces of one face -/
theorem hydro_sum (g : Grid) (f : Nat) (a : Rat) (G : V3) (p : Nat → Rat)
    (hp : ∀ c, p c = a + G.dot (g.cc c)) (l : List HF) (hl : ∀ h ∈ l, h.face = f) :
    sgnDot l p + (l.map (fun h => h.sgn * (dvec g h).dot G)).sum = (a + G.dot (g.fc f)) * sgnSum l := by
  induction l with
  | nil => simp [sgnDot, sgnSum]
  | cons h l ih =>
    have ih' := ih (fun x hx => hl x (by simp [hx]))
    have hf : h.face = f := hl h (by simp)
    simp only [sgnDot, sgnSum, List.map_cons, List.sum_cons]
    have : (dvec g h).dot G = G.dot (g.fc f) - G.dot (g.cc h.cell) := by
      unfold dvec; rw [hf, dot_sub_left, dot_comm (g.cc h.cell) G, dot_comm (g.fc f) G]
    rw [this, hp h.cell]
    linear_combination ih'

/-! ### conservation bookkeeping -/

def tot : List HF → (Nat → Rat) → Rat
  | [], _ => 0
  | h :: r, F => h.sgn * F h.face + tot r F

theorem sum_divApply (l : List HF) (n : Nat) (F : Nat → Rat) (h : ∀ x ∈ l, x.cell < n) :
    sumTo n (fun c => divApply l c F) = tot l F := by
  induction l with
  | nil => simp [divApply, tot]; exact sumTo_zero n
  | cons a l ih =>
    simp only [divApply, tot]
    rw [sumTo_add, sumTo_ite_eq n a.cell _ (h a (by simp)), ih (fun x hx => h x (by simp [hx]))]

theorem sum_faces (l : List HF) (n : Nat) (F : Nat → Rat) (h : ∀ x ∈ l, x.face < n) :
    sumTo n (fun f => sgnSum (l.filter (fun x => x.face == f)) * F f) = tot l F := by
  induction l with
  | nil => simp [sgnSum, tot]; exact sumTo_zero n
  | cons a l ih =>
    have h1 : ∀ f, sgnSum ((a :: l).filter (fun x => x.face == f)) * F f
        = (if a.face = f then a.sgn * F a.face else 0) + sgnSum (l.filter (fun x => x.face == f)) * F f := by
      intro f
      by_cases hc : a.face = f
      · rw [List.filter_cons_of_pos (by simpa using hc), if_pos hc, hc]; simp only [sgnSum]; ring
      · rw [List.filter_cons_of_neg (by simpa using hc), if_neg hc]; ring
    rw [sumTo_congr n _ _ (fun f _ => h1 f), sumTo_add, sumTo_ite_eq n a.face _ (h a (by simp)),
      ih (fun x hx => h x (by simp [hx]))]
    rfl

/-! ### harmonic combination -/

theorem sumInv_pos (ts : List Rat) (h : ∀ t ∈ ts, 0 < t) (hne : ts ≠ []) : 0 < sumInv ts := by
  induction ts with
  | nil => exact absurd rfl hne
  | cons t r ih =>
    simp only [sumInv]
    have ht : 0 < 1 / t := by have := h t (by simp); positivity
    by_cases hr : r = []
    · subst hr; simp only [sumInv]; linarith
    · have := ih (fun x hx => h x (by simp [hx])) hr
      linarith

theorem harmonic_pos (ts : List Rat) (h : ∀ t ∈ ts, 0 < t) (hne : ts ≠ []) : 0 < harmonic ts := by
  unfold harmonic
  have h0 : ¬ (0 : Rat) ∈ ts := fun hm => lt_irrefl _ (h 0 hm)
  rw [if_neg h0]
  have := sumInv_pos ts h hne
  positivity

theorem harmonic_nonneg (ts : List Rat) (h : ∀ t ∈ ts, 0 < t) : 0 ≤ harmonic ts := by
  by_cases hne : ts = []
  · subst hne; simp [harmonic, sumInv]
  · exact le_of_lt (harmonic_pos ts h hne)

theorem harmonic_single (t : Rat) : harmonic [t] = t := by
  unfold harmonic
  by_cases h : t = 0
  · subst h; simp
  · rw [if_neg (by simpa using fun e => h e.symm)]
    simp [sumInv]

theorem harmonic_pair (a b : Rat) (ha : a ≠ 0) (hb : b ≠ 0) : harmonic [a, b] = 1 / (1 / a + 1 / b) := by
  unfold harmonic
  rw [if_neg (by simp; exact ⟨fun e => ha e.symm, fun e => hb e.symm⟩)]
  simp [sumInv]

theorem harmonic_comm (a b : Rat) : harmonic [a, b] = harmonic [b, a] := by
  unfold harmonic
  by_cases h : (0 : Rat) ∈ [a, b]
  · have h' : (0 : Rat) ∈ [b, a] := by simp at h ⊢; tauto
    rw [if_pos h, if_pos h']
  · have h' : ¬ (0 : Rat) ∈ [b, a] := by simp at h ⊢; tauto
    rw [if_neg h, if_neg h']
    simp only [sumInv]; ring_nf

/-! ### half-faces of a face, well-formed grids -/

theorem mem_hfOf {g : Grid} {f : Nat} {h : HF} : h ∈ hfOf g f ↔ h ∈ g.hf ∧ h.face = f := by
  unfold hfOf; simp [List.mem_filter]

theorem faceOK_cases (g : Grid) (f : Nat) (h : faceOK g f = true) :
    (∃ a, hfOf g f = [a] ∧ (a.sgn = 1 ∨ a.sgn = -1) ∧ a.cell < g.nc) ∨
    (∃ a b, hfOf g f = [a, b] ∧ a.cell ≠ b.cell ∧ a.cell < g.nc ∧ b.cell < g.nc ∧
      ((a.sgn = 1 ∧ b.sgn = -1) ∨ (a.sgn = -1 ∧ b.sgn = 1))) := by
  unfold faceOK at h
  split at h
  · rename_i a heq
    left
    refine ⟨a, heq, ?_⟩
    simpa using h
  · rename_i a b heq
    right
    refine ⟨a, b, heq, ?_⟩
    simpa [and_assoc] using h
  · exact absurd h (by simp)

/-- on a well-formed face: distinct cells see the face with opposite (or no) orientation -/
theorem inc_offdiag (g : Grid) (f : Nat) (h : faceOK g f = true) (c1 c2 : Nat) (hne : c1 ≠ c2) :
    inc g f c1 * inc g f c2 ≤ 0 := by
  rw [inc_eq, inc_eq]
  rcases faceOK_cases g f h with ⟨a, heq, _, _⟩ | ⟨a, b, heq, hab, _, _, hs⟩
  · rw [heq]; simp only [incOf]
    by_cases h1 : a.cell = c1
    · have h2 : a.cell ≠ c2 := fun e => hne (h1.symm.trans e)
      simp [h2]
    · simp [h1]
  · rw [heq]; simp only [incOf]
    by_cases ha1 : a.cell = c1 <;> by_cases ha2 : a.cell = c2 <;> by_cases hb1 : b.cell = c1 <;>
      by_cases hb2 : b.cell = c2 <;>
      first
        | (exfalso; omega)
        | (rcases hs with ⟨h1, h2⟩ | ⟨h1, h2⟩ <;> simp [ha1, ha2, hb1, hb2, h1, h2, hne, Ne.symm hne])

/-- on a well-formed face: `D[f,c] * Σ_c' D[f,c'] ≥ 0` (0 on interior faces, 1 on the cell of a boundary face) -/
theorem inc_rowsum (g : Grid) (f : Nat) (h : faceOK g f = true) (c : Nat) :
    0 ≤ inc g f c * sumTo g.nc (fun c' => inc g f c') := by
  have hfun : (fun c' => inc g f c') = incOf (hfOf g f) := by funext c'; exact inc_eq g f c'
  rw [hfun, inc_eq]
  rcases faceOK_cases g f h with ⟨a, heq, hs, hc⟩ | ⟨a, b, heq, _, hca, hcb, hs⟩
  · rw [heq, sumTo_incOf [a] g.nc (by simpa using hc)]
    simp only [incOf, sgnSum]
    by_cases h1 : a.cell = c
    · rcases hs with h2 | h2 <;> simp [h1, h2]
    · simp [h1]
  · rw [heq, sumTo_incOf [a, b] g.nc (by simp [hca, hcb])]
    simp only [sgnSum]
    rcases hs with ⟨h1, h2⟩ | ⟨h1, h2⟩ <;> simp [h1, h2]

/-- on a well-formed face, a cell having the face sees it with orientation ±1 -/
theorem inc_sq_of_mem (g : Grid) (f : Nat) (h : faceOK g f = true) (x : HF) (hx : x ∈ hfOf g f) :
    inc g f x.cell * inc g f x.cell = 1 := by
  rw [inc_eq]
  rcases faceOK_cases g f h with ⟨a, heq, hs, _⟩ | ⟨a, b, heq, hab, _, _, hs⟩
  · rw [heq] at hx ⊢
    have : x = a := by simpa using hx
    subst this
    rcases hs with h2 | h2 <;> simp [incOf, h2]
  · rw [heq] at hx ⊢
    have : x = a ∨ x = b := by simpa using hx
    rcases this with e | e <;> subst e
    · have : b.cell ≠ x.cell := fun e => hab e.symm
      rcases hs with ⟨h1, h2⟩ | ⟨h1, h2⟩ <;> simp [incOf, this, h1]
    · rcases hs with ⟨h1, h2⟩ | ⟨h1, h2⟩ <;> simp [incOf, hab, h2]

/-! ### the two-point flux formula under K-orthogonality (pure algebra) -/

/-- symmetric `K`: `n . (K G) = (K n) . G` -/
theorem symm_dot (K : M3) (hK : K.Symm) (n G : V3) : n.dot (K.mulVec G) = (K.mulVec n).dot G := by
  obtain ⟨h1, h2, h3⟩ := hK
  simp only [V3.dot, M3.mulVec]
  rw [h1, h2, h3]; ring

theorem mulVec_smul (K : M3) (s : Rat) (n : V3) : K.mulVec (V3.smul s n) = V3.smul s (K.mulVec n) := by
  simp only [M3.mulVec, V3.smul, V3.dot]
  congr 1 <;> ring

theorem dot_smul_right (a b : V3) (s : Rat) : a.dot (V3.smul s b) = s * a.dot b := by
  simp only [V3.dot, V3.smul]; ring

theorem dot_smul_left (a b : V3) (s : Rat) : (V3.smul s a).dot b = s * a.dot b := by
  simp only [V3.dot, V3.smul]; ring

theorem dot_sub_left (a b c : V3) : (a.sub b).dot c = a.dot c - b.dot c := by
  simp only [V3.dot, V3.sub]; ring

theorem dot_comm (a b : V3) : a.dot b = b.dot a := by
  simp only [V3.dot]; ring

/-- K-orthogonality makes the half transmissibility equal to the proportionality factor -/
theorem tHalf_of_Korth (g : Grid) (h : HF) (lam : Rat)
    (hK : (g.perm h.cell).mulVec (V3.smul h.sgn (g.normal h.face)) = V3.smul lam (dvec g h))
    (hd : (dvec g h).dot (dvec g h) ≠ 0) : tHalf g h = lam := by
  unfold tHalf
  rw [hK, dot_smul_right]
  field_simp

end PorepyVerif.C12
