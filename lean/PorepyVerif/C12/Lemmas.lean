/-
C12 — helper lemmas: finite sums, triplet lists, harmonic combination, incidence of well-formed grids,
vector source, and the comparison with the C11 MPFA model on K-orthogonal 2-D grids.
-/
import Mathlib.Algebra.Order.Field.Rat
import Mathlib.Tactic.Ring
import Mathlib.Tactic.Linarith
import Mathlib.Tactic.FieldSimp
import Mathlib.Tactic.Positivity
import Mathlib.Tactic.LinearCombination
import PorepyVerif.C11.Lemmas
import PorepyVerif.C12.Model

namespace PorepyVerif.C12

/-! ### `sumTo` -/

theorem sumTo_congr (n : Nat) (F G : Nat → Rat) (h : ∀ i, i < n → F i = G i) : sumTo n F = sumTo n G := by
  induction n with
  | zero => rfl
  | succ n ih =>
    simp only [sumTo]
    rw [ih (fun i hi => h i (Nat.lt_succ_of_lt hi)), h n (Nat.lt_succ_self n)]

theorem sumTo_zero (n : Nat) : sumTo n (fun _ => 0) = 0 := by
  induction n with
  | zero => rfl
  | succ n ih => simp [sumTo, ih]

theorem sumTo_add (n : Nat) (F G : Nat → Rat) : sumTo n (fun i => F i + G i) = sumTo n F + sumTo n G := by
  induction n with
  | zero => simp [sumTo]
  | succ n ih => simp only [sumTo, ih]; ring

theorem sumTo_mul_left (n : Nat) (a : Rat) (F : Nat → Rat) : sumTo n (fun i => a * F i) = a * sumTo n F := by
  induction n with
  | zero => simp [sumTo]
  | succ n ih => simp only [sumTo, ih]; ring

theorem sumTo_nonneg (n : Nat) (F : Nat → Rat) (h : ∀ i, i < n → 0 ≤ F i) : 0 ≤ sumTo n F := by
  induction n with
  | zero => simp [sumTo]
  | succ n ih =>
    simp only [sumTo]
    have := ih (fun i hi => h i (Nat.lt_succ_of_lt hi))
    have := h n (Nat.lt_succ_self n)
    linarith

theorem sumTo_nonpos (n : Nat) (F : Nat → Rat) (h : ∀ i, i < n → F i ≤ 0) : sumTo n F ≤ 0 := by
  induction n with
  | zero => simp [sumTo]
  | succ n ih =>
    simp only [sumTo]
    have := ih (fun i hi => h i (Nat.lt_succ_of_lt hi))
    have := h n (Nat.lt_succ_self n)
    linarith

theorem sumTo_pos (n : Nat) (F : Nat → Rat) (h : ∀ i, i < n → 0 ≤ F i) (k : Nat) (hk : k < n) (hpos : 0 < F k) :
    0 < sumTo n F := by
  induction n with
  | zero => omega
  | succ n ih =>
    simp only [sumTo]
    have h0 := sumTo_nonneg n F (fun i hi => h i (Nat.lt_succ_of_lt hi))
    have hn := h n (Nat.lt_succ_self n)
    by_cases hkn : k = n
    · subst hkn; linarith
    · have := ih (fun i hi => h i (Nat.lt_succ_of_lt hi)) (by omega)
      linarith

theorem sumTo_swap (n m : Nat) (F : Nat → Nat → Rat) :
    sumTo n (fun i => sumTo m (fun j => F i j)) = sumTo m (fun j => sumTo n (fun i => F i j)) := by
  induction n with
  | zero => simp [sumTo, sumTo_zero]
  | succ n ih =>
    simp only [sumTo, ih]
    rw [← sumTo_add]

/-- `Σ_{i<n} [a = i] v = v` when `a < n` -/
theorem sumTo_ite_eq (n a : Nat) (v : Rat) (ha : a < n) : sumTo n (fun i => if a = i then v else 0) = v := by
  induction n with
  | zero => omega
  | succ n ih =>
    simp only [sumTo]
    by_cases h : a = n
    · subst h
      have : sumTo a (fun i => if a = i then v else 0) = 0 := by
        rw [sumTo_congr a _ (fun _ => 0) (fun i hi => by rw [if_neg (by omega)]), sumTo_zero]
      rw [this]; simp
    · rw [ih (by omega), if_neg h]; simp

/-- splitting off the diagonal term -/
theorem sumTo_split (n c : Nat) (F : Nat → Rat) (hc : c < n) :
    sumTo n F = F c + sumTo n (fun i => if i = c then 0 else F i) := by
  have h1 : sumTo n F = sumTo n (fun i => (if c = i then F c else 0) + (if i = c then 0 else F i)) := by
    apply sumTo_congr
    intro i _
    by_cases h : i = c
    · subst h; simp
    · rw [if_neg (fun e => h e.symm), if_neg h]; simp
  rw [h1, sumTo_add, sumTo_ite_eq n c (F c) hc]

/-! ### triplet lists built from half-faces -/

def cfT (l : List HF) : List Trip := l.map (fun h => (h.face, h.cell, h.sgn))

theorem cellFacesT_eq (g : Grid) : cellFacesT g = cfT g.hf := rfl

theorem entry_scale (T : Nat → Rat) (l : List HF) (f c : Nat) :
    entry (l.map (fun h => (h.face, h.cell, T h.face * h.sgn))) f c = T f * entry (cfT l) f c := by
  induction l with
  | nil => simp [entry, cfT]
  | cons h l ih =>
    simp only [List.map_cons, entry, cfT] at ih ⊢
    rw [ih]
    by_cases hc : h.face = f ∧ h.cell = c
    · rw [if_pos hc, if_pos hc, hc.1]; ring
    · rw [if_neg hc, if_neg hc]; ring

theorem rowApply_scale (T : Nat → Rat) (l : List HF) (f : Nat) (p : Nat → Rat) :
    rowApply (l.map (fun h => (h.face, h.cell, T h.face * h.sgn))) f p = T f * rowApply (cfT l) f p := by
  induction l with
  | nil => simp [rowApply, cfT]
  | cons h l ih =>
    simp only [List.map_cons, rowApply, cfT] at ih ⊢
    rw [ih]
    by_cases hc : h.face = f
    · rw [if_pos hc, if_pos hc, hc]; ring
    · rw [if_neg hc, if_neg hc]; ring

theorem rowApply_cf (l : List HF) (f : Nat) (p : Nat → Rat) :
    rowApply (cfT l) f p = sgnDot (l.filter (fun h => h.face == f)) p := by
  induction l with
  | nil => simp [rowApply, cfT, sgnDot]
  | cons h l ih =>
    simp only [cfT, List.map_cons, rowApply] at ih ⊢
    rw [ih]
    by_cases hc : h.face = f
    · rw [if_pos hc, List.filter_cons_of_pos (by simpa using hc)]; simp [sgnDot]
    · rw [if_neg hc, List.filter_cons_of_neg (by simpa using hc)]; simp

/-- `Σ_{h∈l} [cell_h = c] sgn_h` -/
def incOf : List HF → Nat → Rat
  | [], _ => 0
  | h :: r, c => (if h.cell = c then h.sgn else 0) + incOf r c

theorem entry_cf (l : List HF) (f c : Nat) :
    entry (cfT l) f c = incOf (l.filter (fun h => h.face == f)) c := by
  induction l with
  | nil => simp [entry, cfT, incOf]
  | cons h l ih =>
    simp only [cfT, List.map_cons, entry] at ih ⊢
    rw [ih]
    by_cases hc : h.face = f
    · rw [List.filter_cons_of_pos (by simpa using hc)]
      simp [incOf, hc]
    · rw [List.filter_cons_of_neg (by simpa using hc)]
      simp [hc]

theorem inc_eq (g : Grid) (f c : Nat) : inc g f c = incOf (hfOf g f) c := by
  unfold inc hfOf; rw [cellFacesT_eq, entry_cf]

theorem fluxEntry_eq (g : Grid) (f c : Nat) : entry (fluxT g) f c = trans g f * inc g f c := by
  unfold fluxT inc; rw [entry_scale (trans g), cellFacesT_eq]

theorem sgnDot_const (l : List HF) (c : Rat) : sgnDot l (fun _ => c) = c * sgnSum l := by
  induction l with
  | nil => simp [sgnDot, sgnSum]
  | cons h l ih => simp only [sgnDot, sgnSum, ih]; ring

theorem flux_rowApply (g : Grid) (f : Nat) (p : Nat → Rat) :
    rowApply (fluxT g) f p = trans g f * sgnDot (hfOf g f) p := by
  unfold fluxT hfOf; rw [rowApply_scale (trans g), rowApply_cf]

theorem sumTo_incOf (l : List HF) (n : Nat) (h : ∀ x ∈ l, x.cell < n) : sumTo n (incOf l) = sgnSum l := by
  induction l with
  | nil => simp [incOf, sgnSum]; exact sumTo_zero n
  | cons a l ih =>
    have : incOf (a :: l) = fun c => (if a.cell = c then a.sgn else 0) + incOf l c := by
      funext c; rfl
    rw [this, sumTo_add, sumTo_ite_eq n a.cell a.sgn (h a (by simp)), ih (fun x hx => h x (by simp [hx]))]
    rfl

/-- diagonal matrices given as a list of `(f, f, v f)` without repeated indices -/
theorem rowApply_diag (l : List Nat) (v : Nat → Rat) (f : Nat) (bc : Nat → Rat) (hnd : l.Nodup) :
    rowApply (l.map (fun i => (i, i, v i))) f bc = if f ∈ l then v f * bc f else 0 := by
  induction l with
  | nil => simp [rowApply]
  | cons a l ih =>
    have hnd' := List.nodup_cons.mp hnd
    simp only [List.map_cons, rowApply]
    rw [ih hnd'.2]
    by_cases ha : a = f
    · subst ha
      simp [hnd'.1]
    · have : f ≠ a := fun e => ha e.symm
      simp [ha, this]

theorem rowApply_filter (l : List Trip) (q : Trip → Bool) (f : Nat) (bc : Nat → Rat)
    (hq : ∀ t ∈ l, q t = false → t.2.2 = 0) : rowApply (l.filter q) f bc = rowApply l f bc := by
  induction l with
  | nil => rfl
  | cons t l ih =>
    obtain ⟨a, b, v⟩ := t
    have ih' := ih (fun t ht => hq t (by simp [ht]))
    by_cases hqt : q (a, b, v) = true
    · rw [List.filter_cons_of_pos hqt]; simp only [rowApply, ih']
    · rw [List.filter_cons_of_neg hqt]
      have hv : v = 0 := hq (a, b, v) (by simp) (by simpa using hqt)
      simp only [rowApply, ih', hv]; simp

/-- rows of matrices whose value only depends on the face (`bound_pressure_cell`) -/
theorem rowApply_weight (W : Nat → Rat) (l : List HF) (f : Nat) (p : Nat → Rat) :
    rowApply (l.map (fun h => (h.face, h.cell, W h.face))) f p
      = W f * ((l.filter (fun h => h.face == f)).map (fun h => p h.cell)).sum := by
  induction l with
  | nil => simp [rowApply]
  | cons h l ih =>
    simp only [List.map_cons, rowApply]
    rw [ih]
    by_cases hc : h.face = f
    · rw [if_pos hc, List.filter_cons_of_pos (by simpa using hc), hc]; simp; ring
    · rw [if_neg hc, List.filter_cons_of_neg (by simpa using hc)]; simp

/-! ### conservation bookkeeping -/

def tot : List HF → (Nat → Rat) → Rat
  | [], _ => 0
  | h :: r, F => h.sgn * F h.face + tot r F

theorem sum_divApply (l : List HF) (n : Nat) (F : Nat → Rat) (h : ∀ x ∈ l, x.cell < n) :
    sumTo n (fun c => divApply l c F) = tot l F := by
  induction l with
  | nil => simp [divApply, tot]; exact sumTo_zero n
  | cons a l ih =>
    simp only [divApply, tot]
    rw [sumTo_add, sumTo_ite_eq n a.cell _ (h a (by simp)), ih (fun x hx => h x (by simp [hx]))]

theorem sum_faces (l : List HF) (n : Nat) (F : Nat → Rat) (h : ∀ x ∈ l, x.face < n) :
    sumTo n (fun f => sgnSum (l.filter (fun x => x.face == f)) * F f) = tot l F := by
  induction l with
  | nil => simp [sgnSum, tot]; exact sumTo_zero n
  | cons a l ih =>
    have h1 : ∀ f, sgnSum ((a :: l).filter (fun x => x.face == f)) * F f
        = (if a.face = f then a.sgn * F a.face else 0) + sgnSum (l.filter (fun x => x.face == f)) * F f := by
      intro f
      by_cases hc : a.face = f
      · rw [List.filter_cons_of_pos (by simpa using hc), if_pos hc, hc]; simp only [sgnSum]; ring
      · rw [List.filter_cons_of_neg (by simpa using hc), if_neg hc]; ring
    rw [sumTo_congr n _ _ (fun f _ => h1 f), sumTo_add, sumTo_ite_eq n a.face _ (h a (by simp)),
      ih (fun x hx => h x (by simp [hx]))]
    rfl

/-! ### harmonic combination -/

theorem sumInv_pos (ts : List Rat) (h : ∀ t ∈ ts, 0 < t) (hne : ts ≠ []) : 0 < sumInv ts := by
  induction ts with
  | nil => exact absurd rfl hne
  | cons t r ih =>
    simp only [sumInv]
    have ht : 0 < 1 / t := by have := h t (by simp); positivity
    by_cases hr : r = []
    · subst hr; simp only [sumInv]; linarith
    · have := ih (fun x hx => h x (by simp [hx])) hr
      linarith

theorem harmonic_pos (ts : List Rat) (h : ∀ t ∈ ts, 0 < t) (hne : ts ≠ []) : 0 < harmonic ts := by
  unfold harmonic
  have h0 : ¬ (0 : Rat) ∈ ts := fun hm => lt_irrefl _ (h 0 hm)
  rw [if_neg h0]
  have := sumInv_pos ts h hne
  positivity

theorem harmonic_nonneg (ts : List Rat) (h : ∀ t ∈ ts, 0 < t) : 0 ≤ harmonic ts := by
  by_cases hne : ts = []
  · subst hne; simp [harmonic, sumInv]
  · exact le_of_lt (harmonic_pos ts h hne)

theorem harmonic_single (t : Rat) : harmonic [t] = t := by
  unfold harmonic
  by_cases h : t = 0
  · subst h; simp
  · rw [if_neg (by simpa using fun e => h e.symm)]
    simp [sumInv]

theorem harmonic_pair (a b : Rat) (ha : a ≠ 0) (hb : b ≠ 0) : harmonic [a, b] = 1 / (1 / a + 1 / b) := by
  unfold harmonic
  rw [if_neg (by simp; exact ⟨fun e => ha e.symm, fun e => hb e.symm⟩)]
  simp [sumInv]

theorem harmonic_comm (a b : Rat) : harmonic [a, b] = harmonic [b, a] := by
  unfold harmonic
  by_cases h : (0 : Rat) ∈ [a, b]
  · have h' : (0 : Rat) ∈ [b, a] := by simp at h ⊢; tauto
    rw [if_pos h, if_pos h']
  · have h' : ¬ (0 : Rat) ∈ [b, a] := by simp at h ⊢; tauto
    rw [if_neg h, if_neg h']
    simp only [sumInv]; ring_nf

/-! ### half-faces of a face, well-formed grids -/

theorem mem_hfOf {g : Grid} {f : Nat} {h : HF} : h ∈ hfOf g f ↔ h ∈ g.hf ∧ h.face = f := by
  unfold hfOf; simp [List.mem_filter]

theorem faceOK_cases (g : Grid) (f : Nat) (h : faceOK g f = true) :
    (∃ a, hfOf g f = [a] ∧ (a.sgn = 1 ∨ a.sgn = -1) ∧ a.cell < g.nc) ∨
    (∃ a b, hfOf g f = [a, b] ∧ a.cell ≠ b.cell ∧ a.cell < g.nc ∧ b.cell < g.nc ∧
      ((a.sgn = 1 ∧ b.sgn = -1) ∨ (a.sgn = -1 ∧ b.sgn = 1))) := by
  unfold faceOK at h
  split at h
  · rename_i a heq
    left
    refine ⟨a, heq, ?_⟩
    simpa using h
  · rename_i a b heq
    right
    refine ⟨a, b, heq, ?_⟩
    simpa [and_assoc] using h
  · exact absurd h (by simp)

/-- on a well-formed face: distinct cells see the face with opposite (or no) orientation -/
theorem inc_offdiag (g : Grid) (f : Nat) (h : faceOK g f = true) (c1 c2 : Nat) (hne : c1 ≠ c2) :
    inc g f c1 * inc g f c2 ≤ 0 := by
  rw [inc_eq, inc_eq]
  rcases faceOK_cases g f h with ⟨a, heq, _, _⟩ | ⟨a, b, heq, hab, _, _, hs⟩
  · rw [heq]; simp only [incOf]
    by_cases h1 : a.cell = c1
    · have h2 : a.cell ≠ c2 := fun e => hne (h1.symm.trans e)
      simp [h2]
    · simp [h1]
  · rw [heq]; simp only [incOf]
    by_cases ha1 : a.cell = c1 <;> by_cases ha2 : a.cell = c2 <;> by_cases hb1 : b.cell = c1 <;>
      by_cases hb2 : b.cell = c2 <;>
      first
        | (exfalso; omega)
        | (rcases hs with ⟨h1, h2⟩ | ⟨h1, h2⟩ <;> simp [ha1, ha2, hb1, hb2, h1, h2, hne, Ne.symm hne])

/-- on a well-formed face: `D[f,c] * Σ_c' D[f,c'] ≥ 0` (0 on interior faces, 1 on the cell of a boundary face) -/
theorem inc_rowsum (g : Grid) (f : Nat) (h : faceOK g f = true) (c : Nat) :
    0 ≤ inc g f c * sumTo g.nc (fun c' => inc g f c') := by
  have hfun : (fun c' => inc g f c') = incOf (hfOf g f) := by funext c'; exact inc_eq g f c'
  rw [hfun, inc_eq]
  rcases faceOK_cases g f h with ⟨a, heq, hs, hc⟩ | ⟨a, b, heq, _, hca, hcb, hs⟩
  · rw [heq, sumTo_incOf [a] g.nc (by simpa using hc)]
    simp only [incOf, sgnSum]
    by_cases h1 : a.cell = c
    · rcases hs with h2 | h2 <;> simp [h1, h2]
    · simp [h1]
  · rw [heq, sumTo_incOf [a, b] g.nc (by simp [hca, hcb])]
    simp only [sgnSum]
    rcases hs with ⟨h1, h2⟩ | ⟨h1, h2⟩ <;> simp [h1, h2]

/-- on a well-formed face, a cell having the face sees it with orientation ±1 -/
theorem inc_sq_of_mem (g : Grid) (f : Nat) (h : faceOK g f = true) (x : HF) (hx : x ∈ hfOf g f) :
    inc g f x.cell * inc g f x.cell = 1 := by
  rw [inc_eq]
  rcases faceOK_cases g f h with ⟨a, heq, hs, _⟩ | ⟨a, b, heq, hab, _, _, hs⟩
  · rw [heq] at hx ⊢
    have : x = a := by simpa using hx
    subst this
    rcases hs with h2 | h2 <;> simp [incOf, h2]
  · rw [heq] at hx ⊢
    have : x = a ∨ x = b := by simpa using hx
    rcases this with e | e <;> subst e
    · have : b.cell ≠ x.cell := fun e => hab e.symm
      rcases hs with ⟨h1, h2⟩ | ⟨h1, h2⟩ <;> simp [incOf, this, h1]
    · rcases hs with ⟨h1, h2⟩ | ⟨h1, h2⟩ <;> simp [incOf, hab, h2]

/-! ### the two-point flux formula under K-orthogonality (pure algebra) -/

/-- symmetric `K`: `n . (K G) = (K n) . G` -/
theorem symm_dot (K : M3) (hK : K.Symm) (n G : V3) : n.dot (K.mulVec G) = (K.mulVec n).dot G := by
  obtain ⟨h1, h2, h3⟩ := hK
  simp only [V3.dot, M3.mulVec]
  rw [h1, h2, h3]; ring

theorem mulVec_smul (K : M3) (s : Rat) (n : V3) : K.mulVec (V3.smul s n) = V3.smul s (K.mulVec n) := by
  simp only [M3.mulVec, V3.smul, V3.dot]
  congr 1 <;> ring

theorem dot_smul_right (a b : V3) (s : Rat) : a.dot (V3.smul s b) = s * a.dot b := by
  simp only [V3.dot, V3.smul]; ring

theorem dot_smul_left (a b : V3) (s : Rat) : (V3.smul s a).dot b = s * a.dot b := by
  simp only [V3.dot, V3.smul]; ring

theorem dot_sub_left (a b c : V3) : (a.sub b).dot c = a.dot c - b.dot c := by
  simp only [V3.dot, V3.sub]; ring

theorem dot_comm (a b : V3) : a.dot b = b.dot a := by
  simp only [V3.dot]; ring

/-- K-orthogonality makes the half transmissibility equal to the proportionality factor -/
theorem tHalf_of_Korth (g : Grid) (h : HF) (lam : Rat)
    (hK : (g.perm h.cell).mulVec (V3.smul h.sgn (g.normal h.face)) = V3.smul lam (dvec g h))
    (hd : (dvec g h).dot (dvec g h) ≠ 0) : tHalf g h = lam := by
  unfold tHalf
  rw [hK, dot_smul_right]
  field_simp

/-! ### vector source -/

theorem rowApply_append (l1 l2 : List Trip) (f : Nat) (v : Nat → Rat) :
    rowApply (l1 ++ l2) f v = rowApply l1 f v + rowApply l2 f v := by
  induction l1 with
  | nil => simp [rowApply]
  | cons t l ih =>
    obtain ⟨a, b, w⟩ := t
    simp only [List.cons_append, rowApply, ih]; ring

theorem rowApply_range (n a : Nat) (b : Nat → Nat) (w : Nat → Rat) (f : Nat) (v : Nat → Rat) :
    rowApply ((List.range n).map (fun k => (a, b k, w k))) f v
      = if a = f then sumTo n (fun k => w k * v (b k)) else 0 := by
  induction n with
  | zero => simp [rowApply, sumTo]
  | succ n ih =>
    rw [List.range_succ, List.map_append, rowApply_append, ih]
    simp only [List.map_cons, List.map_nil, rowApply, sumTo]
    split_ifs <;> ring

theorem vsVec_at (vsd : Nat) (G : V3) (c k : Nat) (hk : k < vsd) : vsVec vsd G (c * vsd + k) = G.get k := by
  unfold vsVec
  rw [Nat.mul_comm, Nat.mul_add_mod, Nat.mod_eq_of_lt hk]

/-- `Σ_{k<vsd} d_k G_k` is the full dot product when the components beyond `vsd` do not contribute -/
theorem sumTo_dot (vsd : Nat) (d G : V3) (h1 : 1 ≤ vsd) (h3 : vsd ≤ 3)
    (hz : ∀ k, vsd ≤ k → k < 3 → d.get k * G.get k = 0) :
    sumTo vsd (fun k => d.get k * G.get k) = d.dot G := by
  have e3 : sumTo 3 (fun k => d.get k * G.get k) = d.dot G := by
    simp only [sumTo, V3.get, V3.dot]; ring
  rcases (by omega : vsd = 1 ∨ vsd = 2 ∨ vsd = 3) with rfl | rfl | rfl
  · have a1 := hz 1 (by omega) (by omega)
    have a2 := hz 2 (by omega) (by omega)
    rw [← e3]; simp only [sumTo, a1, a2]; ring
  · have a2 := hz 2 (by omega) (by omega)
    rw [← e3]; simp only [sumTo, a2]; ring
  · exact e3

theorem vecSrc_rowApply (vsd : Nat) (W : HF → Nat → Rat) (l : List HF) (f : Nat) (v : Nat → Rat) :
    rowApply (l.flatMap (fun h => (List.range vsd).map (fun k => (h.face, h.cell * vsd + k, W h k)))) f v
      = ((l.filter (fun h => h.face == f)).map
          (fun h => sumTo vsd (fun k => W h k * v (h.cell * vsd + k)))).sum := by
  induction l with
  | nil => simp [rowApply]
  | cons h l ih =>
    rw [List.flatMap_cons, rowApply_append, ih, rowApply_range]
    by_cases hc : h.face = f
    · rw [if_pos hc, List.filter_cons_of_pos (by simpa using hc)]; simp
    · rw [if_neg hc, List.filter_cons_of_neg (by simpa using hc)]; simp


theorem vecSrc_inner (g : Grid) (vsd : Nat) (G : V3) (h : HF) (T : Rat) (h1 : 1 ≤ vsd) (h3 : vsd ≤ 3)
    (hz : ∀ k, vsd ≤ k → k < 3 → (dvec g h).get k * G.get k = 0) :
    sumTo vsd (fun k => (T * (dvec g h).get k * h.sgn) * vsVec vsd G (h.cell * vsd + k))
      = T * (h.sgn * (dvec g h).dot G) := by
  rw [← sumTo_dot vsd (dvec g h) G h1 h3 hz, ← sumTo_mul_left, ← sumTo_mul_left]
  apply sumTo_congr
  intro k hk
  rw [vsVec_at vsd G h.cell k hk]; ring

/-- hydrostatic bookkeeping on the half-faces of one face -/
theorem hydro_sum (g : Grid) (f : Nat) (a : Rat) (G : V3) (p : Nat → Rat)
    (hp : ∀ c, p c = a + G.dot (g.cc c)) (l : List HF) (hl : ∀ h ∈ l, h.face = f) :
    sgnDot l p + (l.map (fun h => h.sgn * (dvec g h).dot G)).sum = (a + G.dot (g.fc f)) * sgnSum l := by
  induction l with
  | nil => simp [sgnDot, sgnSum]
  | cons h l ih =>
    have ih' := ih (fun x hx => hl x (by simp [hx]))
    have hf : h.face = f := hl h (by simp)
    simp only [sgnDot, sgnSum, List.map_cons, List.sum_cons]
    have : (dvec g h).dot G = G.dot (g.fc f) - G.dot (g.cc h.cell) := by
      unfold dvec; rw [hf, dot_sub_left, dot_comm (g.cc h.cell) G, dot_comm (g.fc f) G]
    rw [this, hp h.cell]
    linear_combination ih'

/-! ### decidable grid-level predicates -/

theorem wellFormedB_iff (g : Grid) : wellFormedB g = true ↔ WellFormed g := by
  simp [wellFormedB, WellFormed, List.all_eq_true]

/-- a vector parallel to `d ≠ 0` is the multiple `(d.v / d.d) d` -/
theorem parallel_eq (v d : V3) (hc : v.cross d = ⟨0, 0, 0⟩) (hd : d.dot d ≠ 0) :
    v = V3.smul (d.dot v / d.dot d) d := by
  obtain ⟨vx, vy, vz⟩ := v
  obtain ⟨dx, dy, dz⟩ := d
  simp only [V3.cross, V3.mk.injEq] at hc
  obtain ⟨h1, h2, h3⟩ := hc
  simp only [V3.dot] at hd
  simp only [V3.smul, V3.dot, V3.mk.injEq]
  refine ⟨?_, ?_, ?_⟩
  · rw [div_mul_eq_mul_div, eq_div_iff hd]; linear_combination (-dz) * h2 + dy * h3
  · rw [div_mul_eq_mul_div, eq_div_iff hd]; linear_combination dz * h1 + (-dx) * h3
  · rw [div_mul_eq_mul_div, eq_div_iff hd]; linear_combination (-dy) * h1 + dx * h2

theorem korthHF_spec (g : Grid) (h : HF) (hk : korthHF g h = true) :
    (g.perm h.cell).mulVec (V3.smul h.sgn (g.normal h.face)) = V3.smul (tHalf g h) (dvec g h) ∧
    (dvec g h).dot (dvec g h) ≠ 0 := by
  simp only [korthHF, Bool.and_eq_true, beq_iff_eq, bne_iff_ne] at hk
  exact ⟨parallel_eq _ _ hk.1 hk.2, hk.2⟩

theorem bndOK_spec (g : Grid) (hb : bndOK g = true) :
    g.bndr.Nodup ∧
    (∀ f ∈ g.bndr, f < g.nf ∧ (hfOf g f).length = 1 ∧ (neuAll g f = true ∨ dirEff g f = true)) ∧
    (∀ f, f < g.nf → f ∉ g.bndr → (hfOf g f).length = 2 ∧ neuAll g f = false) := by
  simp only [bndOK, Bool.and_eq_true, decide_eq_true_eq, List.all_eq_true, List.mem_range, beq_iff_eq,
    Bool.or_eq_true, Bool.not_eq_true'] at hb
  obtain ⟨⟨h1, h2⟩, h3⟩ := hb
  refine ⟨h1, fun f hf => ⟨(h2 f hf).1.1, (h2 f hf).1.2, (h2 f hf).2⟩, ?_⟩
  intro f hf hnb
  rcases h3 f hf with h | h
  · exact absurd h hnb
  · exact h

theorem korthGrid_spec (g : Grid) (K : M3) (hk : korthGrid g K = true) :
    (∀ h ∈ g.hf, g.perm h.cell = K ∧ korthHF g h = true ∧ tHalf g h ≠ 0) ∧
    (∀ f, f < g.nf → ∀ h1 h2, hfOf g f = [h1, h2] → tHalf g h1 + tHalf g h2 ≠ 0) := by
  simp only [korthGrid, Bool.and_eq_true, List.all_eq_true, List.mem_range, beq_iff_eq, bne_iff_ne] at hk
  refine ⟨fun h hh => ⟨(hk.1 h hh).1.1, (hk.1 h hh).1.2, (hk.1 h hh).2⟩, ?_⟩
  intro f hf h1 h2 heq
  have := hk.2 f hf
  rw [heq] at this
  simpa using this

theorem bsgn_interior (g : Grid) (hwf : WellFormed g) (hb : bndOK g = true) (f : Nat) (hnb : f ∉ g.bndr) :
    bsgn g f = 0 := by
  obtain ⟨_, hbl, hil⟩ := bndOK_spec g hb
  by_cases hf : f < g.nf
  · rcases faceOK_cases g f (hwf.1 f hf) with ⟨h, heq, _, _⟩ | ⟨h1, h2, heq, _, _, _, hs⟩
    · have := (hil f hf hnb).1
      rw [heq] at this; simp at this
    · unfold bsgn; rw [heq]; simp only [sgnSum]
      rcases hs with ⟨e1, e2⟩ | ⟨e1, e2⟩ <;> rw [e1, e2] <;> norm_num
  · have : hfOf g f = [] := by
      unfold hfOf
      apply List.filter_eq_nil_iff.mpr
      intro h hh
      have := hwf.2 h hh
      simp; omega
    simp [bsgn, this, sgnSum]

theorem dot_self_zero (d : V3) (h0 : d.dot d = 0) : d = ⟨0, 0, 0⟩ := by
  obtain ⟨x, y, z⟩ := d
  simp only [V3.dot] at h0
  have hx : x = 0 := by nlinarith [mul_self_nonneg x, mul_self_nonneg y, mul_self_nonneg z]
  have hy : y = 0 := by nlinarith [mul_self_nonneg x, mul_self_nonneg y, mul_self_nonneg z]
  have hz : z = 0 := by nlinarith [mul_self_nonneg x, mul_self_nonneg y, mul_self_nonneg z]
  rw [hx, hy, hz]

theorem dot_self_pos (d : V3) (h0 : d.dot d ≠ 0) : 0 < d.dot d := by
  obtain ⟨x, y, z⟩ := d
  simp only [V3.dot] at h0 ⊢
  exact lt_of_le_of_ne (by nlinarith [mul_self_nonneg x, mul_self_nonneg y, mul_self_nonneg z]) (Ne.symm h0)


/-! ### TPFA vs. the certified 2-D MPFA model of C11 on K-orthogonal grids

Strategy: under `KorthOK` the flux functional of every half-face only sees `g . d` (`nKg_korth`); at a
corner of a cell two faces meet with independent `d`'s, so Cramer's rule gives a sub-cell gradient with
prescribed `g . d = π_f - p_c` for both faces (`grad_dot`), where `π_f` is the two-point face pressure
(`facePi`).  These gradients satisfy every row of every interaction region (`tp_consistent`); the regions
are certified nonsingular, so they ARE the MPFA solution (`C11.cert_solution`), whose sub-face fluxes add
up to the two-point flux `tp2` (`mpfa_eq_tp2`).  On the other side the TPFA model on the converted grid
evaluates to the same `tp2` (`tpfa_eq_tp2`). -/
section VsMpfa
open PorepyVerif.C11


theorem len2 (x : Vec) (h : x.length = 2) : ∃ a b, x = [a, b] := by
  match x, h with
  | [a, b], _ => exact ⟨a, b, rfl⟩

theorem len2' {α : Type} (x : List α) (h : x.length = 2) : ∃ a b, x = [a, b] := by
  match x, h with
  | [a, b], _ => exact ⟨a, b, rfl⟩

/-- Cramer's rule for two planar vectors -/
def cramer : Vec → Vec → Rat → Rat → Vec
  | [a, b], [c, d], r1, r2 => [(r1 * d - r2 * b) / (a * d - b * c), (a * r2 - c * r1) / (a * d - b * c)]
  | _, _, _, _ => [0, 0]

theorem cramer_len (x y : Vec) (r1 r2 : Rat) : (cramer x y r1 r2).length = 2 := by
  unfold cramer; split <;> rfl

theorem cramer_dot (x y : Vec) (r1 r2 : Rat) (hx : x.length = 2) (hy : y.length = 2) (hd : det2 x y ≠ 0) :
    C11.dot (cramer x y r1 r2) x = r1 ∧ C11.dot (cramer x y r1 r2) y = r2 := by
  obtain ⟨a, b, rfl⟩ := len2 x hx
  obtain ⟨c, d, rfl⟩ := len2 y hy
  simp only [det2] at hd
  simp only [cramer, C11.dot_cons, C11.dot_nil_left]
  constructor <;>
  · rw [div_mul_eq_mul_div, div_mul_eq_mul_div, add_zero, ← add_div, div_eq_iff hd]; ring


/-! extraction of the parts of `KorthOK` -/
theorem korthOK_eta (G : Grid2) (h : KorthOK G = true) : G.eta = 0 := by
  simp only [KorthOK, Bool.and_eq_true, beq_iff_eq] at h; exact h.1.1

theorem korthOK_face (G : Grid2) (h : KorthOK G = true) (f : Nat) (hf : f < G.numFaces) :
    faceKorth G f = true := by
  simp only [KorthOK, Bool.and_eq_true, List.all_eq_true, List.mem_range] at h; exact h.1.2 f hf

theorem korthOK_corner (G : Grid2) (h : KorthOK G = true) (v : Nat) (hv : v < G.numNodes) (c : Nat)
    (hc : c ∈ G.cellsOf v) : cornerOK G v c = true := by
  simp only [KorthOK, Bool.and_eq_true, List.all_eq_true, List.mem_range] at h; exact h.2 v hv c hc

theorem faceKorth_bnd (G : Grid2) (f c : Nat) (s : Rat) (hl : G.fcells f = [(c, s)])
    (h : faceKorth G f = true) :
    (s = 1 ∨ s = -1) ∧ th2 G f c s ≠ 0 ∧
      vecMat 2 (G.fnAt f) (G.permAt c) = C11.smul (s * th2 G f c s) (dvec2 G f c) := by
  unfold faceKorth at h; rw [hl] at h
  simpa [korthAt, and_assoc] using h

theorem faceKorth_int (G : Grid2) (f c1 c2 : Nat) (s1 s2 : Rat) (hl : G.fcells f = [(c1, s1), (c2, s2)])
    (h : faceKorth G f = true) :
    (s1 = 1 ∨ s1 = -1) ∧ s2 = -s1 ∧ th2 G f c1 s1 ≠ 0 ∧ th2 G f c2 s2 ≠ 0 ∧
      th2 G f c1 s1 + th2 G f c2 s2 ≠ 0 ∧
      vecMat 2 (G.fnAt f) (G.permAt c1) = C11.smul (s1 * th2 G f c1 s1) (dvec2 G f c1) ∧
      vecMat 2 (G.fnAt f) (G.permAt c2) = C11.smul (s2 * th2 G f c2 s2) (dvec2 G f c2) := by
  unfold faceKorth at h; rw [hl] at h
  simpa [korthAt, and_assoc] using h

/-! lengths from `Grid2.WF` -/
theorem wf_fn (G : Grid2) (hwf : G.WF) (f : Nat) (hf : f < G.numFaces) : (G.fnAt f).length = 2 := by
  obtain ⟨_, _, hfn, _, _, _, _, hfns, _⟩ := hwf
  exact hfns _ (getD_mem' G.faceNormals f [] (by rw [hfn]; exact hf))
theorem wf_fc (G : Grid2) (hwf : G.WF) (f : Nat) (hf : f < G.numFaces) : (G.fcAt f).length = 2 := by
  obtain ⟨_, hfcen, _, _, _, _, hfcs, _⟩ := hwf
  exact hfcs _ (getD_mem' G.faceCenters f [] (by rw [hfcen]; exact hf))
theorem wf_cc (G : Grid2) (hwf : G.WF) (c : Nat) (hc : c < G.numCells) : (G.ccAt c).length = 2 := by
  obtain ⟨_, _, _, _, _, hcc, _⟩ := hwf
  exact hcc _ (getD_mem' G.cellCenters c [] hc)
theorem wf_perm (G : Grid2) (hwf : G.WF) (c : Nat) (hc : c < G.numCells) :
    (G.permAt c).length = 2 ∧ ∀ r ∈ G.permAt c, r.length = 2 := by
  obtain ⟨_, _, _, hperm, _, _, _, _, hK, _⟩ := hwf
  exact hK _ (getD_mem' G.perm c [] (by rw [hperm]; exact hc))
theorem wf_node (G : Grid2) (hwf : G.WF) (v : Nat) (hv : v < G.numNodes) : (G.nodeAt v).length = 2 := by
  obtain ⟨_, _, _, _, hnodes, _⟩ := hwf
  exact hnodes _ (getD_mem' G.nodes v [] hv)
theorem wf_dvec (G : Grid2) (hwf : G.WF) (f c : Nat) (hf : f < G.numFaces) (hc : c < G.numCells) :
    (dvec2 G f c).length = 2 := by
  unfold dvec2
  rw [length_vsub _ _ (by rw [wf_fc G hwf f hf, wf_cc G hwf c hc]), wf_fc G hwf f hf]

/-- the flux functional of a K-orthogonal half-face only sees the directional difference along `d` -/
theorem nKg_korth (G : Grid2) (hwf : G.WF) (f c : Nat) (hc : c < G.numCells) (lam a : Rat)
    (hk : vecMat 2 (G.fnAt f) (G.permAt c) = C11.smul lam (dvec2 G f c)) (g : Vec) :
    nKg (C11.smul a (G.fnAt f)) (G.permAt c) g = a * (lam * C11.dot g (dvec2 G f c)) := by
  unfold nKg
  rw [C11.dot_smul_left, ← dot_vecMat 2 _ _ _ (wf_perm G hwf c hc).2, hk, C11.dot_smul_left, C11.dot_comm]

/-! the two-point solution of an interaction region -/

/-- face pressure of the two-point scheme -/
def facePi (G : Grid2) (p bc : List Rat) (f : Nat) : Rat :=
  match G.fcells f with
  | [(c, s)] => if G.dirAt f then bc.getD f 0 else p.getD c 0 - bc.getD f 0 / th2 G f c s
  | [(c1, s1), (c2, s2)] =>
      (th2 G f c1 s1 * p.getD c1 0 + th2 G f c2 s2 * p.getD c2 0) / (th2 G f c1 s1 + th2 G f c2 s2)
  | _ => 0

def gradAt (G : Grid2) (p bc : List Rat) (v c : Nat) : Vec :=
  match cfaces G v c with
  | [f1, f2] => cramer (dvec2 G f1 c) (dvec2 G f2 c)
      (facePi G p bc f1 - p.getD c 0) (facePi G p bc f2 - p.getD c 0)
  | _ => [0, 0]

def gradFnAt (G : Grid2) (p bc : List Rat) (v : Nat) : Nat → Vec :=
  fun i => gradAt G p bc v ((G.cellsOf v).getD i 0)

theorem gradAt_len (G : Grid2) (p bc : List Rat) (v c : Nat) : (gradAt G p bc v c).length = 2 := by
  unfold gradAt; split
  · exact cramer_len _ _ _ _
  · rfl

theorem mem_cellsOf_of (G : Grid2) (v f c : Nat) (s : Rat) (hf : f ∈ G.facesOf v)
    (hcs : (c, s) ∈ G.fcells f) (hc : c < G.numCells) : c ∈ G.cellsOf v :=
  (G.mem_cellsOf v c).mpr ⟨hc, f, hf, s, hcs⟩

theorem grad_dot (G : Grid2) (hwf : G.WF) (hK : KorthOK G = true) (p bc : List Rat) (v : Nat)
    (hv : v < G.numNodes) (f c : Nat) (s : Rat) (hf : f ∈ G.facesOf v) (hcs : (c, s) ∈ G.fcells f)
    (hc : c < G.numCells) :
    C11.dot (gradAt G p bc v c) (dvec2 G f c) = facePi G p bc f - p.getD c 0 := by
  have hcm := mem_cellsOf_of G v f c s hf hcs hc
  have hco := korthOK_corner G hK v hv c hcm
  have hfm : f ∈ cfaces G v c := by
    unfold cfaces
    rw [List.mem_filter]
    refine ⟨hf, ?_⟩
    rw [List.any_eq_true]
    exact ⟨(c, s), hcs, by simp⟩
  unfold cornerOK at hco
  unfold gradAt
  split at hco
  · rename_i f1 f2 heq
    rw [heq] at hfm ⊢
    have hd : det2 (dvec2 G f1 c) (dvec2 G f2 c) ≠ 0 := by simpa using hco
    have hmem : ∀ x, x ∈ cfaces G v c → x < G.numFaces := by
      intro x hx
      unfold cfaces at hx
      exact ((G.mem_facesOf v x).mp (List.mem_filter.mp hx).1).1
    have h1 := wf_dvec G hwf f1 c (hmem f1 (by rw [heq]; simp)) hc
    have h2 := wf_dvec G hwf f2 c (hmem f2 (by rw [heq]; simp)) hc
    have := cramer_dot (dvec2 G f1 c) (dvec2 G f2 c) (facePi G p bc f1 - p.getD c 0)
      (facePi G p bc f2 - p.getD c 0) h1 h2 hd
    have hff : f = f1 ∨ f = f2 := by simpa using hfm
    rcases hff with rfl | rfl
    · exact this.1
    · exact this.2
  · exact absurd hco (by simp)

theorem getD_loc (G : Grid2) (v c : Nat) (hc : c ∈ G.cellsOf v) : (G.cellsOf v).getD (G.loc v c) 0 = c := by
  unfold Grid2.loc
  rw [List.getD_eq_getElem?_getD, List.getElem?_eq_getElem (List.idxOf_lt_length_of_mem hc)]
  simp

theorem cellAt_loc (G : Grid2) (p bc : List Rat) (v c : Nat) (hc : c ∈ G.cellsOf v) :
    (G.region p bc v).cellAt (G.loc v c) = G.mkCell p c := by
  unfold Region.cellAt Grid2.region
  simp only
  rw [List.getD_eq_getElem?_getD, List.getElem?_map,
    List.getElem?_eq_getElem (by exact G.loc_lt v c hc)]
  simp [Grid2.loc]

theorem gradFnAt_loc (G : Grid2) (p bc : List Rat) (v c : Nat) (hc : c ∈ G.cellsOf v) :
    gradFnAt G p bc v (G.loc v c) = gradAt G p bc v c := by
  unfold gradFnAt; rw [getD_loc G v c hc]


theorem vadd_smul_zero (x y : Vec) (h : x.length = y.length) : vadd x (C11.smul 0 y) = x := by
  induction x generalizing y with
  | nil => simp
  | cons a x ih =>
    cases y with
    | nil => simp at h
    | cons b y => simp at h; simp [ih y h]

/-- the explicit two-point flux on the C11 grid structure -/
def tp2 (G : Grid2) (p bc : List Rat) (f : Nat) : Rat :=
  match G.fcells f with
  | [(c, s)] => if G.dirAt f then s * th2 G f c s * (p.getD c 0 - bc.getD f 0) else s * bc.getD f 0
  | [(c1, s1), (c2, s2)] =>
      s1 * (1 / (1 / th2 G f c1 s1 + 1 / th2 G f c2 s2)) * (p.getD c1 0 - p.getD c2 0)
  | _ => 0

/-- the two-point gradients satisfy every row of every interaction region -/
theorem tp_consistent (G : Grid2) (hwf : G.WF) (hK : KorthOK G = true) (p bc : List Rat) (v : Nat)
    (hv : v < G.numNodes) : (G.region p bc v).Consistent (gradFnAt G p bc v) := by
  intro sf hsf
  simp only [Grid2.region, List.mem_map] at hsf
  obtain ⟨f, hf0, rfl⟩ := hsf
  obtain ⟨hflt, hvf⟩ := (G.mem_facesOf v f).mp hf0
  have hfk := korthOK_face G hK f hflt
  rcases G.fcells_cases hwf f hflt with ⟨c, s, hl, hc⟩ | ⟨c1, s1, c2, s2, hl, hc1, hc2, hne⟩
  · have hcs : (c, s) ∈ G.fcells f := by rw [hl]; simp
    have hcm := mem_cellsOf_of G v f c s hf0 hcs hc
    obtain ⟨hs, hth, hko⟩ := faceKorth_bnd G f c s hl hfk
    have hgd := grad_dot G hwf hK p bc v hv f c s hf0 hcs hc
    rw [G.mkFace_bnd bc v f c s hl]
    by_cases hd : G.dirAt f = true
    · rw [if_pos hd]
      show presAt ((G.region p bc v).cellAt (G.loc v c)) (gradFnAt G p bc v (G.loc v c)) (G.fcAt f)
        = bc.getD f 0
      rw [cellAt_loc G p bc v c hcm, gradFnAt_loc G p bc v c hcm]
      have hpi : facePi G p bc f = bc.getD f 0 := by unfold facePi; rw [hl]; simp [hd]
      show p.getD c 0 + C11.dot (gradAt G p bc v c) (dvec2 G f c) = _
      rw [hgd, hpi]; ring
    · rw [if_neg hd]
      show s * nKg (C11.smul (1 / G.nN f) (G.fnAt f)) ((G.region p bc v).cellAt (G.loc v c)).K
          (gradFnAt G p bc v (G.loc v c)) = -(bc.getD f 0 / G.nN f)
      rw [cellAt_loc G p bc v c hcm, gradFnAt_loc G p bc v c hcm]
      show s * nKg (C11.smul (1 / G.nN f) (G.fnAt f)) (G.permAt c) (gradAt G p bc v c) = _
      have hpi : facePi G p bc f = p.getD c 0 - bc.getD f 0 / th2 G f c s := by
        unfold facePi; rw [hl]; simp [hd]
      rw [nKg_korth G hwf f c hc _ _ hko, hgd, hpi]
      rcases hs with rfl | rfl <;> field_simp <;> ring
  · have hcs1 : (c1, s1) ∈ G.fcells f := by rw [hl]; simp
    have hcs2 : (c2, s2) ∈ G.fcells f := by rw [hl]; simp
    have hm1 := mem_cellsOf_of G v f c1 s1 hf0 hcs1 hc1
    have hm2 := mem_cellsOf_of G v f c2 s2 hf0 hcs2 hc2
    obtain ⟨hs, hs2, ht1, ht2, hsum, hk1, hk2⟩ := faceKorth_int G f c1 c2 s1 s2 hl hfk
    have hg1 := grad_dot G hwf hK p bc v hv f c1 s1 hf0 hcs1 hc1
    have hg2 := grad_dot G hwf hK p bc v hv f c2 s2 hf0 hcs2 hc2
    have hxc : vadd (G.fcAt f) (C11.smul G.eta (vsub (G.nodeAt v) (G.fcAt f))) = G.fcAt f := by
      rw [korthOK_eta G hK]
      apply vadd_smul_zero
      rw [length_vsub _ _ (by rw [wf_node G hwf v hv, wf_fc G hwf f hflt]), wf_node G hwf v hv,
        wf_fc G hwf f hflt]
    rw [G.mkFace_int bc v f c1 c2 s1 s2 hl, hxc]
    show nKg (C11.smul (1 / G.nN f) (G.fnAt f)) ((G.region p bc v).cellAt (G.loc v c1)).K
          (gradFnAt G p bc v (G.loc v c1))
        = nKg (C11.smul (1 / G.nN f) (G.fnAt f)) ((G.region p bc v).cellAt (G.loc v c2)).K
          (gradFnAt G p bc v (G.loc v c2)) ∧
      presAt ((G.region p bc v).cellAt (G.loc v c1)) (gradFnAt G p bc v (G.loc v c1)) (G.fcAt f)
        = presAt ((G.region p bc v).cellAt (G.loc v c2)) (gradFnAt G p bc v (G.loc v c2)) (G.fcAt f)
    rw [cellAt_loc G p bc v c1 hm1, gradFnAt_loc G p bc v c1 hm1, cellAt_loc G p bc v c2 hm2,
      gradFnAt_loc G p bc v c2 hm2]
    have hpi : facePi G p bc f = (th2 G f c1 s1 * p.getD c1 0 + th2 G f c2 s2 * p.getD c2 0)
        / (th2 G f c1 s1 + th2 G f c2 s2) := by unfold facePi; rw [hl]
    constructor
    · show nKg (C11.smul (1 / G.nN f) (G.fnAt f)) (G.permAt c1) (gradAt G p bc v c1)
        = nKg (C11.smul (1 / G.nN f) (G.fnAt f)) (G.permAt c2) (gradAt G p bc v c2)
      rw [nKg_korth G hwf f c1 hc1 _ _ hk1, nKg_korth G hwf f c2 hc2 _ _ hk2, hg1, hg2, hpi]
      generalize th2 G f c1 s1 = t1 at ht1 hsum ⊢
      generalize th2 G f c2 s2 = t2 at ht2 hsum ⊢
      rw [hs2]
      field_simp
      ring
    · show p.getD c1 0 + C11.dot (gradAt G p bc v c1) (dvec2 G f c1)
        = p.getD c2 0 + C11.dot (gradAt G p bc v c2) (dvec2 G f c2)
      rw [hg1, hg2]; ring


theorem sum_map_const {α : Type} (l : List α) (c : Rat) : (l.map (fun _ => c)).sum = (l.length : Rat) * c := by
  induction l with
  | nil => simp
  | cons a l ih => simp only [List.map_cons, List.sum_cons, ih, List.length_cons]; push_cast; ring

/-- sub-face flux of the two-point gradients: the `N`-th part of the two-point face flux -/
theorem tp_subflux (G : Grid2) (hwf : G.WF) (hK : KorthOK G = true) (p bc : List Rat) (v : Nat)
    (hv : v < G.numNodes) (f : Nat) (hf0 : f ∈ G.facesOf v) :
    (G.mkFace bc v f).flux (G.region p bc v) (gradFnAt G p bc v) = 1 / G.nN f * tp2 G p bc f := by
  obtain ⟨hflt, hvf⟩ := (G.mem_facesOf v f).mp hf0
  have hfk := korthOK_face G hK f hflt
  rcases G.fcells_cases hwf f hflt with ⟨c, s, hl, hc⟩ | ⟨c1, s1, c2, s2, hl, hc1, hc2, hne⟩
  · have hcs : (c, s) ∈ G.fcells f := by rw [hl]; simp
    have hcm := mem_cellsOf_of G v f c s hf0 hcs hc
    obtain ⟨hs, hth, hko⟩ := faceKorth_bnd G f c s hl hfk
    have hgd := grad_dot G hwf hK p bc v hv f c s hf0 hcs hc
    rw [G.mkFace_bnd bc v f c s hl]
    by_cases hd : G.dirAt f = true
    · rw [if_pos hd]
      show -(nKg (C11.smul (1 / G.nN f) (G.fnAt f)) ((G.region p bc v).cellAt (G.loc v c)).K
          (gradFnAt G p bc v (G.loc v c))) = _
      rw [cellAt_loc G p bc v c hcm, gradFnAt_loc G p bc v c hcm]
      show -(nKg (C11.smul (1 / G.nN f) (G.fnAt f)) (G.permAt c) (gradAt G p bc v c)) = _
      have hpi : facePi G p bc f = bc.getD f 0 := by unfold facePi; rw [hl]; simp [hd]
      have htp : tp2 G p bc f = s * th2 G f c s * (p.getD c 0 - bc.getD f 0) := by
        unfold tp2; rw [hl]; simp [hd]
      rw [nKg_korth G hwf f c hc _ _ hko, hgd, hpi, htp]; ring
    · rw [if_neg hd]
      show -(nKg (C11.smul (1 / G.nN f) (G.fnAt f)) ((G.region p bc v).cellAt (G.loc v c)).K
          (gradFnAt G p bc v (G.loc v c))) = _
      rw [cellAt_loc G p bc v c hcm, gradFnAt_loc G p bc v c hcm]
      show -(nKg (C11.smul (1 / G.nN f) (G.fnAt f)) (G.permAt c) (gradAt G p bc v c)) = _
      have hpi : facePi G p bc f = p.getD c 0 - bc.getD f 0 / th2 G f c s := by
        unfold facePi; rw [hl]; simp [hd]
      have htp : tp2 G p bc f = s * bc.getD f 0 := by unfold tp2; rw [hl]; simp [hd]
      rw [nKg_korth G hwf f c hc _ _ hko, hgd, hpi, htp]
      field_simp
      ring
  · have hcs1 : (c1, s1) ∈ G.fcells f := by rw [hl]; simp
    have hm1 := mem_cellsOf_of G v f c1 s1 hf0 hcs1 hc1
    obtain ⟨hs, hs2, ht1, ht2, hsum, hk1, hk2⟩ := faceKorth_int G f c1 c2 s1 s2 hl hfk
    have hg1 := grad_dot G hwf hK p bc v hv f c1 s1 hf0 hcs1 hc1
    rw [G.mkFace_int bc v f c1 c2 s1 s2 hl]
    show -(nKg (C11.smul (1 / G.nN f) (G.fnAt f)) ((G.region p bc v).cellAt (G.loc v c1)).K
        (gradFnAt G p bc v (G.loc v c1))) = _
    rw [cellAt_loc G p bc v c1 hm1, gradFnAt_loc G p bc v c1 hm1]
    show -(nKg (C11.smul (1 / G.nN f) (G.fnAt f)) (G.permAt c1) (gradAt G p bc v c1)) = _
    have hpi : facePi G p bc f = (th2 G f c1 s1 * p.getD c1 0 + th2 G f c2 s2 * p.getD c2 0)
        / (th2 G f c1 s1 + th2 G f c2 s2) := by unfold facePi; rw [hl]
    have htp : tp2 G p bc f = s1 * (1 / (1 / th2 G f c1 s1 + 1 / th2 G f c2 s2))
        * (p.getD c1 0 - p.getD c2 0) := by unfold tp2; rw [hl]
    rw [nKg_korth G hwf f c1 hc1 _ _ hk1, hg1, hpi, htp]
    generalize th2 G f c1 s1 = t1 at ht1 hsum ⊢
    generalize th2 G f c2 s2 = t2 at ht2 hsum ⊢
    have hsum' : t2 + t1 ≠ 0 := by rwa [add_comm]
    field_simp
    ring

/-- **MPFA = two-point formula** under K-orthogonality: the certified MPFA solution of every interaction
    region is the two-point one (uniqueness), hence the assembled face flux is the two-point flux. -/
theorem mpfa_eq_tp2 (G : Grid2) (hwf : G.WF) (hK : KorthOK G = true) (p bc : List Rat) (Ls : List Mat)
    (hcert : G.certs = some Ls) (f : Nat) (hf : f < G.numFaces) :
    G.faceFlux (G.nodeSols Ls p bc) bc f = tp2 G p bc f := by
  obtain ⟨hne, hnodes⟩ := hwf.2.2.2.2.2.2.2.2.2.1 _ (getD_mem' G.faceNodes f [] hf)
  change G.fnodes f ≠ [] at hne
  change ∀ v ∈ G.fnodes f, v < G.numNodes at hnodes
  have hN : ((G.fnodes f).length : Rat) ≠ 0 := by
    have : (G.fnodes f).length ≠ 0 := fun h0 => hne (List.length_eq_zero_iff.mp h0)
    exact_mod_cast this
  unfold Grid2.faceFlux
  have hterm : ∀ v ∈ G.fnodes f,
      (G.mkFace bc v f).flux (Grid2.nodeSolAt (G.nodeSols Ls p bc) v).R
          (gradFn (Grid2.nodeSolAt (G.nodeSols Ls p bc) v).Gs) = 1 / G.nN f * tp2 G p bc f := by
    intro v hv
    have hvn := hnodes v hv
    have hf0 : f ∈ G.facesOf v := (G.mem_facesOf v f).mpr ⟨hf, hv⟩
    rw [G.nodeSolAt_nodeSols Ls p bc v hvn]
    have hRwf := G.region_wf hwf p bc v hvn
    have hsol := cert_solution 2 _ _ hRwf (G.certs_ok Ls hcert p bc v hvn) (gradFnAt G p bc v)
      (fun _ => gradAt_len G p bc v _) (tp_consistent G hwf hK p bc v hvn)
    show (G.mkFace bc v f).flux (G.region p bc v) (gradFn (chunks 2 (G.region p bc v).cells.length
      (mulVec (Ls.getD v []) ((G.region p bc v).rhs 2)))) = _
    rw [hsol, ← tp_subflux G hwf hK p bc v hvn f hf0]
    have hmem : G.mkFace bc v f ∈ (G.region p bc v).faces := by
      simp only [Grid2.region, List.mem_map]
      exact ⟨f, hf0, rfl⟩
    have hi := idxOK_first _ _ (hRwf.2 _ hmem).2.2
    unfold SubFace.flux
    rw [gradFn_tabulate _ _ _ hi]
  rw [List.map_congr_left hterm, sum_map_const]
  unfold Grid2.nN
  field_simp


theorem filter_flatMap_range (F : Nat → List HF) (hF : ∀ k, ∀ h ∈ F k, h.face = k) (n f : Nat) :
    ((List.range n).flatMap F).filter (fun h => h.face == f) = if f < n then F f else [] := by
  induction n with
  | zero => simp
  | succ n ih =>
    rw [List.range_succ, List.flatMap_append, List.filter_append, ih]
    simp only [List.flatMap_cons, List.flatMap_nil, List.append_nil]
    by_cases hfn : f = n
    · subst hfn
      have : (F f).filter (fun h => h.face == f) = F f := by
        apply List.filter_eq_self.mpr
        intro h hh; simpa using hF f h hh
      simp [this]
    · have : (F n).filter (fun h => h.face == f) = [] := by
        apply List.filter_eq_nil_iff.mpr
        intro h hh
        have := hF n h hh
        simp; omega
      rw [this]
      by_cases hlt : f < n
      · simp [hlt, Nat.lt_succ_of_lt hlt]
      · have : ¬ f < n + 1 := by omega
        simp [hlt, this]

theorem hfOf_ofGrid2 (G : Grid2) (f : Nat) (hf : f < G.numFaces) :
    hfOf (ofGrid2 G) f = (G.fcells f).map (fun cs => (⟨f, cs.1, cs.2⟩ : HF)) := by
  unfold hfOf ofGrid2
  simp only
  rw [filter_flatMap_range (fun f => (G.fcells f).map (fun cs => (⟨f, cs.1, cs.2⟩ : HF))) (by
    intro k h hh
    simp only [List.mem_map] at hh
    obtain ⟨cs, _, rfl⟩ := hh
    rfl) G.numFaces f, if_pos hf]

theorem len2mat (K : Mat) (h : K.length = 2 ∧ ∀ r ∈ K, r.length = 2) :
    ∃ a b c d, K = [[a, b], [c, d]] := by
  obtain ⟨r1, r2, rfl⟩ := len2' K h.1
  obtain ⟨a, b, rfl⟩ := len2 r1 (h.2 r1 (by simp))
  obtain ⟨c, d, rfl⟩ := len2 r2 (h.2 r2 (by simp))
  exact ⟨a, b, c, d, rfl⟩


theorem tHalf_ofGrid2 (G : Grid2) (hwf : G.WF) (f c : Nat) (s : Rat) (hf : f < G.numFaces)
    (hc : c < G.numCells) : tHalf (ofGrid2 G) ⟨f, c, s⟩ = th2 G f c s := by
  obtain ⟨n1, n2, hn⟩ := len2 _ (wf_fn G hwf f hf)
  obtain ⟨x1, x2, hx⟩ := len2 _ (wf_fc G hwf f hf)
  obtain ⟨y1, y2, hy⟩ := len2 _ (wf_cc G hwf c hc)
  obtain ⟨a, b, c', d, hk⟩ := len2mat _ (wf_perm G hwf c hc)
  simp only [tHalf, dvec, ofGrid2, th2, dvec2]
  rw [hn, hx, hy, hk]
  simp only [v3, m3, V3.dot, V3.sub, V3.smul, M3.mulVec, C11.dot_cons, C11.dot_nil_left, C11.vsub_cons,
    C11.vsub_nil_left, C11.smul_cons, C11.smul_nil, C11.mulVec_cons, C11.mulVec_nil]
  congr 1 <;> ring

theorem nodup_bndr (G : Grid2) : (ofGrid2 G).bndr.Nodup := List.Nodup.filter _ List.nodup_range

theorem mem_bndr (G : Grid2) (f : Nat) : f ∈ (ofGrid2 G).bndr ↔ f < G.numFaces ∧ G.isBoundary f = true := by
  simp [ofGrid2, List.mem_filter]

/-- **TPFA model = two-point formula** on the converted grid -/
theorem tpfa_eq_tp2 (G : Grid2) (hwf : G.WF) (hK : KorthOK G = true) (p bc : List Rat) (f : Nat)
    (hf : f < G.numFaces) :
    faceFlux (ofGrid2 G) f (fun c => p.getD c 0) (fun f => bc.getD f 0) = tp2 G p bc f := by
  have hfk := korthOK_face G hK f hf
  unfold faceFlux boundFluxT
  rw [flux_rowApply, rowApply_diag _ (fun f => tB (ofGrid2 G) f * bsgn (ofGrid2 G) f) f _ (nodup_bndr G)]
  unfold bsgn
  rw [hfOf_ofGrid2 G f hf]
  rcases G.fcells_cases hwf f hf with ⟨c, s, hl, hc⟩ | ⟨c1, s1, c2, s2, hl, hc1, hc2, hne⟩
  · obtain ⟨hs, hth, hko⟩ := faceKorth_bnd G f c s hl hfk
    have hb : G.isBoundary f = true := by simp [Grid2.isBoundary, hl]
    have hfull : tFull (ofGrid2 G) f = th2 G f c s := by
      unfold tFull; rw [hfOf_ofGrid2 G f hf, hl]
      simp only [List.map_cons, List.map_nil, tHalf_ofGrid2 G hwf f c s hf hc]
      exact harmonic_single _
    rw [if_pos ((mem_bndr G f).mpr ⟨hf, hb⟩), hl]
    by_cases hd : G.dirAt f = true
    · have htp : tp2 G p bc f = s * th2 G f c s * (p.getD c 0 - bc.getD f 0) := by
        unfold tp2; rw [hl]; simp [hd]
      have hneu : neuAll (ofGrid2 G) f = false := by simp [neuAll, ofGrid2, hd]
      have hdir : dirEff (ofGrid2 G) f = true := by simp [dirEff, ofGrid2, hd, hb]
      simp only [trans, tB, hneu, hdir, hfull, htp, List.map_cons, List.map_nil, sgnDot, sgnSum,
        Bool.false_eq_true, if_false, if_true]
      ring
    · have htp : tp2 G p bc f = s * bc.getD f 0 := by unfold tp2; rw [hl]; simp [hd]
      have hneu : neuAll (ofGrid2 G) f = true := by simp [neuAll, ofGrid2, hd, hb]
      simp only [trans, tB, hneu, htp, List.map_cons, List.map_nil, sgnDot, sgnSum, if_true]
      ring
  · obtain ⟨hs, hs2, ht1, ht2, hsum, hk1, hk2⟩ := faceKorth_int G f c1 c2 s1 s2 hl hfk
    have hb : G.isBoundary f = false := by simp [Grid2.isBoundary, hl]
    have hnb : f ∉ (ofGrid2 G).bndr := fun h => by
      have := ((mem_bndr G f).mp h).2; rw [hb] at this; cases this
    have hfull : tFull (ofGrid2 G) f = 1 / (1 / th2 G f c1 s1 + 1 / th2 G f c2 s2) := by
      unfold tFull; rw [hfOf_ofGrid2 G f hf, hl]
      simp only [List.map_cons, List.map_nil, tHalf_ofGrid2 G hwf f c1 s1 hf hc1,
        tHalf_ofGrid2 G hwf f c2 s2 hf hc2]
      exact harmonic_pair _ _ ht1 ht2
    have htp : tp2 G p bc f = s1 * (1 / (1 / th2 G f c1 s1 + 1 / th2 G f c2 s2))
        * (p.getD c1 0 - p.getD c2 0) := by unfold tp2; rw [hl]
    have hneu : neuAll (ofGrid2 G) f = false := by simp [neuAll, ofGrid2, hb]
    rw [if_neg hnb, hl]
    simp only [trans, hneu, hfull, htp, List.map_cons, List.map_nil, sgnDot, hs2, Bool.false_eq_true,
      if_false]
    ring


theorem rowApply_indicator (tr : List Trip) (i k : Nat) :
    rowApply tr i (fun j => if j = k then 1 else 0) = entry tr i k := by
  induction tr with
  | nil => rfl
  | cons t tr ih =>
    obtain ⟨a, b, w⟩ := t
    simp only [rowApply, entry, ih]
    by_cases ha : a = i <;> by_cases hb : b = k <;> simp [ha, hb]

theorem rowApply_zero (tr : List Trip) (i : Nat) : rowApply tr i (fun _ => 0) = 0 := by
  induction tr with
  | nil => rfl
  | cons t tr ih => obtain ⟨a, b, w⟩ := t; simp [rowApply, ih]

theorem getD_unit (n k j : Nat) (hk : k < n) : (Grid2.unit n k).getD j 0 = if j = k then 1 else 0 := by
  unfold Grid2.unit
  by_cases hj : j < n
  · rw [getD_map_range _ n j 0 hj]
  · rw [List.getD_eq_getElem?_getD, List.getElem?_eq_none (by simpa using Nat.le_of_not_lt hj)]
    have : j ≠ k := by omega
    simp [this]

end VsMpfa

end PorepyVerif.C12
