/-
C12 — property theorems (statements only depend on Model.lean; helper lemmas in Lemmas.lean).

Property: for any grid and permeability, the TPFA cell-cell operator (divergence of the flux matrix) is
symmetric, each face flux is single-valued, and a constant pressure with matching Dirichlet data gives zero
flux.  On Cartesian and tensor grids with diagonal permeability it has positive diagonal and non-positive
off-diagonal entries [and its flux and boundary-flux matrices coincide with those of MPFA], and with constant
permeability it reproduces linear pressures exactly.

All statements are about the matrices `fluxT`, `boundFluxT`, `bpCellT`, `bpFaceT` the model of
`Tpfa.discretize` produces, for EVERY grid `g` (topology = any list of half-faces, any geometry, any
tensor, any boundary flags).  "Cartesian / tensor grid with diagonal permeability" enters through what it
is used for: well-formed incidence + positive half transmissibilities (`tpfa_Mmatrix`) and K-orthogonality
`K n = λ d` (`tpfa_exact_*`; on such grids `n` and `d` are parallel to a coordinate axis, an eigenvector of a
diagonal `K`).  The bracketed MPFA clause has no Lean counterpart here (no MPFA model in this check): it is
verified by the oracle on the real code only.
-/
import PorepyVerif.C12.Lemmas

namespace PorepyVerif.C12

/-- The cell-cell operator `div * flux = D T Dᵀ` is symmetric: for every topology, geometry, tensor and
    boundary condition. -/
theorem tpfa_symmetric (g : Grid) (c1 c2 : Nat) : cellOp g c1 c2 = cellOp g c2 c1 := by
  unfold cellOp
  apply sumTo_congr
  intro f _
  rw [fluxEntry_eq, fluxEntry_eq]; ring

/-- Single-valued face flux: row `f` of the flux matrix is ONE scalar `t_f` times row `f` of the incidence
    matrix — entrywise, and as an operator on cell pressures. -/
theorem tpfa_single_valued (g : Grid) (f : Nat) :
    (∀ c, entry (fluxT g) f c = trans g f * inc g f c) ∧
    (∀ p, rowApply (fluxT g) f p = trans g f * sgnDot (hfOf g f) p) :=
  ⟨fun c => fluxEntry_eq g f c, fun p => flux_rowApply g f p⟩

/-- … on a face shared by two cells with opposite orientation the flux is `± t_f (p_left - p_right)`;
    `t_f` is the harmonic combination of the two half transmissibilities and does not depend on which cell
    comes first. -/
theorem tpfa_single_valued_interior (g : Grid) (f : Nat) (h1 h2 : HF) (p : Nat → Rat)
    (hhf : hfOf g f = [h1, h2]) (hs : h2.sgn = - h1.sgn) :
    rowApply (fluxT g) f p = h1.sgn * trans g f * (p h1.cell - p h2.cell) ∧
    tFull g f = harmonic [tHalf g h1, tHalf g h2] ∧
    harmonic [tHalf g h1, tHalf g h2] = harmonic [tHalf g h2, tHalf g h1] := by
  refine ⟨?_, ?_, harmonic_comm _ _⟩
  · rw [flux_rowApply, hhf]; simp only [sgnDot, hs]; ring
  · unfold tFull; rw [hhf]; rfl

/-- Local conservation: if the orientations of the half-faces of every non-boundary face cancel, the net
    outflow summed over all cells equals the flux through the boundary faces, for any face fluxes `F`
    (what leaves one cell through an interior face enters its neighbour). -/
theorem tpfa_conservative (g : Grid) (F : Nat → Rat)
    (hr : ∀ h ∈ g.hf, h.cell < g.nc ∧ h.face < g.nf)
    (hint : ∀ f, f ∉ g.bndr → bsgn g f = 0) :
    sumTo g.nc (fun c => divApply g.hf c F)
      = sumTo g.nf (fun f => if f ∈ g.bndr then bsgn g f * F f else 0) := by
  rw [sum_divApply g.hf g.nc F (fun x hx => (hr x hx).1), ← sum_faces g.hf g.nf F (fun x hx => (hr x hx).2)]
  apply sumTo_congr
  intro f _
  by_cases hb : f ∈ g.bndr
  · rw [if_pos hb]; rfl
  · rw [if_neg hb]
    have := hint f hb
    unfold bsgn hfOf at this
    rw [this]; ring

/-- Constant pressure with matching Dirichlet data (and zero Neumann data) gives zero flux on EVERY face.
    Hypotheses: boundary faces are listed once, orientations cancel on non-boundary faces, every boundary
    face is Dirichlet or Neumann. -/
theorem tpfa_const_zero_flux (g : Grid) (c : Rat) (bc : Nat → Rat)
    (hnd : g.bndr.Nodup)
    (hint : ∀ f, f ∉ g.bndr → bsgn g f = 0)
    (hb : ∀ f ∈ g.bndr, neuAll g f = true ∨ dirEff g f = true)
    (hdir : ∀ f, neuAll g f = false → dirEff g f = true → bc f = c)
    (hneu : ∀ f, neuAll g f = true → bc f = 0) :
    ∀ f, faceFlux g f (fun _ => c) bc = 0 := by
  intro f
  unfold faceFlux boundFluxT
  rw [flux_rowApply, sgnDot_const, rowApply_diag g.bndr (fun f => tB g f * bsgn g f) f bc hnd]
  show trans g f * (c * bsgn g f) + _ = 0
  by_cases hn : neuAll g f = true
  · have h0 := hneu f hn
    simp only [trans, tB, hn, h0, if_true]
    split_ifs <;> ring
  · have hn' : neuAll g f = false := by simpa using hn
    by_cases hbd : f ∈ g.bndr
    · rcases hb f hbd with h | h
      · exact absurd h hn
      · rw [if_pos hbd, hdir f hn' h]
        simp only [trans, tB, hn', h, if_true]
        simp only [Bool.false_eq_true, if_false]; ring
    · rw [if_neg hbd, hint f hbd]; ring

/-- M-matrix structure.  On a well-formed grid (every face has one cell, or two distinct cells with
    opposite orientation) whose half transmissibilities are all positive (Cartesian / tensor grids with a
    positive diagonal tensor; more generally K-orthogonal grids), `A = div * flux` has
    non-positive off-diagonal entries, non-negative diagonal entries — positive for every cell that has a
    face which is not Neumann — and is weakly diagonally dominant
    (`Σ_{c' ≠ c} |A c c'| = Σ_{c' ≠ c} -A c c' ≤ A c c`). -/
theorem tpfa_Mmatrix (g : Grid) (hwf : WellFormed g) (hpos : ∀ h ∈ g.hf, 0 < tHalf g h) :
    (∀ c1 c2, c1 ≠ c2 → cellOp g c1 c2 ≤ 0) ∧
    (∀ c, 0 ≤ cellOp g c c) ∧
    (∀ c, (∃ h ∈ g.hf, h.cell = c ∧ neuAll g h.face = false) → 0 < cellOp g c c) ∧
    (∀ c, c < g.nc → sumTo g.nc (fun c2 => if c2 = c then 0 else - cellOp g c c2) ≤ cellOp g c c) := by
  have hfull : ∀ f, 0 ≤ tFull g f := fun f =>
    harmonic_nonneg _ (by
      intro t ht
      obtain ⟨h, hh, rfl⟩ := List.mem_map.mp ht
      exact hpos h (mem_hfOf.mp hh).1)
  have ht : ∀ f, 0 ≤ trans g f := by
    intro f; unfold trans; split_ifs
    · exact le_refl 0
    · exact hfull f
  have hA : ∀ c1 c2, cellOp g c1 c2 = sumTo g.nf (fun f => trans g f * (inc g f c1 * inc g f c2)) := by
    intro c1 c2
    unfold cellOp
    apply sumTo_congr
    intro f _
    rw [fluxEntry_eq]; ring
  have hoff : ∀ c1 c2, c1 ≠ c2 → cellOp g c1 c2 ≤ 0 := by
    intro c1 c2 hne
    rw [hA]
    apply sumTo_nonpos
    intro f hf
    have := inc_offdiag g f (hwf.1 f hf) c1 c2 hne
    have := ht f
    nlinarith
  have hterm : ∀ c f, 0 ≤ trans g f * (inc g f c * inc g f c) := fun c f =>
    mul_nonneg (ht f) (mul_self_nonneg _)
  refine ⟨hoff, ?_, ?_, ?_⟩
  · intro c
    rw [hA]
    exact sumTo_nonneg _ _ (fun f _ => hterm c f)
  · rintro c ⟨h, hh, hc, hneu⟩
    rw [hA]
    have hf := hwf.2 h hh
    apply sumTo_pos _ _ (fun f _ => hterm c f) h.face hf
    have hmem : h ∈ hfOf g h.face := mem_hfOf.mpr ⟨hh, rfl⟩
    have hsq := inc_sq_of_mem g h.face (hwf.1 _ hf) h hmem
    rw [← hc, hsq]
    have : 0 < tFull g h.face := by
      unfold tFull
      apply harmonic_pos
      · intro t ht'
        obtain ⟨x, hx, rfl⟩ := List.mem_map.mp ht'
        exact hpos x (mem_hfOf.mp hx).1
      · intro e
        have : tHalf g h ∈ (hfOf g h.face).map (tHalf g) := List.mem_map.mpr ⟨h, hmem, rfl⟩
        rw [e] at this; cases this
    unfold trans
    rw [hneu]; simpa using this
  · intro c hc
    -- the row sum is non-negative: `Σ_{c2} A c c2 = Σ_f t_f D[f,c] (Σ_{c2} D[f,c2])`
    have hrow : 0 ≤ sumTo g.nc (fun c2 => cellOp g c c2) := by
      have h1 : sumTo g.nc (fun c2 => cellOp g c c2)
          = sumTo g.nf (fun f => trans g f * (inc g f c * sumTo g.nc (fun c2 => inc g f c2))) := by
        have : (fun c2 => cellOp g c c2)
            = fun c2 => sumTo g.nf (fun f => trans g f * (inc g f c * inc g f c2)) := by
          funext c2; exact hA c c2
        rw [this, sumTo_swap]
        apply sumTo_congr
        intro f _
        rw [← sumTo_mul_left, ← sumTo_mul_left]
      rw [h1]
      apply sumTo_nonneg
      intro f hf
      exact mul_nonneg (ht f) (inc_rowsum g f (hwf.1 f hf) c)
    rw [sumTo_split g.nc c _ hc] at hrow
    have h2 : sumTo g.nc (fun c2 => if c2 = c then 0 else - cellOp g c c2)
        = - sumTo g.nc (fun c2 => if c2 = c then 0 else cellOp g c c2) := by
      have : (fun c2 => if c2 = c then (0 : Rat) else - cellOp g c c2)
          = fun c2 => (-1 : Rat) * (if c2 = c then 0 else cellOp g c c2) := by
        funext c2; split_ifs <;> ring
      rw [this, sumTo_mul_left]; ring
    rw [h2]; linarith

/-- Where the positivity hypothesis of `tpfa_Mmatrix` comes from on Cartesian / tensor grids with diagonal
    permeability: there the outward normal of every half-face is a positive multiple of the vector from the
    cell centre to the face centre, and for a diagonal tensor with positive entries this makes the half
    transmissibility positive. -/
theorem tpfa_thalf_pos_diagK (g : Grid) (h : HF) (k0 k1 k2 al : Rat)
    (hK : g.perm h.cell = ⟨⟨k0, 0, 0⟩, ⟨0, k1, 0⟩, ⟨0, 0, k2⟩⟩)
    (h0 : 0 < k0) (h1 : 0 < k1) (h2 : 0 < k2)
    (hn : V3.smul h.sgn (g.normal h.face) = V3.smul al (dvec g h)) (hal : 0 < al)
    (hd : (dvec g h).dot (dvec g h) ≠ 0) :
    0 < tHalf g h := by
  unfold tHalf
  rw [hK, hn]
  generalize dvec g h = d at hd ⊢
  obtain ⟨x, y, z⟩ := d
  simp only [V3.dot, M3.mulVec, V3.smul] at hd ⊢
  have hx := mul_self_nonneg x
  have hy := mul_self_nonneg y
  have hz := mul_self_nonneg z
  have hdd : 0 < x * x + y * y + z * z := lt_of_le_of_ne (by linarith) (Ne.symm hd)
  apply div_pos _ hdd
  have e : x * (k0 * (al * x) + 0 * (al * y) + 0 * (al * z)) + y * (0 * (al * x) + k1 * (al * y) + 0 * (al * z))
      + z * (0 * (al * x) + 0 * (al * y) + k2 * (al * z)) = al * (k0 * (x * x) + k1 * (y * y) + k2 * (z * z)) := by ring
  rw [e]
  apply mul_pos hal
  by_cases hx0 : x = 0
  · by_cases hy0 : y = 0
    · have hz0 : 0 < z * z := by subst hx0; subst hy0; simpa using hdd
      have := mul_pos h2 hz0
      have := mul_nonneg h0.le hx
      have := mul_nonneg h1.le hy
      linarith
    · have hy1 : 0 < y * y := lt_of_le_of_ne hy (Ne.symm (mul_self_ne_zero.mpr hy0))
      have := mul_pos h1 hy1
      have := mul_nonneg h0.le hx
      have := mul_nonneg h2.le hz
      linarith
  · have hx1 : 0 < x * x := lt_of_le_of_ne hx (Ne.symm (mul_self_ne_zero.mpr hx0))
    have := mul_pos h0 hx1
    have := mul_nonneg h1.le hy
    have := mul_nonneg h2.le hz
    linarith

/-- Exactness on K-orthogonal grids, interior face.  Constant symmetric `K`, both half-faces K-orthogonal
    (`K n_i = λ_i d_i` with `n_i` the outward normal and `d_i` the vector from the cell centre to the face
    centre), affine pressure `p(x) = a + G.x` at the two cell centres: the two-point flux across the face
    equals the exact Darcy flux `-n . K G` (`n` the stored face normal, its length the face area). -/
theorem tpfa_exact_Korth (g : Grid) (f : Nat) (h1 h2 : HF) (K : M3) (lam1 lam2 a : Rat) (G : V3)
    (p : Nat → Rat)
    (hhf : hfOf g f = [h1, h2]) (hs1 : h1.sgn * h1.sgn = 1) (hs2 : h2.sgn = - h1.sgn)
    (hnn : neuAll g f = false)
    (hK1 : g.perm h1.cell = K) (hK2 : g.perm h2.cell = K) (hsym : K.Symm)
    (ho1 : K.mulVec (V3.smul h1.sgn (g.normal f)) = V3.smul lam1 (dvec g h1))
    (ho2 : K.mulVec (V3.smul h2.sgn (g.normal f)) = V3.smul lam2 (dvec g h2))
    (hd1 : (dvec g h1).dot (dvec g h1) ≠ 0) (hd2 : (dvec g h2).dot (dvec g h2) ≠ 0)
    (hl1 : lam1 ≠ 0) (hl2 : lam2 ≠ 0) (hl : lam1 + lam2 ≠ 0)
    (hp1 : p h1.cell = a + G.dot (g.cc h1.cell)) (hp2 : p h2.cell = a + G.dot (g.cc h2.cell)) :
    rowApply (fluxT g) f p = - (g.normal f).dot (K.mulVec G) := by
  have hf1 : h1.face = f := (mem_hfOf.mp (by rw [hhf]; simp : h1 ∈ hfOf g f)).2
  have hf2 : h2.face = f := (mem_hfOf.mp (by rw [hhf]; simp : h2 ∈ hfOf g f)).2
  have ht1 : tHalf g h1 = lam1 := tHalf_of_Korth g h1 lam1 (by rw [hK1, hf1]; exact ho1) hd1
  have ht2 : tHalf g h2 = lam2 := tHalf_of_Korth g h2 lam2 (by rw [hK2, hf2]; exact ho2) hd2
  have htr : trans g f = 1 / (1 / lam1 + 1 / lam2) := by
    unfold trans tFull
    rw [hnn, hhf]
    simp only [List.map_cons, List.map_nil, ht1, ht2, Bool.false_eq_true, if_false]
    exact harmonic_pair lam1 lam2 hl1 hl2
  -- scalar consequences of K-orthogonality
  have e1 : h1.sgn * (K.mulVec (g.normal f)).dot G = lam1 * (dvec g h1).dot G := by
    have := congrArg (fun v => V3.dot v G) ho1
    simpa [mulVec_smul, dot_smul_left] using this
  have e2 : h2.sgn * (K.mulVec (g.normal f)).dot G = lam2 * (dvec g h2).dot G := by
    have := congrArg (fun v => V3.dot v G) ho2
    simpa [mulVec_smul, dot_smul_left] using this
  have d1 : (dvec g h1).dot G = (g.fc f).dot G - G.dot (g.cc h1.cell) := by
    unfold dvec; rw [hf1, dot_sub_left, dot_comm (g.cc h1.cell) G]
  have d2 : (dvec g h2).dot G = (g.fc f).dot G - G.dot (g.cc h2.cell) := by
    unfold dvec; rw [hf2, dot_sub_left, dot_comm (g.cc h2.cell) G]
  rw [flux_rowApply, hhf, htr, symm_dot K hsym]
  simp only [sgnDot, hp1, hp2]
  rw [d1] at e1; rw [d2] at e2; rw [hs2] at e2 ⊢
  generalize (K.mulVec (g.normal f)).dot G = X at e1 e2 ⊢
  generalize G.dot (g.cc h1.cell) = A1 at e1 ⊢
  generalize G.dot (g.cc h2.cell) = A2 at e2 ⊢
  generalize (g.fc f).dot G = Fc at e1 e2
  generalize h1.sgn = s at hs1 e1 e2 ⊢
  have hA1 : A1 = Fc - s * X / lam1 := by field_simp; linarith
  have hA2 : A2 = Fc + s * X / lam2 := by field_simp; linarith
  rw [hA1, hA2]
  have hsum : lam2 + lam1 ≠ 0 := by rwa [add_comm]
  field_simp
  linear_combination (-(lam1 + lam2) * X) * hs1

/-- Exactness on K-orthogonal grids, Dirichlet boundary face: with the boundary value of the affine pressure
    at the face centre, `flux * p + bound_flux * bc` is the exact Darcy flux. -/
theorem tpfa_exact_Korth_dirichlet (g : Grid) (f : Nat) (h : HF) (K : M3) (lam a : Rat) (G : V3)
    (p bc : Nat → Rat)
    (hhf : hfOf g f = [h]) (hs : h.sgn * h.sgn = 1)
    (hnd : g.bndr.Nodup) (hb : f ∈ g.bndr)
    (hnn : neuAll g f = false) (hdir : dirEff g f = true)
    (hK : g.perm h.cell = K) (hsym : K.Symm)
    (ho : K.mulVec (V3.smul h.sgn (g.normal f)) = V3.smul lam (dvec g h))
    (hd : (dvec g h).dot (dvec g h) ≠ 0)
    (hp : p h.cell = a + G.dot (g.cc h.cell)) (hbc : bc f = a + G.dot (g.fc f)) :
    faceFlux g f p bc = - (g.normal f).dot (K.mulVec G) := by
  have hf1 : h.face = f := (mem_hfOf.mp (by rw [hhf]; simp : h ∈ hfOf g f)).2
  have ht : tHalf g h = lam := tHalf_of_Korth g h lam (by rw [hK, hf1]; exact ho) hd
  have hfull : tFull g f = lam := by
    unfold tFull; rw [hhf]; simp only [List.map_cons, List.map_nil, ht]; exact harmonic_single lam
  have e : h.sgn * (K.mulVec (g.normal f)).dot G = lam * (dvec g h).dot G := by
    have := congrArg (fun v => V3.dot v G) ho
    simpa [mulVec_smul, dot_smul_left] using this
  have d : (dvec g h).dot G = G.dot (g.fc f) - G.dot (g.cc h.cell) := by
    unfold dvec; rw [hf1, dot_sub_left, dot_comm (g.cc h.cell) G, dot_comm (g.fc f) G]
  unfold faceFlux boundFluxT
  rw [flux_rowApply, rowApply_diag g.bndr (fun f => tB g f * bsgn g f) f bc hnd, if_pos hb, symm_dot K hsym]
  simp only [trans, tB, bsgn, hnn, hdir, hfull, hhf, sgnDot, sgnSum, hp, hbc, Bool.false_eq_true, if_false, if_true]
  rw [d] at e
  generalize (K.mulVec (g.normal f)).dot G = X at e ⊢
  generalize G.dot (g.cc h.cell) = A at e ⊢
  generalize G.dot (g.fc f) = Fc at e ⊢
  generalize h.sgn = s at hs e ⊢
  linear_combination s * e - X * hs

/-- Neumann boundary face: the flux over the face is the prescribed outward flux (given with respect to
    the outward normal, hence the orientation factor), whatever the cell pressures. -/
theorem tpfa_exact_neumann (g : Grid) (f : Nat) (h : HF) (E : Rat) (p bc : Nat → Rat)
    (hhf : hfOf g f = [h]) (hs : h.sgn * h.sgn = 1)
    (hnd : g.bndr.Nodup) (hb : f ∈ g.bndr) (hn : neuAll g f = true)
    (hbc : bc f = h.sgn * E) :
    faceFlux g f p bc = E := by
  unfold faceFlux boundFluxT
  rw [flux_rowApply, rowApply_diag g.bndr (fun f => tB g f * bsgn g f) f bc hnd, if_pos hb]
  simp only [trans, tB, bsgn, hn, hhf, sgnSum, hbc, if_true]
  linear_combination E * hs

/-- Boundary pressure reconstruction on a Neumann face of a K-orthogonal grid: with the exact outward flux
    of an affine pressure as Neumann datum, `bound_pressure_cell * p + bound_pressure_face * bc` is the
    affine pressure at the face centre. -/
theorem tpfa_bound_pressure_exact_Korth (g : Grid) (f : Nat) (h : HF) (K : M3) (lam a : Rat) (G : V3)
    (p bc : Nat → Rat)
    (hhf : hfOf g f = [h]) (hf : f < g.nf) (hneu : g.isNeu f = true)
    (hK : g.perm h.cell = K) (hsym : K.Symm)
    (ho : K.mulVec (V3.smul h.sgn (g.normal f)) = V3.smul lam (dvec g h))
    (hd : (dvec g h).dot (dvec g h) ≠ 0) (hl : lam ≠ 0)
    (hp : p h.cell = a + G.dot (g.cc h.cell))
    (hbc : bc f = - (V3.smul h.sgn (g.normal f)).dot (K.mulVec G)) :
    facePressure g f p bc = a + G.dot (g.fc f) := by
  have hf1 : h.face = f := (mem_hfOf.mp (by rw [hhf]; simp : h ∈ hfOf g f)).2
  have ht : tHalf g h = lam := tHalf_of_Korth g h lam (by rw [hK, hf1]; exact ho) hd
  have hfull : tFull g f = lam := by
    unfold tFull; rw [hhf]; simp only [List.map_cons, List.map_nil, ht]; exact harmonic_single lam
  have hbc' : bc f = - (lam * (dvec g h).dot G) := by
    rw [hbc, symm_dot K hsym, ho, dot_smul_left]
  have d : (dvec g h).dot G = G.dot (g.fc f) - G.dot (g.cc h.cell) := by
    unfold dvec; rw [hf1, dot_sub_left, dot_comm (g.cc h.cell) G, dot_comm (g.fc f) G]
  unfold facePressure bpCellT bpFaceT
  rw [rowApply_weight (fun f => if g.isNeu f = true then 1 else 0),
    rowApply_filter _ _ _ _ (by intro t _ hq; simpa using hq),
    rowApply_diag (List.range g.nf) (vFace g) f bc List.nodup_range, if_pos (List.mem_range.mpr hf)]
  show _ * ((hfOf g f).map _).sum + _ = _
  rw [hhf]
  simp only [vFace, hneu, hfull, hbc', d, hp, List.map_cons, List.map_nil, List.sum_cons, List.sum_nil, if_true]
  field_simp
  ring

/-- … and on a Dirichlet face the reconstruction returns the boundary datum. -/
theorem tpfa_bound_pressure_dirichlet (g : Grid) (f : Nat) (p bc : Nat → Rat)
    (hf : f < g.nf) (hdir : g.isDir f = true) (hneu : g.isNeu f = false) :
    facePressure g f p bc = bc f := by
  unfold facePressure bpCellT bpFaceT
  rw [rowApply_weight (fun f => if g.isNeu f = true then 1 else 0),
    rowApply_filter _ _ _ _ (by intro t _ hq; simpa using hq),
    rowApply_diag (List.range g.nf) (vFace g) f bc List.nodup_range, if_pos (List.mem_range.mpr hf)]
  simp [vFace, hneu, hdir]

/-- Hydrostatic consistency of `vector_source`.  Pressure `p(x) = a + G.x` at the cell centres, the constant
    vector source `G` in every cell (as the array `vector_source` is multiplied with, `vsd` entries per cell;
    components of `G` beyond `vsd` must not matter: `d_k G_k = 0` there, e.g. a grid lying in the first `vsd`
    coordinates), Dirichlet data `p(x_f)`, zero Neumann data:
    `flux * p + bound_flux * bc + vector_source * G = 0` on EVERY face, for every grid, tensor and
    boundary assignment (no K-orthogonality needed). -/
theorem tpfa_hydrostatic_zero_flux (g : Grid) (vsd : Nat) (a : Rat) (G : V3) (p bc : Nat → Rat)
    (h1 : 1 ≤ vsd) (h3 : vsd ≤ 3)
    (hz : ∀ h ∈ g.hf, ∀ k, vsd ≤ k → k < 3 → (dvec g h).get k * G.get k = 0)
    (hnd : g.bndr.Nodup)
    (hint : ∀ f, f ∉ g.bndr → bsgn g f = 0)
    (hb : ∀ f ∈ g.bndr, neuAll g f = true ∨ dirEff g f = true)
    (hp : ∀ c, p c = a + G.dot (g.cc c))
    (hdir : ∀ f, neuAll g f = false → dirEff g f = true → bc f = a + G.dot (g.fc f))
    (hneu : ∀ f, neuAll g f = true → bc f = 0) :
    ∀ f, faceFlux g f p bc + rowApply (vecSrcT g vsd) f (vsVec vsd G) = 0 := by
  intro f
  have hvs : rowApply (vecSrcT g vsd) f (vsVec vsd G)
      = trans g f * ((hfOf g f).map (fun h => h.sgn * (dvec g h).dot G)).sum := by
    unfold vecSrcT
    rw [vecSrc_rowApply vsd (fun h k => trans g h.face * (dvec g h).get k * h.sgn)]
    show ((hfOf g f).map _).sum = _
    have : ∀ l : List HF, (∀ h ∈ l, h ∈ g.hf ∧ h.face = f) →
        (l.map (fun h => sumTo vsd (fun k => trans g h.face * (dvec g h).get k * h.sgn
            * vsVec vsd G (h.cell * vsd + k)))).sum
          = trans g f * (l.map (fun h => h.sgn * (dvec g h).dot G)).sum := by
      intro l hl
      induction l with
      | nil => simp
      | cons h l ih =>
        have hh := hl h (by simp)
        simp only [List.map_cons, List.sum_cons]
        rw [ih (fun x hx => hl x (by simp [hx])), hh.2,
          vecSrc_inner g vsd G h (trans g f) h1 h3 (hz h hh.1)]
        ring
    exact this _ (fun h hh => mem_hfOf.mp hh)
  unfold faceFlux boundFluxT
  rw [hvs, flux_rowApply, rowApply_diag g.bndr (fun f => tB g f * bsgn g f) f bc hnd]
  have hs := hydro_sum g f a G p hp (hfOf g f) (fun h hh => (mem_hfOf.mp hh).2)
  have key : trans g f * sgnDot (hfOf g f) p
      + trans g f * ((hfOf g f).map (fun h => h.sgn * (dvec g h).dot G)).sum
      = trans g f * ((a + G.dot (g.fc f)) * bsgn g f) := by
    unfold bsgn; rw [← hs]; ring
  by_cases hn : neuAll g f = true
  · have h0 := hneu f hn
    have ht : trans g f = 0 := by simp [trans, hn]
    rw [ht] at key ⊢
    split_ifs <;> simp [h0]
  · have hn' : neuAll g f = false := by simpa using hn
    by_cases hbd : f ∈ g.bndr
    · rcases hb f hbd with h | h
      · exact absurd h hn
      · rw [if_pos hbd, hdir f hn' h]
        have htb : tB g f = - trans g f := by simp [tB, trans, hn', h]
        rw [htb]
        linear_combination key
    · rw [if_neg hbd]
      rw [hint f hbd] at key
      linear_combination key

/-- Hydrostatic consistency of `bound_pressure_vector_source`: on a Neumann face with zero flux datum,
    `bound_pressure_cell * p + bound_pressure_face * bc + bound_pressure_vector_source * G` is the
    hydrostatic pressure `a + G.x_f` at the face centre. -/
theorem tpfa_hydrostatic_bound_pressure (g : Grid) (vsd : Nat) (f : Nat) (h : HF) (a : Rat) (G : V3)
    (p bc : Nat → Rat)
    (h1 : 1 ≤ vsd) (h3 : vsd ≤ 3)
    (hz : ∀ k, vsd ≤ k → k < 3 → (dvec g h).get k * G.get k = 0)
    (hhf : hfOf g f = [h]) (hf : f < g.nf) (hneu : g.isNeu f = true)
    (hp : p h.cell = a + G.dot (g.cc h.cell)) (hbc : bc f = 0) :
    facePressure g f p bc + rowApply (bpVecSrcT g vsd) f (vsVec vsd G) = a + G.dot (g.fc f) := by
  have hf1 : h.face = f := (mem_hfOf.mp (by rw [hhf]; simp : h ∈ hfOf g f)).2
  have hvs : rowApply (bpVecSrcT g vsd) f (vsVec vsd G) = (dvec g h).dot G := by
    unfold bpVecSrcT
    rw [vecSrc_rowApply vsd (fun h k => if g.isNeu h.face = true then (dvec g h).get k else 0)]
    show ((hfOf g f).map _).sum = _
    rw [hhf]
    simp only [List.map_cons, List.map_nil, List.sum_cons, List.sum_nil, hf1, hneu, if_true, add_zero]
    rw [← sumTo_dot vsd (dvec g h) G h1 h3 hz]
    apply sumTo_congr
    intro k hk
    rw [vsVec_at vsd G h.cell k hk]
  have d : (dvec g h).dot G = G.dot (g.fc f) - G.dot (g.cc h.cell) := by
    unfold dvec; rw [hf1, dot_sub_left, dot_comm (g.cc h.cell) G, dot_comm (g.fc f) G]
  unfold facePressure bpCellT bpFaceT
  rw [rowApply_weight (fun f => if g.isNeu f = true then 1 else 0),
    rowApply_filter _ _ _ _ (by intro t _ hq; simpa using hq),
    rowApply_diag (List.range g.nf) (vFace g) f bc List.nodup_range, if_pos (List.mem_range.mpr hf), hvs]
  show _ * ((hfOf g f).map _).sum + _ + _ = _
  rw [hhf]
  simp only [hneu, hbc, d, hp, List.map_cons, List.map_nil, List.sum_cons, List.sum_nil, if_true]
  ring

/-- **Linear pressures are reproduced exactly — grid-level statement with decidable hypotheses.**
    Well-formed incidence, consistent boundary bookkeeping (`bndOK`: no Robin), K-orthogonal grid with the
    constant symmetric tensor `K` (`korthGrid`: `K n × d = 0` on every half-face — Cartesian / tensor grids
    with diagonal `K` and their affine images).  Affine pressure `p = a + G.x` at the cell centres,
    Dirichlet data `p(x_f)`, Neumann data = exact outward flux.  Then on EVERY face
    `flux * p + bound_flux * bc = -n_f . K G`. -/
theorem tpfa_linear_exact (g : Grid) (K : M3) (a : Rat) (G : V3) (p bc : Nat → Rat)
    (hwf : WellFormed g) (hb : bndOK g = true) (hk : korthGrid g K = true) (hsym : K.Symm)
    (hp : ∀ c, p c = a + G.dot (g.cc c))
    (hdir : ∀ f ∈ g.bndr, neuAll g f = false → bc f = a + G.dot (g.fc f))
    (hneu : ∀ f ∈ g.bndr, neuAll g f = true → bc f = - (bsgn g f * (g.normal f).dot (K.mulVec G))) :
    ∀ f, f < g.nf → faceFlux g f p bc = - (g.normal f).dot (K.mulVec G) := by
  intro f hf
  obtain ⟨hnd, hbl, hil⟩ := bndOK_spec g hb
  obtain ⟨hkh, hki⟩ := korthGrid_spec g K hk
  have hsq : ∀ s : Rat, s = 1 ∨ s = -1 → s * s = 1 := by
    intro s hs; rcases hs with rfl | rfl <;> norm_num
  rcases faceOK_cases g f (hwf.1 f hf) with ⟨h, heq, hs, _⟩ | ⟨h1, h2, heq, _, _, _, hs⟩
  · have hbd : f ∈ g.bndr := by
      by_contra hnb
      have := (hil f hf hnb).1
      rw [heq] at this; simp at this
    have hm : h ∈ hfOf g f := by rw [heq]; simp
    obtain ⟨hmem, hface⟩ := mem_hfOf.mp hm
    obtain ⟨hKc, hko, _⟩ := hkh h hmem
    obtain ⟨hpar, hdd⟩ := korthHF_spec g h hko
    by_cases hn : neuAll g f = true
    · apply tpfa_exact_neumann g f h _ p bc heq (hsq _ hs) hnd hbd hn
      rw [hneu f hbd hn]
      simp only [bsgn, heq, sgnSum]; ring
    · have hn' : neuAll g f = false := by simpa using hn
      have hd : dirEff g f = true := by
        rcases (hbl f hbd).2.2 with h' | h'
        · exact absurd h' hn
        · exact h'
      exact tpfa_exact_Korth_dirichlet g f h K (tHalf g h) a G p bc heq (hsq _ hs) hnd hbd hn' hd hKc hsym
        (by rw [← hKc, ← hface]; exact hpar) hdd (hp _) (hdir f hbd hn')
  · have hnb : f ∉ g.bndr := by
      intro hbd
      have := (hbl f hbd).2.1
      rw [heq] at this; simp at this
    have hn' := (hil f hf hnb).2
    have hm1 : h1 ∈ hfOf g f := by rw [heq]; simp
    have hm2 : h2 ∈ hfOf g f := by rw [heq]; simp
    obtain ⟨hmem1, hface1⟩ := mem_hfOf.mp hm1
    obtain ⟨hmem2, hface2⟩ := mem_hfOf.mp hm2
    obtain ⟨hK1, hko1, ht1⟩ := hkh h1 hmem1
    obtain ⟨hK2, hko2, ht2⟩ := hkh h2 hmem2
    obtain ⟨hpar1, hdd1⟩ := korthHF_spec g h1 hko1
    obtain ⟨hpar2, hdd2⟩ := korthHF_spec g h2 hko2
    have hs1 : h1.sgn * h1.sgn = 1 := by rcases hs with ⟨e, _⟩ | ⟨e, _⟩ <;> rw [e] <;> norm_num
    have hs2 : h2.sgn = - h1.sgn := by rcases hs with ⟨e1, e2⟩ | ⟨e1, e2⟩ <;> rw [e1, e2] <;> norm_num
    have hflux := tpfa_exact_Korth g f h1 h2 K (tHalf g h1) (tHalf g h2) a G p heq hs1 hs2 hn' hK1 hK2 hsym
      (by rw [← hK1, ← hface1]; exact hpar1) (by rw [← hK2, ← hface2]; exact hpar2) hdd1 hdd2 ht1 ht2
      (hki f hf h1 h2 heq) (hp _) (hp _)
    unfold faceFlux boundFluxT
    rw [rowApply_diag g.bndr (fun f => tB g f * bsgn g f) f bc hnd, if_neg hnb, hflux]; ring

/-- `tpfa_const_zero_flux` with decidable hypotheses: well-formed incidence and consistent boundary
    bookkeeping (every boundary face Dirichlet or Neumann). -/
theorem tpfa_const_zero_flux_wf (g : Grid) (c : Rat) (bc : Nat → Rat)
    (hwf : WellFormed g) (hb : bndOK g = true)
    (hdir : ∀ f, neuAll g f = false → dirEff g f = true → bc f = c)
    (hneu : ∀ f, neuAll g f = true → bc f = 0) :
    ∀ f, faceFlux g f (fun _ => c) bc = 0 :=
  tpfa_const_zero_flux g c bc (bndOK_spec g hb).1 (bsgn_interior g hwf hb)
    (fun f hf => ((bndOK_spec g hb).2.1 f hf).2.2) hdir hneu

/-- `cartLike` grids have positive half transmissibilities (via `tpfa_thalf_pos_diagK`) -/
theorem cartLike_pos (g : Grid) (hc : cartLike g = true) : ∀ h ∈ g.hf, 0 < tHalf g h := by
  intro h hh
  simp only [cartLike, List.all_eq_true, Bool.and_eq_true, beq_iff_eq, decide_eq_true_eq] at hc
  obtain ⟨⟨⟨⟨⟨⟨⟨⟨⟨⟨h01, h02⟩, h10⟩, h12⟩, h20⟩, h21⟩, p0⟩, p1⟩, p2⟩, hcr⟩, hdot⟩ := hc h hh
  have hdd : (dvec g h).dot (dvec g h) ≠ 0 := by
    intro h0
    rw [dot_self_zero _ h0] at hdot
    simp [V3.dot] at hdot
  have hpar := parallel_eq (outN g h) (dvec g h) hcr hdd
  have hddpos := dot_self_pos _ hdd
  apply tpfa_thalf_pos_diagK g h (g.perm h.cell).r0.x (g.perm h.cell).r1.y (g.perm h.cell).r2.z
    ((dvec g h).dot (outN g h) / (dvec g h).dot (dvec g h)) _ p0 p1 p2 hpar _ hdd
  · generalize g.perm h.cell = K at h01 h02 h10 h12 h20 h21 ⊢
    obtain ⟨⟨a, b, c⟩, ⟨d, e, f⟩, ⟨x, y, z⟩⟩ := K
    simp only at h01 h02 h10 h12 h20 h21
    rw [h01, h02, h10, h12, h20, h21]
  · rw [dot_comm]; exact div_pos hdot hddpos

/-- **M-matrix on Cartesian / tensor grids with positive diagonal permeability**, all hypotheses decidable:
    well-formed incidence and `cartLike` (diagonal positive tensors, outward normals along `d`). -/
theorem tpfa_Mmatrix_cartesian (g : Grid) (hwf : WellFormed g) (hc : cartLike g = true) :
    (∀ c1 c2, c1 ≠ c2 → cellOp g c1 c2 ≤ 0) ∧
    (∀ c, 0 ≤ cellOp g c c) ∧
    (∀ c, (∃ h ∈ g.hf, h.cell = c ∧ neuAll g h.face = false) → 0 < cellOp g c c) ∧
    (∀ c, c < g.nc → sumTo g.nc (fun c2 => if c2 = c then 0 else - cellOp g c c2) ≤ cellOp g c c) :=
  tpfa_Mmatrix g hwf (cartLike_pos g hc)


/-- **TPFA = MPFA on K-orthogonal 2-D grids.**  `G` is a grid of the C11 MPFA model (`C11.Grid2`: any
    topology given by `face_nodes` / `cell_faces`, any planar geometry, cell-wise tensors, per-face
    Dirichlet / Neumann), well-formed, with all interaction regions certified nonsingular
    (`G.certs = some Ls`), and K-orthogonal in the decidable sense `KorthOK`: continuity points at the face
    centres (η = 0, the value the code uses on non-simplex grids), `n_fᵀ K_c = ± t_half dᵀ` for every
    half-face (co-normal parallel to the cell-centre-to-face-centre vector — Cartesian / tensor grids with
    diagonal `K`, their affine images with `K = J K₀ Jᵀ`), non-vanishing half transmissibilities,
    orientations ±1, two faces of a cell meeting at each of its corners with independent `d`'s.
    Then for ALL cell pressures `p` and ALL boundary data `bc` the flux the assembled MPFA scheme puts on
    face `f` (`flux * p + bound_flux * bc` of `pp.Mpfa`) equals the one of the TPFA model on the same grid
    (`ofGrid2 G`): the `flux` and `bound_flux` matrices of the two schemes coincide as linear maps.
    Proof: the two-point sub-cell gradients satisfy every row of every interaction region, and the
    certified regions have a unique solution. -/
theorem tpfa_eq_mpfa_Korth (G : C11.Grid2) (Ls : List C11.Mat) (p bc : List Rat)
    (hwf : G.WF) (hcert : G.certs = some Ls) (hK : KorthOK G = true) :
    ∀ f < G.numFaces,
      faceFlux (ofGrid2 G) f (fun c => p.getD c 0) (fun f => bc.getD f 0)
        = G.faceFlux (G.nodeSols Ls p bc) bc f := by
  intro f hf
  rw [tpfa_eq_tp2 G hwf hK p bc f hf, mpfa_eq_tp2 G hwf hK p bc Ls hcert f hf]

/-- … entry by entry: column `c` of the MPFA `flux` matrix (the scheme applied to the unit vector of cell
    `c`, zero boundary data) and column `f'` of its `bound_flux` matrix (unit boundary datum on face `f'`)
    are the columns of the TPFA matrices `fluxT` / `boundFluxT`. -/
theorem tpfa_eq_mpfa_Korth_entries (G : C11.Grid2) (Ls : List C11.Mat)
    (hwf : G.WF) (hcert : G.certs = some Ls) (hK : KorthOK G = true) (f : Nat) (hf : f < G.numFaces) :
    (∀ c < G.numCells, entry (fluxT (ofGrid2 G)) f c
        = G.faceFlux (G.nodeSols Ls (C11.Grid2.unit G.numCells c) []) [] f) ∧
    (∀ f' < G.numFaces, entry (boundFluxT (ofGrid2 G)) f f'
        = G.faceFlux (G.nodeSols Ls [] (C11.Grid2.unit G.numFaces f')) (C11.Grid2.unit G.numFaces f') f) := by
  constructor
  · intro c hc
    rw [← tpfa_eq_mpfa_Korth G Ls _ _ hwf hcert hK f hf]
    unfold faceFlux
    have h1 : (fun c' => (C11.Grid2.unit G.numCells c).getD c' 0) = fun j => if j = c then 1 else 0 := by
      funext j; exact getD_unit _ _ j hc
    have h2 : (fun f' : Nat => ([] : List Rat).getD f' 0) = fun _ => 0 := by funext j; simp
    rw [h1, h2, rowApply_indicator, rowApply_zero]; ring
  · intro f' hf'
    rw [← tpfa_eq_mpfa_Korth G Ls _ _ hwf hcert hK f hf]
    unfold faceFlux
    have h1 : (fun j => (C11.Grid2.unit G.numFaces f').getD j 0) = fun j => if j = f' then 1 else 0 := by
      funext j; exact getD_unit _ _ j hf'
    have h2 : (fun c : Nat => ([] : List Rat).getD c 0) = fun _ => 0 := by funext j; simp
    rw [h1, h2, rowApply_indicator, rowApply_zero]; ring

/-! ### non-vacuity: the hypotheses are satisfiable on concrete grids, and the conclusions are the numbers
the real code produces there -/

/-- 1-D grid, nodes 0, 1, 3; constant `K = diag(2,1,1)`; face 0 Dirichlet, face 2 Neumann. -/
def ex1 : Grid where
  nf := 3
  nc := 2
  hf := [⟨0, 0, -1⟩, ⟨1, 0, 1⟩, ⟨1, 1, -1⟩, ⟨2, 1, 1⟩]
  normal := fun _ => ⟨1, 0, 0⟩
  fc := fun f => match f with
    | 0 => ⟨0, 0, 0⟩
    | 1 => ⟨1, 0, 0⟩
    | _ => ⟨3, 0, 0⟩
  cc := fun c => match c with
    | 0 => ⟨1 / 2, 0, 0⟩
    | _ => ⟨2, 0, 0⟩
  perm := fun _ => ⟨⟨2, 0, 0⟩, ⟨0, 1, 0⟩, ⟨0, 0, 1⟩⟩
  bndr := [0, 2]
  isDir := fun f => f == 0
  isNeu := fun f => f == 2
  isInt := fun _ => false

def exK : M3 := ⟨⟨2, 0, 0⟩, ⟨0, 1, 0⟩, ⟨0, 0, 1⟩⟩
def exG : V3 := ⟨3, 5, 7⟩
/-- affine pressure `1 + G.x` at the cell centres of `ex1` -/
def exP : Nat → Rat := fun c => 1 + exG.dot (ex1.cc c)

/-- 2 x 1 Cartesian grid in the plane, cell-wise diagonal `K`; faces 0 and 6 Dirichlet, the rest Neumann. -/
def ex2 : Grid where
  nf := 7
  nc := 2
  hf := [⟨0, 0, -1⟩, ⟨1, 0, 1⟩, ⟨3, 0, -1⟩, ⟨5, 0, 1⟩, ⟨1, 1, -1⟩, ⟨2, 1, 1⟩, ⟨4, 1, -1⟩, ⟨6, 1, 1⟩]
  normal := fun f => if f < 3 then ⟨1, 0, 0⟩ else ⟨0, 1, 0⟩
  fc := fun f => match f with
    | 0 => ⟨0, 1 / 2, 0⟩
    | 1 => ⟨1, 1 / 2, 0⟩
    | 2 => ⟨2, 1 / 2, 0⟩
    | 3 => ⟨1 / 2, 0, 0⟩
    | 4 => ⟨3 / 2, 0, 0⟩
    | 5 => ⟨1 / 2, 1, 0⟩
    | _ => ⟨3 / 2, 1, 0⟩
  cc := fun c => match c with
    | 0 => ⟨1 / 2, 1 / 2, 0⟩
    | _ => ⟨3 / 2, 1 / 2, 0⟩
  perm := fun c => match c with
    | 0 => ⟨⟨1, 0, 0⟩, ⟨0, 2, 0⟩, ⟨0, 0, 1⟩⟩
    | _ => ⟨⟨3, 0, 0⟩, ⟨0, 1, 0⟩, ⟨0, 0, 1⟩⟩
  bndr := [0, 2, 3, 4, 5, 6]
  isDir := fun f => f == 0 || f == 6
  isNeu := fun f => f == 2 || f == 3 || f == 4 || f == 5
  isInt := fun _ => false

-- the matrices of `ex1` (what `pp.Tpfa` stores for this grid): t = 4 on face 0, 4/3 on face 1, 0 on face 2
example : fluxT ex1 = [(0, 0, -4), (1, 0, 4 / 3), (1, 1, -4 / 3), (2, 1, 0)] := by decide +kernel
example : boundFluxT ex1 = [(0, 0, 4), (2, 2, 1)] := by decide +kernel
example : bpFaceT ex1 = [(0, 0, 1), (2, 2, -1 / 2)] := by decide +kernel

example : cellOp ex1 0 1 = -4 / 3 ∧ cellOp ex1 1 0 = -4 / 3 := by decide +kernel

example : rowApply (fluxT ex1) 1 exP = 1 * trans ex1 1 * (exP 0 - exP 1) :=
  (tpfa_single_valued_interior ex1 1 ⟨1, 0, 1⟩ ⟨1, 1, -1⟩ exP (by decide +kernel) (by decide +kernel)).1

example : sumTo 2 (fun c => divApply ex2.hf c (fun f => (f : Rat) + 1))
    = sumTo 7 (fun f => if f ∈ ex2.bndr then bsgn ex2 f * ((f : Rat) + 1) else 0) :=
  tpfa_conservative ex2 _ (by decide +kernel) (by
    intro f hf
    have : f = 1 ∨ 7 ≤ f := by
      simp only [ex2, List.mem_cons, List.not_mem_nil, or_false, not_or] at hf; omega
    rcases this with rfl | h7
    · decide +kernel
    · have : hfOf ex2 f = [] := by
        unfold hfOf
        apply List.filter_eq_nil_iff.mpr
        intro h hh
        have : h.face < 7 := by revert h; decide +kernel
        simp; omega
      simp [bsgn, this, sgnSum])

/-- constant pressure 5 on `ex2` with Dirichlet data 5 and Neumann data 0: zero flux on all 7 faces -/
example : ∀ f, faceFlux ex2 f (fun _ => 5) (fun f => if f == 0 || f == 6 then 5 else 0) = 0 :=
  tpfa_const_zero_flux ex2 5 _ (by decide +kernel)
    (by
      intro f hf
      have : f = 1 ∨ 7 ≤ f := by
        simp only [ex2, List.mem_cons, List.not_mem_nil, or_false, not_or] at hf; omega
      rcases this with rfl | h7
      · decide +kernel
      · have : hfOf ex2 f = [] := by
          unfold hfOf
          apply List.filter_eq_nil_iff.mpr
          intro h hh
          have : h.face < 7 := by revert h; decide +kernel
          simp; omega
        simp [bsgn, this, sgnSum])
    (by decide +kernel)
    (by intro f _ hd; simp only [dirEff, ex2] at hd; have hd' : f = 0 ∨ f = 6 := by simpa using hd
        rcases hd' with rfl | rfl <;> rfl)
    (by
      intro f hn
      have : ¬ (f = 0 ∨ f = 6) := by
        simp only [neuAll, ex2, Bool.or_false] at hn
        rintro (rfl | rfl) <;> simp at hn
      simp only [not_or] at this
      simp [this.1, this.2])

example : WellFormed ex2 := by unfold WellFormed; decide +kernel
example : ∀ h ∈ ex2.hf, 0 < tHalf ex2 h := by decide +kernel

/-- the M-matrix conclusions on `ex2`: A = [[7/2, -3/2], [-3/2, 7/2]] -/
example : cellOp ex2 0 1 ≤ 0 ∧ 0 < cellOp ex2 0 0 ∧
    sumTo 2 (fun c2 => if c2 = 0 then 0 else - cellOp ex2 0 c2) ≤ cellOp ex2 0 0 :=
  have h := tpfa_Mmatrix ex2 (by unfold WellFormed; decide +kernel) (by decide +kernel)
  ⟨h.1 0 1 (by decide), h.2.2.1 0 ⟨⟨0, 0, -1⟩, by decide +kernel, rfl, by decide +kernel⟩, h.2.2.2 0 (by decide)⟩
example : cellOp ex2 0 0 = 7 / 2 ∧ cellOp ex2 0 1 = -3 / 2 ∧ cellOp ex2 1 1 = 7 / 2 := by decide +kernel

theorem ex2_hint : ∀ f, f ∉ ex2.bndr → bsgn ex2 f = 0 := by
  intro f hf
  have : f = 1 ∨ 7 ≤ f := by
    simp only [ex2, List.mem_cons, List.not_mem_nil, or_false, not_or] at hf; omega
  rcases this with rfl | h7
  · decide +kernel
  · have : hfOf ex2 f = [] := by
      unfold hfOf
      apply List.filter_eq_nil_iff.mpr
      intro h hh
      have : h.face < 7 := by revert h; decide +kernel
      simp; omega
    simp [bsgn, this, sgnSum]

/-- hydrostatic pressure `1 + G.x` on `ex2` (a grid in the xy-plane, `vsd = 2`) with vector source `G`:
    zero flux on all 7 faces -/
example : ∀ f, faceFlux ex2 f (fun c => 1 + exG.dot (ex2.cc c))
      (fun f => if f == 0 || f == 6 then 1 + exG.dot (ex2.fc f) else 0)
    + rowApply (vecSrcT ex2 2) f (vsVec 2 exG) = 0 :=
  tpfa_hydrostatic_zero_flux ex2 2 1 exG _ _ (by decide) (by decide) (by decide +kernel) (by decide +kernel)
    ex2_hint (by decide +kernel) (fun _ => rfl)
    (by intro f _ hd; simp only [dirEff, ex2] at hd; have hd' : f = 0 ∨ f = 6 := by simpa using hd
        rcases hd' with rfl | rfl <;> rfl)
    (by
      intro f hn
      have : ¬ (f = 0 ∨ f = 6) := by
        simp only [neuAll, ex2, Bool.or_false] at hn
        rintro (rfl | rfl) <;> simp at hn
      simp only [not_or] at this
      simp [this.1, this.2])

/-- … and the reconstructed pressure on the Neumann face 2 of `ex2` is `1 + G.x_f = 1 + 6 + 5/2` -/
example : facePressure ex2 2 (fun c => 1 + exG.dot (ex2.cc c)) (fun _ => 0)
    + rowApply (bpVecSrcT ex2 2) 2 (vsVec 2 exG) = 19 / 2 := by
  have h := tpfa_hydrostatic_bound_pressure ex2 2 2 ⟨2, 1, 1⟩ 1 exG (fun c => 1 + exG.dot (ex2.cc c)) (fun _ => 0)
    (by decide) (by decide) (by decide +kernel) (by decide +kernel) (by decide) (by decide +kernel) rfl rfl
  rw [h]; decide +kernel

/-- a K-orthogonal C11 grid: two rectangles (1 x 1 and 2 x 1) side by side, cell-wise diagonal tensors,
    Dirichlet on the left, bottom-right and top-right faces, Neumann elsewhere -/
def exGrid2 : C11.Grid2 :=
  { nodes := [[0, 0], [1, 0], [3, 0], [0, 1], [1, 1], [3, 1]],
    faceNodes := [[0, 3], [1, 4], [2, 5], [0, 1], [1, 2], [3, 4], [4, 5]],
    faceCells := [[(0, -1)], [(0, 1), (1, -1)], [(1, 1)], [(0, -1)], [(1, -1)], [(0, 1)], [(1, 1)]],
    cellCenters := [[1 / 2, 1 / 2], [2, 1 / 2]],
    faceCenters := [[0, 1 / 2], [1, 1 / 2], [3, 1 / 2], [1 / 2, 0], [2, 0], [1 / 2, 1], [2, 1]],
    faceNormals := [[1, 0], [1, 0], [1, 0], [0, 1], [0, 2], [0, 1], [0, 2]],
    perm := [[[2, 0], [0, 3]], [[5, 0], [0, 1]]],
    isDir := [true, false, false, false, true, false, true],
    eta := 0 }

/-- the hypotheses of `tpfa_eq_mpfa_Korth` are satisfiable: well-formed, all six interaction regions
    certified, K-orthogonal; and the common value of the two schemes on some data -/
example : exGrid2.WF ∧ (exGrid2.certs).isSome = true ∧ KorthOK exGrid2 = true := by decide +kernel

example :
    (exGrid2.certs).map (fun Ls => (exGrid2.apply Ls [3, -1] [2, 0, 5, 7, 1, 0, 4]).1)
      = some ((List.range 7).map (fun f =>
          faceFlux (ofGrid2 exGrid2) f (fun c => [3, -1].getD c 0) (fun f => [2, 0, 5, 7, 1, 0, 4].getD f 0))) := by
  decide +kernel

/-- grid-level exactness on `ex1`: `bndOK`, `korthGrid` decide to true, and all three faces carry `-6` -/
example : ∀ f, f < 3 → faceFlux ex1 f exP (fun f => if f == 0 then 1 + exG.dot (ex1.fc 0) else -6) = -6 := by
  have h := tpfa_linear_exact ex1 exK 1 exG exP (fun f => if f == 0 then 1 + exG.dot (ex1.fc 0) else -6)
    (by unfold WellFormed; decide +kernel) (by decide +kernel) (by decide +kernel)
    (by unfold M3.Symm exK; decide +kernel) (fun _ => rfl) (by decide +kernel) (by decide +kernel)
  intro f hf
  rw [h f hf]
  show -(V3.dot ⟨1, 0, 0⟩ (exK.mulVec exG)) = -6
  decide +kernel

/-- `ex2` is `cartLike` with consistent boundary bookkeeping: M-matrix and zero flux for constants from
    decidable hypotheses only -/
example : cartLike ex2 = true ∧ bndOK ex2 = true := by decide +kernel
example : cellOp ex2 0 1 ≤ 0 :=
  (tpfa_Mmatrix_cartesian ex2 (by unfold WellFormed; decide +kernel) (by decide +kernel)).1 0 1 (by decide)
example : ∀ f, faceFlux ex2 f (fun _ => 5) (fun f => if f == 0 || f == 6 then 5 else 0) = 0 :=
  tpfa_const_zero_flux_wf ex2 5 _ (by unfold WellFormed; decide +kernel) (by decide +kernel)
    (by intro f _ hd; simp only [dirEff, ex2] at hd; have hd' : f = 0 ∨ f = 6 := by simpa using hd
        rcases hd' with rfl | rfl <;> rfl)
    (by
      intro f hn
      have : ¬ (f = 0 ∨ f = 6) := by
        simp only [neuAll, ex2, Bool.or_false] at hn
        rintro (rfl | rfl) <;> simp at hn
      simp only [not_or] at this
      simp [this.1, this.2])

/-- half-face (face 1, cell 0) of `ex2`: `K = diag(1,2,1)`, outward normal `(1,0,0) = 2 d` -/
example : 0 < tHalf ex2 ⟨1, 0, 1⟩ :=
  tpfa_thalf_pos_diagK ex2 ⟨1, 0, 1⟩ 1 2 1 2 rfl (by decide) (by decide) (by decide) (by decide +kernel)
    (by decide) (by decide +kernel)

/-- exactness on `ex1` (K-orthogonal with `λ = 4, 2`): interior face 1 carries the exact flux `-n.KG = -6` -/
example : rowApply (fluxT ex1) 1 exP = -6 := by
  have h := tpfa_exact_Korth ex1 1 ⟨1, 0, 1⟩ ⟨1, 1, -1⟩ exK 4 2 1 exG exP
    (by decide +kernel) (by decide +kernel) (by decide +kernel) (by decide +kernel) rfl rfl
    (by unfold M3.Symm exK; decide +kernel)
    (by decide +kernel) (by decide +kernel) (by decide +kernel) (by decide +kernel)
    (by decide +kernel) (by decide +kernel) (by decide +kernel) rfl rfl
  rw [h]; decide +kernel

/-- Dirichlet face 0 of `ex1` with the affine boundary value: exact flux -6 -/
example : faceFlux ex1 0 exP (fun f => 1 + exG.dot (ex1.fc f)) = -6 := by
  have h := tpfa_exact_Korth_dirichlet ex1 0 ⟨0, 0, -1⟩ exK 4 1 exG exP (fun f => 1 + exG.dot (ex1.fc f))
    (by decide +kernel) (by decide +kernel) (by decide +kernel) (by decide +kernel) (by decide +kernel)
    (by decide +kernel) rfl (by unfold M3.Symm exK; decide +kernel) (by decide +kernel) (by decide +kernel) rfl rfl
  rw [h]; decide +kernel

/-- Neumann face 2 of `ex1` with outward flux datum `+1 * (-6)` -/
example : faceFlux ex1 2 exP (fun _ => -6) = -6 :=
  tpfa_exact_neumann ex1 2 ⟨2, 1, 1⟩ (-6) exP _ (by decide +kernel) (by decide +kernel) (by decide +kernel)
    (by decide +kernel) (by decide +kernel) (by decide +kernel)

/-- boundary pressure on the Neumann face 2 of `ex1`: `p(x_f) = 1 + 3*3 = 10` -/
example : facePressure ex1 2 exP (fun _ => -6) = 10 := by
  have h := tpfa_bound_pressure_exact_Korth ex1 2 ⟨2, 1, 1⟩ exK 2 1 exG exP (fun _ => -6)
    (by decide +kernel) (by decide) (by decide +kernel) rfl (by unfold M3.Symm exK; decide +kernel)
    (by decide +kernel) (by decide +kernel) (by decide +kernel) rfl (by decide +kernel)
  rw [h]; decide +kernel

example : facePressure ex1 0 exP (fun _ => 42) = 42 :=
  tpfa_bound_pressure_dirichlet ex1 0 exP _ (by decide) (by decide +kernel) (by decide +kernel)

end PorepyVerif.C12
