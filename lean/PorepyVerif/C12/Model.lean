/-
C12 — executable model of `porepy.numerics.fv.tpfa.Tpfa.discretize` (core Lean only).

The code works on *half-faces*: the non-zeros `(face, cell, sign)` of `sd.cell_faces`
(`sparse_array_to_row_col_data`).  For every half-face it forms the outward normal
`n = sign * face_normal`, the vector `d = face_centre - cell_centre`, and the half
transmissibility `t_half = (d . (K n)) / (d . d)`  (`nk = (perm * n).sum(axis=1)`, `nk *= fc_cc`,
`t_face = nk.sum(axis=0) / (fc_cc**2).sum(axis=0)`): no square root on the default path.
Per face `t = 1 / bincount(fi, 1 / t_half)` (harmonic combination), Neumann (and internal) faces get
`t = 0`, boundary faces `t_b = -t` (Dirichlet) / `1` (Neumann) / `0` (anything else, e.g. Robin).
All vectors have three components (as in the code); numbers are rationals.

Matrices are produced as COO triplet lists `(row, col, value)` in the order the code builds them;
explicit zeros are kept exactly where scipy keeps them.  `entry` / `rowApply` give the dense
meaning of a triplet list (duplicates are summed, as `coo_matrix.tocsr()` does).

Not modelled: the deprecated periodic-boundary branch (`periodic_face_map`), the hidden option
`Aavatsmark_transmissibilities` (needs norms), IEEE corner cases of a vanishing half
transmissibility other than `1/0 = inf, 1/inf = 0` (flagged by `degenerate`).
-/
import PorepyVerif.C11.Model

namespace PorepyVerif.C12

/-- a vector with three rational components -/
structure V3 where
  x : Rat
  y : Rat
  z : Rat
deriving DecidableEq

namespace V3
def dot (a b : V3) : Rat := a.x * b.x + a.y * b.y + a.z * b.z
def sub (a b : V3) : V3 := ⟨a.x - b.x, a.y - b.y, a.z - b.z⟩
def smul (s : Rat) (a : V3) : V3 := ⟨s * a.x, s * a.y, s * a.z⟩
def cross (a b : V3) : V3 := ⟨a.y * b.z - a.z * b.y, a.z * b.x - a.x * b.z, a.x * b.y - a.y * b.x⟩
/-- component `k` (0, 1, otherwise 2) -/
def get (a : V3) : Nat → Rat
  | 0 => a.x
  | 1 => a.y
  | _ => a.z
end V3

/-- a 3x3 matrix given by its rows (`k.values[:, :, c]`) -/
structure M3 where
  r0 : V3
  r1 : V3
  r2 : V3
deriving DecidableEq

/-- matrix times vector: `(perm * n).sum(axis=1)` -/
def M3.mulVec (K : M3) (n : V3) : V3 := ⟨K.r0.dot n, K.r1.dot n, K.r2.dot n⟩

def M3.Symm (K : M3) : Prop := K.r0.y = K.r1.x ∧ K.r0.z = K.r2.x ∧ K.r1.z = K.r2.y

/-- one non-zero of `cell_faces`: cell `cell` has face `face`, with orientation `sgn` (±1 on grids) -/
structure HF where
  face : Nat
  cell : Nat
  sgn : Rat
deriving DecidableEq

/-- Everything `Tpfa.discretize` reads: topology, geometry, permeability, boundary condition. -/
structure Grid where
  nf : Nat
  nc : Nat
  /-- non-zeros of `cell_faces` in the order of `sparse_array_to_row_col_data` -/
  hf : List HF
  normal : Nat → V3
  fc : Nat → V3
  cc : Nat → V3
  perm : Nat → M3
  /-- `sd.get_all_boundary_faces()` -/
  bndr : List Nat
  isDir : Nat → Bool
  isNeu : Nat → Bool
  /-- `bnd.is_internal` (fracture faces) -/
  isInt : Nat → Bool

abbrev Trip := Nat × Nat × Rat

/-! ### transmissibilities -/

/-- half-faces of face `f` -/
def hfOf (g : Grid) (f : Nat) : List HF := g.hf.filter (fun h => h.face == f)

/-- `fc_cc`: face centre minus cell centre -/
def dvec (g : Grid) (h : HF) : V3 := (g.fc h.face).sub (g.cc h.cell)

/-- half transmissibility `(d . K n) / (d . d)` with `n` the outward normal of the half-face -/
def tHalf (g : Grid) (h : HF) : Rat :=
  (dvec g h).dot ((g.perm h.cell).mulVec (V3.smul h.sgn (g.normal h.face))) / (dvec g h).dot (dvec g h)

def sumInv : List Rat → Rat
  | [] => 0
  | t :: r => 1 / t + sumInv r

/-- `1 / bincount(weights = 1 / t_half)`; a zero half transmissibility gives `1/inf = 0`. -/
def harmonic (ts : List Rat) : Rat := if 0 ∈ ts then 0 else 1 / sumInv ts

/-- `t_full`: face transmissibility before boundary conditions -/
def tFull (g : Grid) (f : Nat) : Rat := harmonic ((hfOf g f).map (tHalf g))

/-- `is_neu = bnd.is_neu | bnd.is_internal` -/
def neuAll (g : Grid) (f : Nat) : Bool := g.isNeu f || g.isInt f

/-- `is_dir = bnd.is_dir & ~bnd.is_internal` -/
def dirEff (g : Grid) (f : Nat) : Bool := g.isDir f && !g.isInt f

/-- `t` after `t[is_neu] = 0` -/
def trans (g : Grid) (f : Nat) : Rat := if neuAll g f then 0 else tFull g f

/-- `t_b`: `-t` on Dirichlet faces, then `1` on Neumann faces, `0` elsewhere -/
def tB (g : Grid) (f : Nat) : Rat :=
  if neuAll g f then 1 else if dirEff g f then - tFull g f else 0

def sgnSum : List HF → Rat
  | [] => 0
  | h :: r => h.sgn + sgnSum r

/-- `Σ_{h ∈ l} sgn_h * p(cell_h)`: a row of `cell_faces` applied to cell values -/
def sgnDot : List HF → (Nat → Rat) → Rat
  | [], _ => 0
  | h :: r, p => h.sgn * p h.cell + sgnDot r p

/-- `bndr_sgn`: orientation of a boundary face (it has exactly one half-face on a grid) -/
def bsgn (g : Grid) (f : Nat) : Rat := sgnSum (hfOf g f)

/-! ### the stored matrices, as COO triplets -/

def cellFacesT (g : Grid) : List Trip := g.hf.map (fun h => (h.face, h.cell, h.sgn))

/-- `flux = coo((t[fi] * sgn, (fi, ci)))` -/
def fluxT (g : Grid) : List Trip := g.hf.map (fun h => (h.face, h.cell, trans g h.face * h.sgn))

/-- `bound_flux = coo((t_b * bndr_sgn, (bndr_ind, bndr_ind)))` -/
def boundFluxT (g : Grid) : List Trip := g.bndr.map (fun f => (f, f, tB g f * bsgn g f))

/-- `bound_pressure_cell`: `v_cell[bnd.is_neu[fi]] = 1` (explicit zeros elsewhere) -/
def bpCellT (g : Grid) : List Trip :=
  g.hf.map (fun h => (h.face, h.cell, if g.isNeu h.face then 1 else 0))

/-- `v_face`: 1 on Dirichlet faces, then `-1 / t_full` on Neumann faces -/
def vFace (g : Grid) (f : Nat) : Rat :=
  if g.isNeu f then -1 / tFull g f else if g.isDir f then 1 else 0

/-- `bound_pressure_face = dia_matrix((v_face, 0)).tocsr()` (zeros of the diagonal are not stored) -/
def bpFaceT (g : Grid) : List Trip :=
  ((List.range g.nf).map (fun f => (f, f, vFace g f))).filter (fun t => t.2.2 != 0)

/-- `vector_source`: `(t[fi] * fc_cc * sgn)[:vsd]` at `(fi, ci * vsd + k)` -/
def vecSrcT (g : Grid) (vsd : Nat) : List Trip :=
  g.hf.flatMap (fun h => (List.range vsd).map (fun k =>
    (h.face, h.cell * vsd + k, trans g h.face * (dvec g h).get k * h.sgn)))

/-- `bound_pressure_vector_source`: `fc_cc[:vsd]` on Neumann half-faces (explicit zeros elsewhere) -/
def bpVecSrcT (g : Grid) (vsd : Nat) : List Trip :=
  g.hf.flatMap (fun h => (List.range vsd).map (fun k =>
    (h.face, h.cell * vsd + k, if g.isNeu h.face then (dvec g h).get k else 0)))

def rabs (x : Rat) : Rat := if x < 0 then -x else x

def sumAbsInv : List Rat → Rat
  | [] => 0
  | t :: r => rabs (1 / t) + sumAbsInv r

def maxAbs : List Rat → Rat
  | [] => 0
  | t :: r => if rabs t < maxAbs r then maxAbs r else rabs t

/-- Knife edges, where binary64 and exact arithmetic part ways: a vanishing cell-face distance, a half
    transmissibility that vanishes (IEEE: `1/0 = inf`) or nearly does by cancellation
    (`(d.Kn)^2 <= 1e-12 (d.d)(Kn.Kn)`: a local, scale-free margin, so that strongly graded grids and
    tensors / lengths of any magnitude are treated alike), a face without cells, or a harmonic sum
    `Σ 1/t_half` that cancels (relative margin 1e-6).  The correspondence check skips and counts these
    inputs; the theorems do not depend on this function. -/
def degenerate (g : Grid) : Bool :=
  g.hf.any (fun h =>
      let d := dvec g h
      let kn := (g.perm h.cell).mulVec (V3.smul h.sgn (g.normal h.face))
      d.dot d == 0 || (d.dot kn) * (d.dot kn) * 1000000000000 ≤ d.dot d * kn.dot kn)
  || (List.range g.nf).any (fun f =>
        (hfOf g f).isEmpty ||
        rabs (sumInv ((hfOf g f).map (tHalf g))) * 1000000 ≤ sumAbsInv ((hfOf g f).map (tHalf g)))

/-! ### dense meaning of triplet lists -/

/-- entry `(i, j)` of the matrix (duplicates summed) -/
def entry : List Trip → Nat → Nat → Rat
  | [], _, _ => 0
  | (a, b, v) :: r, i, j => (if a = i ∧ b = j then v else 0) + entry r i j

/-- row `i` of the matrix applied to the vector `p` -/
def rowApply : List Trip → Nat → (Nat → Rat) → Rat
  | [], _, _ => 0
  | (a, b, v) :: r, i, p => (if a = i then v * p b else 0) + rowApply r i p

/-- `Σ_{i<n} F i` -/
def sumTo : Nat → (Nat → Rat) → Rat
  | 0, _ => 0
  | n + 1, F => sumTo n F + F n

/-- dense `cell_faces[f, c]` -/
def inc (g : Grid) (f c : Nat) : Rat := entry (cellFacesT g) f c

/-- the cell-cell operator `div * flux = cell_facesᵀ * flux`, entry `(c1, c2)` -/
def cellOp (g : Grid) (c1 c2 : Nat) : Rat :=
  sumTo g.nf (fun f => inc g f c1 * entry (fluxT g) f c2)

/-- flux over face `f` (in the direction of the stored normal) for cell pressures `p` and boundary
    data `bc`: row `f` of `flux * p + bound_flux * bc` -/
def faceFlux (g : Grid) (f : Nat) (p bc : Nat → Rat) : Rat :=
  rowApply (fluxT g) f p + rowApply (boundFluxT g) f bc

/-- reconstructed boundary pressure: row `f` of `bound_pressure_cell * p + bound_pressure_face * bc` -/
def facePressure (g : Grid) (f : Nat) (p bc : Nat → Rat) : Rat :=
  rowApply (bpCellT g) f p + rowApply (bpFaceT g) f bc

/-- the cell-wise constant vector `G` as a vector-source array (`vsd` entries per cell, cell-major:
    what `vector_source` / `bound_pressure_vector_source` are multiplied with) -/
def vsVec (vsd : Nat) (G : V3) : Nat → Rat := fun j => G.get (j % vsd)

/-- net outflow of cell `c` for face fluxes `F`: row `c` of `cell_facesᵀ * F` -/
def divApply : List HF → Nat → (Nat → Rat) → Rat
  | [], _, _ => 0
  | h :: r, c, F => (if h.cell = c then h.sgn * F h.face else 0) + divApply r c F

/-! ### grid well-formedness (decidable): every face has one cell (sign ±1) or two distinct cells with
opposite signs, and all indices are in range -/

def faceOK (g : Grid) (f : Nat) : Bool :=
  match hfOf g f with
  | [h] => (h.sgn == 1 || h.sgn == -1) && decide (h.cell < g.nc)
  | [h1, h2] => h1.cell != h2.cell && decide (h1.cell < g.nc) && decide (h2.cell < g.nc)
      && ((h1.sgn == 1 && h2.sgn == -1) || (h1.sgn == -1 && h2.sgn == 1))
  | _ => false

def WellFormed (g : Grid) : Prop :=
  (∀ f, f < g.nf → faceOK g f = true) ∧ (∀ h ∈ g.hf, h.face < g.nf)

/-! ### decidable grid-level input conditions (used by the grid-level theorems) -/

/-- `WellFormed` as a computation (reported by the driver for every real grid) -/
def wellFormedB (g : Grid) : Bool :=
  (List.range g.nf).all (faceOK g) && g.hf.all (fun h => decide (h.face < g.nf))

/-- outward normal of a half-face: `n = sgn * face_normal` -/
def outN (g : Grid) (h : HF) : V3 := V3.smul h.sgn (g.normal h.face)

/-- boundary bookkeeping is consistent: `bndr` lists each boundary face once, a face is listed iff it has
    exactly one cell (the others have two and carry no Neumann flag), every listed face is Dirichlet or
    Neumann (no Robin) -/
def bndOK (g : Grid) : Bool :=
  decide g.bndr.Nodup
  && g.bndr.all (fun f => decide (f < g.nf) && (hfOf g f).length == 1 && (neuAll g f || dirEff g f))
  && (List.range g.nf).all (fun f => decide (f ∈ g.bndr) || ((hfOf g f).length == 2 && !neuAll g f))

/-- K-orthogonal half-face, decidable form: the co-normal `K n` is parallel to `d` (vanishing cross
    product) and `d ≠ 0` -/
def korthHF (g : Grid) (h : HF) : Bool :=
  ((g.perm h.cell).mulVec (outN g h)).cross (dvec g h) == ⟨0, 0, 0⟩ && (dvec g h).dot (dvec g h) != 0

/-- K-orthogonal grid with the constant tensor `K`: every half-face K-orthogonal with a non-vanishing half
    transmissibility, and the two half transmissibilities of an interior face do not cancel -/
def korthGrid (g : Grid) (K : M3) : Bool :=
  g.hf.all (fun h => g.perm h.cell == K && korthHF g h && tHalf g h != 0)
  && (List.range g.nf).all (fun f =>
        match hfOf g f with
        | [h1, h2] => tHalf g h1 + tHalf g h2 != 0
        | _ => true)

/-- "Cartesian / tensor grid with positive diagonal permeability", decidable form: for every half-face
    the tensor of its cell is diagonal with positive entries and the outward normal points along `d`
    (parallel, same direction) -/
def cartLike (g : Grid) : Bool :=
  g.hf.all (fun h =>
    let K := g.perm h.cell
    K.r0.y == 0 && K.r0.z == 0 && K.r1.x == 0 && K.r1.z == 0 && K.r2.x == 0 && K.r2.y == 0
    && decide (0 < K.r0.x) && decide (0 < K.r1.y) && decide (0 < K.r2.z)
    && (outN g h).cross (dvec g h) == ⟨0, 0, 0⟩ && decide (0 < (outN g h).dot (dvec g h)))

/-! ### TPFA on the 2-D grid structure of the C11 MPFA model (`PorepyVerif.C11.Grid2`)

`ofGrid2` turns a C11 grid (2-vectors as lists, `face_cells` per face, one Dirichlet flag per face; a
boundary face that is not Dirichlet is Neumann) into the input of the TPFA model above, so that the two
discretisations can be compared on the same grid (`tpfa_eq_mpfa_Korth`).  `KorthOK` is the decidable
K-orthogonality condition under which they coincide. -/
section OnGrid2
open PorepyVerif.C11

/-- a planar vector as a 3-vector -/
def v3 : Vec → V3
  | [a, b] => ⟨a, b, 0⟩
  | _ => ⟨0, 0, 0⟩

/-- a 2x2 tensor as a 3x3 tensor (`SecondOrderTensor` fills `kzz = 1`) -/
def m3 : Mat → M3
  | [[a, b], [c, d]] => ⟨⟨a, b, 0⟩, ⟨c, d, 0⟩, ⟨0, 0, 1⟩⟩
  | _ => ⟨⟨0, 0, 0⟩, ⟨0, 0, 0⟩, ⟨0, 0, 0⟩⟩

def ofGrid2 (G : Grid2) : Grid where
  nf := G.numFaces
  nc := G.numCells
  hf := (List.range G.numFaces).flatMap (fun f => (G.fcells f).map (fun cs => ⟨f, cs.1, cs.2⟩))
  normal := fun f => v3 (G.fnAt f)
  fc := fun f => v3 (G.fcAt f)
  cc := fun c => v3 (G.ccAt c)
  perm := fun c => m3 (G.permAt c)
  bndr := (List.range G.numFaces).filter G.isBoundary
  isDir := fun f => G.dirAt f && G.isBoundary f
  isNeu := fun f => !G.dirAt f && G.isBoundary f
  isInt := fun _ => false

/-- face centre minus cell centre -/
def dvec2 (G : Grid2) (f c : Nat) : Vec := vsub (G.fcAt f) (G.ccAt c)

/-- the half transmissibility `(d . K (s n)) / (d . d)` in list form -/
def th2 (G : Grid2) (f c : Nat) (s : Rat) : Rat :=
  dot (dvec2 G f c) (mulVec (G.permAt c) (smul s (G.fnAt f))) / dot (dvec2 G f c) (dvec2 G f c)

/-- K-orthogonality of the half-face `(f, c, s)`: `n_fᵀ K_c = s t_half dᵀ`, i.e. the co-normal is parallel
    to the vector from the cell centre to the face centre, with the half transmissibility as factor -/
def korthAt (G : Grid2) (f c : Nat) (s : Rat) : Bool :=
  vecMat 2 (G.fnAt f) (G.permAt c) == smul (s * th2 G f c s) (dvec2 G f c)

def faceKorth (G : Grid2) (f : Nat) : Bool :=
  match G.fcells f with
  | [(c, s)] => (s == 1 || s == -1) && th2 G f c s != 0 && korthAt G f c s
  | [(c1, s1), (c2, s2)] =>
      (s1 == 1 || s1 == -1) && s2 == -s1 && th2 G f c1 s1 != 0 && th2 G f c2 s2 != 0
      && th2 G f c1 s1 + th2 G f c2 s2 != 0 && korthAt G f c1 s1 && korthAt G f c2 s2
  | _ => false

def det2 : Vec → Vec → Rat
  | [a, b], [c, d] => a * d - b * c
  | _, _ => 0

/-- the faces of cell `c` that meet at node `v` -/
def cfaces (G : Grid2) (v c : Nat) : List Nat :=
  (G.facesOf v).filter (fun f => (G.fcells f).any (fun cs => cs.1 == c))

/-- at the corner `v` of cell `c` exactly two faces of the cell meet, and the vectors from the cell centre
    to their centres are linearly independent -/
def cornerOK (G : Grid2) (v c : Nat) : Bool :=
  match cfaces G v c with
  | [f1, f2] => det2 (dvec2 G f1 c) (dvec2 G f2 c) != 0
  | _ => false

/-- decidable K-orthogonality of a 2-D grid: continuity points at the face centres (`η = 0`), every
    half-face K-orthogonal with a non-vanishing half transmissibility, orientations ±1 and opposite on the
    two sides of an interior face, non-degenerate corners -/
def KorthOK (G : Grid2) : Bool :=
  G.eta == 0 && (List.range G.numFaces).all (faceKorth G)
  && (List.range G.numNodes).all (fun v => (G.cellsOf v).all (cornerOK G v))

end OnGrid2

end PorepyVerif.C12
