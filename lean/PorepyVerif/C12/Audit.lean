import PorepyVerif.C12.Props
#print axioms PorepyVerif.C12.tpfa_symmetric
#print axioms PorepyVerif.C12.tpfa_single_valued
#print axioms PorepyVerif.C12.tpfa_single_valued_interior
#print axioms PorepyVerif.C12.tpfa_conservative
#print axioms PorepyVerif.C12.tpfa_const_zero_flux
#print axioms PorepyVerif.C12.tpfa_Mmatrix
#print axioms PorepyVerif.C12.tpfa_thalf_pos_diagK
#print axioms PorepyVerif.C12.tpfa_exact_Korth
#print axioms PorepyVerif.C12.tpfa_exact_Korth_dirichlet
#print axioms PorepyVerif.C12.tpfa_exact_neumann
#print axioms PorepyVerif.C12.tpfa_bound_pressure_exact_Korth
#print axioms PorepyVerif.C12.tpfa_bound_pressure_dirichlet
#print axioms PorepyVerif.C12.tpfa_hydrostatic_zero_flux
#print axioms PorepyVerif.C12.tpfa_hydrostatic_bound_pressure
#print axioms PorepyVerif.C12.tpfa_eq_mpfa_Korth
#print axioms PorepyVerif.C12.tpfa_eq_mpfa_Korth_entries
