/-
C03 — definitions over ℝ and helper lemmas.

`Tree n k` is an expression tree over a state `x : Fin n → ℝ` with a vector value in `Fin k → ℝ`:
variable leaves (`ad_base[dofs]`: rows of the identity), constant leaves (anything parsed to a number /
array / previous time step or iterate: zero Jacobian), unary and binary nodes carrying a forward-mode
rule `(value, Jacobian factors)`.  `Tree.val` is the plain evaluation, `Tree.jac` the Jacobian as
forward mode computes it (`Σ ∂f/∂childᵢ · Jac(childᵢ)`), `Tree.Smooth` says that at the state `x`
every node's Jacobian factors are the true (Fréchet) partial derivatives of the node's value map at
the children's values.
-/
import Mathlib.Analysis.Calculus.FDeriv.Basic
import Mathlib.Analysis.Calculus.FDeriv.Comp
import Mathlib.Analysis.Calculus.FDeriv.Prod
import Mathlib.Analysis.Calculus.FDeriv.Add
import Mathlib.Analysis.Calculus.FDeriv.Linear
import Mathlib.Analysis.Calculus.FDeriv.Pi
import Mathlib.Analysis.Calculus.FDeriv.Mul
import Mathlib.Analysis.Calculus.Deriv.Basic
import Mathlib.Analysis.Calculus.Deriv.Comp
import Mathlib.Analysis.Calculus.Deriv.ZPow
import Mathlib.Analysis.Calculus.Deriv.Inv
import Mathlib.Analysis.Calculus.Deriv.Abs
import Mathlib.Analysis.Calculus.FDeriv.Pow
import Mathlib.Analysis.SpecialFunctions.Trigonometric.DerivHyp
import Mathlib.Analysis.SpecialFunctions.ExpDeriv
import Mathlib.Analysis.SpecialFunctions.Log.Deriv
import Mathlib.Analysis.SpecialFunctions.Trigonometric.Deriv
import Mathlib.Analysis.SpecialFunctions.Trigonometric.ArctanDeriv
import Mathlib.Analysis.SpecialFunctions.Pow.Deriv
import Mathlib.Analysis.SpecialFunctions.Sqrt
import Mathlib.Analysis.SpecialFunctions.Arcosh
import Mathlib.Analysis.SpecialFunctions.Artanh
import Mathlib.Analysis.SpecialFunctions.Arsinh
import Mathlib.Analysis.SpecialFunctions.Trigonometric.InverseDeriv
import Mathlib.LinearAlgebra.Matrix.ToLin
import Mathlib.Topology.Algebra.Module.FiniteDimension
import PorepyVerif.C03.Model

namespace PorepyVerif.C03
open Matrix

abbrev Vec (k : ℕ) := Fin k → ℝ
abbrev Mat (k m : ℕ) := Matrix (Fin k) (Fin m) ℝ

/-- a matrix as a continuous linear map (`v ↦ A.mulVec v`) -/
noncomputable def mcl {k m : ℕ} (A : Mat k m) : Vec m →L[ℝ] Vec k :=
  LinearMap.toContinuousLinearMap (Matrix.toLin' A)

@[simp] theorem mcl_apply {k m : ℕ} (A : Mat k m) (v : Vec m) : mcl A v = A.mulVec v := by
  simp [mcl]

theorem mcl_mul {k m n : ℕ} (A : Mat k m) (B : Mat m n) : mcl (A * B) = (mcl A).comp (mcl B) := by
  ext v i; simp [Matrix.mulVec_mulVec]

theorem mcl_add {k m : ℕ} (A B : Mat k m) : mcl (A + B) = mcl A + mcl B := by
  ext v i; simp [Matrix.add_mulVec]

@[simp] theorem mcl_zero {k m : ℕ} : mcl (0 : Mat k m) = 0 := by
  ext v i; simp

/-- unary node rule on vectors: value map and Jacobian factor (a matrix depending on the child's value) -/
structure URule (m k : ℕ) where
  f  : Vec m → Vec k
  df : Vec m → Mat k m

/-- binary node rule on vectors -/
structure BRule (m₁ m₂ k : ℕ) where
  f  : Vec m₁ → Vec m₂ → Vec k
  d₁ : Vec m₁ → Vec m₂ → Mat k m₁
  d₂ : Vec m₁ → Vec m₂ → Mat k m₂

/-- the rule's factor is the Fréchet derivative of its value map at `a` -/
def URule.SoundAt {m k : ℕ} (r : URule m k) (a : Vec m) : Prop :=
  HasFDerivAt r.f (mcl (r.df a)) a

/-- the rule's two factors are the partial Fréchet derivatives of its value map at `(a, b)` -/
def BRule.SoundAt {m₁ m₂ k : ℕ} (r : BRule m₁ m₂ k) (a : Vec m₁) (b : Vec m₂) : Prop :=
  HasFDerivAt (fun p : Vec m₁ × Vec m₂ => r.f p.1 p.2)
    ((mcl (r.d₁ a b)).comp (ContinuousLinearMap.fst ℝ (Vec m₁) (Vec m₂))
      + (mcl (r.d₂ a b)).comp (ContinuousLinearMap.snd ℝ (Vec m₁) (Vec m₂))) (a, b)

/-- expression trees over a state of `n` degrees of freedom -/
inductive Tree (n : ℕ) : ℕ → Type
  | var {m : ℕ} (dofs : Fin m → Fin n) : Tree n m
  | const {m : ℕ} (c : Vec m) : Tree n m
  | un {m k : ℕ} (r : URule m k) (t : Tree n m) : Tree n k
  | bin {m₁ m₂ k : ℕ} (r : BRule m₁ m₂ k) (t₁ : Tree n m₁) (t₂ : Tree n m₂) : Tree n k

/-- rows `dofs` of the identity matrix: the Jacobian of `ad_base[dofs]` -/
def selMat {n m : ℕ} (dofs : Fin m → Fin n) : Mat m n := fun i j => if dofs i = j then 1 else 0

/-- plain evaluation (what `derivative=False` computes) -/
def Tree.val {n : ℕ} : {k : ℕ} → Tree n k → Vec n → Vec k
  | _, .var dofs, x => fun i => x (dofs i)
  | _, .const c, _ => c
  | _, .un r t, x => r.f (t.val x)
  | _, .bin r t₁ t₂, x => r.f (t₁.val x) (t₂.val x)

/-- forward-mode Jacobian: identity block at variables, zero at constants, chain rule at nodes -/
def Tree.jac {n : ℕ} : {k : ℕ} → Tree n k → Vec n → Mat k n
  | _, .var dofs, _ => selMat dofs
  | _, .const _, _ => 0
  | _, .un r t, x => r.df (t.val x) * t.jac x
  | _, .bin r t₁ t₂, x => r.d₁ (t₁.val x) (t₂.val x) * t₁.jac x + r.d₂ (t₁.val x) (t₂.val x) * t₂.jac x

/-- smooth region: every node rule is sound at the values its children take at `x` -/
def Tree.Smooth {n : ℕ} : {k : ℕ} → Tree n k → Vec n → Prop
  | _, .var _, _ => True
  | _, .const _, _ => True
  | _, .un r t, x => t.Smooth x ∧ r.SoundAt (t.val x)
  | _, .bin r t₁ t₂, x => t₁.Smooth x ∧ t₂.Smooth x ∧ r.SoundAt (t₁.val x) (t₂.val x)

theorem selMat_mulVec {n m : ℕ} (dofs : Fin m → Fin n) (x : Vec n) :
    (selMat dofs).mulVec x = fun i => x (dofs i) := by
  funext i
  simp [Matrix.mulVec, dotProduct, selMat]

/-- variable leaf: the slice is linear and its derivative is the selection matrix -/
theorem var_hasFDerivAt {n m : ℕ} (dofs : Fin m → Fin n) (x : Vec n) :
    HasFDerivAt (fun y : Vec n => fun i => y (dofs i)) (mcl (selMat dofs)) x := by
  have h : (fun y : Vec n => fun i => y (dofs i)) = fun y => mcl (selMat dofs) y := by
    funext y; rw [mcl_apply, selMat_mulVec]
  rw [h]
  exact (mcl (selMat dofs)).hasFDerivAt

/-- the induction: forward mode computes the Fréchet derivative on the smooth region -/
theorem tree_hasFDerivAt {n : ℕ} : ∀ {k : ℕ} (t : Tree n k) (x : Vec n), t.Smooth x →
    HasFDerivAt t.val (mcl (t.jac x)) x
  | _, .var dofs, x, _ => var_hasFDerivAt dofs x
  | _, .const c, x, _ => by
      show HasFDerivAt (fun _ => c) (mcl (0 : Mat _ n)) x
      rw [mcl_zero]; exact hasFDerivAt_const c x
  | _, .un r t, x, h => by
      obtain ⟨ht, hr⟩ := h
      have ih := tree_hasFDerivAt t x ht
      have := HasFDerivAt.comp x hr ih
      show HasFDerivAt (fun y => r.f (t.val y)) (mcl (r.df (t.val x) * t.jac x)) x
      rw [mcl_mul]; exact this
  | _, .bin r t₁ t₂, x, h => by
      obtain ⟨h₁, h₂, hr⟩ := h
      have ih₁ := tree_hasFDerivAt t₁ x h₁
      have ih₂ := tree_hasFDerivAt t₂ x h₂
      have hp := ih₁.prodMk ih₂
      have := HasFDerivAt.comp x (f := fun y => (t₁.val y, t₂.val y)) hr hp
      show HasFDerivAt (fun y => r.f (t₁.val y) (t₂.val y))
        (mcl (r.d₁ (t₁.val x) (t₂.val x) * t₁.jac x + r.d₂ (t₁.val x) (t₂.val x) * t₂.jac x)) x
      rw [mcl_add, mcl_mul, mcl_mul]
      have e : (mcl (r.d₁ (t₁.val x) (t₂.val x))).comp (mcl (t₁.jac x))
            + (mcl (r.d₂ (t₁.val x) (t₂.val x))).comp (mcl (t₂.jac x))
          = ((mcl (r.d₁ (t₁.val x) (t₂.val x))).comp (ContinuousLinearMap.fst ℝ _ _)
              + (mcl (r.d₂ (t₁.val x) (t₂.val x))).comp (ContinuousLinearMap.snd ℝ _ _)).comp
              ((mcl (t₁.jac x)).prod (mcl (t₂.jac x))) := by
        ext v i
        simp
      rw [e]; exact this

/-- Fréchet derivative ⇒ directional derivative of every component along every direction -/
theorem directional_of_fderiv {n k : ℕ} {f : Vec n → Vec k} {J : Mat k n} {x : Vec n}
    (h : HasFDerivAt f (mcl J) x) (δ : Vec n) (i : Fin k) :
    HasDerivAt (fun ε : ℝ => f (x + ε • δ) i) (J.mulVec δ i) 0 := by
  have hline : HasDerivAt (fun ε : ℝ => x + ε • δ) δ 0 := by
    simpa using ((hasDerivAt_id (0 : ℝ)).smul_const δ).const_add x
  have hx : x + (0 : ℝ) • δ = x := by simp
  have hf : HasFDerivAt f (mcl J) (x + (0 : ℝ) • δ) := by rw [hx]; exact h
  have hcomp := hf.comp_hasDerivAt (0 : ℝ) hline
  have h2 : HasDerivAt (fun ε : ℝ => f (x + ε • δ) i) ((mcl J δ) i) 0 :=
    hasDerivAt_pi.mp hcomp i
  rwa [mcl_apply] at h2

/-! ## scalar rules and their lift to vectors -/

/-- the two factors of a scalar binary rule are the partial derivatives of its value map at `(a, b)`
    (joint Fréchet differentiability, not just existence of partials) -/
def Sound2 (r : Rule2 ℝ) (a b : ℝ) : Prop :=
  HasFDerivAt (fun p : ℝ × ℝ => r.f p.1 p.2)
    (r.d1 a b • ContinuousLinearMap.fst ℝ ℝ ℝ + r.d2 a b • ContinuousLinearMap.snd ℝ ℝ ℝ) (a, b)

/-- the factor of a scalar unary rule is the derivative of its value map at `a` -/
def Sound1 (r : Rule1 ℝ) (a : ℝ) : Prop := HasDerivAt r.f (r.d a) a

/-- elementwise application of a scalar binary rule: `new_jac = diag(d1)·Ja + diag(d2)·Jb` -/
def ewise2 {m : ℕ} (r : Rule2 ℝ) : BRule m m m where
  f a b := fun i => r.f (a i) (b i)
  d₁ a b := Matrix.diagonal fun i => r.d1 (a i) (b i)
  d₂ a b := Matrix.diagonal fun i => r.d2 (a i) (b i)

/-- elementwise application of a scalar unary rule: `new_jac = diag(d)·Ja` (`_diagvec_mul_jac`) -/
def ewise1 {m : ℕ} (r : Rule1 ℝ) : URule m m where
  f a := fun i => r.f (a i)
  df a := Matrix.diagonal fun i => r.d (a i)

/-- left multiplication by a constant matrix (`sparse @ AdArray`, `ArraySlicer @ AdArray`,
    `ProjectionList @ AdArray` = the sum of its slicers) -/
def linRule {m k : ℕ} (M : Mat k m) : URule m k where
  f a := M.mulVec a
  df _ := M

theorem ewise2_soundAt {m : ℕ} (r : Rule2 ℝ) (a b : Vec m) (h : ∀ i, Sound2 r (a i) (b i)) :
    (ewise2 r).SoundAt a b := by
  unfold BRule.SoundAt
  apply hasFDerivAt_pi''
  intro i
  let pick : Vec m × Vec m →L[ℝ] ℝ × ℝ :=
    ((ContinuousLinearMap.proj (R := ℝ) (φ := fun _ : Fin m => ℝ) i).comp (ContinuousLinearMap.fst ℝ _ _)).prod
      ((ContinuousLinearMap.proj (R := ℝ) (φ := fun _ : Fin m => ℝ) i).comp (ContinuousLinearMap.snd ℝ _ _))
  have hpick : HasFDerivAt (fun p : Vec m × Vec m => (p.1 i, p.2 i)) pick (a, b) := pick.hasFDerivAt
  have hi : HasFDerivAt (fun q : ℝ × ℝ => r.f q.1 q.2)
      (r.d1 (a i) (b i) • ContinuousLinearMap.fst ℝ ℝ ℝ + r.d2 (a i) (b i) • ContinuousLinearMap.snd ℝ ℝ ℝ)
      ((fun p : Vec m × Vec m => (p.1 i, p.2 i)) (a, b)) := h i
  have hc : HasFDerivAt (fun p : Vec m × Vec m => r.f (p.1 i) (p.2 i)) _ (a, b) :=
    HasFDerivAt.comp (a, b) (g := fun q : ℝ × ℝ => r.f q.1 q.2) hi hpick
  have e : (r.d1 (a i) (b i) • ContinuousLinearMap.fst ℝ ℝ ℝ + r.d2 (a i) (b i) • ContinuousLinearMap.snd ℝ ℝ ℝ).comp pick
      = (ContinuousLinearMap.proj (R := ℝ) (φ := fun _ : Fin m => ℝ) i).comp
          ((mcl ((ewise2 (m := m) r).d₁ a b)).comp (ContinuousLinearMap.fst ℝ (Vec m) (Vec m))
            + (mcl ((ewise2 (m := m) r).d₂ a b)).comp (ContinuousLinearMap.snd ℝ (Vec m) (Vec m))) := by
    ext v
    · simp [pick, ewise2, Matrix.mulVec_diagonal]
    · simp [pick, ewise2, Matrix.mulVec_diagonal]
  rw [← e]
  exact hc

theorem ewise1_soundAt {m : ℕ} (r : Rule1 ℝ) (a : Vec m) (h : ∀ i, Sound1 r (a i)) :
    (ewise1 r).SoundAt a := by
  unfold URule.SoundAt
  apply hasFDerivAt_pi''
  intro i
  have hproj : HasFDerivAt (fun v : Vec m => v i)
      (ContinuousLinearMap.proj (R := ℝ) (φ := fun _ : Fin m => ℝ) i) a := hasFDerivAt_apply i a
  have hi : HasDerivAt r.f (r.d (a i)) ((fun v : Vec m => v i) a) := h i
  have hc : HasFDerivAt (fun v : Vec m => r.f (v i)) _ a := HasDerivAt.comp_hasFDerivAt a hi hproj
  have e : r.d (a i) • (ContinuousLinearMap.proj (R := ℝ) (φ := fun _ : Fin m => ℝ) i)
      = (ContinuousLinearMap.proj (R := ℝ) (φ := fun _ : Fin m => ℝ) i).comp (mcl ((ewise1 (m := m) r).df a)) := by
    ext v
    simp [ewise1, Matrix.mulVec_diagonal]
  rw [← e]
  exact hc

theorem linRule_soundAt {m k : ℕ} (M : Mat k m) (a : Vec m) : (linRule M).SoundAt a := by
  unfold URule.SoundAt
  have h : (linRule M).f = fun v => mcl M v := by funext v; simp [linRule]
  rw [h]
  exact (mcl M).hasFDerivAt

/-! ### scalar soundness of the rule formulas of `Model.lean`, instantiated at ℝ -/

theorem add_sound2 (a b : ℝ) : Sound2 addRule a b := by
  unfold Sound2
  have h := (hasFDerivAt_fst (𝕜 := ℝ) (E := ℝ) (F := ℝ) (p := (a, b))).add
    (hasFDerivAt_snd (𝕜 := ℝ) (E := ℝ) (F := ℝ) (p := (a, b)))
  exact h.congr_fderiv (by ext <;> simp [addRule])

theorem sub_sound2 (a b : ℝ) : Sound2 subRule a b := by
  unfold Sound2
  have h := (hasFDerivAt_fst (𝕜 := ℝ) (E := ℝ) (F := ℝ) (p := (a, b))).sub
    (hasFDerivAt_snd (𝕜 := ℝ) (E := ℝ) (F := ℝ) (p := (a, b)))
  exact h.congr_fderiv (by ext <;> simp [subRule])

theorem mul_sound2 (a b : ℝ) : Sound2 mulRule a b := by
  unfold Sound2
  have h := (hasFDerivAt_fst (𝕜 := ℝ) (E := ℝ) (F := ℝ) (p := (a, b))).mul
    (hasFDerivAt_snd (𝕜 := ℝ) (E := ℝ) (F := ℝ) (p := (a, b)))
  exact h.congr_fderiv (by ext <;> simp [mulRule])

theorem div_sound2 (a b : ℝ) (hb : b ≠ 0) : Sound2 divRule a b := by
  unfold Sound2
  have hb' : ((a, b) : ℝ × ℝ).2 ≠ 0 := hb
  have hinv : HasFDerivAt (fun p : ℝ × ℝ => p.2⁻¹) _ (a, b) :=
    (hasFDerivAt_inv (𝕜 := ℝ) hb').comp (a, b) (hasFDerivAt_snd (𝕜 := ℝ) (E := ℝ) (F := ℝ) (p := (a, b)))
  have h := (hasFDerivAt_fst (𝕜 := ℝ) (E := ℝ) (F := ℝ) (p := (a, b))).mul hinv
  refine h.congr_fderiv ?_
  ext
  · simp [divRule]
  · simp [divRule, pow_two]

theorem max_sound2 (a b : ℝ) (hab : a ≠ b) : Sound2 maxRule a b := by
  unfold Sound2
  rcases lt_or_gt_of_ne hab with h | h
  · have hev : (fun p : ℝ × ℝ => (maxRule (α := ℝ)).f p.1 p.2) =ᶠ[nhds (a, b)] fun p => p.2 := by
      have ho : IsOpen {p : ℝ × ℝ | p.1 < p.2} := isOpen_lt continuous_fst continuous_snd
      filter_upwards [ho.mem_nhds (show (a, b) ∈ {p : ℝ × ℝ | p.1 < p.2} from h)] with p hp
      simp only [maxRule]; rw [if_pos hp]
    have h' := (hasFDerivAt_snd (𝕜 := ℝ) (E := ℝ) (F := ℝ) (p := (a, b))).congr_of_eventuallyEq hev
    exact h'.congr_fderiv (by simp [maxRule, h])
  · have hev : (fun p : ℝ × ℝ => (maxRule (α := ℝ)).f p.1 p.2) =ᶠ[nhds (a, b)] fun p => p.1 := by
      have ho : IsOpen {p : ℝ × ℝ | p.2 < p.1} := isOpen_lt continuous_snd continuous_fst
      filter_upwards [ho.mem_nhds (show (a, b) ∈ {p : ℝ × ℝ | p.2 < p.1} from h)] with p hp
      simp only [maxRule]; rw [if_neg (not_lt.mpr (le_of_lt hp))]
    have h' := (hasFDerivAt_fst (𝕜 := ℝ) (E := ℝ) (F := ℝ) (p := (a, b))).congr_of_eventuallyEq hev
    exact h'.congr_fderiv (by simp [maxRule, not_lt.mpr (le_of_lt h)])

theorem npow_eq_pow (x : ℝ) (k : ℕ) : npow x k = x ^ k := by
  induction k with
  | zero => simp [npow]
  | succ k ih => simp [npow, ih, pow_succ]

theorem ipow_eq_zpow (x : ℝ) (c : ℤ) : ipow x c = x ^ c := by
  unfold ipow
  split
  · rename_i h
    rw [npow_eq_pow, ← zpow_natCast, Int.toNat_of_nonneg h]
  · rename_i h
    have h' : 0 ≤ -c := by omega
    rw [npow_eq_pow, ← zpow_natCast, Int.toNat_of_nonneg h', inv_zpow', neg_neg]

theorem powInt_sound1 (c : ℤ) (x : ℝ) (hx : x ≠ 0 ∨ 0 ≤ c) : Sound1 (powIntRule c (c : ℝ)) x := by
  unfold Sound1
  have hf : (powIntRule c (c : ℝ)).f = fun y : ℝ => y ^ c := by
    funext y; simp [powIntRule, ipow_eq_zpow]
  rw [hf]
  simpa [powIntRule, ipow_eq_zpow] using hasDerivAt_zpow c x hx

/-! ### ℝ-only rules (transcendental / piecewise): the formulas of `porepy/numerics/ad/functions.py` -/

/-- `AdArray.__pow__(float c)` for arbitrary real `c`: `val ** c`, factor `c · val ** (c - 1)` -/
noncomputable def powConstRule (c : ℝ) : Rule1 ℝ := ⟨fun x => x ^ c, fun x => c * x ^ (c - 1)⟩
/-- `AdArray ** AdArray`: `val = a ** b`, factors `b · a ** (b-1)` and `a ** b · log a` -/
noncomputable def powRule : Rule2 ℝ :=
  ⟨fun a b => a ^ b, fun a b => b * a ^ (b - 1), fun a b => a ^ b * Real.log a⟩
noncomputable def expRule : Rule1 ℝ := ⟨Real.exp, Real.exp⟩
noncomputable def logRule : Rule1 ℝ := ⟨Real.log, fun x => 1 / x⟩
noncomputable def sinRule : Rule1 ℝ := ⟨Real.sin, Real.cos⟩
noncomputable def cosRule : Rule1 ℝ := ⟨Real.cos, fun x => -Real.sin x⟩
noncomputable def tanRule : Rule1 ℝ := ⟨Real.tan, fun x => (Real.cos x ^ 2)⁻¹⟩
noncomputable def sinhRule : Rule1 ℝ := ⟨Real.sinh, Real.cosh⟩
noncomputable def coshRule : Rule1 ℝ := ⟨Real.cosh, Real.sinh⟩
noncomputable def tanhRule : Rule1 ℝ := ⟨Real.tanh, fun x => (Real.cosh x ^ 2)⁻¹⟩
noncomputable def arctanRule : Rule1 ℝ := ⟨Real.arctan, fun x => (x ^ 2 + 1)⁻¹⟩
/-- `functions.abs`: factor `np.sign(val)` -/
noncomputable def absRule : Rule1 ℝ := ⟨fun x => |x|, fun x => (SignType.sign x : ℝ)⟩
/-- `functions.characteristic_function(tol, ·)`: `np.isclose(val, 0, atol=tol)`, zero Jacobian -/
noncomputable def charRule (tol : ℝ) : Rule1 ℝ := ⟨fun x => if |x| ≤ tol then 1 else 0, fun _ => 0⟩
/-- `functions.heaviside(zerovalue, ·)`: `np.heaviside`, zero Jacobian -/
noncomputable def heavisideRule (z : ℝ) : Rule1 ℝ :=
  ⟨fun x => if x < 0 then 0 else if x = 0 then z else 1, fun _ => 0⟩

theorem pow_sound2 (a b : ℝ) (ha : 0 < a) : Sound2 powRule a b := by
  unfold Sound2
  exact (Real.hasStrictFDerivAt_rpow_of_pos (a, b) ha).hasFDerivAt

theorem tanh_hasDerivAt (x : ℝ) : HasDerivAt Real.tanh ((Real.cosh x ^ 2)⁻¹) x := by
  have hc : Real.cosh x ≠ 0 := (Real.cosh_pos x).ne'
  have h := (Real.hasDerivAt_sinh x).div (Real.hasDerivAt_cosh x) hc
  have hf : Real.tanh = fun y => Real.sinh y / Real.cosh y := by
    funext y; exact Real.tanh_eq_sinh_div_cosh y
  rw [hf]
  refine h.congr_deriv ?_
  have h1 : Real.cosh x * Real.cosh x - Real.sinh x * Real.sinh x = 1 := by
    nlinarith [Real.cosh_sq x]
  rw [h1, one_div]

theorem char_hasDerivAt (tol x : ℝ) (h : |x| ≠ tol) :
    HasDerivAt (fun y : ℝ => if |y| ≤ tol then (1 : ℝ) else 0) 0 x := by
  rcases lt_or_gt_of_ne h with hlt | hgt
  · have ho : IsOpen {y : ℝ | |y| < tol} := isOpen_lt continuous_abs continuous_const
    have hev : (fun y : ℝ => if |y| ≤ tol then (1 : ℝ) else 0) =ᶠ[nhds x] fun _ => 1 := by
      filter_upwards [ho.mem_nhds (show x ∈ {y : ℝ | |y| < tol} from hlt)] with y hy
      rw [if_pos (le_of_lt hy)]
    exact (hasDerivAt_const x (1 : ℝ)).congr_of_eventuallyEq hev
  · have ho : IsOpen {y : ℝ | tol < |y|} := isOpen_lt continuous_const continuous_abs
    have hev : (fun y : ℝ => if |y| ≤ tol then (1 : ℝ) else 0) =ᶠ[nhds x] fun _ => 0 := by
      filter_upwards [ho.mem_nhds (show x ∈ {y : ℝ | tol < |y|} from hgt)] with y hy
      rw [if_neg (not_le.mpr hy)]
    exact (hasDerivAt_const x (0 : ℝ)).congr_of_eventuallyEq hev

theorem heaviside_hasDerivAt (z x : ℝ) (h : x ≠ 0) :
    HasDerivAt (fun y : ℝ => if y < 0 then (0 : ℝ) else if y = 0 then z else 1) 0 x := by
  rcases lt_or_gt_of_ne h with hlt | hgt
  · have hev : (fun y : ℝ => if y < 0 then (0 : ℝ) else if y = 0 then z else 1) =ᶠ[nhds x] fun _ => 0 := by
      filter_upwards [(isOpen_Iio (a := (0 : ℝ))).mem_nhds (show x ∈ Set.Iio (0 : ℝ) from hlt)] with y hy
      have hy' : y < 0 := hy
      rw [if_pos hy']
    exact (hasDerivAt_const x (0 : ℝ)).congr_of_eventuallyEq hev
  · have hev : (fun y : ℝ => if y < 0 then (0 : ℝ) else if y = 0 then z else 1) =ᶠ[nhds x] fun _ => 1 := by
      filter_upwards [(isOpen_Ioi (a := (0 : ℝ))).mem_nhds (show x ∈ Set.Ioi (0 : ℝ) from hgt)] with y hy
      have hy' : (0 : ℝ) < y := hy
      rw [if_neg (not_lt.mpr hy'.le), if_neg hy'.ne']
    exact (hasDerivAt_const x (1 : ℝ)).congr_of_eventuallyEq hev

/-! ### inverse trigonometric / hyperbolic functions, `safe_power`, `heaviside_smooth` -/

/-- `y ** (-0.5)` is `1/√y` for positive `y` -/
theorem rpow_neg_half {y : ℝ} (hy : 0 < y) : y ^ (-(1 / 2) : ℝ) = (Real.sqrt y)⁻¹ := by
  rw [Real.rpow_neg hy.le, Real.sqrt_eq_rpow]

noncomputable def arcsinRule : Rule1 ℝ := ⟨Real.arcsin, fun x => (1 - x ^ 2) ^ (-(1 / 2) : ℝ)⟩
noncomputable def arccosRule : Rule1 ℝ := ⟨Real.arccos, fun x => -((1 - x ^ 2) ^ (-(1 / 2) : ℝ))⟩
noncomputable def arcsinhRule : Rule1 ℝ := ⟨Real.arsinh, fun x => (x ^ 2 + 1) ^ (-(1 / 2) : ℝ)⟩
noncomputable def arccoshRule : Rule1 ℝ :=
  ⟨Real.arcosh, fun x => (x - 1) ^ (-(1 / 2) : ℝ) * (x + 1) ^ (-(1 / 2) : ℝ)⟩
noncomputable def arctanhRule : Rule1 ℝ := ⟨Real.artanh, fun x => (1 - x ^ 2)⁻¹⟩
/-- `safe_power(power, zero_val, tol, ·)` -/
noncomputable def safePowerRule (p z tol : ℝ) : Rule1 ℝ :=
  ⟨fun x => if tol < |x| then x ^ p else z, fun x => if tol < |x| then p * x ^ (p - 1) else 0⟩
/-- `heaviside_smooth(·, eps)` -/
noncomputable def heavisideSmoothRule (eps : ℝ) : Rule1 ℝ :=
  ⟨fun x => 0.5 * (1 + 2 * Real.pi⁻¹ * Real.arctan (x * eps⁻¹)),
   fun x => Real.pi⁻¹ * eps * (eps ^ 2 + x ^ 2)⁻¹⟩

theorem one_sub_sq_pos {x : ℝ} (h : |x| < 1) : 0 < 1 - x ^ 2 := by
  have := abs_lt.mp h
  nlinarith

theorem arcsin_sound1 (x : ℝ) (h : |x| < 1) : Sound1 arcsinRule x := by
  unfold Sound1
  have hx := abs_lt.mp h
  have := Real.hasDerivAt_arcsin (x := x) (by linarith) (by linarith)
  refine this.congr_deriv ?_
  simp only [arcsinRule]
  rw [rpow_neg_half (one_sub_sq_pos h), one_div]

theorem arccos_sound1 (x : ℝ) (h : |x| < 1) : Sound1 arccosRule x := by
  unfold Sound1
  have hx := abs_lt.mp h
  have := Real.hasDerivAt_arccos (x := x) (by linarith) (by linarith)
  refine this.congr_deriv ?_
  simp only [arccosRule]
  rw [rpow_neg_half (one_sub_sq_pos h), one_div]

theorem arcsinh_sound1 (x : ℝ) : Sound1 arcsinhRule x := by
  unfold Sound1
  have := Real.hasDerivAt_arsinh x
  refine this.congr_deriv ?_
  simp only [arcsinhRule]
  rw [rpow_neg_half (by positivity), add_comm]

theorem arccosh_sound1 (x : ℝ) (h : 1 < x) : Sound1 arccoshRule x := by
  unfold Sound1
  have := Real.hasDerivAt_arcosh (x := x) h
  refine this.congr_deriv ?_
  simp only [arccoshRule]
  rw [rpow_neg_half (by linarith), rpow_neg_half (by linarith), ← mul_inv,
    ← Real.sqrt_mul (by linarith)]
  congr 2
  ring

theorem arctanh_sound1 (x : ℝ) (h : |x| < 1) : Sound1 arctanhRule x := by
  unfold Sound1
  have hx := abs_lt.mp h
  have h1 : (0 : ℝ) < 1 + x := by linarith
  have h2 : (0 : ℝ) < 1 - x := by linarith
  have hq : HasDerivAt (fun y : ℝ => (1 + y) / (1 - y)) ((1 * (1 - x) - (1 + x) * (-1)) / (1 - x) ^ 2) x :=
    (((hasDerivAt_id x).const_add 1).div ((hasDerivAt_id x).const_sub 1) h2.ne')
  have hl := (hq.log (div_pos h1 h2).ne').const_mul (1 / 2 : ℝ)
  have hev : Real.artanh =ᶠ[nhds x] fun y => 1 / 2 * Real.log ((1 + y) / (1 - y)) := by
    filter_upwards [(isOpen_Ioo (a := (-1 : ℝ)) (b := 1)).mem_nhds ⟨hx.1, hx.2⟩] with y hy
    exact Real.artanh_eq_half_log ⟨hy.1.le, hy.2.le⟩
  refine (hl.congr_of_eventuallyEq hev).congr_deriv ?_
  simp only [arctanhRule]
  have h3 : (1 : ℝ) - x ^ 2 = (1 - x) * (1 + x) := by ring
  rw [h3]
  field_simp
  ring

theorem safePower_sound1 (p z tol x : ℝ) (htol : 0 ≤ tol) (h : |x| ≠ tol) : Sound1 (safePowerRule p z tol) x := by
  unfold Sound1
  simp only [safePowerRule]
  rcases lt_or_gt_of_ne h with hlt | hgt
  · have ho : IsOpen {y : ℝ | |y| < tol} := isOpen_lt continuous_abs continuous_const
    have hev : (fun y : ℝ => if tol < |y| then y ^ p else z) =ᶠ[nhds x] fun _ => z := by
      filter_upwards [ho.mem_nhds (show x ∈ {y : ℝ | |y| < tol} from hlt)] with y hy
      rw [if_neg (not_lt.mpr (le_of_lt hy))]
    rw [if_neg (not_lt.mpr hlt.le)]
    exact (hasDerivAt_const x z).congr_of_eventuallyEq hev
  · have ho : IsOpen {y : ℝ | tol < |y|} := isOpen_lt continuous_const continuous_abs
    have hev : (fun y : ℝ => if tol < |y| then y ^ p else z) =ᶠ[nhds x] fun y => y ^ p := by
      filter_upwards [ho.mem_nhds (show x ∈ {y : ℝ | tol < |y|} from hgt)] with y hy
      rw [if_pos hy]
    have hx0 : x ≠ 0 := by
      intro h0; rw [h0, abs_zero] at hgt; linarith
    rw [if_pos hgt]
    exact (Real.hasDerivAt_rpow_const (Or.inl hx0)).congr_of_eventuallyEq hev

theorem heavisideSmooth_sound1 (eps x : ℝ) (he : eps ≠ 0) : Sound1 (heavisideSmoothRule eps) x := by
  unfold Sound1
  simp only [heavisideSmoothRule]
  have hin : HasDerivAt (fun y : ℝ => y * eps⁻¹) (1 * eps⁻¹) x := (hasDerivAt_id x).mul_const eps⁻¹
  have hat := (Real.hasDerivAt_arctan' (x * eps⁻¹)).comp x hin
  have h := ((hat.const_mul (2 * Real.pi⁻¹)).const_add 1).const_mul (0.5 : ℝ)
  refine h.congr_deriv ?_
  have hp : Real.pi ≠ 0 := Real.pi_ne_zero
  have hpos : eps ^ 2 + x ^ 2 ≠ 0 := by positivity
  have hpos2 : 1 + (x * eps⁻¹) ^ 2 ≠ 0 := by positivity
  field_simp
  ring

/-! ### `l2_norm` -/

/-- `functions.l2_norm(dim, ·)`: cell `c` has the components `g c d`, `d < dim` -/
noncomputable def normRule {m k dim : ℕ} (g : Fin k → Fin dim → Fin m) : URule m k where
  f v := fun c => Real.sqrt (∑ d, v (g c d) ^ 2)
  df v := Matrix.of fun c j => ∑ d, if g c d = j then v (g c d) / Real.sqrt (∑ d', v (g c d') ^ 2) else 0

theorem normRule_soundAt {m k dim : ℕ} (g : Fin k → Fin dim → Fin m) (v : Vec m)
    (hne : ∀ c, ∑ d, v (g c d) ^ 2 ≠ 0) : (normRule g).SoundAt v := by
  unfold URule.SoundAt
  apply hasFDerivAt_pi''
  intro c
  have hsq : ∀ d ∈ (Finset.univ : Finset (Fin dim)),
      HasFDerivAt (fun w : Vec m => w (g c d) ^ 2)
        ((2 • v (g c d) ^ (2 - 1)) • ContinuousLinearMap.proj (R := ℝ) (φ := fun _ : Fin m => ℝ) (g c d)) v :=
    fun d _ => (hasFDerivAt_apply (𝕜 := ℝ) (g c d) v).pow 2
  have hsum := HasFDerivAt.fun_sum hsq
  have hsqrt := hsum.sqrt (hne c)
  refine hsqrt.congr_fderiv ?_
  ext w
  simp only [normRule, _root_.smul_apply, _root_.sum_apply, ContinuousLinearMap.comp_apply,
    ContinuousLinearMap.proj_apply, mcl_apply, Matrix.mulVec, dotProduct, smul_eq_mul, Matrix.of_apply]
  simp only [Finset.sum_mul, ite_mul, zero_mul]
  rw [Finset.sum_comm]
  simp only [Finset.sum_ite_eq, Finset.mem_univ, if_true]
  rw [Finset.mul_sum]
  apply Finset.sum_congr rfl
  intro d _
  have hs : Real.sqrt (∑ d', v (g c d') ^ 2) ≠ 0 := by
    intro h0
    rw [Real.sqrt_eq_zero'] at h0
    exact hne c (le_antisymm h0 (Finset.sum_nonneg fun d' _ => sq_nonneg _))
  field_simp
  ring


/-- index of component `d` of cell `c` in the layout `[u0, v0, w0, u1, v1, w1, …]` that `l2_norm(dim, ·)`
    assumes (`np.reshape(var.val, (dim, -1), order="F")`) -/
def cellIdx (size dim : ℕ) (c : Fin size) (d : Fin dim) : Fin (size * dim) :=
  ⟨c.val * dim + d.val, by
    calc c.val * dim + d.val < c.val * dim + dim := by omega
      _ = (c.val + 1) * dim := by ring
      _ ≤ size * dim := Nat.mul_le_mul_right dim c.isLt⟩

/-- for `dim = 1` the norm rule's value is the absolute value (the code then calls `functions.abs`) -/
theorem normRule_dim_one_val (size : ℕ) (v : Vec (size * 1)) (c : Fin size) :
    (normRule (cellIdx size 1)).f v c = |v (cellIdx size 1 c 0)| := by
  simp [normRule, Real.sqrt_sq_eq_abs]

/-! ## stacking the equations (`EquationSystem.assemble`) -/

/-- row index of the assembled system: equation `e`, local row `i` (equations in insertion order) -/
abbrev Row {E : ℕ} (k : Fin E → ℕ) := Σ e : Fin E, Fin (k e)

/-- `A` of `A, b = assemble(state=x)`: `sps.vstack` of the equations' forward-mode Jacobians -/
def assembleJac {n E : ℕ} {k : Fin E → ℕ} (eqs : (e : Fin E) → Tree n (k e)) (x : Vec n) :
    Matrix (Row k) (Fin n) ℝ := Matrix.of fun r j => (eqs r.1).jac x r.2 j

/-- `b` of `assemble(state=x)` (also what `evaluate_jacobian=False` returns): the concatenated values,
    scaled with -1 -/
def assembleRhs {n E : ℕ} {k : Fin E → ℕ} (eqs : (e : Fin E) → Tree n (k e)) (x : Vec n) :
    Row k → ℝ := fun r => -((eqs r.1).val x r.2)

/-- the model residual: the concatenated equation values (`-b`) -/
def residual {n E : ℕ} {k : Fin E → ℕ} (eqs : (e : Fin E) → Tree n (k e)) (x : Vec n) :
    Row k → ℝ := fun r => -(assembleRhs eqs x r)

/-- a matrix with an arbitrary finite row index as a continuous linear map -/
noncomputable def mclRows {ι : Type} [Fintype ι] {n : ℕ} (A : Matrix ι (Fin n) ℝ) : Vec n →L[ℝ] (ι → ℝ) :=
  LinearMap.toContinuousLinearMap (Matrix.toLin' A)

@[simp] theorem mclRows_apply {ι : Type} [Fintype ι] {n : ℕ} (A : Matrix ι (Fin n) ℝ) (v : Vec n) :
    mclRows A v = A.mulVec v := by
  simp [mclRows]

theorem residual_hasFDerivAt {n E : ℕ} {k : Fin E → ℕ} (eqs : (e : Fin E) → Tree n (k e)) (x : Vec n)
    (h : ∀ e, (eqs e).Smooth x) :
    HasFDerivAt (residual eqs) (mclRows (assembleJac eqs x)) x := by
  apply hasFDerivAt_pi''
  intro r
  have he := tree_hasFDerivAt (eqs r.1) x (h r.1)
  have hi := (hasFDerivAt_pi'.mp he) r.2
  have hf : (fun y => residual eqs y r) = fun y => (eqs r.1).val y r.2 := by
    funext y; simp [residual, assembleRhs]
  rw [hf]
  refine hi.congr_fderiv ?_
  ext v
  simp [assembleJac, Matrix.mulVec, dotProduct]

/-! ## vocabulary trees: the smooth region as explicit inequalities -/

theorem log_sound1 (x : ℝ) (h : x ≠ 0) : Sound1 logRule x := by
  have := Real.hasDerivAt_log h
  simpa [Sound1, logRule, one_div] using this

theorem tan_sound1 (x : ℝ) (h : Real.cos x ≠ 0) : Sound1 tanRule x := by
  have := Real.hasDerivAt_tan h
  simpa [Sound1, tanRule, one_div] using this

theorem arctan_sound1 (x : ℝ) : Sound1 arctanRule x := by
  have := Real.hasDerivAt_arctan' x
  simpa [Sound1, arctanRule, add_comm] using this

/-- the unary node kinds of the vocabulary (library functions with the arguments bound by `functools.partial`,
    and powers with a constant exponent) -/
inductive Fn1 where
  | exp | log | sin | cos | tan | sinh | cosh | tanh | arctan | arcsin | arccos | arcsinh | arccosh | arctanh | abs
  | powConst (c : ℝ) | powInt (c : ℤ)
  | charFn (tol : ℝ) | heaviside (z : ℝ) | heavisideSmooth (eps : ℝ) | safePower (p z tol : ℝ)

noncomputable def Fn1.rule : Fn1 → Rule1 ℝ
  | .exp => expRule | .log => logRule | .sin => sinRule | .cos => cosRule | .tan => tanRule
  | .sinh => sinhRule | .cosh => coshRule | .tanh => tanhRule | .arctan => arctanRule
  | .arcsin => arcsinRule | .arccos => arccosRule | .arcsinh => arcsinhRule | .arccosh => arccoshRule
  | .arctanh => arctanhRule | .abs => absRule
  | .powConst c => powConstRule c | .powInt c => powIntRule c (c : ℝ)
  | .charFn tol => charRule tol | .heaviside z => heavisideRule z
  | .heavisideSmooth eps => heavisideSmoothRule eps | .safePower p z tol => safePowerRule p z tol

/-- the side condition of a unary kind at the value of its argument: an explicit (in)equality -/
def Fn1.ok : Fn1 → ℝ → Prop
  | .exp, _ | .sin, _ | .cos, _ | .sinh, _ | .cosh, _ | .tanh, _ | .arctan, _ | .arcsinh, _ => True
  | .log, x => x ≠ 0
  | .tan, x => Real.cos x ≠ 0
  | .arcsin, x | .arccos, x | .arctanh, x => |x| < 1
  | .arccosh, x => 1 < x
  | .abs, x => x ≠ 0
  | .powConst c, x => x ≠ 0 ∨ 1 ≤ c
  | .powInt c, x => x ≠ 0 ∨ 0 ≤ c
  | .charFn tol, x => |x| ≠ tol
  | .heaviside _, x => x ≠ 0
  | .heavisideSmooth eps, _ => eps ≠ 0
  | .safePower _ _ tol, x => 0 ≤ tol ∧ |x| ≠ tol

theorem Fn1.sound (f : Fn1) (x : ℝ) (h : f.ok x) : Sound1 f.rule x := by
  cases f with
  | exp => exact Real.hasDerivAt_exp x
  | log => exact log_sound1 x h
  | sin => exact Real.hasDerivAt_sin x
  | cos => exact Real.hasDerivAt_cos x
  | tan => exact tan_sound1 x h
  | sinh => exact Real.hasDerivAt_sinh x
  | cosh => exact Real.hasDerivAt_cosh x
  | tanh => exact tanh_hasDerivAt x
  | arctan => exact arctan_sound1 x
  | arcsin => exact arcsin_sound1 x h
  | arccos => exact arccos_sound1 x h
  | arcsinh => exact arcsinh_sound1 x
  | arccosh => exact arccosh_sound1 x h
  | arctanh => exact arctanh_sound1 x h
  | abs => exact hasDerivAt_abs h
  | powConst c => exact Real.hasDerivAt_rpow_const h
  | powInt c => exact powInt_sound1 c x h
  | charFn tol => exact char_hasDerivAt tol x h
  | heaviside z => exact heaviside_hasDerivAt z x h
  | heavisideSmooth eps => exact heavisideSmooth_sound1 eps x h
  | safePower p z tol => exact safePower_sound1 p z tol x h.1 h.2

/-- the binary elementwise node kinds -/
inductive Op2 where
  | add | sub | mul | div | max | pow

noncomputable def Op2.rule : Op2 → Rule2 ℝ
  | .add => addRule | .sub => subRule | .mul => mulRule | .div => divRule | .max => maxRule | .pow => powRule

def Op2.ok : Op2 → ℝ → ℝ → Prop
  | .add, _, _ | .sub, _, _ | .mul, _, _ => True
  | .div, _, b => b ≠ 0
  | .max, a, b => a ≠ b
  | .pow, a, _ => 0 < a

theorem Op2.sound (o : Op2) (a b : ℝ) (h : o.ok a b) : Sound2 o.rule a b := by
  cases o with
  | add => exact add_sound2 a b
  | sub => exact sub_sound2 a b
  | mul => exact mul_sound2 a b
  | div => exact div_sound2 a b h
  | max => exact max_sound2 a b h
  | pow => exact pow_sound2 a b h

/-- expression trees built from the vocabulary only (what the tree auditor finds in the shipped models) -/
inductive VTree (n : ℕ) : ℕ → Type
  | var {m : ℕ} (dofs : Fin m → Fin n) : VTree n m
  | const {m : ℕ} (c : Vec m) : VTree n m
  | fn {m : ℕ} (f : Fn1) (t : VTree n m) : VTree n m
  | op {m : ℕ} (o : Op2) (t₁ t₂ : VTree n m) : VTree n m
  | matmul {m k : ℕ} (M : Mat k m) (t : VTree n m) : VTree n k
  | norm {m k dim : ℕ} (g : Fin k → Fin dim → Fin m) (t : VTree n m) : VTree n k

noncomputable def VTree.toTree {n : ℕ} : {k : ℕ} → VTree n k → Tree n k
  | _, .var dofs => .var dofs
  | _, .const c => .const c
  | _, .fn f t => .un (ewise1 f.rule) t.toTree
  | _, .op o t₁ t₂ => .bin (ewise2 o.rule) t₁.toTree t₂.toTree
  | _, .matmul M t => .un (linRule M) t.toTree
  | _, .norm g t => .un (normRule g) t.toTree

/-- admissible state: at every node the explicit side condition of its kind holds for the values of its
    children (no vanishing denominator, no tie of a maximum, positive base of a general power, argument of `log`,
    `abs`, `heaviside` nonzero, `|argument| ≠ tol`, no vanishing cell vector of a norm, …) -/
def VTree.Admissible {n : ℕ} : {k : ℕ} → VTree n k → Vec n → Prop
  | _, .var _, _ => True
  | _, .const _, _ => True
  | _, .fn f t, x => t.Admissible x ∧ ∀ i, f.ok (t.toTree.val x i)
  | _, .op o t₁ t₂, x => t₁.Admissible x ∧ t₂.Admissible x ∧ ∀ i, o.ok (t₁.toTree.val x i) (t₂.toTree.val x i)
  | _, .matmul _ t, x => t.Admissible x
  | _, .norm g t, x => t.Admissible x ∧ ∀ c, ∑ d, t.toTree.val x (g c d) ^ 2 ≠ 0

theorem VTree.smooth {n : ℕ} : ∀ {k : ℕ} (t : VTree n k) (x : Vec n), t.Admissible x → t.toTree.Smooth x
  | _, .var _, _, _ => trivial
  | _, .const _, _, _ => trivial
  | _, .fn f t, x, h => ⟨VTree.smooth t x h.1, ewise1_soundAt _ _ fun i => f.sound _ (h.2 i)⟩
  | _, .op o t₁ t₂, x, h =>
      ⟨VTree.smooth t₁ x h.1, VTree.smooth t₂ x h.2.1, ewise2_soundAt _ _ _ fun i => o.sound _ _ (h.2.2 i)⟩
  | _, .matmul M t, x, h => ⟨VTree.smooth t x h, linRule_soundAt M _⟩
  | _, .norm g t, x, h => ⟨VTree.smooth t x h.1, normRule_soundAt g _ h.2⟩

/-! ## sub-systems: `assemble(equations=…, variables=…)` -/

/-- a direction that only moves the selected columns (dofs of the requested variables) -/
def scatter {n p : ℕ} (cols : Fin p → Fin n) (η : Vec p) : Vec n := fun j => ∑ c, if cols c = j then η c else 0

theorem mulVec_scatter {ι : Type} {n p : ℕ} (A : Matrix ι (Fin n) ℝ) (cols : Fin p → Fin n) (η : Vec p) (r : ι) :
    A.mulVec (scatter cols η) r = ∑ c, A r (cols c) * η c := by
  simp only [Matrix.mulVec, dotProduct, scatter, Finset.mul_sum, mul_ite, mul_zero]
  rw [Finset.sum_comm]
  apply Finset.sum_congr rfl
  intro c _
  simp

end PorepyVerif.C03
