/- C03 line-protocol driver: `lake env lean --run PorepyVerif/C03/Driver.lean`

ops (all stateless):
  {"op":"census","kinds":[...]}                      → {"uncovered":[...], "covered":[[kind, theorem],...]}
  {"op":"node","kind":"add|sub|mul|div|maximum","a":q,"ja":[q..],"b":q,"jb":[q..]}
                                                     → {"v":q,"j":[q..]}   (`nodeRow` of the rule over ℚ)
  {"op":"pow","c":int,"a":q,"ja":[q..]}              → {"v":q,"j":[q..]}   (`powIntRule`)
  {"op":"lin","width":n,"coef":[q..],"vals":[q..],"jacs":[[q..]..]} → {"v":q,"j":[q..]}  (`linRow`)
  {"op":"var","width":n,"dof":k,"x":q}               → {"v":q,"j":[unit row k]}   (variable leaf: identity block)
  {"op":"fn","name":"exp|log|tan|…","params":[q..],"a":q,"ja":[q..]} → {"v":q,"j":[q..]}  (`fnRuleF`, binary64)
  {"op":"pow2","a":q,"ja":[q..],"b":q,"jb":[q..]}    → {"v":q,"j":[q..]}   (`powRuleF`: a ** b, binary64)
  {"op":"slice","trip":[[i,j,q]..],"rows":[..],"cols":[..]} → {"trip":[[a,b,q]..]}       (`sliceTrip`: sub-system)
  {"op":"norm","width":n,"vals":[q..],"jacs":[[q..]..]} → {"v":q,"j":[q..]}               (`normRowF`, binary64)
  division by zero / 0 to a negative power answers {"err":"singular"}, a non-finite binary64 result {"err":"nonfinite"}.
-/
import PorepyVerif.Common.Wire
import PorepyVerif.C03.Model
open Lean PV PorepyVerif.C03

def outRow (r : Rat × List Rat) : Json := obj [("v", ofRat r.1), ("j", ofRats r.2)]

def outRowF (r : Float × List Float) : Json :=
  match floatToRat r.1, r.2.mapM floatToRat with
  | some v, some j => obj [("v", ofRat v), ("j", ofRats j)]
  | _, _ => err "nonfinite"

def step (_ : Unit) (j : Json) : R (Unit × Json) := do
  let op ← fStr j "op"
  match op with
  | "census" =>
    let kinds ← field j "kinds" >>= jList jStr
    let cov := kinds.filterMap (fun k => (coveredBy k).map (fun t => Json.arr #[Json.str k, Json.str t]))
    pure ((), obj [("uncovered", ofList Json.str (uncovered kinds)), ("covered", Json.arr cov.toArray)])
  | "node" =>
    let kind ← fStr j "kind"
    let a ← fRat j "a"
    let b ← fRat j "b"
    let ja ← fRats j "ja"
    let jb ← fRats j "jb"
    if ja.length != jb.length then throw "row length mismatch" else
    match kind with
    | "add" => pure ((), outRow (nodeRow addRule a ja b jb))
    | "sub" => pure ((), outRow (nodeRow subRule a ja b jb))
    | "mul" => pure ((), outRow (nodeRow mulRule a ja b jb))
    | "div" => if b == 0 then pure ((), err "singular") else pure ((), outRow (nodeRow divRule a ja b jb))
    | "maximum" => pure ((), outRow (nodeRow maxRule a ja b jb))
    | _ => throw s!"unknown node kind {kind}"
  | "pow" =>
    let c ← fInt j "c"
    let a ← fRat j "a"
    let ja ← fRats j "ja"
    if a == 0 && c < 1 then pure ((), err "singular")
    else pure ((), outRow (nodeRow1 (powIntRule c (c : Rat)) a ja))
  | "lin" =>
    let w ← fNat j "width"
    let coef ← fRats j "coef"
    let vals ← fRats j "vals"
    let jacs ← fRatss j "jacs"
    if coef.length != vals.length || coef.length != jacs.length then throw "length mismatch" else
    if jacs.any (fun r => r.length != w) then throw "row width mismatch" else
    pure ((), outRow (linRow w coef vals jacs))
  | "var" =>
    let w ← fNat j "width"
    let k ← fNat j "dof"
    let x ← fRat j "x"
    if k ≥ w then throw "dof out of range" else
    pure ((), outRow (x, (List.range w).map (fun c => if c == k then (1 : Rat) else 0)))
  | "fn" =>
    let name ← fStr j "name"
    let ps ← fRats j "params"
    let a ← fRat j "a"
    let ja ← fRats j "ja"
    match fnRuleF name (ps.map ratToFloat) with
    | none => throw s!"unknown function {name} with {ps.length} parameters"
    | some r => pure ((), outRowF (nodeRow1 r (ratToFloat a) (ja.map ratToFloat)))
  | "pow2" =>
    let a ← fRat j "a"
    let b ← fRat j "b"
    let ja ← fRats j "ja"
    let jb ← fRats j "jb"
    if ja.length != jb.length then throw "row length mismatch" else
    pure ((), outRowF (nodeRow powRuleF (ratToFloat a) (ja.map ratToFloat) (ratToFloat b) (jb.map ratToFloat)))
  | "slice" =>
    let rows ← fNats j "rows"
    let cols ← fNats j "cols"
    let tj ← field j "trip" >>= jList (fun t => do
      match t with
      | .arr #[a, b, v] => pure ((← jNat a), (← jNat b), (← jRat v))
      | _ => throw "bad triplet")
    let out := sliceTrip tj rows cols
    pure ((), obj [("trip", ofList (fun t => Json.arr #[ofNat t.1, ofNat t.2.1, ofRat t.2.2]) out)])
  | "norm" =>
    let w ← fNat j "width"
    let vals ← fRats j "vals"
    let jacs ← fRatss j "jacs"
    if vals.length != jacs.length then throw "length mismatch" else
    if jacs.any (fun r => r.length != w) then throw "row width mismatch" else
    pure ((), outRowF (normRowF w (vals.map ratToFloat) (jacs.map (·.map ratToFloat))))
  | _ => throw s!"unknown op {op}"

def main : IO Unit := runDriver () step
