/- C03 line-protocol driver: `lake env lean --run PorepyVerif/C03/Driver.lean`

ops (all stateless):
  {"op":"census","kinds":[...]}                      → {"uncovered":[...], "covered":[[kind, theorem],...]}
  {"op":"node","kind":"add|sub|mul|div|maximum","a":q,"ja":[q..],"b":q,"jb":[q..]}
                                                     → {"v":q,"j":[q..]}   (`nodeRow` of the rule over ℚ)
  {"op":"pow","c":int,"a":q,"ja":[q..]}              → {"v":q,"j":[q..]}   (`powIntRule`)
  {"op":"lin","width":n,"coef":[q..],"vals":[q..],"jacs":[[q..]..]} → {"v":q,"j":[q..]}  (`linRow`)
  division by zero / 0 to a negative power answers {"err":"singular"}.
-/
import PorepyVerif.Common.Wire
import PorepyVerif.C03.Model
open Lean PV PorepyVerif.C03

def outRow (r : Rat × List Rat) : Json := obj [("v", ofRat r.1), ("j", ofRats r.2)]

def step (_ : Unit) (j : Json) : R (Unit × Json) := do
  let op ← fStr j "op"
  match op with
  | "census" =>
    let kinds ← field j "kinds" >>= jList jStr
    let cov := kinds.filterMap (fun k => (coveredBy k).map (fun t => Json.arr #[Json.str k, Json.str t]))
    pure ((), obj [("uncovered", ofList Json.str (uncovered kinds)), ("covered", Json.arr cov.toArray)])
  | "node" =>
    let kind ← fStr j "kind"
    let a ← fRat j "a"
    let b ← fRat j "b"
    let ja ← fRats j "ja"
    let jb ← fRats j "jb"
    if ja.length != jb.length then throw "row length mismatch" else
    match kind with
    | "add" => pure ((), outRow (nodeRow addRule a ja b jb))
    | "sub" => pure ((), outRow (nodeRow subRule a ja b jb))
    | "mul" => pure ((), outRow (nodeRow mulRule a ja b jb))
    | "div" => if b == 0 then pure ((), err "singular") else pure ((), outRow (nodeRow divRule a ja b jb))
    | "maximum" => pure ((), outRow (nodeRow maxRule a ja b jb))
    | _ => throw s!"unknown node kind {kind}"
  | "pow" =>
    let c ← fInt j "c"
    let a ← fRat j "a"
    let ja ← fRats j "ja"
    if a == 0 && c < 1 then pure ((), err "singular")
    else pure ((), outRow (nodeRow1 (powIntRule c (c : Rat)) a ja))
  | "lin" =>
    let w ← fNat j "width"
    let coef ← fRats j "coef"
    let vals ← fRats j "vals"
    let jacs ← fRatss j "jacs"
    if coef.length != vals.length || coef.length != jacs.length then throw "length mismatch" else
    if jacs.any (fun r => r.length != w) then throw "row width mismatch" else
    pure ((), outRow (linRow w coef vals jacs))
  | _ => throw s!"unknown op {op}"

def main : IO Unit := runDriver () step
