/-
C03 — property theorems (CORE level; definitions and helper lemmas in Lemmas.lean, rule formulas in Model.lean).

Property: for every shipped model, the Jacobian returned by assembling the linear system equals the
directional derivative of the assembled residual at any admissible state, with discretization matrices
held fixed.

What is proved here, for ALL trees, states and directions:

* `tree_jac_is_fderiv`, `tree_jac_directional` — forward-mode evaluation of an expression tree
  (identity-block Jacobian at variable leaves, zero Jacobian at constant leaves, `Σ ∂f/∂childᵢ·Jac(childᵢ)`
  at nodes) returns the Fréchet derivative of the tree's value map at every state where each node's
  factors are the true partial derivatives at its children's values (`Tree.Smooth`); hence
  `d/dε val(x + ε δ)|₀ = Jac(x)·δ` for every direction and row.
* `assemble_jac_is_fderiv`, `assemble_jac_is_derivative` — the same for the stacked system
  `A, b = assemble(state=x)` (`A` = vstack of the equations' Jacobians, `b = -residual`):
  `d/dε (-b(x + ε δ))_r |₀ = (A(x) δ)_r`.
* `*_sound` — the smoothness hypothesis is discharged for every node kind that occurs in the operator
  trees of the shipped models and for every function of `porepy/numerics/ad/functions.py` (the vocabulary of `Model.lean`, checked against the real trees by the tree
  auditor on every run): the rule formulas the real forward mode applies are sound on the stated domain.

Not proved (CORE): that the Python code building the trees yields these rules at every node (checked by the
tree auditor + sampled node re-evaluation), binary64 rounding, and the scipy sparse algebra.
-/
import PorepyVerif.C03.Lemmas

namespace PorepyVerif.C03
open Matrix

/-! ## headline theorems -/

/-- Forward mode = Fréchet derivative: for every tree and every state in its smooth region. -/
theorem tree_jac_is_fderiv {n k : ℕ} (t : Tree n k) (x : Vec n) (h : t.Smooth x) :
    HasFDerivAt t.val (mcl (t.jac x)) x :=
  tree_hasFDerivAt t x h

/-- Directional form: `d/dε val(x + ε δ) i |_{ε=0} = (Jac(x) · δ) i`. -/
theorem tree_jac_directional {n k : ℕ} (t : Tree n k) (x : Vec n) (h : t.Smooth x) (δ : Vec n) (i : Fin k) :
    HasDerivAt (fun ε : ℝ => t.val (x + ε • δ) i) ((t.jac x).mulVec δ i) 0 :=
  directional_of_fderiv (tree_hasFDerivAt t x h) δ i

/-- The assembled Jacobian is the Fréchet derivative of the assembled residual. -/
theorem assemble_jac_is_fderiv {n E : ℕ} {k : Fin E → ℕ} (eqs : (e : Fin E) → Tree n (k e)) (x : Vec n)
    (h : ∀ e, (eqs e).Smooth x) :
    HasFDerivAt (fun y => fun r => -(assembleRhs eqs y r)) (mclRows (assembleJac eqs x)) x :=
  residual_hasFDerivAt eqs x h

/-- HEADLINE.  `A, b = assemble(state=x)`: for every direction `δ` and every row `r` of the stacked system,
    the derivative at `ε = 0` of the residual `-b(x + ε δ)` is `(A δ)_r`. -/
theorem assemble_jac_is_derivative {n E : ℕ} {k : Fin E → ℕ} (eqs : (e : Fin E) → Tree n (k e)) (x : Vec n)
    (h : ∀ e, (eqs e).Smooth x) (δ : Vec n) (r : Row k) :
    HasDerivAt (fun ε : ℝ => -(assembleRhs eqs (x + ε • δ) r)) ((assembleJac eqs x).mulVec δ r) 0 := by
  have hd := tree_jac_directional (eqs r.1) x (h r.1) δ r.2
  have hf : (fun ε : ℝ => -(assembleRhs eqs (x + ε • δ) r)) = fun ε : ℝ => (eqs r.1).val (x + ε • δ) r.2 := by
    funext ε; simp [assembleRhs]
  rw [hf]
  refine hd.congr_deriv ?_
  simp [assembleJac, Matrix.mulVec, dotProduct]

/-! ## leaves -/

/-- Variable leaf (`ad_base[dofs]`): value = the slice, Jacobian = the rows `dofs` of the identity
    (entry `(i, j)` is 1 iff `j = dofs i`), which is the derivative of the slice. -/
theorem var_leaf_sound {n m : ℕ} (dofs : Fin m → Fin n) (x : Vec n) :
    (Tree.var dofs).val x = (fun i => x (dofs i))
    ∧ (∀ i j, (Tree.var dofs).jac x i j = if dofs i = j then 1 else 0)
    ∧ HasFDerivAt (Tree.var dofs).val (mcl ((Tree.var dofs).jac x)) x :=
  ⟨rfl, fun _ _ => rfl, var_hasFDerivAt dofs x⟩

/-- Constant leaf (numbers, arrays, matrices applied elsewhere, previous time step / iterate values, and every
    sub-tree without variables): zero Jacobian, which is the derivative of a constant. -/
theorem const_leaf_sound {n m : ℕ} (c : Vec m) (x : Vec n) :
    (Tree.const (n := n) c).val x = c ∧ (Tree.const (n := n) c).jac x = 0
    ∧ HasFDerivAt (Tree.const (n := n) c).val (mcl ((Tree.const (n := n) c).jac x)) x :=
  ⟨rfl, rfl, tree_hasFDerivAt (Tree.const c) x trivial⟩

/-! ## arithmetic nodes (forward_mode.py); an operand that is a float / ndarray is a `const` child -/

theorem add_sound {m : ℕ} (a b : Vec m) : (ewise2 addRule).SoundAt a b :=
  ewise2_soundAt _ a b fun i => add_sound2 (a i) (b i)

theorem sub_sound {m : ℕ} (a b : Vec m) : (ewise2 subRule).SoundAt a b :=
  ewise2_soundAt _ a b fun i => sub_sound2 (a i) (b i)

theorem mul_sound {m : ℕ} (a b : Vec m) : (ewise2 mulRule).SoundAt a b :=
  ewise2_soundAt _ a b fun i => mul_sound2 (a i) (b i)

/-- division (`self * other ** -1`): sound where no denominator vanishes -/
theorem div_sound {m : ℕ} (a b : Vec m) (hb : ∀ i, b i ≠ 0) : (ewise2 divRule).SoundAt a b :=
  ewise2_soundAt _ a b fun i => div_sound2 (a i) (b i) (hb i)

/-- `AdArray ** c` with a real exponent: sound where every base is nonzero (or `c ≥ 1`) -/
theorem pow_const_sound {m : ℕ} (c : ℝ) (a : Vec m) (ha : ∀ i, a i ≠ 0 ∨ 1 ≤ c) :
    (ewise1 (powConstRule c)).SoundAt a :=
  ewise1_soundAt _ a fun i => Real.hasDerivAt_rpow_const (ha i)

/-- `AdArray ** c` with an integral exponent, the formula the driver recomputes over ℚ -/
theorem pow_int_sound {m : ℕ} (c : ℤ) (a : Vec m) (ha : ∀ i, a i ≠ 0 ∨ 0 ≤ c) :
    (ewise1 (powIntRule c (c : ℝ))).SoundAt a :=
  ewise1_soundAt _ a fun i => powInt_sound1 c (a i) (ha i)

/-- `AdArray ** AdArray`, `float ** AdArray`, `ndarray ** AdArray`: sound where every base is positive -/
theorem pow_sound {m : ℕ} (a b : Vec m) (ha : ∀ i, 0 < a i) : (ewise2 powRule).SoundAt a b :=
  ewise2_soundAt _ a b fun i => pow_sound2 (a i) (b i) (ha i)

/-- `sparse @ AdArray`, `ArraySlicer @ AdArray`, `ProjectionList @ AdArray`: `jac = M·Ja`, everywhere -/
theorem matmul_sound {m k : ℕ} (M : Mat k m) (a : Vec m) : (linRule M).SoundAt a :=
  linRule_soundAt M a

/-! ## function nodes (functions.py) -/

/-- `maximum`: rows are picked from the larger operand; sound away from ties -/
theorem maximum_sound {m : ℕ} (a b : Vec m) (h : ∀ i, a i ≠ b i) : (ewise2 maxRule).SoundAt a b :=
  ewise2_soundAt _ a b fun i => max_sound2 (a i) (b i) (h i)

theorem exp_sound {m : ℕ} (a : Vec m) : (ewise1 expRule).SoundAt a :=
  ewise1_soundAt _ a fun i => Real.hasDerivAt_exp (a i)

theorem log_sound {m : ℕ} (a : Vec m) (h : ∀ i, a i ≠ 0) : (ewise1 logRule).SoundAt a :=
  ewise1_soundAt _ a fun i => by
    have := Real.hasDerivAt_log (h i)
    simpa [Sound1, logRule, one_div] using this

theorem sin_sound {m : ℕ} (a : Vec m) : (ewise1 sinRule).SoundAt a :=
  ewise1_soundAt _ a fun i => Real.hasDerivAt_sin (a i)

theorem cos_sound {m : ℕ} (a : Vec m) : (ewise1 cosRule).SoundAt a :=
  ewise1_soundAt _ a fun i => Real.hasDerivAt_cos (a i)

theorem tan_sound {m : ℕ} (a : Vec m) (h : ∀ i, Real.cos (a i) ≠ 0) : (ewise1 tanRule).SoundAt a :=
  ewise1_soundAt _ a fun i => by
    have := Real.hasDerivAt_tan (h i)
    simpa [Sound1, tanRule, one_div] using this

theorem sinh_sound {m : ℕ} (a : Vec m) : (ewise1 sinhRule).SoundAt a :=
  ewise1_soundAt _ a fun i => Real.hasDerivAt_sinh (a i)

theorem cosh_sound {m : ℕ} (a : Vec m) : (ewise1 coshRule).SoundAt a :=
  ewise1_soundAt _ a fun i => Real.hasDerivAt_cosh (a i)

theorem tanh_sound {m : ℕ} (a : Vec m) : (ewise1 tanhRule).SoundAt a :=
  ewise1_soundAt _ a fun i => tanh_hasDerivAt (a i)

theorem arctan_sound {m : ℕ} (a : Vec m) : (ewise1 arctanRule).SoundAt a :=
  ewise1_soundAt _ a fun i => by
    have := Real.hasDerivAt_arctan' (a i)
    simpa [Sound1, arctanRule, add_comm] using this

/-- `abs` with factor `sign(val)`: sound away from 0 -/
theorem abs_sound {m : ℕ} (a : Vec m) (h : ∀ i, a i ≠ 0) : (ewise1 absRule).SoundAt a :=
  ewise1_soundAt _ a fun i => hasDerivAt_abs (h i)

/-- `l2_norm(dim, ·)`: `jac = (v / ‖v‖)·Ja` cell-wise; sound where no cell vector vanishes -/
theorem l2_norm_sound {m k dim : ℕ} (g : Fin k → Fin dim → Fin m) (v : Vec m)
    (h : ∀ c, ∑ d, v (g c d) ^ 2 ≠ 0) : (normRule g).SoundAt v :=
  normRule_soundAt g v h

/-- `characteristic_function(tol, ·)` with its zero Jacobian: sound away from `|val| = tol` -/
theorem characteristic_sound {m : ℕ} (tol : ℝ) (a : Vec m) (h : ∀ i, |a i| ≠ tol) :
    (ewise1 (charRule tol)).SoundAt a :=
  ewise1_soundAt _ a fun i => char_hasDerivAt tol (a i) (h i)

/-- `heaviside(zerovalue, ·)` with its zero Jacobian: sound away from 0 -/
theorem heaviside_sound {m : ℕ} (z : ℝ) (a : Vec m) (h : ∀ i, a i ≠ 0) :
    (ewise1 (heavisideRule z)).SoundAt a :=
  ewise1_soundAt _ a fun i => heaviside_hasDerivAt z (a i) (h i)

/-- `l2_norm(dim, ·)` in the code's memory layout: cell `c` owns the rows `c·dim, …, c·dim + dim - 1` -/
theorem l2_norm_rows_sound (size dim : ℕ) (v : Vec (size * dim))
    (h : ∀ c, ∑ d, v (cellIdx size dim c d) ^ 2 ≠ 0) : (normRule (cellIdx size dim)).SoundAt v :=
  normRule_soundAt _ v h

/-- for `dim = 1` the value is `|v|`, which is why the code may (and does) call `functions.abs` -/
theorem l2_norm_dim_one_is_abs (size : ℕ) (v : Vec (size * 1)) (c : Fin size) :
    (normRule (cellIdx size 1)).f v c = |v (cellIdx size 1 c 0)| :=
  normRule_dim_one_val size v c

/-- `arcsin` with factor `(1 - val²) ** -0.5`: sound on `|val| < 1` -/
theorem arcsin_sound {m : ℕ} (a : Vec m) (h : ∀ i, |a i| < 1) : (ewise1 arcsinRule).SoundAt a :=
  ewise1_soundAt _ a fun i => arcsin_sound1 (a i) (h i)

theorem arccos_sound {m : ℕ} (a : Vec m) (h : ∀ i, |a i| < 1) : (ewise1 arccosRule).SoundAt a :=
  ewise1_soundAt _ a fun i => arccos_sound1 (a i) (h i)

/-- `arcsinh` with factor `(val² + 1) ** -0.5`: sound everywhere -/
theorem arcsinh_sound {m : ℕ} (a : Vec m) : (ewise1 arcsinhRule).SoundAt a :=
  ewise1_soundAt _ a fun i => arcsinh_sound1 (a i)

/-- `arccosh` with factor `(val - 1) ** -0.5 · (val + 1) ** -0.5`: sound on `val > 1` -/
theorem arccosh_sound {m : ℕ} (a : Vec m) (h : ∀ i, 1 < a i) : (ewise1 arccoshRule).SoundAt a :=
  ewise1_soundAt _ a fun i => arccosh_sound1 (a i) (h i)

/-- `arctanh` with factor `(1 - val²) ** -1`: sound on `|val| < 1` -/
theorem arctanh_sound {m : ℕ} (a : Vec m) (h : ∀ i, |a i| < 1) : (ewise1 arctanhRule).SoundAt a :=
  ewise1_soundAt _ a fun i => arctanh_sound1 (a i) (h i)

/-- `safe_power(power, zero_val, tol, ·)` (as repaired: factor `power · val ** (power-1)` where the power is
    taken, 0 where `zero_val` is assigned): sound away from `|val| = tol` -/
theorem safe_power_sound {m : ℕ} (p z tol : ℝ) (htol : 0 ≤ tol) (a : Vec m) (h : ∀ i, |a i| ≠ tol) :
    (ewise1 (safePowerRule p z tol)).SoundAt a :=
  ewise1_soundAt _ a fun i => safePower_sound1 p z tol (a i) htol (h i)

/-- `heaviside_smooth(·, eps)`: `½(1 + 2/π·arctan(val/eps))` with factor `eps/π/(eps² + val²)`, sound everywhere -/
theorem heaviside_smooth_sound {m : ℕ} (eps : ℝ) (he : eps ≠ 0) (a : Vec m) :
    (ewise1 (heavisideSmoothRule eps)).SoundAt a :=
  ewise1_soundAt _ a fun i => heavisideSmooth_sound1 eps (a i) he

/-! ## the smoothness hypothesis as explicit input conditions; Newton; sub-systems -/

/-- Every tree built from the vocabulary (the only node kinds the tree auditor finds in the shipped models) is in its
    smooth region at every ADMISSIBLE state, admissibility being a conjunction of explicit (in)equalities on node values:
    nonzero denominators, no tie of a `maximum`, positive base of `a ** b`, nonzero argument of `log`/`abs`/`heaviside`,
    `|argument| ≠ tol`, `|argument| < 1` for arcsin/arccos/arctanh, `> 1` for arccosh, no vanishing cell vector in `l2_norm`. -/
theorem vocab_tree_smooth {n k : ℕ} (t : VTree n k) (x : Vec n) (h : t.Admissible x) : t.toTree.Smooth x :=
  VTree.smooth t x h

/-- HEADLINE without the abstract hypothesis: for every system of vocabulary trees, every admissible state, every
    direction and row, the assembled Jacobian times the direction is the derivative of the assembled residual. -/
theorem vocab_assemble_jac_is_derivative {n E : ℕ} {k : Fin E → ℕ} (eqs : (e : Fin E) → VTree n (k e)) (x : Vec n)
    (h : ∀ e, (eqs e).Admissible x) (δ : Vec n) (r : Row k) :
    HasDerivAt (fun ε : ℝ => residual (fun e => (eqs e).toTree) (x + ε • δ) r)
      ((assembleJac (fun e => (eqs e).toTree) x).mulVec δ r) 0 :=
  assemble_jac_is_derivative (fun e => (eqs e).toTree) x (fun e => VTree.smooth (eqs e) x (h e)) δ r

/-- "Newton's method therefore uses the exact linearization": if `δ` solves the assembled system `A δ = b`
    (`b = -residual`), then along `δ` every residual component decreases at first order exactly at the rate of its own
    size: `d/dε residual(x + ε δ)_r |₀ = -residual(x)_r`. -/
theorem newton_step_exact_linearization {n E : ℕ} {k : Fin E → ℕ} (eqs : (e : Fin E) → Tree n (k e)) (x : Vec n)
    (h : ∀ e, (eqs e).Smooth x) (δ : Vec n) (hδ : (assembleJac eqs x).mulVec δ = assembleRhs eqs x) (r : Row k) :
    HasDerivAt (fun ε : ℝ => residual eqs (x + ε • δ) r) (-(residual eqs x r)) 0 := by
  have := assemble_jac_is_derivative eqs x h δ r
  rw [hδ] at this
  simpa [residual] using this

/-- `assemble(equations=…, variables=…)`: rows `rows` (equations in storage order, possibly restricted to grids) and
    columns `cols` (dofs of the requested variables) of the full system.  The sliced matrix times a reduced direction
    `η` is the derivative of the selected residual rows along the direction that moves only the selected dofs. -/
theorem assemble_subsystem_jac_is_derivative {n E q p : ℕ} {k : Fin E → ℕ} (eqs : (e : Fin E) → Tree n (k e))
    (x : Vec n) (h : ∀ e, (eqs e).Smooth x) (rows : Fin q → Row k) (cols : Fin p → Fin n) (η : Vec p) (i : Fin q) :
    HasDerivAt (fun ε : ℝ => residual eqs (x + ε • scatter cols η) (rows i))
      (((assembleJac eqs x).submatrix rows cols).mulVec η i) 0 := by
  have := assemble_jac_is_derivative eqs x h (scatter cols η) (rows i)
  rw [mulVec_scatter] at this
  simpa [residual, Matrix.mulVec, dotProduct, Matrix.submatrix] using this

/-! ## non-vacuity: a concrete two-equation system over three unknowns -/

section example_system

/-- unknowns `x = (p₀, p₁, λ)`; the "pressure" slice -/
def pDofs : Fin 2 → Fin 3 := ![0, 1]
/-- the "interface flux" slice, repeated on both cells -/
def lDofs : Fin 2 → Fin 3 := ![2, 2]

/-- a density-like accumulation term `exp(p) * p - c` on two cells -/
noncomputable def accTree : Tree 3 2 :=
  .bin (ewise2 subRule)
    (.bin (ewise2 mulRule) (.un (ewise1 expRule) (.var pDofs)) (.var pDofs))
    (.const ![1, 2])

/-- a flux-like term `M @ (p * λ)` with a constant discretisation matrix -/
noncomputable def fluxTree : Tree 3 1 :=
  .un (linRule !![1, -1]) (.bin (ewise2 mulRule) (.var pDofs) (.var lDofs))

theorem accTree_smooth (x : Vec 3) : accTree.Smooth x :=
  ⟨⟨⟨trivial, exp_sound _⟩, trivial, mul_sound _ _⟩, trivial, sub_sound _ _⟩

theorem fluxTree_smooth (x : Vec 3) : fluxTree.Smooth x :=
  ⟨⟨trivial, trivial, mul_sound _ _⟩, matmul_sound _ _⟩

/-- the stacked system of the two equations (3 rows) -/
noncomputable def exEqs : (e : Fin 2) → Tree 3 (![2, 1] e)
  | 0 => accTree
  | 1 => fluxTree

/-- the hypotheses of the headline theorem are satisfiable at every state, with every direction and row -/
example (x δ : Vec 3) (r : Row ![2, 1]) :
    HasDerivAt (fun ε : ℝ => -(assembleRhs exEqs (x + ε • δ) r)) ((assembleJac exEqs x).mulVec δ r) 0 :=
  assemble_jac_is_derivative exEqs x (fun e => by
    match e with
    | 0 => exact accTree_smooth x
    | 1 => exact fluxTree_smooth x) δ r

/-- and a state where the side conditions of the non-smooth kinds hold: `max(p, λ)` away from ties,
    division by a nonzero `λ` -/
noncomputable def kinkTree : Tree 3 2 :=
  .bin (ewise2 divRule) (.bin (ewise2 maxRule) (.var pDofs) (.var lDofs)) (.var lDofs)

example : kinkTree.Smooth ![0, 2, 1] := by
  refine ⟨⟨trivial, trivial, maximum_sound _ _ ?_⟩, trivial, div_sound _ _ ?_⟩
  · intro i; fin_cases i <;> simp [Tree.val, pDofs, lDofs]
  · intro i; fin_cases i <;> simp [Tree.val, lDofs]

/-- the contact-mechanics shape `t + max(-t - c·(u - g), 0)` together with `‖·‖` and the open-state
    characteristic function, at a state off all three kinks -/
noncomputable def contactTree : Tree 3 1 :=
  .bin (ewise2 addRule)
    (.bin (ewise2 maxRule) (.un (linRule !![-1, -2, 0]) (.var id)) (.const ![0]))
    (.bin (ewise2 mulRule)
      (.un (ewise1 (charRule (1 / 10))) (.un (linRule !![0, 0, 1]) (.var id)))
      (.un (normRule (cellIdx 1 2)) (.un (linRule !![1, 0, 0; 0, 1, 0]) (.var id))))

example : contactTree.Smooth ![1, 2, 3] := by
  refine ⟨⟨⟨trivial, matmul_sound _ _⟩, trivial, maximum_sound _ _ ?_⟩,
    ⟨⟨⟨trivial, matmul_sound _ _⟩, characteristic_sound _ _ ?_⟩,
     ⟨⟨trivial, matmul_sound _ _⟩, l2_norm_rows_sound 1 2 _ ?_⟩, mul_sound _ _⟩, add_sound _ _⟩
  · intro i; fin_cases i
    simp [Tree.val, linRule, dotProduct, Fin.sum_univ_three]
    norm_num
  · intro i; fin_cases i
    simp [Tree.val, linRule, dotProduct, Fin.sum_univ_three]
    norm_num
  · intro c; fin_cases c
    simp [Tree.val, linRule, dotProduct, Fin.sum_univ_three, Fin.sum_univ_two, cellIdx]
    norm_num

/-- a vocabulary tree with a division, a maximum, a logarithm and a norm; admissibility is a finite list of
    inequalities that `norm_num` decides at a concrete state -/
noncomputable def vocabTree : VTree 3 1 :=
  .op .add
    (.matmul !![1, 1] (.op .div (.op .max (.var pDofs) (.var lDofs)) (.fn .log (.var lDofs))))
    (.norm (cellIdx 1 2) (.var pDofs))

theorem vocabTree_admissible : vocabTree.Admissible ![0, 2, 3] := by
  refine ⟨⟨⟨trivial, trivial, ?_⟩, ⟨trivial, ?_⟩, ?_⟩, ⟨trivial, ?_⟩, fun _ => trivial⟩
  · intro i; fin_cases i <;> simp [VTree.toTree, Tree.val, pDofs, lDofs, Op2.ok]
  · intro i; fin_cases i <;> simp [VTree.toTree, Tree.val, lDofs, Fn1.ok]
  · intro i
    have hl : Real.log 3 ≠ 0 := by
      have : (0 : ℝ) < Real.log 3 := Real.log_pos (by norm_num)
      exact this.ne'
    fin_cases i <;> simpa [VTree.toTree, Tree.val, lDofs, Op2.ok, Fn1.rule, logRule, ewise1] using hl
  · intro c; fin_cases c
    simp [VTree.toTree, Tree.val, pDofs, cellIdx, Fin.sum_univ_two]

example (δ : Vec 3) (r : Row (fun _ : Fin 1 => 1)) :
    HasDerivAt (fun ε : ℝ => residual (fun _ : Fin 1 => vocabTree.toTree) (![0, 2, 3] + ε • δ) r)
      ((assembleJac (fun _ : Fin 1 => vocabTree.toTree) ![0, 2, 3]).mulVec δ r) 0 :=
  vocab_assemble_jac_is_derivative (k := fun _ : Fin 1 => 1) (fun _ => vocabTree) _ (fun _ => vocabTree_admissible) δ r

/-- sub-system of the example system: any selection of rows, columns of the pressure only -/
example (x : Vec 3) (η : Vec 2) (rows : Fin 2 → Row ![2, 1]) (i : Fin 2) :
    HasDerivAt (fun ε : ℝ => residual exEqs (x + ε • scatter pDofs η) (rows i))
      (((assembleJac exEqs x).submatrix rows pDofs).mulVec η i) 0 :=
  assemble_subsystem_jac_is_derivative exEqs x (fun e => by
    match e with
    | 0 => exact accTree_smooth x
    | 1 => exact fluxTree_smooth x) rows pDofs η i

/-- Newton: the hypothesis `A δ = b` is satisfiable (the one-equation linear system `2·x₀ = 0` at `x₀ = 1`, `δ = -1`) -/
noncomputable def linEq : (e : Fin 1) → Tree 1 ((fun _ : Fin 1 => 1) e) :=
  fun _ => .un (linRule !![(2 : ℝ)]) (.var id)

theorem linEq_smooth (x : Vec 1) (e : Fin 1) : (linEq e).Smooth x := ⟨trivial, matmul_sound _ _⟩

example (r : Row (fun _ : Fin 1 => 1)) :
    HasDerivAt (fun ε : ℝ => residual linEq (![1] + ε • ![-1]) r) (-(residual linEq ![1] r)) 0 :=
  newton_step_exact_linearization linEq ![1] (linEq_smooth _) ![-1] (by
    funext r
    obtain ⟨e, i⟩ := r
    simp [assembleJac, assembleRhs, linEq, Tree.jac, Tree.val, linRule, Matrix.mulVec, Matrix.vecMul, dotProduct, selMat]) r

end example_system

end PorepyVerif.C03
