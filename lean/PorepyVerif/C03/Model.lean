/-
C03 — executable part of the model (core Lean only).

Three things live here:

1. The forward-mode RULE FORMULAS of the node kinds that occur in the operator trees of the shipped
   models, written once, polymorphically in the number type.  The driver runs them over `Rat` to
   recompute sampled nodes of the real trees; `Props.lean` instantiates the very same terms at `ℝ`
   and proves that their Jacobian factors are the true partial derivatives (`*_sound`).
     `__add__/__sub__/__mul__`  (forward_mode.py)       `addRule subRule mulRule`
     `__truediv__` = `self * other ** -1`               `divRule`
     `__pow__` with a float exponent                    `powIntRule c`   (integer exponents in the driver)
     `functions.maximum` (ties take the first operand)  `maxRule`
     `sparse @ AdArray`, `ArraySlicer @ AdArray`        `linRow`  (one row of a constant matrix)
   An operand that is a float / ndarray is the same rule with a zero Jacobian row for that operand
   (`AdArray * ndarray` computes `diag(b)·Ja`, which is `diag(b)·Ja + diag(a)·0`).

2. `nodeRow`: value and Jacobian row of a binary elementwise node from the children's
   (value, Jacobian row): `(f a b, d1·Ja + d2·Jb)` — the chain rule as the code applies it.

3. The VOCABULARY: which node kinds (strings produced by the tree auditor) are covered by which
   theorem of `Props.lean`; `uncovered` is what the driver answers for a census.
-/
namespace PorepyVerif.C03

/-! ## 1. rule formulas -/

/-- A binary elementwise forward-mode rule: value and the two Jacobian factors
    (`new_jac = diag(d1)·Ja + diag(d2)·Jb`). -/
structure Rule2 (α : Type) where
  f  : α → α → α
  d1 : α → α → α
  d2 : α → α → α

/-- A unary elementwise rule (`new_jac = diag(d)·Ja`). -/
structure Rule1 (α : Type) where
  f : α → α
  d : α → α

section formulas
variable {α : Type} [Add α] [Sub α] [Mul α] [Neg α] [Inv α] [OfNat α 0] [OfNat α 1]

/-- `AdArray.__add__` : `val = a + b`, `jac = Ja + Jb`. -/
def addRule : Rule2 α := ⟨fun a b => a + b, fun _ _ => 1, fun _ _ => 1⟩

/-- `AdArray.__sub__` = `self + (-other)` : `jac = Ja - Jb`. -/
def subRule : Rule2 α := ⟨fun a b => a - b, fun _ _ => 1, fun _ _ => -1⟩

/-- `AdArray.__mul__` : `jac = diag(b)·Ja + diag(a)·Jb`. -/
def mulRule : Rule2 α := ⟨fun a b => a * b, fun _ b => b, fun a _ => a⟩

/-- `AdArray.__truediv__` = `self * other ** (-1.0)` :
    `val = a · b⁻¹`, `jac = diag(b⁻¹)·Ja + diag(a)·diag(-1 · b⁻²)·Jb`. -/
def divRule : Rule2 α := ⟨fun a b => a * b⁻¹, fun _ b => b⁻¹, fun a b => a * (-(b⁻¹ * b⁻¹))⟩

/-- `functions.maximum(var_0, var_1)`: row `i` is taken from `var_1` iff `var_1[i] > var_0[i]`
    (a tie keeps `var_0`), value and Jacobian row alike. -/
def maxRule [LT α] [DecidableLT α] : Rule2 α :=
  ⟨fun a b => if a < b then b else a, fun a b => if a < b then 0 else 1, fun a b => if a < b then 1 else 0⟩

/-- natural power by repeated multiplication (structural, so that it is available for every number type) -/
def npow (x : α) : Nat → α
  | 0 => 1
  | k + 1 => npow x k * x

/-- integer power: `x^c` for `c ≥ 0`, `(x⁻¹)^(-c)` for `c < 0` (what `val ** float(c)` is for integral `c`, `x ≠ 0`) -/
def ipow (x : α) (c : Int) : α :=
  if 0 ≤ c then npow x c.toNat else npow x⁻¹ (-c).toNat

/-- `AdArray.__pow__(float c)` : `val = x ** c`, `jac = diag(c · x ** (c-1))·Ja`; `cα` is `c` in the number type. -/
def powIntRule (c : Int) (cα : α) : Rule1 α := ⟨fun x => ipow x c, fun x => cα * ipow x (c - 1)⟩

end formulas

/-! ## 2. one node, one row -/

section node
variable {α : Type} [Add α] [Mul α] [OfNat α 0]

/-- `x • row` -/
def scaleRow (x : α) (row : List α) : List α := row.map (x * ·)

/-- entrywise sum of two rows of equal length -/
def addRows : List α → List α → List α
  | a :: as, b :: bs => (a + b) :: addRows as bs
  | _, _ => []

/-- Binary elementwise node, row `i`: from `(a, Ja[i,:])` and `(b, Jb[i,:])` to `(f a b, d1·Ja[i,:] + d2·Jb[i,:])`. -/
def nodeRow (r : Rule2 α) (a : α) (ja : List α) (b : α) (jb : List α) : α × List α :=
  (r.f a b, addRows (scaleRow (r.d1 a b) ja) (scaleRow (r.d2 a b) jb))

/-- Unary elementwise node, row `i`. -/
def nodeRow1 (r : Rule1 α) (a : α) (ja : List α) : α × List α :=
  (r.f a, scaleRow (r.d a) ja)

/-- Row `i` of `M @ x` for a constant matrix: `coef` are the entries `M[i,k]`, `vals` the `x.val[k]`,
    `jacs` the rows `x.jac[k,:]` (all restricted to the same index list `k`); `width` = number of columns. -/
def linRow (width : Nat) : List α → List α → List (List α) → α × List α
  | c :: cs, v :: vs, j :: js =>
      let r := linRow width cs vs js
      (c * v + r.1, addRows (scaleRow c j) r.2)
  | _, _, _ => (0, List.replicate width 0)

end node

/-! ## 2b. binary64 instances of the function rules (driver only)

The transcendental rules live over ℝ in `Lemmas.lean` (`expRule`, `logRule`, …, noncomputable).  Their
binary64 counterparts below are what the driver evaluates to re-compute function nodes of the real trees
(class T comparison, relative 1e-9); they are transcriptions of the same formulas, not the same terms. -/

def ratToFloat (q : Rat) : Float := Float.ofInt q.num / Float.ofNat q.den

/-- exact value of a finite binary64 number -/
def floatToRat (x : Float) : Option Rat :=
  if x.isNaN || x.isInf then none else
  let (m, e) := x.frExp
  let mi : Int := (m * 9007199254740992.0).toInt64.toInt
  let ex : Int := e - 53
  some (if ex ≥ 0 then (mi : Rat) * ((2 ^ ex.toNat : Nat) : Rat) else (mi : Rat) / ((2 ^ (-ex).toNat : Nat) : Rat))

def piF : Float := 3.141592653589793

def signF (x : Float) : Float := if x > 0 then 1 else if x < 0 then -1 else 0

/-- `(value, Jacobian factor)` of the unary functions of `porepy/numerics/ad/functions.py` (and of
    `AdArray.__pow__` with a non-integral float exponent, name `pow`); `p` are the arguments bound by
    `functools.partial` -/
def fnRuleF (name : String) (p : List Float) : Option (Rule1 Float) :=
  match name, p with
  | "exp", _ => some ⟨Float.exp, Float.exp⟩
  | "log", _ => some ⟨Float.log, fun x => 1 / x⟩
  | "sin", _ => some ⟨Float.sin, Float.cos⟩
  | "cos", _ => some ⟨Float.cos, fun x => -Float.sin x⟩
  | "tan", _ => some ⟨Float.tan, fun x => 1 / (Float.cos x * Float.cos x)⟩
  | "sinh", _ => some ⟨Float.sinh, Float.cosh⟩
  | "cosh", _ => some ⟨Float.cosh, Float.sinh⟩
  | "tanh", _ => some ⟨Float.tanh, fun x => 1 / (Float.cosh x * Float.cosh x)⟩
  | "arctan", _ => some ⟨Float.atan, fun x => 1 / (x * x + 1)⟩
  | "arcsin", _ => some ⟨Float.asin, fun x => 1 / Float.sqrt (1 - x * x)⟩
  | "arccos", _ => some ⟨Float.acos, fun x => -(1 / Float.sqrt (1 - x * x))⟩
  | "arcsinh", _ => some ⟨Float.asinh, fun x => 1 / Float.sqrt (x * x + 1)⟩
  | "arccosh", _ => some ⟨Float.acosh, fun x => 1 / (Float.sqrt (x - 1) * Float.sqrt (x + 1))⟩
  | "arctanh", _ => some ⟨Float.atanh, fun x => 1 / (1 - x * x)⟩
  | "abs", _ => some ⟨Float.abs, signF⟩
  | "characteristic_function", [tol] => some ⟨fun x => if x.abs ≤ tol then 1 else 0, fun _ => 0⟩
  | "heaviside", [z] => some ⟨fun x => if x < 0 then 0 else if x == 0 then z else 1, fun _ => 0⟩
  | "heaviside_smooth", [eps] =>
      some ⟨fun x => 0.5 * (1 + 2 / piF * Float.atan (x / eps)), fun x => eps / piF / (eps * eps + x * x)⟩
  | "safe_power", [pw, z, tol] =>
      some ⟨fun x => if x.abs > tol then Float.pow x pw else z,
            fun x => if x.abs > tol then pw * Float.pow x (pw - 1) else 0⟩
  | "pow", [c] => some ⟨fun x => Float.pow x c, fun x => c * Float.pow x (c - 1)⟩
  | _, _ => none

/-- `AdArray ** AdArray` (and `float ** AdArray`, `ndarray ** AdArray` with a zero row for the base):
    `val = a ** b`, `jac = diag(b · a ** (b-1))·Ja + diag(a ** b · log a)·Jb` -/
def powRuleF : Rule2 Float :=
  ⟨fun a b => Float.pow a b, fun a b => b * Float.pow a (b - 1), fun a b => Float.pow a b * Float.log a⟩

/-- `l2_norm(dim, ·)`, one cell: from the `dim` component values and their Jacobian rows to
    `(‖v‖, Σ_d (v_d/‖v‖)·row_d)` -/
def normRowF (width : Nat) (vals : List Float) (jacs : List (List Float)) : Float × List Float :=
  let nrm := Float.sqrt (vals.foldl (fun s v => s + v * v) 0)
  (nrm, (linRow width (vals.map (· / nrm)) vals jacs).2)

/-! ## 2c. sub-systems -/

/-- `assemble(equations=…, variables=…)` slices the full system: `trip` are the `(i, j, v)` entries of the full
    Jacobian, `rows` / `cols` the selected global row / column indices in output order; the answer are the entries
    of the sub-matrix (position in `rows`, position in `cols`, value). -/
def sliceTrip (trip : List (Nat × Nat × Rat)) (rows cols : List Nat) : List (Nat × Nat × Rat) :=
  trip.filterMap (fun t =>
    match rows.findIdx? (· == t.1), cols.findIdx? (· == t.2.1) with
    | some a, some b => some (a, b, t.2.2)
    | _, _ => none)

/-! ## 3. vocabulary -/

/-- Node kinds in the auditor's notation together with the theorem of `Props.lean` that covers them.
    Operand tags: `A` AdArray, `S` float, `V` 1-d ndarray, `M` sparse matrix, `L` ArraySlicer,
    `LL` list of slicers (ProjectionList). -/
def vocabulary : List (String × String) :=
  let five (op thm : String) : List (String × String) :=
    ["A,A", "A,S", "A,V", "S,A", "V,A"].map (fun s => (op ++ "(" ++ s ++ ")", thm))
  [ ("leaf:var", "var_leaf_sound"),
    ("leaf:const", "const_leaf_sound"),       -- every `leaf:const:<tag>` (prefix)
    ("const", "const_leaf_sound") ]           -- every `const:<op>`: a sub-tree without variables (prefix)
  ++ five "add" "add_sound" ++ five "sub" "sub_sound" ++ five "mul" "mul_sound" ++ five "div" "div_sound"
  ++ [ ("pow(A,S)", "pow_const_sound"), ("pow(A,V)", "pow_const_sound"),
       ("pow(A,A)", "pow_sound"), ("pow(S,A)", "pow_sound"), ("pow(V,A)", "pow_sound"),
       ("matmul(M,A)", "matmul_sound"), ("matmul(L,A)", "matmul_sound"), ("matmul(LL,A)", "matmul_sound") ]
  ++ five "fn:maximum" "maximum_sound"
  ++ [ ("fn:exp(A)", "exp_sound"), ("fn:log(A)", "log_sound"), ("fn:sin(A)", "sin_sound"),
       ("fn:cos(A)", "cos_sound"), ("fn:tan(A)", "tan_sound"), ("fn:sinh(A)", "sinh_sound"),
       ("fn:cosh(A)", "cosh_sound"), ("fn:tanh(A)", "tanh_sound"), ("fn:arctan(A)", "arctan_sound"),
       ("fn:abs(A)", "abs_sound"), ("fn:l2_norm(A)", "l2_norm_sound"),
       ("fn:characteristic_function(A)", "characteristic_sound"), ("fn:heaviside(A)", "heaviside_sound"),
       ("fn:arcsin(A)", "arcsin_sound"), ("fn:arccos(A)", "arccos_sound"), ("fn:arcsinh(A)", "arcsinh_sound"),
       ("fn:arccosh(A)", "arccosh_sound"), ("fn:arctanh(A)", "arctanh_sound"),
       ("fn:safe_power(A)", "safe_power_sound"), ("fn:heaviside_smooth(A)", "heaviside_smooth_sound") ]

/-- the part of a kind string before the second `:` (`leaf:const:V` ↦ `leaf:const`), or before the first
    `:` for `const:<op>` -/
def kindHead (k : String) : String :=
  match k.splitOn ":" with
  | "leaf" :: "const" :: _ => "leaf:const"
  | "const" :: _ => "const"
  | _ => k

/-- the covering theorem of a kind, if any -/
def coveredBy (k : String) : Option String :=
  (vocabulary.find? (fun p => p.1 == kindHead k)).map (·.2)

/-- kinds of a census that no theorem covers (opaque functions, anomalous nodes, unknown operations) -/
def uncovered (kinds : List String) : List String :=
  kinds.filter (fun k => (coveredBy k).isNone)

end PorepyVerif.C03
