/-
C28 — property theorems (statements depend on Model.lean only; helper lemmas in Lemmas.lean).

Property: for two segments with integer coordinates in a bounded box, `segments_2d` / `segments_3d`
report no intersection, one point or an overlapping segment exactly as exact rational arithmetic
does, with the same points, independent of argument order.

  §A  the bound and its only use (`bound_gap`)
  §B  model = exact specification (`seg2d_eq_spec`, `seg3d_eq_spec`)
  §C  the specification IS the set intersection (`mem_segInter2_iff`, `mem_segInter3_iff`)
  §D  independence of argument order (`seg_symmetric`, `seg2d_symmetric`, `seg3d_symmetric`)
  §E  what the code does outside the property: zero-length segments, the dropped assertion
  §F  the two (meanwhile repaired) defects of `segments_3d`: `decide` witnesses on the pre-repair model `seg3dCode`
  §G  the squared-form comparisons are the sqrt comparisons of the code (`sqrt_rewrites`, `seg2d_eq_sqrt_form`)
  §H  column order: 2-D along segment 1; 3-D identical in every argument order (`seg3d_order_independent`)
-/
import PorepyVerif.C28.Lemmas

namespace PorepyVerif.C28

/-! ## §A  The bound -/

/-- the default tolerance and the box of the property: `8·1000²·1e-8 = 0.08 < 1` -/
theorem tolSmall_default : TolSmall (1 / 100000000) 1000 :=
  ⟨by decide +kernel, by decide, by decide +kernel⟩

/-- THE ONLY USE OF THE BOUND.  Under `8·B²·tol < 1` a non-zero integer `n` (a determinant, a
    component of a cross product, a coordinate difference) exceeds every tolerance term it is
    compared with:  (1) `|n| > tol` (absolute tests of `segments_3d`);  (2) `n² > tol²·l1·l2` for squared
    lengths `l1, l2 ≤ 8B²` (the relative tests of `segments_2d`, in squared form; `l2 = 1` gives the
    tests against one length);  (3) a non-zero ratio `n/m` with `|m| ≤ 8B²` (a line parameter or a
    difference of parameters, a residual of Cramer's rule) satisfies `|n/m| > tol`.
    Everything else in the proofs of §B is exact algebra over ℚ. -/
theorem bound_gap (tol : Rat) (B : Int) (hT : TolSmall tol B) (n : Int) (hn : n ≠ 0) :
    tol < |(n : Rat)| ∧
    (∀ l1 l2 : Rat, 0 ≤ l1 → l1 ≤ 8 * B * B → 0 ≤ l2 → l2 ≤ 8 * B * B → tol * tol * l1 * l2 < (n : Rat) * n) ∧
    (∀ m : Int, m ≠ 0 → |(m : Rat)| ≤ 8 * B * B → tol < |(n : Rat) / m|) := by
  have hB : (1:Rat) ≤ B := by exact_mod_cast hT.one_le
  have hK1 : (1:Rat) ≤ 8 * B * B := by nlinarith
  have hpos := hT.pos
  have hsm := hT.small
  have htol1 : tol < 1 := by nlinarith
  refine ⟨?_, ?_, ?_⟩
  · have := int_abs_ge_one n hn; linarith
  · intro l1 l2 h1 h1' h2 h2'
    have := int_sq_ge_one n hn
    have a1 : tol * l1 < 1 := by nlinarith
    have a2 : tol * l2 < 1 := by nlinarith
    have a3 : 0 ≤ tol * l1 := by positivity
    have a4 : 0 ≤ tol * l2 := by positivity
    nlinarith
  · intro m hm hmb
    have h2 := ratio_abs_ge n m hn hm
    have hm' : 0 < |(m : Rat)| := by have := int_abs_ge_one m hm; linarith
    have := abs_nonneg ((n : Rat) / m)
    nlinarith


/-- non-vacuity: with the default tolerance and box, a determinant `n = -1` (nearly parallel
    directions (500,499), (499,498)) still exceeds the tolerance term of two segments of maximal length -/
example : (1 / 100000000 : Rat) * (1 / 100000000) * (8 * 1000 * 1000) * (8 * 1000 * 1000) < ((-1 : Int) : Rat) * ((-1 : Int) : Rat) :=
  (bound_gap _ 1000 tolSmall_default (-1) (by decide)).2.1 _ _ (by norm_num) (by norm_num) (by norm_num) (by norm_num)

/-! ## §B  Model = exact specification on bounded integer coordinates -/

/-- 2-D: on integer coordinates in `[-B, B]` with `8·B²·tol < 1`, the model of `segments_2d`
    (tolerances and all) returns exactly the exact-arithmetic intersection — same kind, same
    points, same column order.  The bound is used only through the gap lemmas of Lemmas §1
    (`sq_lt_tol_iff`, `sq_gt_tol_iff`, `ratio_le_tol_iff`: a non-zero integer is ≥ 1 in absolute value). -/
theorem seg2d_eq_spec (tol : Rat) (B : Int) (hT : TolSmall tol B)
    (ax ay bx by' cx cy dx dy : Int)
    (hax : InBox B ax) (hay : InBox B ay) (hbx : InBox B bx) (hby : InBox B by')
    (hcx : InBox B cx) (hcy : InBox B cy) (hdx : InBox B dx) (hdy : InBox B dy)
    (nd1 : bx ≠ ax ∨ by' ≠ ay) (nd2 : dx ≠ cx ∨ dy ≠ cy) :
    seg2d tol (P2.ofInt ax ay) (P2.ofInt bx by') (P2.ofInt cx cy) (P2.ofInt dx dy)
      = segInter2 (P2.ofInt ax ay) (P2.ofInt bx by') (P2.ofInt cx cy) (P2.ofInt dx dy) := by
  have hB : (1:Rat) ≤ B := by exact_mod_cast hT.one_le
  have h8 : (2 * ((2 * B) * (2 * B)) : Int) = 8 * B * B := by ring
  apply seg2d_core tol _ _ _ _ (bx - ax) (by' - ay) (dx - cx) (dy - cy) (cx - ax) (cy - ay) (8 * B * B)
  · simp only [P2.ofInt]; push_cast; ring
  · simp only [P2.ofInt]; push_cast; ring
  · simp only [P2.ofInt]; push_cast; ring
  · simp only [P2.ofInt]; push_cast; ring
  · simp only [P2.ofInt]; push_cast; ring
  · simp only [P2.ofInt]; push_cast; ring
  · exact hT.pos
  · exact hT.small
  · nlinarith
  · have := sq_sum_le (box_diff hax hbx) (box_diff hay hby)
    rw [h8] at this; exact_mod_cast this
  · have := sq_sum_le (box_diff hcx hdx) (box_diff hcy hdy)
    rw [h8] at this; exact_mod_cast this
  · have := abs_det_le (box_diff hax hbx) (box_diff hay hby) (box_diff hcx hdx) (box_diff hcy hdy)
    rw [h8] at this; exact_mod_cast this
  · rcases nd1 with h | h
    · left; omega
    · right; omega
  · rcases nd2 with h | h
    · left; omega
    · right; omega

/-- non-vacuity: a T-touching pair at coordinates near the edge of the box -/
example : seg2d (1 / 100000000) (P2.ofInt (-1000) 0) (P2.ofInt 1000 0) (P2.ofInt 999 0) (P2.ofInt 999 1000)
    = .point (P2.ofInt 999 0) := by decide +kernel

/-- 3-D: on integer coordinates in `[-B, B]` with `8·B²·tol < 1`, the model of `segments_3d` (with the
    repairs R1, R2 of Model.lean) returns the exact-arithmetic intersection: same kind, same points
    (a segment as an unordered pair: the code returns the two middle points in `argsort` order).
    Branch selection is exact (non-parallel ⇔ some 2×2 minor ≠ 0 ⇔ the chosen minor is ≥ tol;
    colinear ⇔ ds × d1 = 0), the consistency test in the third coordinate is exact, and the
    touching test is exact — all through the gap lemmas of Lemmas §1. -/
theorem seg3d_eq_spec (tol : Rat) (B : Int) (hT : TolSmall tol B)
    (ax ay az bx by' bz cx cy cz dx dy dz : Int)
    (hax : InBox B ax) (hay : InBox B ay) (haz : InBox B az)
    (hbx : InBox B bx) (hby : InBox B by') (hbz : InBox B bz)
    (hcx : InBox B cx) (hcy : InBox B cy) (hcz : InBox B cz)
    (hdx : InBox B dx) (hdy : InBox B dy) (hdz : InBox B dz)
    (nd1 : bx ≠ ax ∨ by' ≠ ay ∨ bz ≠ az) (nd2 : dx ≠ cx ∨ dy ≠ cy ∨ dz ≠ cz) :
    Res.same (seg3d tol (P3.ofInt ax ay az) (P3.ofInt bx by' bz) (P3.ofInt cx cy cz) (P3.ofInt dx dy dz))
      (segInter3 (P3.ofInt ax ay az) (P3.ofInt bx by' bz) (P3.ofInt cx cy cz) (P3.ofInt dx dy dz)) := by
  have hB : (1:Rat) ≤ B := by exact_mod_cast hT.one_le
  have hK1 : (1:Rat) ≤ 8 * B * B := by nlinarith
  have htol1 : tol < 1 := by have := hT.small; have := hT.pos; nlinarith
  have h8 : (2 * ((2 * B) * (2 * B)) : Int) = 8 * B * B := by ring
  have bxy := abs_det_le (box_diff hax hbx) (box_diff hay hby) (box_diff hcx hdx) (box_diff hcy hdy)
  have bxz := abs_det_le (box_diff hax hbx) (box_diff haz hbz) (box_diff hcx hdx) (box_diff hcz hdz)
  have byz := abs_det_le (box_diff hay hby) (box_diff haz hbz) (box_diff hcy hdy) (box_diff hcz hdz)
  rw [h8] at bxy bxz byz
  by_cases hnp : (bx - ax) * (dy - cy) - (by' - ay) * (dx - cx) ≠ 0 ∨
      (bx - ax) * (dz - cz) - (bz - az) * (dx - cx) ≠ 0 ∨ (by' - ay) * (dz - cz) - (bz - az) * (dy - cy) ≠ 0
  · apply Res.same_of_eq
    apply seg3d_cross_core tol _ _ _ _ (bx - ax) (by' - ay) (bz - az) (dx - cx) (dy - cy) (dz - cz)
      (cx - ax) (cy - ay) (cz - az) (8 * B * B)
    · simp only [P3.ofInt]; push_cast; ring
    · simp only [P3.ofInt]; push_cast; ring
    · simp only [P3.ofInt]; push_cast; ring
    · simp only [P3.ofInt]; push_cast; ring
    · simp only [P3.ofInt]; push_cast; ring
    · simp only [P3.ofInt]; push_cast; ring
    · simp only [P3.ofInt]; push_cast; ring
    · simp only [P3.ofInt]; push_cast; ring
    · simp only [P3.ofInt]; push_cast; ring
    · exact hT.pos
    · exact hT.small
    · exact hK1
    · exact_mod_cast bxy
    · exact_mod_cast bxz
    · exact_mod_cast byz
    · exact hnp
  · have h1 : (bx - ax) * (dy - cy) - (by' - ay) * (dx - cx) = 0 := by
      by_contra h; exact hnp (Or.inl h)
    have h2 : (bx - ax) * (dz - cz) - (bz - az) * (dx - cx) = 0 := by
      by_contra h; exact hnp (Or.inr (Or.inl h))
    have h3 : (by' - ay) * (dz - cz) - (bz - az) * (dy - cy) = 0 := by
      by_contra h; exact hnp (Or.inr (Or.inr h))
    have q1 : ((bx:Rat) - ax) * (dy - cy) - (by' - ay) * (dx - cx) = 0 := by exact_mod_cast h1
    have q2 : ((bx:Rat) - ax) * (dz - cz) - (bz - az) * (dx - cx) = 0 := by exact_mod_cast h2
    have q3 : ((by':Rat) - ay) * (dz - cz) - (bz - az) * (dy - cy) = 0 := by exact_mod_cast h3
    rw [seg3d_eq_par tol _ _ _ _ hT.pos (by simp only [minor, P3.ofInt, Dims.i, Dims.j, P3.get]; exact q1)
      (by simp only [minor, P3.ofInt, Dims.i, Dims.j, P3.get]; exact q2)
      (by simp only [minor, P3.ofInt, Dims.i, Dims.j, P3.get]; exact q3)]
    apply par3d_same_core tol _ _ _ _ (le_of_lt hT.pos)
    · intro k; cases k <;> simp only [P3.get, P3.ofInt]
      · exact rabs_gt_iff_of_int _ (bx - ax) (by push_cast; ring) tol (le_of_lt hT.pos) htol1
      · exact rabs_gt_iff_of_int _ (by' - ay) (by push_cast; ring) tol (le_of_lt hT.pos) htol1
      · exact rabs_gt_iff_of_int _ (bz - az) (by push_cast; ring) tol (le_of_lt hT.pos) htol1
    · intro k; cases k <;> simp only [P3.get, P3.ofInt]
      · exact rabs_gt_iff_of_int _ (dx - cx) (by push_cast; ring) tol (le_of_lt hT.pos) htol1
      · exact rabs_gt_iff_of_int _ (dy - cy) (by push_cast; ring) tol (le_of_lt hT.pos) htol1
      · exact rabs_gt_iff_of_int _ (dz - cz) (by push_cast; ring) tol (le_of_lt hT.pos) htol1
    · exact rabs_gt_iff_of_int _ ((cy - ay) * (bz - az) - (cz - az) * (by' - ay)) (by simp only [P3.ofInt]; push_cast; ring) tol (le_of_lt hT.pos) htol1
    · exact rabs_gt_iff_of_int _ ((cz - az) * (bx - ax) - (cx - ax) * (bz - az)) (by simp only [P3.ofInt]; push_cast; ring) tol (le_of_lt hT.pos) htol1
    · exact rabs_gt_iff_of_int _ ((cx - ax) * (by' - ay) - (cy - ay) * (bx - ax)) (by simp only [P3.ofInt]; push_cast; ring) tol (le_of_lt hT.pos) htol1
    · intro k i j
      have : ∃ m : Int, col4 ((P3.ofInt ax ay az).get k) ((P3.ofInt bx by' bz).get k) ((P3.ofInt cx cy cz).get k)
          ((P3.ofInt dx dy dz).get k) i - col4 ((P3.ofInt ax ay az).get k) ((P3.ofInt bx by' bz).get k)
          ((P3.ofInt cx cy cz).get k) ((P3.ofInt dx dy dz).get k) j = m := by
        cases k <;> simp only [P3.get, P3.ofInt]
        · exact col4_diff_int _ _ _ _ (bx - ax) (cx - ax) (dx - cx) (by push_cast; ring) (by push_cast; ring) (by push_cast; ring) i j
        · exact col4_diff_int _ _ _ _ (by' - ay) (cy - ay) (dy - cy) (by push_cast; ring) (by push_cast; ring) (by push_cast; ring) i j
        · exact col4_diff_int _ _ _ _ (bz - az) (cz - az) (dz - cz) (by push_cast; ring) (by push_cast; ring) (by push_cast; ring) i j
      obtain ⟨m, hm⟩ := this
      rw [rabs_lt_iff_of_int _ m hm tol hT.pos (le_of_lt htol1), sub_eq_zero]
    · simp only [P3.ofInt]; exact q1
    · simp only [P3.ofInt]; exact q2
    · simp only [P3.ofInt]; exact q3
    · simp only [P3.ofInt]
      rcases nd1 with h | h | h
      · left; exact_mod_cast sub_ne_zero.mpr h
      · right; left; exact_mod_cast sub_ne_zero.mpr h
      · right; right; exact_mod_cast sub_ne_zero.mpr h
    · simp only [P3.ofInt]
      rcases nd2 with h | h | h
      · left; exact_mod_cast sub_ne_zero.mpr h
      · right; left; exact_mod_cast sub_ne_zero.mpr h
      · right; right; exact_mod_cast sub_ne_zero.mpr h

/-- non-vacuity (3-D): a crossing through a point with fractional coordinates, a colinear overlap and a
    colinear end-to-end pair -/
example : seg3d (1 / 100000000) (P3.ofInt 0 0 0) (P3.ofInt 2 2 1) (P3.ofInt 0 2 0) (P3.ofInt 2 0 1)
    = .point ⟨1, 1, 1 / 2⟩ := by decide +kernel
example : seg3d (1 / 100000000) (P3.ofInt 0 0 0) (P3.ofInt 3 3 3) (P3.ofInt 2 2 2) (P3.ofInt 1 1 1)
    = .segment (P3.ofInt 1 1 1) (P3.ofInt 2 2 2) := by decide +kernel
example : seg3d (1 / 100000000) (P3.ofInt 0 0 0) (P3.ofInt 1 1 1) (P3.ofInt 1 1 1) (P3.ofInt 2 2 2)
    = .point (P3.ofInt 1 1 1) := by decide +kernel

/-! ## §C  The specification is the set intersection -/

/-- SOUNDNESS (3-D): for segments of positive length, the points of `segInter3 a b c d` are exactly
    the common points of the closed segments `[a,b]` and `[c,d]` — for ALL rational coordinates. -/
theorem mem_segInter3_iff (p a b c d : P3) (nd1 : a ≠ b) (nd2 : c ≠ d) :
    Res.Mem3 p (segInter3 a b c d) ↔ OnSeg3 p a b ∧ OnSeg3 p c d :=
  mem_segInter3_iff' p a b c d (P3.delta_ne nd1) (P3.delta_ne nd2)

/-- SOUNDNESS (2-D) -/
theorem mem_segInter2_iff (p a b c d : P2) (nd1 : a ≠ b) (nd2 : c ≠ d) :
    Res.Mem2 p (segInter2 a b c d) ↔ OnSeg2 p a b ∧ OnSeg2 p c d := by
  apply mem_segInter2_iff' p a b c d
  · have := P3.delta_ne (p := emb a) (q := emb b) (fun h => nd1 (emb_inj h))
    simpa [emb] using this
  · have := P3.delta_ne (p := emb c) (q := emb d) (fun h => nd2 (emb_inj h))
    simpa [emb] using this

/-- the kind is determined as well: the specification never returns a segment with equal end points
    (nor an error), so `none` / `point` / `segment` ⇔ the intersection is empty / one point / infinite -/
theorem segInter_wf : (∀ a b c d : P2, a ≠ b → (segInter2 a b c d).WF) ∧
    (∀ a b c d : P3, a ≠ b → (segInter3 a b c d).WF) := by
  constructor
  · intro a b c d nd1
    apply segInter2_WF
    have := P3.delta_ne (p := emb a) (q := emb b) (fun h => nd1 (emb_inj h))
    simpa [emb] using this
  · intro a b c d nd1
    exact segInter3_WF a b c d (P3.delta_ne nd1)

/-- non-vacuity of the soundness statement -/
example : Res.Mem3 ⟨3 / 2, 3 / 2, 3 / 2⟩ (segInter3 ⟨0, 0, 0⟩ ⟨3, 3, 3⟩ ⟨2, 2, 2⟩ ⟨1, 1, 1⟩) := by
  have : segInter3 ⟨0, 0, 0⟩ ⟨3, 3, 3⟩ ⟨2, 2, 2⟩ ⟨1, 1, 1⟩ = .segment ⟨1, 1, 1⟩ ⟨2, 2, 2⟩ := by decide +kernel
  rw [this]
  exact ⟨1 / 2, by norm_num, by norm_num, by norm_num, by norm_num, by norm_num⟩

/-! ## §D  Independence of argument order -/

/-- `seg_symmetric`: swapping the two segments, or the end points of either segment, gives the same
    result as a set (same kind, same point, same unordered pair of end points) — for ALL rational
    segments of positive length, in 2-D and 3-D. -/
theorem seg_symmetric :
    (∀ a b c d : P2, a ≠ b → c ≠ d →
      Res.same (segInter2 a b c d) (segInter2 c d a b) ∧
      Res.same (segInter2 a b c d) (segInter2 b a c d) ∧
      Res.same (segInter2 a b c d) (segInter2 a b d c)) ∧
    (∀ a b c d : P3, a ≠ b → c ≠ d →
      Res.same (segInter3 a b c d) (segInter3 c d a b) ∧
      Res.same (segInter3 a b c d) (segInter3 b a c d) ∧
      Res.same (segInter3 a b c d) (segInter3 a b d c)) := by
  constructor
  · intro a b c d nd1 nd2
    apply segInter2_symm
    · have := P3.delta_ne (p := emb a) (q := emb b) (fun h => nd1 (emb_inj h))
      simpa [emb] using this
    · have := P3.delta_ne (p := emb c) (q := emb d) (fun h => nd2 (emb_inj h))
      simpa [emb] using this
  · intro a b c d nd1 nd2
    exact segInter3_symm a b c d (P3.delta_ne nd1) (P3.delta_ne nd2)

/-- … hence the MODEL of `segments_2d` is independent of argument order on bounded integer coordinates -/
theorem seg2d_symmetric (tol : Rat) (B : Int) (hT : TolSmall tol B)
    (ax ay bx by' cx cy dx dy : Int)
    (hax : InBox B ax) (hay : InBox B ay) (hbx : InBox B bx) (hby : InBox B by')
    (hcx : InBox B cx) (hcy : InBox B cy) (hdx : InBox B dx) (hdy : InBox B dy)
    (nd1 : bx ≠ ax ∨ by' ≠ ay) (nd2 : dx ≠ cx ∨ dy ≠ cy) :
    Res.same (seg2d tol (P2.ofInt ax ay) (P2.ofInt bx by') (P2.ofInt cx cy) (P2.ofInt dx dy))
             (seg2d tol (P2.ofInt cx cy) (P2.ofInt dx dy) (P2.ofInt ax ay) (P2.ofInt bx by')) ∧
    Res.same (seg2d tol (P2.ofInt ax ay) (P2.ofInt bx by') (P2.ofInt cx cy) (P2.ofInt dx dy))
             (seg2d tol (P2.ofInt bx by') (P2.ofInt ax ay) (P2.ofInt cx cy) (P2.ofInt dx dy)) ∧
    Res.same (seg2d tol (P2.ofInt ax ay) (P2.ofInt bx by') (P2.ofInt cx cy) (P2.ofInt dx dy))
             (seg2d tol (P2.ofInt ax ay) (P2.ofInt bx by') (P2.ofInt dx dy) (P2.ofInt cx cy)) := by
  have nd1' : ax ≠ bx ∨ ay ≠ by' := by rcases nd1 with h | h; exact Or.inl (Ne.symm h); exact Or.inr (Ne.symm h)
  have nd2' : cx ≠ dx ∨ cy ≠ dy := by rcases nd2 with h | h; exact Or.inl (Ne.symm h); exact Or.inr (Ne.symm h)
  rw [seg2d_eq_spec tol B hT ax ay bx by' cx cy dx dy hax hay hbx hby hcx hcy hdx hdy nd1 nd2,
    seg2d_eq_spec tol B hT cx cy dx dy ax ay bx by' hcx hcy hdx hdy hax hay hbx hby nd2 nd1,
    seg2d_eq_spec tol B hT bx by' ax ay cx cy dx dy hbx hby hax hay hcx hcy hdx hdy nd1' nd2,
    seg2d_eq_spec tol B hT ax ay bx by' dx dy cx cy hax hay hbx hby hdx hdy hcx hcy nd1 nd2']
  apply seg_symmetric.1
  · intro h; simp only [P2.ofInt, P2.mk.injEq] at h
    rcases nd1 with h' | h'
    · exact h' (by exact_mod_cast h.1.symm)
    · exact h' (by exact_mod_cast h.2.symm)
  · intro h; simp only [P2.ofInt, P2.mk.injEq] at h
    rcases nd2 with h' | h'
    · exact h' (by exact_mod_cast h.1.symm)
    · exact h' (by exact_mod_cast h.2.symm)

/-- … and so is the (repaired) model of `segments_3d` -/
theorem seg3d_symmetric (tol : Rat) (B : Int) (hT : TolSmall tol B)
    (ax ay az bx by' bz cx cy cz dx dy dz : Int)
    (hax : InBox B ax) (hay : InBox B ay) (haz : InBox B az)
    (hbx : InBox B bx) (hby : InBox B by') (hbz : InBox B bz)
    (hcx : InBox B cx) (hcy : InBox B cy) (hcz : InBox B cz)
    (hdx : InBox B dx) (hdy : InBox B dy) (hdz : InBox B dz)
    (nd1 : bx ≠ ax ∨ by' ≠ ay ∨ bz ≠ az) (nd2 : dx ≠ cx ∨ dy ≠ cy ∨ dz ≠ cz) :
    Res.same (seg3d tol (P3.ofInt ax ay az) (P3.ofInt bx by' bz) (P3.ofInt cx cy cz) (P3.ofInt dx dy dz))
             (seg3d tol (P3.ofInt cx cy cz) (P3.ofInt dx dy dz) (P3.ofInt ax ay az) (P3.ofInt bx by' bz)) ∧
    Res.same (seg3d tol (P3.ofInt ax ay az) (P3.ofInt bx by' bz) (P3.ofInt cx cy cz) (P3.ofInt dx dy dz))
             (seg3d tol (P3.ofInt bx by' bz) (P3.ofInt ax ay az) (P3.ofInt cx cy cz) (P3.ofInt dx dy dz)) ∧
    Res.same (seg3d tol (P3.ofInt ax ay az) (P3.ofInt bx by' bz) (P3.ofInt cx cy cz) (P3.ofInt dx dy dz))
             (seg3d tol (P3.ofInt ax ay az) (P3.ofInt bx by' bz) (P3.ofInt dx dy dz) (P3.ofInt cx cy cz)) := by
  have nd1' : ax ≠ bx ∨ ay ≠ by' ∨ az ≠ bz := by
    rcases nd1 with h | h | h
    · exact Or.inl (Ne.symm h)
    · exact Or.inr (Or.inl (Ne.symm h))
    · exact Or.inr (Or.inr (Ne.symm h))
  have nd2' : cx ≠ dx ∨ cy ≠ dy ∨ cz ≠ dz := by
    rcases nd2 with h | h | h
    · exact Or.inl (Ne.symm h)
    · exact Or.inr (Or.inl (Ne.symm h))
    · exact Or.inr (Or.inr (Ne.symm h))
  have e0 := seg3d_eq_spec tol B hT ax ay az bx by' bz cx cy cz dx dy dz hax hay haz hbx hby hbz hcx hcy hcz hdx hdy hdz nd1 nd2
  have e1 := seg3d_eq_spec tol B hT cx cy cz dx dy dz ax ay az bx by' bz hcx hcy hcz hdx hdy hdz hax hay haz hbx hby hbz nd2 nd1
  have e2 := seg3d_eq_spec tol B hT bx by' bz ax ay az cx cy cz dx dy dz hbx hby hbz hax hay haz hcx hcy hcz hdx hdy hdz nd1' nd2
  have e3 := seg3d_eq_spec tol B hT ax ay az bx by' bz dx dy dz cx cy cz hax hay haz hbx hby hbz hdx hdy hdz hcx hcy hcz nd1 nd2'
  have hab : P3.ofInt ax ay az ≠ P3.ofInt bx by' bz := by
    intro h; simp only [P3.ofInt, P3.mk.injEq] at h
    rcases nd1 with h' | h' | h'
    · exact h' (by exact_mod_cast h.1.symm)
    · exact h' (by exact_mod_cast h.2.1.symm)
    · exact h' (by exact_mod_cast h.2.2.symm)
  have hcd : P3.ofInt cx cy cz ≠ P3.ofInt dx dy dz := by
    intro h; simp only [P3.ofInt, P3.mk.injEq] at h
    rcases nd2 with h' | h' | h'
    · exact h' (by exact_mod_cast h.1.symm)
    · exact h' (by exact_mod_cast h.2.1.symm)
    · exact h' (by exact_mod_cast h.2.2.symm)
  obtain ⟨s1, s2, s3⟩ := seg_symmetric.2 _ _ _ _ hab hcd
  exact ⟨Res.same_trans e0 (Res.same_trans s1 (Res.same_symm e1)),
         Res.same_trans e0 (Res.same_trans s2 (Res.same_symm e2)),
         Res.same_trans e0 (Res.same_trans s3 (Res.same_symm e3))⟩


/-- non-vacuity: the hypotheses are satisfiable (default tolerance, box 1000); a colinear overlap with
    the second segment reversed (in 2-D the two orders return the end points in opposite order) -/
example : Res.same (seg3d (1 / 100000000) (P3.ofInt 0 0 0) (P3.ofInt 3 3 3) (P3.ofInt 2 2 2) (P3.ofInt 1 1 1))
    (seg3d (1 / 100000000) (P3.ofInt 2 2 2) (P3.ofInt 1 1 1) (P3.ofInt 0 0 0) (P3.ofInt 3 3 3)) :=
  (seg3d_symmetric _ 1000 tolSmall_default 0 0 0 3 3 3 2 2 2 1 1 1 ⟨by decide, by decide⟩ ⟨by decide, by decide⟩
    ⟨by decide, by decide⟩ ⟨by decide, by decide⟩ ⟨by decide, by decide⟩ ⟨by decide, by decide⟩ ⟨by decide, by decide⟩
    ⟨by decide, by decide⟩ ⟨by decide, by decide⟩ ⟨by decide, by decide⟩ ⟨by decide, by decide⟩ ⟨by decide, by decide⟩
    (Or.inl (by decide)) (Or.inl (by decide))).1
example : Res.same (seg2d (1 / 100000000) (P2.ofInt 0 0) (P2.ofInt 4 2) (P2.ofInt 6 3) (P2.ofInt 2 1))
    (seg2d (1 / 100000000) (P2.ofInt 6 3) (P2.ofInt 2 1) (P2.ofInt 0 0) (P2.ofInt 4 2)) :=
  (seg2d_symmetric _ 1000 tolSmall_default 0 0 4 2 6 3 2 1 ⟨by decide, by decide⟩ ⟨by decide, by decide⟩
    ⟨by decide, by decide⟩ ⟨by decide, by decide⟩ ⟨by decide, by decide⟩ ⟨by decide, by decide⟩ ⟨by decide, by decide⟩
    ⟨by decide, by decide⟩ (Or.inl (by decide)) (Or.inl (by decide))).1

example : seg2d (1 / 100000000) (P2.ofInt 0 0) (P2.ofInt 4 2) (P2.ofInt 6 3) (P2.ofInt 2 1)
      = .segment (P2.ofInt 2 1) (P2.ofInt 4 2) ∧
    seg2d (1 / 100000000) (P2.ofInt 6 3) (P2.ofInt 2 1) (P2.ofInt 0 0) (P2.ofInt 4 2)
      = .segment (P2.ofInt 4 2) (P2.ofInt 2 1) := by decide +kernel

/-! ## §E  Outside the property: zero-length segments, and the assertion the model drops -/

/-- 2-D, a zero-length segment in either position: the parallel test `0 < tol·0·len` is false, the
    Cramer branch divides by `discr = 0`: AssertionError (the documented ValueError is unreachable). -/
theorem seg2d_zero_length_errors (tol : Rat) (a b c : P2) :
    seg2d tol a a b c = .err .assertion ∧ seg2d tol a b c c = .err .assertion :=
  seg2d_zero_length tol a b c

/-- 3-D: a zero-length first segment against a proper segment gives `None` — even when the point lies
    on the segment; two zero-length segments at the same point raise IndexError. -/
theorem seg3d_zero_length (tol : Rat) (h0 : 0 < tol) (a c d : P3)
    (hd : rabs (d.x - c.x) > tol ∨ rabs (d.y - c.y) > tol ∨ rabs (d.z - c.z) > tol) :
    seg3d tol a a c d = .none ∧ seg3d tol a a a a = .err .index :=
  ⟨seg3d_zero_length_first tol h0 a c d hd, seg3d_zero_length_both tol h0 a⟩

/-- `assert np.allclose(isect_1, isect_2, tol)` in `segments_2d`: in exact arithmetic the two points
    `start_1 + t_1·d_1` and `start_2 + t_2·d_2` coincide whenever `discr ≠ 0`, so the assertion is
    not part of the model. -/
theorem seg2d_assert_never_fires (a b c d : P2)
    (h : (b.x - a.x) * (-(d.y - c.y)) - (b.y - a.y) * (-(d.x - c.x)) ≠ 0) :
    let discr := (b.x - a.x) * (-(d.y - c.y)) - (b.y - a.y) * (-(d.x - c.x))
    let t1 := ((c.x - a.x) * (-(d.y - c.y)) - (c.y - a.y) * (-(d.x - c.x))) / discr
    let t2 := ((b.x - a.x) * (c.y - a.y) - (b.y - a.y) * (c.x - a.x)) / discr
    a.x + t1 * (b.x - a.x) = c.x + t2 * (d.x - c.x) ∧ a.y + t1 * (b.y - a.y) = c.y + t2 * (d.y - c.y) := by
  intro discr t1 t2
  have := isect_agree a.x a.y (b.x - a.x) (b.y - a.y) (d.x - c.x) (d.y - c.y) (c.x - a.x) (c.y - a.y) h
  constructor
  · have h1 := this.1; simp only [discr, t1, t2]; linarith
  · have h2 := this.2; simp only [discr, t1, t2]; linarith

/-! ## §F  The two defects found (repaired in /repo since): `segments_3d` as it WAS coded (`seg3dCode`) does NOT satisfy the property -/

/-- F-A: a vertical segment crossing a diagonal horizontal one in the origin.  The code picks the
    coordinate pair (x, y) because both have an extent in one of the lines; the (x, y)-minor of the
    directions (0,0,2), (2,2,0) vanishes, the pair is treated as parallel and `None` is returned. -/
theorem seg3dCode_misses_crossing :
    seg3dCode (1 / 100000000) (P3.ofInt 0 0 (-1)) (P3.ofInt 0 0 1) (P3.ofInt (-1) (-1) 0) (P3.ofInt 1 1 0) = .none ∧
    segInter3 (P3.ofInt 0 0 (-1)) (P3.ofInt 0 0 1) (P3.ofInt (-1) (-1) 0) (P3.ofInt 1 1 0) = .point (P3.ofInt 0 0 0) ∧
    seg3d (1 / 100000000) (P3.ofInt 0 0 (-1)) (P3.ofInt 0 0 1) (P3.ofInt (-1) (-1) 0) (P3.ofInt 1 1 0) = .point (P3.ofInt 0 0 0) := by
  decide +kernel

/-- F-B: colinear segments that share exactly one end point: the code returns that point twice
    (a two-column array, i.e. the kind "segment"), exact arithmetic gives one point. -/
theorem seg3dCode_doubles_touching_point :
    seg3dCode (1 / 100000000) (P3.ofInt 0 0 0) (P3.ofInt 1 1 1) (P3.ofInt 1 1 1) (P3.ofInt 2 2 2)
      = .segment (P3.ofInt 1 1 1) (P3.ofInt 1 1 1) ∧
    segInter3 (P3.ofInt 0 0 0) (P3.ofInt 1 1 1) (P3.ofInt 1 1 1) (P3.ofInt 2 2 2) = .point (P3.ofInt 1 1 1) := by
  decide +kernel


/-! ## §G  The squared-form comparisons are the sqrt comparisons of the code -/

/-- The three rewrites used in `seg2d`, proved over ℝ with `Real.sqrt` (for `tol ≥ 0` and squared
    lengths `x, y ≥ 0`):  `|a| < tol·√x·√y ⇔ a² < tol²·x·y`,  `|a| < tol·max(√x,√y) ⇔ a² < tol²·max(x,y)`,
    `|a| > tol·√x ⇔ a² > tol²·x`. -/
theorem sqrt_rewrites (a tol x y : ℝ) (ht : 0 ≤ tol) (hx : 0 ≤ x) (hy : 0 ≤ y) :
    (|a| < tol * Real.sqrt x * Real.sqrt y ↔ a * a < tol * tol * x * y) ∧
    (|a| < tol * max (Real.sqrt x) (Real.sqrt y) ↔ a * a < tol * tol * max x y) ∧
    (|a| > tol * Real.sqrt x ↔ a * a > tol * tol * x) :=
  ⟨abs_lt_tol_sqrt_sqrt_iff a tol x y ht hx hy, abs_lt_tol_max_sqrt_iff a tol x y ht hx hy,
   abs_gt_tol_sqrt_iff a tol x ht hx⟩

/-- `seg2dSqrt` (Lemmas §9) is `segments_2d` with `length_i = √(d_i·d_i)` as REAL square roots and the
    four comparisons exactly as coded; for every rational input and `tol ≥ 0` it equals the
    squared-form model `seg2d`.  (`segments_3d` contains no square root.) -/
theorem seg2d_eq_sqrt_form (tol : Rat) (h0 : 0 ≤ tol) (a b c d : P2) :
    seg2dSqrt tol a b c d = seg2d tol a b c d := seg2dSqrt_eq tol h0 a b c d

/-- non-vacuity: the sqrt form on a concrete colinear overlap -/
example : seg2dSqrt (1 / 100000000) (P2.ofInt 0 0) (P2.ofInt 4 2) (P2.ofInt 6 3) (P2.ofInt 2 1)
    = .segment (P2.ofInt 2 1) (P2.ofInt 4 2) := by
  rw [seg2d_eq_sqrt_form _ (by norm_num)]; decide +kernel

/-! ## §H  Column order of a returned segment -/

/-- 2-D convention ("the first point will be closest to start_1"): a segment returned by the
    specification is `(a + lo·(b−a), a + hi·(b−a))` with `0 ≤ lo < hi ≤ 1`. -/
theorem segInter2_segment_order (a b c d p q : P2) (h : segInter2 a b c d = .segment p q) :
    ∃ lo hi : Rat, 0 ≤ lo ∧ lo < hi ∧ hi ≤ 1 ∧
      p = ⟨a.x + lo * (b.x - a.x), a.y + lo * (b.y - a.y)⟩ ∧ q = ⟨a.x + hi * (b.x - a.x), a.y + hi * (b.y - a.y)⟩ := by
  unfold segInter2 at h
  simp only [] at h
  split_ifs at h
  unfold overlapParam at h
  simp only [] at h
  split_ifs at h with h1 h2
  have e := Res.segment.inj h
  exact ⟨_, _, le_max_right _ _, lt_of_le_of_ne (not_lt.mp h1) h2, min_le_right _ _, e.1.symm, e.2.symm⟩

/-- … hence for the model of `segments_2d` under the bound: the column order follows segment 1 (it
    reverses when the end points of segment 1 are swapped — by design, see the docstring). -/
theorem seg2d_segment_order (tol : Rat) (B : Int) (hT : TolSmall tol B)
    (ax ay bx by' cx cy dx dy : Int)
    (hax : InBox B ax) (hay : InBox B ay) (hbx : InBox B bx) (hby : InBox B by')
    (hcx : InBox B cx) (hcy : InBox B cy) (hdx : InBox B dx) (hdy : InBox B dy)
    (nd1 : bx ≠ ax ∨ by' ≠ ay) (nd2 : dx ≠ cx ∨ dy ≠ cy) (p q : P2)
    (h : seg2d tol (P2.ofInt ax ay) (P2.ofInt bx by') (P2.ofInt cx cy) (P2.ofInt dx dy) = .segment p q) :
    ∃ lo hi : Rat, 0 ≤ lo ∧ lo < hi ∧ hi ≤ 1 ∧
      p = ⟨(ax : Rat) + lo * ((bx : Rat) - ax), (ay : Rat) + lo * ((by' : Rat) - ay)⟩ ∧
      q = ⟨(ax : Rat) + hi * ((bx : Rat) - ax), (ay : Rat) + hi * ((by' : Rat) - ay)⟩ := by
  rw [seg2d_eq_spec tol B hT ax ay bx by' cx cy dx dy hax hay hbx hby hcx hcy hdx hdy nd1 nd2] at h
  exact segInter2_segment_order _ _ _ _ p q h

/-- 3-D: the (repaired = current) code returns a segment ascending in the first coordinate in which
    the segments have an extent, so under the bound the result is independent of argument order
    EXACTLY — same kind, same points, same column order. -/
theorem seg3d_order_independent (tol : Rat) (B : Int) (hT : TolSmall tol B)
    (ax ay az bx by' bz cx cy cz dx dy dz : Int)
    (hax : InBox B ax) (hay : InBox B ay) (haz : InBox B az)
    (hbx : InBox B bx) (hby : InBox B by') (hbz : InBox B bz)
    (hcx : InBox B cx) (hcy : InBox B cy) (hcz : InBox B cz)
    (hdx : InBox B dx) (hdy : InBox B dy) (hdz : InBox B dz)
    (nd1 : bx ≠ ax ∨ by' ≠ ay ∨ bz ≠ az) (nd2 : dx ≠ cx ∨ dy ≠ cy ∨ dz ≠ cz) :
    seg3d tol (P3.ofInt ax ay az) (P3.ofInt bx by' bz) (P3.ofInt cx cy cz) (P3.ofInt dx dy dz)
      = seg3d tol (P3.ofInt cx cy cz) (P3.ofInt dx dy dz) (P3.ofInt ax ay az) (P3.ofInt bx by' bz) ∧
    seg3d tol (P3.ofInt ax ay az) (P3.ofInt bx by' bz) (P3.ofInt cx cy cz) (P3.ofInt dx dy dz)
      = seg3d tol (P3.ofInt bx by' bz) (P3.ofInt ax ay az) (P3.ofInt cx cy cz) (P3.ofInt dx dy dz) ∧
    seg3d tol (P3.ofInt ax ay az) (P3.ofInt bx by' bz) (P3.ofInt cx cy cz) (P3.ofInt dx dy dz)
      = seg3d tol (P3.ofInt ax ay az) (P3.ofInt bx by' bz) (P3.ofInt dx dy dz) (P3.ofInt cx cy cz) := by
  obtain ⟨s1, s2, s3⟩ := seg3d_symmetric tol B hT ax ay az bx by' bz cx cy cz dx dy dz
    hax hay haz hbx hby hbz hcx hcy hcz hdx hdy hdz nd1 nd2
  have hB : (1:Rat) ≤ B := by exact_mod_cast hT.one_le
  have hK1 : (1:Rat) ≤ 8 * B * B := by nlinarith
  have htol1 : tol ≤ 1 := by have := hT.small; have := hT.pos; nlinarith
  refine ⟨eq_of_same_of_order s1 ?_, eq_of_same_of_order s2 ?_, eq_of_same_of_order s3 ?_⟩
  · intro p q p' q' h h'
    exact seg3d_common_order tol _ _ _ _ _ _ _ _ p q p' q' h h' (seg3d_mask_eq tol _ _ _ _ p q h)
      (gap_ofInt tol hT.pos htol1 _ _ _ _ _ _ _ _ _ _ _ _) (gap_ofInt tol hT.pos htol1 _ _ _ _ _ _ _ _ _ _ _ _)
  · intro p q p' q' h h'
    refine seg3d_common_order tol _ _ _ _ _ _ _ _ p q p' q' h h' ?_
      (gap_ofInt tol hT.pos htol1 _ _ _ _ _ _ _ _ _ _ _ _) (gap_ofInt tol hT.pos htol1 _ _ _ _ _ _ _ _ _ _ _ _)
    intro k; cases k <;> simp only [P3.get] <;> exact decide_eq_decide.mpr (by rw [rabs_sub_comm])
  · intro p q p' q' h h'
    exact seg3d_common_order tol _ _ _ _ _ _ _ _ p q p' q' h h' (fun _ => rfl)
      (gap_ofInt tol hT.pos htol1 _ _ _ _ _ _ _ _ _ _ _ _) (gap_ofInt tol hT.pos htol1 _ _ _ _ _ _ _ _ _ _ _ _)

/-- non-vacuity: a colinear overlap given with both segments reversed and swapped — identical output -/
example : seg3d (1 / 100000000) (P3.ofInt 3 (-3) 3) (P3.ofInt 0 0 0) (P3.ofInt 1 (-1) 1) (P3.ofInt 2 (-2) 2)
    = .segment (P3.ofInt 1 (-1) 1) (P3.ofInt 2 (-2) 2) ∧
  seg3d (1 / 100000000) (P3.ofInt 2 (-2) 2) (P3.ofInt 1 (-1) 1) (P3.ofInt 0 0 0) (P3.ofInt 3 (-3) 3)
    = .segment (P3.ofInt 1 (-1) 1) (P3.ofInt 2 (-2) 2) := by decide +kernel

end PorepyVerif.C28
