/-
C28 — property theorems (statements depend on Model.lean only; helper lemmas in Lemmas.lean).

Property: for two segments with integer coordinates in a bounded box, `segments_2d` / `segments_3d`
report no intersection, one point or an overlapping segment exactly as exact rational arithmetic
does, with the same points, independent of argument order.
-/
import PorepyVerif.C28.Lemmas

namespace PorepyVerif.C28

/-- the default tolerance and the box of the property: `8·1000²·1e-8 = 0.08 < 1` -/
theorem tolSmall_default : TolSmall (1 / 100000000) 1000 :=
  ⟨by decide +kernel, by decide, by decide +kernel⟩

/-- 2-D: on integer coordinates in `[-B, B]` with `8·B²·tol < 1`, the model of `segments_2d`
    (tolerances and all) returns exactly the exact-arithmetic intersection — same kind, same
    points, same column order.  The bound is used only through the gap lemmas of Lemmas §1
    (`sq_lt_tol_iff`, `sq_gt_tol_iff`, `ratio_le_tol_iff`: a non-zero integer is ≥ 1 in absolute value). -/
theorem seg2d_eq_spec (tol : Rat) (B : Int) (hT : TolSmall tol B)
    (ax ay bx by' cx cy dx dy : Int)
    (hax : InBox B ax) (hay : InBox B ay) (hbx : InBox B bx) (hby : InBox B by')
    (hcx : InBox B cx) (hcy : InBox B cy) (hdx : InBox B dx) (hdy : InBox B dy)
    (nd1 : bx ≠ ax ∨ by' ≠ ay) (nd2 : dx ≠ cx ∨ dy ≠ cy) :
    seg2d tol (P2.ofInt ax ay) (P2.ofInt bx by') (P2.ofInt cx cy) (P2.ofInt dx dy)
      = segInter2 (P2.ofInt ax ay) (P2.ofInt bx by') (P2.ofInt cx cy) (P2.ofInt dx dy) := by
  have hB : (1:Rat) ≤ B := by exact_mod_cast hT.one_le
  have h8 : (2 * ((2 * B) * (2 * B)) : Int) = 8 * B * B := by ring
  apply seg2d_core tol _ _ _ _ (bx - ax) (by' - ay) (dx - cx) (dy - cy) (cx - ax) (cy - ay) (8 * B * B)
  · simp only [P2.ofInt]; push_cast; ring
  · simp only [P2.ofInt]; push_cast; ring
  · simp only [P2.ofInt]; push_cast; ring
  · simp only [P2.ofInt]; push_cast; ring
  · simp only [P2.ofInt]; push_cast; ring
  · simp only [P2.ofInt]; push_cast; ring
  · exact hT.pos
  · exact hT.small
  · nlinarith
  · have := sq_sum_le (box_diff hax hbx) (box_diff hay hby)
    rw [h8] at this; exact_mod_cast this
  · have := sq_sum_le (box_diff hcx hdx) (box_diff hcy hdy)
    rw [h8] at this; exact_mod_cast this
  · have := abs_det_le (box_diff hax hbx) (box_diff hay hby) (box_diff hcx hdx) (box_diff hcy hdy)
    rw [h8] at this; exact_mod_cast this
  · rcases nd1 with h | h
    · left; omega
    · right; omega
  · rcases nd2 with h | h
    · left; omega
    · right; omega

/-- non-vacuity: a T-touching pair at coordinates near the edge of the box -/
example : seg2d (1 / 100000000) (P2.ofInt (-1000) 0) (P2.ofInt 1000 0) (P2.ofInt 999 0) (P2.ofInt 999 1000)
    = .point (P2.ofInt 999 0) := by decide +kernel

/-- 3-D: on integer coordinates in `[-B, B]` with `8·B²·tol < 1`, the model of `segments_3d` (with the
    repairs R1, R2 of Model.lean) returns the exact-arithmetic intersection: same kind, same points
    (a segment as an unordered pair: the code returns the two middle points in `argsort` order).
    Branch selection is exact (non-parallel ⇔ some 2×2 minor ≠ 0 ⇔ the chosen minor is ≥ tol;
    colinear ⇔ ds × d1 = 0), the consistency test in the third coordinate is exact, and the
    touching test is exact — all through the gap lemmas of Lemmas §1. -/
theorem seg3d_eq_spec (tol : Rat) (B : Int) (hT : TolSmall tol B)
    (ax ay az bx by' bz cx cy cz dx dy dz : Int)
    (hax : InBox B ax) (hay : InBox B ay) (haz : InBox B az)
    (hbx : InBox B bx) (hby : InBox B by') (hbz : InBox B bz)
    (hcx : InBox B cx) (hcy : InBox B cy) (hcz : InBox B cz)
    (hdx : InBox B dx) (hdy : InBox B dy) (hdz : InBox B dz)
    (nd1 : bx ≠ ax ∨ by' ≠ ay ∨ bz ≠ az) (nd2 : dx ≠ cx ∨ dy ≠ cy ∨ dz ≠ cz) :
    Res.same (seg3d tol (P3.ofInt ax ay az) (P3.ofInt bx by' bz) (P3.ofInt cx cy cz) (P3.ofInt dx dy dz))
      (segInter3 (P3.ofInt ax ay az) (P3.ofInt bx by' bz) (P3.ofInt cx cy cz) (P3.ofInt dx dy dz)) := by
  have hB : (1:Rat) ≤ B := by exact_mod_cast hT.one_le
  have hK1 : (1:Rat) ≤ 8 * B * B := by nlinarith
  have htol1 : tol < 1 := by have := hT.small; have := hT.pos; nlinarith
  have h8 : (2 * ((2 * B) * (2 * B)) : Int) = 8 * B * B := by ring
  have bxy := abs_det_le (box_diff hax hbx) (box_diff hay hby) (box_diff hcx hdx) (box_diff hcy hdy)
  have bxz := abs_det_le (box_diff hax hbx) (box_diff haz hbz) (box_diff hcx hdx) (box_diff hcz hdz)
  have byz := abs_det_le (box_diff hay hby) (box_diff haz hbz) (box_diff hcy hdy) (box_diff hcz hdz)
  rw [h8] at bxy bxz byz
  by_cases hnp : (bx - ax) * (dy - cy) - (by' - ay) * (dx - cx) ≠ 0 ∨
      (bx - ax) * (dz - cz) - (bz - az) * (dx - cx) ≠ 0 ∨ (by' - ay) * (dz - cz) - (bz - az) * (dy - cy) ≠ 0
  · apply Res.same_of_eq
    apply seg3d_cross_core tol _ _ _ _ (bx - ax) (by' - ay) (bz - az) (dx - cx) (dy - cy) (dz - cz)
      (cx - ax) (cy - ay) (cz - az) (8 * B * B)
    · simp only [P3.ofInt]; push_cast; ring
    · simp only [P3.ofInt]; push_cast; ring
    · simp only [P3.ofInt]; push_cast; ring
    · simp only [P3.ofInt]; push_cast; ring
    · simp only [P3.ofInt]; push_cast; ring
    · simp only [P3.ofInt]; push_cast; ring
    · simp only [P3.ofInt]; push_cast; ring
    · simp only [P3.ofInt]; push_cast; ring
    · simp only [P3.ofInt]; push_cast; ring
    · exact hT.pos
    · exact hT.small
    · exact hK1
    · exact_mod_cast bxy
    · exact_mod_cast bxz
    · exact_mod_cast byz
    · exact hnp
  · have h1 : (bx - ax) * (dy - cy) - (by' - ay) * (dx - cx) = 0 := by
      by_contra h; exact hnp (Or.inl h)
    have h2 : (bx - ax) * (dz - cz) - (bz - az) * (dx - cx) = 0 := by
      by_contra h; exact hnp (Or.inr (Or.inl h))
    have h3 : (by' - ay) * (dz - cz) - (bz - az) * (dy - cy) = 0 := by
      by_contra h; exact hnp (Or.inr (Or.inr h))
    have q1 : ((bx:Rat) - ax) * (dy - cy) - (by' - ay) * (dx - cx) = 0 := by exact_mod_cast h1
    have q2 : ((bx:Rat) - ax) * (dz - cz) - (bz - az) * (dx - cx) = 0 := by exact_mod_cast h2
    have q3 : ((by':Rat) - ay) * (dz - cz) - (bz - az) * (dy - cy) = 0 := by exact_mod_cast h3
    rw [seg3d_eq_par tol _ _ _ _ hT.pos (by simp only [minor, P3.ofInt, Dims.i, Dims.j, P3.get]; exact q1)
      (by simp only [minor, P3.ofInt, Dims.i, Dims.j, P3.get]; exact q2)
      (by simp only [minor, P3.ofInt, Dims.i, Dims.j, P3.get]; exact q3)]
    apply par3d_same_core tol _ _ _ _ (le_of_lt hT.pos)
    · intro k; cases k <;> simp only [P3.get, P3.ofInt]
      · exact rabs_gt_iff_of_int _ (bx - ax) (by push_cast; ring) tol (le_of_lt hT.pos) htol1
      · exact rabs_gt_iff_of_int _ (by' - ay) (by push_cast; ring) tol (le_of_lt hT.pos) htol1
      · exact rabs_gt_iff_of_int _ (bz - az) (by push_cast; ring) tol (le_of_lt hT.pos) htol1
    · intro k; cases k <;> simp only [P3.get, P3.ofInt]
      · exact rabs_gt_iff_of_int _ (dx - cx) (by push_cast; ring) tol (le_of_lt hT.pos) htol1
      · exact rabs_gt_iff_of_int _ (dy - cy) (by push_cast; ring) tol (le_of_lt hT.pos) htol1
      · exact rabs_gt_iff_of_int _ (dz - cz) (by push_cast; ring) tol (le_of_lt hT.pos) htol1
    · exact rabs_gt_iff_of_int _ ((cy - ay) * (bz - az) - (cz - az) * (by' - ay)) (by simp only [P3.ofInt]; push_cast; ring) tol (le_of_lt hT.pos) htol1
    · exact rabs_gt_iff_of_int _ ((cz - az) * (bx - ax) - (cx - ax) * (bz - az)) (by simp only [P3.ofInt]; push_cast; ring) tol (le_of_lt hT.pos) htol1
    · exact rabs_gt_iff_of_int _ ((cx - ax) * (by' - ay) - (cy - ay) * (bx - ax)) (by simp only [P3.ofInt]; push_cast; ring) tol (le_of_lt hT.pos) htol1
    · intro k i j
      have : ∃ m : Int, col4 ((P3.ofInt ax ay az).get k) ((P3.ofInt bx by' bz).get k) ((P3.ofInt cx cy cz).get k)
          ((P3.ofInt dx dy dz).get k) i - col4 ((P3.ofInt ax ay az).get k) ((P3.ofInt bx by' bz).get k)
          ((P3.ofInt cx cy cz).get k) ((P3.ofInt dx dy dz).get k) j = m := by
        cases k <;> simp only [P3.get, P3.ofInt]
        · exact col4_diff_int _ _ _ _ (bx - ax) (cx - ax) (dx - cx) (by push_cast; ring) (by push_cast; ring) (by push_cast; ring) i j
        · exact col4_diff_int _ _ _ _ (by' - ay) (cy - ay) (dy - cy) (by push_cast; ring) (by push_cast; ring) (by push_cast; ring) i j
        · exact col4_diff_int _ _ _ _ (bz - az) (cz - az) (dz - cz) (by push_cast; ring) (by push_cast; ring) (by push_cast; ring) i j
      obtain ⟨m, hm⟩ := this
      rw [rabs_lt_iff_of_int _ m hm tol hT.pos (le_of_lt htol1), sub_eq_zero]
    · simp only [P3.ofInt]; exact q1
    · simp only [P3.ofInt]; exact q2
    · simp only [P3.ofInt]; exact q3
    · simp only [P3.ofInt]
      rcases nd1 with h | h | h
      · left; exact_mod_cast sub_ne_zero.mpr h
      · right; left; exact_mod_cast sub_ne_zero.mpr h
      · right; right; exact_mod_cast sub_ne_zero.mpr h
    · simp only [P3.ofInt]
      rcases nd2 with h | h | h
      · left; exact_mod_cast sub_ne_zero.mpr h
      · right; left; exact_mod_cast sub_ne_zero.mpr h
      · right; right; exact_mod_cast sub_ne_zero.mpr h

/-- non-vacuity (3-D): a crossing through a point with fractional coordinates, a colinear overlap and a
    colinear end-to-end pair -/
example : seg3d (1 / 100000000) (P3.ofInt 0 0 0) (P3.ofInt 2 2 1) (P3.ofInt 0 2 0) (P3.ofInt 2 0 1)
    = .point ⟨1, 1, 1 / 2⟩ := by decide +kernel
example : seg3d (1 / 100000000) (P3.ofInt 0 0 0) (P3.ofInt 3 3 3) (P3.ofInt 2 2 2) (P3.ofInt 1 1 1)
    = .segment (P3.ofInt 1 1 1) (P3.ofInt 2 2 2) := by decide +kernel
example : seg3d (1 / 100000000) (P3.ofInt 0 0 0) (P3.ofInt 1 1 1) (P3.ofInt 1 1 1) (P3.ofInt 2 2 2)
    = .point (P3.ofInt 1 1 1) := by decide +kernel

/-! ### The two findings: `segments_3d` as it is coded (`seg3dCode`) does NOT satisfy the property -/

/-- F-A: a vertical segment crossing a diagonal horizontal one in the origin.  The code picks the
    coordinate pair (x, y) because both have an extent in one of the lines; the (x, y)-minor of the
    directions (0,0,2), (2,2,0) vanishes, the pair is treated as parallel and `None` is returned. -/
theorem seg3dCode_misses_crossing :
    seg3dCode (1 / 100000000) (P3.ofInt 0 0 (-1)) (P3.ofInt 0 0 1) (P3.ofInt (-1) (-1) 0) (P3.ofInt 1 1 0) = .none ∧
    segInter3 (P3.ofInt 0 0 (-1)) (P3.ofInt 0 0 1) (P3.ofInt (-1) (-1) 0) (P3.ofInt 1 1 0) = .point (P3.ofInt 0 0 0) ∧
    seg3d (1 / 100000000) (P3.ofInt 0 0 (-1)) (P3.ofInt 0 0 1) (P3.ofInt (-1) (-1) 0) (P3.ofInt 1 1 0) = .point (P3.ofInt 0 0 0) := by
  decide +kernel

/-- F-B: colinear segments that share exactly one end point: the code returns that point twice
    (a two-column array, i.e. the kind "segment"), exact arithmetic gives one point. -/
theorem seg3dCode_doubles_touching_point :
    seg3dCode (1 / 100000000) (P3.ofInt 0 0 0) (P3.ofInt 1 1 1) (P3.ofInt 1 1 1) (P3.ofInt 2 2 2)
      = .segment (P3.ofInt 1 1 1) (P3.ofInt 1 1 1) ∧
    segInter3 (P3.ofInt 0 0 0) (P3.ofInt 1 1 1) (P3.ofInt 1 1 1) (P3.ofInt 2 2 2) = .point (P3.ofInt 1 1 1) := by
  decide +kernel

end PorepyVerif.C28
