/-
C28 — property theorems (statements depend on Model.lean only; helper lemmas in Lemmas.lean).

Property: for two segments with integer coordinates in a bounded box, `segments_2d` / `segments_3d`
report no intersection, one point or an overlapping segment exactly as exact rational arithmetic
does, with the same points, independent of argument order.
-/
import PorepyVerif.C28.Lemmas

namespace PorepyVerif.C28

/-- the default tolerance and the box of the property: `8·1000²·1e-8 = 0.08 < 1` -/
theorem tolSmall_default : TolSmall (1 / 100000000) 1000 :=
  ⟨by decide +kernel, by decide, by decide +kernel⟩

/-- 2-D: on integer coordinates in `[-B, B]` with `8·B²·tol < 1`, the model of `segments_2d`
    (tolerances and all) returns exactly the exact-arithmetic intersection — same kind, same
    points, same column order.  The bound is used only through the gap lemmas of Lemmas §1
    (`sq_lt_tol_iff`, `sq_gt_tol_iff`, `ratio_le_tol_iff`: a non-zero integer is ≥ 1 in absolute value). -/
theorem seg2d_eq_spec (tol : Rat) (B : Int) (hT : TolSmall tol B)
    (ax ay bx by' cx cy dx dy : Int)
    (hax : InBox B ax) (hay : InBox B ay) (hbx : InBox B bx) (hby : InBox B by')
    (hcx : InBox B cx) (hcy : InBox B cy) (hdx : InBox B dx) (hdy : InBox B dy)
    (nd1 : bx ≠ ax ∨ by' ≠ ay) (nd2 : dx ≠ cx ∨ dy ≠ cy) :
    seg2d tol (P2.ofInt ax ay) (P2.ofInt bx by') (P2.ofInt cx cy) (P2.ofInt dx dy)
      = segInter2 (P2.ofInt ax ay) (P2.ofInt bx by') (P2.ofInt cx cy) (P2.ofInt dx dy) := by
  have hB : (1:Rat) ≤ B := by exact_mod_cast hT.one_le
  have h8 : (2 * ((2 * B) * (2 * B)) : Int) = 8 * B * B := by ring
  apply seg2d_core tol _ _ _ _ (bx - ax) (by' - ay) (dx - cx) (dy - cy) (cx - ax) (cy - ay) (8 * B * B)
  · simp only [P2.ofInt]; push_cast; ring
  · simp only [P2.ofInt]; push_cast; ring
  · simp only [P2.ofInt]; push_cast; ring
  · simp only [P2.ofInt]; push_cast; ring
  · simp only [P2.ofInt]; push_cast; ring
  · simp only [P2.ofInt]; push_cast; ring
  · exact hT.pos
  · exact hT.small
  · nlinarith
  · have := sq_sum_le (box_diff hax hbx) (box_diff hay hby)
    rw [h8] at this; exact_mod_cast this
  · have := sq_sum_le (box_diff hcx hdx) (box_diff hcy hdy)
    rw [h8] at this; exact_mod_cast this
  · have := abs_det_le (box_diff hax hbx) (box_diff hay hby) (box_diff hcx hdx) (box_diff hcy hdy)
    rw [h8] at this; exact_mod_cast this
  · rcases nd1 with h | h
    · left; omega
    · right; omega
  · rcases nd2 with h | h
    · left; omega
    · right; omega

/-- non-vacuity: a T-touching pair at coordinates near the edge of the box -/
example : seg2d (1 / 100000000) (P2.ofInt (-1000) 0) (P2.ofInt 1000 0) (P2.ofInt 999 0) (P2.ofInt 999 1000)
    = .point (P2.ofInt 999 0) := by decide +kernel

end PorepyVerif.C28
