/-
C28 — executable model of `porepy.geometry.intersections.segments_2d` and `segments_3d`
(core Lean only), and the exact specification `segInter2` / `segInter3`.

Numbers are rationals and `tol` is a parameter.  No square root enters the model: wherever the
code compares against a length, the comparison is modelled in SQUARED form; every such rewrite is
documented next to the definition (valid for `0 ≤ tol`, which the theorems assume).

Both functions are modelled as they are coded NOW.  Two defects of `segments_3d` found by this
property were repaired in /repo (fixes/C28-*.diff, recorded as `fixed:` in known_findings.json):
  (R1) the pair of coordinates of the 2×2 system is the first pair whose minor is not below `tol`
       (before: the first pair in which one of the lines merely has an extent; its minor can vanish
       for non-parallel lines, which were then reported as not intersecting);
  (R2) colinear segments that touch in one point give ONE point (before: that point twice).
`Dims.pick` / `touchAsPoint true` are the current code; `Dims.pickCode` / `touchAsPoint false` = the code
before the repairs, kept only as `seg3dCode` for the `decide`-witnesses of the defects in Props.lean §F
(and the driver op `seg3d_code`).

The squared-form rewrites are not only documented here: Lemmas §9 proves each of them over ℝ with
`Real.sqrt`, and Props.seg2d_eq_sqrt_form shows that `seg2d` equals the sqrt form of the code.

Degenerate (zero-length) segments, as the code treats them (modelled, compared with the code,
excluded from the specification theorems):
  2-D: `discr = 0` and `0 < tol·0·len` is false, so the Cramer branch divides by zero; every
       resulting nan/inf fails `assert np.allclose(...)`: AssertionError (not the documented ValueError).
  3-D: one zero-length segment: masks differ -> `None` (even if the point lies on the other segment);
       two zero-length segments: `None` if the points differ, IndexError (`start_1[mask_1][0]` on an
       empty selection) if they coincide.
-/
namespace PorepyVerif.C28

structure P2 where
  x : Rat
  y : Rat
deriving DecidableEq, Repr

structure P3 where
  x : Rat
  y : Rat
  z : Rat
deriving DecidableEq, Repr

inductive Err where
  | assertion   -- AssertionError
  | value       -- ValueError
  | index       -- IndexError
deriving DecidableEq, Repr

/-- result of an intersection: `None`, a `(nd,1)` array, a `(nd,2)` array, or an exception -/
inductive Res (α : Type) where
  | none
  | point (p : α)
  | segment (p q : α)
  | err (e : Err)
deriving DecidableEq, Repr

/-- equality of results as point sets of the same kind (a segment is an unordered pair) -/
def Res.same {α : Type} : Res α → Res α → Prop
  | .none, .none => True
  | .point p, .point q => p = q
  | .segment p q, .segment p' q' => (p = p' ∧ q = q') ∨ (p = q' ∧ q = p')
  | .err e, .err e' => e = e'
  | _, _ => False

def rabs (a : Rat) : Rat := if a < 0 then -a else a

/-! ## `segments_2d` -/

/-- The colinear tail of `segments_2d`: `ts`, `te` are the parameters of `start_2`, `end_2` on
    line 1 (`start_1 + t·d_1`); returns `None`, the shared point, or the overlap (ordered along `d_1`). -/
def overlap2 (tol : Rat) (a : P2) (d1x d1y ts te : Rat) : Res P2 :=
  if ts < 0 ∧ te < 0 then .none
  else if ts > 1 ∧ te > 1 then .none
  else
    let tmin := max (min ts te) 0
    let tmax := min (max ts te) 1
    if tmax - tmin < tol then .point ⟨a.x + d1x * tmin, a.y + d1y * tmin⟩
    else .segment ⟨a.x + d1x * tmin, a.y + d1y * tmin⟩ ⟨a.x + d1x * tmax, a.y + d1y * tmax⟩

/-- `segments_2d(start_1 = a, end_1 = b, start_2 = c, end_2 = d, tol)`.
    `l1`, `l2` are the SQUARED lengths (`length_i = √l_i`). -/
def seg2d (tol : Rat) (a b c d : P2) : Res P2 :=
  let d1x := b.x - a.x
  let d1y := b.y - a.y
  let d2x := d.x - c.x
  let d2y := d.y - c.y
  let l1 := d1x * d1x + d1y * d1y
  let l2 := d2x * d2x + d2y * d2y
  let dsx := c.x - a.x
  let dsy := c.y - a.y
  let discr := d1x * (-d2y) - d1y * (-d2x)
  -- code: |discr| < tol·length_1·length_2.   Squared form: both sides are ≥ 0 (tol ≥ 0), so
  --       |discr| < tol·√l1·√l2  ⇔  discr² < tol²·l1·l2.
  if discr * discr < tol * tol * l1 * l2 then
    let scl := dsx * d1y - dsy * d1x
    -- code: |scl| < tol·max(length_1, length_2).   max(√l1,√l2) = √(max l1 l2), both sides ≥ 0:
    --       ⇔  scl² < tol²·max(l1, l2).
    if scl * scl < tol * tol * max l1 l2 then
      -- code: |d_1[0]| > tol·length_1   ⇔  d_1[0]² > tol²·l1   (both sides ≥ 0)
      if d1x * d1x > tol * tol * l1 then
        overlap2 tol a d1x d1y ((c.x - a.x) / d1x) ((d.x - a.x) / d1x)
      -- code: |d_1[1]| > tol·length_2  (sic: length_2)   ⇔  d_1[1]² > tol²·l2
      else if d1y * d1y > tol * tol * l2 then
        overlap2 tol a d1x d1y ((c.y - a.y) / d1y) ((d.y - a.y) / d1y)
      else .err .value
    else .none
  -- float: division by an exactly zero `discr` gives nan/±inf, `start + t·d` then contains a nan
  -- whenever this branch is reached with tol > 0 (one of the segments has zero length), and
  -- `assert np.allclose(isect_1, isect_2, tol)` fails.
  else if discr = 0 then .err .assertion
  else
    let t1 := (dsx * (-d2y) - dsy * (-d2x)) / discr
    let t2 := (d1x * dsy - d1y * dsx) / discr
    -- `assert np.allclose(isect_1, isect_2, tol)`: in exact arithmetic isect_1 = isect_2
    -- (Lemmas.isect_agree), so the assertion never fires and is not part of the model.
    if t1 ≥ -tol ∧ t1 ≤ 1 + tol ∧ t2 ≥ -tol ∧ t2 ≤ 1 + tol then
      .point ⟨a.x + t1 * d1x, a.y + t1 * d1y⟩
    else .none

/-! ## `segments_3d` -/

inductive Ax where
  | x | y | z
deriving DecidableEq, Repr

def P3.get (p : P3) : Ax → Rat
  | .x => p.x
  | .y => p.y
  | .z => p.z

/-- `in_discr = [i, j]`, `not_in_discr = k` -/
inductive Dims where
  | xy | xz | yz
deriving DecidableEq, Repr

def Dims.i : Dims → Ax
  | .xy => .x | .xz => .x | .yz => .y
def Dims.j : Dims → Ax
  | .xy => .y | .xz => .z | .yz => .z
def Dims.k : Dims → Ax
  | .xy => .z | .xz => .y | .yz => .x

/-- `deltas_1[i]*deltas_2[j] - deltas_1[j]*deltas_2[i]` -/
def minor (d1 d2 : P3) (m : Dims) : Rat := d1.get m.i * d2.get m.j - d1.get m.j * d2.get m.i

/-- (R1, current rule: the `for dims, other in …` loop) the first coordinate pair whose minor is not
    below `tol`; `[0,1]` if none. -/
def Dims.pick (tol : Rat) (d1 d2 : P3) : Dims :=
  if ¬ rabs (minor d1 d2 .xy) < tol then .xy
  else if ¬ rabs (minor d1 d2 .xz) < tol then .xz
  else if ¬ rabs (minor d1 d2 .yz) < tol then .yz
  else .xy

/-- the rule of the code before R1: `mask_sum = mask_1 + mask_2` (logical or), first pair of
    coordinates in which some line has an extent, `[0,1]` if fewer than two such coordinates. -/
def Dims.pickCode (tol : Rat) (d1 d2 : P3) : Dims :=
  let mx := decide (rabs d1.x > tol) || decide (rabs d2.x > tol)
  let my := decide (rabs d1.y > tol) || decide (rabs d2.y > tol)
  let mz := decide (rabs d1.z > tol) || decide (rabs d2.z > tol)
  if (if mx then 1 else 0) + (if my then 1 else 0) + (if mz then 1 else 0) > 1 then
    if mx && my then .xy else if mx && mz then .xz else .yz
  else .xy

/-- numpy's default `atol` of `np.allclose` -/
def atol : Rat := 1 / 100000000

/-- `np.allclose(u, v, rtol)` for one entry: `|u - v| ≤ atol + rtol·|v|` -/
def close1 (rtol u v : Rat) : Bool := decide (rabs (u - v) ≤ atol + rtol * rabs v)

/-- stable insertion into a list sorted by value (numpy sorts arrays of length ≤ 16 by insertion
    sort, which is stable) -/
def insertV (x : Rat × Nat) : List (Rat × Nat) → List (Rat × Nat)
  | [] => [x]
  | y :: l => if x.1 < y.1 then x :: y :: l else y :: insertV x l

def sortV : List (Rat × Nat) → List (Rat × Nat)
  | [] => []
  | x :: l => insertV x (sortV l)

/-- `np.argsort([s_1, e_1, s_2, e_2])[1:3]`.  (`sortV` inserts from the right, so equal values keep
    their original order exactly as in a left-to-right stable sort.) -/
def argsortMid (s1 e1 s2 e2 : Rat) : Nat × Nat :=
  match sortV [(s1, 0), (e1, 1), (s2, 2), (e2, 3)] with
  | [_, p, q, _] => (p.2, q.2)
  | _ => (0, 0)

/-- column `n` of `lines_full = [start_1, end_1, start_2, end_2]` -/
def col4 {α : Type} (a b c d : α) : Nat → α
  | 0 => a
  | 1 => b
  | 2 => c
  | _ => d

/-- `t.size == 2 and |t0-t1| > tol` / `t.size == 3 and (|t0-t1| > tol or |t0-t2| > tol)` -/
def ratiosDiffer (tol : Rat) : List Rat → Bool
  | [t0, t1] => decide (rabs (t0 - t1) > tol)
  | [t0, t1, t2] => decide (rabs (t0 - t1) > tol) || decide (rabs (t0 - t2) > tol)
  | _ => false

/-- (R2) the two middle points coincide: a single shared point.
    `touch = false` reproduces the code before R2 (always two columns). -/
def touchAsPoint (touch : Bool) (tol v0 v1 : Rat) : Bool := touch && decide (rabs (v0 - v1) < tol)

/-- the end of the parallel branch: the segments lie on one line; "since everything is parallel, it
    suffices to work with a single coordinate" `ax` (the first one with an extent) -/
def overlap3 (touch : Bool) (tol : Rat) (a b c d : P3) (ax : Ax) : Res P3 :=
  let s1 := a.get ax
  let e1 := b.get ax
  let s2 := c.get ax
  let e2 := d.get ax
  if max s1 e1 < min s2 e2 then .none
  else if max s2 e2 < min s1 e1 then .none
  else
    let tg := argsortMid s1 e1 s2 e2
    if touchAsPoint touch tol (col4 s1 e1 s2 e2 tg.1) (col4 s1 e1 s2 e2 tg.2)
    then .point (col4 a b c d tg.1)
    else .segment (col4 a b c d tg.1) (col4 a b c d tg.2)

/-- the branch `abs(discr) < tol` of `segments_3d` (parallel lines) -/
def par3d (touch : Bool) (tol : Rat) (a b c d : P3) : Res P3 :=
  let d1 : P3 := ⟨b.x - a.x, b.y - a.y, b.z - a.z⟩
  let d2 : P3 := ⟨d.x - c.x, d.y - c.y, d.z - c.z⟩
  let m1 : Ax → Bool := fun ax => decide (rabs (d1.get ax) > tol)
  let m2 : Ax → Bool := fun ax => decide (rabs (d2.get ax) > tol)
  -- `np.any(mask_1 != mask_2)`
  if m1 .x ≠ m2 .x ∨ m1 .y ≠ m2 .y ∨ m1 .z ≠ m2 .z then .none
  else
    let sel := [Ax.x, Ax.y, Ax.z].filter m1
    let t := sel.map (fun ax => d1.get ax / d2.get ax)
    if ratiosDiffer tol t then .none
    else
      let ds : P3 := ⟨c.x - a.x, c.y - a.y, c.z - a.z⟩
      if rabs (ds.y * d1.z - ds.z * d1.y) > tol then .none
      else if rabs (ds.z * d1.x - ds.x * d1.z) > tol then .none
      else if rabs (ds.x * d1.y - ds.y * d1.x) > tol then .none
      -- `not np.allclose(start_1[~mask_1], start_2[~mask_1], tol)`  (rtol = tol, default atol)
      else if ¬ ([Ax.x, Ax.y, Ax.z].all (fun ax => m1 ax || close1 tol (a.get ax) (c.get ax))) then .none
      else
        match sel with
        | [] => .err .index        -- `start_1[mask_1][0]` on an empty selection
        | ax :: _ => overlap3 touch tol a b c d ax

/-- the branch `abs(discr) ≥ tol` of `segments_3d` (Cramer's rule in the coordinates `m.i`, `m.j`,
    consistency check in `m.k`) -/
def cross3d (tol : Rat) (m : Dims) (a b c d : P3) : Res P3 :=
  let d1 : P3 := ⟨b.x - a.x, b.y - a.y, b.z - a.z⟩
  let d2 : P3 := ⟨d.x - c.x, d.y - c.y, d.z - c.z⟩
  let discr := d1.get m.i * (-d2.get m.j) - d1.get m.j * (-d2.get m.i)
  let t1 := ((c.get m.i - a.get m.i) * (-d2.get m.j) - (c.get m.j - a.get m.j) * (-d2.get m.i)) / discr
  let t2 := (d1.get m.i * (c.get m.j - a.get m.j) - d1.get m.j * (c.get m.i - a.get m.i)) / discr
  if t1 < 0 ∨ t1 > 1 ∨ t2 < 0 ∨ t2 > 1 then .none
  else
    let z1 := a.get m.k + t1 * d1.get m.k
    let z2 := c.get m.k + t2 * d2.get m.k
    -- vec[in_discr] = start_1[in_discr] + t_1·deltas_1[in_discr]; vec[not_in_discr] = z_1_isect:
    -- all three coordinates are start_1 + t_1·deltas_1
    if rabs (z1 - z2) < tol then .point ⟨a.x + t1 * d1.x, a.y + t1 * d1.y, a.z + t1 * d1.z⟩
    else .none

/-- `segments_3d` with the coordinate-pair rule and the touching rule as parameters -/
def seg3dWith (pick : Rat → P3 → P3 → Dims) (touch : Bool) (tol : Rat) (a b c d : P3) : Res P3 :=
  let d1 : P3 := ⟨b.x - a.x, b.y - a.y, b.z - a.z⟩
  let d2 : P3 := ⟨d.x - c.x, d.y - c.y, d.z - c.z⟩
  let m := pick tol d1 d2
  if rabs (minor d1 d2 m) < tol then par3d touch tol a b c d else cross3d tol m a b c d

/-- `segments_3d(start_1 = a, end_1 = b, start_2 = c, end_2 = d, tol)` as it is coded now (with R1, R2) -/
def seg3d (tol : Rat) (a b c d : P3) : Res P3 := seg3dWith Dims.pick true tol a b c d

/-- `segments_3d` as it was coded before R1, R2 (misses crossings, doubles a touching point) -/
def seg3dCode (tol : Rat) (a b c d : P3) : Res P3 := seg3dWith Dims.pickCode false tol a b c d

/-! ## Specification: exact intersection of two non-degenerate segments

`segInter2 a b c d` / `segInter3 a b c d` = the set `[a,b] ∩ [c,d]` classified as empty / one point /
a segment, by exact case analysis (Props.mem_segInter2_iff / mem_segInter3_iff prove that the
points of the result are exactly the common points of the two segments). -/

/-- interval overlap on the parameter of line 1: `[0,1] ∩ [min ts te, max ts te]`, as
    `none` / one parameter / two parameters `lo < hi` -/
def overlapParam {α : Type} (at' : Rat → α) (ts te : Rat) : Res α :=
  let lo := max (min ts te) 0
  let hi := min (max ts te) 1
  if hi < lo then .none
  else if lo = hi then .point (at' lo)
  else .segment (at' lo) (at' hi)

def segInter2 (a b c d : P2) : Res P2 :=
  let d1x := b.x - a.x
  let d1y := b.y - a.y
  let d2x := d.x - c.x
  let d2y := d.y - c.y
  let dsx := c.x - a.x
  let dsy := c.y - a.y
  let det := d1x * d2y - d1y * d2x          -- d1 × d2
  if det ≠ 0 then
    -- unique solution of a + t1·d1 = c + t2·d2
    let t1 := (dsx * d2y - dsy * d2x) / det
    let t2 := (dsx * d1y - dsy * d1x) / det
    if 0 ≤ t1 ∧ t1 ≤ 1 ∧ 0 ≤ t2 ∧ t2 ≤ 1 then .point ⟨a.x + t1 * d1x, a.y + t1 * d1y⟩ else .none
  else if dsx * d1y - dsy * d1x ≠ 0 then .none   -- parallel, c not on line 1
  else
    -- colinear: parameter of a point p of line 1 is (p - a)·d1 / d1·d1
    let n1 := d1x * d1x + d1y * d1y
    let ts := (dsx * d1x + dsy * d1y) / n1
    let te := ((d.x - a.x) * d1x + (d.y - a.y) * d1y) / n1
    overlapParam (fun t => (⟨a.x + t * d1x, a.y + t * d1y⟩ : P2)) ts te

def segInter3 (a b c d : P3) : Res P3 :=
  let d1x := b.x - a.x
  let d1y := b.y - a.y
  let d1z := b.z - a.z
  let d2x := d.x - c.x
  let d2y := d.y - c.y
  let d2z := d.z - c.z
  let dsx := c.x - a.x
  let dsy := c.y - a.y
  let dsz := c.z - a.z
  -- n = d1 × d2
  let nx := d1y * d2z - d1z * d2y
  let ny := d1z * d2x - d1x * d2z
  let nz := d1x * d2y - d1y * d2x
  if nx ≠ 0 ∨ ny ≠ 0 ∨ nz ≠ 0 then
    if dsx * nx + dsy * ny + dsz * nz ≠ 0 then .none     -- skew lines
    else
      let nn := nx * nx + ny * ny + nz * nz
      -- t1 = (ds × d2)·n / n·n,  t2 = (ds × d1)·n / n·n
      let t1 := ((dsy * d2z - dsz * d2y) * nx + (dsz * d2x - dsx * d2z) * ny + (dsx * d2y - dsy * d2x) * nz) / nn
      let t2 := ((dsy * d1z - dsz * d1y) * nx + (dsz * d1x - dsx * d1z) * ny + (dsx * d1y - dsy * d1x) * nz) / nn
      if 0 ≤ t1 ∧ t1 ≤ 1 ∧ 0 ≤ t2 ∧ t2 ≤ 1 then .point ⟨a.x + t1 * d1x, a.y + t1 * d1y, a.z + t1 * d1z⟩
      else .none
  else if dsy * d1z - dsz * d1y ≠ 0 ∨ dsz * d1x - dsx * d1z ≠ 0 ∨ dsx * d1y - dsy * d1x ≠ 0 then .none
  else
    let n1 := d1x * d1x + d1y * d1y + d1z * d1z
    let ts := (dsx * d1x + dsy * d1y + dsz * d1z) / n1
    let te := ((d.x - a.x) * d1x + (d.y - a.y) * d1y + (d.z - a.z) * d1z) / n1
    overlapParam (fun t => (⟨a.x + t * d1x, a.y + t * d1y, a.z + t * d1z⟩ : P3)) ts te

/-! ## Hypotheses of the specification theorems (bounded integer coordinates, small tolerance) -/

/-- the tolerance is small relative to the box `[-B, B]`: `8·B²·tol < 1`
    (e.g. `B = 1000`, `tol = 1e-8`: `8·10⁶·10⁻⁸ = 0.08`).  `8·B²` bounds every squared length and every
    determinant of coordinate differences. -/
structure TolSmall (tol : Rat) (B : Int) : Prop where
  pos : 0 < tol
  one_le : 1 ≤ B
  small : tol * (8 * (B : Rat) * (B : Rat)) < 1

def InBox (B : Int) (x : Int) : Prop := -B ≤ x ∧ x ≤ B

/-- point with integer coordinates -/
def P2.ofInt (x y : Int) : P2 := ⟨(x : Rat), (y : Rat)⟩
def P3.ofInt (x y z : Int) : P3 := ⟨(x : Rat), (y : Rat), (z : Rat)⟩

/-! ## Point sets (meaning of a result, used to state soundness of the specification) -/

/-- `p` lies on the closed segment `[a, b]` -/
def OnSeg2 (p a b : P2) : Prop := ∃ t : Rat, 0 ≤ t ∧ t ≤ 1 ∧ p.x = a.x + t * (b.x - a.x) ∧ p.y = a.y + t * (b.y - a.y)
def OnSeg3 (p a b : P3) : Prop :=
  ∃ t : Rat, 0 ≤ t ∧ t ≤ 1 ∧ p.x = a.x + t * (b.x - a.x) ∧ p.y = a.y + t * (b.y - a.y) ∧ p.z = a.z + t * (b.z - a.z)

/-- the points of a 2-D result -/
def Res.Mem2 (p : P2) : Res P2 → Prop
  | .none => False
  | .point q => p = q
  | .segment q r => OnSeg2 p q r
  | .err _ => False
def Res.Mem3 (p : P3) : Res P3 → Prop
  | .none => False
  | .point q => p = q
  | .segment q r => OnSeg3 p q r
  | .err _ => False

/-- a result is well-formed if a segment result has two different end points -/
def Res.WF {α : Type} : Res α → Prop
  | .segment p q => p ≠ q
  | .err _ => False
  | _ => True

end PorepyVerif.C28
