import PorepyVerif.C28.Props
#print axioms PorepyVerif.C28.tolSmall_default
#print axioms PorepyVerif.C28.seg2d_eq_spec
#print axioms PorepyVerif.C28.seg3d_eq_spec
#print axioms PorepyVerif.C28.seg3dCode_misses_crossing
#print axioms PorepyVerif.C28.seg3dCode_doubles_touching_point
