import PorepyVerif.C28.Props
#print axioms PorepyVerif.C28.tolSmall_default
#print axioms PorepyVerif.C28.bound_gap
#print axioms PorepyVerif.C28.seg2d_eq_spec
#print axioms PorepyVerif.C28.seg3d_eq_spec
#print axioms PorepyVerif.C28.mem_segInter2_iff
#print axioms PorepyVerif.C28.mem_segInter3_iff
#print axioms PorepyVerif.C28.segInter_wf
#print axioms PorepyVerif.C28.seg_symmetric
#print axioms PorepyVerif.C28.seg2d_symmetric
#print axioms PorepyVerif.C28.seg3d_symmetric
#print axioms PorepyVerif.C28.seg2d_zero_length_errors
#print axioms PorepyVerif.C28.seg3d_zero_length
#print axioms PorepyVerif.C28.seg2d_assert_never_fires
#print axioms PorepyVerif.C28.seg3dCode_misses_crossing
#print axioms PorepyVerif.C28.seg3dCode_doubles_touching_point
