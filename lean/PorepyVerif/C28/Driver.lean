/- C28 line-protocol driver: `lake env lean --run PorepyVerif/C28/Driver.lean`

   {"op":"seg2d"|"spec2", "tol":"1/100000000", "p":[[ax,ay],[bx,by],[cx,cy],[dx,dy]]}
   {"op":"seg3d"|"seg3d_code"|"spec3", "tol":…, "p":[[ax,ay,az],…]}
   answers {"kind":"none"|"point"|"segment","pts":[[…],…]} or {"err":"AssertionError"|…}            -/
import PorepyVerif.Common.Wire
import PorepyVerif.C28.Model
open Lean PV PorepyVerif.C28

def errName : Err → String
  | .assertion => "AssertionError"
  | .value => "ValueError"
  | .index => "IndexError"

def outRes {α : Type} (f : α → List Rat) : Res α → Json
  | .none => obj [("kind", .str "none"), ("pts", ofList ofRats [])]
  | .point p => obj [("kind", .str "point"), ("pts", ofList ofRats [f p])]
  | .segment p q => obj [("kind", .str "segment"), ("pts", ofList ofRats [f p, f q])]
  | .err e => err (errName e)

def p2 : List Rat → R P2
  | [x, y] => pure ⟨x, y⟩
  | _ => throw "2-d point expected"

def p3 : List Rat → R P3
  | [x, y, z] => pure ⟨x, y, z⟩
  | _ => throw "3-d point expected"

def four {α : Type} (f : List Rat → R α) (ps : List (List Rat)) : R (α × α × α × α) :=
  match ps with
  | [a, b, c, d] => do pure (← f a, ← f b, ← f c, ← f d)
  | _ => throw "four points expected"

def l2 (p : P2) : List Rat := [p.x, p.y]
def l3 (p : P3) : List Rat := [p.x, p.y, p.z]

def step (j : Json) : R Json := do
  let op ← fStr j "op"
  let ps ← fRatss j "p"
  match op with
  | "seg2d" =>
    let tol ← fRat j "tol"
    let (a, b, c, d) ← four p2 ps
    pure (outRes l2 (seg2d tol a b c d))
  | "spec2" =>
    let (a, b, c, d) ← four p2 ps
    pure (outRes l2 (segInter2 a b c d))
  | "seg3d" =>
    let tol ← fRat j "tol"
    let (a, b, c, d) ← four p3 ps
    pure (outRes l3 (seg3d tol a b c d))
  | "seg3d_code" =>
    let tol ← fRat j "tol"
    let (a, b, c, d) ← four p3 ps
    pure (outRes l3 (seg3dCode tol a b c d))
  | "spec3" =>
    let (a, b, c, d) ← four p3 ps
    pure (outRes l3 (segInter3 a b c d))
  | _ => throw s!"unknown op {op}"

def main : IO Unit := runPure step
