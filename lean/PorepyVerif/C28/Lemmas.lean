/-
C28 — helper lemmas.
  §1  gap lemmas: a non-zero integer has absolute value ≥ 1 (the ONLY place where integrality and
      the bound `8·B²·tol < 1` are used: every tolerance test on an integer quantity is exact)
  §2  2-D: the colinear tail `overlap2` = interval overlap
  §3  2-D: model = specification on integer deltas (`seg2d_core`); bounds of determinants in the box
  §4  3-D: the crossing branch (`cross3d_xy/xz/yz`, `seg3d_cross_core`)
  §5  3-D: the parallel branch (argsort of four values, monotone reparametrisation, `par3d_same_core`)
  §6  soundness of the specification (`mem_segInter3_iff'`): points of the result = common points
  §7  symmetry (through "a well-formed result is determined by its point set"), 2-D via z = 0
  §8  zero-length segments; the assertion `isect_1 ≈ isect_2` that the model drops
  §9  the squared-form rewrites proved over ℝ with `Real.sqrt`; `seg2dSqrt` (sqrt form of the code) = `seg2d`
  §10 the order of the two returned columns (3-D: ascending in the working coordinate)
-/
import Mathlib.Tactic.Ring
import Mathlib.Tactic.Linarith
import Mathlib.Tactic.FieldSimp
import Mathlib.Tactic.LinearCombination
import Mathlib.Tactic.Positivity
import Mathlib.Tactic.SplitIfs
import Mathlib.Algebra.Order.Field.Rat
import Mathlib.Order.Lattice
import Mathlib.Order.Monotone.Basic
import Mathlib.Analysis.Real.Sqrt
import PorepyVerif.C28.Model

namespace PorepyVerif.C28

theorem rabs_eq (a : Rat) : rabs a = |a| := by
  unfold rabs; split
  · rw [abs_of_neg ‹_›]
  · rw [abs_of_nonneg (by linarith)]

/-! ## The gap lemmas: a non-zero integer has absolute value ≥ 1 -/

theorem int_sq_ge_one (n : Int) (h : n ≠ 0) : (1 : Rat) ≤ (n : Rat) * n := by
  have : (1 : Int) ≤ n * n := by
    rcases Int.lt_or_gt_of_ne h with h | h <;> nlinarith
  exact_mod_cast this

theorem int_abs_ge_one (n : Int) (h : n ≠ 0) : (1 : Rat) ≤ |(n : Rat)| := by
  have : (1 : Int) ≤ |n| := Int.one_le_abs h
  exact_mod_cast this

/-- squared test against a tolerance term `e ∈ (0,1)`: `n² < e ⇔ n = 0` -/
theorem sq_lt_tol_iff (n : Int) (e : Rat) (h0 : 0 < e) (h1 : e < 1) : (n : Rat) * n < e ↔ n = 0 := by
  constructor
  · intro h; by_contra hn; have := int_sq_ge_one n hn; linarith
  · rintro rfl; simpa using h0

/-- `n² > e ⇔ n ≠ 0` for `e ∈ [0,1)` -/
theorem sq_gt_tol_iff (n : Int) (e : Rat) (h0 : 0 ≤ e) (h1 : e < 1) : (n : Rat) * n > e ↔ n ≠ 0 := by
  constructor
  · rintro h rfl; simp at h; linarith
  · intro hn; have := int_sq_ge_one n hn; linarith

theorem abs_lt_tol_iff (n : Int) (tol : Rat) (h0 : 0 < tol) (h1 : tol ≤ 1) : rabs n < tol ↔ n = 0 := by
  rw [rabs_eq]
  constructor
  · intro h; by_contra hn; have := int_abs_ge_one n hn; linarith
  · rintro rfl; simpa using h0

theorem abs_gt_tol_iff (n : Int) (tol : Rat) (h0 : 0 ≤ tol) (h1 : tol < 1) : rabs n > tol ↔ n ≠ 0 := by
  rw [rabs_eq]
  constructor
  · rintro h rfl; simp at h; linarith
  · intro hn; have := int_abs_ge_one n hn; linarith

/-- a ratio of integers `m/n` that is not zero is at least `1/|n|` away from zero -/
theorem ratio_abs_ge (m n : Int) (hm : m ≠ 0) (hn : n ≠ 0) : 1 ≤ |(m : Rat) / n| * |(n : Rat)| := by
  rw [abs_div, div_mul_cancel₀]
  · exact int_abs_ge_one m hm
  · have := int_abs_ge_one n hn
    intro h; rw [h] at this; linarith

/-- `q = m/n` with `tol·|n| < 1`:  `q < tol ⇔ q ≤ 0` -/
theorem ratio_lt_tol_iff (m n : Int) (hn : n ≠ 0) (tol : Rat) (h0 : 0 < tol) (h1 : tol * |(n : Rat)| < 1) :
    (m : Rat) / n < tol ↔ (m : Rat) / n ≤ 0 := by
  constructor
  · intro h
    by_contra hpos
    have hpos : 0 < (m : Rat) / n := lt_of_not_ge hpos
    have hm : m ≠ 0 := by rintro rfl; simp at hpos
    have h2 := ratio_abs_ge m n hm hn
    rw [abs_of_pos hpos] at h2
    have hn' : 0 < |(n : Rat)| := by have := int_abs_ge_one n hn; linarith
    nlinarith
  · intro h; linarith
theorem ratio_le_tol_iff (m n : Int) (hn : n ≠ 0) (tol : Rat) (h0 : 0 < tol) (h1 : tol * |(n : Rat)| < 1) :
    (m : Rat) / n ≤ tol ↔ (m : Rat) / n ≤ 0 := by
  constructor
  · intro h
    by_contra hpos
    have hpos : 0 < (m : Rat) / n := lt_of_not_ge hpos
    have hm : m ≠ 0 := by rintro rfl; simp at hpos
    have h2 := ratio_abs_ge m n hm hn
    rw [abs_of_pos hpos] at h2
    have hn' : 0 < |(n : Rat)| := by have := int_abs_ge_one n hn; linarith
    nlinarith
  · intro h; linarith

theorem ratio_ge_neg_tol_iff (m n : Int) (hn : n ≠ 0) (tol : Rat) (h0 : 0 < tol) (h1 : tol * |(n : Rat)| < 1) :
    (m : Rat) / n ≥ -tol ↔ 0 ≤ (m : Rat) / n := by
  have := ratio_le_tol_iff (-m) n hn tol h0 h1
  push_cast at this
  rw [neg_div] at this
  constructor
  · intro h; have := this.mp (by linarith); linarith
  · intro h; linarith

theorem ratio_le_one_tol_iff (m n : Int) (hn : n ≠ 0) (tol : Rat) (h0 : 0 < tol) (h1 : tol * |(n : Rat)| < 1) :
    (m : Rat) / n ≤ 1 + tol ↔ (m : Rat) / n ≤ 1 := by
  have hnq : (n : Rat) ≠ 0 := by exact_mod_cast hn
  have := ratio_le_tol_iff (m - n) n hn tol h0 h1
  push_cast at this
  rw [sub_div, div_self hnq] at this
  constructor
  · intro h; have := this.mp (by linarith); linarith
  · intro h; linarith

/-- `q` is an integer multiple of `1/n` -/
def IsOver (n : Int) (q : Rat) : Prop := ∃ m : Int, q = (m : Rat) / n

theorem IsOver.zero (n : Int) : IsOver n 0 := ⟨0, by simp⟩
theorem IsOver.one (n : Int) (hn : n ≠ 0) : IsOver n 1 :=
  ⟨n, by have : (n : Rat) ≠ 0 := by exact_mod_cast hn
         rw [div_self this]⟩
theorem IsOver.ratio (m n : Int) : IsOver n ((m : Rat) / n) := ⟨m, rfl⟩
theorem IsOver.max {n : Int} {p q : Rat} (hp : IsOver n p) (hq : IsOver n q) : IsOver n (max p q) := by
  rcases max_choice p q with h | h <;> rw [h] <;> assumption
theorem IsOver.min {n : Int} {p q : Rat} (hp : IsOver n p) (hq : IsOver n q) : IsOver n (min p q) := by
  rcases min_choice p q with h | h <;> rw [h] <;> assumption
theorem IsOver.sub {n : Int} {p q : Rat} (hp : IsOver n p) (hq : IsOver n q) : IsOver n (p - q) := by
  obtain ⟨a, rfl⟩ := hp; obtain ⟨b, rfl⟩ := hq
  exact ⟨a - b, by push_cast; rw [sub_div]⟩

theorem IsOver.lt_tol_iff {n : Int} {q : Rat} (hq : IsOver n q) (hn : n ≠ 0) (tol : Rat) (h0 : 0 < tol)
    (h1 : tol * |(n : Rat)| < 1) : q < tol ↔ q ≤ 0 := by
  obtain ⟨m, rfl⟩ := hq
  exact ratio_lt_tol_iff m n hn tol h0 h1

theorem int_le_sq (n : Int) : |(n : Rat)| ≤ (n : Rat) * n := by
  have : |n| ≤ n * n := by
    rcases abs_cases n with ⟨h, h2⟩ | ⟨h, h2⟩ <;> rw [h] <;> nlinarith
  exact_mod_cast this

/-! ## §2  2-D: the colinear tail -/

/-- `overlap2` with an exact touching test equals the interval-overlap specification -/
theorem overlap2_eq (tol : Rat) (a : P2) (d1x d1y ts te : Rat)
    (hgap : (min (max ts te) 1 - max (min ts te) 0 < tol) ↔ (min (max ts te) 1 - max (min ts te) 0 ≤ 0)) :
    overlap2 tol a d1x d1y ts te
      = overlapParam (fun t => (⟨a.x + t * d1x, a.y + t * d1y⟩ : P2)) ts te := by
  unfold overlap2 overlapParam
  simp only [hgap]
  have hc : ∀ t, a.x + d1x * t = a.x + t * d1x := fun t => by ring
  have hc' : ∀ t, a.y + d1y * t = a.y + t * d1y := fun t => by ring
  simp only [hc, hc']
  by_cases h1 : ts < 0 ∧ te < 0
  · rw [if_pos h1]
    have : min (max ts te) 1 < max (min ts te) 0 := by
      have : max ts te < 0 := max_lt h1.1 h1.2
      have h3 : min (max ts te) 1 ≤ max ts te := min_le_left _ _
      have h4 : (0:Rat) ≤ max (min ts te) 0 := le_max_right _ _
      linarith
    rw [if_pos this]
  · rw [if_neg h1]
    by_cases h2 : ts > 1 ∧ te > 1
    · rw [if_pos h2]
      have : min (max ts te) 1 < max (min ts te) 0 := by
        have : 1 < min ts te := lt_min h2.1 h2.2
        have h3 : min (max ts te) 1 ≤ 1 := min_le_right _ _
        have h4 : min ts te ≤ max (min ts te) 0 := le_max_left _ _
        linarith
      rw [if_pos this]
    · rw [if_neg h2]
      have hle : max (min ts te) 0 ≤ min (max ts te) 1 := by
        apply max_le
        · apply le_min
          · exact (min_le_left _ _).trans (le_max_left _ _)
          · by_contra hc2
            exact h2 ⟨lt_of_lt_of_le (lt_of_not_ge hc2) (min_le_left _ _),
                      lt_of_lt_of_le (lt_of_not_ge hc2) (min_le_right _ _)⟩
        · apply le_min
          · by_contra hc2
            exact h1 ⟨lt_of_le_of_lt (le_max_left _ _) (lt_of_not_ge hc2),
                      lt_of_le_of_lt (le_max_right _ _) (lt_of_not_ge hc2)⟩
          · exact zero_le_one
      rw [if_neg (not_lt.mpr hle)]
      by_cases h3 : min (max ts te) 1 - max (min ts te) 0 ≤ 0
      · rw [if_pos h3, if_pos (le_antisymm hle (by linarith))]
      · rw [if_neg h3, if_neg (fun h => h3 (by rw [h]; simp))]

/-- the colinear tail on parameters that are integer multiples of `1/n`: the touching test is exact -/
theorem overlap2_int (tol : Rat) (a : P2) (dx dy : Rat) (n m1 m2 : Int) (hn : n ≠ 0) (htol : 0 < tol)
    (hb : tol * |(n:Rat)| < 1) :
    overlap2 tol a dx dy ((m1:Rat) / n) ((m2:Rat) / n)
      = overlapParam (fun t => (⟨a.x + t * dx, a.y + t * dy⟩ : P2)) ((m1:Rat) / n) ((m2:Rat) / n) := by
  apply overlap2_eq
  exact IsOver.lt_tol_iff
    (IsOver.sub (IsOver.min (IsOver.max (IsOver.ratio m1 n) (IsOver.ratio m2 n)) (IsOver.one n hn))
      (IsOver.max (IsOver.min (IsOver.ratio m1 n) (IsOver.ratio m2 n)) (IsOver.zero n))) hn tol htol hb

theorem col2_case (tol : Rat) (a : P2) (U1 V1 U2 V2 SX SY : Int) (htol : 0 < tol)
    (hb : tol * ((U1:Rat) * U1 + V1 * V1) < 1) (nd1 : U1 ≠ 0 ∨ V1 ≠ 0)
    (hdet : (U1:Rat) * V2 - V1 * U2 = 0) (hscl : (SX:Rat) * V1 - SY * U1 = 0) :
    (if U1 ≠ 0 then overlap2 tol a U1 V1 ((SX:Rat) / U1) (((U2 + SX : Int) : Rat) / U1)
     else if V1 ≠ 0 then overlap2 tol a U1 V1 ((SY:Rat) / V1) (((V2 + SY : Int) : Rat) / V1)
     else Res.err Err.value)
    = overlapParam (fun t => (⟨a.x + t * U1, a.y + t * V1⟩ : P2))
        (((SX:Rat) * U1 + SY * V1) / ((U1:Rat) * U1 + V1 * V1))
        ((((U2 + SX : Int) : Rat) * U1 + ((V2 + SY : Int) : Rat) * V1) / ((U1:Rat) * U1 + V1 * V1)) := by
  have hl1pos : (0 : Rat) < (U1:Rat) * U1 + V1 * V1 := by
    have : (0 : Int) < U1 * U1 + V1 * V1 := by
      rcases nd1 with h | h
      · have := mul_self_pos.mpr h; nlinarith [mul_self_nonneg V1]
      · have := mul_self_pos.mpr h; nlinarith [mul_self_nonneg U1]
    exact_mod_cast this
  have hpl : (U2:Rat) * V1 = V2 * U1 := by linarith
  by_cases hU : U1 = 0
  · have hV : V1 ≠ 0 := by
      rcases nd1 with h | h
      · exact absurd hU h
      · exact h
    have hVQ : (V1:Rat) ≠ 0 := by exact_mod_cast hV
    have hUQ : (U1:Rat) = 0 := by exact_mod_cast hU
    rw [if_neg (not_not.mpr hU), if_pos hV]
    have hb' : tol * |(V1:Rat)| < 1 := by
      have := int_le_sq V1; nlinarith [mul_self_nonneg (U1:Rat)]
    rw [overlap2_int tol a _ _ V1 SY (V2 + SY) hV htol hb']
    congr 1
    · rw [div_eq_div_iff hVQ (ne_of_gt hl1pos), hUQ]; ring
    · rw [div_eq_div_iff hVQ (ne_of_gt hl1pos), hUQ]; ring
  · have hUQ : (U1:Rat) ≠ 0 := by exact_mod_cast hU
    rw [if_pos hU]
    have hb' : tol * |(U1:Rat)| < 1 := by
      have := int_le_sq U1; nlinarith [mul_self_nonneg (V1:Rat)]
    rw [overlap2_int tol a _ _ U1 SX (U2 + SX) hU htol hb']
    congr 1
    · rw [div_eq_div_iff hUQ (ne_of_gt hl1pos)]; linear_combination (V1:Rat) * hscl
    · rw [div_eq_div_iff hUQ (ne_of_gt hl1pos)]; push_cast
      linear_combination (V1:Rat) * hscl + (V1:Rat) * hpl

theorem cross2_case (tol : Rat) (a : P2) (U1 V1 U2 V2 SX SY : Int) (htol : 0 < tol)
    (hdet : U1 * V2 - V1 * U2 ≠ 0) (hD' : tol * |((U1 * V2 - V1 * U2 : Int) : Rat)| < 1) :
    (if ((SX:Rat) * -V2 - SY * -U2) / ((U1:Rat) * -V2 - V1 * -U2) ≥ -tol ∧
        ((SX:Rat) * -V2 - SY * -U2) / ((U1:Rat) * -V2 - V1 * -U2) ≤ 1 + tol ∧
        ((U1:Rat) * SY - V1 * SX) / ((U1:Rat) * -V2 - V1 * -U2) ≥ -tol ∧
        ((U1:Rat) * SY - V1 * SX) / ((U1:Rat) * -V2 - V1 * -U2) ≤ 1 + tol then
      Res.point (⟨a.x + ((SX:Rat) * -V2 - SY * -U2) / ((U1:Rat) * -V2 - V1 * -U2) * U1,
                 a.y + ((SX:Rat) * -V2 - SY * -U2) / ((U1:Rat) * -V2 - V1 * -U2) * V1⟩ : P2)
     else Res.none)
    = (if 0 ≤ ((SX:Rat) * V2 - SY * U2) / ((U1:Rat) * V2 - V1 * U2) ∧
        ((SX:Rat) * V2 - SY * U2) / ((U1:Rat) * V2 - V1 * U2) ≤ 1 ∧
        0 ≤ ((SX:Rat) * V1 - SY * U1) / ((U1:Rat) * V2 - V1 * U2) ∧
        ((SX:Rat) * V1 - SY * U1) / ((U1:Rat) * V2 - V1 * U2) ≤ 1 then
      Res.point (⟨a.x + ((SX:Rat) * V2 - SY * U2) / ((U1:Rat) * V2 - V1 * U2) * U1,
                 a.y + ((SX:Rat) * V2 - SY * U2) / ((U1:Rat) * V2 - V1 * U2) * V1⟩ : P2)
     else Res.none) := by
  have hdetQ : (U1:Rat) * V2 - V1 * U2 ≠ 0 := by exact_mod_cast hdet
  have hdetQ' : (U1:Rat) * -V2 - V1 * -U2 ≠ 0 := by
    intro h; apply hdetQ; linarith
  have e1 : ((SX:Rat) * -V2 - SY * -U2) / ((U1:Rat) * -V2 - V1 * -U2)
      = ((SX * V2 - SY * U2 : Int) : Rat) / ((U1 * V2 - V1 * U2 : Int) : Rat) := by
    push_cast; rw [div_eq_div_iff hdetQ' hdetQ]; ring
  have e2 : ((U1:Rat) * SY - V1 * SX) / ((U1:Rat) * -V2 - V1 * -U2)
      = ((SX * V1 - SY * U1 : Int) : Rat) / ((U1 * V2 - V1 * U2 : Int) : Rat) := by
    push_cast; rw [div_eq_div_iff hdetQ' hdetQ]; ring
  have r1 : ((SX:Rat) * V2 - SY * U2) / ((U1:Rat) * V2 - V1 * U2)
      = ((SX * V2 - SY * U2 : Int) : Rat) / ((U1 * V2 - V1 * U2 : Int) : Rat) := by push_cast; rfl
  have r2 : ((SX:Rat) * V1 - SY * U1) / ((U1:Rat) * V2 - V1 * U2)
      = ((SX * V1 - SY * U1 : Int) : Rat) / ((U1 * V2 - V1 * U2 : Int) : Rat) := by push_cast; rfl
  rw [e1, e2, r1, r2]
  simp only [ratio_ge_neg_tol_iff _ _ hdet tol htol hD', ratio_le_one_tol_iff _ _ hdet tol htol hD']

/-! ## §3  2-D: model = specification on integer deltas -/

theorem seg2d_core (tol : Rat) (a b c d : P2) (U1 V1 U2 V2 SX SY : Int) (K : Rat)
    (hU1 : b.x - a.x = U1) (hV1 : b.y - a.y = V1) (hU2 : d.x - c.x = U2) (hV2 : d.y - c.y = V2)
    (hSX : c.x - a.x = SX) (hSY : c.y - a.y = SY)
    (htol : 0 < tol) (hK : tol * K < 1) (hK1 : 1 ≤ K)
    (hL1 : ((U1 * U1 + V1 * V1 : Int) : Rat) ≤ K) (hL2 : ((U2 * U2 + V2 * V2 : Int) : Rat) ≤ K)
    (hD : |((U1 * V2 - V1 * U2 : Int) : Rat)| ≤ K)
    (nd1 : U1 ≠ 0 ∨ V1 ≠ 0) (nd2 : U2 ≠ 0 ∨ V2 ≠ 0) :
    seg2d tol a b c d = segInter2 a b c d := by
  have hdx : d.x - a.x = ((U2 + SX : Int) : Rat) := by push_cast; linarith
  have hdy : d.y - a.y = ((V2 + SY : Int) : Rat) := by push_cast; linarith
  have htol1 : tol < 1 := by nlinarith
  -- squared lengths are positive integers
  have hl1pos : (0 : Rat) < ((U1 * U1 + V1 * V1 : Int) : Rat) := by
    have : (0 : Int) < U1 * U1 + V1 * V1 := by
      rcases nd1 with h | h
      · have := mul_self_pos.mpr h; nlinarith [mul_self_nonneg V1]
      · have := mul_self_pos.mpr h; nlinarith [mul_self_nonneg U1]
    exact_mod_cast this
  have hl2pos : (0 : Rat) < ((U2 * U2 + V2 * V2 : Int) : Rat) := by
    have : (0 : Int) < U2 * U2 + V2 * V2 := by
      rcases nd2 with h | h
      · have := mul_self_pos.mpr h; nlinarith [mul_self_nonneg V2]
      · have := mul_self_pos.mpr h; nlinarith [mul_self_nonneg U2]
    exact_mod_cast this
  push_cast at hl1pos hl2pos hL1 hL2 hD
  -- tolerance terms lie in (0,1)
  have ht1 : tol * ((U1:Rat) * U1 + V1 * V1) < 1 := by nlinarith
  have ht2 : tol * ((U2:Rat) * U2 + V2 * V2) < 1 := by nlinarith
  have he1 : tol * tol * ((U1:Rat) * U1 + V1 * V1) * ((U2:Rat) * U2 + V2 * V2) < 1 := by
    have h1 : 0 < tol * ((U1:Rat) * U1 + V1 * V1) := mul_pos htol hl1pos
    have h2 : 0 < tol * ((U2:Rat) * U2 + V2 * V2) := mul_pos htol hl2pos
    nlinarith
  have he1p : 0 < tol * tol * ((U1:Rat) * U1 + V1 * V1) * ((U2:Rat) * U2 + V2 * V2) := by positivity
  have he3 : tol * tol * ((U1:Rat) * U1 + V1 * V1) < 1 := by nlinarith
  have he3p : 0 ≤ tol * tol * ((U1:Rat) * U1 + V1 * V1) := by positivity
  have he4 : tol * tol * ((U2:Rat) * U2 + V2 * V2) < 1 := by nlinarith
  have he4p : 0 ≤ tol * tol * ((U2:Rat) * U2 + V2 * V2) := by positivity
  have he2 : tol * tol * max ((U1:Rat) * U1 + V1 * V1) ((U2:Rat) * U2 + V2 * V2) < 1 := by
    rcases max_choice ((U1:Rat) * U1 + V1 * V1) ((U2:Rat) * U2 + V2 * V2) with h | h <;> rw [h] <;> assumption
  have he2p : 0 < tol * tol * max ((U1:Rat) * U1 + V1 * V1) ((U2:Rat) * U2 + V2 * V2) := by
    have : 0 < max ((U1:Rat) * U1 + V1 * V1) ((U2:Rat) * U2 + V2 * V2) := lt_max_of_lt_left hl1pos
    positivity
  -- exactness of the branch tests
  have hpar : ((U1:Rat) * -V2 - V1 * -U2) * ((U1:Rat) * -V2 - V1 * -U2)
      < tol * tol * ((U1:Rat) * U1 + V1 * V1) * ((U2:Rat) * U2 + V2 * V2) ↔ U1 * V2 - V1 * U2 = 0 := by
    have := sq_lt_tol_iff (-(U1 * V2 - V1 * U2)) _ he1p he1
    push_cast at this
    rw [show ((U1:Rat) * -V2 - V1 * -U2) = -((U1:Rat) * V2 - V1 * U2) by ring, this]
    omega
  have hcol : ((SX:Rat) * V1 - SY * U1) * ((SX:Rat) * V1 - SY * U1)
      < tol * tol * max ((U1:Rat) * U1 + V1 * V1) ((U2:Rat) * U2 + V2 * V2) ↔ SX * V1 - SY * U1 = 0 := by
    have := sq_lt_tol_iff (SX * V1 - SY * U1) _ he2p he2
    push_cast at this
    exact this
  have hx : (U1:Rat) * U1 > tol * tol * ((U1:Rat) * U1 + V1 * V1) ↔ U1 ≠ 0 := sq_gt_tol_iff U1 _ he3p he3
  have hy : (V1:Rat) * V1 > tol * tol * ((U2:Rat) * U2 + V2 * V2) ↔ V1 ≠ 0 := sq_gt_tol_iff V1 _ he4p he4
  unfold seg2d segInter2
  simp only [hdx, hdy, hU1, hV1, hU2, hV2, hSX, hSY, hpar, hcol, hx, hy]
  by_cases hdet : U1 * V2 - V1 * U2 = 0
  · have hdetQ : (U1:Rat) * V2 - V1 * U2 = 0 := by exact_mod_cast hdet
    rw [if_pos hdet, if_neg (not_not.mpr hdetQ)]
    by_cases hscl : SX * V1 - SY * U1 = 0
    · have hsclQ : (SX:Rat) * V1 - SY * U1 = 0 := by exact_mod_cast hscl
      rw [if_pos hscl, if_neg (not_not.mpr hsclQ)]
      exact col2_case tol a U1 V1 U2 V2 SX SY htol ht1 nd1 hdetQ hsclQ
    · have hsclQ : (SX:Rat) * V1 - SY * U1 ≠ 0 := by exact_mod_cast hscl
      rw [if_neg hscl, if_pos hsclQ]
  · have hdetQ : (U1:Rat) * V2 - V1 * U2 ≠ 0 := by exact_mod_cast hdet
    have hdetQ' : (U1:Rat) * -V2 - V1 * -U2 ≠ 0 := by
      intro h; apply hdetQ; linarith
    rw [if_neg hdet, if_neg hdetQ', if_pos hdetQ]
    have hD' : tol * |((U1 * V2 - V1 * U2 : Int) : Rat)| < 1 := by
      push_cast; nlinarith [abs_nonneg ((U1:Rat) * V2 - V1 * U2)]
    exact cross2_case tol a U1 V1 U2 V2 SX SY htol hdet hD'

/-! ## Bounds for coordinates in the box `[-B, B]` -/

theorem box_diff {B x y : Int} (hx : InBox B x) (hy : InBox B y) : |y - x| ≤ 2 * B := by
  unfold InBox at *; rw [abs_le]; constructor <;> omega

theorem abs_mul_le_sq {u v M : Int} (hu : |u| ≤ M) (hv : |v| ≤ M) : |u * v| ≤ M * M := by
  rw [abs_mul]; exact mul_le_mul hu hv (abs_nonneg _) (le_trans (abs_nonneg _) hu)

theorem sq_sum_le {u v M : Int} (hu : |u| ≤ M) (hv : |v| ≤ M) : u * u + v * v ≤ 2 * (M * M) := by
  have h1 := abs_mul_le_sq hu hu
  have h2 := abs_mul_le_sq hv hv
  have := le_abs_self (u * u)
  have := le_abs_self (v * v)
  linarith

theorem abs_det_le {u1 v1 u2 v2 M : Int} (h1 : |u1| ≤ M) (h2 : |v1| ≤ M) (h3 : |u2| ≤ M) (h4 : |v2| ≤ M) :
    |u1 * v2 - v1 * u2| ≤ 2 * (M * M) := by
  have a := abs_mul_le_sq h1 h4
  have b := abs_mul_le_sq h2 h3
  have := abs_sub (u1 * v2) (v1 * u2)
  linarith

/-! ## §4  3-D: the crossing branch -/

theorem ratio_abs_lt_tol_iff (m n : Int) (hn : n ≠ 0) (tol : Rat) (h0 : 0 < tol) (h1 : tol * |(n : Rat)| < 1) :
    rabs ((m : Rat) / n) < tol ↔ m = 0 := by
  rw [rabs_eq]
  constructor
  · intro h
    by_contra hm
    have h2 := ratio_abs_ge m n hm hn
    have hn' : 0 < |(n : Rat)| := by have := int_abs_ge_one n hn; linarith
    have := abs_nonneg ((m:Rat) / n)
    nlinarith
  · rintro rfl; simpa using h0

theorem cross_logic {α : Type} (tol t1 t2 t1s t2s z dn : Rat) (pt pts : α)
    (hz : rabs z < tol ↔ dn = 0)
    (ht : dn = 0 → t1 = t1s ∧ t2 = t2s)
    (hp : t1 = t1s → pt = pts) :
    (if t1 < 0 ∨ t1 > 1 ∨ t2 < 0 ∨ t2 > 1 then Res.none
      else if rabs z < tol then Res.point pt else Res.none)
    = (if dn ≠ 0 then Res.none
      else if 0 ≤ t1s ∧ t1s ≤ 1 ∧ 0 ≤ t2s ∧ t2s ≤ 1 then Res.point pts else Res.none) := by
  by_cases hdn : dn = 0
  · obtain ⟨e1, e2⟩ := ht hdn
    rw [if_neg (not_not.mpr hdn), if_pos (hz.mpr hdn), ← hp e1, ← e1, ← e2]
    by_cases hr : 0 ≤ t1 ∧ t1 ≤ 1 ∧ 0 ≤ t2 ∧ t2 ≤ 1
    · rw [if_pos hr, if_neg]
      obtain ⟨h1, h2, h3, h4⟩ := hr
      rintro (h | h | h | h) <;> linarith
    · rw [if_neg hr, if_pos]
      by_contra hc
      apply hr
      refine ⟨?_, ?_, ?_, ?_⟩ <;> by_contra hh <;> apply hc
      · left; exact lt_of_not_ge hh
      · right; left; exact lt_of_not_ge hh
      · right; right; left; exact lt_of_not_ge hh
      · right; right; right; exact lt_of_not_ge hh
  · rw [if_pos hdn, if_neg (fun h => hdn (hz.mp h))]
    simp

/-- the non-parallel branch of the 3-D specification, on integer deltas -/
def spec3Cross (a : P3) (U1 V1 W1 U2 V2 W2 SX SY SZ : Rat) : Res P3 :=
  let nx := V1 * W2 - W1 * V2
  let ny := W1 * U2 - U1 * W2
  let nz := U1 * V2 - V1 * U2
  if SX * nx + SY * ny + SZ * nz ≠ 0 then .none
  else
    let nn := nx * nx + ny * ny + nz * nz
    let t1 := ((SY * W2 - SZ * V2) * nx + (SZ * U2 - SX * W2) * ny + (SX * V2 - SY * U2) * nz) / nn
    let t2 := ((SY * W1 - SZ * V1) * nx + (SZ * U1 - SX * W1) * ny + (SX * V1 - SY * U1) * nz) / nn
    if 0 ≤ t1 ∧ t1 ≤ 1 ∧ 0 ≤ t2 ∧ t2 ≤ 1 then .point ⟨a.x + t1 * U1, a.y + t1 * V1, a.z + t1 * W1⟩
    else .none

theorem cross3d_xy (tol : Rat) (a b c d : P3) (U1 V1 W1 U2 V2 W2 SX SY SZ : Int)
    (hU1 : b.x - a.x = U1) (hV1 : b.y - a.y = V1) (hW1 : b.z - a.z = W1)
    (hU2 : d.x - c.x = U2) (hV2 : d.y - c.y = V2) (hW2 : d.z - c.z = W2)
    (hSX : c.x - a.x = SX) (hSY : c.y - a.y = SY) (hSZ : c.z - a.z = SZ)
    (htol : 0 < tol) (hm : U1 * V2 - V1 * U2 ≠ 0) (hb : tol * |((U1 * V2 - V1 * U2 : Int) : Rat)| < 1) :
    cross3d tol .xy a b c d = spec3Cross a U1 V1 W1 U2 V2 W2 SX SY SZ := by
  have hcz : c.z = a.z + SZ := by linarith
  simp only [cross3d, spec3Cross, Dims.i, Dims.j, Dims.k, P3.get, hU1, hV1, hW1, hU2, hV2, hW2, hSX, hSY]
  rw [hcz]
  have hmQ : (U1:Rat) * V2 - V1 * U2 ≠ 0 := by exact_mod_cast hm
  have hΔ : (U1:Rat) * -V2 - V1 * -U2 ≠ 0 := by intro h; apply hmQ; linarith
  have hnn : ((V1:Rat) * W2 - W1 * V2) * (V1 * W2 - W1 * V2) + (W1 * U2 - U1 * W2) * (W1 * U2 - U1 * W2)
      + (U1 * V2 - V1 * U2) * (U1 * V2 - V1 * U2) ≠ 0 := by
    have := mul_self_pos.mpr hmQ
    nlinarith [mul_self_nonneg ((V1:Rat) * W2 - W1 * V2), mul_self_nonneg ((W1:Rat) * U2 - U1 * W2)]
  apply cross_logic
  · -- the consistency test in the third coordinate is exact
    have hm' : -(U1 * V2 - V1 * U2) ≠ 0 := by omega
    have hb' : tol * |((-(U1 * V2 - V1 * U2) : Int) : Rat)| < 1 := by
      push_cast at hb ⊢; rwa [abs_neg]
    have := ratio_abs_lt_tol_iff (SX * (V1 * W2 - W1 * V2) + SY * (W1 * U2 - U1 * W2) + SZ * (U1 * V2 - V1 * U2))
      (-(U1 * V2 - V1 * U2)) hm' tol htol hb'
    rw [show (a.z + ((SX:Rat) * -V2 - SY * -U2) / ((U1:Rat) * -V2 - V1 * -U2) * W1 -
          (a.z + SZ + ((U1:Rat) * SY - V1 * SX) / ((U1:Rat) * -V2 - V1 * -U2) * W2))
        = ((SX * (V1 * W2 - W1 * V2) + SY * (W1 * U2 - U1 * W2) + SZ * (U1 * V2 - V1 * U2) : Int) : Rat)
          / ((-(U1 * V2 - V1 * U2) : Int) : Rat) by
      push_cast
      generalize hΔd : (U1:Rat) * -V2 - V1 * -U2 = Δ at hΔ ⊢
      rw [show -((U1:Rat) * V2 - V1 * U2) = Δ by rw [← hΔd]; ring]
      field_simp
      rw [← hΔd]; ring]
    rw [this]
    exact_mod_cast Iff.rfl
  · intro hdn
    constructor
    · rw [div_eq_div_iff hΔ hnn]
      linear_combination (-(((V1:Rat) * W2 - W1 * V2) * V2 - (W1 * U2 - U1 * W2) * U2)) * hdn
    · rw [div_eq_div_iff hΔ hnn]
      linear_combination (-(((V1:Rat) * W2 - W1 * V2) * V1 - (W1 * U2 - U1 * W2) * U1)) * hdn
  · intro h; rw [h]

theorem cross3d_xz (tol : Rat) (a b c d : P3) (U1 V1 W1 U2 V2 W2 SX SY SZ : Int)
    (hU1 : b.x - a.x = U1) (hV1 : b.y - a.y = V1) (hW1 : b.z - a.z = W1)
    (hU2 : d.x - c.x = U2) (hV2 : d.y - c.y = V2) (hW2 : d.z - c.z = W2)
    (hSX : c.x - a.x = SX) (hSY : c.y - a.y = SY) (hSZ : c.z - a.z = SZ)
    (htol : 0 < tol) (hm : U1 * W2 - W1 * U2 ≠ 0) (hb : tol * |((U1 * W2 - W1 * U2 : Int) : Rat)| < 1) :
    cross3d tol .xz a b c d = spec3Cross a U1 V1 W1 U2 V2 W2 SX SY SZ := by
  have hcz : c.y = a.y + SY := by linarith
  simp only [cross3d, spec3Cross, Dims.i, Dims.j, Dims.k, P3.get, hU1, hV1, hW1, hU2, hV2, hW2, hSX, hSZ]
  rw [hcz]
  have hmQ : (U1:Rat) * W2 - W1 * U2 ≠ 0 := by exact_mod_cast hm
  have hΔ : (U1:Rat) * -W2 - W1 * -U2 ≠ 0 := by intro h; apply hmQ; linarith
  have hnn : ((V1:Rat) * W2 - W1 * V2) * (V1 * W2 - W1 * V2) + (W1 * U2 - U1 * W2) * (W1 * U2 - U1 * W2)
      + (U1 * V2 - V1 * U2) * (U1 * V2 - V1 * U2) ≠ 0 := by
    have := mul_self_pos.mpr hmQ
    nlinarith [mul_self_nonneg ((V1:Rat) * W2 - W1 * V2), mul_self_nonneg ((U1:Rat) * V2 - V1 * U2)]
  apply cross_logic
  · -- the consistency test in the third coordinate is exact
    have := ratio_abs_lt_tol_iff (SX * (V1 * W2 - W1 * V2) + SY * (W1 * U2 - U1 * W2) + SZ * (U1 * V2 - V1 * U2))
      (U1 * W2 - W1 * U2) hm tol htol hb
    rw [show (a.y + ((SX:Rat) * -W2 - SZ * -U2) / ((U1:Rat) * -W2 - W1 * -U2) * V1 -
          (a.y + SY + ((U1:Rat) * SZ - W1 * SX) / ((U1:Rat) * -W2 - W1 * -U2) * V2))
        = ((SX * (V1 * W2 - W1 * V2) + SY * (W1 * U2 - U1 * W2) + SZ * (U1 * V2 - V1 * U2) : Int) : Rat)
          / ((U1 * W2 - W1 * U2 : Int) : Rat) by
      push_cast
      generalize hΔd : (U1:Rat) * -W2 - W1 * -U2 = Δ at hΔ ⊢
      rw [show ((U1:Rat) * W2 - W1 * U2) = -Δ by rw [← hΔd]; ring]
      field_simp
      rw [← hΔd]; ring]
    rw [this]
    exact_mod_cast Iff.rfl
  · intro hdn
    constructor
    · rw [div_eq_div_iff hΔ hnn]
      linear_combination ((((U1:Rat) * V2 - V1 * U2) * U2 - (V1 * W2 - W1 * V2) * W2)) * hdn
    · rw [div_eq_div_iff hΔ hnn]
      linear_combination ((((U1:Rat) * V2 - V1 * U2) * U1 - (V1 * W2 - W1 * V2) * W1)) * hdn
  · intro h; rw [h]

theorem cross3d_yz (tol : Rat) (a b c d : P3) (U1 V1 W1 U2 V2 W2 SX SY SZ : Int)
    (hU1 : b.x - a.x = U1) (hV1 : b.y - a.y = V1) (hW1 : b.z - a.z = W1)
    (hU2 : d.x - c.x = U2) (hV2 : d.y - c.y = V2) (hW2 : d.z - c.z = W2)
    (hSX : c.x - a.x = SX) (hSY : c.y - a.y = SY) (hSZ : c.z - a.z = SZ)
    (htol : 0 < tol) (hm : V1 * W2 - W1 * V2 ≠ 0) (hb : tol * |((V1 * W2 - W1 * V2 : Int) : Rat)| < 1) :
    cross3d tol .yz a b c d = spec3Cross a U1 V1 W1 U2 V2 W2 SX SY SZ := by
  have hcz : c.x = a.x + SX := by linarith
  simp only [cross3d, spec3Cross, Dims.i, Dims.j, Dims.k, P3.get, hU1, hV1, hW1, hU2, hV2, hW2, hSY, hSZ]
  rw [hcz]
  have hmQ : (V1:Rat) * W2 - W1 * V2 ≠ 0 := by exact_mod_cast hm
  have hΔ : (V1:Rat) * -W2 - W1 * -V2 ≠ 0 := by intro h; apply hmQ; linarith
  have hnn : ((V1:Rat) * W2 - W1 * V2) * (V1 * W2 - W1 * V2) + (W1 * U2 - U1 * W2) * (W1 * U2 - U1 * W2)
      + (U1 * V2 - V1 * U2) * (U1 * V2 - V1 * U2) ≠ 0 := by
    have := mul_self_pos.mpr hmQ
    nlinarith [mul_self_nonneg ((U1:Rat) * V2 - V1 * U2), mul_self_nonneg ((W1:Rat) * U2 - U1 * W2)]
  apply cross_logic
  · -- the consistency test in the third coordinate is exact
    have hm' : -(V1 * W2 - W1 * V2) ≠ 0 := by omega
    have hb' : tol * |((-(V1 * W2 - W1 * V2) : Int) : Rat)| < 1 := by
      push_cast at hb ⊢; rwa [abs_neg]
    have := ratio_abs_lt_tol_iff (SX * (V1 * W2 - W1 * V2) + SY * (W1 * U2 - U1 * W2) + SZ * (U1 * V2 - V1 * U2))
      (-(V1 * W2 - W1 * V2)) hm' tol htol hb'
    rw [show (a.x + ((SY:Rat) * -W2 - SZ * -V2) / ((V1:Rat) * -W2 - W1 * -V2) * U1 -
          (a.x + SX + ((V1:Rat) * SZ - W1 * SY) / ((V1:Rat) * -W2 - W1 * -V2) * U2))
        = ((SX * (V1 * W2 - W1 * V2) + SY * (W1 * U2 - U1 * W2) + SZ * (U1 * V2 - V1 * U2) : Int) : Rat)
          / ((-(V1 * W2 - W1 * V2) : Int) : Rat) by
      push_cast
      generalize hΔd : (V1:Rat) * -W2 - W1 * -V2 = Δ at hΔ ⊢
      rw [show -((V1:Rat) * W2 - W1 * V2) = Δ by rw [← hΔd]; ring]
      field_simp
      rw [← hΔd]; ring]
    rw [this]
    exact_mod_cast Iff.rfl
  · intro hdn
    constructor
    · rw [div_eq_div_iff hΔ hnn]
      linear_combination (-(((W1:Rat) * U2 - U1 * W2) * W2 - (U1 * V2 - V1 * U2) * V2)) * hdn
    · rw [div_eq_div_iff hΔ hnn]
      linear_combination (-(((W1:Rat) * U2 - U1 * W2) * W1 - (U1 * V2 - V1 * U2) * V1)) * hdn
  · intro h; rw [h]


theorem seg3d_cross_core (tol : Rat) (a b c d : P3) (U1 V1 W1 U2 V2 W2 SX SY SZ : Int) (K : Rat)
    (hU1 : b.x - a.x = U1) (hV1 : b.y - a.y = V1) (hW1 : b.z - a.z = W1)
    (hU2 : d.x - c.x = U2) (hV2 : d.y - c.y = V2) (hW2 : d.z - c.z = W2)
    (hSX : c.x - a.x = SX) (hSY : c.y - a.y = SY) (hSZ : c.z - a.z = SZ)
    (htol : 0 < tol) (hK : tol * K < 1) (hK1 : 1 ≤ K)
    (hxy : |((U1 * V2 - V1 * U2 : Int) : Rat)| ≤ K) (hxz : |((U1 * W2 - W1 * U2 : Int) : Rat)| ≤ K)
    (hyz : |((V1 * W2 - W1 * V2 : Int) : Rat)| ≤ K)
    (hnp : U1 * V2 - V1 * U2 ≠ 0 ∨ U1 * W2 - W1 * U2 ≠ 0 ∨ V1 * W2 - W1 * V2 ≠ 0) :
    seg3d tol a b c d = segInter3 a b c d := by
  have htol1 : tol ≤ 1 := by nlinarith
  have bnd : ∀ n : Int, |(n:Rat)| ≤ K → tol * |(n:Rat)| < 1 := by
    intro n hn; nlinarith [abs_nonneg (n:Rat)]
  -- the specification takes the non-parallel branch
  have hspec : segInter3 a b c d = spec3Cross a U1 V1 W1 U2 V2 W2 SX SY SZ := by
    simp only [segInter3, spec3Cross, hU1, hV1, hW1, hU2, hV2, hW2, hSX, hSY, hSZ]
    rw [if_pos]
    rcases hnp with h | h | h
    · right; right; exact_mod_cast h
    · right; left
      have : (U1:Rat) * W2 - W1 * U2 ≠ 0 := by exact_mod_cast h
      intro h0; apply this; linarith
    · left; exact_mod_cast h
  rw [hspec]
  -- exact minors
  have mxy : minor ⟨b.x - a.x, b.y - a.y, b.z - a.z⟩ ⟨d.x - c.x, d.y - c.y, d.z - c.z⟩ .xy
      = ((U1 * V2 - V1 * U2 : Int) : Rat) := by
    simp only [minor, Dims.i, Dims.j, P3.get, hU1, hV1, hU2, hV2]; push_cast; ring
  have mxz : minor ⟨b.x - a.x, b.y - a.y, b.z - a.z⟩ ⟨d.x - c.x, d.y - c.y, d.z - c.z⟩ .xz
      = ((U1 * W2 - W1 * U2 : Int) : Rat) := by
    simp only [minor, Dims.i, Dims.j, P3.get, hU1, hW1, hU2, hW2]; push_cast; ring
  have myz : minor ⟨b.x - a.x, b.y - a.y, b.z - a.z⟩ ⟨d.x - c.x, d.y - c.y, d.z - c.z⟩ .yz
      = ((V1 * W2 - W1 * V2 : Int) : Rat) := by
    simp only [minor, Dims.i, Dims.j, P3.get, hV1, hW1, hV2, hW2]; push_cast; ring
  simp only [seg3d, seg3dWith, Dims.pick, mxy, mxz, myz, abs_lt_tol_iff _ tol htol htol1]
  by_cases h1 : U1 * V2 - V1 * U2 = 0
  · by_cases h2 : U1 * W2 - W1 * U2 = 0
    · have h3 : V1 * W2 - W1 * V2 ≠ 0 := by
        rcases hnp with h | h | h
        · exact absurd h1 h
        · exact absurd h2 h
        · exact h
      simp only [h1, h2, h3, not_true_eq_false, not_false_eq_true, if_true, if_false, myz,
        abs_lt_tol_iff _ tol htol htol1]
      exact cross3d_yz tol a b c d U1 V1 W1 U2 V2 W2 SX SY SZ hU1 hV1 hW1 hU2 hV2 hW2 hSX hSY hSZ htol h3
        (bnd _ hyz)
    · simp only [h1, h2, not_true_eq_false, not_false_eq_true, if_true, if_false, mxz,
        abs_lt_tol_iff _ tol htol htol1]
      exact cross3d_xz tol a b c d U1 V1 W1 U2 V2 W2 SX SY SZ hU1 hV1 hW1 hU2 hV2 hW2 hSX hSY hSZ htol h2
        (bnd _ hxz)
  · simp only [h1, not_false_eq_true, if_true, if_false, mxy, abs_lt_tol_iff _ tol htol htol1]
    exact cross3d_xy tol a b c d U1 V1 W1 U2 V2 W2 SX SY SZ hU1 hV1 hW1 hU2 hV2 hW2 hSX hSY hSZ htol h1
      (bnd _ hxy)

/-! ## §5  3-D: the parallel branch -/

theorem argsortMid_spec (s1 e1 s2 e2 : Rat) (h1 : ¬ max s1 e1 < min s2 e2) (h2 : ¬ max s2 e2 < min s1 e1) :
   col4 s1 e1 s2 e2 (argsortMid s1 e1 s2 e2).1 = max (min s1 e1) (min s2 e2) ∧
   col4 s1 e1 s2 e2 (argsortMid s1 e1 s2 e2).2 = min (max s1 e1) (max s2 e2) := by
  unfold argsortMid
  simp only [sortV, insertV]
  repeat' (first | split_ifs | (simp only [insertV]; done) | (simp only [insertV]; split_ifs))
  all_goals (simp only [col4]; grind)

/-- the point of line `a b` with parameter `t` -/
def lineAt (a b : P3) (t : Rat) : P3 :=
  ⟨a.x + t * (b.x - a.x), a.y + t * (b.y - a.y), a.z + t * (b.z - a.z)⟩

theorem lineAt_get (a b : P3) (t : Rat) (ax : Ax) :
    (lineAt a b t).get ax = a.get ax + t * (b.get ax - a.get ax) := by cases ax <;> rfl

theorem lineAt_zero (a b : P3) : lineAt a b 0 = a := by
  cases a; simp [lineAt]
theorem lineAt_one (a b : P3) : lineAt a b 1 = b := by
  cases a; cases b; simp [lineAt]

theorem phi_strictMono (s δ : Rat) (hδ : 0 < δ) : StrictMono (fun v : Rat => (v - s) / δ) := by
  intro x y h
  exact div_lt_div_of_pos_right (by linarith) hδ

theorem phi_strictAnti (s δ : Rat) (hδ : δ < 0) : StrictAnti (fun v : Rat => (v - s) / δ) := by
  intro x y h
  exact div_lt_div_of_neg_of_lt hδ (by linarith)

theorem scalar_pos (s1 e1 s2 e2 : Rat) (hδ : 0 < e1 - s1) :
    ((max (min s1 e1) (min s2 e2)) - s1) / (e1 - s1)
        = max (min ((s2 - s1) / (e1 - s1)) ((e2 - s1) / (e1 - s1))) 0 ∧
    ((min (max s1 e1) (max s2 e2)) - s1) / (e1 - s1)
        = min (max ((s2 - s1) / (e1 - s1)) ((e2 - s1) / (e1 - s1))) 1 := by
  have hm := (phi_strictMono s1 (e1 - s1) hδ).monotone
  have h0 : (s1 - s1) / (e1 - s1) = 0 := by simp
  have h1 : (e1 - s1) / (e1 - s1) = 1 := div_self (ne_of_gt hδ)
  have hle : s1 ≤ e1 := by linarith
  constructor
  · have := hm.map_max (a := min s1 e1) (b := min s2 e2)
    simp only [hm.map_min] at this
    rw [this, h0, h1, min_eq_left (zero_le_one), max_comm]
  · have := hm.map_min (a := max s1 e1) (b := max s2 e2)
    simp only [hm.map_max] at this
    rw [this, h0, h1, max_eq_right (zero_le_one), min_comm]

theorem scalar_neg (s1 e1 s2 e2 : Rat) (hδ : e1 - s1 < 0) :
    ((max (min s1 e1) (min s2 e2)) - s1) / (e1 - s1)
        = min (max ((s2 - s1) / (e1 - s1)) ((e2 - s1) / (e1 - s1))) 1 ∧
    ((min (max s1 e1) (max s2 e2)) - s1) / (e1 - s1)
        = max (min ((s2 - s1) / (e1 - s1)) ((e2 - s1) / (e1 - s1))) 0 := by
  have hm := (phi_strictAnti s1 (e1 - s1) hδ).antitone
  have h0 : (s1 - s1) / (e1 - s1) = 0 := by simp
  have h1 : (e1 - s1) / (e1 - s1) = 1 := div_self (ne_of_lt hδ)
  constructor
  · have := hm.map_max (a := min s1 e1) (b := min s2 e2)
    simp only [hm.map_min] at this
    rw [this, h0, h1, max_eq_right (zero_le_one), min_comm]
  · have := hm.map_min (a := max s1 e1) (b := max s2 e2)
    simp only [hm.map_max] at this
    rw [this, h0, h1, min_eq_left (zero_le_one), max_comm]

/-- the two disjointness tests of `segments_3d` together say: the overlap interval is empty -/
theorem disjoint_iff (s1 e1 s2 e2 : Rat) :
    (max s1 e1 < min s2 e2 ∨ max s2 e2 < min s1 e1) ↔ min (max s1 e1) (max s2 e2) < max (min s1 e1) (min s2 e2) := by
  grind

theorem overlap3_same (tol : Rat) (a b c d : P3) (ax : Ax) (ts te : Rat)
    (hδ : b.get ax - a.get ax ≠ 0)
    (hc : c = lineAt a b ts) (hd : d = lineAt a b te)
    (hgap : ∀ i j : Nat,
      rabs (col4 (a.get ax) (b.get ax) (c.get ax) (d.get ax) i - col4 (a.get ax) (b.get ax) (c.get ax) (d.get ax) j) < tol
        ↔ col4 (a.get ax) (b.get ax) (c.get ax) (d.get ax) i = col4 (a.get ax) (b.get ax) (c.get ax) (d.get ax) j) :
    Res.same (overlap3 true tol a b c d ax) (overlapParam (lineAt a b) ts te) := by
  have hs2 : c.get ax = a.get ax + ts * (b.get ax - a.get ax) := by rw [hc, lineAt_get]
  have he2 : d.get ax = a.get ax + te * (b.get ax - a.get ax) := by rw [hd, lineAt_get]
  generalize hs1d : a.get ax = s1 at *
  generalize he1d : b.get ax = e1 at *
  generalize hs2d : c.get ax = s2 at *
  generalize he2d : d.get ax = e2 at *
  have hts : ts = (s2 - s1) / (e1 - s1) := by rw [hs2]; field_simp; ring
  have hte : te = (e2 - s1) / (e1 - s1) := by rw [he2]; field_simp; ring
  have hP : ∀ i, col4 a b c d i = lineAt a b ((col4 s1 e1 s2 e2 i - s1) / (e1 - s1)) := by
    intro i
    match i with
    | 0 => simp [col4, lineAt_zero]
    | 1 => simp only [col4]; rw [div_self hδ, lineAt_one]
    | 2 => simp only [col4]; rw [← hts, ← hc]
    | (n + 3) => simp only [col4]; rw [← hte, ← hd]
  unfold overlap3 overlapParam
  simp only [hs1d, he1d, hs2d, he2d, touchAsPoint, Bool.true_and, decide_eq_true_eq, hgap, hP]
  by_cases hdis : max s1 e1 < min s2 e2 ∨ max s2 e2 < min s1 e1
  · have hmodel : (if max s1 e1 < min s2 e2 then (Res.none : Res P3) else if max s2 e2 < min s1 e1 then Res.none else
        if col4 s1 e1 s2 e2 (argsortMid s1 e1 s2 e2).1 = col4 s1 e1 s2 e2 (argsortMid s1 e1 s2 e2).2 then
          Res.point (lineAt a b ((col4 s1 e1 s2 e2 (argsortMid s1 e1 s2 e2).1 - s1) / (e1 - s1)))
        else Res.segment (lineAt a b ((col4 s1 e1 s2 e2 (argsortMid s1 e1 s2 e2).1 - s1) / (e1 - s1)))
          (lineAt a b ((col4 s1 e1 s2 e2 (argsortMid s1 e1 s2 e2).2 - s1) / (e1 - s1)))) = Res.none := by
      rcases hdis with h | h
      · rw [if_pos h]
      · by_cases h' : max s1 e1 < min s2 e2
        · rw [if_pos h']
        · rw [if_neg h', if_pos h]
    rw [hmodel]
    have hv := (disjoint_iff s1 e1 s2 e2).mp hdis
    rcases lt_or_gt_of_ne hδ with hneg | hpos
    · obtain ⟨e1', e2'⟩ := scalar_neg s1 e1 s2 e2 hneg
      have := (phi_strictAnti s1 (e1 - s1) hneg) hv
      simp only [e1', e2'] at this
      rw [hts, hte, if_pos this]
      trivial
    · obtain ⟨e1', e2'⟩ := scalar_pos s1 e1 s2 e2 hpos
      have := (phi_strictMono s1 (e1 - s1) hpos) hv
      simp only [e1', e2'] at this
      rw [hts, hte, if_pos this]
      trivial
  · have hn1 : ¬ max s1 e1 < min s2 e2 := fun h => hdis (Or.inl h)
    have hn2 : ¬ max s2 e2 < min s1 e1 := fun h => hdis (Or.inr h)
    rw [if_neg hn1, if_neg hn2]
    obtain ⟨m1, m2⟩ := argsortMid_spec s1 e1 s2 e2 hn1 hn2
    rw [m1, m2]
    have hv : ¬ min (max s1 e1) (max s2 e2) < max (min s1 e1) (min s2 e2) := fun h => hdis ((disjoint_iff s1 e1 s2 e2).mpr h)
    rcases lt_or_gt_of_ne hδ with hneg | hpos
    · obtain ⟨e1', e2'⟩ := scalar_neg s1 e1 s2 e2 hneg
      have hanti := phi_strictAnti s1 (e1 - s1) hneg
      rw [e1', e2', ← hts, ← hte]
      have hle : max (min ts te) 0 ≤ min (max ts te) 1 := by
        have := hanti.antitone (not_lt.mp hv)
        simp only [e1', e2'] at this
        rw [hts, hte]; exact this
      rw [if_neg (not_lt.mpr hle)]
      by_cases heq : max (min s1 e1) (min s2 e2) = min (max s1 e1) (max s2 e2)
      · have heq' : max (min ts te) 0 = min (max ts te) 1 := by
          have := congrArg (fun v => (v - s1) / (e1 - s1)) heq
          simp only [e1', e2'] at this
          rw [hts, hte]; exact this.symm
        rw [if_pos heq, if_pos heq']
        show lineAt a b _ = lineAt a b _
        rw [heq']
      · have heq' : ¬ max (min ts te) 0 = min (max ts te) 1 := by
          intro h
          apply heq
          apply hanti.injective
          simp only [e1', e2']
          rw [← hts, ← hte]; exact h.symm
        rw [if_neg heq, if_neg heq']
        right; exact ⟨rfl, rfl⟩
    · obtain ⟨e1', e2'⟩ := scalar_pos s1 e1 s2 e2 hpos
      have hmono := phi_strictMono s1 (e1 - s1) hpos
      rw [e1', e2', ← hts, ← hte]
      have hle : max (min ts te) 0 ≤ min (max ts te) 1 := by
        have := hmono.monotone (not_lt.mp hv)
        simp only [e1', e2'] at this
        rw [hts, hte]; exact this
      rw [if_neg (not_lt.mpr hle)]
      by_cases heq : max (min s1 e1) (min s2 e2) = min (max s1 e1) (max s2 e2)
      · have heq' : max (min ts te) 0 = min (max ts te) 1 := by
          have := congrArg (fun v => (v - s1) / (e1 - s1)) heq
          simp only [e1', e2'] at this
          rw [hts, hte]; exact this
        rw [if_pos heq, if_pos heq']
        show lineAt a b _ = lineAt a b _
        rfl
      · have heq' : ¬ max (min ts te) 0 = min (max ts te) 1 := by
          intro h
          apply heq
          apply hmono.injective
          simp only [e1', e2']
          rw [← hts, ← hte]; exact h
        rw [if_neg heq, if_neg heq']
        left; exact ⟨rfl, rfl⟩

theorem rabs_zero : rabs 0 = 0 := by simp [rabs]

theorem ratios_const (tol lam : Rat) (h0 : 0 ≤ tol) (t : List Rat) (h : ∀ x ∈ t, x = lam) :
    ratiosDiffer tol t = false := by
  match t with
  | [] => rfl
  | [_] => rfl
  | [t0, t1] =>
    have e0 := h t0 (by simp); have e1 := h t1 (by simp)
    simp only [ratiosDiffer, e0, e1, sub_self, rabs_zero, decide_eq_false_iff_not, not_lt]; exact h0
  | [t0, t1, t2] =>
    have e0 := h t0 (by simp); have e1 := h t1 (by simp); have e2 := h t2 (by simp)
    simp only [ratiosDiffer, e0, e1, e2, sub_self, rabs_zero, Bool.or_eq_false_iff, decide_eq_false_iff_not, not_lt]
    exact ⟨h0, h0⟩
  | _ :: _ :: _ :: _ :: _ => rfl

theorem head_same {α : Type} (P : Ax → Prop) (f : Ax → Res α) (R : Res α) (sel : List Ax)
    (hne : sel ≠ []) (hP : ∀ ax ∈ sel, P ax) (hf : ∀ ax, P ax → Res.same (f ax) R) :
    Res.same (match sel with | [] => Res.err Err.index | ax :: _ => f ax) R := by
  match sel with
  | [] => exact absurd rfl hne
  | ax :: _ => exact hf ax (hP ax (by simp))

theorem col4_diff_int (s1 e1 s2 e2 : Rat) (u s u2 : Int) (h1 : e1 - s1 = u) (h2 : s2 - s1 = s) (h3 : e2 - s2 = u2) :
    ∀ i j : Nat, ∃ m : Int, col4 s1 e1 s2 e2 i - col4 s1 e1 s2 e2 j = m := by
  have key : ∀ i : Nat, ∃ m : Int, col4 s1 e1 s2 e2 i - s1 = m := by
    intro i
    match i with
    | 0 => exact ⟨0, by simp [col4]⟩
    | 1 => exact ⟨u, by simp [col4, h1]⟩
    | 2 => exact ⟨s, by simp [col4, h2]⟩
    | (n + 3) => exact ⟨s + u2, by simp only [col4]; push_cast; linarith⟩
  intro i j
  obtain ⟨mi, hi⟩ := key i
  obtain ⟨mj, hj⟩ := key j
  exact ⟨mi - mj, by push_cast; linarith⟩

/-- a vector `w` with `w × D = 0`, `D ≠ 0`, is `(w·D / D·D)·D` -/
theorem proj_of_cross (wx wy wz dx dy dz : Rat)
    (cx : wy * dz - wz * dy = 0) (cy : wz * dx - wx * dz = 0) (cz : wx * dy - wy * dx = 0)
    (hD : dx ≠ 0 ∨ dy ≠ 0 ∨ dz ≠ 0) :
    wx = (wx * dx + wy * dy + wz * dz) / (dx * dx + dy * dy + dz * dz) * dx ∧
    wy = (wx * dx + wy * dy + wz * dz) / (dx * dx + dy * dy + dz * dz) * dy ∧
    wz = (wx * dx + wy * dy + wz * dz) / (dx * dx + dy * dy + dz * dz) * dz := by
  have hn : dx * dx + dy * dy + dz * dz ≠ 0 := by
    rcases hD with h | h | h <;> have := mul_self_pos.mpr h <;>
      nlinarith [mul_self_nonneg dx, mul_self_nonneg dy, mul_self_nonneg dz]
  refine ⟨?_, ?_, ?_⟩ <;> rw [div_mul_eq_mul_div, eq_div_iff hn]
  · linear_combination dy * cz - dz * cy
  · linear_combination dz * cx - dx * cz
  · linear_combination dx * cy - dy * cx

/-- under parallelism the specification is the colinearity test followed by the interval overlap -/
theorem segInter3_parallel (a b c d : P3)
    (pxy : (b.x - a.x) * (d.y - c.y) - (b.y - a.y) * (d.x - c.x) = 0)
    (pxz : (b.x - a.x) * (d.z - c.z) - (b.z - a.z) * (d.x - c.x) = 0)
    (pyz : (b.y - a.y) * (d.z - c.z) - (b.z - a.z) * (d.y - c.y) = 0) :
    segInter3 a b c d =
      if (c.y - a.y) * (b.z - a.z) - (c.z - a.z) * (b.y - a.y) ≠ 0 ∨
         (c.z - a.z) * (b.x - a.x) - (c.x - a.x) * (b.z - a.z) ≠ 0 ∨
         (c.x - a.x) * (b.y - a.y) - (c.y - a.y) * (b.x - a.x) ≠ 0 then Res.none
      else overlapParam (lineAt a b)
        (((c.x - a.x) * (b.x - a.x) + (c.y - a.y) * (b.y - a.y) + (c.z - a.z) * (b.z - a.z)) /
          ((b.x - a.x) * (b.x - a.x) + (b.y - a.y) * (b.y - a.y) + (b.z - a.z) * (b.z - a.z)))
        (((d.x - a.x) * (b.x - a.x) + (d.y - a.y) * (b.y - a.y) + (d.z - a.z) * (b.z - a.z)) /
          ((b.x - a.x) * (b.x - a.x) + (b.y - a.y) * (b.y - a.y) + (b.z - a.z) * (b.z - a.z))) := by
  unfold segInter3
  simp only []
  rw [if_neg]
  · rfl
  · rintro (h | h | h)
    · exact h pyz
    · apply h; linarith
    · exact h pxy

theorem par3d_same_core (tol : Rat) (a b c d : P3) (h0 : 0 ≤ tol)
    (E1 : ∀ ax, rabs ((⟨b.x - a.x, b.y - a.y, b.z - a.z⟩ : P3).get ax) > tol ↔ (⟨b.x - a.x, b.y - a.y, b.z - a.z⟩ : P3).get ax ≠ 0)
    (E2 : ∀ ax, rabs ((⟨d.x - c.x, d.y - c.y, d.z - c.z⟩ : P3).get ax) > tol ↔ (⟨d.x - c.x, d.y - c.y, d.z - c.z⟩ : P3).get ax ≠ 0)
    (E3x : rabs ((c.y - a.y) * (b.z - a.z) - (c.z - a.z) * (b.y - a.y)) > tol ↔ (c.y - a.y) * (b.z - a.z) - (c.z - a.z) * (b.y - a.y) ≠ 0)
    (E3y : rabs ((c.z - a.z) * (b.x - a.x) - (c.x - a.x) * (b.z - a.z)) > tol ↔ (c.z - a.z) * (b.x - a.x) - (c.x - a.x) * (b.z - a.z) ≠ 0)
    (E3z : rabs ((c.x - a.x) * (b.y - a.y) - (c.y - a.y) * (b.x - a.x)) > tol ↔ (c.x - a.x) * (b.y - a.y) - (c.y - a.y) * (b.x - a.x) ≠ 0)
    (E4 : ∀ ax, ∀ i j : Nat,
      rabs (col4 (a.get ax) (b.get ax) (c.get ax) (d.get ax) i - col4 (a.get ax) (b.get ax) (c.get ax) (d.get ax) j) < tol
        ↔ col4 (a.get ax) (b.get ax) (c.get ax) (d.get ax) i = col4 (a.get ax) (b.get ax) (c.get ax) (d.get ax) j)
    (pxy : (b.x - a.x) * (d.y - c.y) - (b.y - a.y) * (d.x - c.x) = 0)
    (pxz : (b.x - a.x) * (d.z - c.z) - (b.z - a.z) * (d.x - c.x) = 0)
    (pyz : (b.y - a.y) * (d.z - c.z) - (b.z - a.z) * (d.y - c.y) = 0)
    (nd1 : b.x - a.x ≠ 0 ∨ b.y - a.y ≠ 0 ∨ b.z - a.z ≠ 0)
    (nd2 : d.x - c.x ≠ 0 ∨ d.y - c.y ≠ 0 ∨ d.z - c.z ≠ 0) :
    Res.same (par3d true tol a b c d) (segInter3 a b c d) := by
  -- proportionality: d1 = lam · d2
  obtain ⟨hu, hv, hw⟩ := proj_of_cross (b.x - a.x) (b.y - a.y) (b.z - a.z) (d.x - c.x) (d.y - c.y) (d.z - c.z)
    (by linarith) (by linarith) (by linarith) nd2
  generalize hlam : ((b.x - a.x) * (d.x - c.x) + (b.y - a.y) * (d.y - c.y) + (b.z - a.z) * (d.z - c.z)) /
    ((d.x - c.x) * (d.x - c.x) + (d.y - c.y) * (d.y - c.y) + (d.z - c.z) * (d.z - c.z)) = lam at hu hv hw
  have hlam0 : lam ≠ 0 := by
    rintro rfl
    rcases nd1 with h | h | h
    · apply h; rw [hu]; ring
    · apply h; rw [hv]; ring
    · apply h; rw [hw]; ring
  have hprop : ∀ ax, (⟨b.x - a.x, b.y - a.y, b.z - a.z⟩ : P3).get ax
      = lam * (⟨d.x - c.x, d.y - c.y, d.z - c.z⟩ : P3).get ax := by
    intro ax; cases ax <;> simp only [P3.get]
    · exact hu
    · exact hv
    · exact hw
  have hmask : ∀ ax, (⟨b.x - a.x, b.y - a.y, b.z - a.z⟩ : P3).get ax ≠ 0
      ↔ (⟨d.x - c.x, d.y - c.y, d.z - c.z⟩ : P3).get ax ≠ 0 := by
    intro ax; rw [hprop ax]; simp [hlam0]
  have hget : ∀ ax, (⟨b.x - a.x, b.y - a.y, b.z - a.z⟩ : P3).get ax = b.get ax - a.get ax := by
    intro ax; cases ax <;> rfl
  unfold par3d
  simp only [E1, E2, E3x, E3y, E3z]
  rw [if_neg (by
    rintro (h | h | h) <;> exact h (decide_eq_decide.mpr (hmask _)))]
  rw [ratios_const tol lam h0 _ (by
    intro x hx
    obtain ⟨ax, hax, rfl⟩ := List.mem_map.mp hx
    have h2 := (List.mem_filter.mp hax).2
    simp only [decide_eq_true_eq] at h2
    have h3 := (hmask ax).mp h2
    rw [hprop ax, mul_div_cancel_right₀ _ h3])]
  simp only [Bool.false_eq_true, if_false]
  rw [segInter3_parallel a b c d pxy pxz pyz]
  by_cases hcol : (c.y - a.y) * (b.z - a.z) - (c.z - a.z) * (b.y - a.y) ≠ 0 ∨
         (c.z - a.z) * (b.x - a.x) - (c.x - a.x) * (b.z - a.z) ≠ 0 ∨
         (c.x - a.x) * (b.y - a.y) - (c.y - a.y) * (b.x - a.x) ≠ 0
  · rw [if_pos hcol]
    rcases hcol with h | h | h
    · rw [if_pos h]; trivial
    · by_cases h1 : (c.y - a.y) * (b.z - a.z) - (c.z - a.z) * (b.y - a.y) ≠ 0
      · rw [if_pos h1]; trivial
      · rw [if_neg h1, if_pos h]; trivial
    · by_cases h1 : (c.y - a.y) * (b.z - a.z) - (c.z - a.z) * (b.y - a.y) ≠ 0
      · rw [if_pos h1]; trivial
      · rw [if_neg h1]
        by_cases h2 : (c.z - a.z) * (b.x - a.x) - (c.x - a.x) * (b.z - a.z) ≠ 0
        · rw [if_pos h2]; trivial
        · rw [if_neg h2, if_pos h]; trivial
  · rw [if_neg hcol]
    have hcx : (c.y - a.y) * (b.z - a.z) - (c.z - a.z) * (b.y - a.y) = 0 := by
      by_contra h; exact hcol (Or.inl h)
    have hcy : (c.z - a.z) * (b.x - a.x) - (c.x - a.x) * (b.z - a.z) = 0 := by
      by_contra h; exact hcol (Or.inr (Or.inl h))
    have hcz : (c.x - a.x) * (b.y - a.y) - (c.y - a.y) * (b.x - a.x) = 0 := by
      by_contra h; exact hcol (Or.inr (Or.inr h))
    rw [if_neg (not_not.mpr hcx), if_neg (not_not.mpr hcy), if_neg (not_not.mpr hcz)]
    -- c and d lie on line 1, with the parameters of the specification
    obtain ⟨c1, c2, c3⟩ := proj_of_cross (c.x - a.x) (c.y - a.y) (c.z - a.z) (b.x - a.x) (b.y - a.y) (b.z - a.z)
      hcx hcy hcz nd1
    obtain ⟨d1', d2', d3'⟩ := proj_of_cross (d.x - a.x) (d.y - a.y) (d.z - a.z) (b.x - a.x) (b.y - a.y) (b.z - a.z)
      (by linarith) (by linarith) (by linarith) nd1
    generalize hts : ((c.x - a.x) * (b.x - a.x) + (c.y - a.y) * (b.y - a.y) + (c.z - a.z) * (b.z - a.z)) /
          ((b.x - a.x) * (b.x - a.x) + (b.y - a.y) * (b.y - a.y) + (b.z - a.z) * (b.z - a.z)) = ts at c1 c2 c3 ⊢
    generalize hte : ((d.x - a.x) * (b.x - a.x) + (d.y - a.y) * (b.y - a.y) + (d.z - a.z) * (b.z - a.z)) /
          ((b.x - a.x) * (b.x - a.x) + (b.y - a.y) * (b.y - a.y) + (b.z - a.z) * (b.z - a.z)) = te at d1' d2' d3' ⊢
    have hc : c = lineAt a b ts := by
      cases c; simp only [lineAt, P3.mk.injEq] at *
      exact ⟨by linarith, by linarith, by linarith⟩
    have hd : d = lineAt a b te := by
      cases d; simp only [lineAt, P3.mk.injEq] at *
      exact ⟨by linarith, by linarith, by linarith⟩
    -- `np.allclose` on the coordinates without extent: they coincide
    have hclose : ([Ax.x, Ax.y, Ax.z].all fun ax =>
        decide ((⟨b.x - a.x, b.y - a.y, b.z - a.z⟩ : P3).get ax ≠ 0) || close1 tol (a.get ax) (c.get ax)) = true := by
      rw [List.all_eq_true]
      intro ax _
      by_cases hz : (⟨b.x - a.x, b.y - a.y, b.z - a.z⟩ : P3).get ax ≠ 0
      · simp [hz]
      · have hz' : b.get ax - a.get ax = 0 := by rw [← hget]; exact not_not.mp hz
        have : c.get ax = a.get ax := by rw [hc, lineAt_get, hz']; ring
        simp only [close1, this, sub_self, rabs_zero, Bool.or_eq_true, decide_eq_true_eq]
        right
        have : 0 ≤ rabs (a.get ax) := by rw [rabs_eq]; exact abs_nonneg _
        have : (0:Rat) < atol := by decide +kernel
        nlinarith
    rw [if_neg (by rw [hclose]; simp)]
    apply head_same (fun ax => (⟨b.x - a.x, b.y - a.y, b.z - a.z⟩ : P3).get ax ≠ 0)
    · -- some coordinate has an extent
      intro hnil
      have hall : ∀ ax, ax ∉ List.filter (fun ax => decide ((⟨b.x - a.x, b.y - a.y, b.z - a.z⟩ : P3).get ax ≠ 0)) [Ax.x, Ax.y, Ax.z] := by
        intro ax; rw [hnil]; exact List.not_mem_nil
      rcases nd1 with h | h | h
      · exact hall Ax.x (List.mem_filter.mpr ⟨by simp, by simp only [P3.get]; exact decide_eq_true h⟩)
      · exact hall Ax.y (List.mem_filter.mpr ⟨by simp, by simp only [P3.get]; exact decide_eq_true h⟩)
      · exact hall Ax.z (List.mem_filter.mpr ⟨by simp, by simp only [P3.get]; exact decide_eq_true h⟩)
    · intro ax hax
      have h2 := (List.mem_filter.mp hax).2
      simpa using h2
    · intro ax hax
      exact overlap3_same tol a b c d ax ts te (by rw [← hget]; exact hax) hc hd (E4 ax)


theorem Res.same_refl {α : Type} (r : Res α) : Res.same r r := by
  cases r <;> simp [Res.same]

theorem Res.same_of_eq {α : Type} {r s : Res α} (h : r = s) : Res.same r s := h ▸ Res.same_refl r

theorem seg3d_eq_par (tol : Rat) (a b c d : P3) (htol : 0 < tol)
    (hxy : minor ⟨b.x - a.x, b.y - a.y, b.z - a.z⟩ ⟨d.x - c.x, d.y - c.y, d.z - c.z⟩ .xy = 0)
    (hxz : minor ⟨b.x - a.x, b.y - a.y, b.z - a.z⟩ ⟨d.x - c.x, d.y - c.y, d.z - c.z⟩ .xz = 0)
    (hyz : minor ⟨b.x - a.x, b.y - a.y, b.z - a.z⟩ ⟨d.x - c.x, d.y - c.y, d.z - c.z⟩ .yz = 0) :
    seg3d tol a b c d = par3d true tol a b c d := by
  simp only [seg3d, seg3dWith, Dims.pick, hxy, hxz, hyz, rabs_zero, htol, not_true_eq_false, if_false, if_true]

/-- exactness of a tolerance test on a rational that is an integer -/
theorem rabs_gt_iff_of_int (q : Rat) (n : Int) (h : q = n) (tol : Rat) (h0 : 0 ≤ tol) (h1 : tol < 1) :
    rabs q > tol ↔ q ≠ 0 := by
  rw [h, abs_gt_tol_iff n tol h0 h1]; exact_mod_cast Iff.rfl

theorem rabs_lt_iff_of_int (q : Rat) (n : Int) (h : q = n) (tol : Rat) (h0 : 0 < tol) (h1 : tol ≤ 1) :
    rabs q < tol ↔ q = 0 := by
  rw [h, abs_lt_tol_iff n tol h0 h1]; exact_mod_cast Iff.rfl

/-! ## §6  Soundness of the specification: its points are the common points of the segments -/

theorem onSeg3_iff_lineAt (p a b : P3) :
    OnSeg3 p a b ↔ ∃ t : Rat, 0 ≤ t ∧ t ≤ 1 ∧ p = lineAt a b t := by
  constructor
  · rintro ⟨t, h0, h1, hx, hy, hz⟩
    exact ⟨t, h0, h1, by cases p; simp only [lineAt, P3.mk.injEq]; exact ⟨hx, hy, hz⟩⟩
  · rintro ⟨t, h0, h1, rfl⟩
    exact ⟨t, h0, h1, rfl, rfl, rfl⟩

theorem lineAt_inj (a b : P3) (hd : b.x - a.x ≠ 0 ∨ b.y - a.y ≠ 0 ∨ b.z - a.z ≠ 0) (s t : Rat)
    (h : lineAt a b s = lineAt a b t) : s = t := by
  simp only [lineAt, P3.mk.injEq] at h
  obtain ⟨hx, hy, hz⟩ := h
  rcases hd with h | h | h
  · exact mul_right_cancel₀ h (by linarith)
  · exact mul_right_cancel₀ h (by linarith)
  · exact mul_right_cancel₀ h (by linarith)

theorem lineAt_lineAt (a b : P3) (s t u : Rat) :
    lineAt (lineAt a b s) (lineAt a b t) u = lineAt a b (s + u * (t - s)) := by
  simp only [lineAt, P3.mk.injEq]
  refine ⟨?_, ?_, ?_⟩ <;> ring

theorem between_iff (ts te s : Rat) (hne : ts ≠ te) :
    (min ts te ≤ s ∧ s ≤ max ts te) ↔ ∃ t : Rat, 0 ≤ t ∧ t ≤ 1 ∧ s = ts + t * (te - ts) := by
  constructor
  · rintro ⟨h1, h2⟩
    have hd : te - ts ≠ 0 := sub_ne_zero.mpr (Ne.symm hne)
    refine ⟨(s - ts) / (te - ts), ?_, ?_, by field_simp; ring⟩
    · rcases lt_or_gt_of_ne hne with h | h
      · rw [min_eq_left (le_of_lt h)] at h1
        exact div_nonneg (by linarith) (by linarith)
      · rw [min_eq_right (le_of_lt h)] at h1; rw [max_eq_left (le_of_lt h)] at h2
        exact div_nonneg_of_nonpos (by linarith) (by linarith)
    · rcases lt_or_gt_of_ne hne with h | h
      · rw [max_eq_right (le_of_lt h)] at h2
        rw [div_le_one (by linarith)]; linarith
      · rw [min_eq_right (le_of_lt h)] at h1
        rw [div_le_one_of_neg (by linarith)]; linarith
  · rintro ⟨t, h0, h1, rfl⟩
    rcases lt_or_gt_of_ne hne with h | h
    · rw [min_eq_left (le_of_lt h), max_eq_right (le_of_lt h)]
      constructor <;> nlinarith
    · rw [min_eq_right (le_of_lt h), max_eq_left (le_of_lt h)]
      constructor <;> nlinarith

theorem mem_overlapParam_iff (p a b : P3) (ts te : Rat) :
    Res.Mem3 p (overlapParam (lineAt a b) ts te) ↔
      ∃ s : Rat, max (min ts te) 0 ≤ s ∧ s ≤ min (max ts te) 1 ∧ p = lineAt a b s := by
  unfold overlapParam
  simp only []
  generalize max (min ts te) 0 = lo
  generalize min (max ts te) 1 = hi
  by_cases h1 : hi < lo
  · rw [if_pos h1]
    simp only [Res.Mem3, false_iff]
    rintro ⟨s, h2, h3, -⟩; linarith
  · rw [if_neg h1]
    by_cases h2 : lo = hi
    · rw [if_pos h2]
      simp only [Res.Mem3]
      constructor
      · rintro rfl; exact ⟨lo, le_refl _, le_of_eq h2, rfl⟩
      · rintro ⟨s, h3, h4, rfl⟩
        have : s = lo := le_antisymm (by linarith) h3
        rw [this]
    · rw [if_neg h2]
      have hlt : lo < hi := lt_of_le_of_ne (not_lt.mp h1) h2
      simp only [Res.Mem3, onSeg3_iff_lineAt, lineAt_lineAt]
      constructor
      · rintro ⟨u, h3, h4, rfl⟩
        exact ⟨lo + u * (hi - lo), by nlinarith, by nlinarith, rfl⟩
      · rintro ⟨s, h3, h4, rfl⟩
        refine ⟨(s - lo) / (hi - lo), div_nonneg (by linarith) (by linarith), ?_, ?_⟩
        · rw [div_le_one (by linarith)]; linarith
        · congr 1; field_simp; ring

theorem col_mem_iff (p a b : P3) (hd : b.x - a.x ≠ 0 ∨ b.y - a.y ≠ 0 ∨ b.z - a.z ≠ 0) (ts te : Rat) (hne : ts ≠ te) :
    (OnSeg3 p a b ∧ OnSeg3 p (lineAt a b ts) (lineAt a b te)) ↔
      Res.Mem3 p (overlapParam (lineAt a b) ts te) := by
  rw [mem_overlapParam_iff]
  simp only [onSeg3_iff_lineAt, lineAt_lineAt]
  constructor
  · rintro ⟨⟨s, h0, h1, rfl⟩, ⟨t, h2, h3, h4⟩⟩
    have hs := lineAt_inj a b hd _ _ h4
    have hb := (between_iff ts te s hne).mpr ⟨t, h2, h3, hs⟩
    exact ⟨s, max_le hb.1 h0, le_min hb.2 h1, rfl⟩
  · rintro ⟨s, h1, h2, rfl⟩
    have h3 := le_trans (le_max_left _ _) h1
    have h4 := le_trans (le_max_right _ _) h1
    have h5 := le_trans h2 (min_le_left _ _)
    have h6 := le_trans h2 (min_le_right _ _)
    obtain ⟨t, ht0, ht1, hst⟩ := (between_iff ts te s hne).mp ⟨h3, h5⟩
    exact ⟨⟨s, h4, h6, rfl⟩, ⟨t, ht0, ht1, by rw [hst]⟩⟩

theorem cross_unique (u1 v1 w1 u2 v2 w2 sx sy sz s t : Rat)
    (hx : s * u1 - t * u2 = sx) (hy : s * v1 - t * v2 = sy) (hz : s * w1 - t * w2 = sz) :
    sx * (v1 * w2 - w1 * v2) + sy * (w1 * u2 - u1 * w2) + sz * (u1 * v2 - v1 * u2) = 0 ∧
    s * ((v1 * w2 - w1 * v2) * (v1 * w2 - w1 * v2) + (w1 * u2 - u1 * w2) * (w1 * u2 - u1 * w2)
        + (u1 * v2 - v1 * u2) * (u1 * v2 - v1 * u2))
      = (sy * w2 - sz * v2) * (v1 * w2 - w1 * v2) + (sz * u2 - sx * w2) * (w1 * u2 - u1 * w2)
        + (sx * v2 - sy * u2) * (u1 * v2 - v1 * u2) ∧
    t * ((v1 * w2 - w1 * v2) * (v1 * w2 - w1 * v2) + (w1 * u2 - u1 * w2) * (w1 * u2 - u1 * w2)
        + (u1 * v2 - v1 * u2) * (u1 * v2 - v1 * u2))
      = (sy * w1 - sz * v1) * (v1 * w2 - w1 * v2) + (sz * u1 - sx * w1) * (w1 * u2 - u1 * w2)
        + (sx * v1 - sy * u1) * (u1 * v2 - v1 * u2) := by
  subst hx hy hz
  refine ⟨by ring, by ring, by ring⟩

theorem cross_exist (u1 v1 w1 u2 v2 w2 sx sy sz : Rat)
    (hdn : sx * (v1 * w2 - w1 * v2) + sy * (w1 * u2 - u1 * w2) + sz * (u1 * v2 - v1 * u2) = 0)
    (hnn : (v1 * w2 - w1 * v2) * (v1 * w2 - w1 * v2) + (w1 * u2 - u1 * w2) * (w1 * u2 - u1 * w2)
        + (u1 * v2 - v1 * u2) * (u1 * v2 - v1 * u2) ≠ 0) :
    let t1 := ((sy * w2 - sz * v2) * (v1 * w2 - w1 * v2) + (sz * u2 - sx * w2) * (w1 * u2 - u1 * w2)
        + (sx * v2 - sy * u2) * (u1 * v2 - v1 * u2)) /
      ((v1 * w2 - w1 * v2) * (v1 * w2 - w1 * v2) + (w1 * u2 - u1 * w2) * (w1 * u2 - u1 * w2)
        + (u1 * v2 - v1 * u2) * (u1 * v2 - v1 * u2))
    let t2 := ((sy * w1 - sz * v1) * (v1 * w2 - w1 * v2) + (sz * u1 - sx * w1) * (w1 * u2 - u1 * w2)
        + (sx * v1 - sy * u1) * (u1 * v2 - v1 * u2)) /
      ((v1 * w2 - w1 * v2) * (v1 * w2 - w1 * v2) + (w1 * u2 - u1 * w2) * (w1 * u2 - u1 * w2)
        + (u1 * v2 - v1 * u2) * (u1 * v2 - v1 * u2))
    t1 * u1 - t2 * u2 = sx ∧ t1 * v1 - t2 * v2 = sy ∧ t1 * w1 - t2 * w2 = sz := by
  intro t1 t2
  simp only [t1, t2]
  generalize hN : (v1 * w2 - w1 * v2) * (v1 * w2 - w1 * v2) + (w1 * u2 - u1 * w2) * (w1 * u2 - u1 * w2)
        + (u1 * v2 - v1 * u2) * (u1 * v2 - v1 * u2) = N at hnn
  refine ⟨?_, ?_, ?_⟩ <;> field_simp <;> rw [← hN]
  · linear_combination (-(v1 * w2 - w1 * v2)) * hdn
  · linear_combination (-(w1 * u2 - u1 * w2)) * hdn
  · linear_combination (-(u1 * v2 - v1 * u2)) * hdn


/-- colinear configuration: `c` and `d` are points of line 1, at the parameters used by the specification -/
theorem col_points (a b c d : P3)
    (pxy : (b.x - a.x) * (d.y - c.y) - (b.y - a.y) * (d.x - c.x) = 0)
    (pxz : (b.x - a.x) * (d.z - c.z) - (b.z - a.z) * (d.x - c.x) = 0)
    (pyz : (b.y - a.y) * (d.z - c.z) - (b.z - a.z) * (d.y - c.y) = 0)
    (hcx : (c.y - a.y) * (b.z - a.z) - (c.z - a.z) * (b.y - a.y) = 0)
    (hcy : (c.z - a.z) * (b.x - a.x) - (c.x - a.x) * (b.z - a.z) = 0)
    (hcz : (c.x - a.x) * (b.y - a.y) - (c.y - a.y) * (b.x - a.x) = 0)
    (nd1 : b.x - a.x ≠ 0 ∨ b.y - a.y ≠ 0 ∨ b.z - a.z ≠ 0) :
    c = lineAt a b (((c.x - a.x) * (b.x - a.x) + (c.y - a.y) * (b.y - a.y) + (c.z - a.z) * (b.z - a.z)) /
          ((b.x - a.x) * (b.x - a.x) + (b.y - a.y) * (b.y - a.y) + (b.z - a.z) * (b.z - a.z))) ∧
    d = lineAt a b (((d.x - a.x) * (b.x - a.x) + (d.y - a.y) * (b.y - a.y) + (d.z - a.z) * (b.z - a.z)) /
          ((b.x - a.x) * (b.x - a.x) + (b.y - a.y) * (b.y - a.y) + (b.z - a.z) * (b.z - a.z))) := by
  obtain ⟨c1, c2, c3⟩ := proj_of_cross (c.x - a.x) (c.y - a.y) (c.z - a.z) (b.x - a.x) (b.y - a.y) (b.z - a.z)
    hcx hcy hcz nd1
  obtain ⟨d1', d2', d3'⟩ := proj_of_cross (d.x - a.x) (d.y - a.y) (d.z - a.z) (b.x - a.x) (b.y - a.y) (b.z - a.z)
    (by linarith) (by linarith) (by linarith) nd1
  generalize ((c.x - a.x) * (b.x - a.x) + (c.y - a.y) * (b.y - a.y) + (c.z - a.z) * (b.z - a.z)) /
        ((b.x - a.x) * (b.x - a.x) + (b.y - a.y) * (b.y - a.y) + (b.z - a.z) * (b.z - a.z)) = ts at c1 c2 c3 ⊢
  generalize ((d.x - a.x) * (b.x - a.x) + (d.y - a.y) * (b.y - a.y) + (d.z - a.z) * (b.z - a.z)) /
        ((b.x - a.x) * (b.x - a.x) + (b.y - a.y) * (b.y - a.y) + (b.z - a.z) * (b.z - a.z)) = te at d1' d2' d3' ⊢
  constructor
  · cases c; simp only [lineAt, P3.mk.injEq] at *
    exact ⟨by linarith, by linarith, by linarith⟩
  · cases d; simp only [lineAt, P3.mk.injEq] at *
    exact ⟨by linarith, by linarith, by linarith⟩

theorem segInter3_cross (a b c d : P3)
    (hn : (b.y - a.y) * (d.z - c.z) - (b.z - a.z) * (d.y - c.y) ≠ 0 ∨
        (b.z - a.z) * (d.x - c.x) - (b.x - a.x) * (d.z - c.z) ≠ 0 ∨
        (b.x - a.x) * (d.y - c.y) - (b.y - a.y) * (d.x - c.x) ≠ 0) :
    segInter3 a b c d = spec3Cross a (b.x - a.x) (b.y - a.y) (b.z - a.z) (d.x - c.x) (d.y - c.y) (d.z - c.z)
      (c.x - a.x) (c.y - a.y) (c.z - a.z) := by
  unfold segInter3 spec3Cross
  simp only []
  rw [if_pos hn]

/-- the non-parallel branch of the specification: its point is the unique common point of the
    two segments `a + s·d1` and `(a + ds) + t·d2`, `s, t ∈ [0,1]` -/
theorem mem_spec3Cross_iff (p a : P3) (u1 v1 w1 u2 v2 w2 sx sy sz : Rat)
    (hn : v1 * w2 - w1 * v2 ≠ 0 ∨ w1 * u2 - u1 * w2 ≠ 0 ∨ u1 * v2 - v1 * u2 ≠ 0) :
    Res.Mem3 p (spec3Cross a u1 v1 w1 u2 v2 w2 sx sy sz) ↔
      ∃ s t : Rat, 0 ≤ s ∧ s ≤ 1 ∧ 0 ≤ t ∧ t ≤ 1 ∧
        p.x = a.x + s * u1 ∧ p.y = a.y + s * v1 ∧ p.z = a.z + s * w1 ∧
        p.x = a.x + sx + t * u2 ∧ p.y = a.y + sy + t * v2 ∧ p.z = a.z + sz + t * w2 := by
  have hnn : (v1 * w2 - w1 * v2) * (v1 * w2 - w1 * v2) + (w1 * u2 - u1 * w2) * (w1 * u2 - u1 * w2)
      + (u1 * v2 - v1 * u2) * (u1 * v2 - v1 * u2) ≠ 0 := by
    rcases hn with h | h | h <;> have := mul_self_pos.mpr h <;>
      nlinarith [mul_self_nonneg (v1 * w2 - w1 * v2), mul_self_nonneg (w1 * u2 - u1 * w2),
        mul_self_nonneg (u1 * v2 - v1 * u2)]
  have huniq := cross_unique u1 v1 w1 u2 v2 w2 sx sy sz
  unfold spec3Cross
  simp only []
  by_cases hdn : sx * (v1 * w2 - w1 * v2) + sy * (w1 * u2 - u1 * w2) + sz * (u1 * v2 - v1 * u2) = 0
  · rw [if_neg (not_not.mpr hdn)]
    obtain ⟨ex, ey, ez⟩ := cross_exist u1 v1 w1 u2 v2 w2 sx sy sz hdn hnn
    generalize (sy * w2 - sz * v2) * (v1 * w2 - w1 * v2) + (sz * u2 - sx * w2) * (w1 * u2 - u1 * w2)
        + (sx * v2 - sy * u2) * (u1 * v2 - v1 * u2) = N1 at *
    generalize (sy * w1 - sz * v1) * (v1 * w2 - w1 * v2) + (sz * u1 - sx * w1) * (w1 * u2 - u1 * w2)
        + (sx * v1 - sy * u1) * (u1 * v2 - v1 * u2) = N2 at *
    generalize (v1 * w2 - w1 * v2) * (v1 * w2 - w1 * v2) + (w1 * u2 - u1 * w2) * (w1 * u2 - u1 * w2)
      + (u1 * v2 - v1 * u2) * (u1 * v2 - v1 * u2) = NN at *
    have hst : ∀ s t : Rat, s * u1 - t * u2 = sx → s * v1 - t * v2 = sy → s * w1 - t * w2 = sz →
        s = N1 / NN ∧ t = N2 / NN := by
      intro s t hx hy hz
      obtain ⟨-, h1, h2⟩ := huniq s t hx hy hz
      exact ⟨by rw [eq_div_iff hnn]; exact h1, by rw [eq_div_iff hnn]; exact h2⟩
    by_cases hr : 0 ≤ N1 / NN ∧ N1 / NN ≤ 1 ∧ 0 ≤ N2 / NN ∧ N2 / NN ≤ 1
    · rw [if_pos hr]
      simp only [Res.Mem3]
      constructor
      · rintro rfl
        refine ⟨N1 / NN, N2 / NN, hr.1, hr.2.1, hr.2.2.1, hr.2.2.2, rfl, rfl, rfl, ?_, ?_, ?_⟩
        · show a.x + N1 / NN * u1 = _; linarith
        · show a.y + N1 / NN * v1 = _; linarith
        · show a.z + N1 / NN * w1 = _; linarith
      · rintro ⟨s, t, -, -, -, -, hx, hy, hz, hx', hy', hz'⟩
        obtain ⟨rfl, rfl⟩ := hst s t (by linarith) (by linarith) (by linarith)
        cases p; simp only [P3.mk.injEq] at *
        exact ⟨hx, hy, hz⟩
    · rw [if_neg hr]
      simp only [Res.Mem3, false_iff]
      rintro ⟨s, t, s0, s1, t0, t1, hx, hy, hz, hx', hy', hz'⟩
      obtain ⟨rfl, rfl⟩ := hst s t (by linarith) (by linarith) (by linarith)
      exact hr ⟨s0, s1, t0, t1⟩
  · rw [if_pos hdn]
    simp only [Res.Mem3, false_iff]
    rintro ⟨s, t, -, -, -, -, hx, hy, hz, hx', hy', hz'⟩
    exact hdn (huniq s t (by linarith) (by linarith) (by linarith)).1

/-- SOUNDNESS of the 3-D specification: the points of `segInter3 a b c d` are exactly the common
    points of the two closed segments (for segments of positive length) -/
theorem mem_segInter3_iff' (p a b c d : P3)
    (nd1 : b.x - a.x ≠ 0 ∨ b.y - a.y ≠ 0 ∨ b.z - a.z ≠ 0)
    (nd2 : d.x - c.x ≠ 0 ∨ d.y - c.y ≠ 0 ∨ d.z - c.z ≠ 0) :
    Res.Mem3 p (segInter3 a b c d) ↔ OnSeg3 p a b ∧ OnSeg3 p c d := by
  by_cases hpar : (b.x - a.x) * (d.y - c.y) - (b.y - a.y) * (d.x - c.x) = 0 ∧
      (b.x - a.x) * (d.z - c.z) - (b.z - a.z) * (d.x - c.x) = 0 ∧
      (b.y - a.y) * (d.z - c.z) - (b.z - a.z) * (d.y - c.y) = 0
  · obtain ⟨pxy, pxz, pyz⟩ := hpar
    rw [segInter3_parallel a b c d pxy pxz pyz]
    by_cases hcol : (c.y - a.y) * (b.z - a.z) - (c.z - a.z) * (b.y - a.y) ≠ 0 ∨
         (c.z - a.z) * (b.x - a.x) - (c.x - a.x) * (b.z - a.z) ≠ 0 ∨
         (c.x - a.x) * (b.y - a.y) - (c.y - a.y) * (b.x - a.x) ≠ 0
    · rw [if_pos hcol]
      simp only [Res.Mem3, false_iff]
      rintro ⟨⟨s, -, -, hx, hy, hz⟩, ⟨t, -, -, hx', hy', hz'⟩⟩
      have ex : c.x - a.x = s * (b.x - a.x) - t * (d.x - c.x) := by linarith
      have ey : c.y - a.y = s * (b.y - a.y) - t * (d.y - c.y) := by linarith
      have ez : c.z - a.z = s * (b.z - a.z) - t * (d.z - c.z) := by linarith
      rcases hcol with h | h | h <;> apply h
      · rw [ey, ez]; linear_combination t * pyz
      · rw [ez, ex]; linear_combination (-t) * pxz
      · rw [ex, ey]; linear_combination t * pxy
    · rw [if_neg hcol]
      have hcx : (c.y - a.y) * (b.z - a.z) - (c.z - a.z) * (b.y - a.y) = 0 := by
        by_contra h; exact hcol (Or.inl h)
      have hcy : (c.z - a.z) * (b.x - a.x) - (c.x - a.x) * (b.z - a.z) = 0 := by
        by_contra h; exact hcol (Or.inr (Or.inl h))
      have hcz : (c.x - a.x) * (b.y - a.y) - (c.y - a.y) * (b.x - a.x) = 0 := by
        by_contra h; exact hcol (Or.inr (Or.inr h))
      obtain ⟨hc, hd⟩ := col_points a b c d pxy pxz pyz hcx hcy hcz nd1
      generalize ((c.x - a.x) * (b.x - a.x) + (c.y - a.y) * (b.y - a.y) + (c.z - a.z) * (b.z - a.z)) /
        ((b.x - a.x) * (b.x - a.x) + (b.y - a.y) * (b.y - a.y) + (b.z - a.z) * (b.z - a.z)) = ts at hc ⊢
      generalize ((d.x - a.x) * (b.x - a.x) + (d.y - a.y) * (b.y - a.y) + (d.z - a.z) * (b.z - a.z)) /
        ((b.x - a.x) * (b.x - a.x) + (b.y - a.y) * (b.y - a.y) + (b.z - a.z) * (b.z - a.z)) = te at hd ⊢
      have hne : ts ≠ te := by
        rintro rfl
        rw [hc, hd] at nd2
        simp at nd2
      rw [← col_mem_iff p a b nd1 ts te hne, ← hc, ← hd]
  · -- non-parallel lines
    have hn : (b.y - a.y) * (d.z - c.z) - (b.z - a.z) * (d.y - c.y) ≠ 0 ∨
        (b.z - a.z) * (d.x - c.x) - (b.x - a.x) * (d.z - c.z) ≠ 0 ∨
        (b.x - a.x) * (d.y - c.y) - (b.y - a.y) * (d.x - c.x) ≠ 0 := by
      by_contra hc
      apply hpar
      refine ⟨?_, ?_, ?_⟩
      · by_contra h; exact hc (Or.inr (Or.inr h))
      · by_contra h; apply hc; right; left; intro h2; apply h; linarith
      · by_contra h; exact hc (Or.inl h)
    rw [segInter3_cross a b c d hn, mem_spec3Cross_iff p a _ _ _ _ _ _ _ _ _ hn]
    constructor
    · rintro ⟨s, t, s0, s1, t0, t1, hx, hy, hz, hx', hy', hz'⟩
      exact ⟨⟨s, s0, s1, hx, hy, hz⟩, ⟨t, t0, t1, by linarith, by linarith, by linarith⟩⟩
    · rintro ⟨⟨s, s0, s1, hx, hy, hz⟩, ⟨t, t0, t1, hx', hy', hz'⟩⟩
      exact ⟨s, t, s0, s1, t0, t1, hx, hy, hz, by linarith, by linarith, by linarith⟩


theorem P3.delta_ne {p q : P3} (h : p ≠ q) : q.x - p.x ≠ 0 ∨ q.y - p.y ≠ 0 ∨ q.z - p.z ≠ 0 := by
  by_contra hc
  apply h
  have hx : q.x - p.x = 0 := by by_contra h'; exact hc (Or.inl h')
  have hy : q.y - p.y = 0 := by by_contra h'; exact hc (Or.inr (Or.inl h'))
  have hz : q.z - p.z = 0 := by by_contra h'; exact hc (Or.inr (Or.inr h'))
  cases p; cases q; simp only [P3.mk.injEq] at *
  exact ⟨by linarith, by linarith, by linarith⟩

theorem onSeg3_left (p q : P3) : OnSeg3 p p q := ⟨0, le_refl _, zero_le_one, by ring, by ring, by ring⟩
theorem onSeg3_right (p q : P3) : OnSeg3 q p q := ⟨1, zero_le_one, le_refl _, by ring, by ring, by ring⟩

theorem onSeg3_swap (p a b : P3) : OnSeg3 p a b ↔ OnSeg3 p b a := by
  constructor <;> rintro ⟨t, h0, h1, hx, hy, hz⟩ <;>
    exact ⟨1 - t, by linarith, by linarith, by rw [hx]; ring, by rw [hy]; ring, by rw [hz]; ring⟩

/-- two segments with the same point set have the same end points -/
theorem seg_ends_of_mem_iff (p q p' q' : P3) (_hpq : p ≠ q) (hpq' : p' ≠ q')
    (h : ∀ x, OnSeg3 x p q ↔ OnSeg3 x p' q') : (p = p' ∧ q = q') ∨ (p = q' ∧ q = p') := by
  obtain ⟨α, a0, a1, hp⟩ := (onSeg3_iff_lineAt _ _ _).mp ((h p).mp (onSeg3_left p q))
  obtain ⟨β, b0, b1, hq⟩ := (onSeg3_iff_lineAt _ _ _).mp ((h q).mp (onSeg3_right p q))
  obtain ⟨γ, c0, c1, hp'⟩ := (onSeg3_iff_lineAt _ _ _).mp ((h p').mpr (onSeg3_left p' q'))
  obtain ⟨δ, d0, d1, hq'⟩ := (onSeg3_iff_lineAt _ _ _).mp ((h q').mpr (onSeg3_right p' q'))
  have e1 : α + γ * (β - α) = 0 := by
    apply lineAt_inj p' q' (P3.delta_ne hpq')
    rw [← lineAt_lineAt, ← hp, ← hq, ← hp', lineAt_zero]
  have e2 : α + δ * (β - α) = 1 := by
    apply lineAt_inj p' q' (P3.delta_ne hpq')
    rw [← lineAt_lineAt, ← hp, ← hq, ← hq', lineAt_one]
  have e3 : (δ - γ) * (β - α) = 1 := by linarith
  rcases lt_trichotomy (β - α) 0 with hneg | hz | hpos
  · right
    have : β - α ≤ -1 := by nlinarith
    have hα : α = 1 := by linarith
    have hβ : β = 0 := by linarith
    rw [hα, lineAt_one] at hp; rw [hβ, lineAt_zero] at hq
    exact ⟨hp, hq⟩
  · rw [hz] at e3; simp at e3
  · left
    have : 1 ≤ β - α := by nlinarith
    have hα : α = 0 := by linarith
    have hβ : β = 1 := by linarith
    rw [hα, lineAt_zero] at hp; rw [hβ, lineAt_one] at hq
    exact ⟨hp, hq⟩

/-- a well-formed result is determined (up to the order of segment end points) by its point set -/
theorem same_of_mem_iff (r s : Res P3) (hr : r.WF) (hs : s.WF) (h : ∀ x, Res.Mem3 x r ↔ Res.Mem3 x s) :
    Res.same r s := by
  cases r with
  | none =>
    cases s with
    | none => trivial
    | point q => exact ((h q).mpr rfl).elim
    | segment q q' => exact ((h q).mpr (onSeg3_left q q')).elim
    | err e => exact hs.elim
  | point p =>
    cases s with
    | none => exact ((h p).mp rfl).elim
    | point q => exact (h p).mp rfl
    | segment q q' =>
      have h1 : q = p := (h q).mpr (onSeg3_left q q')
      have h2 : q' = p := (h q').mpr (onSeg3_right q q')
      exact (hs (h1.trans h2.symm)).elim
    | err e => exact hs.elim
  | segment p p' =>
    cases s with
    | none => exact ((h p).mp (onSeg3_left p p')).elim
    | point q =>
      have h1 : p = q := (h p).mp (onSeg3_left p p')
      have h2 : p' = q := (h p').mp (onSeg3_right p p')
      exact (hr (h1.trans h2.symm)).elim
    | segment q q' => exact seg_ends_of_mem_iff p p' q q' hr hs h
    | err e => exact hs.elim
  | err e => exact hr.elim

theorem overlapParam_WF (a b : P3) (hd : b.x - a.x ≠ 0 ∨ b.y - a.y ≠ 0 ∨ b.z - a.z ≠ 0) (ts te : Rat) :
    (overlapParam (lineAt a b) ts te).WF := by
  unfold overlapParam
  simp only []
  split_ifs with h1 h2
  · trivial
  · trivial
  · exact fun h => h2 (lineAt_inj a b hd _ _ h)

theorem segInter3_WF (a b c d : P3) (nd1 : b.x - a.x ≠ 0 ∨ b.y - a.y ≠ 0 ∨ b.z - a.z ≠ 0) :
    (segInter3 a b c d).WF := by
  unfold segInter3
  simp only []
  split_ifs
  · trivial
  · trivial
  · trivial
  · trivial
  · exact overlapParam_WF a b nd1 _ _

/-! ## §7  Symmetry, and the 2-D statements through the embedding z = 0 -/

theorem Res.same_symm {α : Type} {r s : Res α} (h : Res.same r s) : Res.same s r := by
  cases r <;> cases s <;> simp only [Res.same] at h ⊢
  · exact h.symm
  · rcases h with ⟨h1, h2⟩ | ⟨h1, h2⟩
    · left; exact ⟨h1.symm, h2.symm⟩
    · right; exact ⟨h2.symm, h1.symm⟩
  · exact h.symm

theorem Res.same_trans {α : Type} {r s t : Res α} (h1 : Res.same r s) (h2 : Res.same s t) : Res.same r t := by
  cases r <;> cases s <;> cases t <;> simp only [Res.same] at h1 h2 ⊢
  · exact h1.trans h2
  · rcases h1 with ⟨a1, a2⟩ | ⟨a1, a2⟩ <;> rcases h2 with ⟨b1, b2⟩ | ⟨b1, b2⟩
    · left; exact ⟨a1.trans b1, a2.trans b2⟩
    · right; exact ⟨a1.trans b1, a2.trans b2⟩
    · right; exact ⟨a1.trans b2, a2.trans b1⟩
    · left; exact ⟨a1.trans b2, a2.trans b1⟩
  · exact h1.trans h2

/-- symmetry of the 3-D specification in all argument orders (as point sets of the same kind) -/
theorem segInter3_symm (a b c d : P3)
    (nd1 : b.x - a.x ≠ 0 ∨ b.y - a.y ≠ 0 ∨ b.z - a.z ≠ 0)
    (nd2 : d.x - c.x ≠ 0 ∨ d.y - c.y ≠ 0 ∨ d.z - c.z ≠ 0) :
    Res.same (segInter3 a b c d) (segInter3 c d a b) ∧
    Res.same (segInter3 a b c d) (segInter3 b a c d) ∧
    Res.same (segInter3 a b c d) (segInter3 a b d c) := by
  have nd1' : a.x - b.x ≠ 0 ∨ a.y - b.y ≠ 0 ∨ a.z - b.z ≠ 0 := by
    rcases nd1 with h | h | h
    · left; intro h'; apply h; linarith
    · right; left; intro h'; apply h; linarith
    · right; right; intro h'; apply h; linarith
  have nd2' : c.x - d.x ≠ 0 ∨ c.y - d.y ≠ 0 ∨ c.z - d.z ≠ 0 := by
    rcases nd2 with h | h | h
    · left; intro h'; apply h; linarith
    · right; left; intro h'; apply h; linarith
    · right; right; intro h'; apply h; linarith
  refine ⟨?_, ?_, ?_⟩
  · apply same_of_mem_iff _ _ (segInter3_WF a b c d nd1) (segInter3_WF c d a b nd2)
    intro x
    rw [mem_segInter3_iff' x a b c d nd1 nd2, mem_segInter3_iff' x c d a b nd2 nd1, and_comm]
  · apply same_of_mem_iff _ _ (segInter3_WF a b c d nd1) (segInter3_WF b a c d nd1')
    intro x
    rw [mem_segInter3_iff' x a b c d nd1 nd2, mem_segInter3_iff' x b a c d nd1' nd2, onSeg3_swap x a b]
  · apply same_of_mem_iff _ _ (segInter3_WF a b c d nd1) (segInter3_WF a b d c nd1)
    intro x
    rw [mem_segInter3_iff' x a b c d nd1 nd2, mem_segInter3_iff' x a b d c nd1 nd2', onSeg3_swap x c d]

/-! ### 2-D through the embedding `z = 0` -/

def emb (p : P2) : P3 := ⟨p.x, p.y, 0⟩

def Res.map {α β : Type} (f : α → β) : Res α → Res β
  | .none => .none
  | .point p => .point (f p)
  | .segment p q => .segment (f p) (f q)
  | .err e => .err e

theorem emb_inj {p q : P2} (h : emb p = emb q) : p = q := by
  cases p; cases q; simp only [emb, P3.mk.injEq] at h; simp [h.1, h.2.1]

theorem overlapParam_map {α β : Type} (f : α → β) (g : Rat → α) (ts te : Rat) :
    overlapParam (fun t => f (g t)) ts te = (overlapParam g ts te).map f := by
  unfold overlapParam
  simp only []
  split_ifs <;> rfl

theorem segInter3_emb (a b c d : P2) :
    segInter3 (emb a) (emb b) (emb c) (emb d) = (segInter2 a b c d).map emb := by
  unfold segInter3 segInter2
  simp only [emb, sub_self, mul_zero, zero_mul, add_zero, zero_add, ne_eq,
    not_true_eq_false, false_or, if_false]
  by_cases hdet : (b.x - a.x) * (d.y - c.y) - (b.y - a.y) * (d.x - c.x) = 0
  · simp only [hdet, not_true_eq_false, if_false]
    by_cases hscl : (c.x - a.x) * (b.y - a.y) - (c.y - a.y) * (b.x - a.x) = 0
    · simp only [hscl, not_true_eq_false, if_false]
      exact overlapParam_map emb (fun t => (⟨a.x + t * (b.x - a.x), a.y + t * (b.y - a.y)⟩ : P2)) _ _
    · simp only [hscl, not_false_eq_true, if_true, Res.map]
  · simp only [hdet, not_false_eq_true, if_true]
    have e1 : ∀ N : Rat, N * ((b.x - a.x) * (d.y - c.y) - (b.y - a.y) * (d.x - c.x)) /
        (((b.x - a.x) * (d.y - c.y) - (b.y - a.y) * (d.x - c.x)) * ((b.x - a.x) * (d.y - c.y) - (b.y - a.y) * (d.x - c.x)))
        = N / ((b.x - a.x) * (d.y - c.y) - (b.y - a.y) * (d.x - c.x)) := fun N => mul_div_mul_right _ _ hdet
    simp only [e1]
    split_ifs <;> rfl

theorem onSeg2_iff_emb (p a b : P2) : OnSeg2 p a b ↔ OnSeg3 (emb p) (emb a) (emb b) := by
  constructor
  · rintro ⟨t, h0, h1, hx, hy⟩
    exact ⟨t, h0, h1, hx, hy, by simp [emb]⟩
  · rintro ⟨t, h0, h1, hx, hy, -⟩
    exact ⟨t, h0, h1, hx, hy⟩

theorem mem2_iff_emb (p : P2) (r : Res P2) : Res.Mem2 p r ↔ Res.Mem3 (emb p) (r.map emb) := by
  cases r with
  | none => simp [Res.Mem2, Res.Mem3, Res.map]
  | point q =>
    simp only [Res.Mem2, Res.Mem3, Res.map]
    exact ⟨fun h => by rw [h], emb_inj⟩
  | segment q q' => simp only [Res.Mem2, Res.Mem3, Res.map]; exact onSeg2_iff_emb p q q'
  | err e => simp [Res.Mem2, Res.Mem3, Res.map]

theorem same_of_map_emb {r s : Res P2} (h : Res.same (r.map emb) (s.map emb)) : Res.same r s := by
  cases r <;> cases s <;> simp only [Res.same, Res.map] at h ⊢
  · exact emb_inj h
  · rcases h with ⟨h1, h2⟩ | ⟨h1, h2⟩
    · left; exact ⟨emb_inj h1, emb_inj h2⟩
    · right; exact ⟨emb_inj h1, emb_inj h2⟩
  · exact h

theorem emb_delta {a b : P2} (h : b.x - a.x ≠ 0 ∨ b.y - a.y ≠ 0) :
    (emb b).x - (emb a).x ≠ 0 ∨ (emb b).y - (emb a).y ≠ 0 ∨ (emb b).z - (emb a).z ≠ 0 := by
  rcases h with h | h
  · left; exact h
  · right; left; exact h

theorem mem_segInter2_iff' (p a b c d : P2) (nd1 : b.x - a.x ≠ 0 ∨ b.y - a.y ≠ 0) (nd2 : d.x - c.x ≠ 0 ∨ d.y - c.y ≠ 0) :
    Res.Mem2 p (segInter2 a b c d) ↔ OnSeg2 p a b ∧ OnSeg2 p c d := by
  rw [mem2_iff_emb, ← segInter3_emb, mem_segInter3_iff' _ _ _ _ _ (emb_delta nd1) (emb_delta nd2),
    onSeg2_iff_emb, onSeg2_iff_emb]

theorem segInter2_symm (a b c d : P2) (nd1 : b.x - a.x ≠ 0 ∨ b.y - a.y ≠ 0) (nd2 : d.x - c.x ≠ 0 ∨ d.y - c.y ≠ 0) :
    Res.same (segInter2 a b c d) (segInter2 c d a b) ∧
    Res.same (segInter2 a b c d) (segInter2 b a c d) ∧
    Res.same (segInter2 a b c d) (segInter2 a b d c) := by
  obtain ⟨h1, h2, h3⟩ := segInter3_symm (emb a) (emb b) (emb c) (emb d) (emb_delta nd1) (emb_delta nd2)
  simp only [segInter3_emb] at h1 h2 h3
  exact ⟨same_of_map_emb h1, same_of_map_emb h2, same_of_map_emb h3⟩

theorem segInter2_WF (a b c d : P2) (nd1 : b.x - a.x ≠ 0 ∨ b.y - a.y ≠ 0) : (segInter2 a b c d).WF := by
  have := segInter3_WF (emb a) (emb b) (emb c) (emb d) (emb_delta nd1)
  rw [segInter3_emb] at this
  cases h : segInter2 a b c d with
  | none => trivial
  | point q => trivial
  | segment q q' =>
    rw [h] at this
    simp only [Res.map, Res.WF] at this ⊢
    exact fun e => this (by rw [e])
  | err e => rw [h] at this; exact this


/-! ## §8  Zero-length segments; the dropped assertion -/

theorem seg2d_zero_length (tol : Rat) (a b c : P2) :
    seg2d tol a a b c = .err .assertion ∧ seg2d tol a b c c = .err .assertion := by
  constructor <;> simp [seg2d]

theorem seg3d_zero_length_par (tol : Rat) (h0 : 0 < tol) (a c d : P3) :
    seg3d tol a a c d = par3d true tol a a c d :=
  seg3d_eq_par tol a a c d h0 (by simp [minor, Dims.i, Dims.j, P3.get]) (by simp [minor, Dims.i, Dims.j, P3.get])
    (by simp [minor, Dims.i, Dims.j, P3.get])

theorem seg3d_zero_length_both (tol : Rat) (h0 : 0 < tol) (a : P3) : seg3d tol a a a a = .err .index := by
  have h1 : ¬ tol < 0 := not_lt.mpr (le_of_lt h0)
  have h2 : (0:Rat) ≤ atol := by decide +kernel
  have hc : ∀ ax, close1 tol (a.get ax) (a.get ax) = true := by
    intro ax
    have : 0 ≤ rabs (a.get ax) := by rw [rabs_eq]; exact abs_nonneg _
    simp only [close1, sub_self, rabs_zero, decide_eq_true_eq]
    nlinarith
  rw [seg3d_zero_length_par tol h0]
  simp [par3d, P3.get, rabs_zero, ratiosDiffer, h1]
  exact ⟨hc .x, hc .y, hc .z⟩

theorem seg3d_zero_length_first (tol : Rat) (h0 : 0 < tol) (a c d : P3)
    (hd : rabs (d.x - c.x) > tol ∨ rabs (d.y - c.y) > tol ∨ rabs (d.z - c.z) > tol) :
    seg3d tol a a c d = .none := by
  have h1 : ¬ tol < 0 := not_lt.mpr (le_of_lt h0)
  rw [seg3d_zero_length_par tol h0]
  unfold par3d
  simp only [P3.get, sub_self, rabs_zero, gt_iff_lt, h1, decide_false]
  rw [if_pos]
  rcases hd with h | h | h
  · left; simp [h]
  · right; left; simp [h]
  · right; right; simp [h]

theorem isect_agree (ax ay d1x d1y d2x d2y dsx dsy : Rat) (h : d1x * (-d2y) - d1y * (-d2x) ≠ 0) :
    ax + (dsx * (-d2y) - dsy * (-d2x)) / (d1x * (-d2y) - d1y * (-d2x)) * d1x
      = (ax + dsx) + (d1x * dsy - d1y * dsx) / (d1x * (-d2y) - d1y * (-d2x)) * d2x ∧
    ay + (dsx * (-d2y) - dsy * (-d2x)) / (d1x * (-d2y) - d1y * (-d2x)) * d1y
      = (ay + dsy) + (d1x * dsy - d1y * dsx) / (d1x * (-d2y) - d1y * (-d2x)) * d2y := by
  generalize hD : d1x * (-d2y) - d1y * (-d2x) = D at h
  constructor <;> field_simp <;> rw [← hD] <;> ring

/-! ## §9  The squared-form rewrites: the sqrt comparisons of `segments_2d` over ℝ -/

/-- `|a| < tol·√x·√y ⇔ a² < tol²·x·y`  (test "lines are parallel": `abs(discr) < tol*length_1*length_2`) -/
theorem abs_lt_tol_sqrt_sqrt_iff (a tol x y : ℝ) (ht : 0 ≤ tol) (hx : 0 ≤ x) (hy : 0 ≤ y) :
    |a| < tol * Real.sqrt x * Real.sqrt y ↔ a * a < tol * tol * x * y := by
  have hr : 0 ≤ tol * Real.sqrt x * Real.sqrt y :=
    mul_nonneg (mul_nonneg ht (Real.sqrt_nonneg x)) (Real.sqrt_nonneg y)
  have hsq : (tol * Real.sqrt x * Real.sqrt y) ^ 2 = tol * tol * x * y := by
    have h1 := Real.mul_self_sqrt hx
    have h2 := Real.mul_self_sqrt hy
    calc (tol * Real.sqrt x * Real.sqrt y) ^ 2
        = tol * tol * (Real.sqrt x * Real.sqrt x) * (Real.sqrt y * Real.sqrt y) := by ring
      _ = tol * tol * x * y := by rw [h1, h2]
  rw [← hsq, show a * a = a ^ 2 by ring, sq_lt_sq, abs_of_nonneg hr]

/-- `|a| > tol·√x ⇔ a² > tol²·x`  (tests `abs(d_1[0]) > tol*length_1`, `abs(d_1[1]) > tol*length_2`) -/
theorem abs_gt_tol_sqrt_iff (a tol x : ℝ) (ht : 0 ≤ tol) (hx : 0 ≤ x) :
    |a| > tol * Real.sqrt x ↔ a * a > tol * tol * x := by
  have hr : 0 ≤ tol * Real.sqrt x := mul_nonneg ht (Real.sqrt_nonneg x)
  have hsq : (tol * Real.sqrt x) ^ 2 = tol * tol * x := by
    have h1 := Real.mul_self_sqrt hx
    calc (tol * Real.sqrt x) ^ 2 = tol * tol * (Real.sqrt x * Real.sqrt x) := by ring
      _ = tol * tol * x := by rw [h1]
  show tol * Real.sqrt x < |a| ↔ tol * tol * x < a * a
  rw [← hsq, show a * a = a ^ 2 by ring, sq_lt_sq, abs_of_nonneg hr]

/-- `|a| < tol·max(√x, √y) ⇔ a² < tol²·max(x, y)`  (test "lines are colinear":
    `abs(start_cross_line) < tol*max(length_1, length_2)`) -/
theorem abs_lt_tol_max_sqrt_iff (a tol x y : ℝ) (ht : 0 ≤ tol) (hx : 0 ≤ x) (_hy : 0 ≤ y) :
    |a| < tol * max (Real.sqrt x) (Real.sqrt y) ↔ a * a < tol * tol * max x y := by
  have hmax : max (Real.sqrt x) (Real.sqrt y) = Real.sqrt (max x y) := by
    rcases le_total x y with h | h
    · rw [max_eq_right h, max_eq_right (Real.sqrt_le_sqrt h)]
    · rw [max_eq_left h, max_eq_left (Real.sqrt_le_sqrt h)]
  rw [hmax]
  have := abs_lt_tol_sqrt_sqrt_iff a tol (max x y) 1 ht (le_trans hx (le_max_left _ _)) zero_le_one
  simpa using this

open Classical in
/-- `segments_2d` with its comparisons written as in the code — with `length_i = np.sqrt(np.sum(d_i*d_i))`
    as real square roots — on rational inputs.  Everything else as in `seg2d`. -/
noncomputable def seg2dSqrt (tol : Rat) (a b c d : P2) : Res P2 :=
  let d1x := b.x - a.x
  let d1y := b.y - a.y
  let d2x := d.x - c.x
  let d2y := d.y - c.y
  let length_1 : ℝ := Real.sqrt (((d1x * d1x + d1y * d1y : Rat)) : ℝ)
  let length_2 : ℝ := Real.sqrt (((d2x * d2x + d2y * d2y : Rat)) : ℝ)
  let dsx := c.x - a.x
  let dsy := c.y - a.y
  let discr := d1x * (-d2y) - d1y * (-d2x)
  if |((discr : Rat) : ℝ)| < (tol : ℝ) * length_1 * length_2 then
    let scl := dsx * d1y - dsy * d1x
    if |((scl : Rat) : ℝ)| < (tol : ℝ) * max length_1 length_2 then
      if |((d1x : Rat) : ℝ)| > (tol : ℝ) * length_1 then
        overlap2 tol a d1x d1y ((c.x - a.x) / d1x) ((d.x - a.x) / d1x)
      else if |((d1y : Rat) : ℝ)| > (tol : ℝ) * length_2 then
        overlap2 tol a d1x d1y ((c.y - a.y) / d1y) ((d.y - a.y) / d1y)
      else .err .value
    else .none
  else if discr = 0 then .err .assertion
  else
    let t1 := (dsx * (-d2y) - dsy * (-d2x)) / discr
    let t2 := (d1x * dsy - d1y * dsx) / discr
    if t1 ≥ -tol ∧ t1 ≤ 1 + tol ∧ t2 ≥ -tol ∧ t2 ≤ 1 + tol then
      .point ⟨a.x + t1 * d1x, a.y + t1 * d1y⟩
    else .none

theorem sumsq_nonneg (u v : Rat) : (0:ℝ) ≤ ((u * u + v * v : Rat) : ℝ) := by
  have : (0:Rat) ≤ u * u + v * v := by nlinarith [mul_self_nonneg u, mul_self_nonneg v]
  exact_mod_cast this

/-- the rational model in squared form IS the sqrt form of the code, for every rational input and `tol ≥ 0` -/
theorem seg2dSqrt_eq (tol : Rat) (h0 : 0 ≤ tol) (a b c d : P2) : seg2dSqrt tol a b c d = seg2d tol a b c d := by
  have ht : (0:ℝ) ≤ (tol : ℝ) := by exact_mod_cast h0
  unfold seg2dSqrt seg2d
  simp only []
  have n1 := sumsq_nonneg (b.x - a.x) (b.y - a.y)
  have n2 := sumsq_nonneg (d.x - c.x) (d.y - c.y)
  refine if_congr ?_ (if_congr ?_ (if_congr ?_ rfl (if_congr ?_ rfl rfl)) rfl) rfl
  · rw [abs_lt_tol_sqrt_sqrt_iff _ _ _ _ ht n1 n2]; exact_mod_cast Iff.rfl
  · rw [abs_lt_tol_max_sqrt_iff _ _ _ _ ht n1 n2]; exact_mod_cast Iff.rfl
  · rw [abs_gt_tol_sqrt_iff _ _ _ ht n1]; exact_mod_cast Iff.rfl
  · rw [abs_gt_tol_sqrt_iff _ _ _ ht n2]; exact_mod_cast Iff.rfl

/-! ## §10  The order of the two returned columns -/

theorem col4_get (a b c d : P3) (ax : Ax) (i : Nat) :
    (col4 a b c d i).get ax = col4 (a.get ax) (b.get ax) (c.get ax) (d.get ax) i := by
  match i with
  | 0 => rfl
  | 1 => rfl
  | 2 => rfl
  | (n + 3) => rfl

/-- 3-D convention: a returned segment is ascending in the working coordinate `ax` -/
theorem overlap3_segment_order (tol : Rat) (a b c d p q : P3) (ax : Ax)
    (hgap : ∀ i j : Nat,
      rabs (col4 (a.get ax) (b.get ax) (c.get ax) (d.get ax) i - col4 (a.get ax) (b.get ax) (c.get ax) (d.get ax) j) < tol
        ↔ col4 (a.get ax) (b.get ax) (c.get ax) (d.get ax) i = col4 (a.get ax) (b.get ax) (c.get ax) (d.get ax) j)
    (h : overlap3 true tol a b c d ax = .segment p q) : p.get ax < q.get ax := by
  unfold overlap3 at h
  simp only [touchAsPoint, Bool.true_and, decide_eq_true_eq, hgap] at h
  split_ifs at h with h1 h2 h3
  have e := Res.segment.inj h
  obtain ⟨m1, m2⟩ := argsortMid_spec _ _ _ _ h1 h2
  rw [← e.1, ← e.2, col4_get, col4_get]
  refine lt_of_le_of_ne ?_ h3
  rw [m1, m2]
  have hv : ¬ min (max (a.get ax) (b.get ax)) (max (c.get ax) (d.get ax)) < max (min (a.get ax) (b.get ax)) (min (c.get ax) (d.get ax)) :=
    fun hh => by
      rcases (disjoint_iff _ _ _ _).mpr hh with h' | h'
      · exact h1 h'
      · exact h2 h'
  exact not_lt.mp hv

theorem cross3d_not_segment (tol : Rat) (m : Dims) (a b c d p q : P3) : cross3d tol m a b c d ≠ .segment p q := by
  unfold cross3d
  simp only []
  split_ifs <;> simp

/-- a segment result of `par3d` comes from `overlap3` in the first coordinate with an extent, and the
    two direction vectors have the same extent mask -/
theorem par3d_segment (tol : Rat) (a b c d p q : P3) (h : par3d true tol a b c d = .segment p q) :
    (∀ ax, decide (rabs ((⟨b.x - a.x, b.y - a.y, b.z - a.z⟩ : P3).get ax) > tol)
         = decide (rabs ((⟨d.x - c.x, d.y - c.y, d.z - c.z⟩ : P3).get ax) > tol)) ∧
    ∃ ax tail, [Ax.x, Ax.y, Ax.z].filter (fun ax => decide (rabs ((⟨b.x - a.x, b.y - a.y, b.z - a.z⟩ : P3).get ax) > tol)) = ax :: tail ∧
      overlap3 true tol a b c d ax = .segment p q := by
  unfold par3d at h
  simp only [] at h
  split_ifs at h with h1 h2 h3 h4 h5 h6
  constructor
  · intro ax
    by_contra hne
    apply h1
    cases ax
    · left; exact hne
    · right; left; exact hne
    · right; right; exact hne
  · generalize hsel : List.filter (fun ax => decide (rabs ((⟨b.x - a.x, b.y - a.y, b.z - a.z⟩ : P3).get ax) > tol)) [Ax.x, Ax.y, Ax.z] = sel at h
    match sel, h with
    | ax :: tail, h => exact ⟨ax, tail, rfl, h⟩

theorem seg3d_segment (tol : Rat) (a b c d p q : P3) (h : seg3d tol a b c d = .segment p q) :
    par3d true tol a b c d = .segment p q := by
  unfold seg3d seg3dWith at h
  simp only [] at h
  split_ifs at h
  · exact h
  · exact absurd h (cross3d_not_segment _ _ _ _ _ _ _ _)

theorem rabs_sub_comm (x y : Rat) : rabs (x - y) = rabs (y - x) := by
  rw [rabs_eq, rabs_eq, abs_sub_comm]

/-- `same` + both results ascending in a common coordinate ⇒ equal, column order included -/
theorem eq_of_same_of_order {r s : Res P3} (h : Res.same r s)
    (hord : ∀ p q p' q', r = .segment p q → s = .segment p' q' → ∃ ax, p.get ax < q.get ax ∧ p'.get ax < q'.get ax) :
    r = s := by
  cases r <;> cases s <;> simp only [Res.same] at h
  · rfl
  · rw [h]
  · rename_i p q p' q'
    rcases h with ⟨h1, h2⟩ | ⟨h1, h2⟩
    · rw [h1, h2]
    · obtain ⟨ax, o1, o2⟩ := hord p q p' q' rfl rfl
      rw [h1, h2] at o1
      exact absurd o1 (not_lt.mpr (le_of_lt o2))
  · rw [h]

/-- two segment results of `seg3d` whose first segments have the same extent mask are ascending in
    the same coordinate -/
theorem seg3d_common_order (tol : Rat) (a b c d a' b' c' d' p q p' q' : P3)
    (h : seg3d tol a b c d = .segment p q) (h' : seg3d tol a' b' c' d' = .segment p' q')
    (hmask : ∀ ax, decide (rabs ((⟨b.x - a.x, b.y - a.y, b.z - a.z⟩ : P3).get ax) > tol)
                 = decide (rabs ((⟨b'.x - a'.x, b'.y - a'.y, b'.z - a'.z⟩ : P3).get ax) > tol))
    (g : ∀ ax, ∀ i j : Nat,
      rabs (col4 (a.get ax) (b.get ax) (c.get ax) (d.get ax) i - col4 (a.get ax) (b.get ax) (c.get ax) (d.get ax) j) < tol
        ↔ col4 (a.get ax) (b.get ax) (c.get ax) (d.get ax) i = col4 (a.get ax) (b.get ax) (c.get ax) (d.get ax) j)
    (g' : ∀ ax, ∀ i j : Nat,
      rabs (col4 (a'.get ax) (b'.get ax) (c'.get ax) (d'.get ax) i - col4 (a'.get ax) (b'.get ax) (c'.get ax) (d'.get ax) j) < tol
        ↔ col4 (a'.get ax) (b'.get ax) (c'.get ax) (d'.get ax) i = col4 (a'.get ax) (b'.get ax) (c'.get ax) (d'.get ax) j) :
    ∃ ax, p.get ax < q.get ax ∧ p'.get ax < q'.get ax := by
  obtain ⟨-, ax, tail, hs, ho⟩ := par3d_segment tol a b c d p q (seg3d_segment tol a b c d p q h)
  obtain ⟨-, ax', tail', hs', ho'⟩ := par3d_segment tol a' b' c' d' p' q' (seg3d_segment tol a' b' c' d' p' q' h')
  have hf : (fun ax => decide (rabs ((⟨b.x - a.x, b.y - a.y, b.z - a.z⟩ : P3).get ax) > tol))
      = (fun ax => decide (rabs ((⟨b'.x - a'.x, b'.y - a'.y, b'.z - a'.z⟩ : P3).get ax) > tol)) := funext hmask
  rw [hf, hs'] at hs
  have hax : ax' = ax := (List.cons.inj hs).1
  subst hax
  exact ⟨ax', overlap3_segment_order tol a b c d p q ax' (g ax') ho,
    overlap3_segment_order tol a' b' c' d' p' q' ax' (g' ax') ho'⟩

/-- every tolerance test on differences of integer coordinates is exact -/
theorem gap_ofInt (tol : Rat) (h0 : 0 < tol) (h1 : tol ≤ 1) (ax ay az bx by' bz cx cy cz dx dy dz : Int) :
    ∀ k, ∀ i j : Nat,
      rabs (col4 ((P3.ofInt ax ay az).get k) ((P3.ofInt bx by' bz).get k) ((P3.ofInt cx cy cz).get k) ((P3.ofInt dx dy dz).get k) i
          - col4 ((P3.ofInt ax ay az).get k) ((P3.ofInt bx by' bz).get k) ((P3.ofInt cx cy cz).get k) ((P3.ofInt dx dy dz).get k) j) < tol
      ↔ col4 ((P3.ofInt ax ay az).get k) ((P3.ofInt bx by' bz).get k) ((P3.ofInt cx cy cz).get k) ((P3.ofInt dx dy dz).get k) i
        = col4 ((P3.ofInt ax ay az).get k) ((P3.ofInt bx by' bz).get k) ((P3.ofInt cx cy cz).get k) ((P3.ofInt dx dy dz).get k) j := by
  intro k i j
  have : ∃ m : Int, col4 ((P3.ofInt ax ay az).get k) ((P3.ofInt bx by' bz).get k) ((P3.ofInt cx cy cz).get k)
      ((P3.ofInt dx dy dz).get k) i - col4 ((P3.ofInt ax ay az).get k) ((P3.ofInt bx by' bz).get k)
      ((P3.ofInt cx cy cz).get k) ((P3.ofInt dx dy dz).get k) j = m := by
    cases k <;> simp only [P3.get, P3.ofInt]
    · exact col4_diff_int _ _ _ _ (bx - ax) (cx - ax) (dx - cx) (by push_cast; ring) (by push_cast; ring) (by push_cast; ring) i j
    · exact col4_diff_int _ _ _ _ (by' - ay) (cy - ay) (dy - cy) (by push_cast; ring) (by push_cast; ring) (by push_cast; ring) i j
    · exact col4_diff_int _ _ _ _ (bz - az) (cz - az) (dz - cz) (by push_cast; ring) (by push_cast; ring) (by push_cast; ring) i j
  obtain ⟨m, hm⟩ := this
  rw [rabs_lt_iff_of_int _ m hm tol h0 h1, sub_eq_zero]

/-- the extent mask of the second segment equals that of the first whenever a segment is returned -/
theorem seg3d_mask_eq (tol : Rat) (a b c d p q : P3) (h : seg3d tol a b c d = .segment p q) :
    ∀ ax, decide (rabs ((⟨b.x - a.x, b.y - a.y, b.z - a.z⟩ : P3).get ax) > tol)
        = decide (rabs ((⟨d.x - c.x, d.y - c.y, d.z - c.z⟩ : P3).get ax) > tol) :=
  (par3d_segment tol a b c d p q (seg3d_segment tol a b c d p q h)).1

end PorepyVerif.C28
