import PorepyVerif.C09.Props
#print axioms PorepyVerif.C09.accepted_strictly_increasing
#print axioms PorepyVerif.C09.never_exceeds_final
#print axioms PorepyVerif.C09.hits_every_scheduled
#print axioms PorepyVerif.C09.idx_points_to_next
#print axioms PorepyVerif.C09.dt_within_bounds_or_schedule
#print axioms PorepyVerif.C09.converged_step_is_accepted
#print axioms PorepyVerif.C09.failure_rewinds_or_raises
#print axioms PorepyVerif.C09.recomputation_is_bounded
#print axioms PorepyVerif.C09.only_documented_errors
#print axioms PorepyVerif.C09.time_index_counts_accepted
#print axioms PorepyVerif.C09.all_converged_finishes
#print axioms PorepyVerif.C09.all_converged_hits_every_scheduled
#print axioms PorepyVerif.C09.constant_dt_times
#print axioms PorepyVerif.C09.constant_dt_failure_raises
#print axioms PorepyVerif.C09.constant_dt_hits_partial
