/-
C09 — property theorems (statements only use Model.lean; helper lemmas in Lemmas.lean).

Property: for any valid schedule and time-stepping parameters whose initial step fits in the first
scheduled interval, and any sequence of converged steps (with arbitrary iteration counts) and failed
steps, the accepted simulation times strictly increase, include every scheduled time, and never exceed
the final time.  Every step size stays within the prescribed minimum and maximum unless it was
shortened to land on a scheduled time, and a failed step returns the clock to the last accepted time
or raises once recomputation is exhausted.

`run p os` is the time loop of `run_time_dependent_model` on the outcome tape `os`
(`Outcome.converged k` / `Outcome.failed`), started from `TimeManager(...)`; `(run p os).accepted`
lists the accepted times, most recent first.  `Admissible p` = accepted by the constructor, adaptive,
`t₀ + dt₀ ≤ schedule[1]`, `rtol ≤ 1 ∨ 0 ≤ atol`, and `0 < dt_min` or positive factors (the constructor
checks neither of the last two; without the last the statements are false: `dt_min = 0` with
`recomp_factor = 0` stalls the clock at `dt = 0`).
"A scheduled time `y` is hit" is `HitBy`: some accepted time `a` has `np.isclose(a, y, rtol, atol)` —
the code's own notion (it ends the loop on `isclose(time, final)`), exact equality when the step was
cut to land on `y`.
-/
import PorepyVerif.C09.Lemmas

namespace PorepyVerif.C09

/-- Accepted times strictly increase (the list is most-recent-first, hence strictly decreasing). -/
theorem accepted_strictly_increasing (p : Params) (A : Admissible p) (os : List Outcome) :
    (run p os).accepted.Pairwise (· > ·) :=
  (good_run (facts_of_admissible A) os).1

/-- No accepted time exceeds the final time — exactly, not only up to tolerance. -/
theorem never_exceeds_final (p : Params) (A : Admissible p) (os : List Outcome) :
    ∀ a ∈ (run p os).accepted, a ≤ p.timeFinal :=
  (good_run (facts_of_admissible A) os).2.1

/-- When the loop has ended regularly, every scheduled time has been hit by an accepted time. -/
theorem hits_every_scheduled (p : Params) (A : Admissible p) (os : List Outcome)
    (h : (run p os).status = .finished) : ∀ y ∈ p.schedule, HitBy p (run p os).accepted y := by
  have := (good_run (facts_of_admissible A) os).2.2
  rw [h] at this; exact this

/-- The invariant everything follows from: while the loop runs, `pending` (= `_scheduled_idx`, minus one
    if the flag `_is_about_to_hit_schedule` is set) points to the next scheduled time `x` that is not
    reached yet: the clock (= the last accepted time) is strictly before `x`, the coming step does not
    pass `x` and lands on it exactly if the flag is set, and all earlier scheduled times have been hit. -/
theorem idx_points_to_next (p : Params) (A : Admissible p) (os : List Outcome)
    (h : (run p os).status = .running) :
    (run p os).accepted.head? = some (run p os).tm.time ∧
    (∃ x, p.schedule[pending (run p os).tm]? = some x ∧ (run p os).tm.time < x ∧
       (run p os).tm.time + (run p os).tm.dt ≤ x ∧
       ((run p os).tm.aboutToHit = true → (run p os).tm.time + (run p os).tm.dt = x)) ∧
    (∀ j, j < pending (run p os).tm → ∃ y, p.schedule[j]? = some y ∧ HitBy p (run p os).accepted y) := by
  have := (good_run (facts_of_admissible A) os).2.2
  rw [h] at this
  have I : Inv p (run p os).tm (run p os).accepted := this
  obtain ⟨x, hx, hle, heq⟩ := I.next
  have := I.dt_pos
  exact ⟨I.head, ⟨x, hx, by grind, hle, heq⟩, I.hit⟩

/-- Every step the loop is about to take is positive, at most `dt_max`, and at least `dt_min` unless it
    was shortened to land exactly on a scheduled time. -/
theorem dt_within_bounds_or_schedule (p : Params) (A : Admissible p) (os : List Outcome)
    (h : (run p os).status = .running) :
    0 < (run p os).tm.dt ∧ (run p os).tm.dt ≤ p.dtMax ∧
    (p.dtMin ≤ (run p os).tm.dt ∨ ((run p os).tm.time + (run p os).tm.dt) ∈ p.schedule) := by
  have := (good_run (facts_of_admissible A) os).2.2
  rw [h] at this
  have I : Inv p (run p os).tm (run p os).accepted := this
  refine ⟨I.dt_pos, I.dt_max, ?_⟩
  rcases I.dt_min with h1 | ⟨x, hx, he⟩
  · exact Or.inl h1
  · right; rw [he]; exact sched_mem hx

/-- … and that step is what a converged outcome accepts (any parameters, any running state). -/
theorem converged_step_is_accepted (p : Params) (r : Run) (it : Int) (h : r.status = .running) :
    (stepRun p r (.converged it)).accepted = (r.tm.time + r.tm.dt) :: r.accepted := by
  obtain ⟨tm, acc, st⟩ := r
  cases h
  simp only [stepRun]
  split
  · rfl
  · split <;> rfl

/-- A failed step leaves the accepted times alone and either raises — recomputation exhausted, or the
    step already was `dt_min` — or returns the clock to the last accepted time (and counts the attempt). -/
theorem failure_rewinds_or_raises (p : Params) (A : Admissible p) (os : List Outcome)
    (h : (run p os).status = .running) :
    (stepRun p (run p os) .failed).accepted = (run p os).accepted ∧
    (((stepRun p (run p os) .failed).status = .raised .recompExhausted ∧
        p.recompMax ≤ ((run p os).tm.recompNum : Int)) ∨
     ((stepRun p (run p os) .failed).status = .raised .dtMinReached ∧ (run p os).tm.dt = p.dtMin) ∨
     ((stepRun p (run p os) .failed).status = .running ∧
        (stepRun p (run p os) .failed).tm.time = (run p os).tm.time ∧
        (run p os).accepted.head? = some (stepRun p (run p os) .failed).tm.time ∧
        (stepRun p (run p os) .failed).tm.recompNum = (run p os).tm.recompNum + 1)) := by
  have F := facts_of_admissible A
  have hg := (good_run F os).2.2
  generalize run p os = r at h hg ⊢
  obtain ⟨tm, acc, st⟩ := r
  cases h
  have I : Inv p tm acc := hg
  obtain ⟨hacc, hcase⟩ := step_failed_cases F I
  refine ⟨hacc, ?_⟩
  rcases hcase with h1 | h1 | ⟨h1, h2, h3, _, _⟩
  · exact Or.inl h1
  · exact Or.inr (Or.inl h1)
  · exact Or.inr (Or.inr ⟨h1, h2, by rw [h2]; exact I.head, h3⟩)

/-- Recomputation is exhausted after `recomp_max` attempts: more than `recomp_max` failed steps in a row
    always end the run (with one of the two errors above, by `only_documented_errors`). -/
theorem recomputation_is_bounded (p : Params) (A : Admissible p) (os : List Outcome) (k : Nat)
    (hk : p.recompMax < (k : Int)) : (run p (os ++ List.replicate k .failed)).status ≠ .running := by
  have F := facts_of_admissible A
  unfold run
  rw [runFrom_append]
  by_cases h : (runFrom p (startRun p) os).status = .running
  · exact failures_exhaust F k _ (good_run F os) h (by omega)
  · rw [runFrom_not_running p _ _ h]; exact h

/-- The loop never ends in an `IndexError` or in an exception from the convergence hook: the only errors
    are the two `ValueError`s of `_adaptation_based_on_recomputation`, raised on a failed step. -/
theorem only_documented_errors (p : Params) (A : Admissible p) (os : List Outcome) :
    (∀ e, (run p os).status = .raised e → e = .dtMinReached ∨ e = .recompExhausted) ∧
    (∀ e, (run p os).status ≠ .crashed e) := by
  have := (good_run (facts_of_admissible A) os).2.2
  constructor
  · intro e h; rw [h] at this; exact this
  · intro e h; rw [h] at this; exact this

/-- Liveness (for a positive `dt_min`): a tape of converged steps ends the run regularly after at most
    `(final − t₀)/dt_min + (len(schedule) − 1)` steps — each accepted step either advances the clock by
    at least `dt_min` or lands on the next scheduled time. -/
theorem all_converged_finishes (p : Params) (A : Admissible p) (hmin : 0 < p.dtMin) (os : List Outcome)
    (hall : AllConverged os)
    (hlen : (p.timeFinal - p.timeInit) + p.dtMin * ((p.schedule.length - 1 : Nat) : Rat)
              ≤ p.dtMin * (os.length : Rat)) :
    (run p os).status = .finished := by
  have F := facts_of_admissible A
  have hg0 := good_start F
  by_cases h0 : (startRun p).status = .running
  · rcases converged_run_budget F hmin os hall _ hg0 h0 with h | ⟨h, hb⟩
    · exact h
    · exfalso
      have hg := (good_run F os).2.2
      have h' : (run p os).status = .running := h
      rw [h'] at hg
      have hge := budget_ge F hmin (show Inv p (run p os).tm (run p os).accepted from hg)
      have hb0 : budget p (startRun p).tm
          = (p.timeFinal - p.timeInit) + p.dtMin * ((p.schedule.length - 1 : Nat) : Rat) := rfl
      have : budget p (run p os).tm + p.dtMin * (os.length : Rat) ≤ budget p (startRun p).tm := hb
      grind
  · have h1 : (startRun p).status = .finished := by
      have : (startRun p).status = statusOf p (init p) := rfl
      rw [this] at h0 ⊢
      unfold statusOf at h0 ⊢
      split at h0
      · simp_all
      · exact absurd rfl h0
    unfold run
    rw [runFrom_not_running p _ _ h0]; exact h1

/-- … and then every scheduled time has been hit. -/
theorem all_converged_hits_every_scheduled (p : Params) (A : Admissible p) (hmin : 0 < p.dtMin)
    (os : List Outcome) (hall : AllConverged os)
    (hlen : (p.timeFinal - p.timeInit) + p.dtMin * ((p.schedule.length - 1 : Nat) : Rat)
              ≤ p.dtMin * (os.length : Rat)) :
    ∀ y ∈ p.schedule, HitBy p (run p os).accepted y :=
  hits_every_scheduled p A os (all_converged_finishes p A hmin os hall hlen)

/-- Termination of EVERY tape, failures included (for a positive `dt_min`): each accepted step may be
    preceded by at most `recomp_max` recomputations, so after `(recomp_max + 1)·((final − t₀)/dt_min +
    len(schedule) − 1)` outcomes the loop has ended — regularly or with one of the two errors. -/
theorem run_terminates (p : Params) (A : Admissible p) (hmin : 0 < p.dtMin) (os : List Outcome)
    (hlen : ((p.recompMax : Rat) + 1) *
              ((p.timeFinal - p.timeInit) + p.dtMin * ((p.schedule.length - 1 : Nat) : Rat))
              ≤ p.dtMin * (os.length : Rat)) :
    (run p os).status ≠ .running := by
  have F := facts_of_admissible A
  intro h
  have h0 : (startRun p).status = .running := by
    by_cases h0 : (startRun p).status = .running
    · exact h0
    · have : run p os = startRun p := runFrom_not_running p os _ h0
      rw [this] at h; exact absurd h h0
  have hw := work_runFrom F hmin os _ (good_start F) h0 h
  have hg := (good_run F os).2.2
  rw [h] at hg
  have hge := work_ge F hmin (show Inv p (run p os).tm (run p os).accepted from hg)
  have hw0 : work p (startRun p).tm = ((p.recompMax : Rat) + 1) *
      ((p.timeFinal - p.timeInit) + p.dtMin * ((p.schedule.length - 1 : Nat) : Rat))
      + p.dtMin * ((p.recompMax : Rat) - ((0 : Nat) : Rat)) := rfl
  have hz : ((0 : Nat) : Rat) = 0 := rfl
  have : work p (run p os).tm + p.dtMin * (os.length : Rat) ≤ work p (startRun p).tm := hw
  rw [hw0, hz] at this
  grind

/-- The number of accepted times (initial time included) is bounded whatever the outcomes are, for a
    positive `dt_min`: `#accepted ≤ (final − t₀)/dt_min + len(schedule)`; every accepted step advances
    the clock by at least `dt_min` or lands on the next scheduled time. -/
theorem accepted_steps_bounded (p : Params) (A : Admissible p) (hmin : 0 < p.dtMin) (os : List Outcome) :
    p.dtMin * ((run p os).accepted.length : Rat)
      ≤ (p.timeFinal - p.timeInit) + p.dtMin * (p.schedule.length : Rat) := by
  have F := facts_of_admissible A
  have hp : pot p (run p os) ≤ pot p (startRun p) := pot_runFrom F hmin os _ (good_start F)
  have hg := good_run F os
  have h1 : p.dtMin * ((run p os).accepted.length : Rat) ≤ pot p (run p os) := by
    unfold pot
    cases hst : (run p os).status with
    | running =>
      have hI := hg.2.2
      rw [hst] at hI
      have := budget_ge F hmin (show Inv p (run p os).tm (run p os).accepted from hI)
      simp only; grind
    | finished => simp only; grind
    | raised e => simp only; grind
    | crashed e => simp only; grind
  have hb0 : budget p (startRun p).tm
      = (p.timeFinal - p.timeInit) + p.dtMin * ((p.schedule.length - 1 : Nat) : Rat) := rfl
  have hfin0 : p.timeInit ≤ p.timeFinal := by
    obtain ⟨s0, s1, rest, hs⟩ := schedule_shape F
    have : p.timeInit = s0 := by simp [Params.timeInit, hs]
    rw [this]; exact F.le_final s0 (by simp [hs])
  have hlen0 : (0 : Rat) ≤ ((p.schedule.length - 1 : Nat) : Rat) := by exact_mod_cast Nat.zero_le _
  have hnn := Rat.mul_nonneg (Rat.le_of_lt hmin) hlen0
  have hlen : ((p.schedule.length - 1 : Nat) : Rat) + 1 = (p.schedule.length : Rat) := by
    have : p.schedule.length - 1 + 1 = p.schedule.length := by have := F.len; omega
    exact_mod_cast this
  have h2 : pot p (startRun p) ≤ p.dtMin + budget p (startRun p).tm := by
    unfold pot
    have hl : ((startRun p).accepted.length : Rat) = 1 := by simp [startRun]
    rw [hl]
    cases hst : (startRun p).status <;> simp only <;> grind
  have hmul : p.dtMin * ((p.schedule.length - 1 : Nat) : Rat) + p.dtMin = p.dtMin * (p.schedule.length : Rat) := by
    rw [← hlen]; grind
  grind

/-- `time_index` counts the accepted steps. -/
theorem time_index_counts_accepted (p : Params) (A : Admissible p) (os : List Outcome)
    (h : (run p os).status = .running) : (run p os).tm.timeIndex + 1 = (run p os).accepted.length := by
  have := (good_run (facts_of_admissible A) os).2.2
  rw [h] at this
  exact Inv.ti this

/-- With zero tolerances "hit" is exact: when the loop has ended every scheduled time IS an accepted time
    (the mechanism does not rely on the tolerance; steps are cut to land exactly). -/
theorem hits_exactly_with_zero_tolerance (p : Params) (A : Admissible p) (hr : p.rtol = 0) (ha : p.atol = 0)
    (os : List Outcome) (h : (run p os).status = .finished) : ∀ y ∈ p.schedule, y ∈ (run p os).accepted := by
  intro y hy
  obtain ⟨a, hmem, hc⟩ := hits_every_scheduled p A os h y hy
  rw [isclose_iff, hr, ha] at hc
  have : a = y := by
    rcases hc with hc | hc
    · have h0 := absR_nonneg (a - y)
      have : absR (a - y) = 0 := by grind
      unfold absR at this; split at this <;> grind
    · exact hc
  rw [← this]; exact hmem

/-- Restart (`load_data_from_vtu/pvd` → `set_time_and_dt_from_exported_steps`, REPAIRED method, see
    `restore` in Model.lean): a fresh manager whose clock and step are restored from the exported state of
    a running loop — with the schedule cursor synchronised — continues as a run with the same guarantees,
    for every continuation tape.  Hypothesis `hnc` (decidable): the restored clock is not already within
    tolerance of the pending scheduled time.  The code as it is violates this theorem (finding
    `restart-stale-schedule-cursor`: the cursor stays at 1 and the next correction makes dt negative). -/
theorem restart_keeps_property (p : Params) (A : Admissible p) (os : List Outcome)
    (h : (run p os).status = .running)
    (hnc : ∀ x, p.schedule[pending (run p os).tm]? = some x →
      isclose p.rtol p.atol (run p os).tm.time x = false)
    (os' : List Outcome) :
    (runFrom p (restarted p (run p os)) os').accepted.Pairwise (· > ·) ∧
    (∀ a ∈ (runFrom p (restarted p (run p os)) os').accepted, a ≤ p.timeFinal) ∧
    ((runFrom p (restarted p (run p os)) os').status = .finished →
      ∀ y ∈ p.schedule, HitBy p (runFrom p (restarted p (run p os)) os').accepted y) := by
  have F := facts_of_admissible A
  have hg := good_runFrom F os' _ (good_restarted F (good_run F os) h hnc)
  refine ⟨hg.1, hg.2.1, ?_⟩
  intro hf
  have := hg.2.2
  rw [hf] at this; exact this

/-! ### constant time step (`constant_dt=True`): outside the property statement, kept for completeness -/

/-- With a constant step the step never changes and the accepted times are `t₀ + k·dt_init`
    (`accepted` is most-recent-first). -/
theorem constant_dt_times (p : Params) (hc : p.constantDt = true) (os : List Outcome) (hall : AllConverged os) :
    (run p os).tm.dt = p.dtInit ∧
    ∀ i (h : i < (run p os).accepted.length),
      (run p os).accepted[i] = p.timeInit + (((run p os).accepted.length - 1 - i : Nat) : Rat) * p.dtInit := by
  obtain ⟨⟨n, hacc, _⟩, hdt, _⟩ := cinv_run hc os hall _ (cinv_start p)
  refine ⟨hdt, ?_⟩
  have hacc' : (run p os).accepted = arith p.timeInit p.dtInit n := hacc
  rw [hacc']
  intro i h
  rw [arith_getElem, arith_length]
  congr 3

/-- With a constant step a failed nonlinear solve ends the run with an error; nothing is recomputed. -/
theorem constant_dt_failure_raises (p : Params) (hc : p.constantDt = true) (r : Run) (h : r.status = .running) :
    (stepRun p r .failed).status = .raised .constantDtFailed ∧ (stepRun p r .failed).accepted = r.accepted := by
  obtain ⟨tm, acc, st⟩ := r
  cases h
  simp [stepRun, hc]

/-- Constant step, FULL statement.  If the constructor accepts the parameters and the tolerance is small
    against the step (`SmallTol`: `2·(atol + rtol·|v|) < dt_init` at every simulated time `v` of the
    constructor's check and at the final time — decidable, and true for the default tolerances unless
    `dt_init ≲ 2e-10·final`), then when the loop has ended every scheduled time `y` is matched by an
    accepted time `a` with `np.isclose(y, a)` — the orientation the constructor itself uses.
    The constructor only compares the NUMBER of simulated times close to a neighbouring scheduled time
    with `len(schedule)`; the proof is a pigeonhole argument: under `SmallTol` two different simulated
    times cannot be close to the same scheduled time, so equal counts force a bijection; and the loop
    cannot stop a whole step before a matched simulated time. -/
theorem constant_dt_hits (p : Params) (hv : Valid p) (hc : p.constantDt = true) (hs : SmallTol p)
    (os : List Outcome) (hall : AllConverged os) (hfin : (run p os).status = .finished) :
    ∀ y ∈ p.schedule, HitByC p (run p os).accepted y :=
  constant_hits_full hv hc hs os hall hfin

/-- With a constant step a tape of converged steps long enough to reach the final time ends the loop. -/
theorem constant_dt_finishes (p : Params) (hc : p.constantDt = true) (os : List Outcome) (hall : AllConverged os)
    (hlen : p.timeFinal ≤ p.timeInit + (os.length : Rat) * p.dtInit) : (run p os).status = .finished :=
  constant_finishes hc os hall hlen

/-- … so such a run hits every scheduled time. -/
theorem constant_dt_run_hits_every_scheduled (p : Params) (hv : Valid p) (hc : p.constantDt = true)
    (hs : SmallTol p) (os : List Outcome) (hall : AllConverged os)
    (hlen : p.timeFinal ≤ p.timeInit + (os.length : Rat) * p.dtInit) :
    ∀ y ∈ p.schedule, HitByC p (run p os).accepted y :=
  constant_dt_hits p hv hc hs os hall (constant_dt_finishes p hc os hall hlen)

/-- Variant in the orientation of `HitBy` (`np.isclose(a, y)`, what `final_time_reached` uses), from an
    explicit matching hypothesis instead of the constructor's count: if every scheduled time is within
    tolerance of some `t₀ + k·dt_init`, every scheduled time is hit when the loop has ended — also those
    whose `k` lies beyond the step at which the loop stopped.  No smallness of the tolerance is needed. -/
theorem constant_dt_hits_of_matches (p : Params) (hv : Valid p) (hc : p.constantDt = true)
    (htol : p.rtol ≤ 1 ∨ 0 ≤ p.atol)
    (H : ∀ y ∈ p.schedule, ∃ k : Nat, isclose p.rtol p.atol (p.timeInit + (k : Rat) * p.dtInit) y = true)
    (os : List Outcome) (hall : AllConverged os) (hfin : (run p os).status = .finished) :
    ∀ y ∈ p.schedule, HitBy p (run p os).accepted y :=
  constant_hits hv hc htol H os hall hfin

/-! ### non-vacuity: concrete parameters and histories -/

/-- the regression case of finding F2: schedule [0, 1, 1.2], dt_init = 0.5, dt_min_max = (0.01, 0.5) -/
def pF2 : Params :=
  { schedule := [0, 1, 6/5], dtInit := 1/2, constantDt := false, dtMin := 1/100, dtMax := 1/2,
    iterMax := 15, iterLow := 4, iterUpp := 7, underRelax := 7/10, overRelax := 13/10,
    recompFactor := 1/2, recompMax := 10, rtol := 1/10000000000, atol := 1/10000000000000000 }

example : Admissible pF2 := by decide +kernel

/-- every step converges with 5 iterations: times 0, 1/2, 1, 6/5 (the code before the repair went on to 3/2) -/
example : (run pF2 [.converged 5, .converged 5, .converged 5, .converged 5]).accepted = [6/5, 1, 1/2, 0]
    ∧ (run pF2 [.converged 5, .converged 5, .converged 5, .converged 5]).status = .finished := by
  decide +kernel

/-- failures in between: the step to 1 fails twice, the clock is back at 1/2 with dt = 1/8 -/
example : (run pF2 [.converged 5, .failed, .failed]).accepted = [1/2, 0]
    ∧ (run pF2 [.converged 5, .failed, .failed]).tm.time = 1/2
    ∧ (run pF2 [.converged 5, .failed, .failed]).tm.dt = 1/8
    ∧ (run pF2 [.converged 5, .failed, .failed]).status = .running := by
  decide +kernel

/-- eleven failures in a row exhaust `recomp_max = 10` … -/
example : (run pF2 (List.replicate 11 .failed)).status = .raised .dtMinReached
    ∨ (run pF2 (List.replicate 11 .failed)).status = .raised .recompExhausted := by
  decide +kernel

/-- a step shorter than `dt_min` occurs, landing on a scheduled time: dt_min = 1/4 > 1/5 -/
example : (run { pF2 with dtMin := 1/4 } [.converged 5, .converged 5]).tm.dt = 1/5
    ∧ (run { pF2 with dtMin := 1/4 } [.converged 5, .converged 5]).tm.aboutToHit = true := by
  decide +kernel

/-- negative tolerances are admissible (`rtol ≤ 1`): only exact equality counts as close, and the run
    still ends on the final time with every scheduled time accepted -/
example : Admissible { pF2 with rtol := -1/1000, atol := -1 } ∧
    (run { pF2 with rtol := -1/1000, atol := -1 } (List.replicate 4 (.converged 5))).accepted = [6/5, 1, 1/2, 0] ∧
    (run { pF2 with rtol := -1/1000, atol := -1 } (List.replicate 4 (.converged 5))).status = .finished := by
  decide +kernel

/-- restart after two steps of the F2 history (clock 1, dt 1/5): the synchronised cursor is 2 and the
    continuation ends on 6/5 -/
example : (restarted pF2 (run pF2 [.converged 5, .converged 5])).tm.idx = 2 ∧
    (runFrom pF2 (restarted pF2 (run pF2 [.converged 5, .converged 5])) [.converged 5, .converged 5]).accepted
      = [6/5, 1, 1/2, 0] ∧
    (runFrom pF2 (restarted pF2 (run pF2 [.converged 5, .converged 5])) [.converged 5, .converged 5]).status = .finished := by
  decide +kernel

/-- liveness premise is satisfiable: dt_min = 1/4, seven converged steps suffice for [0, 1, 6/5] -/
example : Admissible { pF2 with dtMin := 1/4 } ∧ AllConverged (List.replicate 7 (Outcome.converged 5)) ∧
    (({ pF2 with dtMin := 1/4 } : Params).timeFinal - ({ pF2 with dtMin := 1/4 } : Params).timeInit)
      + (1/4 : Rat) * ((3 - 1 : Nat) : Rat) ≤ (1/4 : Rat) * ((List.replicate 7 (Outcome.converged 5)).length : Rat) := by
  refine ⟨by decide +kernel, ?_, by decide +kernel⟩
  intro o ho
  exact ⟨5, List.eq_of_mem_replicate ho⟩

/-- constant step 1/4 on the schedule [0, 1/2, 1]: valid, four steps, all scheduled times are accepted times -/
def pConst : Params :=
  { pF2 with schedule := [0, 1/2, 1], dtInit := 1/4, constantDt := true }

example : Valid pConst ∧ (run pConst (List.replicate 6 (.converged 3))).accepted = [1, 3/4, 1/2, 1/4, 0]
    ∧ (run pConst (List.replicate 6 (.converged 3))).status = .finished := by
  decide +kernel

/-- `SmallTol` is needed: schedule [0, 1/4, 9/4], constant step 1, rtol = 1/4, atol = 0.  The constructor
    accepts it — the simulated times 0, 2 and 3 are close to a scheduled time (2 and 3 both to 9/4), which
    makes three matches for three scheduled times — but the loop visits 0, 1, 2 and the scheduled time 1/4
    is close to none of them, in either orientation of `isclose`. -/
def pCex : Params :=
  { pF2 with schedule := [0, 1/4, 9/4], dtInit := 1, constantDt := true, rtol := 1/4, atol := 0 }

example : Valid pCex ∧ ¬ SmallTol pCex
    ∧ (run pCex (List.replicate 5 (.converged 3))).status = .finished
    ∧ (run pCex (List.replicate 5 (.converged 3))).accepted = [2, 1, 0]
    ∧ ∀ a ∈ (run pCex (List.replicate 5 (.converged 3))).accepted,
        isclose pCex.rtol pCex.atol (1/4) a = false ∧ isclose pCex.rtol pCex.atol a (1/4) = false := by
  decide +kernel

/-- `SmallTol` is satisfiable together with `Valid`: the constant-step example above with default tolerances -/
example : Valid pConst ∧ SmallTol pConst := by decide +kernel

end PorepyVerif.C09
