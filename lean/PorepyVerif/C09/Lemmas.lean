/-
C09 — helper lemmas (property theorems are in Props.lean).
-/
import PorepyVerif.C09.Model

namespace PorepyVerif.C09

/-! ### numbers -/

theorem absR_nonneg (x : Rat) : 0 ≤ absR x := by
  unfold absR; split <;> grind

theorem absR_of_nonneg {x : Rat} (h : 0 ≤ x) : absR x = x := by
  unfold absR; split <;> grind

theorem absR_of_nonpos {x : Rat} (h : x ≤ 0) : absR x = -x := by
  unfold absR; split <;> grind

theorem isclose_iff (r a x y : Rat) :
    isclose r a x y = true ↔ (absR (x - y) ≤ a + r * absR y ∨ x = y) := by
  simp [isclose]

theorem isclose_self {r a : Rat} (x : Rat) : isclose r a x x = true := by
  rw [isclose_iff]; exact Or.inr rfl

/-- closeness to a later time implies closeness to every time in between -/
theorem isclose_mono {r a t x y : Rat} (htol : r ≤ 1 ∨ 0 ≤ a) (ht : 0 ≤ t) (htx : t ≤ x) (hxy : x ≤ y)
    (h : isclose r a t y = true) : isclose r a t x = true := by
  rw [isclose_iff] at h ⊢
  rcases h with h | h
  · left
    rw [absR_of_nonpos (by grind), absR_of_nonneg (by grind : (0 : Rat) ≤ y)] at h
    rw [absR_of_nonpos (by grind), absR_of_nonneg (by grind : (0 : Rat) ≤ x)]
    by_cases h1 : r ≤ 1
    · have := Rat.mul_nonneg (by grind : (0 : Rat) ≤ 1 - r) (by grind : (0 : Rat) ≤ y - x)
      grind
    · have ha : 0 ≤ a := by rcases htol with h2 | h2 <;> grind
      have := Rat.mul_nonneg (by grind : (0 : Rat) ≤ r - 1) (by grind : (0 : Rat) ≤ x)
      grind
  · right; grind

/-! ### schedules -/

theorem sorted_of_strictlyIncreasing : ∀ (l : List Rat), strictlyIncreasing l = true → l.Pairwise (· < ·)
  | [], _ => List.Pairwise.nil
  | [_], _ => by simp
  | a :: b :: l, h => by
    simp only [strictlyIncreasing, Bool.and_eq_true, decide_eq_true_eq] at h
    have ih := sorted_of_strictlyIncreasing (b :: l) h.2
    refine List.Pairwise.cons ?_ ih
    intro c hc
    rcases List.mem_cons.mp hc with rfl | hc
    · exact h.1
    · have := (List.pairwise_cons.mp ih).1 c hc
      grind

/-- in a sorted list the head is a lower bound -/
theorem sorted_head_le {x : Rat} {l : List Rat} (h : (x :: l).Pairwise (· < ·)) : ∀ y ∈ x :: l, x ≤ y := by
  intro y hy
  rcases List.mem_cons.mp hy with rfl | hy
  · grind
  · have := (List.pairwise_cons.mp h).1 y hy; grind

/-- in a sorted list the last element is an upper bound -/
theorem sorted_le_getLast : ∀ (l : List Rat), l.Pairwise (· < ·) → ∀ z, l.getLast? = some z → ∀ y ∈ l, y ≤ z
  | [], _, _, hz, _, _ => by simp at hz
  | [a], _, z, hz, y, hy => by simp at hz hy; grind
  | a :: b :: l, h, z, hz, y, hy => by
    have hz' : (b :: l).getLast? = some z := by simpa [List.getLast?_cons_cons] using hz
    have ih := sorted_le_getLast (b :: l) (List.pairwise_cons.mp h).2 z hz'
    rcases List.mem_cons.mp hy with rfl | hy
    · have h1 := (List.pairwise_cons.mp h).1 b (by simp)
      have h2 := ih b (by simp)
      grind
    · exact ih y hy

/-! ### the schedule correction -/

/-- Specification of `_correction_based_on_schedule` on the remaining schedule `l` (sorted, `t` not past
    its head, `t` not yet close to the final time): the times of `l` that are already reached within
    tolerance (`pre`) are skipped, `x` is the first one that is not; either the step fits before `x`
    (index advanced by `|pre|`, flag false, dt unchanged) or it is cut to land on `x` exactly
    (index advanced by `|pre|+1`, flag true). -/
theorem corrSched_spec (r a t dt : Rat) :
    ∀ (l : List Rat), l ≠ [] → l.Pairwise (· < ·) → (∀ x, l.head? = some x → t ≤ x) →
      (∀ z, l.getLast? = some z → isclose r a t z = false) →
      ∃ pre x post, l = pre ++ x :: post ∧ (∀ y ∈ pre, isclose r a t y = true) ∧ t ≤ x ∧
        ((t + dt ≤ x ∧ corrSched r a t dt l = some (pre.length, false, dt)) ∨
         (x < t + dt ∧ isclose r a t x = false ∧ corrSched r a t dt l = some (pre.length + 1, true, x - t)))
  | [], h, _, _, _ => absurd rfl h
  | st :: rest, _, hs, hh, hz => by
    have hst : t ≤ st := hh st rfl
    by_cases h1 : t + dt > st
    · by_cases h2 : isclose r a t st = true
      · -- the recursive call
        have hrest : rest ≠ [] := by
          intro e; subst e
          have := hz st rfl
          rw [h2] at this; cases this
        have hs' := (List.pairwise_cons.mp hs).2
        have hh' : ∀ x, rest.head? = some x → t ≤ x := by
          intro x hx
          have : x ∈ rest := List.mem_of_mem_head? hx
          have := (List.pairwise_cons.mp hs).1 x this
          grind
        have hz' : ∀ z, rest.getLast? = some z → isclose r a t z = false := by
          intro z hzz
          apply hz
          cases rest with
          | nil => exact absurd rfl hrest
          | cons b l => simpa [List.getLast?_cons_cons] using hzz
        obtain ⟨pre, x, post, hl, hpre, htx, hcase⟩ := corrSched_spec r a t dt rest hrest hs' hh' hz'
        refine ⟨st :: pre, x, post, by rw [hl]; rfl, ?_, htx, ?_⟩
        · intro y hy
          rcases List.mem_cons.mp hy with rfl | hy
          · exact h2
          · exact hpre y hy
        · rcases hcase with ⟨hfit, hc⟩ | ⟨hcut, hnc, hc⟩
          · left; refine ⟨hfit, ?_⟩
            simp only [corrSched, h1, if_true, h2, hc, List.length_cons]
          · right; refine ⟨hcut, hnc, ?_⟩
            simp only [corrSched, h1, if_true, h2, hc, List.length_cons]
      · refine ⟨[], st, rest, rfl, by simp, hst, Or.inr ⟨h1, by simpa using h2, ?_⟩⟩
        simp only [corrSched, h1, if_true, h2, List.length_nil]
        rfl
    · refine ⟨[], st, rest, rfl, by simp, hst, Or.inl ⟨by grind, ?_⟩⟩
      simp only [corrSched, h1, if_false, List.length_nil]

/-! ### what the premise gives -/

structure Facts (p : Params) : Prop where
  len : 2 ≤ p.schedule.length
  nonneg : ∀ t ∈ p.schedule, 0 ≤ t
  sorted : p.schedule.Pairwise (· < ·)
  dt0 : 0 < p.dtInit
  min0 : p.dtMin ≤ p.dtInit
  max0 : p.dtInit ≤ p.dtMax
  over : 1 < p.overRelax
  rmax : 0 < p.recompMax
  adaptive : p.constantDt = false
  fits : Fits p
  tol : p.rtol ≤ 1 ∨ 0 ≤ p.atol
  pos : 0 < p.dtMin ∨ (0 < p.underRelax ∧ 0 < p.recompFactor)

theorem facts_of_admissible {p : Params} (h : Admissible p) : Facts p := by
  obtain ⟨hv, hc, hf, ht, hp⟩ := h
  simp only [Valid, validate, hc, Bool.false_eq_true, if_false, Bool.and_eq_true, decide_eq_true_eq,
    List.all_eq_true] at hv
  obtain ⟨⟨⟨⟨⟨h1, h2⟩, h3⟩, h4⟩, _⟩, ⟨⟨⟨⟨⟨⟨⟨⟨⟨⟨⟨h6, h7⟩, _⟩, _⟩, _⟩, _⟩, _⟩, h13⟩, _⟩, _⟩, _⟩, h17⟩⟩ := hv
  exact ⟨h1, h2, sorted_of_strictlyIncreasing _ h3, h4, h6, h7, h13, h17, hc, hf, ht, hp⟩

theorem Facts.final_mem {p : Params} (F : Facts p) : p.schedule.getLast? = some p.timeFinal := by
  unfold Params.timeFinal
  rw [List.getLastD_eq_getLast?]
  cases h : p.schedule.getLast? with
  | none =>
    have := F.len
    rw [List.getLast?_eq_none_iff.mp h] at this
    simp at this
  | some z => rfl

theorem Facts.le_final {p : Params} (F : Facts p) : ∀ y ∈ p.schedule, y ≤ p.timeFinal :=
  sorted_le_getLast _ F.sorted _ F.final_mem

theorem clamp_bounds {p : Params} (F : Facts p) (d : Rat) :
    p.dtMin ≤ clampMax p (clampMin p d) ∧ clampMax p (clampMin p d) ≤ p.dtMax := by
  have := F.min0; have := F.max0
  unfold clampMax clampMin
  constructor <;> split <;> split <;> grind

theorem clamp_pos {p : Params} (F : Facts p) (d : Rat) (h : 0 < p.dtMin ∨ 0 < d) :
    0 < clampMax p (clampMin p d) := by
  have := F.min0; have := F.max0; have := F.dt0
  unfold clampMax clampMin
  split <;> split <;> grind

/-! ### the three corrections together -/

theorem getElem?_of_drop_eq {l : List Rat} {i : Nat} {pre post : List Rat} {x : Rat}
    (h : l.drop i = pre ++ x :: post) :
    l[i + pre.length]? = some x ∧ ∀ j, i ≤ j → j < i + pre.length → ∃ y, l[j]? = some y ∧ y ∈ pre := by
  constructor
  · have : (l.drop i)[pre.length]? = some x := by rw [h]; simp
    rwa [List.getElem?_drop] at this
  · intro j h1 h2
    have hk : j - i < pre.length := by omega
    have : (l.drop i)[j - i]? = some pre[j - i] := by
      rw [h, List.getElem?_append_left hk]; simp
    rw [List.getElem?_drop, show i + (j - i) = j by omega] at this
    exact ⟨_, this, List.getElem_mem _⟩

theorem correct_spec {p : Params} (F : Facts p) (s : TM) (x0 : Rat)
    (hpos : 0 < clampMax p (clampMin p s.dt))
    (hx0 : p.schedule[s.idx]? = some x0) (hle : s.time ≤ x0)
    (hnf : isclose p.rtol p.atol s.time p.timeFinal = false) :
    ∃ s' d, correct p s = (s', .ok (some d)) ∧ s'.time = s.time ∧ s'.timeIndex = s.timeIndex ∧
      s'.recompNum = s.recompNum ∧ s'.dt = d ∧ 0 < s'.dt ∧ s'.dt ≤ p.dtMax ∧
      (p.dtMin ≤ s'.dt ∨ s'.aboutToHit = true) ∧ (s'.aboutToHit = true → 1 ≤ s'.idx) ∧
      s.idx ≤ pending s' ∧ (s.time = x0 → s.idx + 1 ≤ pending s') ∧
      (∃ x, p.schedule[pending s']? = some x ∧ s'.time + s'.dt ≤ x ∧ (s'.aboutToHit = true → s'.time + s'.dt = x)) ∧
      (∀ j, s.idx ≤ j → j < pending s' → ∃ y, p.schedule[j]? = some y ∧ isclose p.rtol p.atol s.time y = true) := by
  have hlt : s.idx < p.schedule.length := by
    rcases Nat.lt_or_ge s.idx p.schedule.length with h | h
    · exact h
    · rw [List.getElem?_eq_none h] at hx0; cases hx0
  have hne : p.schedule.drop s.idx ≠ [] := by
    intro e; have := List.drop_eq_nil_iff.mp e; omega
  have hsorted : (p.schedule.drop s.idx).Pairwise (· < ·) := List.Pairwise.sublist (List.drop_sublist _ _) F.sorted
  have hhead : ∀ x, (p.schedule.drop s.idx).head? = some x → s.time ≤ x := by
    intro x hx
    rw [List.head?_drop] at hx
    rw [hx0] at hx; cases hx; exact hle
  have hlast : ∀ z, (p.schedule.drop s.idx).getLast? = some z → isclose p.rtol p.atol s.time z = false := by
    intro z hz
    rw [List.getLast?_drop, if_neg (by omega), F.final_mem] at hz
    cases hz; exact hnf
  obtain ⟨pre, x, post, hl, hpre, htx, hcase⟩ :=
    corrSched_spec p.rtol p.atol s.time (clampMax p (clampMin p s.dt)) _ hne hsorted hhead hlast
  obtain ⟨hx, hmem⟩ := getElem?_of_drop_eq hl
  have hb := clamp_bounds F s.dt
  have hpre1 : s.time = x0 → 1 ≤ pre.length := by
    intro e
    cases hpl : pre with
    | cons a l => simp
    | nil =>
      exfalso
      rw [hpl] at hx
      simp only [List.length_nil, Nat.add_zero] at hx
      rw [hx0] at hx; cases hx
      rcases hcase with ⟨hfit, _⟩ | ⟨_, hnc, _⟩
      · grind
      · rw [e, isclose_self] at hnc; cases hnc
  rcases hcase with ⟨hfit, hc⟩ | ⟨hcut, hnc, hc⟩
  · refine ⟨{ s with dt := clampMax p (clampMin p s.dt), idx := s.idx + pre.length, aboutToHit := false },
      clampMax p (clampMin p s.dt), by simp only [correct, hc], rfl, rfl, rfl, rfl, hpos, hb.2, Or.inl hb.1,
      by simp, ?_, ?_, ?_, ?_⟩
    · simp [pending]
    · intro e; have := hpre1 e; simp [pending]; omega
    · exact ⟨x, by simpa [pending] using hx, hfit, by simp⟩
    · intro j h1 h2
      obtain ⟨y, hy, hym⟩ := hmem j h1 (by simpa [pending] using h2)
      exact ⟨y, hy, hpre y hym⟩
  · have hxt : s.time < x := by
      rcases Rat.le_iff_lt_or_eq.mp htx with h | h
      · exact h
      · rw [← h, isclose_self] at hnc; cases hnc
    refine ⟨{ s with dt := x - s.time, idx := s.idx + (pre.length + 1), aboutToHit := true },
      x - s.time, by simp only [correct, hc], rfl, rfl, rfl, rfl, ?_, ?_, Or.inr rfl, ?_, ?_, ?_, ?_, ?_⟩
    · show 0 < x - s.time; grind
    · show x - s.time ≤ p.dtMax; grind
    · intro _; show 1 ≤ s.idx + (pre.length + 1); omega
    · simp [pending]
    · intro e; have := hpre1 e; simp [pending]; omega
    · refine ⟨x, ?_, ?_, ?_⟩
      · simpa [pending] using hx
      · show s.time + (x - s.time) ≤ x; grind
      · intro _; show s.time + (x - s.time) = x; grind
    · intro j h1 h2
      obtain ⟨y, hy, hym⟩ := hmem j h1 (by simp [pending] at h2; omega)
      exact ⟨y, hy, hpre y hym⟩


/-! ### the loop invariant -/

/-- Invariant of the time loop at the loop head (status `running`): `acc` are the accepted times
    (most recent first), `pending s` is the index of the next scheduled time not yet reached. -/
structure Inv (p : Params) (s : TM) (acc : List Rat) : Prop where
  head : acc.head? = some s.time
  dt_pos : 0 < s.dt
  idx_pos : s.aboutToHit = true → 1 ≤ s.idx
  next : ∃ x, p.schedule[pending s]? = some x ∧ s.time + s.dt ≤ x ∧ (s.aboutToHit = true → s.time + s.dt = x)
  hit : ∀ j, j < pending s → ∃ y, p.schedule[j]? = some y ∧ HitBy p acc y
  not_final : finalTimeReached p s = false
  dt_max : s.dt ≤ p.dtMax
  dt_min : p.dtMin ≤ s.dt ∨ ∃ x, p.schedule[pending s]? = some x ∧ s.time + s.dt = x
  recomp : (s.recompNum : Int) ≤ p.recompMax
  time_nonneg : 0 ≤ s.time
  ti : s.timeIndex + 1 = acc.length
  pend_pos : 1 ≤ pending s

theorem pending_le_idx (s : TM) : pending s ≤ s.idx := by
  unfold pending; split <;> omega

def Good (p : Params) (r : Run) : Prop :=
  r.accepted.Pairwise (· > ·) ∧ (∀ a ∈ r.accepted, a ≤ p.timeFinal) ∧
  match r.status with
  | .running => Inv p r.tm r.accepted
  | .finished => ∀ y ∈ p.schedule, HitBy p r.accepted y
  | .raised e => e = .dtMinReached ∨ e = .recompExhausted
  | .crashed _ => False

theorem HitBy.mono {p : Params} {acc : List Rat} {y : Rat} (a : Rat) (h : HitBy p acc y) : HitBy p (a :: acc) y := by
  obtain ⟨b, hb, hc⟩ := h
  exact ⟨b, List.mem_cons_of_mem _ hb, hc⟩

theorem not_final_iff {p : Params} {s : TM} :
    finalTimeReached p s = false ↔ ¬ (s.time > p.timeFinal) ∧ isclose p.rtol p.atol s.time p.timeFinal = false := by
  simp [finalTimeReached]

theorem head_is_max {acc : List Rat} {t : Rat} (hm : acc.Pairwise (· > ·)) (hh : acc.head? = some t) :
    ∀ a ∈ acc, a ≤ t := by
  cases acc with
  | nil => simp
  | cons b l =>
    simp at hh; subst hh
    intro a ha
    rcases List.mem_cons.mp ha with rfl | ha
    · grind
    · have := (List.pairwise_cons.mp hm).1 a ha; grind

theorem compute_conv_final {p : Params} {s : TM} (it : Int) (h : finalTimeReached p s = true) :
    computeTimeStep p s (some it) false = (s, .ok none) := by
  simp [computeTimeStep, h]

theorem compute_conv {p : Params} (F : Facts p) {s : TM} (it : Int) (h : finalTimeReached p s = false) :
    computeTimeStep p s (some it) false = correct p (adaptIter p s it) := by
  simp [computeTimeStep, h, F.adaptive]

theorem adaptIter_facts (p : Params) (s : TM) (it : Int) :
    (adaptIter p s it).time = s.time ∧ (adaptIter p s it).idx = s.idx ∧
    (adaptIter p s it).aboutToHit = s.aboutToHit ∧ (adaptIter p s it).timeIndex = s.timeIndex ∧
    (adaptIter p s it).recompNum = 0 ∧
    ((adaptIter p s it).dt = s.dt * p.overRelax ∨ (adaptIter p s it).dt = s.dt * p.underRelax ∨
      (adaptIter p s it).dt = s.dt) := by
  unfold adaptIter
  split
  · simp
  · split <;> simp

/-- a scheduled time at an index below the length, with the sortedness consequences -/
theorem sched_lt {p : Params} (F : Facts p) {i j : Nat} {x y : Rat} (hi : p.schedule[i]? = some x)
    (hj : p.schedule[j]? = some y) (hij : i < j) : x < y := by
  obtain ⟨hi', rfl⟩ := List.getElem?_eq_some_iff.mp hi
  obtain ⟨hj', rfl⟩ := List.getElem?_eq_some_iff.mp hj
  exact List.pairwise_iff_getElem.mp F.sorted i j hi' hj' hij

theorem sched_mem {p : Params} {i : Nat} {x : Rat} (hi : p.schedule[i]? = some x) : x ∈ p.schedule :=
  List.mem_of_getElem? hi

theorem final_congr (p : Params) {s s' : TM} (h : s.time = s'.time) :
    finalTimeReached p s = finalTimeReached p s' := by
  simp [finalTimeReached, h]

theorem last_index {p : Params} (F : Facts p) : p.schedule[p.schedule.length - 1]? = some p.timeFinal := by
  rw [← List.getLast?_eq_getElem?]; exact F.final_mem

/-- the facts about the clock after `increase_time` that both outcomes use -/
theorem after_increase {p : Params} (F : Facts p) {s : TM} {acc : List Rat} (hm : acc.Pairwise (· > ·))
    (I : Inv p s acc) :
    (∀ a ∈ acc, s.time + s.dt > a) ∧ s.time + s.dt ≤ p.timeFinal ∧ 0 ≤ s.time + s.dt := by
  obtain ⟨x, hx, hle, _⟩ := I.next
  have h1 := head_is_max hm I.head
  have h2 := F.le_final x (sched_mem hx)
  have := I.dt_pos; have := I.time_nonneg
  refine ⟨fun a ha => ?_, by grind, by grind⟩
  have := h1 a ha; grind

/-- A converged step: the new time is accepted; the loop either stops with every scheduled time hit, or
    goes on from an invariant state whose `pending` index is at least the old `_scheduled_idx`. -/
theorem step_converged_cases {p : Params} (F : Facts p) {s : TM} {acc : List Rat} (hm : acc.Pairwise (· > ·))
    (hb : ∀ a ∈ acc, a ≤ p.timeFinal) (I : Inv p s acc) (it : Int) :
    (stepRun p { tm := s, accepted := acc, status := .running } (.converged it)).accepted = (s.time + s.dt) :: acc ∧
    ((s.time + s.dt) :: acc).Pairwise (· > ·) ∧ (∀ a ∈ (s.time + s.dt) :: acc, a ≤ p.timeFinal) ∧
    (((stepRun p { tm := s, accepted := acc, status := .running } (.converged it)).status = .finished ∧
        ∀ y ∈ p.schedule, HitBy p ((s.time + s.dt) :: acc) y) ∨
     ((stepRun p { tm := s, accepted := acc, status := .running } (.converged it)).status = .running ∧
        (stepRun p { tm := s, accepted := acc, status := .running } (.converged it)).tm.time = s.time + s.dt ∧
        s.idx ≤ pending (stepRun p { tm := s, accepted := acc, status := .running } (.converged it)).tm ∧
        (p.schedule[s.idx]? = some (s.time + s.dt) →
          s.idx + 1 ≤ pending (stepRun p { tm := s, accepted := acc, status := .running } (.converged it)).tm) ∧
        Inv p (stepRun p { tm := s, accepted := acc, status := .running } (.converged it)).tm ((s.time + s.dt) :: acc))) := by
  obtain ⟨x, hx, hle, heq⟩ := I.next
  obtain ⟨hgt, hfin, hnn⟩ := after_increase F hm I
  have hm' : ((s.time + s.dt) :: acc).Pairwise (· > ·) := List.pairwise_cons.mpr ⟨hgt, hm⟩
  have hb' : ∀ a ∈ (s.time + s.dt) :: acc, a ≤ p.timeFinal := by
    intro a ha
    rcases List.mem_cons.mp ha with rfl | ha
    · exact hfin
    · exact hb a ha
  have hself : HitBy p ((s.time + s.dt) :: acc) (s.time + s.dt) :=
    ⟨_, List.mem_cons_self, isclose_self _⟩
  by_cases hf : finalTimeReached p (increaseTimeIndex (increaseTime s)) = true
  · -- the final time is reached: the loop stops
    refine ⟨?_, hm', hb', Or.inl ⟨?_, ?_⟩⟩
    · simp only [stepRun, F.adaptive, Bool.false_eq_true, if_false, compute_conv_final it hf]; rfl
    · simp only [stepRun, F.adaptive, Bool.false_eq_true, if_false, compute_conv_final it hf, statusOf, hf, if_true]
    intro y hy
    obtain ⟨j, hj, rfl⟩ := List.mem_iff_getElem.mp hy
    have hjy : p.schedule[j]? = some p.schedule[j] := List.getElem?_eq_getElem hj
    rcases Nat.lt_or_ge j (pending s) with hlt | hge
    · obtain ⟨y, hy1, hy2⟩ := I.hit j hlt
      rw [hjy] at hy1; cases hy1
      exact hy2.mono _
    · have hxy : x ≤ p.schedule[j] := by
        rcases Nat.eq_or_lt_of_le hge with e | l
        · have h2 : p.schedule[j]? = some x := e ▸ hx
          rw [hjy] at h2; cases h2; grind
        · have := sched_lt F hx hjy l; grind
      have hcl : isclose p.rtol p.atol (s.time + s.dt) p.timeFinal = true := by
        have : finalTimeReached p (increaseTimeIndex (increaseTime s)) = true := hf
        simp only [finalTimeReached, Bool.or_eq_true, decide_eq_true_eq] at this
        rcases this with h | h
        · have : (increaseTimeIndex (increaseTime s)).time = s.time + s.dt := rfl
          grind
        · exact h
      exact ⟨_, List.mem_cons_self,
        isclose_mono F.tol hnn (by grind) (F.le_final _ hy) hcl⟩
  · -- the loop goes on
    have hf' : finalTimeReached p (increaseTimeIndex (increaseTime s)) = false := by simpa using hf
    obtain ⟨ha1, ha2, ha3, ha4, ha5, ha6⟩ := adaptIter_facts p (increaseTimeIndex (increaseTime s)) it
    have ht1 : (increaseTimeIndex (increaseTime s)).time = s.time + s.dt := rfl
    have hdt1 : (increaseTimeIndex (increaseTime s)).dt = s.dt := rfl
    have hnf := (not_final_iff.mp hf').2
    -- the schedule entry the correction starts from
    have hx0 : ∃ x0, p.schedule[s.idx]? = some x0 ∧ s.time + s.dt ≤ x0 := by
      cases hab : s.aboutToHit with
      | false =>
        have : pending s = s.idx := by simp [pending, hab]
        rw [this] at hx
        exact ⟨x, hx, hle⟩
      | true =>
        have hp : pending s = s.idx - 1 := by simp [pending, hab]
        have h1 := I.idx_pos hab
        have hxe := heq hab
        rw [hp] at hx
        have hlen : s.idx - 1 < p.schedule.length := (List.getElem?_eq_some_iff.mp hx).1
        rcases Nat.lt_or_ge s.idx p.schedule.length with hl | hl
        · have hy : p.schedule[s.idx]? = some p.schedule[s.idx] := List.getElem?_eq_getElem hl
          have := sched_lt F hx hy (by omega)
          exact ⟨_, hy, by grind⟩
        · exfalso
          have e : s.idx - 1 = p.schedule.length - 1 := by omega
          rw [e, last_index F] at hx
          cases hx
          rw [ht1, hxe, isclose_self] at hnf
          cases hnf
    obtain ⟨x0, hx0, hle0⟩ := hx0
    have hpos : 0 < clampMax p (clampMin p (adaptIter p (increaseTimeIndex (increaseTime s)) it).dt) := by
      apply clamp_pos F
      rcases F.pos with h | ⟨h1, h2⟩
      · exact Or.inl h
      · right
        have := I.dt_pos; have := F.over
        rcases ha6 with e | e | e <;> rw [e, hdt1]
        · exact Rat.mul_pos (by grind) (by grind)
        · exact Rat.mul_pos (by grind) h1
        · grind
    obtain ⟨s3, d, hc, ht, hti, hrc, hd, hdpos, hdmax, hdmin, hipos, hidx, hidx1, hnext, hnew⟩ :=
      correct_spec F (adaptIter p (increaseTimeIndex (increaseTime s)) it) x0 hpos (by rw [ha2]; exact hx0)
        (by rw [ha1, ht1]; exact hle0) (by rw [ha1]; exact hnf)
    have ht3 : s3.time = s.time + s.dt := by rw [ht, ha1, ht1]
    have hf3 : finalTimeReached p s3 = false := by rw [final_congr p (ht3.trans ht1.symm)]; exact hf'
    have hidx' : s.idx ≤ pending s3 := by rw [ha2] at hidx; exact hidx
    have hland : p.schedule[s.idx]? = some (s.time + s.dt) → s.idx + 1 ≤ pending s3 := by
      intro e
      rw [hx0] at e; cases e
      have := hidx1 (by rw [ha1, ht1])
      rw [ha2] at this; exact this
    refine ⟨?_, hm', hb', Or.inr ⟨?_, ?_, ?_, ?_, ?_⟩⟩
    · simp only [stepRun, F.adaptive, Bool.false_eq_true, if_false, compute_conv F it hf', hc]; rfl
    · simp only [stepRun, F.adaptive, Bool.false_eq_true, if_false, compute_conv F it hf', hc, statusOf, hf3]
    · simp only [stepRun, F.adaptive, Bool.false_eq_true, if_false, compute_conv F it hf', hc]; exact ht3
    · simp only [stepRun, F.adaptive, Bool.false_eq_true, if_false, compute_conv F it hf', hc]; exact hidx'
    · simp only [stepRun, F.adaptive, Bool.false_eq_true, if_false, compute_conv F it hf', hc]; exact hland
    simp only [stepRun, F.adaptive, Bool.false_eq_true, if_false, compute_conv F it hf', hc]
    show Inv p s3 ((s.time + s.dt) :: acc)
    refine ⟨by simp [ht3], hdpos, hipos, hnext, ?_, hf3, hdmax, (hdmin.imp id (fun h => by obtain ⟨x, hx, _, he⟩ := hnext; exact ⟨x, hx, he h⟩)), ?_, by rw [ht3]; exact hnn, ?_,
      Nat.le_trans I.pend_pos (Nat.le_trans (pending_le_idx s) hidx')⟩
    · intro j hj
      rcases Nat.lt_or_ge j (pending s) with hlt | hge
      · obtain ⟨y, hy1, hy2⟩ := I.hit j hlt
        exact ⟨y, hy1, hy2.mono _⟩
      · rcases Nat.lt_or_ge j s.idx with hlt2 | hge2
        · -- only possible when the step was about to hit `x`
          have hab : s.aboutToHit = true := by
            cases hab : s.aboutToHit with
            | true => rfl
            | false => simp [pending, hab] at hge; omega
          have hp : pending s = s.idx - 1 := by simp [pending, hab]
          have : j = pending s := by omega
          rw [this]
          exact ⟨x, hx, by rw [← heq hab]; exact hself⟩
        · obtain ⟨y, hy1, hy2⟩ := hnew j (by rw [ha2]; exact hge2) hj
          rw [ha1, ht1] at hy2
          exact ⟨y, hy1, _, List.mem_cons_self, hy2⟩
    · rw [hrc, ha5]; have := F.rmax; grind
    · rw [hti, ha4]; have := I.ti; simp [increaseTimeIndex, increaseTime]; omega


theorem step_converged {p : Params} (F : Facts p) {s : TM} {acc : List Rat} (hm : acc.Pairwise (· > ·))
    (hb : ∀ a ∈ acc, a ≤ p.timeFinal) (I : Inv p s acc) (it : Int) :
    Good p (stepRun p { tm := s, accepted := acc, status := .running } (.converged it)) := by
  obtain ⟨hacc, hm', hb', hcase⟩ := step_converged_cases F hm hb I it
  refine ⟨by rw [hacc]; exact hm', by rw [hacc]; exact hb', ?_⟩
  rcases hcase with ⟨h, hh⟩ | ⟨h, _, _, _, hI⟩
  · rw [h, hacc]; exact hh
  · rw [h, hacc]; exact hI

/-- the state `_adaptation_based_on_recomputation` hands to the corrections -/
def rewound (p : Params) (s : TM) : TM :=
  { s with time := s.time - s.dt, timeIndex := s.timeIndex - 1, dt := s.dt * p.recompFactor,
           recompNum := s.recompNum + 1, idx := if s.aboutToHit then s.idx - 1 else s.idx }

theorem compute_fail {p : Params} (F : Facts p) (s : TM) :
    computeTimeStep p s none true =
      if (s.recompNum : Int) < p.recompMax then
        if s.dt = p.dtMin then (s, .err .dtMinReached) else correct p (rewound p s)
      else (s, .err .recompExhausted) := by
  simp [computeTimeStep, F.adaptive, rewound]

/-- A failed step: the error cases and the rewind. -/
theorem step_failed_cases {p : Params} (F : Facts p) {s : TM} {acc : List Rat} (I : Inv p s acc) :
    (stepRun p { tm := s, accepted := acc, status := .running } .failed).accepted = acc ∧
    (((stepRun p { tm := s, accepted := acc, status := .running } .failed).status = .raised .recompExhausted ∧
        p.recompMax ≤ (s.recompNum : Int)) ∨
     ((stepRun p { tm := s, accepted := acc, status := .running } .failed).status = .raised .dtMinReached ∧
        s.dt = p.dtMin) ∨
     ((stepRun p { tm := s, accepted := acc, status := .running } .failed).status = .running ∧
        (stepRun p { tm := s, accepted := acc, status := .running } .failed).tm.time = s.time ∧
        (stepRun p { tm := s, accepted := acc, status := .running } .failed).tm.recompNum = s.recompNum + 1 ∧
        Inv p (stepRun p { tm := s, accepted := acc, status := .running } .failed).tm acc ∧
        pending s ≤ pending (stepRun p { tm := s, accepted := acc, status := .running } .failed).tm)) := by
  obtain ⟨x, hx, hle, heq⟩ := I.next
  have hs1 : (increaseTimeIndex (increaseTime s)).dt = s.dt := rfl
  have hr1 : (increaseTimeIndex (increaseTime s)).recompNum = s.recompNum := rfl
  by_cases h1 : (s.recompNum : Int) < p.recompMax
  · by_cases h2 : s.dt = p.dtMin
    · refine ⟨?_, Or.inr (Or.inl ⟨?_, h2⟩)⟩ <;>
        simp only [stepRun, F.adaptive, Bool.false_eq_true, if_false, compute_fail F, hs1, hr1, h1, h2, if_true]
    · -- rewind and correct
      have hRt : (rewound p (increaseTimeIndex (increaseTime s))).time = s.time := by
        show s.time + s.dt - s.dt = s.time; grind
      have hRi : (rewound p (increaseTimeIndex (increaseTime s))).idx = pending s := rfl
      have hRd : (rewound p (increaseTimeIndex (increaseTime s))).dt = s.dt * p.recompFactor := rfl
      have hpos : 0 < clampMax p (clampMin p (rewound p (increaseTimeIndex (increaseTime s))).dt) := by
        apply clamp_pos F
        rcases F.pos with h | ⟨_, h⟩
        · exact Or.inl h
        · right; rw [hRd]; exact Rat.mul_pos I.dt_pos h
      have hnf : isclose p.rtol p.atol s.time p.timeFinal = false := (not_final_iff.mp I.not_final).2
      obtain ⟨s3, d, hc, ht, hti, hrc, hd, hdpos, hdmax, hdmin, hipos, hidx, hidx1, hnext, hnew⟩ :=
        correct_spec F (rewound p (increaseTimeIndex (increaseTime s))) x hpos (by rw [hRi]; exact hx)
          (by rw [hRt]; have := I.dt_pos; grind) (by rw [hRt]; exact hnf)
      have ht3 : s3.time = s.time := ht.trans hRt
      have hf3 : finalTimeReached p s3 = false := by rw [final_congr p ht3]; exact I.not_final
      have hmem : s.time ∈ acc := List.mem_of_mem_head? I.head
      have hInv : Inv p s3 acc := by
        refine ⟨by rw [ht3]; exact I.head, hdpos, hipos, hnext, ?_, hf3, hdmax, (hdmin.imp id (fun h => by obtain ⟨x, hx, _, he⟩ := hnext; exact ⟨x, hx, he h⟩)), ?_, by rw [ht3]; exact I.time_nonneg, ?_,
          Nat.le_trans I.pend_pos (by rw [hRi] at hidx; exact hidx)⟩
        · intro j hj
          rcases Nat.lt_or_ge j (pending s) with hlt | hge
          · exact I.hit j hlt
          · obtain ⟨y, hy1, hy2⟩ := hnew j (by rw [hRi]; exact hge) hj
            rw [hRt] at hy2
            exact ⟨y, hy1, _, hmem, hy2⟩
        · rw [hrc]; show ((s.recompNum + 1 : Nat) : Int) ≤ p.recompMax; omega
        · rw [hti]; show s.timeIndex + 1 - 1 + 1 = acc.length; have := I.ti; omega
      refine ⟨?_, Or.inr (Or.inr ⟨?_, ?_, ?_, ?_, ?_⟩)⟩ <;>
        simp only [stepRun, F.adaptive, Bool.false_eq_true, if_false, compute_fail F, hs1, hr1, h1, h2, if_true,
          hc, statusOf, hf3]
      · exact ht3
      · exact hrc
      · exact hInv
      · rw [hRi] at hidx; exact hidx
  · refine ⟨?_, Or.inl ⟨?_, by omega⟩⟩ <;>
      simp only [stepRun, F.adaptive, Bool.false_eq_true, if_false, compute_fail F, hr1, h1]

theorem step_failed {p : Params} (F : Facts p) {s : TM} {acc : List Rat} (hm : acc.Pairwise (· > ·))
    (hb : ∀ a ∈ acc, a ≤ p.timeFinal) (I : Inv p s acc) :
    Good p (stepRun p { tm := s, accepted := acc, status := .running } .failed) := by
  obtain ⟨hacc, hcase⟩ := step_failed_cases F I
  refine ⟨by rw [hacc]; exact hm, by rw [hacc]; exact hb, ?_⟩
  rcases hcase with ⟨h, _⟩ | ⟨h, _⟩ | ⟨h, _, _, hI, _⟩
  · rw [h]; exact Or.inr rfl
  · rw [h]; exact Or.inl rfl
  · rw [h, hacc]; exact hI

/-! ### reachable states -/

theorem schedule_shape {p : Params} (F : Facts p) : ∃ s0 s1 rest, p.schedule = s0 :: s1 :: rest := by
  have := F.len
  match h : p.schedule with
  | [] => simp [h] at this
  | [_] => simp [h] at this
  | s0 :: s1 :: rest => exact ⟨s0, s1, rest, rfl⟩

theorem good_start {p : Params} (F : Facts p) : Good p (startRun p) := by
  obtain ⟨s0, s1, rest, hs⟩ := schedule_shape F
  have ht0 : p.timeInit = s0 := by simp [Params.timeInit, hs]
  have hmem0 : s0 ∈ p.schedule := by simp [hs]
  have h0 : 0 ≤ s0 := F.nonneg s0 hmem0
  have hfin0 : s0 ≤ p.timeFinal := F.le_final s0 hmem0
  have hfit : s0 + p.dtInit ≤ s1 := by have := F.fits; simpa [Fits, ht0, hs] using this
  have hself : HitBy p [s0] s0 := ⟨s0, by simp, isclose_self _⟩
  refine ⟨by simp [startRun], by simp [startRun, ht0, hfin0], ?_⟩
  by_cases hf : finalTimeReached p (init p) = true
  · simp only [startRun, statusOf, hf, if_true]
    intro y hy
    have hcl : isclose p.rtol p.atol s0 p.timeFinal = true := by
      simp only [finalTimeReached, Bool.or_eq_true, decide_eq_true_eq] at hf
      rcases hf with h | h
      · have : (init p).time = s0 := ht0
        grind
      · have : (init p).time = s0 := ht0
        rw [this] at h; exact h
    have hy0 : s0 ≤ y := by
      have hsrt := F.sorted
      rw [hs] at hy hsrt
      exact sorted_head_le hsrt y hy
    rw [ht0]
    exact ⟨s0, by simp, isclose_mono F.tol h0 hy0 (F.le_final y hy) hcl⟩
  · have hf' : finalTimeReached p (init p) = false := by simpa using hf
    simp only [startRun, statusOf, hf', Bool.false_eq_true, if_false]
    show Inv p (init p) [p.timeInit]
    rw [ht0]
    refine ⟨by simp [init, ht0], F.dt0, by simp [init], ⟨s1, by simp [pending, init, hs], ?_, by simp [init]⟩, ?_, hf',
      F.max0, Or.inl F.min0, ?_, by simp [init, ht0, h0], by simp [init], by simp [pending, init]⟩
    · show p.timeInit + p.dtInit ≤ s1; rw [ht0]; exact hfit
    · intro j hj
      have : j = 0 := by simp [pending, init] at hj; omega
      subst this
      exact ⟨s0, by simp [hs], hself⟩
    · show ((0 : Nat) : Int) ≤ p.recompMax; have := F.rmax; omega

theorem good_step {p : Params} (F : Facts p) (r : Run) (o : Outcome) (h : Good p r) : Good p (stepRun p r o) := by
  obtain ⟨tm, acc, st⟩ := r
  cases st with
  | running =>
    obtain ⟨hm, hb, hI⟩ := h
    cases o with
    | converged it => exact step_converged F hm hb hI it
    | failed => exact step_failed F hm hb hI
  | finished => exact h
  | raised e => exact h
  | crashed e => exact h

theorem good_runFrom {p : Params} (F : Facts p) (os : List Outcome) : ∀ r, Good p r → Good p (runFrom p r os) := by
  induction os with
  | nil => intro r h; exact h
  | cons o os ih => intro r h; exact ih _ (good_step F r o h)

theorem good_run {p : Params} (F : Facts p) (os : List Outcome) : Good p (run p os) :=
  good_runFrom F os _ (good_start F)

theorem runFrom_append (p : Params) (r : Run) (os os' : List Outcome) :
    runFrom p r (os ++ os') = runFrom p (runFrom p r os) os' := by
  simp [runFrom, List.foldl_append]

theorem stepRun_not_running (p : Params) (r : Run) (o : Outcome) (h : r.status ≠ .running) : stepRun p r o = r := by
  obtain ⟨tm, acc, st⟩ := r
  cases st <;> simp_all [stepRun]

theorem runFrom_not_running (p : Params) (os : List Outcome) : ∀ r, r.status ≠ .running → runFrom p r os = r := by
  induction os with
  | nil => intro r _; rfl
  | cons o os ih =>
    intro r h
    show runFrom p (stepRun p r o) os = r
    rw [stepRun_not_running p r o h]; exact ih r h

/-- `k` consecutive failed steps from a running state whose recomputation counter is `c` end the run
    (by an error) as soon as `c + k` exceeds `recomp_max`. -/
theorem failures_exhaust {p : Params} (F : Facts p) : ∀ (k : Nat) (r : Run), Good p r → r.status = .running →
    p.recompMax < (r.tm.recompNum : Int) + k → (runFrom p r (List.replicate k .failed)).status ≠ .running := by
  intro k
  induction k with
  | zero =>
    intro r hg hr hk
    obtain ⟨tm, acc, st⟩ := r
    cases hr
    have : (tm.recompNum : Int) ≤ p.recompMax := hg.2.2.recomp
    simp at hk; omega
  | succ k ih =>
    intro r hg hr hk
    obtain ⟨tm, acc, st⟩ := r
    cases hr
    show (runFrom p (stepRun p _ .failed) (List.replicate k .failed)).status ≠ .running
    have hg' := good_step F _ .failed hg
    obtain ⟨_, hcase⟩ := step_failed_cases F hg.2.2
    rcases hcase with ⟨h, _⟩ | ⟨h, _⟩ | ⟨h, _, hrc, _, _⟩
    · rw [runFrom_not_running p _ _ (by rw [h]; simp)]; rw [h]; simp
    · rw [runFrom_not_running p _ _ (by rw [h]; simp)]; rw [h]; simp
    · exact ih _ hg' h (by rw [hrc]; push_cast at hk ⊢; omega)


/-! ### progress: converged steps use up a bounded budget -/

/-- remaining budget: distance to the final time plus `dt_min` for every scheduled time still ahead -/
def budget (p : Params) (s : TM) : Rat :=
  (p.timeFinal - s.time) + p.dtMin * ((p.schedule.length - pending s : Nat) : Rat)

theorem Inv.pending_lt {p : Params} {s : TM} {acc : List Rat} (I : Inv p s acc) : pending s < p.schedule.length := by
  obtain ⟨x, hx, _, _⟩ := I.next
  exact (List.getElem?_eq_some_iff.mp hx).1

theorem budget_ge {p : Params} (F : Facts p) (hmin : 0 < p.dtMin) {s : TM} {acc : List Rat} (I : Inv p s acc) :
    p.dtMin ≤ budget p s := by
  obtain ⟨x, hx, hle, _⟩ := I.next
  have h1 := F.le_final x (sched_mem hx)
  have h2 := I.dt_pos
  have h3 : (1 : Rat) ≤ ((p.schedule.length - pending s : Nat) : Rat) := by
    have := I.pending_lt
    have : 1 ≤ p.schedule.length - pending s := by omega
    exact_mod_cast this
  have := Rat.mul_le_mul_of_nonneg_left h3 (Rat.le_of_lt hmin)
  unfold budget
  grind

/-- a converged step that does not end the run costs at least `dt_min` of the budget -/
theorem converged_costs {p : Params} (F : Facts p) (hmin : 0 < p.dtMin) {s : TM} {acc : List Rat}
    (hm : acc.Pairwise (· > ·)) (hb : ∀ a ∈ acc, a ≤ p.timeFinal) (I : Inv p s acc) (it : Int)
    (h : (stepRun p { tm := s, accepted := acc, status := .running } (.converged it)).status = .running) :
    budget p (stepRun p { tm := s, accepted := acc, status := .running } (.converged it)).tm + p.dtMin
      ≤ budget p s := by
  obtain ⟨_, _, _, hcase⟩ := step_converged_cases F hm hb I it
  rcases hcase with ⟨h', _⟩ | ⟨_, ht, hidx, hland, hI⟩
  · rw [h'] at h; cases h
  · have hlt := hI.pending_lt
    have hlt0 := I.pending_lt
    unfold budget
    rw [ht]
    cases hab : s.aboutToHit with
    | true =>
      have h1 := I.idx_pos hab
      have hp : pending s = s.idx - 1 := by simp [pending, hab]
      have hsplit : ((p.schedule.length - pending s : Nat) : Rat) =
          ((p.schedule.length - pending (stepRun p { tm := s, accepted := acc, status := .running } (.converged it)).tm : Nat) : Rat)
            + ((pending (stepRun p { tm := s, accepted := acc, status := .running } (.converged it)).tm - pending s : Nat) : Rat) := by
        rw [← Rat.natCast_add]; congr 1; omega
      have h3 : (1 : Rat) ≤ ((pending (stepRun p { tm := s, accepted := acc, status := .running } (.converged it)).tm - pending s : Nat) : Rat) := by
        have : 1 ≤ pending (stepRun p { tm := s, accepted := acc, status := .running } (.converged it)).tm - pending s := by omega
        exact_mod_cast this
      have h4 := Rat.mul_le_mul_of_nonneg_left h3 (Rat.le_of_lt hmin)
      have := I.dt_pos
      rw [hsplit]
      grind
    | false =>
      have hp : pending s = s.idx := by simp [pending, hab]
      rcases I.dt_min with hdt | ⟨x, hx, he⟩
      case inr =>
        -- the step lands exactly on the pending scheduled time without the flag: the cursor moves on
        rw [hp] at hx
        have hadv := hland (by rw [hx, he])
        have hsplit : ((p.schedule.length - pending s : Nat) : Rat) =
            ((p.schedule.length - pending (stepRun p { tm := s, accepted := acc, status := .running } (.converged it)).tm : Nat) : Rat)
              + ((pending (stepRun p { tm := s, accepted := acc, status := .running } (.converged it)).tm - pending s : Nat) : Rat) := by
          rw [← Rat.natCast_add]; congr 1; omega
        have h3 : (1 : Rat) ≤ ((pending (stepRun p { tm := s, accepted := acc, status := .running } (.converged it)).tm - pending s : Nat) : Rat) := by
          have : 1 ≤ pending (stepRun p { tm := s, accepted := acc, status := .running } (.converged it)).tm - pending s := by omega
          exact_mod_cast this
        have h4 := Rat.mul_le_mul_of_nonneg_left h3 (Rat.le_of_lt hmin)
        have := I.dt_pos
        rw [hsplit]
        grind
      have h3 : ((p.schedule.length - pending (stepRun p { tm := s, accepted := acc, status := .running } (.converged it)).tm : Nat) : Rat)
          ≤ ((p.schedule.length - pending s : Nat) : Rat) := by
        have : p.schedule.length - pending (stepRun p { tm := s, accepted := acc, status := .running } (.converged it)).tm
            ≤ p.schedule.length - pending s := by omega
        exact_mod_cast this
      have h4 := Rat.mul_le_mul_of_nonneg_left h3 (Rat.le_of_lt hmin)
      grind

theorem converged_run_budget {p : Params} (F : Facts p) (hmin : 0 < p.dtMin) :
    ∀ (os : List Outcome), AllConverged os → ∀ r, Good p r → r.status = .running →
      ((runFrom p r os).status = .finished) ∨
      ((runFrom p r os).status = .running ∧
        budget p (runFrom p r os).tm + p.dtMin * (os.length : Rat) ≤ budget p r.tm) := by
  intro os
  induction os with
  | nil =>
    intro _ r _ hr
    right; refine ⟨hr, ?_⟩
    show budget p r.tm + p.dtMin * ((0 : Nat) : Rat) ≤ budget p r.tm
    have : ((0 : Nat) : Rat) = 0 := rfl
    rw [this]
    grind
  | cons o os ih =>
    intro hall r hg hr
    obtain ⟨it, rfl⟩ := hall o List.mem_cons_self
    have hall' : AllConverged os := fun o ho => hall o (List.mem_cons_of_mem _ ho)
    obtain ⟨tm, acc, st⟩ := r
    cases hr
    obtain ⟨hm, hb, hI⟩ := hg
    have hI : Inv p tm acc := hI
    have hg' := step_converged F hm hb hI it
    show (runFrom p (stepRun p _ (.converged it)) os).status = .finished ∨ _
    obtain ⟨_, _, _, hcase⟩ := step_converged_cases F hm hb hI it
    rcases hcase with ⟨h', _⟩ | ⟨h', _, _, _, _⟩
    · left
      rw [runFrom_not_running p _ _ (by rw [h']; simp)]; exact h'
    · have hc := converged_costs F hmin hm hb hI it h'
      rcases ih hall' _ hg' h' with h2 | ⟨h2, h3⟩
      · exact Or.inl h2
      · right
        refine ⟨h2, ?_⟩
        show budget p (runFrom p (stepRun p _ (.converged it)) os).tm + p.dtMin * ((os.length + 1 : Nat) : Rat) ≤ budget p tm
        push_cast
        grind

/-! ### termination of arbitrary tapes (failures included) -/

theorem budget_mono {p : Params} (hmin : 0 < p.dtMin) {s s' : TM} (ht : s'.time = s.time)
    (hp : pending s ≤ pending s') : budget p s' ≤ budget p s := by
  unfold budget
  have h3 : ((p.schedule.length - pending s' : Nat) : Rat) ≤ ((p.schedule.length - pending s : Nat) : Rat) := by
    have : p.schedule.length - pending s' ≤ p.schedule.length - pending s := by omega
    exact_mod_cast this
  have := Rat.mul_le_mul_of_nonneg_left h3 (Rat.le_of_lt hmin)
  rw [ht]; grind

/-- a failed step that is recomputed does not increase the budget -/
theorem failed_costs {p : Params} (F : Facts p) (hmin : 0 < p.dtMin) {s : TM} {acc : List Rat} (I : Inv p s acc)
    (h : (stepRun p { tm := s, accepted := acc, status := .running } .failed).status = .running) :
    budget p (stepRun p { tm := s, accepted := acc, status := .running } .failed).tm ≤ budget p s ∧
    (stepRun p { tm := s, accepted := acc, status := .running } .failed).tm.recompNum = s.recompNum + 1 := by
  obtain ⟨_, hcase⟩ := step_failed_cases F I
  rcases hcase with ⟨h', _⟩ | ⟨h', _⟩ | ⟨_, ht, hrc, _, hp⟩
  · rw [h'] at h; cases h
  · rw [h'] at h; cases h
  · exact ⟨budget_mono hmin ht hp, hrc⟩

/-- accepted steps so far, weighted with `dt_min`, plus the remaining budget while the loop runs -/
def pot (p : Params) (r : Run) : Rat :=
  p.dtMin * (r.accepted.length : Rat) + (match r.status with | .running => budget p r.tm | _ => 0)

theorem pot_step {p : Params} (F : Facts p) (hmin : 0 < p.dtMin) (r : Run) (o : Outcome) (hg : Good p r) :
    pot p (stepRun p r o) ≤ pot p r := by
  obtain ⟨tm, acc, st⟩ := r
  cases st with
  | running =>
    obtain ⟨hm, hb, hI⟩ := hg
    have hI : Inv p tm acc := hI
    have hge := budget_ge F hmin hI
    cases o with
    | converged it =>
      obtain ⟨hacc, _, _, hcase⟩ := step_converged_cases F hm hb hI it
      rcases hcase with ⟨h', _⟩ | ⟨h', _, _, _, _⟩
      · unfold pot; rw [h', hacc]
        simp only [List.length_cons]
        push_cast; grind
      · have hc := converged_costs F hmin hm hb hI it h'
        unfold pot; rw [h', hacc]
        simp only [List.length_cons]
        push_cast; grind
    | failed =>
      obtain ⟨hacc, hcase⟩ := step_failed_cases F hI
      rcases hcase with ⟨h', _⟩ | ⟨h', _⟩ | ⟨h', ht, _, _, hp⟩
      · unfold pot; rw [h', hacc]; grind
      · unfold pot; rw [h', hacc]; grind
      · have := budget_mono hmin ht hp
        unfold pot; rw [h', hacc]; grind
  | finished => simp [stepRun]
  | raised e => simp [stepRun]
  | crashed e => simp [stepRun]

theorem pot_runFrom {p : Params} (F : Facts p) (hmin : 0 < p.dtMin) (os : List Outcome) :
    ∀ r, Good p r → pot p (runFrom p r os) ≤ pot p r := by
  induction os with
  | nil => intro r _; exact Rat.le_refl
  | cons o os ih =>
    intro r hg
    exact Rat.le_trans (ih _ (good_step F r o hg)) (pot_step F hmin r o hg)

/-- work still to do: every accepted step may be preceded by up to `recomp_max` recomputations -/
def work (p : Params) (s : TM) : Rat :=
  ((p.recompMax : Rat) + 1) * budget p s + p.dtMin * ((p.recompMax : Rat) - (s.recompNum : Rat))

theorem work_ge {p : Params} (F : Facts p) (hmin : 0 < p.dtMin) {s : TM} {acc : List Rat} (I : Inv p s acc) :
    ((p.recompMax : Rat) + 1) * p.dtMin ≤ work p s := by
  have hb := budget_ge F hmin I
  have hR : (0 : Rat) ≤ (p.recompMax : Rat) + 1 := by
    have := F.rmax
    have : (0 : Rat) ≤ (p.recompMax : Rat) := by exact_mod_cast (by omega : (0 : Int) ≤ p.recompMax)
    grind
  have hn : (0 : Rat) ≤ (p.recompMax : Rat) - (s.recompNum : Rat) := by
    have := I.recomp
    have : ((s.recompNum : Int) : Rat) ≤ (p.recompMax : Rat) := by exact_mod_cast this
    have e : ((s.recompNum : Int) : Rat) = (s.recompNum : Rat) := by norm_cast
    grind
  have h1 := Rat.mul_le_mul_of_nonneg_left hb hR
  have h2 := Rat.mul_nonneg (Rat.le_of_lt hmin) hn
  unfold work; grind

theorem work_step {p : Params} (F : Facts p) (hmin : 0 < p.dtMin) {tm : TM} {acc : List Rat}
    (hg : Good p { tm := tm, accepted := acc, status := .running }) (o : Outcome)
    (h : (stepRun p { tm := tm, accepted := acc, status := .running } o).status = .running) :
    work p (stepRun p { tm := tm, accepted := acc, status := .running } o).tm + p.dtMin ≤ work p tm := by
  obtain ⟨hm, hb, hI⟩ := hg
  have hI : Inv p tm acc := hI
  have hR : (0 : Rat) ≤ (p.recompMax : Rat) := by
    have := F.rmax
    exact_mod_cast (by omega : (0 : Int) ≤ p.recompMax)
  have hn : (s : TM) → (0 : Rat) ≤ (s.recompNum : Rat) := fun s => by exact_mod_cast Nat.zero_le _
  have hle : (tm.recompNum : Rat) ≤ (p.recompMax : Rat) := by
    have := hI.recomp
    have h' : ((tm.recompNum : Int) : Rat) ≤ (p.recompMax : Rat) := by exact_mod_cast this
    have e : ((tm.recompNum : Int) : Rat) = (tm.recompNum : Rat) := by norm_cast
    grind
  cases o with
  | converged it =>
    have hc := converged_costs F hmin hm hb hI it h
    have h1 := Rat.mul_le_mul_of_nonneg_left hc (by grind : (0 : Rat) ≤ (p.recompMax : Rat) + 1)
    have h2 := hn (stepRun p { tm := tm, accepted := acc, status := .running } (.converged it)).tm
    have h3 := Rat.mul_nonneg (Rat.le_of_lt hmin) h2
    have h4 := Rat.mul_nonneg (Rat.le_of_lt hmin) (by grind : (0 : Rat) ≤ (p.recompMax : Rat) - (tm.recompNum : Rat))
    unfold work; grind
  | failed =>
    obtain ⟨hc, hrc⟩ := failed_costs F hmin hI h
    have h1 := Rat.mul_le_mul_of_nonneg_left hc (by grind : (0 : Rat) ≤ (p.recompMax : Rat) + 1)
    unfold work
    rw [hrc]
    push_cast
    grind

theorem work_runFrom {p : Params} (F : Facts p) (hmin : 0 < p.dtMin) (os : List Outcome) :
    ∀ r, Good p r → r.status = .running → (runFrom p r os).status = .running →
      work p (runFrom p r os).tm + p.dtMin * (os.length : Rat) ≤ work p r.tm := by
  induction os with
  | nil =>
    intro r _ _ _
    show work p r.tm + p.dtMin * ((0 : Nat) : Rat) ≤ work p r.tm
    have : ((0 : Nat) : Rat) = 0 := rfl
    rw [this]; grind
  | cons o os ih =>
    intro r hg hr hfin
    obtain ⟨tm, acc, st⟩ := r
    cases hr
    have hfin' : (runFrom p (stepRun p { tm := tm, accepted := acc, status := .running } o) os).status = .running := hfin
    have hs : (stepRun p { tm := tm, accepted := acc, status := .running } o).status = .running := by
      by_cases h : (stepRun p { tm := tm, accepted := acc, status := .running } o).status = .running
      · exact h
      · rw [runFrom_not_running p _ _ h] at hfin'; exact absurd hfin' h
    have h1 := work_step F hmin hg o hs
    have h2 := ih _ (good_step F _ o hg) hs hfin'
    show work p (runFrom p (stepRun p _ o) os).tm + p.dtMin * ((os.length + 1 : Nat) : Rat) ≤ work p tm
    push_cast
    grind


/-! ### constant time step -/

theorem valid_common {p : Params} (h : Valid p) :
    2 ≤ p.schedule.length ∧ (∀ t ∈ p.schedule, 0 ≤ t) ∧ p.schedule.Pairwise (· < ·) ∧ 0 < p.dtInit := by
  simp only [Valid, validate, Bool.and_eq_true, decide_eq_true_eq, List.all_eq_true] at h
  obtain ⟨⟨⟨⟨⟨h1, h2⟩, h3⟩, h4⟩, _⟩, _⟩ := h
  exact ⟨h1, h2, sorted_of_strictlyIncreasing _ h3, h4⟩

/-- the times `t₀ + k·dt`, `k = n, …, 0` -/
def arith (t0 dt : Rat) : Nat → List Rat
  | 0 => [t0]
  | n + 1 => (t0 + ((n + 1 : Nat) : Rat) * dt) :: arith t0 dt n

theorem mem_arith (t0 dt : Rat) : ∀ n k, k ≤ n → t0 + (k : Rat) * dt ∈ arith t0 dt n
  | 0, k, h => by
    have : k = 0 := by omega
    subst this
    have : ((0 : Nat) : Rat) = 0 := rfl
    simp [arith, this]
    grind
  | n + 1, k, h => by
    rcases Nat.eq_or_lt_of_le h with e | l
    · subst e; simp [arith]
    · exact List.mem_cons_of_mem _ (mem_arith t0 dt n k (by omega))

theorem arith_length (t0 dt : Rat) : ∀ n, (arith t0 dt n).length = n + 1
  | 0 => rfl
  | n + 1 => by simp [arith, arith_length t0 dt n]

theorem arith_getElem (t0 dt : Rat) : ∀ n i (h : i < (arith t0 dt n).length),
    (arith t0 dt n)[i] = t0 + ((n - i : Nat) : Rat) * dt
  | 0, i, h => by
    have : i = 0 := by simp [arith] at h; omega
    subst this
    have : ((0 : Nat) : Rat) = 0 := rfl
    simp [arith, this]
    grind
  | n + 1, 0, _ => by simp [arith]
  | n + 1, i + 1, h => by
    have h' : i < (arith t0 dt n).length := by simp [arith] at h; omega
    have := arith_getElem t0 dt n i h'
    simp only [arith, List.getElem_cons_succ, this]
    congr 3; omega

/-- invariant of the loop in constant-dt mode on a tape of converged steps -/
structure CInv (p : Params) (r : Run) : Prop where
  acc : ∃ n : Nat, r.accepted = arith p.timeInit p.dtInit n ∧ r.tm.time = p.timeInit + (n : Rat) * p.dtInit
  dt : r.tm.dt = p.dtInit
  st : (r.status = .running ∧ finalTimeReached p r.tm = false) ∨ (r.status = .finished ∧ finalTimeReached p r.tm = true)

theorem cinv_start (p : Params) : CInv p (startRun p) := by
  refine ⟨⟨0, rfl, ?_⟩, rfl, ?_⟩
  · show p.timeInit = p.timeInit + ((0 : Nat) : Rat) * p.dtInit
    have : ((0 : Nat) : Rat) = 0 := rfl
    rw [this]; grind
  · show ((statusOf p (init p)) = .running ∧ _) ∨ ((statusOf p (init p)) = .finished ∧ _)
    unfold statusOf
    cases h : finalTimeReached p (init p) <;> simp [startRun, h]

theorem cinv_step {p : Params} (hc : p.constantDt = true) (r : Run) (it : Int) (h : CInv p r) :
    CInv p (stepRun p r (.converged it)) := by
  obtain ⟨tm, acc, st⟩ := r
  obtain ⟨⟨n, hacc, ht⟩, hdt, hst⟩ := h
  rcases hst with ⟨hs, hf⟩ | ⟨hs, hf⟩
  · cases hs
    simp only [stepRun, hc, if_true]
    refine ⟨⟨n + 1, ?_, ?_⟩, hdt, ?_⟩
    · show (tm.time + tm.dt) :: acc = arith p.timeInit p.dtInit (n + 1)
      simp only [arith]
      have hdt' : tm.dt = p.dtInit := hdt
      have ht' : tm.time = p.timeInit + (n : Rat) * p.dtInit := ht
      have hacc' : acc = arith p.timeInit p.dtInit n := hacc
      rw [hacc', ht', hdt']
      congr 1
      push_cast; grind
    · show tm.time + tm.dt = p.timeInit + ((n + 1 : Nat) : Rat) * p.dtInit
      have hdt' : tm.dt = p.dtInit := hdt
      have ht' : tm.time = p.timeInit + (n : Rat) * p.dtInit := ht
      rw [ht', hdt']; push_cast; grind
    · show (statusOf p _ = .running ∧ _) ∨ (statusOf p _ = .finished ∧ _)
      unfold statusOf
      cases h : finalTimeReached p (increaseTimeIndex (increaseTime tm)) <;> simp
  · cases hs
    exact ⟨⟨n, hacc, ht⟩, hdt, Or.inr ⟨rfl, hf⟩⟩

theorem cinv_run {p : Params} (hc : p.constantDt = true) : ∀ (os : List Outcome), AllConverged os →
    ∀ r, CInv p r → CInv p (runFrom p r os) := by
  intro os
  induction os with
  | nil => intro _ r h; exact h
  | cons o os ih =>
    intro hall r h
    obtain ⟨it, rfl⟩ := hall o List.mem_cons_self
    exact ih (fun o ho => hall o (List.mem_cons_of_mem _ ho)) _ (cinv_step hc r it h)

theorem isclose_between {r a y u v : Rat} (h1 : y ≤ u) (h2 : u ≤ v) (h : isclose r a v y = true) :
    isclose r a u y = true := by
  rw [isclose_iff] at h ⊢
  rcases h with h | h
  · left
    rw [absR_of_nonneg (by grind : (0 : Rat) ≤ v - y)] at h
    rw [absR_of_nonneg (by grind : (0 : Rat) ≤ u - y)]
    grind
  · right; grind

theorem final_mem_of_len {p : Params} (hlen : 2 ≤ p.schedule.length) : p.schedule.getLast? = some p.timeFinal := by
  unfold Params.timeFinal
  rw [List.getLastD_eq_getLast?]
  cases h : p.schedule.getLast? with
  | none =>
    rw [List.getLast?_eq_none_iff.mp h] at hlen
    simp at hlen
  | some z => rfl

theorem constant_hits {p : Params} (hv : Valid p) (hc : p.constantDt = true)
    (htol : p.rtol ≤ 1 ∨ 0 ≤ p.atol)
    (H : ∀ y ∈ p.schedule, ∃ k : Nat, isclose p.rtol p.atol (p.timeInit + (k : Rat) * p.dtInit) y = true)
    (os : List Outcome) (hall : AllConverged os) (hfin : (run p os).status = .finished) :
    ∀ y ∈ p.schedule, HitBy p (run p os).accepted y := by
  obtain ⟨hlen, hnn, hsorted, hdt⟩ := valid_common hv
  have hI := cinv_run hc os hall _ (cinv_start p)
  obtain ⟨⟨n, hacc, ht⟩, _, hst⟩ := hI
  have hacc' : (run p os).accepted = arith p.timeInit p.dtInit n := hacc
  have ht' : (run p os).tm.time = p.timeInit + (n : Rat) * p.dtInit := ht
  have hf : finalTimeReached p (run p os).tm = true := by
    rcases hst with ⟨h, _⟩ | ⟨_, h⟩
    · have : (run p os).status = .running := h
      rw [hfin] at this; cases this
    · exact h
  have ht0 : 0 ≤ p.timeInit := by
    unfold Params.timeInit
    cases hs : p.schedule with
    | nil => simp [hs] at hlen
    | cons a l => exact hnn a (by simp [hs])
  intro y hy
  obtain ⟨k, hk⟩ := H y hy
  rw [hacc']
  rcases Nat.lt_or_ge n k with hlt | hge
  · -- the loop stopped before step k: the last accepted time is at least as close to y
    refine ⟨p.timeInit + (n : Rat) * p.dtInit, mem_arith _ _ n n (Nat.le_refl n), ?_⟩
    have hnk : p.timeInit + (n : Rat) * p.dtInit ≤ p.timeInit + (k : Rat) * p.dtInit := by
      have h1 : (n : Rat) ≤ (k : Rat) := by exact_mod_cast Nat.le_of_lt hlt
      have := Rat.mul_le_mul_of_nonneg_right h1 (Rat.le_of_lt hdt)
      grind
    have hn0 : 0 ≤ p.timeInit + (n : Rat) * p.dtInit := by
      have h1 : (0 : Rat) ≤ (n : Rat) := by exact_mod_cast Nat.zero_le n
      have := Rat.mul_nonneg h1 (Rat.le_of_lt hdt)
      grind
    by_cases hyn : y ≤ p.timeInit + (n : Rat) * p.dtInit
    · exact isclose_between hyn hnk hk
    · have hyf : y ≤ p.timeFinal := sorted_le_getLast _ hsorted _ (final_mem_of_len hlen) y hy
      simp only [finalTimeReached, Bool.or_eq_true, decide_eq_true_eq] at hf
      rw [ht'] at hf
      rcases hf with h | h
      · grind
      · exact isclose_mono htol hn0 (by grind) hyf h
  · exact ⟨_, mem_arith _ _ n k hge, hk⟩



/-! ### constant time step: the constructor's match count -/

/-- pigeonhole on lists: an "injective" relation from a duplicate-free list into a list of the same
    length reaches every element -/
theorem pigeonhole {α β : Type} [DecidableEq β] (R : α → β → Prop) :
    ∀ (C : List α) (S : List β), C.Nodup → C.length = S.length →
      (∀ c ∈ C, ∃ y ∈ S, R c y) → (∀ c ∈ C, ∀ c' ∈ C, ∀ y, R c y → R c' y → c = c') →
      ∀ y ∈ S, ∃ c ∈ C, R c y
  | [], S, _, hlen, _, _ => by
    intro y hy
    have : S = [] := List.eq_nil_of_length_eq_zero hlen.symm
    rw [this] at hy; cases hy
  | c :: C, S, hnd, hlen, hex, hinj => by
    obtain ⟨y0, hy0, hR0⟩ := hex c List.mem_cons_self
    have hnd' := (List.nodup_cons.mp hnd)
    have ih := pigeonhole R C (S.erase y0) hnd'.2
      (by rw [List.length_erase_of_mem hy0]; simp at hlen; omega)
      (by
        intro c' hc'
        obtain ⟨y1, hy1, hR1⟩ := hex c' (List.mem_cons_of_mem _ hc')
        have hne : y1 ≠ y0 := by
          intro e; subst e
          have := hinj c' (List.mem_cons_of_mem _ hc') c List.mem_cons_self _ hR1 hR0
          subst this; exact hnd'.1 hc'
        exact ⟨y1, (List.mem_erase_of_ne hne).mpr hy1, hR1⟩)
      (fun a ha b hb y h1 h2 => hinj a (List.mem_cons_of_mem _ ha) b (List.mem_cons_of_mem _ hb) y h1 h2)
    intro y hy
    by_cases e : y = y0
    · subst e; exact ⟨c, List.mem_cons_self, hR0⟩
    · obtain ⟨c', hc', hR'⟩ := ih y ((List.mem_erase_of_ne e).mpr hy)
      exact ⟨c', List.mem_cons_of_mem _ hc', hR'⟩

theorem close_lt_half {r a x y d : Rat} (h : isclose r a x y = true) (hs : 2 * (a + r * absR y) < d)
    (hd : 0 < d) : absR (x - y) < d / 2 := by
  rw [isclose_iff] at h
  rcases h with h | h
  · grind
  · subst h
    have : absR (x - x) = 0 := by rw [show x - x = 0 by grind]; rfl
    grind

/-- the predicate counted by `is_schedule_in_simulated_times` -/
def closeTo (rtol atol : Rat) (schedule : List Rat) (v : Rat) : Bool :=
  let ss := (((schedule.drop 1).dropLast).filter (fun x => decide (x < v))).length
  isclose rtol atol (schedule.getD ss 0) v || isclose rtol atol (schedule.getD (ss + 1) 0) v

theorem scheduleInSimTimes_eq (r a : Rat) (S V : List Rat) :
    scheduleInSimTimes r a S V = (S.length == (V.filter (closeTo r a S)).length) := rfl

theorem getD_of_lt {l : List Rat} {i : Nat} (h : i < l.length) : l.getD i 0 = l[i] := by
  simp [List.getD_eq_getElem?_getD, h]

theorem closeTo_spec {r a : Rat} {S : List Rat} (hlen : 2 ≤ S.length) {v : Rat} (h : closeTo r a S v = true) :
    ∃ y ∈ S, isclose r a y v = true := by
  unfold closeTo at h
  simp only [Bool.or_eq_true] at h
  have hss : (((S.drop 1).dropLast).filter (fun x => decide (x < v))).length + 1 < S.length := by
    have h1 := List.length_filter_le (fun x => decide (x < v)) ((S.drop 1).dropLast)
    have h2 : ((S.drop 1).dropLast).length = S.length - 1 - 1 := by simp
    omega
  rcases h with h | h
  · rw [getD_of_lt (by omega)] at h
    exact ⟨_, List.getElem_mem _, h⟩
  · rw [getD_of_lt hss] at h
    exact ⟨_, List.getElem_mem _, h⟩

theorem natCast_sub_ge_one {i j : Nat} (h : i < j) : (1 : Rat) ≤ (j : Rat) - (i : Rat) := by
  have h1 : ((i + 1 : Nat) : Rat) ≤ (j : Rat) := by exact_mod_cast h
  push_cast at h1; grind

/-- two simulated times closer than a step are the same -/
theorem sim_index_eq {s0 d : Rat} (hd : 0 < d) {i j : Nat}
    (h : absR ((s0 + (i : Rat) * d) - (s0 + (j : Rat) * d)) < d) : i = j := by
  rcases Nat.lt_trichotomy i j with hlt | heq | hgt
  · exfalso
    have h1 := natCast_sub_ge_one hlt
    have h2 := Rat.mul_le_mul_of_nonneg_right h1 (Rat.le_of_lt hd)
    rw [absR_of_nonpos (by grind)] at h
    grind
  · exact heq
  · exfalso
    have h1 := natCast_sub_ge_one hgt
    have h2 := Rat.mul_le_mul_of_nonneg_right h1 (Rat.le_of_lt hd)
    rw [absR_of_nonneg (by grind)] at h
    grind

theorem absR_sub_lt {x y z d : Rat} (h1 : absR (x - y) < d / 2) (h2 : absR (x - z) < d / 2) :
    absR (y - z) < d := by
  unfold absR at *
  split at h1 <;> split at h2 <;> split <;> grind

/-- Under `SmallTol`, the constructor's count test implies that every scheduled time is close to one of
    the simulated times `t₀ + i·dt`, `i < ⌈(final + dt − t₀)/dt⌉`. -/
theorem valid_constant_matches {p : Params} (hv : Valid p) (hc : p.constantDt = true) (hs : SmallTol p) :
    ∀ y ∈ p.schedule, ∃ i : Nat, (p.timeInit + (i : Rat) * p.dtInit) ∈ arange p.timeInit (p.timeFinal + p.dtInit) p.dtInit ∧
      isclose p.rtol p.atol y (p.timeInit + (i : Rat) * p.dtInit) = true := by
  obtain ⟨hlen, _, _, hdt⟩ := valid_common hv
  have hcount : scheduleInSimTimes p.rtol p.atol p.schedule (arange p.timeInit (p.timeFinal + p.dtInit) p.dtInit) = true := by
    simp only [Valid, validate, hc, if_true, Bool.and_eq_true] at hv
    exact hv.2
  rw [scheduleInSimTimes_eq] at hcount
  have hcount : p.schedule.length =
      ((arange p.timeInit (p.timeFinal + p.dtInit) p.dtInit).filter (closeTo p.rtol p.atol p.schedule)).length := by
    simpa using hcount
  -- work with the indices of the simulated times
  generalize hn : ((p.timeFinal + p.dtInit - p.timeInit) / p.dtInit).ceil.toNat = n at *
  have hV : arange p.timeInit (p.timeFinal + p.dtInit) p.dtInit
      = (List.range n).map (fun (i : Nat) => p.timeInit + (i : Rat) * p.dtInit) := by
    unfold arange; rw [hn]
  let g := fun (i : Nat) => p.timeInit + (i : Rat) * p.dtInit
  let C := (List.range n).filter (fun i => closeTo p.rtol p.atol p.schedule (g i))
  have hClen : C.length = p.schedule.length := by
    rw [hcount, hV, List.filter_map, List.length_map]; rfl
  have hmemV : ∀ i ∈ C, g i ∈ arange p.timeInit (p.timeFinal + p.dtInit) p.dtInit := by
    intro i hi
    rw [hV]
    exact List.mem_map.mpr ⟨i, (List.mem_filter.mp hi).1, rfl⟩
  have hres := pigeonhole (fun (i : Nat) (y : Rat) => isclose p.rtol p.atol y (g i) = true) C p.schedule
    (List.Nodup.sublist List.filter_sublist List.nodup_range) hClen
    (by
      intro i hi
      exact closeTo_spec hlen (List.mem_filter.mp hi).2)
    (by
      intro i hi j hj y h1 h2
      have hi' := close_lt_half h1 (hs.1 _ (hmemV i hi)) hdt
      have hj' := close_lt_half h2 (hs.1 _ (hmemV j hj)) hdt
      exact sim_index_eq hdt (absR_sub_lt hi' hj'))
  intro y hy
  obtain ⟨i, hi, hR⟩ := hres y hy
  exact ⟨i, hmemV i hi, hR⟩

/-- Constant-dt mode, full statement: parameters the constructor accepts with a tolerance that is small
    against the step; when the loop has ended every scheduled time is matched by an accepted time. -/
theorem constant_hits_full {p : Params} (hv : Valid p) (hc : p.constantDt = true) (hs : SmallTol p)
    (os : List Outcome) (hall : AllConverged os) (hfin : (run p os).status = .finished) :
    ∀ y ∈ p.schedule, HitByC p (run p os).accepted y := by
  obtain ⟨hlen, hnn, hsorted, hdt⟩ := valid_common hv
  obtain ⟨⟨n, hacc, ht⟩, _, hst⟩ := cinv_run hc os hall _ (cinv_start p)
  have hacc' : (run p os).accepted = arith p.timeInit p.dtInit n := hacc
  have ht' : (run p os).tm.time = p.timeInit + (n : Rat) * p.dtInit := ht
  have hf : finalTimeReached p (run p os).tm = true := by
    rcases hst with ⟨h, _⟩ | ⟨_, h⟩
    · have : (run p os).status = .running := h
      rw [hfin] at this; cases this
    · exact h
  intro y hy
  obtain ⟨i, hiV, hR⟩ := valid_constant_matches hv hc hs y hy
  have hyf : y ≤ p.timeFinal := sorted_le_getLast _ hsorted _ (final_mem_of_len hlen) y hy
  have hhalf := close_lt_half hR (hs.1 _ hiV) hdt
  rcases Nat.lt_or_ge n i with hlt | hge
  · -- impossible: the loop cannot stop a whole step before a matched simulated time
    exfalso
    have h1 := natCast_sub_ge_one hlt
    have h2 := Rat.mul_le_mul_of_nonneg_right h1 (Rat.le_of_lt hdt)
    simp only [finalTimeReached, Bool.or_eq_true, decide_eq_true_eq] at hf
    rw [ht'] at hf
    unfold absR at hhalf
    rcases hf with h | h
    · split at hhalf <;> grind
    · have h3 := close_lt_half h hs.2 hdt
      unfold absR at h3
      split at hhalf <;> split at h3 <;> grind
  · rw [hacc']
    exact ⟨_, mem_arith _ _ n i hge, hR⟩

/-- in constant-dt mode, while the loop runs on converged steps, the clock is `t + k·dt` after `k` steps -/
theorem constant_time_after {p : Params} (hc : p.constantDt = true) : ∀ (os : List Outcome), AllConverged os →
    ∀ r : Run, r.status = .running → (runFrom p r os).status = .running →
      (runFrom p r os).tm.time = r.tm.time + (os.length : Rat) * r.tm.dt ∧ (runFrom p r os).tm.dt = r.tm.dt := by
  intro os
  induction os with
  | nil =>
    intro _ r _ _
    have : ((0 : Nat) : Rat) = 0 := rfl
    refine ⟨?_, rfl⟩
    show r.tm.time = r.tm.time + ((0 : Nat) : Rat) * r.tm.dt
    rw [this]; grind
  | cons o os ih =>
    intro hall r hr hfin
    obtain ⟨it, rfl⟩ := hall o List.mem_cons_self
    obtain ⟨tm, acc, st⟩ := r
    cases hr
    have hfin' : (runFrom p (stepRun p { tm := tm, accepted := acc, status := .running } (.converged it)) os).status = .running := hfin
    have hstep : stepRun p { tm := tm, accepted := acc, status := .running } (.converged it)
        = { tm := increaseTimeIndex (increaseTime tm), accepted := (increaseTimeIndex (increaseTime tm)).time :: acc,
            status := statusOf p (increaseTimeIndex (increaseTime tm)) } := by
      simp [stepRun, hc]
    have hs : (stepRun p { tm := tm, accepted := acc, status := .running } (.converged it)).status = .running := by
      by_cases h : (stepRun p { tm := tm, accepted := acc, status := .running } (.converged it)).status = .running
      · exact h
      · rw [runFrom_not_running p _ _ h] at hfin'; exact absurd hfin' h
    obtain ⟨h1, h2⟩ := ih (fun o ho => hall o (List.mem_cons_of_mem _ ho)) _ hs hfin'
    rw [hstep] at h1 h2
    constructor
    · show (runFrom p (stepRun p _ (.converged it)) os).tm.time = tm.time + ((os.length + 1 : Nat) : Rat) * tm.dt
      rw [hstep, h1]
      show tm.time + tm.dt + (os.length : Rat) * tm.dt = _
      push_cast; grind
    · show (runFrom p (stepRun p _ (.converged it)) os).tm.dt = tm.dt
      rw [hstep, h2]; rfl

/-- a tape of converged steps that is long enough to pass the final time ends the constant-dt loop -/
theorem constant_finishes {p : Params} (hc : p.constantDt = true) (os : List Outcome)
    (hall : AllConverged os) (hlen : p.timeFinal ≤ p.timeInit + (os.length : Rat) * p.dtInit) :
    (run p os).status = .finished := by
  obtain ⟨⟨n, _, _⟩, _, hst⟩ := cinv_run hc os hall _ (cinv_start p)
  rcases hst with ⟨hr, hnf⟩ | ⟨hf, _⟩
  · exfalso
    have hr' : (run p os).status = .running := hr
    have h0 : (startRun p).status = .running := by
      by_cases h0 : (startRun p).status = .running
      · exact h0
      · have : run p os = startRun p := runFrom_not_running p os _ h0
        rw [this] at hr'; exact absurd hr' h0
    obtain ⟨ht, _⟩ := constant_time_after hc os hall _ h0 hr'
    have ht' : (run p os).tm.time = p.timeInit + (os.length : Rat) * p.dtInit := ht
    have hnf' : finalTimeReached p (run p os).tm = false := hnf
    obtain ⟨h1, h2⟩ := not_final_iff.mp hnf'
    rw [ht'] at h1 h2
    have : p.timeInit + (os.length : Rat) * p.dtInit = p.timeFinal := by grind
    rw [this, isclose_self] at h2
    cases h2
  · exact hf



/-! ### restart -/

def reached (r a t x : Rat) : Prop := ¬ (t < x ∧ isclose r a t x = false)

theorem nextIdxFrom_spec (r a t : Rat) : ∀ (l : List Rat) (k : Nat),
    k ≤ nextIdxFrom r a t l k ∧ nextIdxFrom r a t l k ≤ k + l.length ∧
    (∀ i, i < nextIdxFrom r a t l k - k → ∃ x, l[i]? = some x ∧ reached r a t x) ∧
    (∀ x, l[nextIdxFrom r a t l k - k]? = some x → t < x ∧ isclose r a t x = false)
  | [], k => by simp [nextIdxFrom]
  | x :: rest, k => by
    unfold nextIdxFrom
    by_cases h : (t < x && !isclose r a t x) = true
    · rw [if_pos h]
      simp only [Bool.and_eq_true, decide_eq_true_eq, Bool.not_eq_true'] at h
      refine ⟨Nat.le_refl _, by simp, by simp, ?_⟩
      intro y hy; simp at hy; subst hy; exact h
    · rw [if_neg h]
      obtain ⟨h1, h2, h3, h4⟩ := nextIdxFrom_spec r a t rest (k + 1)
      refine ⟨by omega, by simp; omega, ?_, ?_⟩
      · intro i hi
        cases i with
        | zero =>
          refine ⟨x, rfl, ?_⟩
          intro hc; apply h; simp [hc.1, hc.2]
        | succ i =>
          obtain ⟨y, hy, hr⟩ := h3 i (by omega)
          exact ⟨y, by simpa using hy, hr⟩
      · intro y hy
        have e : nextIdxFrom r a t rest (k + 1) - k = (nextIdxFrom r a t rest (k + 1) - (k + 1)) + 1 := by omega
        rw [e] at hy
        exact h4 y (by simpa using hy)

theorem isclose_above {r a u v y : Rat} (h1 : u ≤ v) (h2 : v ≤ y) (h : isclose r a u y = true) :
    isclose r a v y = true := by
  rw [isclose_iff] at h ⊢
  rcases h with h | h
  · left
    rw [absR_of_nonpos (by grind : u - y ≤ 0)] at h
    rw [absR_of_nonpos (by grind : v - y ≤ 0)]
    grind
  · right; grind

/-- Restoring the clock and the step of an invariant state (as exported by `write_time_information`)
    into a manager gives an invariant state again, provided the clock is not already within tolerance
    of the pending scheduled time (then the repaired cursor search lands exactly on `pending`). -/
theorem restore_inv {p : Params} (F : Facts p) {s s0 : TM} {acc : List Rat} (hm : acc.Pairwise (· > ·))
    (I : Inv p s acc) (hti : s0.timeIndex = s.timeIndex)
    (hnc : ∀ x, p.schedule[pending s]? = some x → isclose p.rtol p.atol s.time x = false) :
    Inv p (restore p s0 s.time s.dt) acc ∧ pending (restore p s0 s.time s.dt) = pending s := by
  obtain ⟨x, hx, hle, _⟩ := I.next
  have hdt := I.dt_pos
  have hmax := head_is_max hm I.head
  have hpp := I.pend_pos
  have hpl := I.pending_lt
  obtain ⟨h1, h2, h3, h4⟩ := nextIdxFrom_spec p.rtol p.atol s.time (p.schedule.drop 1) 1
  generalize hk : nextIdxFrom p.rtol p.atol s.time (p.schedule.drop 1) 1 = k at h1 h2 h3 h4
  have hlen1 : (p.schedule.drop 1).length = p.schedule.length - 1 := by simp
  have hget : ∀ i, (p.schedule.drop 1)[i]? = p.schedule[i + 1]? := by
    intro i; rw [List.getElem?_drop]; congr 1; omega
  have hreach : ∀ j, j < pending s → ∀ y, p.schedule[j]? = some y → reached p.rtol p.atol s.time y := by
    intro j hj y hy
    obtain ⟨y', hy', a, ha, hc⟩ := I.hit j hj
    rw [hy] at hy'; cases hy'
    intro ⟨hlt, hncl⟩
    have := isclose_above (hmax a ha) (by grind) hc
    rw [this] at hncl; cases hncl
  have hpk : pending s ≤ k := by
    rcases Nat.lt_or_ge k (pending s) with hlt | hge
    · exfalso
      have hkl : k - 1 < (p.schedule.drop 1).length := by omega
      have hy : (p.schedule.drop 1)[k - 1]? = some (p.schedule.drop 1)[k - 1] := List.getElem?_eq_getElem hkl
      have hnr := h4 _ hy
      rw [hget, show k - 1 + 1 = k by omega] at hy
      exact hreach k hlt _ hy hnr
    · exact hge
  have hkp : k ≤ pending s := by
    rcases Nat.lt_or_ge (pending s) k with hlt | hge
    · exfalso
      obtain ⟨y, hy, hr⟩ := h3 (pending s - 1) (by omega)
      rw [hget, show pending s - 1 + 1 = pending s by omega, hx] at hy
      cases hy
      exact hr ⟨by grind, hnc x hx⟩
    · exact hge
  have hkeq : k = pending s := by omega
  have hpend : pending (restore p s0 s.time s.dt) = pending s := by
    show (if false = true then _ else nextIdxFrom p.rtol p.atol s.time (p.schedule.drop 1) 1) = pending s
    rw [hk, hkeq]; simp
  refine ⟨⟨I.head, hdt, by simp [restore], ⟨x, by rw [hpend]; exact hx, hle, by simp [restore]⟩, ?_, ?_, I.dt_max, ?_, ?_,
    I.time_nonneg, ?_, by rw [hpend]; exact hpp⟩, hpend⟩
  · intro j hj; rw [hpend] at hj; exact I.hit j hj
  · rw [← I.not_final]; exact final_congr p rfl
  · rcases I.dt_min with h | ⟨x', hx', he⟩
    · exact Or.inl h
    · right; exact ⟨x', by rw [hpend]; exact hx', he⟩
  · show ((0 : Nat) : Int) ≤ p.recompMax; have := F.rmax; omega
  · show s0.timeIndex + 1 = acc.length; rw [hti]; exact I.ti

/-- a run restarted from the exported clock and step of a running state is again in a good state -/
theorem good_restarted {p : Params} (F : Facts p) {r : Run} (hg : Good p r) (hr : r.status = .running)
    (hnc : ∀ x, p.schedule[pending r.tm]? = some x → isclose p.rtol p.atol r.tm.time x = false) :
    Good p (restarted p r) := by
  obtain ⟨tm, acc, st⟩ := r
  cases hr
  obtain ⟨hm, hb, hI⟩ := hg
  have hI : Inv p tm acc := hI
  have hnf : finalTimeReached p tm = false := hI.not_final
  refine ⟨hm, hb, ?_⟩
  show match (statusOf p tm) with
    | .running => Inv p (restarted p ⟨tm, acc, .running⟩).tm acc
    | .finished => _
    | .raised e => _
    | .crashed _ => False
  simp only [statusOf, hnf, Bool.false_eq_true, if_false]
  exact (restore_inv F hm hI rfl hnc).1


end PorepyVerif.C09
