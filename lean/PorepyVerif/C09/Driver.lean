/- C09 line-protocol driver: `lake env lean --run PorepyVerif/C09/Driver.lean`

ops (one JSON object per line):
  {"op":"init", "schedule":[..], "dt_init":q, "constant_dt":b, "dt_min_max":null|[q,q], "iter_max":i,
   "iter_low":i, "iter_upp":i, "under":q, "over":q, "recomp_factor":q, "recomp_max":i, "rtol":q, "atol":q}
        -> {"err":"ValueError"} | {"dt_min":q,"dt_max":q, <state>, "m":margin}
  {"op":"inc_time"} / {"op":"inc_index"}   increase_time() / increase_time_index()   -> <state>
  {"op":"compute","iterations":i|null,"recompute":b}   -> {"ret":q|null, <state>, "m":..} | {"err":kind, <state>, "m":..}
  {"op":"final"}                         -> {"final":b, "m":..}
  {"op":"restore","time":q,"dt":q}       set_time_and_dt_from_exported_steps (REPAIRED: cursor synchronised) -> <state>
  {"op":"loop","outcomes":[i,...]}       the time loop on an outcome tape (i >= 0: converged with i iterations,
                                         i < 0: failed) -> {"status":..., "accepted":[q..], <state>}
<state> = "time","dt","ti","recomp","idx","about".
"m" is the smallest *relative* margin of the real-number comparisons evaluated by the op (null if none):
the harness uses it only to recognise knife-edge cases in which binary64 rounding may legitimately
take another branch than exact arithmetic.  It is not part of the verified model.
-/
import PorepyVerif.Common.Wire
import PorepyVerif.C09.Model
open Lean PV PorepyVerif.C09

/-- parameters, state, and (bookkeeping for the margins only) whether `dt` is known to be a copy of `dt_min` -/
abbrev St := Option (Params × TM × Bool)

def stateFields (s : TM) : List (String × Json) :=
  [("time", ofRat s.time), ("dt", ofRat s.dt), ("ti", ofInt s.timeIndex), ("recomp", ofNat s.recompNum),
   ("idx", ofNat s.idx), ("about", Json.bool s.aboutToHit)]

def errName : Err → String
  | .indexError => "IndexError"
  | _ => "ValueError"

/-! margins (harness bookkeeping, mirrors the control flow of the model) -/

def relTo (x a b : Rat) : Rat :=
  let sc := if absR a < absR b then absR b else absR a
  if sc = 0 then x else x / sc

def mCmp (a b : Rat) : Rat := relTo (absR (a - b)) a b
def mClose (rtol atol a b : Rat) : Rat := relTo (absR (absR (a - b) - (atol + rtol * absR b))) a b

def corrMargins (rtol atol t dt : Rat) : List Rat → List Rat
  | [] => []
  | st :: rest =>
    mCmp (t + dt) st ::
      (if t + dt > st then
         mClose rtol atol t st :: (if isclose rtol atol t st then corrMargins rtol atol t dt rest else [])
       else [])

def correctMargins (p : Params) (s : TM) : List Rat :=
  corrMargins p.rtol p.atol s.time (clampMax p (clampMin p s.dt)) (p.schedule.drop s.idx)

def finalMargins (p : Params) (s : TM) : List Rat :=
  if s.time > p.timeFinal then [] else [mClose p.rtol p.atol s.time p.timeFinal]

def computeMargins (p : Params) (s : TM) (dtIsMin : Bool) (iters : Option Int) (recompute : Bool) : List Rat :=
  let mf := if recompute then [] else finalMargins p s
  if (!recompute && finalTimeReached p s) || p.constantDt then mf
  else if !recompute then
    match iters with
    | none => mf
    | some it => mf ++ correctMargins p (adaptIter p s it)
  else if (s.recompNum : Int) < p.recompMax then
    if s.dt = p.dtMin then (if dtIsMin then [] else [0])  -- equal by coincidence of arithmetic: knife edge
    else mCmp s.dt p.dtMin :: correctMargins p
      { s with time := s.time - s.dt, dt := s.dt * p.recompFactor,
               idx := if s.aboutToHit then s.idx - 1 else s.idx }
  else []

def initMargins (p : Params) (dflt : Bool) : List Rat :=
  if p.constantDt then
    let interior := (p.schedule.drop 1).dropLast
    -- number of simulated times = ceil(q): distance of q to the nearest integer
    let q := (p.timeFinal + p.dtInit - p.timeInit) / p.dtInit
    let dq := if q - (q.floor : Rat) < (q.ceil : Rat) - q then q - (q.floor : Rat) else (q.ceil : Rat) - q
    relTo dq q q :: (arange p.timeInit (p.timeFinal + p.dtInit) p.dtInit).flatMap (fun v =>
      let ss := (interior.filter (fun x => decide (x < v))).length
      [mClose p.rtol p.atol (p.schedule.getD ss 0) v, mClose p.rtol p.atol (p.schedule.getD (ss + 1) 0) v])
  else
    [mCmp (p.dtMin * p.overRelax) p.dtMax, mCmp (p.dtMax * p.underRelax) p.dtMin]
      ++ (if dflt then [mCmp p.dtInit p.dtMax, mCmp p.dtInit p.dtMin] else [])

/-- `a < b` by more than binary64 rounding could blur -/
def clearlyLess (a b : Rat) : Bool := decide (b - a > (absR a + absR b) / 1000000000000)

/-- after a `compute` call: is the new `dt` a copy of `dt_min` (assigned by the dt_min / dt_max clamps or kept)? -/
def dtIsMinAfter (p : Params) (s s' : TM) (old : Bool) (iters : Option Int) (recompute : Bool) : Bool :=
  if s'.dt = s.dt && s'.time = s.time && s'.recompNum = s.recompNum && s'.idx = s.idx then old else
  let adapted := if recompute then s.dt * p.recompFactor else
    match iters with
    | some it => (adaptIter p s it).dt
    | none => s.dt
  let clamped := clampMax p (clampMin p adapted)
  s'.dt = clamped && clamped = p.dtMin &&
    (clearlyLess adapted p.dtMin || clearlyLess p.dtMax adapted || (adapted = s.dt && old))

def minMargin : List Rat → Json
  | [] => Json.null
  | x :: l => ofRat (l.foldl (fun a b => if b < a then b else a) x)

def statusName : Status → String
  | .running => "running"
  | .finished => "finished"
  | .raised e => "raised:" ++ errName e
  | .crashed e => "crashed:" ++ errName e

def step (st : St) (j : Json) : R (St × Json) := do
  let op ← fStr j "op"
  match op with
  | "init" =>
    let schedule ← fRats j "schedule"
    let dtInit ← fRat j "dt_init"
    let mm ← field j "dt_min_max" >>= jOpt (jList jRat)
    let (dtMin, dtMax) ← match mm with
      | none => pure (defaultMinMax schedule dtInit)
      | some [a, b] => pure (a, b)
      | _ => throw "dt_min_max must be null or a pair"
    let p : Params := {
      schedule := schedule, dtInit := dtInit, constantDt := (← fBool j "constant_dt"),
      dtMin := dtMin, dtMax := dtMax, iterMax := (← fInt j "iter_max"),
      iterLow := (← fInt j "iter_low"), iterUpp := (← fInt j "iter_upp"),
      underRelax := (← fRat j "under"), overRelax := (← fRat j "over"),
      recompFactor := (← fRat j "recomp_factor"), recompMax := (← fInt j "recomp_max"),
      rtol := (← fRat j "rtol"), atol := (← fRat j "atol") }
    let m := minMargin (initMargins p mm.isNone)
    if validate p then
      pure (some (p, init p, decide (p.dtInit = p.dtMin)), obj ([("dt_min", ofRat dtMin), ("dt_max", ofRat dtMax),
        ("admissible", Json.bool (decide (Admissible p))), ("small_tol", Json.bool (decide (SmallTol p)))] ++ stateFields (init p) ++ [("m", m)]))
    else pure (none, obj [("err", Json.str "ValueError"), ("m", m)])
  | "inc_time" =>
    match st with
    | none => throw "no time manager"
    | some (p, s, f) => pure (some (p, increaseTime s, f), obj (stateFields (increaseTime s)))
  | "inc_index" =>
    match st with
    | none => throw "no time manager"
    | some (p, s, f) => pure (some (p, increaseTimeIndex s, f), obj (stateFields (increaseTimeIndex s)))
  | "restore" =>
    match st with
    | none => throw "no time manager"
    | some (p, s, _) =>
      let t ← fRat j "time"
      let dt ← fRat j "dt"
      let s' := restore p s t dt
      pure (some (p, s', decide (dt = p.dtMin)), obj (stateFields s'))
  | "final" =>
    match st with
    | none => throw "no time manager"
    | some (p, s, _) => pure (st, obj [("final", Json.bool (finalTimeReached p s)), ("m", minMargin (finalMargins p s))])
  | "compute" =>
    match st with
    | none => throw "no time manager"
    | some (p, s, f) =>
      let iters ← field j "iterations" >>= jOpt jInt
      let rc ← fBool j "recompute"
      let m := minMargin (computeMargins p s f iters rc)
      let (s', r) := computeTimeStep p s iters rc
      let head := match r with
        | .ok ret => [("ret", ofOpt ofRat ret)]
        | .err e => [("err", Json.str (errName e))]
      pure (some (p, s', dtIsMinAfter p s s' f iters rc), obj (head ++ stateFields s' ++ [("m", m)]))
  | "loop" =>
    match st with
    | none => throw "no time manager"
    | some (p, s, _) =>
      let outs ← fInts j "outcomes"
      let os := outs.map (fun i => if i < 0 then Outcome.failed else Outcome.converged i)
      let r := runFrom p { tm := s, accepted := [s.time], status := statusOf p s } os
      pure (some (p, r.tm, false), obj ([("status", Json.str (statusName r.status)),
        ("accepted", ofRats r.accepted.reverse)] ++ stateFields r.tm))
  | _ => throw s!"unknown op {op}"

def main : IO Unit := runDriver (none : St) step
