/-
C09 — executable model of `porepy.numerics.time_step_control.TimeManager` and of the time loop
that drives it (`run_models.run_time_dependent_model` + `SolutionStrategy.after_nonlinear_convergence`
/ `after_nonlinear_failure`).  Core Lean only; numbers are rationals (every binary64 is one).

Correspondence of names (python → model):
  schedule, dt_init, constant_dt, dt_min_max, iter_max, iter_optimal_range, iter_relax_factors,
  recomp_factor, recomp_max, rtol, atol                           → `Params`
  time, dt, time_index, _recomp_num, _scheduled_idx, _is_about_to_hit_schedule → `TM`
  __init__ validations                                             → `validate` / `Valid`
  final_time_reached, increase_time(+_index), compute_time_step    → same names in camelCase
  _adaptation_based_on_iterations / _recomputation                 → `adaptIter` / branch in `computeTimeStep`
  _correction_based_on_dt_min/_dt_max/_schedule                    → `clampMin` / `clampMax` / `corrSched` (in `correct`)
-/
namespace PorepyVerif.C09

/-! ### numbers -/

def absR (x : Rat) : Rat := if x < 0 then -x else x

/-- `np.isclose(a, b, rtol, atol)` for finite numbers: `|a - b| ≤ atol + rtol * |b|  or  a == b`
    (numpy or-s the comparison with `x == y`; this only matters for negative tolerances). -/
def isclose (rtol atol a b : Rat) : Bool := decide (absR (a - b) ≤ atol + rtol * absR b) || decide (a = b)

/-! ### parameters and constructor validation -/

structure Params where
  schedule : List Rat
  dtInit : Rat
  constantDt : Bool
  dtMin : Rat
  dtMax : Rat
  iterMax : Int
  iterLow : Int
  iterUpp : Int
  underRelax : Rat
  overRelax : Rat
  recompFactor : Rat
  recompMax : Int
  rtol : Rat
  atol : Rat

def Params.timeInit (p : Params) : Rat := p.schedule.headD 0
def Params.timeFinal (p : Params) : Rat := p.schedule.getLastD 0

/-- `dt_min_max=None`: `(min(dt_init, 0.001*final), 0.1*final)` (the decimal constants are
    taken as the exact rationals 1/1000 and 1/10; the code uses their binary64 neighbours). -/
def defaultMinMax (schedule : List Rat) (dtInit : Rat) : Rat × Rat :=
  let fin := schedule.getLastD 0
  let m := fin / 1000
  (if dtInit < m then dtInit else m, fin / 10)

/-- `TimeManager._is_strictly_increasing` -/
def strictlyIncreasing : List Rat → Bool
  | [] => true
  | [_] => true
  | a :: b :: l => decide (a < b) && strictlyIncreasing (b :: l)

/-- `np.arange(start, stop, step)` for a positive step: `ceil((stop-start)/step)` values. -/
def arange (start stop step : Rat) : List Rat :=
  (List.range ((stop - start) / step).ceil.toNat).map (fun (i : Nat) => start + (i : Rat) * step)

/-- `TimeManager.is_schedule_in_simulated_times` -/
def scheduleInSimTimes (rtol atol : Rat) (schedule simTimes : List Rat) : Bool :=
  let interior := (schedule.drop 1).dropLast
  let close := fun (v : Rat) =>
    let ss := (interior.filter (fun x => decide (x < v))).length   -- searchsorted(..., side="left")
    isclose rtol atol (schedule.getD ss 0) v || isclose rtol atol (schedule.getD (ss + 1) 0) v
  schedule.length == (simTimes.filter close).length

/-- All sanity checks of `TimeManager.__init__` (each failing one raises `ValueError`). -/
def validate (p : Params) : Bool :=
  decide (2 ≤ p.schedule.length)
  && p.schedule.all (fun t => decide (0 ≤ t))
  && strictlyIncreasing p.schedule
  && decide (0 < p.dtInit)
  && decide (p.dtInit ≤ p.timeFinal)
  && (if p.constantDt then
        scheduleInSimTimes p.rtol p.atol p.schedule (arange p.timeInit (p.timeFinal + p.dtInit) p.dtInit)
      else
        decide (p.dtMin ≤ p.dtInit)
        && decide (p.dtInit ≤ p.dtMax)
        && decide (0 < p.iterMax)
        && decide (p.iterLow ≤ p.iterUpp)
        && decide (p.iterUpp ≤ p.iterMax)
        && decide (0 ≤ p.iterLow)
        && decide (p.underRelax < 1)
        && decide (1 < p.overRelax)
        && decide (p.dtMin * p.overRelax ≤ p.dtMax)
        && decide (p.dtMin ≤ p.dtMax * p.underRelax)
        && decide (p.recompFactor < 1)
        && decide (0 < p.recompMax))

def Valid (p : Params) : Prop := validate p = true

instance (p : Params) : Decidable (Valid p) := by unfold Valid; infer_instance

/-! ### state -/

structure TM where
  time : Rat
  dt : Rat
  timeIndex : Int
  recompNum : Nat
  idx : Nat            -- `_scheduled_idx`
  aboutToHit : Bool    -- `_is_about_to_hit_schedule`

def init (p : Params) : TM :=
  { time := p.timeInit, dt := p.dtInit, timeIndex := 0, recompNum := 0, idx := 1, aboutToHit := false }

inductive Err where
  | iterationsNone    -- ValueError: "Time step cannot be adapted without 'iterations'."
  | dtMinReached      -- ValueError: "Recomputation will not have any effect ..."
  | recompExhausted   -- ValueError: "Solution did not converge after ... recomputing attempts."
  | indexError        -- IndexError: schedule[_scheduled_idx] past the end
  | constantDtFailed  -- ValueError: "Nonlinear iterations did not converge." (constant dt, after_nonlinear_failure)
  deriving DecidableEq, Repr

/-- result of a `compute_time_step` call: returned value (`None` / dt) or the raised error -/
inductive Res where
  | ok (ret : Option Rat)
  | err (e : Err)
  deriving DecidableEq, Repr

def finalTimeReached (p : Params) (s : TM) : Bool :=
  decide (s.time > p.timeFinal) || isclose p.rtol p.atol s.time p.timeFinal

def increaseTime (s : TM) : TM := { s with time := s.time + s.dt }
def increaseTimeIndex (s : TM) : TM := { s with timeIndex := s.timeIndex + 1 }

/-- `_adaptation_based_on_iterations` (iterations given) -/
def adaptIter (p : Params) (s : TM) (it : Int) : TM :=
  let s := { s with recompNum := 0 }
  if it ≤ p.iterLow then { s with dt := s.dt * p.overRelax }
  else if it ≥ p.iterUpp then { s with dt := s.dt * p.underRelax }
  else s

def clampMin (p : Params) (dt : Rat) : Rat := if dt < p.dtMin then p.dtMin else dt
def clampMax (p : Params) (dt : Rat) : Rat := if dt > p.dtMax then p.dtMax else dt

/-- `_correction_based_on_schedule`, run on the not yet consumed part of the schedule
    (`schedule[_scheduled_idx:]`).  Result: (number of increments of `_scheduled_idx`,
    final value of `_is_about_to_hit_schedule`, corrected dt); `none` is the `IndexError`
    of `self.schedule[self._scheduled_idx]` at entry.  The recursive call of the code
    (taken when `isclose(time, schedule_time)` and `_scheduled_idx < len(schedule)`) is the
    recursive call here; when the index has run off the end the code returns with the flag
    set and dt unchanged. -/
def corrSched (rtol atol t : Rat) (dt : Rat) : List Rat → Option (Nat × Bool × Rat)
  | [] => none
  | st :: rest =>
    if t + dt > st then
      if isclose rtol atol t st then
        match corrSched rtol atol t dt rest with
        | none => some (1, true, dt)
        | some (n, a, d) => some (n + 1, a, d)
      else some (1, true, st - t)
    else some (0, false, dt)

/-- the three corrections, in the code's order: dt_min, dt_max, schedule -/
def correct (p : Params) (s : TM) : TM × Res :=
  let s2 := { s with dt := clampMax p (clampMin p s.dt) }
  match corrSched p.rtol p.atol s2.time s2.dt (p.schedule.drop s2.idx) with
  | none => (s2, .err .indexError)
  | some (n, a, d) => ({ s2 with idx := s2.idx + n, aboutToHit := a, dt := d }, .ok (some d))

/-- `compute_time_step(iterations, recompute_solution)`; the state is returned also when an
    error is raised (python mutates in place). -/
def computeTimeStep (p : Params) (s : TM) (iters : Option Int) (recompute : Bool) : TM × Res :=
  if !recompute && finalTimeReached p s then (s, .ok none)
  else if p.constantDt then (s, .ok (some p.dtInit))
  else if !recompute then
    match iters with
    | none => (s, .err .iterationsNone)
    | some it => correct p (adaptIter p s it)
  else if (s.recompNum : Int) < p.recompMax then
    if s.dt = p.dtMin then (s, .err .dtMinReached)
    else correct p
      { s with time := s.time - s.dt, timeIndex := s.timeIndex - 1, dt := s.dt * p.recompFactor,
               recompNum := s.recompNum + 1, idx := if s.aboutToHit then s.idx - 1 else s.idx }
  else (s, .err .recompExhausted)

/-! ### restart (`set_time_and_dt_from_exported_steps`, used by `load_data_from_vtu` / `load_data_from_pvd`)

The clock and the step are restored from the exported history.  The model follows the PROPERTY, i.e. the
repaired method (fixes/C09-restart-schedule-cursor.diff): the schedule cursor is synchronised with the
restored clock — `_scheduled_idx` becomes the first index ≥ 1 whose scheduled time the clock has neither
passed nor reached within tolerance, the flag and the recomputation counter are reset.  (The code as it is
leaves `_scheduled_idx`, the flag and the counter as they were — 1 / False / 0 on a fresh manager — which
makes the next schedule correction compute a NEGATIVE step; known finding `restart-stale-schedule-cursor`.) -/

def nextIdxFrom (rtol atol t : Rat) : List Rat → Nat → Nat
  | [], k => k
  | x :: rest, k => if t < x && !isclose rtol atol t x then k else nextIdxFrom rtol atol t rest (k + 1)

def restore (p : Params) (s : TM) (t dt : Rat) : TM :=
  { s with time := t, dt := dt, recompNum := 0, aboutToHit := false,
           idx := nextIdxFrom p.rtol p.atol t (p.schedule.drop 1) 1 }

/-! ### the time loop

`while not final_time_reached(): increase_time(); increase_time_index(); converged = solve()`
where `solve` ends in `after_nonlinear_convergence` (`compute_time_step(iterations=k)`, adaptive
mode only) or `after_nonlinear_failure` (`compute_time_step(recompute_solution=True)`; raises
`ValueError` outright in constant-dt mode).  The nonlinear solver is an oracle tape of outcomes. -/

inductive Outcome where
  | converged (iters : Int)
  | failed
  deriving DecidableEq, Repr

inductive Status where
  | running
  | finished            -- loop left because `final_time_reached()`
  | raised (e : Err)    -- exception escaped from `after_nonlinear_failure`
  | crashed (e : Err)   -- exception from `after_nonlinear_convergence` (proved unreachable)
  deriving DecidableEq, Repr

structure Run where
  tm : TM
  accepted : List Rat   -- accepted times, most recent first (initial time included)
  status : Status

def statusOf (p : Params) (s : TM) : Status := if finalTimeReached p s then .finished else .running

def startRun (p : Params) : Run :=
  { tm := init p, accepted := [p.timeInit], status := statusOf p (init p) }

def stepRun (p : Params) (r : Run) (o : Outcome) : Run :=
  match r.status with
  | .running =>
    let s1 := increaseTimeIndex (increaseTime r.tm)
    match o with
    | .converged it =>
      if p.constantDt then
        { tm := s1, accepted := s1.time :: r.accepted, status := statusOf p s1 }
      else
        match computeTimeStep p s1 (some it) false with
        | (s2, .ok _) => { tm := s2, accepted := s1.time :: r.accepted, status := statusOf p s2 }
        | (s2, .err e) => { tm := s2, accepted := s1.time :: r.accepted, status := .crashed e }
    | .failed =>
      if p.constantDt then { tm := s1, accepted := r.accepted, status := .raised .constantDtFailed }
      else
        match computeTimeStep p s1 none true with
        | (s2, .ok _) => { tm := s2, accepted := r.accepted, status := statusOf p s2 }
        | (s2, .err e) => { tm := s2, accepted := r.accepted, status := .raised e }
  | _ => r

def runFrom (p : Params) (r : Run) (os : List Outcome) : Run := os.foldl (stepRun p) r

def run (p : Params) (os : List Outcome) : Run := runFrom p (startRun p) os

/-- index of the next scheduled time that the clock has not been sent to yet -/
def pending (s : TM) : Nat := if s.aboutToHit then s.idx - 1 else s.idx

/-! ### vocabulary of the property statements -/

/-- the initial step fits in the first scheduled interval -/
def Fits (p : Params) : Prop := p.timeInit + p.dtInit ≤ p.schedule.getD 1 0

/-- Premise of the property: parameters the constructor accepts, adaptive mode, the initial step fits
    the first scheduled interval; plus what the constructor does not check but the statement needs:
    sane tolerances (`rtol ≤ 1` or `atol ≥ 0`; in particular all non-negative tolerances, and all
    `rtol ≤ 1` whatever `atol`) and a positive lower bound for the step (or positive factors). -/
def Admissible (p : Params) : Prop :=
  Valid p ∧ p.constantDt = false ∧ Fits p ∧ (p.rtol ≤ 1 ∨ 0 ≤ p.atol) ∧
    (0 < p.dtMin ∨ (0 < p.underRelax ∧ 0 < p.recompFactor))

instance (p : Params) : Decidable (Admissible p) := by unfold Admissible Fits; infer_instance

/-- the scheduled time `y` is hit (within the manager's tolerance) by one of the times `acc` -/
def HitBy (p : Params) (acc : List Rat) (y : Rat) : Prop := ∃ a ∈ acc, isclose p.rtol p.atol a y = true

/-- constant-dt mode: the tolerance is small against the step — at every simulated time `v` of the
    constructor's compatibility check, and at the final time, `2·(atol + rtol·|v|) < dt_init`.
    Under this condition the constructor's match COUNT implies a match of every scheduled time. -/
def SmallTol (p : Params) : Prop :=
  (∀ v ∈ arange p.timeInit (p.timeFinal + p.dtInit) p.dtInit, 2 * (p.atol + p.rtol * absR v) < p.dtInit) ∧
  2 * (p.atol + p.rtol * absR p.timeFinal) < p.dtInit

instance (p : Params) : Decidable (SmallTol p) := by unfold SmallTol; infer_instance

/-- the scheduled time `y` is hit in the sense of the constructor's compatibility check:
    `np.isclose(y, a)` for an accepted time `a` (tolerance relative to `a`) -/
def HitByC (p : Params) (acc : List Rat) (y : Rat) : Prop := ∃ a ∈ acc, isclose p.rtol p.atol y a = true

/-- a run restarted from the exported `(time, dt)` of its current state: a fresh manager (`init p`) whose
    clock and step are restored, with the accepted times so far -/
def restarted (p : Params) (r : Run) : Run :=
  { tm := restore p { init p with timeIndex := r.tm.timeIndex } r.tm.time r.tm.dt, accepted := r.accepted,
    status := statusOf p r.tm }

/-- all outcomes on the tape are converged steps -/
def AllConverged (os : List Outcome) : Prop := ∀ o ∈ os, ∃ it, o = .converged it

end PorepyVerif.C09
