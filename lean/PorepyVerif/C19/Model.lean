/-
C19 — executable model of `porepy.grids.grid.Grid.compute_geometry` (core Lean only).

Numbers are rationals (every binary64 is one).  Square roots never enter: face lengths / areas are
carried squared, the unit tangent of a 1-D grid is carried as an un-normalised direction together
with its squared length.

* 2-D (`_compute_geometry_2d`) for grids in the xy-plane, branch for branch:
  orientation check (1/3) = node incidence of every cell vanishes, (2/3) = plane normal not tiny,
  (3/3) = no negative cell volume; oriented path (signed sub-triangles about the average of the
  face centres) and the legacy path (absolute sub-triangle areas, normals flipped by the
  cell-centre test).
* 1-D (`_compute_geometry_1d`): face centres, squared cell lengths, cell centres, tangent
  direction (farthest node from the mean) and the per-face flip of the normal.
* 3-D (`_compute_geometry_3d`): sub-triangles about the node average of each face, sub-tetrahedra
  about the edge-weighted average of the face centres; face centre / area use
  `|sub_normal| = |sub_normal · N| / |N|`, which is exact for planar faces.
* the cell-by-cell content of `TensorGrid._create_2d_grid` / `_create_3d_grid` (`tensorCells`, `tensorCells3`:
  node order and sign of every face of every cell) and a tetrahedron (`tetCell`).
* the specification vocabulary of the theorems (`Closed`, `EdgePaired`, `PlanarStar`, `NodesPlanar`, …) at the end.
-/
namespace PorepyVerif.C19

/-! ### generic helpers -/

/-- `Σ g` over a list (structural recursion: concrete instances reduce by evaluation). -/
def sumf {α : Type} (g : α → Rat) : List α → Rat
  | [] => 0
  | a :: l => g a + sumf g l

def absR (q : Rat) : Rat := if q < 0 then -q else q

/-- `np.sign` -/
def sgnR (q : Rat) : Rat := if q < 0 then -1 else if 0 < q then 1 else 0

/-- edges of the open path `a, l…, z` -/
def pathEdges {α : Type} : α → List α → α → List (α × α)
  | a, [], z => [(a, z)]
  | a, b :: l, z => (a, b) :: pathEdges b l z

/-- edges of the closed loop through the listed vertices (last vertex connects to the first) -/
def cycEdges {α : Type} : List α → List (α × α)
  | [] => []
  | a :: l => pathEdges a l a

/-! ### 2-D: one cell = a list of oriented faces -/

structure P2 where
  x : Rat
  y : Rat
deriving DecidableEq, Repr

/-- A face as seen from a cell: start node `a`, end node `b` (order of `face_nodes.indices`) and the
    `cell_faces` sign `s` (±1). -/
structure OFace where
  a : P2
  b : P2
  s : Rat
deriving DecidableEq, Repr

namespace OFace
/-- tangent = end − start -/
def tx (f : OFace) : Rat := f.b.x - f.a.x
def ty (f : OFace) : Rat := f.b.y - f.a.y
/-- face centre -/
def mx (f : OFace) : Rat := (f.a.x + f.b.x) / 2
def my (f : OFace) : Rat := (f.a.y + f.b.y) / 2
/-- squared face area (length) -/
def len2 (f : OFace) : Rat := f.tx * f.tx + f.ty * f.ty
/-- face normal `tangent × (0,0,p)`, `p = ±1` the orientation of the plane normal -/
def nx (p : Rat) (f : OFace) : Rat := p * f.ty
def ny (p : Rat) (f : OFace) : Rat := -(p * f.tx)
/-- z-component of `0.5 * cross(face_centre − c, s * tangent)` (the sub-simplex normal) -/
def subZ (c : P2) (f : OFace) : Rat :=
  ((f.mx - c.x) * (f.s * f.ty) - (f.my - c.y) * (f.s * f.tx)) / 2
end OFace

/-- temporary cell centre: average of the face centres of the cell -/
def tempCenter (fs : List OFace) : P2 :=
  ⟨sumf OFace.mx fs / (fs.length : Rat), sumf OFace.my fs / (fs.length : Rat)⟩

/-- cell volume = Σ weights (`w f` = signed or absolute sub-triangle area) -/
def cellAreaW (w : OFace → Rat) (fs : List OFace) : Rat := sumf w fs
/-- first moments `Σ w_f · (c + 2 x_f)/3` (sub-triangle centroids weighted by sub-volumes) -/
def cellMomXW (w : OFace → Rat) (c : P2) (fs : List OFace) : Rat :=
  sumf (fun f => w f * ((c.x + 2 * f.mx) / 3)) fs
def cellMomYW (w : OFace → Rat) (c : P2) (fs : List OFace) : Rat :=
  sumf (fun f => w f * ((c.y + 2 * f.my) / 3)) fs

/-- oriented path: signed sub-volume `plane_normal · subsimplex_normal` -/
def wOriented (p : Rat) (c : P2) (f : OFace) : Rat := p * f.subZ c
/-- legacy path: `|subsimplex_normal|` -/
def wAbs (c : P2) (f : OFace) : Rat := absR (f.subZ c)

def cellArea (p : Rat) (c : P2) (fs : List OFace) : Rat := cellAreaW (wOriented p c) fs
def cellMomX (p : Rat) (c : P2) (fs : List OFace) : Rat := cellMomXW (wOriented p c) c fs
def cellMomY (p : Rat) (c : P2) (fs : List OFace) : Rat := cellMomYW (wOriented p c) c fs

/-- the polygon through the listed vertices, every face with sign +1 -/
def polyFaces (vs : List P2) : List OFace := (cycEdges vs).map (fun e => ⟨e.1, e.2, 1⟩)

/-! ### 2-D: orientation check (1/3) on node indices -/

/-- a face of a cell on index level: (start node, end node, sign) -/
abbrev IFace := Nat × Nat × Rat

/-- entry `k` of `fn_orient @ cell_faces[:, c]`: `Σ_f s_f ([end_f = k] − [start_f = k])` -/
def inc (fs : List IFace) (k : Nat) : Rat :=
  sumf (fun f => f.2.2 * ((if f.2.1 = k then 1 else 0) - (if f.1 = k then 1 else 0))) fs

def allBelow : Nat → (Nat → Bool) → Bool
  | 0, _ => true
  | n + 1, P => allBelow n P && P n

/-- all `n` entries of the column vanish -/
def orientedCell (n : Nat) (fs : List IFace) : Bool := allBelow n (fun k => decide (inc fs k = 0))

/-! ### 2-D: the whole grid -/

structure Grid2 where
  nodes : List P2
  faces : List (Nat × Nat)           -- (start, end) node of every face
  cells : List (List (Nat × Rat))    -- (face, sign) entries of every column of cell_faces

namespace Grid2
def node (g : Grid2) (i : Nat) : P2 := g.nodes.getD i ⟨0, 0⟩
def iface (g : Grid2) (e : Nat × Rat) : IFace :=
  ((g.faces.getD e.1 (0, 0)).1, (g.faces.getD e.1 (0, 0)).2, e.2)
def ofaceOfI (g : Grid2) (f : IFace) : OFace := ⟨g.node f.1, g.node f.2.1, f.2.2⟩
def oface (g : Grid2) (e : Nat × Rat) : OFace := g.ofaceOfI (g.iface e)
def cellOFaces (g : Grid2) (c : List (Nat × Rat)) : List OFace := c.map g.oface
/-- face as stored (sign irrelevant) -/
def gface (g : Grid2) (se : Nat × Nat) : OFace := ⟨g.node se.1, g.node se.2, 1⟩

def check1 (g : Grid2) : Bool :=
  g.cells.all (fun c => orientedCell g.nodes.length (c.map g.iface))

/-- z-component of `subsimplex_normals.sum(axis=1)` -/
def planeZ (g : Grid2) : Rat :=
  sumf (fun c => sumf (fun f => f.subZ (tempCenter (g.cellOFaces c))) (g.cellOFaces c)) g.cells

def planeSign (g : Grid2) : Rat := if 0 < g.planeZ then 1 else -1

/-- checks (1/3) and (2/3); `meanLen` = `np.mean(face_areas)` (a square root, supplied from outside) -/
def check12 (g : Grid2) (meanLen : Rat) : Bool :=
  g.check1 && !decide (absR g.planeZ < (1 / 100000) * (meanLen * meanLen)) && !decide (g.planeZ = 0)

def volumesOriented (g : Grid2) : List Rat :=
  g.cells.map (fun c => cellArea g.planeSign (tempCenter (g.cellOFaces c)) (g.cellOFaces c))

/-- all three orientation checks passed -/
def isOriented (g : Grid2) (meanLen : Rat) : Bool :=
  g.check12 meanLen && g.volumesOriented.all (fun v => decide (0 ≤ v))

/-- legacy path: does side `(c, e)` of face `e.1` ask for a flip of the normal `tangent × (0,0,1)`? -/
def sideFlips (g : Grid2) (c : List (Nat × Rat)) (e : Nat × Rat) : Bool :=
  let f := g.oface e
  let tc := tempCenter (g.cellOFaces c)
  decide (e.2 * ((f.mx - tc.x) * f.nx 1 + (f.my - tc.y) * f.ny 1) < 0)

def faceFlipped (g : Grid2) (fi : Nat) : Bool :=
  g.cells.any (fun c => c.any (fun e => e.1 == fi && g.sideFlips c e))
end Grid2

structure Out2 where
  oriented : Bool
  faceLen2 : List Rat
  faceCenters : List P2
  faceNormals : List P2
  cellVolumes : List Rat
  /-- `none` = zero volume (the implementation divides by it) -/
  cellCenters : List (Option P2)

def centroidOf (w : OFace → Rat) (c : P2) (fs : List OFace) : Option P2 :=
  if cellAreaW w fs = 0 then none
  else some ⟨cellMomXW w c fs / cellAreaW w fs, cellMomYW w c fs / cellAreaW w fs⟩

def listIdx {α : Type} (l : List α) : List (Nat × α) := (List.range l.length).zip l

def geom2 (g : Grid2) (meanLen : Rat) : Out2 :=
  let gf := g.faces.map g.gface
  let len2 := gf.map OFace.len2
  let ctr := gf.map (fun f => (⟨f.mx, f.my⟩ : P2))
  if g.isOriented meanLen then
    let p := g.planeSign
    { oriented := true, faceLen2 := len2, faceCenters := ctr,
      faceNormals := gf.map (fun f => ⟨f.nx p, f.ny p⟩),
      cellVolumes := g.volumesOriented,
      cellCenters := g.cells.map (fun c =>
        centroidOf (wOriented p (tempCenter (g.cellOFaces c))) (tempCenter (g.cellOFaces c)) (g.cellOFaces c)) }
  else
    { oriented := false, faceLen2 := len2, faceCenters := ctr,
      faceNormals := (listIdx gf).map (fun (i, f) =>
        if g.faceFlipped i then ⟨-(f.nx 1), -(f.ny 1)⟩ else ⟨f.nx 1, f.ny 1⟩),
      cellVolumes := g.cells.map (fun c => cellAreaW (wAbs (tempCenter (g.cellOFaces c))) (g.cellOFaces c)),
      cellCenters := g.cells.map (fun c =>
        centroidOf (wAbs (tempCenter (g.cellOFaces c))) (tempCenter (g.cellOFaces c)) (g.cellOFaces c)) }

/-! ### 2-D: `TensorGrid._create_2d_grid`, cell by cell -/

/-- faces (west, east, south, north) of the cell `[x0,x1] × [y0,y1]` with the node order and signs of
    the constructor: vertical faces run from the low to the high node, horizontal ones from the high
    to the low node; signs −1, +1, −1, +1. -/
def tensorCell (x0 x1 y0 y1 : Rat) : List OFace :=
  [⟨⟨x0, y0⟩, ⟨x0, y1⟩, -1⟩, ⟨⟨x1, y0⟩, ⟨x1, y1⟩, 1⟩, ⟨⟨x1, y0⟩, ⟨x0, y0⟩, -1⟩, ⟨⟨x1, y1⟩, ⟨x0, y1⟩, 1⟩]

/-- consecutive pairs -/
def pairs : List Rat → List (Rat × Rat)
  | [] => []
  | [_] => []
  | a :: b :: l => (a, b) :: pairs (b :: l)

def tensorRow (xs : List (Rat × Rat)) (y : Rat × Rat) : List (List OFace) :=
  xs.map (fun x => tensorCell x.1 x.2 y.1 y.2)

/-- cells in the constructor's order (x fastest) -/
def tensorCells (xs ys : List Rat) : List (List OFace) :=
  (pairs ys).flatMap (tensorRow (pairs xs))

/-- sum of the model cell volumes of the tensor grid (orientation +1: counter-clockwise loops) -/
def tensorVolumeSum (xs ys : List Rat) : Rat :=
  sumf (fun fs => cellArea 1 (tempCenter fs) fs) (tensorCells xs ys)

def lastD : List Rat → Rat → Rat
  | [], d => d
  | a :: l, _ => lastD l a

/-! ### 1-D -/

structure P3 where
  x : Rat
  y : Rat
  z : Rat
deriving DecidableEq, Repr

namespace P3
def zero : P3 := ⟨0, 0, 0⟩
def add (u v : P3) : P3 := ⟨u.x + v.x, u.y + v.y, u.z + v.z⟩
def sub (u v : P3) : P3 := ⟨u.x - v.x, u.y - v.y, u.z - v.z⟩
def smul (k : Rat) (v : P3) : P3 := ⟨k * v.x, k * v.y, k * v.z⟩
def dot (u v : P3) : Rat := u.x * v.x + u.y * v.y + u.z * v.z
def cross (u v : P3) : P3 := ⟨u.y * v.z - u.z * v.y, u.z * v.x - u.x * v.z, u.x * v.y - u.y * v.x⟩
end P3

def sum3 {α : Type} (g : α → P3) : List α → P3
  | [] => P3.zero
  | a :: l => (g a).add (sum3 g l)

def mean3 (vs : List P3) : P3 := P3.smul (1 / (vs.length : Rat)) (sum3 id vs)

/-- first index of the maximum of a list of rationals (`np.argmax`), with the running best -/
def argmaxFrom : List Rat → Nat → Nat → Rat → Nat
  | [], _, bi, _ => bi
  | a :: l, i, bi, b => if b < a then argmaxFrom l (i + 1) i a else argmaxFrom l (i + 1) bi b

def argmax (l : List Rat) : Nat :=
  match l with
  | [] => 0
  | a :: l => argmaxFrom l 1 0 a

structure Grid1 where
  nodes : List P3
  faces : List Nat                       -- node of every face
  cells : List ((Nat × Rat) × (Nat × Rat))  -- the two (face, sign) entries of every cell

structure Out1 where
  /-- un-normalised tangent (`compute_tangent` before division by its norm) -/
  dir : P3
  faceCenters : List P3
  /-- +1 / −1: face normal = flip · dir / |dir| -/
  faceFlip : List Rat
  cellLen2 : List Rat
  cellCenters : List P3

namespace Grid1
def node (g : Grid1) (i : Nat) : P3 := g.nodes.getD i P3.zero
def fc (g : Grid1) (f : Nat) : P3 := g.node (g.faces.getD f 0)
def dir (g : Grid1) : P3 :=
  let m := mean3 g.nodes
  let d := g.nodes.map (fun p => p.sub m)
  d.getD (argmax (d.map (fun v => v.dot v))) P3.zero
def cellCenter (g : Grid1) (c : (Nat × Rat) × (Nat × Rat)) : P3 :=
  P3.smul (1 / 2) ((g.fc c.1.1).add (g.fc c.2.1))
/-- first (cell, sign) entry in column-major order that mentions face `f` -/
def firstSide (g : Grid1) (f : Nat) : Option (((Nat × Rat) × (Nat × Rat)) × Rat) :=
  g.cells.findSome? (fun c => if c.1.1 = f then some (c, c.1.2) else if c.2.1 = f then some (c, c.2.2) else none)
/-- the flip of `_compute_geometry_1d` for collinear nodes: the normal (= tangent) is reversed when
    it points into the first cell of a face with positive sign, or out of it with negative sign -/
def flip (g : Grid1) (f : Nat) : Rat :=
  match g.firstSide f with
  | none => 1
  | some (c, s) =>
    let d := ((g.fc f).sub (g.cellCenter c)).dot g.dir
    if (d < 0 && 0 < s) || (0 < d && s < 0) then -1 else 1
end Grid1

def geom1 (g : Grid1) : Out1 :=
  { dir := g.dir,
    faceCenters := (List.range g.faces.length).map g.fc,
    faceFlip := (List.range g.faces.length).map g.flip,
    cellLen2 := g.cells.map (fun c => let d := (g.fc c.1.1).sub (g.fc c.2.1); d.dot d),
    cellCenters := g.cells.map g.cellCenter }

/-- 1-D cell in a coordinate `ξ` along the unit tangent: faces at `ξ1`, `ξ2` with signs `s1`, `s2`;
    `ν` = orientation (±1) of the face normal relative to the tangent after the flip. -/
def lineFlip (ξf ξc s : Rat) : Rat :=
  if (ξf - ξc < 0 && 0 < s) || (0 < ξf - ξc && s < 0) then -1 else 1

/-! ### 3-D -/

/-- sub-normal of the edge `e = (a, b)` of a face with temporary centre `c`:
    `(b − a) × (c − a) / 2` -/
def subN (c : P3) (e : P3 × P3) : P3 := P3.smul (1 / 2) ((e.2.sub e.1).cross (c.sub e.1))
/-- centroid of the sub-triangle -/
def subC (c : P3) (e : P3 × P3) : P3 := P3.smul (1 / 3) ((e.1.add e.2).add c)

/-- face normal = sum of the sub-normals about the node average -/
def faceN (vs : List P3) : P3 := sum3 (subN (mean3 vs)) (cycEdges vs)
/-- `|sub_normal| · |N|` for a sub-normal parallel to `N` (planar face) -/
def faceW (vs : List P3) (e : P3 × P3) : Rat := absR ((subN (mean3 vs) e).dot (faceN vs))
def faceWSum (vs : List P3) : Rat := sumf (faceW vs) (cycEdges vs)
/-- squared face area `(Σ |sub_normal|)²` -/
def faceArea2 (vs : List P3) : Rat := faceWSum vs * faceWSum vs / (faceN vs).dot (faceN vs)
/-- face centre: area-weighted mean of the sub-triangle centroids -/
def faceCtr (vs : List P3) : P3 :=
  P3.smul (1 / faceWSum vs) (sum3 (fun e => P3.smul (faceW vs e) (subC (mean3 vs) e)) (cycEdges vs))

/-- a cell: faces (cyclic vertex list, `cell_faces` sign) -/
abbrev Cell3 := List (List P3 × Rat)

def numEdges (cell : Cell3) : Rat := sumf (fun f => (f.1.length : Rat)) cell
/-- temporary cell centre: every edge brings in its face centre -/
def tempCenter3 (cell : Cell3) : P3 :=
  P3.smul (1 / numEdges cell) (sum3 (fun f => P3.smul (f.1.length : Rat) (faceCtr f.1)) cell)

/-- outward sub-normal `sub_normal · orientation · sign(sub_normal · N)` -/
def outerN (f : List P3 × Rat) (e : P3 × P3) : P3 :=
  P3.smul (f.2 * sgnR ((subN (mean3 f.1) e).dot (faceN f.1))) (subN (mean3 f.1) e)
def tetVol (tc : P3) (f : List P3 × Rat) (e : P3 × P3) : Rat :=
  ((subC (mean3 f.1) e).sub tc).dot (outerN f e) / 3

def faceVol (tc : P3) (f : List P3 × Rat) : Rat := sumf (tetVol tc f) (cycEdges f.1)
def cellVol3 (tc : P3) (cell : Cell3) : Rat := sumf (faceVol tc) cell
/-- `Σ tet_volume · 3/4 · (sub_centroid − tc)` -/
def cellRelMom3 (tc : P3) (cell : Cell3) : P3 :=
  sum3 (fun f => sum3 (fun e => P3.smul (tetVol tc f e * (3 / 4)) ((subC (mean3 f.1) e).sub tc)) (cycEdges f.1)) cell
def cellCtr3 (cell : Cell3) : P3 :=
  (tempCenter3 cell).add (P3.smul (1 / cellVol3 (tempCenter3 cell) cell) (cellRelMom3 (tempCenter3 cell) cell))

/-- smallest sub-tetrahedron volume of the cell (the implementation raises if one is below −1e-12) -/
def minTet (tc : P3) (cell : Cell3) : Rat :=
  (cell.flatMap (fun f => (cycEdges f.1).map (tetVol tc f))).foldl (fun m v => if v < m then v else m) 0

structure Grid3 where
  nodes : List P3
  faces : List (List Nat)
  cells : List (List (Nat × Rat))   -- (face, sign) sorted by face index

namespace Grid3
def node (g : Grid3) (i : Nat) : P3 := g.nodes.getD i P3.zero
def fverts (g : Grid3) (f : Nat) : List P3 := (g.faces.getD f []).map g.node
def cell (g : Grid3) (c : List (Nat × Rat)) : Cell3 := c.map (fun e => (g.fverts e.1, e.2))
end Grid3

structure Out3 where
  faceNormals : List P3
  faceArea2 : List Rat
  faceCenters : List P3
  cellVolumes : List Rat
  cellCenters : List P3
  minTet : Rat

def geom3 (g : Grid3) : Out3 :=
  let fv := (List.range g.faces.length).map g.fverts
  let cs := g.cells.map g.cell
  { faceNormals := fv.map faceN, faceArea2 := fv.map faceArea2, faceCenters := fv.map faceCtr,
    cellVolumes := cs.map (fun c => cellVol3 (tempCenter3 c) c),
    cellCenters := cs.map cellCtr3,
    minTet := (cs.map (fun c => minTet (tempCenter3 c) c)).foldl (fun m v => if v < m then v else m) 0 }

/-- the four faces of the tetrahedron `p0 p1 p2 p3`, each listed so that the right-hand normal points
    away from the opposite vertex when `(p1−p0)×(p2−p0)·(p3−p0) > 0`; all signs +1 -/
def tetCell (p0 p1 p2 p3 : P3) : Cell3 :=
  [([p0, p2, p1], 1), ([p0, p1, p3], 1), ([p1, p2, p3], 1), ([p0, p3, p2], 1)]

/-! ### specification vocabulary used in the theorem statements -/

/-- `Σ_f s_f (g(b_f) − g(a_f))`: the signed boundary of the node function `g` over the faces. -/
def loopSum (g : P2 → Rat) (fs : List OFace) : Rat := sumf (fun f => f.s * (g f.b - g f.a)) fs

/-- The faces form closed node loops (every node is entered as often as it is left, counted with
    the `cell_faces` signs): this is what orientation check (1/3) of `_compute_geometry_2d` tests. -/
def Closed (fs : List OFace) : Prop := ∀ g : P2 → Rat, loopSum g fs = 0

/-- twice the signed area of the triangle (start of `f`, end of `f`, `P`): positive iff `P` lies to the
    left of the directed face -/
def leftOf (f : OFace) (P : P2) : Rat := f.tx * (P.y - f.a.y) - f.ty * (P.x - f.a.x)

/-- `Σ_faces sign · Σ_edges G(a, b)` over the directed edges of the faces of a 3-D cell -/
def dirEdgeSum (G : P3 → P3 → Rat) (cell : Cell3) : Rat :=
  sumf (fun f => f.2 * sumf (fun e => G e.1 e.2) (cycEdges f.1)) cell

/-- closed surface: every edge is used twice with opposite direction (after reversing the faces with
    sign −1), expressed as: every antisymmetric edge function sums to zero -/
def EdgePaired (cell : Cell3) : Prop :=
  ∀ G : P3 → P3 → Rat, (∀ a b, G a b = -G b a) → dirEdgeSum G cell = 0

/-- directed edges of the cell, faces with sign ≠ 1 reversed -/
def dirEdges (cell : Cell3) : List (P3 × P3) :=
  cell.flatMap (fun f => if f.2 = 1 then cycEdges f.1 else (cycEdges f.1).map Prod.swap)

/-- planar, star-shaped (about the node average), non-degenerate faces: every sub-normal is a
    non-negative multiple of the face normal `N ≠ 0` -/
def PlanarStar (cell : Cell3) : Prop :=
  ∀ f ∈ cell, (faceN f.1).dot (faceN f.1) ≠ 0 ∧ ∀ e ∈ cycEdges f.1,
    0 ≤ (subN (mean3 f.1) e).dot (faceN f.1) ∧
    P3.smul ((faceN f.1).dot (faceN f.1)) (subN (mean3 f.1) e)
      = P3.smul ((subN (mean3 f.1) e).dot (faceN f.1)) (faceN f.1)

/-- all nodes of every face lie in the plane through the node average, perpendicular to the face normal -/
def NodesPlanar (cell : Cell3) : Prop :=
  ∀ f ∈ cell, ∀ v ∈ f.1, (v.sub (mean3 f.1)).dot (faceN f.1) = 0

/-- first moment of the cell as computed: `V · tc + Σ tet_volume · 3/4 · (sub_centroid − tc)`;
    the cell centre is `cellMom3 / cellVol3` -/
def cellMom3 (tc : P3) (cell : Cell3) : P3 := (P3.smul (cellVol3 tc cell) tc).add (cellRelMom3 tc cell)

/-! ### 3-D: `TensorGrid._create_3d_grid`, cell by cell -/

/-- faces (west, east, south, north, top = low z, bottom = high z) of the cell
    `[x0,x1] × [y0,y1] × [z0,z1]` with the node order and signs of the constructor -/
def tensorCell3 (x0 x1 y0 y1 z0 z1 : Rat) : Cell3 :=
  [([⟨x0, y0, z0⟩, ⟨x0, y1, z0⟩, ⟨x0, y1, z1⟩, ⟨x0, y0, z1⟩], -1),
   ([⟨x1, y0, z0⟩, ⟨x1, y1, z0⟩, ⟨x1, y1, z1⟩, ⟨x1, y0, z1⟩], 1),
   ([⟨x0, y0, z0⟩, ⟨x0, y0, z1⟩, ⟨x1, y0, z1⟩, ⟨x1, y0, z0⟩], -1),
   ([⟨x0, y1, z0⟩, ⟨x0, y1, z1⟩, ⟨x1, y1, z1⟩, ⟨x1, y1, z0⟩], 1),
   ([⟨x0, y0, z0⟩, ⟨x1, y0, z0⟩, ⟨x1, y1, z0⟩, ⟨x0, y1, z0⟩], -1),
   ([⟨x0, y0, z1⟩, ⟨x1, y0, z1⟩, ⟨x1, y1, z1⟩, ⟨x0, y1, z1⟩], 1)]

/-- cells in the constructor's order (x fastest, then y, then z) -/
def tensorCells3 (xs ys zs : List Rat) : List Cell3 :=
  (pairs zs).flatMap (fun z => (pairs ys).flatMap (fun y =>
    (pairs xs).map (fun x => tensorCell3 x.1 x.2 y.1 y.2 z.1 z.2)))

def tensorVolumeSum3 (xs ys zs : List Rat) : Rat :=
  sumf (fun c => cellVol3 (tempCenter3 c) c) (tensorCells3 xs ys zs)

/-! ### legacy (non-oriented) 2-D path, one side of a face -/

/-- `cross(x_f − c, tangent)`: positive iff the face runs counter-clockwise as seen from `c` -/
def OFace.chi (c : P2) (f : OFace) : Rat := (f.mx - c.x) * f.ty - (f.my - c.y) * f.tx

/-- the face re-directed so that it runs counter-clockwise as seen from `c`, sign +1 -/
def reorient (c : P2) (f : OFace) : OFace := if 0 ≤ f.chi c then ⟨f.a, f.b, 1⟩ else ⟨f.b, f.a, 1⟩

/-- final normal of the legacy path as decided by this side of the face: `tangent × (0,0,1)`, reversed when
    `sign · (x_f − c) · normal < 0` -/
def legacyNx (c : P2) (f : OFace) : Rat := if f.s * f.chi c < 0 then -(f.nx 1) else f.nx 1
def legacyNy (c : P2) (f : OFace) : Rat := if f.s * f.chi c < 0 then -(f.ny 1) else f.ny 1

/-- arbitrary storage of a face: node order reversed or not, any sign -/
def redirect (flip : Bool) (s : Rat) (f : OFace) : OFace := if flip then ⟨f.b, f.a, s⟩ else ⟨f.a, f.b, s⟩

/-! ### rigid embedding of the planar model in 3-D -/

/-- 3×3 matrix by rows -/
structure M3 where
  r1 : P3
  r2 : P3
  r3 : P3

def M3.mulVec (R : M3) (v : P3) : P3 := ⟨R.r1.dot v, R.r2.dot v, R.r3.dot v⟩
/-- `RᵀR = 1` (columns orthonormal): rotations and reflections -/
def M3.Orth (R : M3) : Prop :=
  R.r1.x * R.r1.x + R.r2.x * R.r2.x + R.r3.x * R.r3.x = 1 ∧
  R.r1.y * R.r1.y + R.r2.y * R.r2.y + R.r3.y * R.r3.y = 1 ∧
  R.r1.z * R.r1.z + R.r2.z * R.r2.z + R.r3.z * R.r3.z = 1 ∧
  R.r1.x * R.r1.y + R.r2.x * R.r2.y + R.r3.x * R.r3.y = 0 ∧
  R.r1.x * R.r1.z + R.r2.x * R.r2.z + R.r3.x * R.r3.z = 0 ∧
  R.r1.y * R.r1.z + R.r2.y * R.r2.z + R.r3.y * R.r3.z = 0

def lift (p : P2) : P3 := ⟨p.x, p.y, 0⟩
/-- image of a point / of a vector of the plane under `x ↦ R x + b` -/
def embedP (R : M3) (b : P3) (p : P2) : P3 := (R.mulVec (lift p)).add b
def embedV (R : M3) (n : P2) : P3 := R.mulVec (lift n)

/-! ### 3-D positivity vocabulary -/

/-- `tc` lies strictly on the inner side of every face plane (faces oriented outward by their sign):
    the cell is star-shaped with respect to `tc` -/
def StarAbout (tc : P3) (cell : Cell3) : Prop :=
  ∀ f ∈ cell, 0 < f.2 * ((mean3 f.1).sub tc).dot (faceN f.1)

/-- convex cell with outward oriented faces: every face centre lies on the inner side of (or on) every
    face plane, at least one strictly -/
def ConvexCell (cell : Cell3) : Prop :=
  ∀ f ∈ cell, 0 < (f.1.length : Rat) ∧
    (∀ g ∈ cell, f.2 * ((faceCtr g.1).sub (mean3 f.1)).dot (faceN f.1) ≤ 0) ∧
    ∃ g ∈ cell, f.2 * ((faceCtr g.1).sub (mean3 f.1)).dot (faceN f.1) < 0

/-- parallelepiped `p + [0,1]u + [0,1]v + [0,1]w` with the face / node pattern of `tensorCell3`
    (west, east, south, north, low, high; signs −1, +1, …) -/
def paraCell (p u v w : P3) : Cell3 :=
  [([p, p.add v, (p.add v).add w, p.add w], -1),
   ([p.add u, (p.add u).add v, ((p.add u).add v).add w, (p.add u).add w], 1),
   ([p, p.add w, (p.add u).add w, p.add u], -1),
   ([p.add v, (p.add v).add w, ((p.add u).add v).add w, (p.add u).add v], 1),
   ([p, p.add u, (p.add u).add v, p.add v], -1),
   ([p.add w, (p.add u).add w, ((p.add u).add v).add w, (p.add v).add w], 1)]

/-- `(u × v) · w` -/
def det3 (u v w : P3) : Rat := (u.cross v).dot w

/-! ### decidable input conditions of the 3-D theorems (evaluated by the driver on every cell) -/

def edgePairedB (cell : Cell3) : Bool :=
  cell.all (fun f => decide (f.2 = 1 ∨ f.2 = -1)) && (dirEdges cell).isPerm ((dirEdges cell).map Prod.swap)

def planarStarB (cell : Cell3) : Bool :=
  cell.all (fun f => decide ((faceN f.1).dot (faceN f.1) ≠ 0) && (cycEdges f.1).all (fun e =>
    decide (0 ≤ (subN (mean3 f.1) e).dot (faceN f.1)) &&
    decide (P3.smul ((faceN f.1).dot (faceN f.1)) (subN (mean3 f.1) e)
      = P3.smul ((subN (mean3 f.1) e).dot (faceN f.1)) (faceN f.1))))

def nodesPlanarB (cell : Cell3) : Bool :=
  cell.all (fun f => f.1.all (fun v => decide ((v.sub (mean3 f.1)).dot (faceN f.1) = 0)))

def starAboutB (tc : P3) (cell : Cell3) : Bool :=
  cell.all (fun f => decide (0 < f.2 * ((mean3 f.1).sub tc).dot (faceN f.1)))

/-- closed surface of planar star-shaped non-degenerate faces, star-shaped about the code's centre -/
def cellHypB (cell : Cell3) : Bool :=
  !cell.isEmpty && edgePairedB cell && planarStarB cell && nodesPlanarB cell && starAboutB (tempCenter3 cell) cell

end PorepyVerif.C19
