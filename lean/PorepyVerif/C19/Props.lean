/-
C19 — property theorems (statements only depend on Model.lean, including its specification vocabulary
`loopSum`, `Closed`, `leftOf`, `dirEdgeSum`, `EdgePaired`, `dirEdges`, `PlanarStar`).

Property: computed cell volumes are positive and sum to the domain measure, face normals have length
equal to the face area and point out of the cell with positive sign, for every cell the signed sum
of face normals vanishes; Σ sign (x_f·n_f) = dim·V and Σ sign (x_f·n_f) x_f = (dim+1)·V·c with
positions measured from a point of the grid's line or plane.

Notation: a 2-D cell is ANY list of oriented faces `(a, b, s)` (start node, end node, cell_faces
sign); `p = ±1` is the orientation of the plane normal, `c` the point about which the cell is cut
into sub-triangles (the code uses the average of the face centres; the theorems hold for every `c`),
`o` the reference point positions are measured from.
-/
import PorepyVerif.C19.Lemmas

namespace PorepyVerif.C19

/-! ## 2-D -/

/-- |normal|² = area²: the normal is the tangent rotated by 90°. -/
theorem normal_length_is_area_sq (p : Rat) (hp : p = 1 ∨ p = -1) (f : OFace) :
    f.nx p * f.nx p + f.ny p * f.ny p = f.len2 := by
  rcases hp with rfl | rfl <;> simp only [OFace.nx, OFace.ny, OFace.len2] <;> ring

/-- Closed cell: the signed sum of the face normals vanishes. -/
theorem closed_cell (p : Rat) (fs : List OFace) (h : Closed fs) :
    sumf (fun f => f.s * f.nx p) fs = 0 ∧ sumf (fun f => f.s * f.ny p) fs = 0 := by
  rw [closed_aux_x, closed_aux_y, h, h]; simp

/-- Σ sign (x_f − o)·n_f = 2·V, with V the cell volume exactly as computed (signed sub-triangles
    about `c`), for every reference point `o`. -/
theorem area_identity (p : Rat) (c o : P2) (fs : List OFace) (h : Closed fs) :
    sumf (fun f => f.s * ((f.mx - o.x) * f.nx p + (f.my - o.y) * f.ny p)) fs = 2 * cellArea p c fs := by
  have := area_aux p c o fs
  rw [h, h] at this
  linarith

/-- Σ sign ((x_f − o)·n_f)(x_f − o) = 3·(M − V·o), where `M = Σ v_f (c + 2 x_f)/3` is the first moment
    as computed (cell centre = M / V). -/
theorem centroid_identity (p : Rat) (c o : P2) (fs : List OFace) (h : Closed fs) :
    sumf (fun f => f.s * ((f.mx - o.x) * f.nx p + (f.my - o.y) * f.ny p) * (f.mx - o.x)) fs
        = 3 * (cellMomX p c fs - cellArea p c fs * o.x)
    ∧ sumf (fun f => f.s * ((f.mx - o.x) * f.nx p + (f.my - o.y) * f.ny p) * (f.my - o.y)) fs
        = 3 * (cellMomY p c fs - cellArea p c fs * o.y) := by
  have hx := centroid_aux_x p c o fs
  have hy := centroid_aux_y p c o fs
  rw [h, h, h, h] at hx
  rw [h, h, h, h] at hy
  constructor <;> linarith

/-- … in the form of the property: with the cell centre `ctr = M / V` returned by the model
    (`centroidOf`), Σ sign ((x_f − o)·n_f)(x_f − o) = 3·V·(ctr − o). -/
theorem centroid_identity_div (p : Rat) (c o ctr : P2) (fs : List OFace) (h : Closed fs)
    (hc : centroidOf (wOriented p c) c fs = some ctr) :
    sumf (fun f => f.s * ((f.mx - o.x) * f.nx p + (f.my - o.y) * f.ny p) * (f.mx - o.x)) fs
        = 3 * cellArea p c fs * (ctr.x - o.x)
    ∧ sumf (fun f => f.s * ((f.mx - o.x) * f.nx p + (f.my - o.y) * f.ny p) * (f.my - o.y)) fs
        = 3 * cellArea p c fs * (ctr.y - o.y) := by
  obtain ⟨hx, hy⟩ := centroid_identity p c o fs h
  unfold centroidOf at hc
  split at hc
  · cases hc
  · rename_i hV
    injection hc with hc
    subst hc
    have hV' : cellArea p c fs ≠ 0 := hV
    rw [hx, hy]
    simp only [cellArea, cellMomX, cellMomY] at hV' ⊢
    constructor <;> field_simp

/-- Outward orientation: `sign · n_f · (x_f − c)` is twice the sub-triangle volume of the face, so
    the normal times the sign points away from `c` exactly when the sub-volume is positive (which the
    oriented path guarantees in sum, check (3/3), and for every face of a convex cell, see below). -/
theorem outward_iff_subvolume_pos (p : Rat) (c : P2) (f : OFace) :
    f.s * (f.nx p * (f.mx - c.x) + f.ny p * (f.my - c.y)) = 2 * wOriented p c f := by
  simp only [wOriented, OFace.subZ, OFace.nx, OFace.ny]; ring

/-- Every polygon, given as a cyclic list of vertices of ANY length, is closed (telescoping). -/
theorem polygon_closed (vs : List P2) : Closed (polyFaces vs) := by
  intro g
  cases vs with
  | nil => rfl
  | cons a l =>
    have := loopSum_path g l a a
    simpa [polyFaces, cycEdges] using this

/-- … hence all identities hold for every polygon. -/
theorem polygon_identities (p : Rat) (c o : P2) (vs : List P2) :
    (sumf (fun f => f.s * f.nx p) (polyFaces vs) = 0 ∧ sumf (fun f => f.s * f.ny p) (polyFaces vs) = 0)
    ∧ sumf (fun f => f.s * ((f.mx - o.x) * f.nx p + (f.my - o.y) * f.ny p)) (polyFaces vs)
        = 2 * cellArea p c (polyFaces vs)
    ∧ sumf (fun f => f.s * ((f.mx - o.x) * f.nx p + (f.my - o.y) * f.ny p) * (f.mx - o.x)) (polyFaces vs)
        = 3 * (cellMomX p c (polyFaces vs) - cellArea p c (polyFaces vs) * o.x)
    ∧ sumf (fun f => f.s * ((f.mx - o.x) * f.nx p + (f.my - o.y) * f.ny p) * (f.my - o.y)) (polyFaces vs)
        = 3 * (cellMomY p c (polyFaces vs) - cellArea p c (polyFaces vs) * o.y) :=
  ⟨closed_cell p _ (polygon_closed vs), area_identity p c o _ (polygon_closed vs),
   (centroid_identity p c o _ (polygon_closed vs)).1, (centroid_identity p c o _ (polygon_closed vs)).2⟩

/-- The code's own orientation check (1/3) — all node incidences of the cell vanish — implies that
    the cell is closed, for arbitrary node coordinates `X`. -/
theorem oriented_check_closed (n : Nat) (fs : List IFace) (X : Nat → P2)
    (hb : ∀ f ∈ fs, f.1 < n ∧ f.2.1 < n) (h : orientedCell n fs = true) :
    Closed (fs.map (fun f => (⟨X f.1, X f.2.1, f.2.2⟩ : OFace))) := by
  intro g
  unfold loopSum
  rw [sumf_map]
  have := incidence_sum n (fun k => g (X k)) fs hb
  simp only at this ⊢
  rw [this]
  apply sumBelow_zero
  intro k hk
  have := allBelow_spec h k hk
  simp only [decide_eq_true_eq] at this
  rw [this]; ring

/-- Grid level: if the model takes the oriented path (`isOriented`, i.e. the three checks of the
    code passed), every cell of the grid is closed — so `closed_cell`, `area_identity`,
    `centroid_identity` apply to every cell with the volumes / centres the model outputs. -/
theorem oriented_grid_cells_closed (g : Grid2) (meanLen : Rat)
    (hwf : ∀ c ∈ g.cells, ∀ e ∈ c, (g.iface e).1 < g.nodes.length ∧ (g.iface e).2.1 < g.nodes.length)
    (h : g.isOriented meanLen = true) : ∀ c ∈ g.cells, Closed (g.cellOFaces c) := by
  intro c hc
  simp only [Grid2.isOriented, Grid2.check12, Grid2.check1, Bool.and_eq_true, List.all_eq_true] at h
  have h1 := h.1.1.1 c hc
  have := oriented_check_closed g.nodes.length (c.map g.iface) g.node
    (by
      intro f hf
      obtain ⟨e, he, rfl⟩ := List.mem_map.mp hf
      exact hwf c hc e he) h1
  have e : g.cellOFaces c = (c.map g.iface).map (fun f => (⟨g.node f.1, g.node f.2.1, f.2.2⟩ : OFace)) := by
    simp only [Grid2.cellOFaces, List.map_map]; rfl
  rw [e]; exact this

/-- Grid level, all together: on the oriented path of the model, for every cell the face normals
    `(nx, ny) = tangent × (0,0,p)` with `p = planeSign`, the volume entry `V` of `cellVolumes` and the
    first moments behind `cellCenters` satisfy the closed-cell, volume and centroid identities about every
    reference point `o`. -/
theorem oriented_grid_divergence (g : Grid2) (meanLen : Rat) (o : P2)
    (hwf : ∀ c ∈ g.cells, ∀ e ∈ c, (g.iface e).1 < g.nodes.length ∧ (g.iface e).2.1 < g.nodes.length)
    (h : g.isOriented meanLen = true) :
    (geom2 g meanLen).cellVolumes
        = g.cells.map (fun c => cellArea g.planeSign (tempCenter (g.cellOFaces c)) (g.cellOFaces c))
    ∧ ∀ c ∈ g.cells,
      let fs := g.cellOFaces c
      let p := g.planeSign
      let V := cellArea p (tempCenter fs) fs
      (sumf (fun f => f.s * f.nx p) fs = 0 ∧ sumf (fun f => f.s * f.ny p) fs = 0)
      ∧ 0 ≤ V
      ∧ sumf (fun f => f.s * ((f.mx - o.x) * f.nx p + (f.my - o.y) * f.ny p)) fs = 2 * V
      ∧ sumf (fun f => f.s * ((f.mx - o.x) * f.nx p + (f.my - o.y) * f.ny p) * (f.mx - o.x)) fs
          = 3 * (cellMomX p (tempCenter fs) fs - V * o.x)
      ∧ sumf (fun f => f.s * ((f.mx - o.x) * f.nx p + (f.my - o.y) * f.ny p) * (f.my - o.y)) fs
          = 3 * (cellMomY p (tempCenter fs) fs - V * o.y) := by
  constructor
  · unfold geom2
    rw [if_pos h]
    rfl
  · intro c hc fs p V
    have hcl := oriented_grid_cells_closed g meanLen hwf h c hc
    have hV : 0 ≤ V := by
      have h' := h
      simp only [Grid2.isOriented, Bool.and_eq_true, List.all_eq_true, decide_eq_true_eq] at h'
      exact h'.2 V (List.mem_map.mpr ⟨c, hc, rfl⟩)
    exact ⟨closed_cell p fs hcl, hV, area_identity p _ o fs hcl, (centroid_identity p _ o fs hcl).1,
      (centroid_identity p _ o fs hcl).2⟩

/-- Positivity: for a counter-clockwise convex cell (all signs +1, every node on the left of or on
    every face line, at least one strictly), every sub-triangle about the average of the face centres is
    positive, and so is the cell volume. -/
theorem convex_ccw_area_pos (fs : List OFace) (hne : fs ≠ []) (hs : ∀ f ∈ fs, f.s = 1)
    (hconv : ∀ f ∈ fs, (∀ g ∈ fs, 0 ≤ leftOf f g.a ∧ 0 ≤ leftOf f g.b)
                      ∧ ∃ g ∈ fs, 0 < leftOf f g.a + leftOf f g.b) :
    (∀ f ∈ fs, 0 < wOriented 1 (tempCenter fs) f) ∧ 0 < cellArea 1 (tempCenter fs) fs := by
  have hn : (0 : Rat) < (fs.length : Rat) := by
    have : 0 < fs.length := List.length_pos_iff.mpr hne
    exact_mod_cast this
  have hsub : ∀ f ∈ fs, 0 < wOriented 1 (tempCenter fs) f := by
    intro f hf
    obtain ⟨hall, g, hg, hgpos⟩ := hconv f hf
    have h1 := leftOf_tempCenter f fs hne
    have h2 : 0 < sumf (fun g => (leftOf f g.a + leftOf f g.b) / 2) fs := by
      apply sumf_pos_of_exists
      · intro a ha
        have := hall a ha
        linarith [this.1, this.2]
      · exact ⟨g, hg, by linarith⟩
    have h3 : 0 < leftOf f (tempCenter fs) := by
      rw [← h1] at h2
      by_contra hle
      have hle' : leftOf f (tempCenter fs) ≤ 0 := not_lt.mp hle
      nlinarith
    have := subZ_eq_leftOf f (tempCenter fs) (hs f hf)
    simp only [wOriented]
    linarith
  exact ⟨hsub, sumf_pos hne hsub⟩

/-- Non-negative volumes: every cell volume the 2-D model outputs is ≥ 0, on both paths. -/
theorem volumes_nonneg (g : Grid2) (meanLen : Rat) : ∀ v ∈ (geom2 g meanLen).cellVolumes, 0 ≤ v := by
  intro v hv
  unfold geom2 at hv
  split at hv
  · rename_i h
    simp only [Grid2.isOriented, Bool.and_eq_true, List.all_eq_true, decide_eq_true_eq] at h
    exact h.2 v hv
  · simp only [List.mem_map] at hv
    obtain ⟨c, _, rfl⟩ := hv
    exact sumf_nonneg (fun f _ => absR_nonneg _)

/-! ## Cartesian / tensor grids -/

/-- The cell `[x0,x1]×[y0,y1]` as built by `TensorGrid._create_2d_grid` is closed and its computed
    volume is `(x1−x0)(y1−y0)`, whatever point the sub-triangles are taken about. -/
theorem cart_cell_area (x0 x1 y0 y1 : Rat) (c : P2) :
    Closed (tensorCell x0 x1 y0 y1) ∧ cellArea 1 c (tensorCell x0 x1 y0 y1) = (x1 - x0) * (y1 - y0) := by
  constructor
  · intro g
    simp only [loopSum, tensorCell, sumf_cons, sumf_nil]; ring
  · simp only [cellArea, cellAreaW, tensorCell, sumf_cons, sumf_nil, wOriented, OFace.subZ, OFace.mx, OFace.my,
      OFace.tx, OFace.ty]
    ring

/-- `cart_volumes_sum`: the computed cell volumes of a tensor grid with node coordinates
    `x0 :: xs`, `y0 :: ys` sum to the product of the extents. -/
theorem cart_volumes_sum (x0 y0 : Rat) (xs ys : List Rat) :
    tensorVolumeSum (x0 :: xs) (y0 :: ys) = (lastD xs x0 - x0) * (lastD ys y0 - y0) := by
  unfold tensorVolumeSum tensorCells
  rw [sumf_flatMap]
  have hrow : ∀ y : Rat × Rat, sumf (fun fs => cellArea 1 (tempCenter fs) fs) (tensorRow (pairs (x0 :: xs)) y)
      = (lastD xs x0 - x0) * (y.2 - y.1) := by
    intro y
    unfold tensorRow
    rw [sumf_map]
    have : (fun x : Rat × Rat => cellArea 1 (tempCenter (tensorCell x.1 x.2 y.1 y.2)) (tensorCell x.1 x.2 y.1 y.2))
        = fun x => (x.2 - x.1) * (y.2 - y.1) := by
      funext x; exact (cart_cell_area x.1 x.2 y.1 y.2 _).2
    rw [this, sumf_mul_right, sum_pairs_diff]
  simp only [hrow]
  rw [sumf_mul_left, sum_pairs_diff]

/-! ## 1-D -/

/-- A 1-D cell with faces at `ξ1 ≠ ξ2` (coordinate along the unit tangent, measured from a point of the
    line), signs `s1, s2 = ±1`; `ν_i = lineFlip …` is the orientation of the face normal relative to the
    tangent after the flip of `_compute_geometry_1d`; V = |ξ1 − ξ2|, c = (ξ1+ξ2)/2.
    Then sign·normal points out of the cell, Σ sign n = 0, Σ sign (x_f·n) = V, Σ sign (x_f·n) x_f = 2 V c. -/
theorem line_cell_identities (ξ1 ξ2 s1 s2 : Rat) (hne : ξ1 ≠ ξ2)
    (h1 : s1 = 1 ∨ s1 = -1) (h2 : s2 = 1 ∨ s2 = -1) :
    let c := (ξ1 + ξ2) / 2
    let ν1 := lineFlip ξ1 c s1
    let ν2 := lineFlip ξ2 c s2
    let V := absR (ξ1 - ξ2)
    0 < s1 * ν1 * (ξ1 - c) ∧ 0 < s2 * ν2 * (ξ2 - c)
    ∧ s1 * ν1 + s2 * ν2 = 0
    ∧ s1 * ν1 * ξ1 + s2 * ν2 * ξ2 = V
    ∧ s1 * ν1 * ξ1 * ξ1 + s2 * ν2 * ξ2 * ξ2 = 2 * V * c := by
  intro c ν1 ν2 V
  rcases lt_or_gt_of_ne hne with hlt | hgt
  · have hV : V = ξ2 - ξ1 := by
      show absR (ξ1 - ξ2) = _
      unfold absR; rw [if_pos (by linarith)]; ring
    have hd1 : ξ1 - c < 0 := by show ξ1 - (ξ1 + ξ2) / 2 < 0; linarith
    have hd2 : 0 < ξ2 - c := by show 0 < ξ2 - (ξ1 + ξ2) / 2; linarith
    have e1 : s1 * ν1 = -1 := by
      show s1 * lineFlip ξ1 c s1 = -1
      unfold lineFlip
      rcases h1 with rfl | rfl
      · have : ¬ (0 < ξ1 - c) := by linarith
        simp [hd1, this]
      · have : ¬ (0 < ξ1 - c) := by linarith
        simp [hd1, this]
    have e2 : s2 * ν2 = 1 := by
      show s2 * lineFlip ξ2 c s2 = 1
      unfold lineFlip
      rcases h2 with rfl | rfl
      · have : ¬ (ξ2 - c < 0) := by linarith
        simp [hd2, this]
      · have : ¬ (ξ2 - c < 0) := by linarith
        simp [hd2, this]
    rw [e1, e2, hV]
    refine ⟨by linarith, by linarith, by ring, by ring, ?_⟩
    show -1 * ξ1 * ξ1 + 1 * ξ2 * ξ2 = 2 * (ξ2 - ξ1) * ((ξ1 + ξ2) / 2)
    ring
  · have hV : V = ξ1 - ξ2 := by
      show absR (ξ1 - ξ2) = _
      unfold absR; rw [if_neg (by linarith)]
    have hd1 : 0 < ξ1 - c := by show 0 < ξ1 - (ξ1 + ξ2) / 2; linarith
    have hd2 : ξ2 - c < 0 := by show ξ2 - (ξ1 + ξ2) / 2 < 0; linarith
    have e1 : s1 * ν1 = 1 := by
      show s1 * lineFlip ξ1 c s1 = 1
      unfold lineFlip
      rcases h1 with rfl | rfl
      · have : ¬ (ξ1 - c < 0) := by linarith
        simp [hd1, this]
      · have : ¬ (ξ1 - c < 0) := by linarith
        simp [hd1, this]
    have e2 : s2 * ν2 = -1 := by
      show s2 * lineFlip ξ2 c s2 = -1
      unfold lineFlip
      rcases h2 with rfl | rfl
      · have : ¬ (0 < ξ2 - c) := by linarith
        simp [hd2, this]
      · have : ¬ (0 < ξ2 - c) := by linarith
        simp [hd2, this]
    rw [e1, e2, hV]
    refine ⟨by linarith, by linarith, by ring, by ring, ?_⟩
    show 1 * ξ1 * ξ1 + -1 * ξ2 * ξ2 = 2 * (ξ1 - ξ2) * ((ξ1 + ξ2) / 2)
    ring

/-- Volumes of a 1-D tensor grid with increasing nodes sum to the extent. -/
theorem line_volumes_sum (x0 : Rat) (xs : List Rat) (hinc : ∀ p ∈ pairs (x0 :: xs), p.1 ≤ p.2) :
    sumf (fun p => absR (p.1 - p.2)) (pairs (x0 :: xs)) = lastD xs x0 - x0 := by
  rw [← sum_pairs_diff]
  apply sumf_congr
  intro p hp
  have := hinc p hp
  unfold absR
  split
  · ring
  · have : p.1 = p.2 := by linarith
    rw [this]

/-! ## 3-D -/

/-- The face normal as computed (sum of the sub-normals `(b−a)×(c−a)/2` about ANY point `c`, the code
    uses the node average) is the shoelace vector `½ Σ a×b` of the closed node loop. -/
theorem face_normal_shoelace (c : P3) (vs : List P3) :
    sum3 (subN c) (cycEdges vs) = P3.smul (1 / 2) (sum3 (fun e => e.1.cross e.2) (cycEdges vs)) := by
  cases vs with
  | nil => ext <;> simp [cycEdges]
  | cons a l =>
    have := subN_path c l a a
    simp only [cycEdges]
    rw [this]
    ext <;> simp

/-- General closed surface: if the directed edges of the faces of a cell (direction reversed where the
    cell_faces sign is −1) pair up — every edge is used twice with opposite direction — the signed sum of
    the face normals, computed as coded for polygonal faces of any size, vanishes. -/
theorem closed_cell_3d (cell : Cell3) (h : EdgePaired cell) :
    sum3 (fun f => P3.smul f.2 (faceN f.1)) cell = P3.zero :=
  closed_cell_3d_aux cell h

/-- A decidable sufficient condition for `EdgePaired`: all signs are ±1 and the list of directed edges
    is a permutation of its own reversal. -/
theorem paired_of_perm (cell : Cell3) (hs : ∀ f ∈ cell, f.2 = 1 ∨ f.2 = -1)
    (hperm : (dirEdges cell).Perm ((dirEdges cell).map Prod.swap)) : EdgePaired cell :=
  paired_of_perm_aux cell hs hperm

/-- Volume identity in 3-D: for a closed cell with planar star-shaped non-degenerate faces
    (`PlanarStar`: every sub-normal is a non-negative multiple of the face normal, N ≠ 0), with the face
    centres (area-weighted sub-centroids) and the cell volume (sub-tetrahedra about `tc`, the code uses
    the edge-weighted mean of the face centres) exactly as computed:
    Σ sign (x_f − o)·n_f = 3·V for every reference point `o` and every `tc`. -/
theorem volume_identity_3d (cell : Cell3) (tc o : P3) (hp : EdgePaired cell) (hpl : PlanarStar cell) :
    sumf (fun f => f.2 * ((faceCtr f.1).sub o).dot (faceN f.1)) cell = 3 * cellVol3 tc cell :=
  volume_identity_3d_aux cell tc o hp hpl

/-- Tetrahedron: closed, for arbitrary vertices. -/
theorem tet_closed_cell_3d (p0 p1 p2 p3 : P3) :
    sum3 (fun f => P3.smul f.2 (faceN f.1)) (tetCell p0 p1 p2 p3) = P3.zero :=
  closed_cell_3d _ (tet_paired p0 p1 p2 p3)

/-- Tetrahedron with non-degenerate faces: Σ sign (x_f − o)·n_f = 3·V with V as computed. -/
theorem tet_volume_identity_3d (p0 p1 p2 p3 tc o : P3)
    (hnd : ∀ f ∈ tetCell p0 p1 p2 p3, (faceN f.1).dot (faceN f.1) ≠ 0) :
    sumf (fun f => f.2 * ((faceCtr f.1).sub o).dot (faceN f.1)) (tetCell p0 p1 p2 p3)
      = 3 * cellVol3 tc (tetCell p0 p1 p2 p3) :=
  volume_identity_3d _ tc o (tet_paired p0 p1 p2 p3) (tet_planarStar p0 p1 p2 p3 hnd)

/-- Centroid identity in 3-D: for a closed cell with planar (`NodesPlanar`), star-shaped, non-degenerate
    faces, with face centres, cell volume `V` and first moment `M = V·tc + Σ tet_volume·¾·(sub_centroid − tc)`
    exactly as computed (the cell centre is `M / V`):
    Σ sign ((x_f − o)·n_f)(x_f − o) = 4·(M − V·o), for every reference point `o` and every `tc`.
    (Proof: tensor identity Σ (w·n)(x·r) = V (w·r) by a fan of tetrahedra about the origin whose inner
    faces cancel because the edges pair up.) -/
theorem centroid_identity_3d (cell : Cell3) (tc o : P3) (hp : EdgePaired cell) (hpl : PlanarStar cell)
    (hnp : NodesPlanar cell) :
    sum3 (fun f => P3.smul (f.2 * ((faceCtr f.1).sub o).dot (faceN f.1)) ((faceCtr f.1).sub o)) cell
      = P3.smul 4 ((cellMom3 tc cell).sub (P3.smul (cellVol3 tc cell) o)) := by
  have hx := centroid_identity_3d_aux cell tc o ⟨1, 0, 0⟩ hp hpl hnp
  have hy := centroid_identity_3d_aux cell tc o ⟨0, 1, 0⟩ hp hpl hnp
  have hz := centroid_identity_3d_aux cell tc o ⟨0, 0, 1⟩ hp hpl hnp
  ext
  · rw [sum3_x]
    simp only [P3.smul_x, P3.sub_x]
    have e : ∀ v : P3, v.dot ⟨1, 0, 0⟩ = v.x := by intro v; simp [P3.dot]
    simp only [e, P3.sub_x] at hx
    rw [← hx]; apply sumf_congr; intro f _; ring
  · rw [sum3_y]
    simp only [P3.smul_y, P3.sub_y]
    have e : ∀ v : P3, v.dot ⟨0, 1, 0⟩ = v.y := by intro v; simp [P3.dot]
    simp only [e, P3.sub_y] at hy
    rw [← hy]; apply sumf_congr; intro f _; ring
  · rw [sum3_z]
    simp only [P3.smul_z, P3.sub_z]
    have e : ∀ v : P3, v.dot ⟨0, 0, 1⟩ = v.z := by intro v; simp [P3.dot]
    simp only [e, P3.sub_z] at hz
    rw [← hz]; apply sumf_congr; intro f _; ring

/-- … in the form of the property, with the cell centre `cellCtr3` and the temporary centre the code uses:
    Σ sign ((x_f − o)·n_f)(x_f − o) = 4·V·(c − o) when V ≠ 0. -/
theorem centroid_identity_3d_div (cell : Cell3) (o : P3) (hp : EdgePaired cell) (hpl : PlanarStar cell)
    (hnp : NodesPlanar cell) (hV : cellVol3 (tempCenter3 cell) cell ≠ 0) :
    sum3 (fun f => P3.smul (f.2 * ((faceCtr f.1).sub o).dot (faceN f.1)) ((faceCtr f.1).sub o)) cell
      = P3.smul (4 * cellVol3 (tempCenter3 cell) cell) ((cellCtr3 cell).sub o) := by
  rw [centroid_identity_3d cell (tempCenter3 cell) o hp hpl hnp]
  unfold cellCtr3 cellMom3
  ext <;> simp <;> field_simp

/-- Tetrahedron with non-degenerate faces: Σ sign ((x_f − o)·n_f)(x_f − o) = 4·(M − V·o). -/
theorem tet_centroid_identity_3d (p0 p1 p2 p3 tc o : P3)
    (hnd : ∀ f ∈ tetCell p0 p1 p2 p3, (faceN f.1).dot (faceN f.1) ≠ 0) :
    sum3 (fun f => P3.smul (f.2 * ((faceCtr f.1).sub o).dot (faceN f.1)) ((faceCtr f.1).sub o)) (tetCell p0 p1 p2 p3)
      = P3.smul 4 ((cellMom3 tc (tetCell p0 p1 p2 p3)).sub (P3.smul (cellVol3 tc (tetCell p0 p1 p2 p3)) o)) :=
  centroid_identity_3d _ tc o (tet_paired p0 p1 p2 p3) (tet_planarStar p0 p1 p2 p3 hnd) (tet_nodesPlanar p0 p1 p2 p3)

/-- The hexahedron `[x0,x1]×[y0,y1]×[z0,z1]` as built by `TensorGrid._create_3d_grid` (node order and signs of
    the constructor) is a closed surface with planar star-shaped faces, and its computed volume is the product
    of the extents, about whatever point the sub-tetrahedra are taken. -/
theorem cart3_cell_volume (x0 x1 y0 y1 z0 z1 : Rat) (tc : P3) (hx : x0 ≠ x1) (hy : y0 ≠ y1) (hz : z0 ≠ z1) :
    EdgePaired (tensorCell3 x0 x1 y0 y1 z0 z1) ∧ PlanarStar (tensorCell3 x0 x1 y0 y1 z0 z1)
    ∧ cellVol3 tc (tensorCell3 x0 x1 y0 y1 z0 z1) = (x1 - x0) * (y1 - y0) * (z1 - z0) :=
  ⟨hex_paired x0 x1 y0 y1 z0 z1, hex_planarStar x0 x1 y0 y1 z0 z1 hx hy hz,
   cart3_cell_volume_aux x0 x1 y0 y1 z0 z1 tc hx hy hz⟩

/-- `cart_volumes_sum` in 3-D: the computed cell volumes of a tensor grid with distinct consecutive node
    coordinates sum to the product of the extents. -/
theorem cart_volumes_sum_3d (x0 y0 z0 : Rat) (xs ys zs : List Rat)
    (hxs : ∀ p ∈ pairs (x0 :: xs), p.1 ≠ p.2) (hys : ∀ p ∈ pairs (y0 :: ys), p.1 ≠ p.2)
    (hzs : ∀ p ∈ pairs (z0 :: zs), p.1 ≠ p.2) :
    tensorVolumeSum3 (x0 :: xs) (y0 :: ys) (z0 :: zs)
      = (lastD xs x0 - x0) * (lastD ys y0 - y0) * (lastD zs z0 - z0) :=
  cart_volumes_sum_3d_aux x0 y0 z0 xs ys zs hxs hys hzs

/-! ## legacy (non-oriented) 2-D path -/

/-- The legacy path of `_compute_geometry_2d` for one cell, under the assumption the code makes (cell convex,
    or at least star-shaped about the temporary centre `c`, so that the faces, each taken counter-clockwise as
    seen from `c`, form closed loops): whatever the stored node order and signs of the faces are, with the
    normals `legacyN` flipped by the cell-centre test, the absolute sub-triangle volumes `wAbs` and the moments
    built from them, the closed-cell, volume and centroid identities hold about every reference point `o`. -/
theorem legacy_cell_identities (c o : P2) (fs : List OFace) (hs : ∀ f ∈ fs, f.s = 1 ∨ f.s = -1)
    (hχ : ∀ f ∈ fs, f.chi c ≠ 0) (hcl : Closed (fs.map (reorient c))) :
    (sumf (fun f => f.s * legacyNx c f) fs = 0 ∧ sumf (fun f => f.s * legacyNy c f) fs = 0)
    ∧ sumf (fun f => f.s * ((f.mx - o.x) * legacyNx c f + (f.my - o.y) * legacyNy c f)) fs
        = 2 * cellAreaW (wAbs c) fs
    ∧ sumf (fun f => f.s * ((f.mx - o.x) * legacyNx c f + (f.my - o.y) * legacyNy c f) * (f.mx - o.x)) fs
        = 3 * (cellMomXW (wAbs c) c fs - cellAreaW (wAbs c) fs * o.x)
    ∧ sumf (fun f => f.s * ((f.mx - o.x) * legacyNx c f + (f.my - o.y) * legacyNy c f) * (f.my - o.y)) fs
        = 3 * (cellMomYW (wAbs c) c fs - cellAreaW (wAbs c) fs * o.y) := by
  have hA : cellAreaW (wAbs c) fs = cellArea 1 c (fs.map (reorient c)) := by
    unfold cellArea cellAreaW; rw [sumf_map]
    exact sumf_congr (fun f hf => (legacy_side c f (hs f hf) (hχ f hf)).2.2.1)
  have hMx : cellMomXW (wAbs c) c fs = cellMomX 1 c (fs.map (reorient c)) := by
    unfold cellMomX cellMomXW; rw [sumf_map]
    apply sumf_congr; intro f hf
    rw [(legacy_side c f (hs f hf) (hχ f hf)).2.2.1, reorient_mx]
  have hMy : cellMomYW (wAbs c) c fs = cellMomY 1 c (fs.map (reorient c)) := by
    unfold cellMomY cellMomYW; rw [sumf_map]
    apply sumf_congr; intro f hf
    rw [(legacy_side c f (hs f hf) (hχ f hf)).2.2.1, reorient_my]
  obtain ⟨hcx, hcy⟩ := closed_cell 1 _ hcl
  have har := area_identity 1 c o _ hcl
  obtain ⟨hmx, hmy⟩ := centroid_identity 1 c o _ hcl
  rw [sumf_map] at hcx hcy har hmx hmy
  rw [hA, hMx, hMy]
  refine ⟨⟨?_, ?_⟩, ?_, ?_, ?_⟩
  · rw [← hcx]; apply sumf_congr; intro f hf
    rw [(legacy_side c f (hs f hf) (hχ f hf)).1, reorient_s]; ring
  · rw [← hcy]; apply sumf_congr; intro f hf
    rw [(legacy_side c f (hs f hf) (hχ f hf)).2.1, reorient_s]; ring
  · rw [← har]; apply sumf_congr; intro f hf
    have h1 := (legacy_side c f (hs f hf) (hχ f hf)).1
    have h2 := (legacy_side c f (hs f hf) (hχ f hf)).2.1
    rw [reorient_s, reorient_mx, reorient_my, ← h1, ← h2]; ring
  · rw [← hmx]; apply sumf_congr; intro f hf
    have h1 := (legacy_side c f (hs f hf) (hχ f hf)).1
    have h2 := (legacy_side c f (hs f hf) (hχ f hf)).2.1
    rw [reorient_s, reorient_mx, reorient_my, ← h1, ← h2]; ring
  · rw [← hmy]; apply sumf_congr; intro f hf
    have h1 := (legacy_side c f (hs f hf) (hχ f hf)).1
    have h2 := (legacy_side c f (hs f hf) (hχ f hf)).2.1
    rw [reorient_s, reorient_mx, reorient_my, ← h1, ← h2]; ring

/-- … and sign · normal points away from `c` for every face (`= |cross(x_f − c, t)| > 0`), with positive
    sub-volumes, hence positive cell volume for a non-empty cell. -/
theorem legacy_outward (c : P2) (f : OFace) (hs : f.s = 1 ∨ f.s = -1) (hχ : f.chi c ≠ 0) :
    f.s * (legacyNx c f * (f.mx - c.x) + legacyNy c f * (f.my - c.y)) = absR (f.chi c)
    ∧ 0 < wAbs c f := by
  obtain ⟨h1, h2, h3, h4⟩ := legacy_side c f hs hχ
  have := outward_iff_subvolume_pos 1 c (reorient c f)
  constructor
  · rw [reorient_s, reorient_mx, reorient_my, ← h1, ← h2, ← h3] at this
    linarith
  · have := absR_pos hχ
    linarith


theorem legacy_volume_pos (c : P2) (fs : List OFace) (hne : fs ≠ []) (hs : ∀ f ∈ fs, f.s = 1 ∨ f.s = -1)
    (hχ : ∀ f ∈ fs, f.chi c ≠ 0) : 0 < cellAreaW (wAbs c) fs :=
  sumf_pos hne (fun f hf => (legacy_outward c f (hs f hf) (hχ f hf)).2)

/-- The closedness assumption holds for every polygon that is star-shaped and counter-clockwise about `c`
    (in particular every convex one with `c` inside), however its faces are stored: node order reversed or
    not (`k.1`) and with any sign (`k.2`). -/
theorem legacy_polygon_closed (c : P2) (vs : List P2) (ch : List (Bool × Rat))
    (hlen : ch.length = (polyFaces vs).length) (hstar : ∀ f ∈ polyFaces vs, 0 < f.chi c) :
    Closed ((List.zipWith (fun f k => redirect k.1 k.2 f) (polyFaces vs) ch).map (reorient c)) := by
  rw [legacy_scrambled_aux c (polyFaces vs) ch hlen]
  · exact polygon_closed vs
  · intro f hf
    refine ⟨?_, hstar f hf⟩
    simp only [polyFaces, List.mem_map] at hf
    obtain ⟨e, _, rfl⟩ := hf
    rfl

/-- Grid level: on the legacy path the model stores for face `e.1` the normal `tangent × (0,0,1)`, reversed when
    `faceFlipped`; if the decision of the face equals the decision of this side (the two sides agree — the
    code's convexity assumption), this is the per-side normal `legacyN` of the theorems above. -/
theorem legacy_grid_normal (g : Grid2) (c : List (Nat × Rat)) (e : Nat × Rat)
    (hagree : g.faceFlipped e.1 = g.sideFlips c e) :
    (if g.faceFlipped e.1 then -((g.oface e).nx 1) else (g.oface e).nx 1)
        = legacyNx (tempCenter (g.cellOFaces c)) (g.oface e)
    ∧ (if g.faceFlipped e.1 then -((g.oface e).ny 1) else (g.oface e).ny 1)
        = legacyNy (tempCenter (g.cellOFaces c)) (g.oface e) := by
  have hs : (g.oface e).s = e.2 := rfl
  have key : e.2 * (((g.oface e).mx - (tempCenter (g.cellOFaces c)).x) * (g.oface e).nx 1
        + ((g.oface e).my - (tempCenter (g.cellOFaces c)).y) * (g.oface e).ny 1)
      = (g.oface e).s * (g.oface e).chi (tempCenter (g.cellOFaces c)) := by
    rw [hs]; simp only [OFace.chi, OFace.nx, OFace.ny]; ring
  rw [hagree]
  unfold Grid2.sideFlips legacyNx legacyNy
  simp only [key, decide_eq_true_eq]
  refine ⟨?_, ?_⟩ <;> trivial

/-! ## embedded grids (rigid motion of the planar / line model) -/

/-- embedded 2-D cell: all identities for the image of a closed planar cell under `x ↦ R x + b`, `RᵀR = 1`,
    positions measured from the image of `o` (a point of the grid's plane) -/
theorem embedded_cell_identities (R : M3) (b : P3) (hR : R.Orth) (p : Rat) (c o : P2) (fs : List OFace) (h : Closed fs) :
    (∀ f : OFace, (p = 1 ∨ p = -1) → (embedV R ⟨f.nx p, f.ny p⟩).dot (embedV R ⟨f.nx p, f.ny p⟩) = f.len2)
    ∧ sum3 (fun f => P3.smul f.s (embedV R ⟨f.nx p, f.ny p⟩)) fs = P3.zero
    ∧ sumf (fun f => f.s * ((embedP R b ⟨f.mx, f.my⟩).sub (embedP R b o)).dot (embedV R ⟨f.nx p, f.ny p⟩)) fs
        = 2 * cellArea p c fs
    ∧ sum3 (fun f => P3.smul (f.s * ((embedP R b ⟨f.mx, f.my⟩).sub (embedP R b o)).dot (embedV R ⟨f.nx p, f.ny p⟩))
          ((embedP R b ⟨f.mx, f.my⟩).sub (embedP R b o))) fs
        = P3.smul 3 (embedV R ⟨cellMomX p c fs - cellArea p c fs * o.x, cellMomY p c fs - cellArea p c fs * o.y⟩) := by
  have hdot : ∀ f : OFace, ((embedP R b ⟨f.mx, f.my⟩).sub (embedP R b o)).dot (embedV R ⟨f.nx p, f.ny p⟩)
      = (f.mx - o.x) * f.nx p + (f.my - o.y) * f.ny p := by
    intro f; rw [embedP_sub, embedV_dot R hR]
  refine ⟨?_, ?_, ?_, ?_⟩
  · intro f hp
    rw [embedV_dot R hR]
    exact normal_length_is_area_sq p hp f
  · have := sum3_smul_embedV R (fun f : OFace => f.s) (fun f => f.nx p) (fun f => f.ny p) fs
    rw [this, (closed_cell p fs h).1, (closed_cell p fs h).2]
    ext <;> simp [embedV, M3.mulVec, lift, P3.dot]
  · rw [← area_identity p c o fs h]
    apply sumf_congr; intro f _; rw [hdot]
  · have e1 : ∀ f ∈ fs, P3.smul (f.s * ((embedP R b ⟨f.mx, f.my⟩).sub (embedP R b o)).dot (embedV R ⟨f.nx p, f.ny p⟩))
          ((embedP R b ⟨f.mx, f.my⟩).sub (embedP R b o))
        = P3.smul (f.s * ((f.mx - o.x) * f.nx p + (f.my - o.y) * f.ny p)) (embedV R ⟨f.mx - o.x, f.my - o.y⟩) := by
      intro f _; rw [hdot, embedP_sub]
    have : sum3 (fun f => P3.smul (f.s * ((embedP R b ⟨f.mx, f.my⟩).sub (embedP R b o)).dot (embedV R ⟨f.nx p, f.ny p⟩))
          ((embedP R b ⟨f.mx, f.my⟩).sub (embedP R b o))) fs
        = sum3 (fun f => P3.smul (f.s * ((f.mx - o.x) * f.nx p + (f.my - o.y) * f.ny p)) (embedV R ⟨f.mx - o.x, f.my - o.y⟩)) fs := by
      clear h
      induction fs with
      | nil => rfl
      | cons a l ih =>
        rw [sum3_cons, sum3_cons, e1 a List.mem_cons_self, ih (fun f hf => e1 f (List.mem_cons_of_mem _ hf))]
    rw [this, sum3_smul_embedV R (fun f : OFace => f.s * ((f.mx - o.x) * f.nx p + (f.my - o.y) * f.ny p))
      (fun f => f.mx - o.x) (fun f => f.my - o.y) fs, (centroid_identity p c o fs h).1, (centroid_identity p c o fs h).2,
      ← embedV_smul]

/-- embedded 1-D cell: nodes `x0 + ξ e` on a line with unit direction `e` in 3-D (`x0` a point of the line);
    the identities of `line_cell_identities` as vector statements. -/
theorem line_cell_identities_embedded (e x0 : P3) (he : e.dot e = 1) (ξ1 ξ2 s1 s2 : Rat) (hne : ξ1 ≠ ξ2)
    (h1 : s1 = 1 ∨ s1 = -1) (h2 : s2 = 1 ∨ s2 = -1) :
    let c := (ξ1 + ξ2) / 2
    let V := absR (ξ1 - ξ2)
    let n1 := P3.smul (lineFlip ξ1 c s1) e
    let n2 := P3.smul (lineFlip ξ2 c s2) e
    let x1 := x0.add (P3.smul ξ1 e)
    let x2 := x0.add (P3.smul ξ2 e)
    let xc := x0.add (P3.smul c e)
    n1.dot n1 = 1 ∧ n2.dot n2 = 1
    ∧ 0 < s1 * n1.dot (x1.sub xc) ∧ 0 < s2 * n2.dot (x2.sub xc)
    ∧ (P3.smul s1 n1).add (P3.smul s2 n2) = P3.zero
    ∧ s1 * (x1.sub x0).dot n1 + s2 * (x2.sub x0).dot n2 = V
    ∧ (P3.smul (s1 * (x1.sub x0).dot n1) (x1.sub x0)).add (P3.smul (s2 * (x2.sub x0).dot n2) (x2.sub x0))
        = P3.smul (2 * V) (xc.sub x0) := by
  intro c V n1 n2 x1 x2 xc
  obtain ⟨a1, a2, a3, a4, a5⟩ := line_cell_identities ξ1 ξ2 s1 s2 hne h1 h2
  have hfl : ∀ ξ s : Rat, lineFlip ξ c s * lineFlip ξ c s = 1 := by
    intro ξ s; unfold lineFlip; split <;> ring
  have hd : ∀ a b : Rat, (P3.smul a e).dot (P3.smul b e) = a * b := by
    intro a b; rw [P3.dot_smul_left, P3.dot_smul_right, he]; ring
  have hx1 : x1.sub x0 = P3.smul ξ1 e := by ext <;> simp [x1]
  have hx2 : x2.sub x0 = P3.smul ξ2 e := by ext <;> simp [x2]
  have hxc : xc.sub x0 = P3.smul c e := by ext <;> simp [xc]
  have hc1 : x1.sub xc = P3.smul (ξ1 - c) e := by ext <;> simp [x1, xc] <;> ring
  have hc2 : x2.sub xc = P3.smul (ξ2 - c) e := by ext <;> simp [x2, xc] <;> ring
  refine ⟨?_, ?_, ?_, ?_, ?_, ?_, ?_⟩
  · show (P3.smul _ e).dot (P3.smul _ e) = 1; rw [hd]; exact hfl _ _
  · show (P3.smul _ e).dot (P3.smul _ e) = 1; rw [hd]; exact hfl _ _
  · rw [hc1]; show 0 < s1 * (P3.smul _ e).dot (P3.smul _ e); rw [hd]
    have e1 : s1 * (lineFlip ξ1 c s1 * (ξ1 - c)) = s1 * lineFlip ξ1 ((ξ1 + ξ2) / 2) s1 * (ξ1 - (ξ1 + ξ2) / 2) := by
      simp only [c]; ring
    rw [e1]; exact a1
  · rw [hc2]; show 0 < s2 * (P3.smul _ e).dot (P3.smul _ e); rw [hd]
    have e2 : s2 * (lineFlip ξ2 c s2 * (ξ2 - c)) = s2 * lineFlip ξ2 ((ξ1 + ξ2) / 2) s2 * (ξ2 - (ξ1 + ξ2) / 2) := by
      simp only [c]; ring
    rw [e2]; exact a2
  · ext
    · simp only [P3.add_x, P3.smul_x, P3.zero_x, n1, n2]
      linear_combination e.x * a3
    · simp only [P3.add_y, P3.smul_y, P3.zero_y, n1, n2]
      linear_combination e.y * a3
    · simp only [P3.add_z, P3.smul_z, P3.zero_z, n1, n2]
      linear_combination e.z * a3
  · rw [hx1, hx2]; show s1 * (P3.smul _ e).dot (P3.smul _ e) + s2 * (P3.smul _ e).dot (P3.smul _ e) = V
    rw [hd, hd]; linarith
  · rw [hx1, hx2, hxc]
    show (P3.smul (s1 * (P3.smul _ e).dot (P3.smul _ e)) _).add (P3.smul (s2 * (P3.smul _ e).dot (P3.smul _ e)) _) = _
    rw [hd, hd]
    ext
    · simp only [P3.add_x, P3.smul_x]; linear_combination e.x * a5
    · simp only [P3.add_y, P3.smul_y]; linear_combination e.y * a5
    · simp only [P3.add_z, P3.smul_z]; linear_combination e.z * a5


/-- … with the cell centre returned by the model: Σ sign ((x_f−O)·n_f)(x_f−O) = 3·V·(Φ(ctr) − O). -/
theorem embedded_centroid_div (R : M3) (b : P3) (hR : R.Orth) (p : Rat) (c o ctr : P2) (fs : List OFace) (h : Closed fs)
    (hc : centroidOf (wOriented p c) c fs = some ctr) :
    sum3 (fun f => P3.smul (f.s * ((embedP R b ⟨f.mx, f.my⟩).sub (embedP R b o)).dot (embedV R ⟨f.nx p, f.ny p⟩))
          ((embedP R b ⟨f.mx, f.my⟩).sub (embedP R b o))) fs
      = P3.smul (3 * cellArea p c fs) ((embedP R b ctr).sub (embedP R b o)) := by
  rw [(embedded_cell_identities R b hR p c o fs h).2.2.2, embedP_sub, ← embedV_smul, ← embedV_smul]
  unfold centroidOf at hc
  split at hc
  · cases hc
  · rename_i hV
    injection hc with hc
    subst hc
    have hV' : cellArea p c fs ≠ 0 := hV
    simp only [cellArea, cellMomX, cellMomY] at hV' ⊢
    congr 1
    congr 1 <;> field_simp

/-! ## 3-D positivity -/

/-- Star-shaped cells: if the point `tc` the sub-tetrahedra are taken about lies strictly inside every face
    plane (faces outward oriented by their sign, planar, star-shaped), every sub-tetrahedron volume is ≥ 0,
    every face cone and the cell volume are > 0 (so the code's negative-volume test never fires). -/
theorem star_cell_volume_pos (cell : Cell3) (tc : P3) (hne : cell ≠ []) (hpl : PlanarStar cell)
    (hnp : NodesPlanar cell) (hst : StarAbout tc cell) :
    (∀ f ∈ cell, ∀ e ∈ cycEdges f.1, 0 ≤ tetVol tc f e) ∧ (∀ f ∈ cell, 0 < faceVol tc f) ∧ 0 < cellVol3 tc cell :=
  star_cell_volume_pos_aux cell tc hne hpl hnp hst

/-- Convex cells with outward oriented faces are star-shaped about the temporary centre the code uses
    (edge-weighted mean of the face centres) … -/
theorem convex_cell_star (cell : Cell3) (hc : ConvexCell cell) : StarAbout (tempCenter3 cell) cell :=
  convex_star_aux cell hc

/-- … hence their computed volume is positive. -/
theorem convex_cell_volume_pos (cell : Cell3) (hne : cell ≠ []) (hpl : PlanarStar cell) (hnp : NodesPlanar cell)
    (hc : ConvexCell cell) : 0 < cellVol3 (tempCenter3 cell) cell :=
  (star_cell_volume_pos cell _ hne hpl hnp (convex_cell_star cell hc)).2.2

/-- Tetrahedron with positive orientation `((p1−p0)×(p2−p0))·(p3−p0) > 0`: all hypotheses of the general theorems
    hold, the computed volume is det/6, all sub-tetrahedra about the code's centre are ≥ 0. -/
theorem tet_cell_positive (p0 p1 p2 p3 : P3) (hdet : 0 < det3 (p1.sub p0) (p2.sub p0) (p3.sub p0)) :
    EdgePaired (tetCell p0 p1 p2 p3) ∧ PlanarStar (tetCell p0 p1 p2 p3) ∧ NodesPlanar (tetCell p0 p1 p2 p3)
    ∧ StarAbout (tempCenter3 (tetCell p0 p1 p2 p3)) (tetCell p0 p1 p2 p3)
    ∧ (∀ tc, cellVol3 tc (tetCell p0 p1 p2 p3) = det3 (p1.sub p0) (p2.sub p0) (p3.sub p0) / 6)
    ∧ (∀ f ∈ tetCell p0 p1 p2 p3, ∀ e ∈ cycEdges f.1, 0 ≤ tetVol (tempCenter3 (tetCell p0 p1 p2 p3)) f e)
    ∧ 0 < cellVol3 (tempCenter3 (tetCell p0 p1 p2 p3)) (tetCell p0 p1 p2 p3) := by
  have hnd := tet_nondegenerate p0 p1 p2 p3 (ne_of_gt hdet)
  have hpl := tet_planarStar p0 p1 p2 p3 hnd
  have hst := tet_star p0 p1 p2 p3 hdet
  have hpos := star_cell_volume_pos (tetCell p0 p1 p2 p3) _ (by simp [tetCell]) hpl (tet_nodesPlanar p0 p1 p2 p3) hst
  exact ⟨tet_paired p0 p1 p2 p3, hpl, tet_nodesPlanar p0 p1 p2 p3, hst,
    fun tc => tet_volume p0 p1 p2 p3 tc (ne_of_gt hdet), hpos.1, hpos.2.2⟩

/-- Parallelepiped `p + [0,1]u + [0,1]v + [0,1]w` (every affine image of a Cartesian cell, node order and signs of
    the tensor constructor) with `(u×v)·w > 0`: all hypotheses hold, the computed volume is the determinant,
    all sub-tetrahedra are ≥ 0. -/
theorem para_cell_positive (p u v w : P3) (hdet : 0 < det3 u v w) :
    EdgePaired (paraCell p u v w) ∧ PlanarStar (paraCell p u v w) ∧ NodesPlanar (paraCell p u v w)
    ∧ StarAbout (tempCenter3 (paraCell p u v w)) (paraCell p u v w)
    ∧ (∀ tc, cellVol3 tc (paraCell p u v w) = det3 u v w)
    ∧ (∀ f ∈ paraCell p u v w, ∀ e ∈ cycEdges f.1, 0 ≤ tetVol (tempCenter3 (paraCell p u v w)) f e)
    ∧ 0 < cellVol3 (tempCenter3 (paraCell p u v w)) (paraCell p u v w) := by
  have hpl := para_planarStar_cell p u v w (ne_of_gt hdet)
  have hst := para_star p u v w hdet
  have hpos := star_cell_volume_pos (paraCell p u v w) _ (by simp [paraCell]) hpl (para_nodesPlanar_cell p u v w) hst
  exact ⟨para_paired p u v w, hpl, para_nodesPlanar_cell p u v w, hst,
    fun tc => para_volume p u v w tc (ne_of_gt hdet), hpos.1, hpos.2.2⟩

/-! ## decidable input conditions (evaluated by the driver on every 3-D cell), further clauses -/

theorem edgePairedB_sound (cell : Cell3) (h : edgePairedB cell = true) : EdgePaired cell := by
  simp only [edgePairedB, Bool.and_eq_true, List.all_eq_true, decide_eq_true_eq] at h
  exact paired_of_perm cell h.1 (List.isPerm_iff.mp h.2)

theorem planarStarB_sound (cell : Cell3) (h : planarStarB cell = true) : PlanarStar cell := by
  simp only [planarStarB, Bool.and_eq_true, List.all_eq_true, decide_eq_true_eq] at h
  intro f hf
  exact ⟨(h f hf).1, fun e he => (h f hf).2 e he⟩

theorem nodesPlanarB_sound (cell : Cell3) (h : nodesPlanarB cell = true) : NodesPlanar cell := by
  simp only [nodesPlanarB, List.all_eq_true, decide_eq_true_eq] at h
  exact h

theorem starAboutB_sound (tc : P3) (cell : Cell3) (h : starAboutB tc cell = true) : StarAbout tc cell := by
  simp only [starAboutB, List.all_eq_true, decide_eq_true_eq] at h
  exact h

theorem face_area_sq_aux (vs : List P3) (hN : (faceN vs).dot (faceN vs) ≠ 0)
    (hpl : ∀ e ∈ cycEdges vs, 0 ≤ (subN (mean3 vs) e).dot (faceN vs) ∧
      P3.smul ((faceN vs).dot (faceN vs)) (subN (mean3 vs) e) = P3.smul ((subN (mean3 vs) e).dot (faceN vs)) (faceN vs)) :
    faceArea2 vs = (faceN vs).dot (faceN vs) := by
  unfold faceArea2
  rw [faceWSum_eq vs hpl]
  field_simp

/-- Everything at once for a cell that passes the decidable conditions the driver evaluates (`cellHypB`): -/
theorem checked_cell_3d (cell : Cell3) (o : P3) (h : cellHypB cell = true) :
    let tc := tempCenter3 cell
    (∀ f ∈ cell, faceArea2 f.1 = (faceN f.1).dot (faceN f.1))
    ∧ (∀ f ∈ cell, ∀ e ∈ cycEdges f.1, 0 ≤ tetVol tc f e) ∧ 0 < cellVol3 tc cell
    ∧ (∀ f ∈ cell, 0 < f.2 * ((mean3 f.1).sub tc).dot (faceN f.1))
    ∧ sum3 (fun f => P3.smul f.2 (faceN f.1)) cell = P3.zero
    ∧ sumf (fun f => f.2 * ((faceCtr f.1).sub o).dot (faceN f.1)) cell = 3 * cellVol3 tc cell
    ∧ sum3 (fun f => P3.smul (f.2 * ((faceCtr f.1).sub o).dot (faceN f.1)) ((faceCtr f.1).sub o)) cell
        = P3.smul (4 * cellVol3 tc cell) ((cellCtr3 cell).sub o) := by
  intro tc
  simp only [cellHypB, Bool.and_eq_true, Bool.not_eq_true', List.isEmpty_eq_false_iff] at h
  obtain ⟨⟨⟨⟨hne, hp⟩, hpl⟩, hnp⟩, hst⟩ := h
  have hp := edgePairedB_sound cell hp
  have hpl := planarStarB_sound cell hpl
  have hnp := nodesPlanarB_sound cell hnp
  have hst := starAboutB_sound _ cell hst
  have hpos := star_cell_volume_pos cell tc hne hpl hnp hst
  refine ⟨fun f hf => face_area_sq_aux f.1 (hpl f hf).1 (hpl f hf).2, hpos.1, hpos.2.2, hst,
    closed_cell_3d cell hp, volume_identity_3d cell tc o hp hpl, ?_⟩
  exact centroid_identity_3d_div cell o hp hpl hnp (ne_of_gt hpos.2.2)

example : cellHypB (tetCell ⟨0, 0, 0⟩ ⟨1, 0, 0⟩ ⟨0, 1, 0⟩ ⟨0, 0, 1⟩) = true := by decide +kernel
example : cellHypB (tensorCell3 0 1 0 2 1 (3 / 2)) = true := by decide +kernel


theorem leftOf_moment (f : OFace) (w : OFace → Rat) (c : P2) (fs : List OFace) :
    f.tx * (cellMomYW w c fs - cellAreaW w fs * f.a.y) - f.ty * (cellMomXW w c fs - cellAreaW w fs * f.a.x)
      = sumf (fun g => w g * ((leftOf f c + (leftOf f g.a + leftOf f g.b)) / 3)) fs := by
  induction fs with
  | nil => simp [cellMomYW, cellMomXW, cellAreaW]
  | cons g l ih =>
    simp only [cellMomYW, cellMomXW, cellAreaW, sumf_cons, leftOf, OFace.mx, OFace.my] at ih ⊢
    linear_combination ih

/-- Outward orientation with respect to the COMPUTED cell centre: for a counter-clockwise convex cell the
    face normal times the sign points away from the centroid the model returns, for every face. -/
theorem convex_ccw_outward_centroid (fs : List OFace) (hne : fs ≠ []) (hs : ∀ f ∈ fs, f.s = 1)
    (hconv : ∀ f ∈ fs, (∀ g ∈ fs, 0 ≤ leftOf f g.a ∧ 0 ≤ leftOf f g.b)
                      ∧ ∃ g ∈ fs, 0 < leftOf f g.a + leftOf f g.b)
    (ctr : P2) (hc : centroidOf (wOriented 1 (tempCenter fs)) (tempCenter fs) fs = some ctr) :
    ∀ f ∈ fs, 0 < f.s * (f.nx 1 * (f.mx - ctr.x) + f.ny 1 * (f.my - ctr.y)) := by
  obtain ⟨hsub, hV⟩ := convex_ccw_area_pos fs hne hs hconv
  intro f hf
  have hl : f.s * (f.nx 1 * (f.mx - ctr.x) + f.ny 1 * (f.my - ctr.y)) = leftOf f ctr := by
    rw [hs f hf]; simp only [OFace.nx, OFace.ny, OFace.mx, OFace.my, OFace.tx, OFace.ty, leftOf]; ring
  rw [hl]
  have hmom := leftOf_moment f (wOriented 1 (tempCenter fs)) (tempCenter fs) fs
  have hpos : 0 < sumf (fun g => wOriented 1 (tempCenter fs) g
      * ((leftOf f (tempCenter fs) + (leftOf f g.a + leftOf f g.b)) / 3)) fs := by
    apply sumf_pos hne
    intro g hg
    have hw := hsub g hg
    have htc : 0 < leftOf f (tempCenter fs) := by
      have := subZ_eq_leftOf f (tempCenter fs) (hs f hf)
      have h2 := hsub f hf
      simp only [wOriented] at h2
      linarith
    have hg2 := (hconv f hf).1 g hg
    have : 0 < (leftOf f (tempCenter fs) + (leftOf f g.a + leftOf f g.b)) / 3 := by linarith [hg2.1, hg2.2]
    exact mul_pos hw this
  rw [← hmom] at hpos
  unfold centroidOf at hc
  split at hc
  · cases hc
  · injection hc with hc
    subst hc
    have hVV : 0 < cellAreaW (wOriented 1 (tempCenter fs)) fs := hV
    have e : cellAreaW (wOriented 1 (tempCenter fs)) fs
          * leftOf f ⟨cellMomXW (wOriented 1 (tempCenter fs)) (tempCenter fs) fs / cellAreaW (wOriented 1 (tempCenter fs)) fs,
                      cellMomYW (wOriented 1 (tempCenter fs)) (tempCenter fs) fs / cellAreaW (wOriented 1 (tempCenter fs)) fs⟩
        = f.tx * (cellMomYW (wOriented 1 (tempCenter fs)) (tempCenter fs) fs - cellAreaW (wOriented 1 (tempCenter fs)) fs * f.a.y)
          - f.ty * (cellMomXW (wOriented 1 (tempCenter fs)) (tempCenter fs) fs - cellAreaW (wOriented 1 (tempCenter fs)) fs * f.a.x) := by
      simp only [leftOf]; field_simp
    rw [← e] at hpos
    by_contra hle
    have hle' := not_lt.mp hle
    nlinarith

/-- 1-D: positive cell volume for distinct end points. -/
theorem line_volume_pos (ξ1 ξ2 : Rat) (hne : ξ1 ≠ ξ2) : 0 < absR (ξ1 - ξ2) := absR_pos (sub_ne_zero.mpr hne)

/-- Sum of the cell volumes = boundary integral: for closed cells, if the list of all (cell, face) sides is a
    permutation of the boundary sides `B` followed by interior faces seen from both sides with opposite signs,
    then `2 Σ V = Σ_{B} sign · x_f·n_f` — the total measure depends on the boundary faces only, so moving
    interior nodes (which keeps the cells closed) cannot change it. -/
theorem volumes_sum_boundary (p : Rat) (cells : List (List OFace)) (c : List OFace → P2)
    (hcl : ∀ fs ∈ cells, Closed fs) (B I : List OFace)
    (hperm : (cells.flatMap id).Perm (B ++ I.flatMap (fun f => [f, ⟨f.a, f.b, -f.s⟩]))) :
    2 * sumf (fun fs => cellArea p (c fs) fs) cells = sumf (fun f => f.s * (f.mx * f.nx p + f.my * f.ny p)) B := by
  have h1 : ∀ fs ∈ cells, 2 * cellArea p (c fs) fs = sumf (fun f => f.s * (f.mx * f.nx p + f.my * f.ny p)) fs := by
    intro fs hfs
    rw [← area_identity p (c fs) ⟨0, 0⟩ fs (hcl fs hfs)]
    apply sumf_congr; intro f _; ring
  rw [← sumf_mul_left, sumf_congr h1]
  have h2 := sumf_flatMap (fun f : OFace => f.s * (f.mx * f.nx p + f.my * f.ny p)) id cells
  simp only [id] at h2
  rw [← h2, sumf_perm _ hperm, sumf_append, sumf_flatMap]
  have : sumf (fun a : OFace => sumf (fun f : OFace => f.s * (f.mx * f.nx p + f.my * f.ny p)) [a, ⟨a.a, a.b, -a.s⟩]) I = 0 := by
    rw [← sumf_zero I]
    apply sumf_congr; intro a _
    simp only [sumf_cons, sumf_nil, OFace.mx, OFace.my, OFace.nx, OFace.ny, OFace.tx, OFace.ty]; ring
  rw [this]; ring

/-- two unit squares sharing a face: the sides are the six boundary sides plus the shared face seen twice -/
example : ([tensorCell 0 1 0 1, tensorCell 1 2 0 1].flatMap id).Perm
    ([⟨⟨0, 0⟩, ⟨0, 1⟩, -1⟩, ⟨⟨1, 0⟩, ⟨0, 0⟩, -1⟩, ⟨⟨1, 1⟩, ⟨0, 1⟩, 1⟩, ⟨⟨2, 0⟩, ⟨2, 1⟩, 1⟩, ⟨⟨2, 0⟩, ⟨1, 0⟩, -1⟩, ⟨⟨2, 1⟩, ⟨1, 1⟩, 1⟩]
      ++ [(⟨⟨1, 0⟩, ⟨1, 1⟩, 1⟩ : OFace)].flatMap (fun f => [f, ⟨f.a, f.b, -f.s⟩])) := by
  decide +kernel


/-
Not proved (checked by the oracle on the real code only):
* that a face whose two sides disagree in the legacy path (non-convex cell) gets a meaningful normal — the code
  itself calls this decision arbitrary;
* the hypotheses `EdgePaired` / `PlanarStar` / `NodesPlanar` / `ConvexCell` for polyhedra other than tetrahedra
  and parallelepipeds (they are assumptions on the grid there).
-/

/-! ## non-vacuity: concrete instances -/

/-- an L-shaped (non-convex) hexagon, clockwise faces mixed in via sign −1 -/
def exL : List OFace :=
  [⟨⟨0, 0⟩, ⟨2, 0⟩, 1⟩, ⟨⟨2, 1⟩, ⟨2, 0⟩, -1⟩, ⟨⟨2, 1⟩, ⟨1, 1⟩, 1⟩, ⟨⟨1, 1⟩, ⟨1, 2⟩, 1⟩, ⟨⟨0, 2⟩, ⟨1, 2⟩, -1⟩, ⟨⟨0, 2⟩, ⟨0, 0⟩, 1⟩]

example : orientedCell 6 [(0, 1, 1), (2, 1, -1), (2, 3, 1), (3, 4, 1), (5, 4, -1), (5, 0, 1)] = true := by decide +kernel
example : cellArea 1 (tempCenter exL) exL = 3 := by decide +kernel
example : centroidOf (wOriented 1 (tempCenter exL)) (tempCenter exL) exL = some ⟨5 / 6, 5 / 6⟩ := by decide +kernel
example : sumf (fun f => f.s * ((f.mx - 7) * f.nx 1 + (f.my - 3) * f.ny 1)) exL = 6 := by decide +kernel
example : polyFaces [⟨0, 0⟩, ⟨2, 0⟩, ⟨0, 1⟩] = [⟨⟨0, 0⟩, ⟨2, 0⟩, 1⟩, ⟨⟨2, 0⟩, ⟨0, 1⟩, 1⟩, ⟨⟨0, 1⟩, ⟨0, 0⟩, 1⟩] := by decide +kernel
example : cellArea 1 ⟨5, 5⟩ (polyFaces [⟨0, 0⟩, ⟨2, 0⟩, ⟨0, 1⟩]) = 1 := by decide +kernel
/-- the unit square is convex and counter-clockwise in the sense of `convex_ccw_area_pos` -/
example : let fs := polyFaces [⟨0, 0⟩, ⟨1, 0⟩, ⟨1, 1⟩, ⟨0, 1⟩]
    (∀ f ∈ fs, f.s = 1) ∧ ∀ f ∈ fs, (∀ g ∈ fs, 0 ≤ leftOf f g.a ∧ 0 ≤ leftOf f g.b) ∧ ∃ g ∈ fs, 0 < leftOf f g.a + leftOf f g.b := by
  decide +kernel
example : tensorVolumeSum [0, 1, 3] [-1, 1 / 2] = 9 / 2 := by decide +kernel
example : (geom2 ⟨[⟨0, 0⟩, ⟨1, 0⟩, ⟨1, 1⟩, ⟨0, 1⟩], [(0, 1), (1, 2), (2, 3), (3, 0)], [[(0, 1), (1, 1), (2, 1), (3, 1)]]⟩ 1).oriented = true := by
  decide +kernel
example : lineFlip 0 (1 / 2) 1 = -1 ∧ lineFlip 1 (1 / 2) 1 = 1 := by decide +kernel
/-- unit tetrahedron: directed edges pair up, faces are non-degenerate, V = 1/6 -/
example : (dirEdges (tetCell ⟨0, 0, 0⟩ ⟨1, 0, 0⟩ ⟨0, 1, 0⟩ ⟨0, 0, 1⟩)).Perm
    ((dirEdges (tetCell ⟨0, 0, 0⟩ ⟨1, 0, 0⟩ ⟨0, 1, 0⟩ ⟨0, 0, 1⟩)).map Prod.swap) := by decide +kernel
example : ∀ f ∈ tetCell ⟨0, 0, 0⟩ ⟨1, 0, 0⟩ ⟨0, 1, 0⟩ ⟨0, 0, 1⟩, (faceN f.1).dot (faceN f.1) ≠ 0 := by decide +kernel
/-- legacy path: a clockwise stored unit square with arbitrary signs, seen from its centre -/
example : let fs : List OFace := [⟨⟨1, 0⟩, ⟨0, 0⟩, 1⟩, ⟨⟨1, 0⟩, ⟨1, 1⟩, -1⟩, ⟨⟨0, 1⟩, ⟨1, 1⟩, 1⟩, ⟨⟨0, 1⟩, ⟨0, 0⟩, -1⟩]
    (∀ f ∈ fs, f.chi (tempCenter fs) ≠ 0) ∧ fs.map (reorient (tempCenter fs)) = polyFaces [⟨0, 0⟩, ⟨1, 0⟩, ⟨1, 1⟩, ⟨0, 1⟩]
    ∧ cellAreaW (wAbs (tempCenter fs)) fs = 1 := by decide +kernel
/-- a rational rotation (Cayley) is orthogonal -/
example : M3.Orth ⟨⟨1 / 3, -2 / 3, 2 / 3⟩, ⟨2 / 3, 2 / 3, 1 / 3⟩, ⟨-2 / 3, 1 / 3, 2 / 3⟩⟩ := by
  unfold M3.Orth; norm_num
example : (⟨3 / 5, 4 / 5, 0⟩ : P3).dot ⟨3 / 5, 4 / 5, 0⟩ = 1 := by decide +kernel
example : 0 < det3 ⟨1, 0, 0⟩ ⟨1, 2, 0⟩ ⟨1 / 2, 1, 3⟩ := by decide +kernel
/-- the unit cube is convex in the sense of `ConvexCell` -/
example : ∀ f ∈ paraCell ⟨0, 0, 0⟩ ⟨1, 0, 0⟩ ⟨0, 1, 0⟩ ⟨0, 0, 1⟩, 0 < (f.1.length : Rat) ∧
    (∀ g ∈ paraCell ⟨0, 0, 0⟩ ⟨1, 0, 0⟩ ⟨0, 1, 0⟩ ⟨0, 0, 1⟩, f.2 * ((faceCtr g.1).sub (mean3 f.1)).dot (faceN f.1) ≤ 0) ∧
    ∃ g ∈ paraCell ⟨0, 0, 0⟩ ⟨1, 0, 0⟩ ⟨0, 1, 0⟩ ⟨0, 0, 1⟩, f.2 * ((faceCtr g.1).sub (mean3 f.1)).dot (faceN f.1) < 0 := by
  decide +kernel
example : tensorVolumeSum3 [0, 1, 3] [0, 2] [1, 3 / 2] = 3 := by decide +kernel
example : ∀ p ∈ pairs [0, 1, 3], p.1 ≠ p.2 := by decide +kernel
example : NodesPlanar (tetCell ⟨0, 0, 0⟩ ⟨1, 0, 0⟩ ⟨0, 1, 0⟩ ⟨0, 0, 1⟩) := tet_nodesPlanar _ _ _ _
example : cellCtr3 (tetCell ⟨0, 0, 0⟩ ⟨1, 0, 0⟩ ⟨0, 1, 0⟩ ⟨0, 0, 1⟩) = ⟨1 / 4, 1 / 4, 1 / 4⟩ := by decide +kernel
example : cellVol3 (tempCenter3 (tetCell ⟨0, 0, 0⟩ ⟨1, 0, 0⟩ ⟨0, 1, 0⟩ ⟨0, 0, 1⟩)) (tetCell ⟨0, 0, 0⟩ ⟨1, 0, 0⟩ ⟨0, 1, 0⟩ ⟨0, 0, 1⟩) = 1 / 6 := by
  decide +kernel

end PorepyVerif.C19
