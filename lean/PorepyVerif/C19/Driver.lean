/- C19 line-protocol driver: `lake env lean --run PorepyVerif/C19/Driver.lean` -/
import PorepyVerif.Common.Wire
import PorepyVerif.C19.Model
open Lean PV PorepyVerif.C19

def toP2 (l : List Rat) : R P2 :=
  match l with
  | [x, y] => pure ⟨x, y⟩
  | _ => throw "point needs 2 coordinates"

def toP3 (l : List Rat) : R P3 :=
  match l with
  | [x, y, z] => pure ⟨x, y, z⟩
  | _ => throw "point needs 3 coordinates"

def toSide (l : List Int) : R (Nat × Rat) :=
  match l with
  | [f, s] => if f < 0 then throw "negative face index" else pure (f.toNat, (s : Rat))
  | _ => throw "cell entry needs (face, sign)"

def ofP2 (p : P2) : Json := ofRats [p.x, p.y]
def ofP3 (p : P3) : Json := ofRats [p.x, p.y, p.z]
def ofOFace (f : OFace) : Json := ofRats [f.a.x, f.a.y, f.b.x, f.b.y, f.s]

def cellsOf (j : Json) : R (List (List (Nat × Rat))) := do
  let raw ← field j "cells" >>= jList (jList (jList jInt))
  raw.mapM (fun c => c.mapM toSide)

def run (j : Json) : R Json := do
  let op ← fStr j "op"
  match op with
  | "geom2" =>
    let nodes ← (← fRatss j "nodes").mapM toP2
    let faces ← (← fNatss j "faces").mapM (fun l => match l with
      | [s, e] => pure (s, e)
      | _ => throw "face needs 2 nodes")
    let cells ← cellsOf j
    let ml ← fRat j "mean_len"
    let o := geom2 ⟨nodes, faces, cells⟩ ml
    pure (obj [("oriented", Json.bool o.oriented), ("face_len2", ofRats o.faceLen2),
               ("face_centers", ofList ofP2 o.faceCenters), ("face_normals", ofList ofP2 o.faceNormals),
               ("cell_volumes", ofRats o.cellVolumes), ("cell_centers", ofList (ofOpt ofP2) o.cellCenters)])
  | "geom2e" =>
    -- planar model followed by the rigid motion x ↦ sc · (R x + b) of the outputs
    let nodes ← (← fRatss j "nodes").mapM toP2
    let faces ← (← fNatss j "faces").mapM (fun l => match l with
      | [s, e] => pure (s, e)
      | _ => throw "face needs 2 nodes")
    let cells ← cellsOf j
    let ml ← fRat j "mean_len"
    let rows ← (← fRatss j "m").mapM toP3
    let b ← toP3 (← fRats j "b")
    let sc ← fRat j "sc"
    match rows with
    | [r1, r2, r3] =>
      let R : M3 := ⟨r1, r2, r3⟩
      let o := geom2 ⟨nodes, faces, cells⟩ ml
      let pos := fun (q : P2) => ofP3 (P3.smul sc (embedP R b q))
      pure (obj [("oriented", Json.bool o.oriented), ("face_len2", ofRats (o.faceLen2.map (· * sc * sc))),
                 ("face_centers", ofList pos o.faceCenters),
                 ("face_normals", ofList (fun n => ofP3 (P3.smul sc (embedV R n))) o.faceNormals),
                 ("cell_volumes", ofRats (o.cellVolumes.map (· * sc * sc))),
                 ("cell_centers", ofList (ofOpt pos) o.cellCenters)])
    | _ => throw "m needs 3 rows"
  | "tensor2" =>
    let xs ← fRats j "xs"
    let ys ← fRats j "ys"
    pure (obj [("cells", ofList (ofList ofOFace) (tensorCells xs ys)),
               ("volume_sum", ofRat (tensorVolumeSum xs ys))])
  | "tensor3" =>
    let xs ← fRats j "xs"
    let ys ← fRats j "ys"
    let zs ← fRats j "zs"
    pure (obj [("cells", ofList (ofList (fun f : List P3 × Rat => obj [("nodes", ofList ofP3 f.1), ("sign", ofRat f.2)]))
                  (tensorCells3 xs ys zs)),
               ("volume_sum", ofRat (tensorVolumeSum3 xs ys zs))])
  | "geom1" =>
    let nodes ← (← fRatss j "nodes").mapM toP3
    let faces ← fNats j "faces"
    let cells ← (← fIntss j "cells").mapM (fun l => match l with
      | [f1, s1, f2, s2] => pure ((f1.toNat, (s1 : Rat)), (f2.toNat, (s2 : Rat)))
      | _ => throw "1-D cell needs (f1, s1, f2, s2)")
    let o := geom1 ⟨nodes, faces, cells⟩
    pure (obj [("dir", ofP3 o.dir), ("face_centers", ofList ofP3 o.faceCenters), ("face_flip", ofRats o.faceFlip),
               ("cell_len2", ofRats o.cellLen2), ("cell_centers", ofList ofP3 o.cellCenters)])
  | "geom3" =>
    let nodes ← (← fRatss j "nodes").mapM toP3
    let faces ← fNatss j "faces"
    let cells ← cellsOf j
    let g3 : Grid3 := ⟨nodes, faces, cells⟩
    let o := geom3 g3
    pure (obj [("face_normals", ofList ofP3 o.faceNormals), ("face_area2", ofRats o.faceArea2),
               ("face_centers", ofList ofP3 o.faceCenters), ("cell_volumes", ofRats o.cellVolumes),
               ("cell_centers", ofList ofP3 o.cellCenters), ("min_tet", ofRat o.minTet),
               ("hyp_ok", ofList Json.bool (g3.cells.map (fun c => cellHypB (g3.cell c))))])
  | _ => throw s!"unknown op {op}"

def main : IO Unit := runPure run
