/-
C19 — helper lemmas: list sums, telescoping over loops, the polynomial identities behind the
discrete divergence theorem (2-D), incidence bookkeeping of the orientation check, 3-D vector algebra.
-/
import PorepyVerif.C19.Model
import Mathlib.Tactic.Ring
import Mathlib.Tactic.Linarith
import Mathlib.Tactic.LinearCombination
import Mathlib.Tactic.FieldSimp
import Mathlib.Tactic.Positivity
import Mathlib.Algebra.Order.Field.Rat

namespace PorepyVerif.C19

/-! ### `sumf` -/

@[simp] theorem sumf_nil {α : Type} (g : α → Rat) : sumf g [] = 0 := rfl
@[simp] theorem sumf_cons {α : Type} (g : α → Rat) (a : α) (l : List α) :
    sumf g (a :: l) = g a + sumf g l := rfl

theorem sumf_append {α : Type} (g : α → Rat) (l₁ l₂ : List α) :
    sumf g (l₁ ++ l₂) = sumf g l₁ + sumf g l₂ := by
  induction l₁ with
  | nil => simp
  | cons a l ih => simp [ih, add_assoc]

theorem sumf_map {α β : Type} (g : β → Rat) (F : α → β) (l : List α) :
    sumf g (l.map F) = sumf (fun a => g (F a)) l := by
  induction l with
  | nil => rfl
  | cons a l ih => simp [ih]

theorem sumf_flatMap {α β : Type} (g : β → Rat) (F : α → List β) (l : List α) :
    sumf g (l.flatMap F) = sumf (fun a => sumf g (F a)) l := by
  induction l with
  | nil => rfl
  | cons a l ih => simp [List.flatMap_cons, sumf_append, ih]

theorem sumf_congr {α : Type} {g h : α → Rat} {l : List α} (H : ∀ a ∈ l, g a = h a) :
    sumf g l = sumf h l := by
  induction l with
  | nil => rfl
  | cons a l ih =>
    simp only [sumf_cons]
    rw [H a (List.mem_cons_self), ih (fun b hb => H b (List.mem_cons_of_mem _ hb))]

theorem sumf_mul_left {α : Type} (k : Rat) (g : α → Rat) (l : List α) :
    sumf (fun a => k * g a) l = k * sumf g l := by
  induction l with
  | nil => simp
  | cons a l ih => simp [ih, mul_add]

theorem sumf_mul_right {α : Type} (k : Rat) (g : α → Rat) (l : List α) :
    sumf (fun a => g a * k) l = sumf g l * k := by
  induction l with
  | nil => simp
  | cons a l ih => simp [ih, add_mul]

theorem sumf_add {α : Type} (g h : α → Rat) (l : List α) :
    sumf (fun a => g a + h a) l = sumf g l + sumf h l := by
  induction l with
  | nil => simp
  | cons a l ih => simp only [sumf_cons, ih]; ring

theorem sumf_sub {α : Type} (g h : α → Rat) (l : List α) :
    sumf (fun a => g a - h a) l = sumf g l - sumf h l := by
  induction l with
  | nil => simp
  | cons a l ih => simp only [sumf_cons, ih]; ring

theorem sumf_zero {α : Type} (l : List α) : sumf (fun _ => (0 : Rat)) l = 0 := by
  induction l with
  | nil => rfl
  | cons a l ih => simp [ih]

theorem sumf_nonneg {α : Type} {g : α → Rat} {l : List α} (H : ∀ a ∈ l, 0 ≤ g a) : 0 ≤ sumf g l := by
  induction l with
  | nil => simp
  | cons a l ih =>
    simp only [sumf_cons]
    have := H a (List.mem_cons_self)
    have := ih (fun b hb => H b (List.mem_cons_of_mem _ hb))
    linarith

theorem sumf_pos_of_exists {α : Type} {g : α → Rat} {l : List α} (H : ∀ a ∈ l, 0 ≤ g a)
    (hex : ∃ a ∈ l, 0 < g a) : 0 < sumf g l := by
  induction l with
  | nil => obtain ⟨a, ha, _⟩ := hex; cases ha
  | cons a l ih =>
    simp only [sumf_cons]
    have h0 := H a (List.mem_cons_self)
    have hl : 0 ≤ sumf g l := sumf_nonneg (fun b hb => H b (List.mem_cons_of_mem _ hb))
    obtain ⟨b, hb, hpos⟩ := hex
    rcases List.mem_cons.mp hb with rfl | hb'
    · linarith
    · have := ih (fun b hb => H b (List.mem_cons_of_mem _ hb)) ⟨b, hb', hpos⟩
      linarith

theorem sumf_pos {α : Type} {g : α → Rat} {l : List α} (hne : l ≠ []) (H : ∀ a ∈ l, 0 < g a) :
    0 < sumf g l := by
  cases l with
  | nil => exact absurd rfl hne
  | cons a l =>
    exact sumf_pos_of_exists (fun b hb => le_of_lt (H b hb)) ⟨a, List.mem_cons_self, H a List.mem_cons_self⟩

theorem sumf_perm {α : Type} (g : α → Rat) {l₁ l₂ : List α} (h : l₁.Perm l₂) : sumf g l₁ = sumf g l₂ := by
  induction h with
  | nil => rfl
  | cons a _ ih => simp [ih]
  | swap a b l => simp only [sumf_cons]; ring
  | trans _ _ ih₁ ih₂ => exact ih₁.trans ih₂

theorem absR_nonneg (q : Rat) : 0 ≤ absR q := by
  unfold absR
  split <;> linarith

theorem absR_of_nonneg {q : Rat} (h : 0 ≤ q) : absR q = q := by
  unfold absR
  split
  · linarith
  · rfl

/-! ### 2-D: loops -/

theorem loopSum_path (g : P2 → Rat) (l : List P2) (a z : P2) :
    loopSum g ((pathEdges a l z).map (fun e => (⟨e.1, e.2, 1⟩ : OFace))) = g z - g a := by
  induction l generalizing a with
  | nil => simp [pathEdges, loopSum]
  | cons b l ih =>
    have := ih b
    simp only [loopSum, pathEdges, List.map_cons, sumf_cons] at this ⊢
    rw [this]; ring

/-! ### 2-D: the polynomial identities (valid for every list of faces, closed or not) -/

theorem closed_aux_x (p : Rat) (fs : List OFace) :
    sumf (fun f => f.s * f.nx p) fs = p * loopSum (·.y) fs := by
  induction fs with
  | nil => simp [loopSum]
  | cons f l ih =>
    simp only [loopSum, sumf_cons, OFace.nx, OFace.ty] at ih ⊢
    linear_combination ih

theorem closed_aux_y (p : Rat) (fs : List OFace) :
    sumf (fun f => f.s * f.ny p) fs = -(p * loopSum (·.x) fs) := by
  induction fs with
  | nil => simp [loopSum]
  | cons f l ih =>
    simp only [loopSum, sumf_cons, OFace.ny, OFace.tx] at ih ⊢
    linear_combination ih

theorem area_aux (p : Rat) (c o : P2) (fs : List OFace) :
    sumf (fun f => f.s * ((f.mx - o.x) * f.nx p + (f.my - o.y) * f.ny p)) fs - 2 * cellArea p c fs
      = p * ((c.x - o.x) * loopSum (·.y) fs - (c.y - o.y) * loopSum (·.x) fs) := by
  induction fs with
  | nil => simp [cellArea, cellAreaW, loopSum]
  | cons f l ih =>
    simp only [cellArea, cellAreaW, loopSum, sumf_cons, wOriented, OFace.subZ, OFace.nx, OFace.ny,
      OFace.mx, OFace.my, OFace.tx, OFace.ty] at ih ⊢
    linear_combination ih

theorem centroid_aux_x (p : Rat) (c o : P2) (fs : List OFace) :
    sumf (fun f => f.s * ((f.mx - o.x) * f.nx p + (f.my - o.y) * f.ny p) * (f.mx - o.x)) fs
        - 3 * (cellMomX p c fs - cellArea p c fs * o.x)
      = p * ((1 / 2) * (c.x - o.x) * loopSum (fun P => (P.x - o.x) * (P.y - o.y)) fs
            + (1 / 2) * (c.x - o.x) * (c.x - o.x) * loopSum (·.y) fs
            - (1 / 2) * (c.x - o.x) * (c.y - o.y) * loopSum (·.x) fs
            - (1 / 2) * (c.y - o.y) * loopSum (fun P => (P.x - o.x) * (P.x - o.x)) fs) := by
  induction fs with
  | nil => simp [cellArea, cellMomX, cellMomXW, cellAreaW, loopSum]
  | cons f l ih =>
    simp only [cellArea, cellMomX, cellMomXW, cellAreaW, loopSum, sumf_cons, wOriented, OFace.subZ,
      OFace.nx, OFace.ny, OFace.mx, OFace.my, OFace.tx, OFace.ty] at ih ⊢
    linear_combination ih

theorem centroid_aux_y (p : Rat) (c o : P2) (fs : List OFace) :
    sumf (fun f => f.s * ((f.mx - o.x) * f.nx p + (f.my - o.y) * f.ny p) * (f.my - o.y)) fs
        - 3 * (cellMomY p c fs - cellArea p c fs * o.y)
      = p * (-(1 / 2) * (c.y - o.y) * loopSum (fun P => (P.x - o.x) * (P.y - o.y)) fs
            + (1 / 2) * (c.x - o.x) * (c.y - o.y) * loopSum (·.y) fs
            - (1 / 2) * (c.y - o.y) * (c.y - o.y) * loopSum (·.x) fs
            + (1 / 2) * (c.x - o.x) * loopSum (fun P => (P.y - o.y) * (P.y - o.y)) fs) := by
  induction fs with
  | nil => simp [cellArea, cellMomY, cellMomYW, cellAreaW, loopSum]
  | cons f l ih =>
    simp only [cellArea, cellMomY, cellMomYW, cellAreaW, loopSum, sumf_cons, wOriented, OFace.subZ,
      OFace.nx, OFace.ny, OFace.mx, OFace.my, OFace.tx, OFace.ty] at ih ⊢
    linear_combination ih

/-! ### 2-D: orientation check (1/3) ⇒ closed loops -/

def sumBelow : Nat → (Nat → Rat) → Rat
  | 0, _ => 0
  | n + 1, F => sumBelow n F + F n

theorem sumBelow_zero {n : Nat} {F : Nat → Rat} (H : ∀ k, k < n → F k = 0) : sumBelow n F = 0 := by
  induction n with
  | zero => rfl
  | succ n ih =>
    simp only [sumBelow]
    rw [ih (fun k hk => H k (Nat.lt_succ_of_lt hk)), H n (Nat.lt_succ_self n)]; ring

theorem sumBelow_add (n : Nat) (F G : Nat → Rat) :
    sumBelow n (fun k => F k + G k) = sumBelow n F + sumBelow n G := by
  induction n with
  | zero => simp [sumBelow]
  | succ n ih => simp only [sumBelow, ih]; ring

theorem sumBelow_mul_left (n : Nat) (c : Rat) (F : Nat → Rat) :
    sumBelow n (fun k => c * F k) = c * sumBelow n F := by
  induction n with
  | zero => simp [sumBelow]
  | succ n ih => simp only [sumBelow, ih]; ring

theorem sumBelow_indicator (n : Nat) (h : Nat → Rat) (e : Nat) :
    sumBelow n (fun k => h k * (if e = k then 1 else 0)) = if e < n then h e else 0 := by
  induction n with
  | zero => simp [sumBelow]
  | succ n ih =>
    simp only [sumBelow, ih]
    by_cases h1 : e < n
    · have h2 : e ≠ n := Nat.ne_of_lt h1
      have h3 : e < n + 1 := Nat.lt_succ_of_lt h1
      simp [h1, h2, h3]
    · by_cases h2 : e = n
      · subst h2; simp
      · have h3 : ¬ e < n + 1 := by omega
        simp [h1, h2, h3]

theorem allBelow_spec {n : Nat} {P : Nat → Bool} (H : allBelow n P = true) : ∀ k, k < n → P k = true := by
  induction n with
  | zero => intro k hk; cases hk
  | succ n ih =>
    intro k hk
    simp only [allBelow, Bool.and_eq_true] at H
    rcases Nat.lt_succ_iff_lt_or_eq.mp hk with h | h
    · exact ih H.1 k h
    · subst h; exact H.2

theorem incidence_sum (n : Nat) (h : Nat → Rat) (fs : List IFace)
    (hb : ∀ f ∈ fs, f.1 < n ∧ f.2.1 < n) :
    sumf (fun f => f.2.2 * (h f.2.1 - h f.1)) fs = sumBelow n (fun k => h k * inc fs k) := by
  induction fs with
  | nil =>
    simp only [sumf_nil, inc]
    exact (sumBelow_zero (fun k _ => by ring)).symm
  | cons f l ih =>
    have hf := hb f List.mem_cons_self
    have e1 : sumBelow n (fun k => h k * inc (f :: l) k)
        = f.2.2 * (sumBelow n (fun k => h k * (if f.2.1 = k then 1 else 0))
                   - sumBelow n (fun k => h k * (if f.1 = k then 1 else 0)))
          + sumBelow n (fun k => h k * inc l k) := by
      have : (fun k => h k * inc (f :: l) k)
          = (fun k => (f.2.2 * (h k * (if f.2.1 = k then 1 else 0)) + (-f.2.2) * (h k * (if f.1 = k then 1 else 0)))
                + h k * inc l k) := by
        funext k; simp only [inc, sumf_cons]; ring
      rw [this, sumBelow_add, sumBelow_add, sumBelow_mul_left, sumBelow_mul_left]; ring
    rw [e1, sumBelow_indicator, sumBelow_indicator, if_pos hf.2, if_pos hf.1, sumf_cons,
      ih (fun g hg => hb g (List.mem_cons_of_mem _ hg))]

/-! ### 2-D: convexity -/

theorem subZ_eq_leftOf (f : OFace) (c : P2) (hs : f.s = 1) : 2 * f.subZ c = leftOf f c := by
  simp only [OFace.subZ, leftOf, OFace.mx, OFace.my, OFace.tx, OFace.ty, hs]; ring

theorem leftOf_sum (f : OFace) (fs : List OFace) :
    sumf (fun g => (leftOf f g.a + leftOf f g.b) / 2) fs
      = f.tx * (sumf OFace.my fs - (fs.length : Rat) * f.a.y) - f.ty * (sumf OFace.mx fs - (fs.length : Rat) * f.a.x) := by
  induction fs with
  | nil => simp
  | cons g l ih =>
    simp only [sumf_cons, List.length_cons, Nat.cast_succ, leftOf, OFace.mx, OFace.my] at ih ⊢
    linear_combination ih

theorem leftOf_tempCenter (f : OFace) (fs : List OFace) (hne : fs ≠ []) :
    (fs.length : Rat) * leftOf f (tempCenter fs) = sumf (fun g => (leftOf f g.a + leftOf f g.b) / 2) fs := by
  have hn : (fs.length : Rat) ≠ 0 := by
    have : fs.length ≠ 0 := fun h => hne (List.length_eq_zero_iff.mp h)
    exact_mod_cast this
  rw [leftOf_sum]
  simp only [leftOf, tempCenter]
  field_simp

/-! ### pairs / telescoping -/

theorem sum_pairs_diff (a : Rat) (l : List Rat) :
    sumf (fun x => x.2 - x.1) (pairs (a :: l)) = lastD l a - a := by
  induction l generalizing a with
  | nil => simp [pairs, lastD]
  | cons b l ih =>
    simp only [pairs, sumf_cons, lastD]
    rw [ih b]; ring

/-! ### 3-D vector algebra -/

@[ext] theorem P3.ext' {u v : P3} (hx : u.x = v.x) (hy : u.y = v.y) (hz : u.z = v.z) : u = v := by
  cases u; cases v; simp_all

@[simp] theorem P3.add_x (u v : P3) : (u.add v).x = u.x + v.x := rfl
@[simp] theorem P3.add_y (u v : P3) : (u.add v).y = u.y + v.y := rfl
@[simp] theorem P3.add_z (u v : P3) : (u.add v).z = u.z + v.z := rfl
@[simp] theorem P3.sub_x (u v : P3) : (u.sub v).x = u.x - v.x := rfl
@[simp] theorem P3.sub_y (u v : P3) : (u.sub v).y = u.y - v.y := rfl
@[simp] theorem P3.sub_z (u v : P3) : (u.sub v).z = u.z - v.z := rfl
@[simp] theorem P3.smul_x (k : Rat) (v : P3) : (P3.smul k v).x = k * v.x := rfl
@[simp] theorem P3.smul_y (k : Rat) (v : P3) : (P3.smul k v).y = k * v.y := rfl
@[simp] theorem P3.smul_z (k : Rat) (v : P3) : (P3.smul k v).z = k * v.z := rfl
@[simp] theorem P3.zero_x : P3.zero.x = 0 := rfl
@[simp] theorem P3.zero_y : P3.zero.y = 0 := rfl
@[simp] theorem P3.zero_z : P3.zero.z = 0 := rfl
@[simp] theorem P3.cross_x (u v : P3) : (u.cross v).x = u.y * v.z - u.z * v.y := rfl
@[simp] theorem P3.cross_y (u v : P3) : (u.cross v).y = u.z * v.x - u.x * v.z := rfl
@[simp] theorem P3.cross_z (u v : P3) : (u.cross v).z = u.x * v.y - u.y * v.x := rfl

@[simp] theorem sum3_nil {α : Type} (g : α → P3) : sum3 g [] = P3.zero := rfl
@[simp] theorem sum3_cons {α : Type} (g : α → P3) (a : α) (l : List α) :
    sum3 g (a :: l) = (g a).add (sum3 g l) := rfl

theorem sum3_x {α : Type} (g : α → P3) (l : List α) : (sum3 g l).x = sumf (fun a => (g a).x) l := by
  induction l with
  | nil => rfl
  | cons a l ih => simp [ih]
theorem sum3_y {α : Type} (g : α → P3) (l : List α) : (sum3 g l).y = sumf (fun a => (g a).y) l := by
  induction l with
  | nil => rfl
  | cons a l ih => simp [ih]
theorem sum3_z {α : Type} (g : α → P3) (l : List α) : (sum3 g l).z = sumf (fun a => (g a).z) l := by
  induction l with
  | nil => rfl
  | cons a l ih => simp [ih]

theorem dot_sum3 {α : Type} (g : α → P3) (N : P3) (l : List α) :
    (sum3 g l).dot N = sumf (fun a => (g a).dot N) l := by
  induction l with
  | nil => simp [P3.dot]
  | cons a l ih =>
    simp only [sum3_cons, sumf_cons, ← ih]
    simp only [P3.dot, P3.add_x, P3.add_y, P3.add_z]; ring

/-- telescoping of the sub-normals along an open path of edges -/
theorem subN_path (c : P3) (l : List P3) (a z : P3) :
    sum3 (subN c) (pathEdges a l z)
      = P3.smul (1 / 2) (((z.sub a).cross c).add (sum3 (fun e => e.1.cross e.2) (pathEdges a l z))) := by
  induction l generalizing a with
  | nil =>
    ext <;> simp [pathEdges, subN] <;> ring
  | cons b l ih =>
    have h := ih b
    have hx := congrArg P3.x h
    have hy := congrArg P3.y h
    have hz := congrArg P3.z h
    simp only [P3.smul_x, P3.smul_y, P3.smul_z, P3.add_x, P3.add_y, P3.add_z, P3.cross_x, P3.cross_y, P3.cross_z,
      P3.sub_x, P3.sub_y, P3.sub_z] at hx hy hz
    ext
    · simp only [pathEdges, sum3_cons, subN, P3.smul_x, P3.add_x, P3.cross_x, P3.sub_y, P3.sub_z]
      linear_combination hx
    · simp only [pathEdges, sum3_cons, subN, P3.smul_y, P3.add_y, P3.cross_y, P3.sub_x, P3.sub_z]
      linear_combination hy
    · simp only [pathEdges, sum3_cons, subN, P3.smul_z, P3.add_z, P3.cross_z, P3.sub_x, P3.sub_y]
      linear_combination hz

/-! ### 3-D: closed surfaces -/

theorem faceN_eq (vs : List P3) :
    faceN vs = P3.smul (1 / 2) (sum3 (fun e => e.1.cross e.2) (cycEdges vs)) := by
  unfold faceN
  cases vs with
  | nil => ext <;> simp [cycEdges]
  | cons a l =>
    have := subN_path (mean3 (a :: l)) l a a
    simp only [cycEdges]
    rw [this]
    ext <;> simp

theorem cross_antisymm_x (a b : P3) : (a.cross b).x = -(b.cross a).x := by simp; ring
theorem cross_antisymm_y (a b : P3) : (a.cross b).y = -(b.cross a).y := by simp; ring
theorem cross_antisymm_z (a b : P3) : (a.cross b).z = -(b.cross a).z := by simp; ring

theorem closed_cell_3d_aux (cell : Cell3) (h : EdgePaired cell) :
    sum3 (fun f => P3.smul f.2 (faceN f.1)) cell = P3.zero := by
  have hx := h (fun a b => (a.cross b).x) cross_antisymm_x
  have hy := h (fun a b => (a.cross b).y) cross_antisymm_y
  have hz := h (fun a b => (a.cross b).z) cross_antisymm_z
  unfold dirEdgeSum at hx hy hz
  ext
  · rw [sum3_x, P3.zero_x, ← mul_zero (1 / 2 : Rat), ← hx, ← sumf_mul_left]
    apply sumf_congr; intro f _
    rw [P3.smul_x, faceN_eq, P3.smul_x, sum3_x]; ring
  · rw [sum3_y, P3.zero_y, ← mul_zero (1 / 2 : Rat), ← hy, ← sumf_mul_left]
    apply sumf_congr; intro f _
    rw [P3.smul_y, faceN_eq, P3.smul_y, sum3_y]; ring
  · rw [sum3_z, P3.zero_z, ← mul_zero (1 / 2 : Rat), ← hz, ← sumf_mul_left]
    apply sumf_congr; intro f _
    rw [P3.smul_z, faceN_eq, P3.smul_z, sum3_z]; ring

theorem dirEdgeSum_eq (G : P3 → P3 → Rat) (hG : ∀ a b, G a b = -G b a) (cell : Cell3)
    (hs : ∀ f ∈ cell, f.2 = 1 ∨ f.2 = -1) :
    dirEdgeSum G cell = sumf (fun e => G e.1 e.2) (dirEdges cell) := by
  unfold dirEdgeSum dirEdges
  rw [sumf_flatMap]
  apply sumf_congr
  intro f hf
  rcases hs f hf with h | h
  · rw [h, if_pos rfl]; ring
  · have hne : ¬ ((-1 : Rat) = 1) := by norm_num
    rw [h, if_neg hne, sumf_map]
    have : (fun a : P3 × P3 => G (Prod.swap a).1 (Prod.swap a).2) = fun a => -1 * G a.1 a.2 := by
      funext a; simp only [Prod.swap]; rw [hG a.2 a.1]; ring
    rw [this, sumf_mul_left]

theorem paired_of_perm_aux (cell : Cell3) (hs : ∀ f ∈ cell, f.2 = 1 ∨ f.2 = -1)
    (hperm : (dirEdges cell).Perm ((dirEdges cell).map Prod.swap)) : EdgePaired cell := by
  intro G hG
  rw [dirEdgeSum_eq G hG cell hs]
  have h1 := sumf_perm (fun e : P3 × P3 => G e.1 e.2) hperm
  rw [sumf_map] at h1
  have : (fun a : P3 × P3 => G (Prod.swap a).1 (Prod.swap a).2) = fun a => -1 * G a.1 a.2 := by
    funext a; simp only [Prod.swap]; rw [hG a.2 a.1]; ring
  rw [this, sumf_mul_left] at h1
  linarith

theorem tet_paired (p0 p1 p2 p3 : P3) : EdgePaired (tetCell p0 p1 p2 p3) := by
  intro G hG
  simp only [dirEdgeSum, tetCell, cycEdges, pathEdges, sumf_cons, sumf_nil]
  have h1 := hG p0 p2
  have h2 := hG p2 p1
  have h3 := hG p1 p0
  have h4 := hG p1 p3
  have h5 := hG p3 p0
  have h6 := hG p2 p3
  linarith

/-! ### 3-D: volume identity -/

theorem P3.dot_comm (u v : P3) : u.dot v = v.dot u := by simp only [P3.dot]; ring
theorem P3.dot_smul_left (k : Rat) (u v : P3) : (P3.smul k u).dot v = k * u.dot v := by
  simp only [P3.dot, P3.smul_x, P3.smul_y, P3.smul_z]; ring
theorem P3.dot_smul_right (k : Rat) (u v : P3) : u.dot (P3.smul k v) = k * u.dot v := by
  simp only [P3.dot, P3.smul_x, P3.smul_y, P3.smul_z]; ring
theorem P3.dot_sub_left (u v w : P3) : (u.sub v).dot w = u.dot w - v.dot w := by
  simp only [P3.dot, P3.sub_x, P3.sub_y, P3.sub_z]; ring

theorem sum3_dot {α : Type} (g : α → P3) (N : P3) (l : List α) :
    N.dot (sum3 g l) = sumf (fun a => N.dot (g a)) l := by
  rw [P3.dot_comm, dot_sum3]
  apply sumf_congr; intro a _; exact P3.dot_comm _ _

theorem tets_sum {α : Type} (A B : α → P3) (tc : P3) (σ : Rat) (l : List α) :
    sumf (fun e => ((A e).sub tc).dot (P3.smul σ (B e)) / 3) l
      = σ / 3 * (sumf (fun e => (A e).dot (B e)) l - tc.dot (sum3 B l)) := by
  induction l with
  | nil => simp [P3.dot]
  | cons a l ih =>
    simp only [sumf_cons, sum3_cons, P3.dot, P3.sub_x, P3.sub_y, P3.sub_z, P3.smul_x, P3.smul_y, P3.smul_z,
      P3.add_x, P3.add_y, P3.add_z] at ih ⊢
    linear_combination ih

section face
variable (vs : List P3) (σ : Rat)
variable (hN : (faceN vs).dot (faceN vs) ≠ 0)
variable (hpl : ∀ e ∈ cycEdges vs, 0 ≤ (subN (mean3 vs) e).dot (faceN vs) ∧
    P3.smul ((faceN vs).dot (faceN vs)) (subN (mean3 vs) e) = P3.smul ((subN (mean3 vs) e).dot (faceN vs)) (faceN vs))

include hN hpl in
theorem outerN_eq (e : P3 × P3) (he : e ∈ cycEdges vs) :
    outerN (vs, σ) e = P3.smul σ (subN (mean3 vs) e) := by
  obtain ⟨hd, hpar⟩ := hpl e he
  unfold outerN
  by_cases hpos : 0 < (subN (mean3 vs) e).dot (faceN vs)
  · have : sgnR ((subN (mean3 vs) e).dot (faceN vs)) = 1 := by
      unfold sgnR; rw [if_neg (by linarith), if_pos hpos]
    show P3.smul (σ * sgnR ((subN (mean3 vs) e).dot (faceN vs))) (subN (mean3 vs) e) = _
    rw [this, mul_one]
  · have h0 : (subN (mean3 vs) e).dot (faceN vs) = 0 := by linarith
    rw [h0] at hpar
    have hx := congrArg P3.x hpar
    have hy := congrArg P3.y hpar
    have hz := congrArg P3.z hpar
    simp only [P3.smul_x, P3.smul_y, P3.smul_z, zero_mul] at hx hy hz
    have zx : (subN (mean3 vs) e).x = 0 := (mul_eq_zero.mp hx).resolve_left hN
    have zy : (subN (mean3 vs) e).y = 0 := (mul_eq_zero.mp hy).resolve_left hN
    have zz : (subN (mean3 vs) e).z = 0 := (mul_eq_zero.mp hz).resolve_left hN
    ext <;> simp [zx, zy, zz]

include hN hpl in
theorem faceVol_eq (tc : P3) :
    faceVol tc (vs, σ) = σ / 3 * (sumf (fun e => (subC (mean3 vs) e).dot (subN (mean3 vs) e)) (cycEdges vs)
      - tc.dot (faceN vs)) := by
  unfold faceVol
  have : sumf (tetVol tc (vs, σ)) (cycEdges vs)
      = sumf (fun e => ((subC (mean3 vs) e).sub tc).dot (P3.smul σ (subN (mean3 vs) e)) / 3) (cycEdges vs) := by
    apply sumf_congr
    intro e he
    unfold tetVol
    rw [outerN_eq vs σ hN hpl e he]
  show sumf (tetVol tc (vs, σ)) (cycEdges vs) = _
  rw [this, tets_sum]
  rfl

include hpl in
theorem faceWSum_eq : faceWSum vs = (faceN vs).dot (faceN vs) := by
  unfold faceWSum
  have : sumf (faceW vs) (cycEdges vs) = sumf (fun e => (subN (mean3 vs) e).dot (faceN vs)) (cycEdges vs) := by
    apply sumf_congr
    intro e he
    unfold faceW
    exact absR_of_nonneg (hpl e he).1
  rw [this, ← dot_sum3]
  rfl

include hN hpl in
theorem faceCtr_dot : (faceCtr vs).dot (faceN vs)
    = sumf (fun e => (subC (mean3 vs) e).dot (subN (mean3 vs) e)) (cycEdges vs) := by
  unfold faceCtr
  rw [P3.dot_smul_left, dot_sum3, faceWSum_eq vs hpl]
  have : sumf (fun e => (P3.smul (faceW vs e) (subC (mean3 vs) e)).dot (faceN vs)) (cycEdges vs)
      = sumf (fun e => (faceN vs).dot (faceN vs) * (subC (mean3 vs) e).dot (subN (mean3 vs) e)) (cycEdges vs) := by
    apply sumf_congr
    intro e he
    obtain ⟨hd, hpar⟩ := hpl e he
    have hw : faceW vs e = (subN (mean3 vs) e).dot (faceN vs) := absR_of_nonneg hd
    rw [P3.dot_smul_left, hw]
    have hx := congrArg P3.x hpar
    have hy := congrArg P3.y hpar
    have hz := congrArg P3.z hpar
    simp only [P3.smul_x, P3.smul_y, P3.smul_z] at hx hy hz
    simp only [P3.dot] at hx hy hz ⊢
    linear_combination (-(subC (mean3 vs) e).x) * hx - (subC (mean3 vs) e).y * hy - (subC (mean3 vs) e).z * hz
  rw [this, sumf_mul_left]
  field_simp
end face

theorem volume_identity_3d_aux (cell : Cell3) (tc o : P3) (hp : EdgePaired cell) (hpl : PlanarStar cell) :
    sumf (fun f => f.2 * ((faceCtr f.1).sub o).dot (faceN f.1)) cell = 3 * cellVol3 tc cell := by
  have hclosed := closed_cell_3d_aux cell hp
  have hface : ∀ f ∈ cell, f.2 * ((faceCtr f.1).sub o).dot (faceN f.1)
      = 3 * faceVol tc f + (tc.sub o).dot (P3.smul f.2 (faceN f.1)) := by
    intro f hf
    obtain ⟨hN, hpe⟩ := hpl f hf
    have h1 := faceVol_eq f.1 f.2 hN hpe tc
    have h2 := faceCtr_dot f.1 hN hpe
    have : faceVol tc f = faceVol tc (f.1, f.2) := rfl
    rw [this, h1, P3.dot_sub_left, h2, P3.dot_smul_right, P3.dot_sub_left, P3.dot_comm o]
    ring
  rw [sumf_congr hface, sumf_add, sumf_mul_left, ← sum3_dot, hclosed]
  unfold cellVol3
  simp [P3.dot]

/-! ### 3-D: triangles are planar and star-shaped -/

theorem tri_planarStar (a b c : P3) (hnd : (faceN [a, b, c]).dot (faceN [a, b, c]) ≠ 0) :
    (faceN [a, b, c]).dot (faceN [a, b, c]) ≠ 0 ∧ ∀ e ∈ cycEdges [a, b, c],
      0 ≤ (subN (mean3 [a, b, c]) e).dot (faceN [a, b, c]) ∧
      P3.smul ((faceN [a, b, c]).dot (faceN [a, b, c])) (subN (mean3 [a, b, c]) e)
        = P3.smul ((subN (mean3 [a, b, c]) e).dot (faceN [a, b, c])) (faceN [a, b, c]) := by
  refine ⟨hnd, ?_⟩
  have key : ∀ e ∈ cycEdges [a, b, c], subN (mean3 [a, b, c]) e = P3.smul (1 / 3) (faceN [a, b, c]) := by
    intro e he
    simp only [cycEdges, pathEdges, List.mem_cons, List.not_mem_nil, or_false] at he
    rcases he with rfl | rfl | rfl <;>
    · ext <;> simp [faceN, subN, mean3, cycEdges, pathEdges] <;> ring
  intro e he
  rw [key e he]
  constructor
  · rw [P3.dot_smul_left]
    have : 0 ≤ (faceN [a, b, c]).dot (faceN [a, b, c]) := by
      simp only [P3.dot]; nlinarith [mul_self_nonneg (faceN [a, b, c]).x, mul_self_nonneg (faceN [a, b, c]).y, mul_self_nonneg (faceN [a, b, c]).z]
    linarith
  · rw [P3.dot_smul_left]
    ext <;> simp <;> ring

theorem tet_planarStar (p0 p1 p2 p3 : P3)
    (hnd : ∀ f ∈ tetCell p0 p1 p2 p3, (faceN f.1).dot (faceN f.1) ≠ 0) : PlanarStar (tetCell p0 p1 p2 p3) := by
  intro f hf
  have hn := hnd f hf
  simp only [tetCell, List.mem_cons, List.not_mem_nil, or_false] at hf
  rcases hf with rfl | rfl | rfl | rfl <;> exact tri_planarStar _ _ _ hn

/-! ### 3-D: tensor identity `Σ (w·n)(x·r) = V (w·r)` and the centroid identity -/

theorem P3.dot_add_left (u v w : P3) : (u.add v).dot w = u.dot w + v.dot w := by
  simp only [P3.dot, P3.add_x, P3.add_y, P3.add_z]; ring
theorem P3.dot_sub_right (u v w : P3) : u.dot (v.sub w) = u.dot v - u.dot w := by
  simp only [P3.dot, P3.sub_x, P3.sub_y, P3.sub_z]; ring

/-- contribution of the inner triangle (origin, v, u) of the fan of tetrahedra about the origin -/
def Hin (w r u v : P3) : Rat := w.dot (P3.smul (1 / 2) (v.cross u)) * (P3.smul (1 / 3) (u.add v)).dot r

theorem Hin_antisymm (w r u v : P3) : Hin w r u v = -Hin w r v u := by
  simp only [Hin, P3.dot, P3.smul_x, P3.smul_y, P3.smul_z, P3.cross_x, P3.cross_y, P3.cross_z, P3.add_x, P3.add_y, P3.add_z]
  ring

/-- the tensor identity on the tetrahedron (origin, a, b, m) -/
theorem tri_tensor (w r m a b : P3) :
    w.dot (subN m (a, b)) * (subC m (a, b)).dot r + Hin w r a b + Hin w r b m + Hin w r m a
      = 1 / 3 * (subC m (a, b)).dot (subN m (a, b)) * w.dot r := by
  simp only [Hin, subN, subC, P3.dot, P3.smul_x, P3.smul_y, P3.smul_z, P3.cross_x, P3.cross_y, P3.cross_z,
    P3.add_x, P3.add_y, P3.add_z, P3.sub_x, P3.sub_y, P3.sub_z]
  ring

theorem inner_cancel (H : P3 → P3 → Rat) (hH : ∀ a b, H a b = -H b a) (m : P3) (l : List P3) (a z : P3) :
    sumf (fun e => H e.2 m + H m e.1) (pathEdges a l z) = H z m + H m a := by
  induction l generalizing a with
  | nil => simp [pathEdges]
  | cons b l ih =>
    simp only [pathEdges, sumf_cons, ih b]
    have := hH b m
    linarith

theorem face_tensor (w r m : P3) (vs : List P3) :
    sumf (fun e => w.dot (subN m e) * (subC m e).dot r) (cycEdges vs)
      = 1 / 3 * w.dot r * sumf (fun e => (subC m e).dot (subN m e)) (cycEdges vs)
        - sumf (fun e => Hin w r e.1 e.2) (cycEdges vs) := by
  have hin : sumf (fun e : P3 × P3 => Hin w r e.2 m + Hin w r m e.1) (cycEdges vs) = 0 := by
    cases vs with
    | nil => rfl
    | cons a l =>
      simp only [cycEdges]
      rw [inner_cancel (Hin w r) (Hin_antisymm w r) m l a a]
      have := Hin_antisymm w r a m
      linarith
  have hpt : ∀ e ∈ cycEdges vs, w.dot (subN m e) * (subC m e).dot r
      = (1 / 3 * w.dot r) * (subC m e).dot (subN m e) - Hin w r e.1 e.2 - (Hin w r e.2 m + Hin w r m e.1) := by
    intro e _
    have := tri_tensor w r m e.1 e.2
    linarith
  rw [sumf_congr hpt, sumf_sub, sumf_sub, sumf_mul_left, hin]
  ring

/-- `Σ_e q_e · s_e` of a face (three times the volume of the cone over the face from the origin) -/
def faceQS (vs : List P3) : Rat := sumf (fun e => (subC (mean3 vs) e).dot (subN (mean3 vs) e)) (cycEdges vs)

theorem surface_tensor (w r : P3) (cell : Cell3) (hp : EdgePaired cell) :
    sumf (fun f => f.2 * sumf (fun e => w.dot (subN (mean3 f.1) e) * (subC (mean3 f.1) e).dot r) (cycEdges f.1)) cell
      = w.dot r * (1 / 3 * sumf (fun f => f.2 * faceQS f.1) cell) := by
  have h0 := hp (Hin w r) (Hin_antisymm w r)
  unfold dirEdgeSum at h0
  have : ∀ f ∈ cell, f.2 * sumf (fun e => w.dot (subN (mean3 f.1) e) * (subC (mean3 f.1) e).dot r) (cycEdges f.1)
      = (w.dot r * (1 / 3)) * (f.2 * faceQS f.1) - f.2 * sumf (fun e => Hin w r e.1 e.2) (cycEdges f.1) := by
    intro f _
    rw [face_tensor]; unfold faceQS; ring
  rw [sumf_congr this, sumf_sub, sumf_mul_left, h0]
  ring


/-! ### 3-D: centroid identity -/

theorem mem_pathEdges {a z : P3} {l : List P3} {e : P3 × P3} (h : e ∈ pathEdges a l z) :
    (e.1 = a ∨ e.1 ∈ l) ∧ (e.2 ∈ l ∨ e.2 = z) := by
  induction l generalizing a with
  | nil =>
    simp only [pathEdges, List.mem_singleton] at h
    subst h; simp
  | cons b l ih =>
    simp only [pathEdges, List.mem_cons] at h
    rcases h with rfl | h
    · simp
    · have := ih h
      rcases this with ⟨h1, h2⟩
      constructor
      · right; rcases h1 with h1 | h1
        · rw [h1]; exact List.mem_cons_self
        · exact List.mem_cons_of_mem _ h1
      · rcases h2 with h2 | h2
        · left; exact List.mem_cons_of_mem _ h2
        · right; exact h2

theorem mem_cycEdges {vs : List P3} {e : P3 × P3} (h : e ∈ cycEdges vs) : e.1 ∈ vs ∧ e.2 ∈ vs := by
  cases vs with
  | nil => cases h
  | cons a l =>
    have := mem_pathEdges h
    rcases this with ⟨h1, h2⟩
    constructor
    · rcases h1 with h1 | h1
      · rw [h1]; exact List.mem_cons_self
      · exact List.mem_cons_of_mem _ h1
    · rcases h2 with h2 | h2
      · exact List.mem_cons_of_mem _ h2
      · rw [h2]; exact List.mem_cons_self

/-- per-edge algebra of the centroid identity, summed over any list -/
theorem centroid_split {α : Type} (q s : α → P3) (tc o r : P3) (σ : Rat) (l : List α) :
    σ * sumf (fun e => ((q e).sub o).dot (s e) * ((q e).sub o).dot r) l
      - sumf (fun e => (((q e).sub tc).dot (P3.smul σ (s e)) / 3)
            * (4 * (tc.sub o).dot r + 3 * ((q e).sub tc).dot r)) l
    = σ * sumf (fun e => (tc.sub o).dot (s e) * (q e).dot r) l
      - o.dot r * (σ * (tc.sub o).dot (sum3 s l))
      - (tc.sub o).dot r * sumf (fun e => ((q e).sub tc).dot (P3.smul σ (s e)) / 3) l := by
  induction l with
  | nil => simp [P3.dot]
  | cons a l ih =>
    simp only [sumf_cons, sum3_cons, P3.dot, P3.sub_x, P3.sub_y, P3.sub_z, P3.smul_x, P3.smul_y, P3.smul_z,
      P3.add_x, P3.add_y, P3.add_z] at ih ⊢
    linear_combination ih

section face2
variable (vs : List P3) (σ : Rat)
variable (hN : (faceN vs).dot (faceN vs) ≠ 0)
variable (hpl : ∀ e ∈ cycEdges vs, 0 ≤ (subN (mean3 vs) e).dot (faceN vs) ∧
    P3.smul ((faceN vs).dot (faceN vs)) (subN (mean3 vs) e) = P3.smul ((subN (mean3 vs) e).dot (faceN vs)) (faceN vs))
variable (hnp : ∀ v ∈ vs, (v.sub (mean3 vs)).dot (faceN vs) = 0)

include hN hpl in
theorem tetVol_eq (tc : P3) (e : P3 × P3) (he : e ∈ cycEdges vs) :
    tetVol tc (vs, σ) e = ((subC (mean3 vs) e).sub tc).dot (P3.smul σ (subN (mean3 vs) e)) / 3 := by
  unfold tetVol
  rw [outerN_eq vs σ hN hpl e he]

include hN hpl in
/-- `x_f · r = (1/A) Σ d_e (q_e · r)` -/
theorem faceCtr_dot_any (r : P3) : (faceCtr vs).dot r * (faceN vs).dot (faceN vs)
    = sumf (fun e => (subN (mean3 vs) e).dot (faceN vs) * (subC (mean3 vs) e).dot r) (cycEdges vs) := by
  unfold faceCtr
  rw [P3.dot_smul_left, dot_sum3, faceWSum_eq vs hpl]
  have : sumf (fun e => (P3.smul (faceW vs e) (subC (mean3 vs) e)).dot r) (cycEdges vs)
      = sumf (fun e => (subN (mean3 vs) e).dot (faceN vs) * (subC (mean3 vs) e).dot r) (cycEdges vs) := by
    apply sumf_congr
    intro e he
    have hw : faceW vs e = (subN (mean3 vs) e).dot (faceN vs) := absR_of_nonneg (hpl e he).1
    rw [P3.dot_smul_left, hw]
  rw [this]
  field_simp

theorem sum_d_eq : sumf (fun e => (subN (mean3 vs) e).dot (faceN vs)) (cycEdges vs) = (faceN vs).dot (faceN vs) := by
  rw [← dot_sum3]; rfl

include hnp in
theorem subC_planar (e : P3 × P3) (he : e ∈ cycEdges vs) (o : P3) :
    ((subC (mean3 vs) e).sub o).dot (faceN vs) = ((mean3 vs).sub o).dot (faceN vs) := by
  obtain ⟨h1, h2⟩ := mem_cycEdges he
  have a1 := hnp e.1 h1
  have a2 := hnp e.2 h2
  simp only [subC, P3.dot, P3.sub_x, P3.sub_y, P3.sub_z, P3.smul_x, P3.smul_y, P3.smul_z, P3.add_x, P3.add_y, P3.add_z] at a1 a2 ⊢
  linear_combination (1 / 3 : Rat) * a1 + (1 / 3 : Rat) * a2

include hN hpl hnp in
/-- planar face: the face-level term equals the sum over its sub-triangles -/
theorem face_to_triangles (o r : P3) :
    ((faceCtr vs).sub o).dot (faceN vs) * ((faceCtr vs).sub o).dot r
      = sumf (fun e => ((subC (mean3 vs) e).sub o).dot (subN (mean3 vs) e) * ((subC (mean3 vs) e).sub o).dot r) (cycEdges vs) := by
  have hA := hN
  -- (q_e − o)·s_e = d_e h / A
  have hterm : ∀ e ∈ cycEdges vs,
      ((subC (mean3 vs) e).sub o).dot (subN (mean3 vs) e) * ((subC (mean3 vs) e).sub o).dot r
        = (((mean3 vs).sub o).dot (faceN vs) / (faceN vs).dot (faceN vs))
          * ((subN (mean3 vs) e).dot (faceN vs) * (subC (mean3 vs) e).dot r
             - o.dot r * (subN (mean3 vs) e).dot (faceN vs)) := by
    intro e he
    obtain ⟨_, hpar⟩ := hpl e he
    have hpd := congrArg (fun v => ((subC (mean3 vs) e).sub o).dot v) hpar
    simp only [P3.dot_smul_right] at hpd
    rw [subC_planar vs hnp e he o] at hpd
    have : ((subC (mean3 vs) e).sub o).dot (subN (mean3 vs) e)
        = (subN (mean3 vs) e).dot (faceN vs) * ((mean3 vs).sub o).dot (faceN vs) / (faceN vs).dot (faceN vs) := by
      field_simp
      linarith
    rw [this]
    simp only [P3.dot_sub_left]
    field_simp
  rw [sumf_congr hterm, sumf_mul_left, sumf_sub, sumf_mul_left, ← faceCtr_dot_any vs hN hpl r, sum_d_eq vs]
  -- (x_f − o)·N = (m − o)·N
  have hxN : ((faceCtr vs).sub o).dot (faceN vs) = ((mean3 vs).sub o).dot (faceN vs) := by
    have h1 := faceCtr_dot_any vs hN hpl (faceN vs)
    have h2 : sumf (fun e => (subN (mean3 vs) e).dot (faceN vs) * (subC (mean3 vs) e).dot (faceN vs)) (cycEdges vs)
        = (mean3 vs).dot (faceN vs) * (faceN vs).dot (faceN vs) := by
      have : ∀ e ∈ cycEdges vs, (subN (mean3 vs) e).dot (faceN vs) * (subC (mean3 vs) e).dot (faceN vs)
          = (mean3 vs).dot (faceN vs) * (subN (mean3 vs) e).dot (faceN vs) := by
        intro e he
        have := subC_planar vs hnp e he P3.zero
        simp only [P3.dot_sub_left] at this
        have hz : P3.zero.dot (faceN vs) = 0 := by simp [P3.dot]
        rw [hz] at this
        have : (subC (mean3 vs) e).dot (faceN vs) = (mean3 vs).dot (faceN vs) := by linarith
        rw [this]; ring
      rw [sumf_congr this, sumf_mul_left, sum_d_eq vs]
    rw [h2] at h1
    have : (faceCtr vs).dot (faceN vs) = (mean3 vs).dot (faceN vs) := mul_right_cancel₀ hA h1
    rw [P3.dot_sub_left, P3.dot_sub_left, this]
  rw [hxN]
  simp only [P3.dot_sub_left]
  field_simp
end face2

theorem relMom_dot (tc r : P3) (cell : Cell3) :
    (cellRelMom3 tc cell).dot r
      = sumf (fun f => sumf (fun e => tetVol tc f e * (3 / 4) * ((subC (mean3 f.1) e).sub tc).dot r) (cycEdges f.1)) cell := by
  unfold cellRelMom3
  rw [dot_sum3]
  apply sumf_congr; intro f _
  rw [dot_sum3]
  apply sumf_congr; intro e _
  rw [P3.dot_smul_left]

theorem centroid_identity_3d_aux (cell : Cell3) (tc o r : P3) (hp : EdgePaired cell) (hpl : PlanarStar cell)
    (hnp : NodesPlanar cell) :
    sumf (fun f => f.2 * (((faceCtr f.1).sub o).dot (faceN f.1) * ((faceCtr f.1).sub o).dot r)) cell
      = 4 * ((cellMom3 tc cell).dot r - cellVol3 tc cell * o.dot r) := by
  have hclosed := closed_cell_3d_aux cell hp
  have hvol := volume_identity_3d_aux cell tc P3.zero hp hpl
  -- right-hand side as a double sum
  have hR : 4 * ((cellMom3 tc cell).dot r - cellVol3 tc cell * o.dot r)
      = sumf (fun f => sumf (fun e => tetVol tc f e * (4 * (tc.sub o).dot r + 3 * ((subC (mean3 f.1) e).sub tc).dot r))
          (cycEdges f.1)) cell := by
    unfold cellMom3
    rw [P3.dot_add_left, P3.dot_smul_left, relMom_dot]
    unfold cellVol3 faceVol
    rw [P3.dot_sub_left]
    have : ∀ f ∈ cell, sumf (fun e => tetVol tc f e * (4 * (tc.dot r - o.dot r) + 3 * ((subC (mean3 f.1) e).sub tc).dot r)) (cycEdges f.1)
        = 4 * (tc.dot r - o.dot r) * sumf (tetVol tc f) (cycEdges f.1)
          + 4 * sumf (fun e => tetVol tc f e * (3 / 4) * ((subC (mean3 f.1) e).sub tc).dot r) (cycEdges f.1) := by
      intro f _
      rw [← sumf_mul_left, ← sumf_mul_left, ← sumf_add]
      apply sumf_congr; intro e _; ring
    rw [sumf_congr this, sumf_add, sumf_mul_left, sumf_mul_left]
    ring
  rw [hR]
  -- per face
  have hface : ∀ f ∈ cell,
      f.2 * (((faceCtr f.1).sub o).dot (faceN f.1) * ((faceCtr f.1).sub o).dot r)
        - sumf (fun e => tetVol tc f e * (4 * (tc.sub o).dot r + 3 * ((subC (mean3 f.1) e).sub tc).dot r)) (cycEdges f.1)
      = f.2 * sumf (fun e => (tc.sub o).dot (subN (mean3 f.1) e) * (subC (mean3 f.1) e).dot r) (cycEdges f.1)
        - o.dot r * ((tc.sub o).dot (P3.smul f.2 (faceN f.1)))
        - (tc.sub o).dot r * faceVol tc f := by
    intro f hf
    obtain ⟨hN, hpe⟩ := hpl f hf
    have hnpf := hnp f hf
    rw [face_to_triangles f.1 hN hpe hnpf o r]
    have ht : sumf (fun e => tetVol tc f e * (4 * (tc.sub o).dot r + 3 * ((subC (mean3 f.1) e).sub tc).dot r)) (cycEdges f.1)
        = sumf (fun e => (((subC (mean3 f.1) e).sub tc).dot (P3.smul f.2 (subN (mean3 f.1) e)) / 3)
            * (4 * (tc.sub o).dot r + 3 * ((subC (mean3 f.1) e).sub tc).dot r)) (cycEdges f.1) := by
      apply sumf_congr; intro e he
      have : tetVol tc f e = tetVol tc (f.1, f.2) e := rfl
      rw [this, tetVol_eq f.1 f.2 hN hpe tc e he]
    have hv : faceVol tc f
        = sumf (fun e => ((subC (mean3 f.1) e).sub tc).dot (P3.smul f.2 (subN (mean3 f.1) e)) / 3) (cycEdges f.1) := by
      unfold faceVol
      apply sumf_congr; intro e he
      have : tetVol tc f e = tetVol tc (f.1, f.2) e := rfl
      rw [this, tetVol_eq f.1 f.2 hN hpe tc e he]
    rw [ht, hv, centroid_split, P3.dot_smul_right]
    rfl
  have hsum : sumf (fun f => f.2 * (((faceCtr f.1).sub o).dot (faceN f.1) * ((faceCtr f.1).sub o).dot r)) cell
      - sumf (fun f => sumf (fun e => tetVol tc f e * (4 * (tc.sub o).dot r + 3 * ((subC (mean3 f.1) e).sub tc).dot r))
          (cycEdges f.1)) cell = 0 := by
    rw [← sumf_sub, sumf_congr hface, sumf_sub, sumf_sub, surface_tensor (tc.sub o) r cell hp, sumf_mul_left,
      ← sum3_dot, hclosed, sumf_mul_left]
    -- V = (1/3) Σ σ QS
    have hV : 3 * cellVol3 tc cell = sumf (fun f => f.2 * faceQS f.1) cell := by
      rw [← hvol]
      apply sumf_congr; intro f hf
      obtain ⟨hN, hpe⟩ := hpl f hf
      rw [P3.dot_sub_left, faceCtr_dot f.1 hN hpe]
      have hz : P3.zero.dot (faceN f.1) = 0 := by simp [P3.dot]
      rw [hz]; unfold faceQS; ring
    have hz : (tc.sub o).dot P3.zero = 0 := by simp [P3.dot]
    rw [hz, ← hV]
    unfold cellVol3
    ring
  linarith


theorem tri_nodesPlanar (a b c : P3) : ∀ v ∈ [a, b, c], (v.sub (mean3 [a, b, c])).dot (faceN [a, b, c]) = 0 := by
  intro v hv
  simp only [List.mem_cons, List.not_mem_nil, or_false] at hv
  rcases hv with rfl | rfl | rfl <;>
  · simp [faceN, subN, mean3, cycEdges, pathEdges, P3.dot]
    ring

theorem tet_nodesPlanar (p0 p1 p2 p3 : P3) : NodesPlanar (tetCell p0 p1 p2 p3) := by
  intro f hf
  simp only [tetCell, List.mem_cons, List.not_mem_nil, or_false] at hf
  rcases hf with rfl | rfl | rfl | rfl <;> exact tri_nodesPlanar _ _ _

/-! ### 3-D: Cartesian cells -/

/-- a parallelogram face `a b c (a+c−b)` is planar and star-shaped: every sub-normal is `N/4` -/
theorem para_planarStar (a b c : P3)
    (hnd : (faceN [a, b, c, (a.add c).sub b]).dot (faceN [a, b, c, (a.add c).sub b]) ≠ 0) :
    (faceN [a, b, c, (a.add c).sub b]).dot (faceN [a, b, c, (a.add c).sub b]) ≠ 0 ∧
    ∀ e ∈ cycEdges [a, b, c, (a.add c).sub b],
      0 ≤ (subN (mean3 [a, b, c, (a.add c).sub b]) e).dot (faceN [a, b, c, (a.add c).sub b]) ∧
      P3.smul ((faceN [a, b, c, (a.add c).sub b]).dot (faceN [a, b, c, (a.add c).sub b])) (subN (mean3 [a, b, c, (a.add c).sub b]) e)
        = P3.smul ((subN (mean3 [a, b, c, (a.add c).sub b]) e).dot (faceN [a, b, c, (a.add c).sub b])) (faceN [a, b, c, (a.add c).sub b]) := by
  refine ⟨hnd, ?_⟩
  have key : ∀ e ∈ cycEdges [a, b, c, (a.add c).sub b],
      subN (mean3 [a, b, c, (a.add c).sub b]) e = P3.smul (1 / 4) (faceN [a, b, c, (a.add c).sub b]) := by
    intro e he
    simp only [cycEdges, pathEdges, List.mem_cons, List.not_mem_nil, or_false] at he
    rcases he with rfl | rfl | rfl | rfl <;>
    · ext <;> simp [faceN, subN, mean3, cycEdges, pathEdges] <;> ring
  intro e he
  rw [key e he]
  constructor
  · rw [P3.dot_smul_left]
    have : 0 ≤ (faceN [a, b, c, (a.add c).sub b]).dot (faceN [a, b, c, (a.add c).sub b]) := by
      simp only [P3.dot]
      nlinarith [mul_self_nonneg (faceN [a, b, c, (a.add c).sub b]).x, mul_self_nonneg (faceN [a, b, c, (a.add c).sub b]).y,
        mul_self_nonneg (faceN [a, b, c, (a.add c).sub b]).z]
    linarith
  · rw [P3.dot_smul_left]
    ext <;> simp <;> ring

theorem para_planarStar' (a b c d : P3) (hd : d = (a.add c).sub b)
    (hnd : (faceN [a, b, c, d]).dot (faceN [a, b, c, d]) ≠ 0) :
    (faceN [a, b, c, d]).dot (faceN [a, b, c, d]) ≠ 0 ∧
    ∀ e ∈ cycEdges [a, b, c, d],
      0 ≤ (subN (mean3 [a, b, c, d]) e).dot (faceN [a, b, c, d]) ∧
      P3.smul ((faceN [a, b, c, d]).dot (faceN [a, b, c, d])) (subN (mean3 [a, b, c, d]) e)
        = P3.smul ((subN (mean3 [a, b, c, d]) e).dot (faceN [a, b, c, d])) (faceN [a, b, c, d]) := by
  subst hd
  exact para_planarStar a b c hnd

theorem hex_paired (x0 x1 y0 y1 z0 z1 : Rat) : EdgePaired (tensorCell3 x0 x1 y0 y1 z0 z1) := by
  intro G hG
  simp only [dirEdgeSum, tensorCell3, cycEdges, pathEdges, sumf_cons, sumf_nil]
  have e1 := hG ⟨x0, y0, z0⟩ ⟨x0, y1, z0⟩
  have e2 := hG ⟨x0, y1, z0⟩ ⟨x0, y1, z1⟩
  have e3 := hG ⟨x0, y1, z1⟩ ⟨x0, y0, z1⟩
  have e4 := hG ⟨x0, y0, z1⟩ ⟨x0, y0, z0⟩
  have e5 := hG ⟨x1, y0, z0⟩ ⟨x1, y1, z0⟩
  have e6 := hG ⟨x1, y1, z0⟩ ⟨x1, y1, z1⟩
  have e7 := hG ⟨x1, y1, z1⟩ ⟨x1, y0, z1⟩
  have e8 := hG ⟨x1, y0, z1⟩ ⟨x1, y0, z0⟩
  have e9 := hG ⟨x0, y0, z0⟩ ⟨x1, y0, z0⟩
  have e10 := hG ⟨x0, y1, z0⟩ ⟨x1, y1, z0⟩
  have e11 := hG ⟨x0, y1, z1⟩ ⟨x1, y1, z1⟩
  have e12 := hG ⟨x0, y0, z1⟩ ⟨x1, y0, z1⟩
  linarith

theorem hex_planarStar (x0 x1 y0 y1 z0 z1 : Rat) (hx : x0 ≠ x1) (hy : y0 ≠ y1) (hz : z0 ≠ z1) :
    PlanarStar (tensorCell3 x0 x1 y0 y1 z0 z1) := by
  have dx : x1 - x0 ≠ 0 := sub_ne_zero.mpr (Ne.symm hx)
  have dy : y1 - y0 ≠ 0 := sub_ne_zero.mpr (Ne.symm hy)
  have dz : z1 - z0 ≠ 0 := sub_ne_zero.mpr (Ne.symm hz)
  intro f hf
  simp only [tensorCell3, List.mem_cons, List.not_mem_nil, or_false] at hf
  rcases hf with rfl | rfl | rfl | rfl | rfl | rfl
  all_goals
    apply para_planarStar'
    · ext <;> simp
    · simp [faceN, subN, mean3, cycEdges, pathEdges, P3.dot]
      ring_nf
      first
        | (have h := mul_ne_zero (mul_ne_zero dy dz) (mul_ne_zero dy dz); intro hc; apply h; linear_combination hc)
        | (have h := mul_ne_zero (mul_ne_zero dx dz) (mul_ne_zero dx dz); intro hc; apply h; linear_combination hc)
        | (have h := mul_ne_zero (mul_ne_zero dx dy) (mul_ne_zero dx dy); intro hc; apply h; linear_combination hc)


/-- `3 V = Σ sign · Σ_e q_e · s_e` (cones over the faces from the origin) -/
theorem three_vol_eq_QS (cell : Cell3) (tc : P3) (hp : EdgePaired cell) (hpl : PlanarStar cell) :
    3 * cellVol3 tc cell = sumf (fun f => f.2 * faceQS f.1) cell := by
  rw [← volume_identity_3d_aux cell tc P3.zero hp hpl]
  apply sumf_congr; intro f hf
  obtain ⟨hN, hpe⟩ := hpl f hf
  rw [P3.dot_sub_left, faceCtr_dot f.1 hN hpe]
  have hz : P3.zero.dot (faceN f.1) = 0 := by simp [P3.dot]
  rw [hz]; unfold faceQS; ring

theorem cart3_cell_volume_aux (x0 x1 y0 y1 z0 z1 : Rat) (tc : P3) (hx : x0 ≠ x1) (hy : y0 ≠ y1) (hz : z0 ≠ z1) :
    cellVol3 tc (tensorCell3 x0 x1 y0 y1 z0 z1) = (x1 - x0) * (y1 - y0) * (z1 - z0) := by
  have h := three_vol_eq_QS _ tc (hex_paired x0 x1 y0 y1 z0 z1) (hex_planarStar x0 x1 y0 y1 z0 z1 hx hy hz)
  have : sumf (fun f => f.2 * faceQS f.1) (tensorCell3 x0 x1 y0 y1 z0 z1) = 3 * ((x1 - x0) * (y1 - y0) * (z1 - z0)) := by
    simp [tensorCell3, faceQS, subC, subN, mean3, cycEdges, pathEdges, P3.dot]
    ring
  linarith

theorem cart_volumes_sum_3d_aux (x0 y0 z0 : Rat) (xs ys zs : List Rat)
    (hxs : ∀ p ∈ pairs (x0 :: xs), p.1 ≠ p.2) (hys : ∀ p ∈ pairs (y0 :: ys), p.1 ≠ p.2)
    (hzs : ∀ p ∈ pairs (z0 :: zs), p.1 ≠ p.2) :
    tensorVolumeSum3 (x0 :: xs) (y0 :: ys) (z0 :: zs)
      = (lastD xs x0 - x0) * (lastD ys y0 - y0) * (lastD zs z0 - z0) := by
  unfold tensorVolumeSum3 tensorCells3
  rw [sumf_flatMap]
  have hz : ∀ z ∈ pairs (z0 :: zs),
      sumf (fun c => cellVol3 (tempCenter3 c) c)
        ((pairs (y0 :: ys)).flatMap (fun y => (pairs (x0 :: xs)).map (fun x => tensorCell3 x.1 x.2 y.1 y.2 z.1 z.2)))
      = (lastD xs x0 - x0) * (lastD ys y0 - y0) * (z.2 - z.1) := by
    intro z hzm
    rw [sumf_flatMap]
    have hy : ∀ y ∈ pairs (y0 :: ys),
        sumf (fun c => cellVol3 (tempCenter3 c) c) ((pairs (x0 :: xs)).map (fun x => tensorCell3 x.1 x.2 y.1 y.2 z.1 z.2))
        = (lastD xs x0 - x0) * ((y.2 - y.1) * (z.2 - z.1)) := by
      intro y hym
      rw [sumf_map]
      have hx : ∀ x ∈ pairs (x0 :: xs),
          cellVol3 (tempCenter3 (tensorCell3 x.1 x.2 y.1 y.2 z.1 z.2)) (tensorCell3 x.1 x.2 y.1 y.2 z.1 z.2)
          = (x.2 - x.1) * ((y.2 - y.1) * (z.2 - z.1)) := by
        intro x hxm
        rw [cart3_cell_volume_aux x.1 x.2 y.1 y.2 z.1 z.2 _ (hxs x hxm) (hys y hym) (hzs z hzm)]; ring
      rw [sumf_congr hx, sumf_mul_right, sum_pairs_diff]
    rw [sumf_congr hy]
    have : (fun y : Rat × Rat => (lastD xs x0 - x0) * ((y.2 - y.1) * (z.2 - z.1)))
        = fun y => ((lastD xs x0 - x0) * (z.2 - z.1)) * (y.2 - y.1) := by funext y; ring
    rw [this, sumf_mul_left, sum_pairs_diff]; ring
  rw [sumf_congr hz, sumf_mul_left, sum_pairs_diff]

/-! ### legacy 2-D path -/

theorem reorient_s (c : P2) (f : OFace) : (reorient c f).s = 1 := by
  unfold reorient; split <;> rfl

theorem reorient_mx (c : P2) (f : OFace) : (reorient c f).mx = f.mx := by
  unfold reorient; split <;> simp only [OFace.mx] <;> ring

theorem reorient_my (c : P2) (f : OFace) : (reorient c f).my = f.my := by
  unfold reorient; split <;> simp only [OFace.my] <;> ring

theorem legacy_side (c : P2) (f : OFace) (hs : f.s = 1 ∨ f.s = -1) (hχ : f.chi c ≠ 0) :
    f.s * legacyNx c f = (reorient c f).nx 1 ∧ f.s * legacyNy c f = (reorient c f).ny 1
    ∧ wAbs c f = wOriented 1 c (reorient c f) ∧ 2 * wAbs c f = absR (f.chi c) := by
  have hsub : f.subZ c = f.s * f.chi c / 2 := by simp only [OFace.subZ, OFace.chi]; ring
  rcases lt_or_gt_of_ne hχ with hneg | hpos
  · -- clockwise as seen from c: the re-oriented face is reversed
    have hr : reorient c f = ⟨f.b, f.a, 1⟩ := by unfold reorient; rw [if_neg (by linarith)]
    rw [hr]
    have hw : wOriented 1 c ⟨f.b, f.a, 1⟩ = -(f.chi c) / 2 := by
      simp only [wOriented, OFace.subZ, OFace.chi, OFace.mx, OFace.my, OFace.tx, OFace.ty]; ring
    rcases hs with h | h
    · have c1 : f.s * f.chi c < 0 := by rw [h]; linarith
      have ha : absR (f.subZ c) = -(f.chi c) / 2 := by
        rw [hsub, h]; unfold absR; rw [if_pos (by linarith)]; ring
      refine ⟨?_, ?_, ?_, ?_⟩
      · unfold legacyNx; rw [if_pos c1, h]; simp only [OFace.nx, OFace.ty]; ring
      · unfold legacyNy; rw [if_pos c1, h]; simp only [OFace.ny, OFace.tx]; ring
      · unfold wAbs; rw [ha, hw]
      · unfold wAbs; rw [ha]; unfold absR; rw [if_pos hneg]; ring
    · have c1 : ¬ (f.s * f.chi c < 0) := by rw [h]; linarith
      have ha : absR (f.subZ c) = -(f.chi c) / 2 := by
        rw [hsub, h]; unfold absR; rw [if_neg (by linarith)]; ring
      refine ⟨?_, ?_, ?_, ?_⟩
      · unfold legacyNx; rw [if_neg c1, h]; simp only [OFace.nx, OFace.ty]; ring
      · unfold legacyNy; rw [if_neg c1, h]; simp only [OFace.ny, OFace.tx]; ring
      · unfold wAbs; rw [ha, hw]
      · unfold wAbs; rw [ha]; unfold absR; rw [if_pos hneg]; ring
  · have hr : reorient c f = ⟨f.a, f.b, 1⟩ := by unfold reorient; rw [if_pos (by linarith)]
    rw [hr]
    have hw : wOriented 1 c ⟨f.a, f.b, 1⟩ = f.chi c / 2 := by
      simp only [wOriented, OFace.subZ, OFace.chi, OFace.mx, OFace.my, OFace.tx, OFace.ty]; ring
    rcases hs with h | h
    · have c1 : ¬ (f.s * f.chi c < 0) := by rw [h]; linarith
      have ha : absR (f.subZ c) = f.chi c / 2 := by
        rw [hsub, h]; unfold absR; rw [if_neg (by linarith)]; ring
      refine ⟨?_, ?_, ?_, ?_⟩
      · unfold legacyNx; rw [if_neg c1, h]; simp only [OFace.nx, OFace.ty]; ring
      · unfold legacyNy; rw [if_neg c1, h]; simp only [OFace.ny, OFace.tx]; ring
      · unfold wAbs; rw [ha, hw]
      · unfold wAbs; rw [ha]; unfold absR; rw [if_neg (by linarith)]; ring
    · have c1 : f.s * f.chi c < 0 := by rw [h]; linarith
      have ha : absR (f.subZ c) = f.chi c / 2 := by
        rw [hsub, h]; unfold absR; rw [if_pos (by linarith)]; ring
      refine ⟨?_, ?_, ?_, ?_⟩
      · unfold legacyNx; rw [if_pos c1, h]; simp only [OFace.nx, OFace.ty]; ring
      · unfold legacyNy; rw [if_pos c1, h]; simp only [OFace.ny, OFace.tx]; ring
      · unfold wAbs; rw [ha, hw]
      · unfold wAbs; rw [ha]; unfold absR; rw [if_neg (by linarith)]; ring

theorem absR_pos {q : Rat} (h : q ≠ 0) : 0 < absR q := by
  unfold absR
  split
  · linarith
  · rcases lt_or_gt_of_ne h with h1 | h1
    · contradiction
    · exact h1

theorem reorient_redirect (c : P2) (f : OFace) (flip : Bool) (s : Rat) (hf : f.s = 1) (hpos : 0 < f.chi c) :
    reorient c (redirect flip s f) = f := by
  cases flip with
  | false =>
    have : (redirect false s f).chi c = f.chi c := by simp [redirect, OFace.chi, OFace.mx, OFace.my, OFace.tx, OFace.ty]
    unfold reorient
    rw [this, if_pos (le_of_lt hpos)]
    cases f; simp_all [redirect]
  | true =>
    have : (redirect true s f).chi c = -(f.chi c) := by
      simp [redirect, OFace.chi, OFace.mx, OFace.my, OFace.tx, OFace.ty]; ring
    unfold reorient
    rw [this, if_neg (by linarith)]
    cases f; simp_all [redirect]

theorem legacy_scrambled_aux (c : P2) (l : List OFace) (ch : List (Bool × Rat))
    (hlen : ch.length = l.length) (hl : ∀ f ∈ l, f.s = 1 ∧ 0 < f.chi c) :
    (List.zipWith (fun f k => redirect k.1 k.2 f) l ch).map (reorient c) = l := by
  induction l generalizing ch with
  | nil => simp
  | cons f l ih =>
    cases ch with
    | nil => simp at hlen
    | cons k ch =>
      simp only [List.zipWith_cons_cons, List.map_cons]
      have hf := hl f List.mem_cons_self
      rw [reorient_redirect c f k.1 k.2 hf.1 hf.2,
        ih ch (by simpa using hlen) (fun g hg => hl g (List.mem_cons_of_mem _ hg))]

/-! ### rigid embedding -/

theorem orth_dot (R : M3) (h : R.Orth) (u v : P3) : (R.mulVec u).dot (R.mulVec v) = u.dot v := by
  obtain ⟨h1, h2, h3, h4, h5, h6⟩ := h
  simp only [M3.mulVec, P3.dot]
  linear_combination (u.x * v.x) * h1 + (u.y * v.y) * h2 + (u.z * v.z) * h3 + (u.x * v.y + u.y * v.x) * h4
    + (u.x * v.z + u.z * v.x) * h5 + (u.y * v.z + u.z * v.y) * h6

theorem embedP_sub (R : M3) (b : P3) (p q : P2) :
    (embedP R b p).sub (embedP R b q) = embedV R ⟨p.x - q.x, p.y - q.y⟩ := by
  ext <;> simp [embedP, embedV, M3.mulVec, lift, P3.dot] <;> ring

theorem embedV_dot (R : M3) (h : R.Orth) (u v : P2) : (embedV R u).dot (embedV R v) = u.x * v.x + u.y * v.y := by
  unfold embedV; rw [orth_dot R h]; simp [lift, P3.dot]

theorem sum3_smul_embedV {α : Type} (R : M3) (k wx wy : α → Rat) (l : List α) :
    sum3 (fun a => P3.smul (k a) (embedV R ⟨wx a, wy a⟩)) l
      = embedV R ⟨sumf (fun a => k a * wx a) l, sumf (fun a => k a * wy a) l⟩ := by
  induction l with
  | nil => ext <;> simp [embedV, M3.mulVec, lift, P3.dot]
  | cons a l ih =>
    rw [sum3_cons, ih]
    ext <;> simp [embedV, M3.mulVec, lift, P3.dot] <;> ring

theorem embedV_smul (R : M3) (k : Rat) (w : P2) : embedV R ⟨k * w.x, k * w.y⟩ = P3.smul k (embedV R w) := by
  ext <;> simp [embedV, M3.mulVec, lift, P3.dot] <;> ring

/-! ### 3-D positivity -/

section face3
variable (vs : List P3) (σ : Rat)
variable (hN : (faceN vs).dot (faceN vs) ≠ 0)
variable (hpl : ∀ e ∈ cycEdges vs, 0 ≤ (subN (mean3 vs) e).dot (faceN vs) ∧
    P3.smul ((faceN vs).dot (faceN vs)) (subN (mean3 vs) e) = P3.smul ((subN (mean3 vs) e).dot (faceN vs)) (faceN vs))
variable (hnp : ∀ v ∈ vs, (v.sub (mean3 vs)).dot (faceN vs) = 0)

include hN hpl hnp in
/-- sub-tetrahedron volume on a planar star-shaped face: `d_e · σ (m − tc)·N / (3 N·N)` -/
theorem tetVol_planar (tc : P3) (e : P3 × P3) (he : e ∈ cycEdges vs) :
    tetVol tc (vs, σ) e * (3 * (faceN vs).dot (faceN vs))
      = (subN (mean3 vs) e).dot (faceN vs) * (σ * ((mean3 vs).sub tc).dot (faceN vs)) := by
  rw [tetVol_eq vs σ hN hpl tc e he, P3.dot_smul_right]
  obtain ⟨_, hpar⟩ := hpl e he
  have hpd := congrArg (fun v => ((subC (mean3 vs) e).sub tc).dot v) hpar
  simp only [P3.dot_smul_right] at hpd
  rw [subC_planar vs hnp e he tc] at hpd
  linear_combination (σ) * hpd

include hN hpl hnp in
theorem tetVol_nonneg (tc : P3) (hout : 0 < σ * ((mean3 vs).sub tc).dot (faceN vs)) (e : P3 × P3)
    (he : e ∈ cycEdges vs) : 0 ≤ tetVol tc (vs, σ) e := by
  have h := tetVol_planar vs σ hN hpl hnp tc e he
  have hA : 0 < (faceN vs).dot (faceN vs) := by
    have : 0 ≤ (faceN vs).dot (faceN vs) := by
      simp only [P3.dot]; nlinarith [mul_self_nonneg (faceN vs).x, mul_self_nonneg (faceN vs).y, mul_self_nonneg (faceN vs).z]
    exact lt_of_le_of_ne this (Ne.symm hN)
  have hd := (hpl e he).1
  have : 0 ≤ tetVol tc (vs, σ) e * (3 * (faceN vs).dot (faceN vs)) := by
    rw [h]; exact mul_nonneg hd (le_of_lt hout)
  by_contra hneg
  have hneg' : tetVol tc (vs, σ) e < 0 := not_le.mp hneg
  nlinarith

include hN hpl hnp in
/-- volume of the cone over a planar star-shaped face: `σ (m − tc)·N / 3` -/
theorem faceVol_planar (tc : P3) : faceVol tc (vs, σ) = σ * ((mean3 vs).sub tc).dot (faceN vs) / 3 := by
  have hsum : faceVol tc (vs, σ) * (3 * (faceN vs).dot (faceN vs))
      = (faceN vs).dot (faceN vs) * (σ * ((mean3 vs).sub tc).dot (faceN vs)) := by
    unfold faceVol
    rw [← sumf_mul_right, sumf_congr (fun e he => tetVol_planar vs σ hN hpl hnp tc e he), sumf_mul_right, sum_d_eq]
  field_simp
  field_simp at hsum
  linarith
end face3

/-- Star-shaped cells: if `tc` lies strictly inside every (outward oriented, planar, star-shaped) face plane,
    every sub-tetrahedron has non-negative volume, every face cone has positive volume, and so has the cell. -/
theorem star_cell_volume_pos_aux (cell : Cell3) (tc : P3) (hne : cell ≠ []) (hpl : PlanarStar cell)
    (hnp : NodesPlanar cell) (hst : StarAbout tc cell) :
    (∀ f ∈ cell, ∀ e ∈ cycEdges f.1, 0 ≤ tetVol tc f e) ∧ (∀ f ∈ cell, 0 < faceVol tc f) ∧ 0 < cellVol3 tc cell := by
  have hf : ∀ f ∈ cell, 0 < faceVol tc f := by
    intro f hf
    obtain ⟨hN, hpe⟩ := hpl f hf
    have : faceVol tc f = faceVol tc (f.1, f.2) := rfl
    rw [this, faceVol_planar f.1 f.2 hN hpe (hnp f hf) tc]
    have := hst f hf
    linarith
  refine ⟨?_, hf, sumf_pos hne hf⟩
  intro f hf e he
  obtain ⟨hN, hpe⟩ := hpl f hf
  exact tetVol_nonneg f.1 f.2 hN hpe (hnp f hf) tc (hst f hf) e he

theorem faceCtr_planar (vs : List P3) (hN : (faceN vs).dot (faceN vs) ≠ 0)
    (hpl : ∀ e ∈ cycEdges vs, 0 ≤ (subN (mean3 vs) e).dot (faceN vs) ∧
      P3.smul ((faceN vs).dot (faceN vs)) (subN (mean3 vs) e) = P3.smul ((subN (mean3 vs) e).dot (faceN vs)) (faceN vs))
    (hnp : ∀ v ∈ vs, (v.sub (mean3 vs)).dot (faceN vs) = 0) :
    ((faceCtr vs).sub (mean3 vs)).dot (faceN vs) = 0 := by
  have h1 := faceCtr_dot_any vs hN hpl (faceN vs)
  have : ∀ e ∈ cycEdges vs, (subN (mean3 vs) e).dot (faceN vs) * (subC (mean3 vs) e).dot (faceN vs)
      = (mean3 vs).dot (faceN vs) * (subN (mean3 vs) e).dot (faceN vs) := by
    intro e he
    have := subC_planar vs hnp e he P3.zero
    simp only [P3.dot_sub_left] at this
    have : (subC (mean3 vs) e).dot (faceN vs) = (mean3 vs).dot (faceN vs) := by linarith
    rw [this]; ring
  rw [sumf_congr this, sumf_mul_left, sum_d_eq] at h1
  have := mul_right_cancel₀ hN h1
  rw [P3.dot_sub_left, this]; ring

/-- Convex cells are star-shaped about the temporary cell centre the code uses. -/
theorem convex_star_aux (cell : Cell3) (hc : ConvexCell cell) :
    StarAbout (tempCenter3 cell) cell := by
  intro f hf
  obtain ⟨hlen, hall, g, hg, hgneg⟩ := hc f hf
  -- E > 0
  have hE : 0 < numEdges cell := by
    unfold numEdges
    exact sumf_pos_of_exists (fun a ha => le_of_lt (hc a ha).1) ⟨f, hf, hlen⟩
  -- E * (tc − m)·N = Σ_g n_g (x_g − m)·N
  have hkey : numEdges cell * (f.2 * ((tempCenter3 cell).sub (mean3 f.1)).dot (faceN f.1))
      = sumf (fun g => (g.1.length : Rat) * (f.2 * ((faceCtr g.1).sub (mean3 f.1)).dot (faceN f.1))) cell := by
    have e1 : sumf (fun g : List P3 × Rat => (g.1.length : Rat) * (f.2 * ((faceCtr g.1).sub (mean3 f.1)).dot (faceN f.1))) cell
        = f.2 * (sumf (fun g : List P3 × Rat => (P3.smul (g.1.length : Rat) (faceCtr g.1)).dot (faceN f.1)) cell
            - numEdges cell * (mean3 f.1).dot (faceN f.1)) := by
      unfold numEdges
      rw [← sumf_mul_right, ← sumf_sub, ← sumf_mul_left]
      apply sumf_congr; intro g _
      rw [P3.dot_smul_left, P3.dot_sub_left]; ring
    rw [e1, ← dot_sum3]
    unfold tempCenter3
    rw [P3.dot_sub_left, P3.dot_smul_left]
    field_simp
  have hneg : sumf (fun g => (g.1.length : Rat) * (f.2 * ((faceCtr g.1).sub (mean3 f.1)).dot (faceN f.1))) cell < 0 := by
    have := sumf_pos_of_exists (g := fun g : List P3 × Rat => -((g.1.length : Rat) * (f.2 * ((faceCtr g.1).sub (mean3 f.1)).dot (faceN f.1))))
      (l := cell)
      (fun a ha => by
        have h1 := (hc a ha).1
        have h2 := hall a ha
        nlinarith)
      ⟨g, hg, by
        have h1 := (hc g hg).1
        nlinarith⟩
    have e2 : sumf (fun g : List P3 × Rat => -((g.1.length : Rat) * (f.2 * ((faceCtr g.1).sub (mean3 f.1)).dot (faceN f.1)))) cell
        = -1 * sumf (fun g : List P3 × Rat => (g.1.length : Rat) * (f.2 * ((faceCtr g.1).sub (mean3 f.1)).dot (faceN f.1))) cell := by
      rw [← sumf_mul_left]; apply sumf_congr; intro a _; ring
    rw [e2] at this
    linarith
  rw [← hkey] at hneg
  have h3 : f.2 * ((tempCenter3 cell).sub (mean3 f.1)).dot (faceN f.1) < 0 := by
    by_contra hge
    have hge' : 0 ≤ f.2 * ((tempCenter3 cell).sub (mean3 f.1)).dot (faceN f.1) := not_lt.mp hge
    nlinarith
  have h4 : ((mean3 f.1).sub (tempCenter3 cell)).dot (faceN f.1) = -(((tempCenter3 cell).sub (mean3 f.1)).dot (faceN f.1)) := by
    simp only [P3.dot_sub_left]; ring
  rw [h4]; linarith


/-! ### face centre of triangles and parallelograms, instances -/

theorem dot_self_zero {v : P3} (h : v.dot v = 0) : v.x = 0 ∧ v.y = 0 ∧ v.z = 0 := by
  simp only [P3.dot] at h
  refine ⟨?_, ?_, ?_⟩ <;> nlinarith [mul_self_nonneg v.x, mul_self_nonneg v.y, mul_self_nonneg v.z]

theorem faceCtr_eq_mean (vs : List P3) (hN : (faceN vs).dot (faceN vs) ≠ 0)
    (hpl : ∀ e ∈ cycEdges vs, 0 ≤ (subN (mean3 vs) e).dot (faceN vs) ∧
      P3.smul ((faceN vs).dot (faceN vs)) (subN (mean3 vs) e) = P3.smul ((subN (mean3 vs) e).dot (faceN vs)) (faceN vs))
    (n : Rat) (hn : n ≠ 0)
    (hd : ∀ e ∈ cycEdges vs, (subN (mean3 vs) e).dot (faceN vs) = (faceN vs).dot (faceN vs) / n)
    (hq : ∀ r : P3, sumf (fun e => (subC (mean3 vs) e).dot r) (cycEdges vs) = n * (mean3 vs).dot r) :
    faceCtr vs = mean3 vs := by
  have key : ∀ r : P3, (faceCtr vs).dot r = (mean3 vs).dot r := by
    intro r
    have h1 := faceCtr_dot_any vs hN hpl r
    have : ∀ e ∈ cycEdges vs, (subN (mean3 vs) e).dot (faceN vs) * (subC (mean3 vs) e).dot r
        = ((faceN vs).dot (faceN vs) / n) * (subC (mean3 vs) e).dot r := by
      intro e he; rw [hd e he]
    rw [sumf_congr this, sumf_mul_left, hq r] at h1
    have h2 : (faceCtr vs).dot r * (faceN vs).dot (faceN vs) = (mean3 vs).dot r * (faceN vs).dot (faceN vs) := by
      rw [h1]; field_simp
    exact mul_right_cancel₀ hN h2
  have hx := key ⟨1, 0, 0⟩
  have hy := key ⟨0, 1, 0⟩
  have hz := key ⟨0, 0, 1⟩
  simp only [P3.dot, mul_one, mul_zero, add_zero, zero_add] at hx hy hz
  ext <;> assumption

theorem tri_faceCtr (a b c : P3) (hnd : (faceN [a, b, c]).dot (faceN [a, b, c]) ≠ 0) :
    faceCtr [a, b, c] = mean3 [a, b, c] := by
  apply faceCtr_eq_mean _ hnd (tri_planarStar a b c hnd).2 3 (by norm_num)
  · intro e he
    simp only [cycEdges, pathEdges, List.mem_cons, List.not_mem_nil, or_false] at he
    rcases he with rfl | rfl | rfl <;>
    · simp [faceN, subN, mean3, cycEdges, pathEdges, P3.dot]; ring
  · intro r
    simp [subC, mean3, cycEdges, pathEdges, P3.dot]; ring

theorem para_faceCtr (a b c d : P3) (hd : d = (a.add c).sub b) (hnd : (faceN [a, b, c, d]).dot (faceN [a, b, c, d]) ≠ 0) :
    faceCtr [a, b, c, d] = mean3 [a, b, c, d] := by
  subst hd
  apply faceCtr_eq_mean _ hnd (para_planarStar a b c hnd).2 4 (by norm_num)
  · intro e he
    simp only [cycEdges, pathEdges, List.mem_cons, List.not_mem_nil, or_false] at he
    rcases he with rfl | rfl | rfl | rfl <;>
    · simp [faceN, subN, mean3, cycEdges, pathEdges, P3.dot]; ring
  · intro r
    simp [subC, mean3, cycEdges, pathEdges, P3.dot]; ring

theorem para_nodesPlanar (a b c d : P3) (hd : d = (a.add c).sub b) :
    ∀ v ∈ [a, b, c, d], (v.sub (mean3 [a, b, c, d])).dot (faceN [a, b, c, d]) = 0 := by
  subst hd
  intro v hv
  simp only [List.mem_cons, List.not_mem_nil, or_false] at hv
  rcases hv with rfl | rfl | rfl | rfl <;>
  · simp [faceN, subN, mean3, cycEdges, pathEdges, P3.dot]
    ring


/-! ### tetrahedron -/

theorem tet_nondegenerate (p0 p1 p2 p3 : P3) (hdet : det3 (p1.sub p0) (p2.sub p0) (p3.sub p0) ≠ 0) :
    ∀ f ∈ tetCell p0 p1 p2 p3, (faceN f.1).dot (faceN f.1) ≠ 0 := by
  intro f hf h0
  obtain ⟨hx, hy, hz⟩ := dot_self_zero h0
  apply hdet
  simp only [tetCell, List.mem_cons, List.not_mem_nil, or_false] at hf
  rcases hf with rfl | rfl | rfl | rfl
  · have e : det3 (p1.sub p0) (p2.sub p0) (p3.sub p0)
        = -2 * ((faceN [p0, p2, p1]).x * (p3.x - p0.x) + (faceN [p0, p2, p1]).y * (p3.y - p0.y) + (faceN [p0, p2, p1]).z * (p3.z - p0.z)) := by
      simp [det3, faceN, subN, mean3, cycEdges, pathEdges, P3.dot]; ring
    rw [e, hx, hy, hz]; ring
  · have e : det3 (p1.sub p0) (p2.sub p0) (p3.sub p0)
        = -2 * ((faceN [p0, p1, p3]).x * (p2.x - p0.x) + (faceN [p0, p1, p3]).y * (p2.y - p0.y) + (faceN [p0, p1, p3]).z * (p2.z - p0.z)) := by
      simp [det3, faceN, subN, mean3, cycEdges, pathEdges, P3.dot]; ring
    rw [e, hx, hy, hz]; ring
  · have e : det3 (p1.sub p0) (p2.sub p0) (p3.sub p0)
        = 2 * ((faceN [p1, p2, p3]).x * (p1.x - p0.x) + (faceN [p1, p2, p3]).y * (p1.y - p0.y) + (faceN [p1, p2, p3]).z * (p1.z - p0.z)) := by
      simp [det3, faceN, subN, mean3, cycEdges, pathEdges, P3.dot]; ring
    rw [e, hx, hy, hz]; ring
  · have e : det3 (p1.sub p0) (p2.sub p0) (p3.sub p0)
        = -2 * ((faceN [p0, p3, p2]).x * (p1.x - p0.x) + (faceN [p0, p3, p2]).y * (p1.y - p0.y) + (faceN [p0, p3, p2]).z * (p1.z - p0.z)) := by
      simp [det3, faceN, subN, mean3, cycEdges, pathEdges, P3.dot]; ring
    rw [e, hx, hy, hz]; ring

theorem tet_tempCenter (p0 p1 p2 p3 : P3) (hnd : ∀ f ∈ tetCell p0 p1 p2 p3, (faceN f.1).dot (faceN f.1) ≠ 0) :
    tempCenter3 (tetCell p0 p1 p2 p3) = P3.smul (1 / 4) (((p0.add p1).add p2).add p3) := by
  have h1 := tri_faceCtr p0 p2 p1 (hnd ([p0, p2, p1], 1) (by simp [tetCell]))
  have h2 := tri_faceCtr p0 p1 p3 (hnd ([p0, p1, p3], 1) (by simp [tetCell]))
  have h3 := tri_faceCtr p1 p2 p3 (hnd ([p1, p2, p3], 1) (by simp [tetCell]))
  have h4 := tri_faceCtr p0 p3 p2 (hnd ([p0, p3, p2], 1) (by simp [tetCell]))
  simp only [tempCenter3, numEdges, tetCell, sumf_cons, sumf_nil, sum3_cons, sum3_nil, h1, h2, h3, h4]
  ext <;> simp [mean3] <;> ring

theorem tet_star (p0 p1 p2 p3 : P3) (hdet : 0 < det3 (p1.sub p0) (p2.sub p0) (p3.sub p0)) :
    StarAbout (tempCenter3 (tetCell p0 p1 p2 p3)) (tetCell p0 p1 p2 p3) := by
  have hnd := tet_nondegenerate p0 p1 p2 p3 (ne_of_gt hdet)
  rw [tet_tempCenter p0 p1 p2 p3 hnd]
  intro f hf
  have key : f.2 * ((mean3 f.1).sub (P3.smul (1 / 4) (((p0.add p1).add p2).add p3))).dot (faceN f.1)
      = det3 (p1.sub p0) (p2.sub p0) (p3.sub p0) / 8 := by
    simp only [tetCell, List.mem_cons, List.not_mem_nil, or_false] at hf
    rcases hf with rfl | rfl | rfl | rfl <;>
    · simp [det3, faceN, subN, mean3, cycEdges, pathEdges, P3.dot]; ring
  rw [key]; linarith

theorem tet_volume (p0 p1 p2 p3 tc : P3) (hdet : det3 (p1.sub p0) (p2.sub p0) (p3.sub p0) ≠ 0) :
    cellVol3 tc (tetCell p0 p1 p2 p3) = det3 (p1.sub p0) (p2.sub p0) (p3.sub p0) / 6 := by
  have hnd := tet_nondegenerate p0 p1 p2 p3 hdet
  have h := three_vol_eq_QS _ tc (tet_paired p0 p1 p2 p3) (tet_planarStar p0 p1 p2 p3 hnd)
  have : sumf (fun f => f.2 * faceQS f.1) (tetCell p0 p1 p2 p3) = det3 (p1.sub p0) (p2.sub p0) (p3.sub p0) / 2 := by
    simp [tetCell, faceQS, det3, subC, subN, mean3, cycEdges, pathEdges, P3.dot]
    ring
  linarith

/-! ### parallelepiped -/

theorem para_faces (p u v w : P3) : ∀ f ∈ paraCell p u v w,
    ∃ a b c d, f.1 = [a, b, c, d] ∧ d = (a.add c).sub b := by
  intro f hf
  simp only [paraCell, List.mem_cons, List.not_mem_nil, or_false] at hf
  rcases hf with rfl | rfl | rfl | rfl | rfl | rfl <;>
  · refine ⟨_, _, _, _, rfl, ?_⟩
    ext <;> simp <;> ring

theorem para_nondegenerate (p u v w : P3) (hdet : det3 u v w ≠ 0) :
    ∀ f ∈ paraCell p u v w, (faceN f.1).dot (faceN f.1) ≠ 0 := by
  intro f hf h0
  obtain ⟨hx, hy, hz⟩ := dot_self_zero h0
  apply hdet
  simp only [paraCell, List.mem_cons, List.not_mem_nil, or_false] at hf
  rcases hf with rfl | rfl | rfl | rfl | rfl | rfl
  · have e : det3 u v w = (faceN [p, p.add v, (p.add v).add w, p.add w]).x * u.x + (faceN [p, p.add v, (p.add v).add w, p.add w]).y * u.y
        + (faceN [p, p.add v, (p.add v).add w, p.add w]).z * u.z := by
      simp [det3, faceN, subN, mean3, cycEdges, pathEdges, P3.dot]; ring
    rw [e, hx, hy, hz]; ring
  · have e : det3 u v w = (faceN [p.add u, (p.add u).add v, ((p.add u).add v).add w, (p.add u).add w]).x * u.x
        + (faceN [p.add u, (p.add u).add v, ((p.add u).add v).add w, (p.add u).add w]).y * u.y
        + (faceN [p.add u, (p.add u).add v, ((p.add u).add v).add w, (p.add u).add w]).z * u.z := by
      simp [det3, faceN, subN, mean3, cycEdges, pathEdges, P3.dot]; ring
    rw [e, hx, hy, hz]; ring
  · have e : det3 u v w = (faceN [p, p.add w, (p.add u).add w, p.add u]).x * v.x + (faceN [p, p.add w, (p.add u).add w, p.add u]).y * v.y
        + (faceN [p, p.add w, (p.add u).add w, p.add u]).z * v.z := by
      simp [det3, faceN, subN, mean3, cycEdges, pathEdges, P3.dot]; ring
    rw [e, hx, hy, hz]; ring
  · have e : det3 u v w = (faceN [p.add v, (p.add v).add w, ((p.add u).add v).add w, (p.add u).add v]).x * v.x
        + (faceN [p.add v, (p.add v).add w, ((p.add u).add v).add w, (p.add u).add v]).y * v.y
        + (faceN [p.add v, (p.add v).add w, ((p.add u).add v).add w, (p.add u).add v]).z * v.z := by
      simp [det3, faceN, subN, mean3, cycEdges, pathEdges, P3.dot]; ring
    rw [e, hx, hy, hz]; ring
  · have e : det3 u v w = (faceN [p, p.add u, (p.add u).add v, p.add v]).x * w.x + (faceN [p, p.add u, (p.add u).add v, p.add v]).y * w.y
        + (faceN [p, p.add u, (p.add u).add v, p.add v]).z * w.z := by
      simp [det3, faceN, subN, mean3, cycEdges, pathEdges, P3.dot]; ring
    rw [e, hx, hy, hz]; ring
  · have e : det3 u v w = (faceN [p.add w, (p.add u).add w, ((p.add u).add v).add w, (p.add v).add w]).x * w.x
        + (faceN [p.add w, (p.add u).add w, ((p.add u).add v).add w, (p.add v).add w]).y * w.y
        + (faceN [p.add w, (p.add u).add w, ((p.add u).add v).add w, (p.add v).add w]).z * w.z := by
      simp [det3, faceN, subN, mean3, cycEdges, pathEdges, P3.dot]; ring
    rw [e, hx, hy, hz]; ring

theorem para_planarStar_cell (p u v w : P3) (hdet : det3 u v w ≠ 0) : PlanarStar (paraCell p u v w) := by
  intro f hf
  obtain ⟨a, b, c, d, hfe, hd⟩ := para_faces p u v w f hf
  have hn := para_nondegenerate p u v w hdet f hf
  rw [hfe] at hn ⊢
  exact para_planarStar' a b c d hd hn

theorem para_nodesPlanar_cell (p u v w : P3) : NodesPlanar (paraCell p u v w) := by
  intro f hf
  obtain ⟨a, b, c, d, hfe, hd⟩ := para_faces p u v w f hf
  rw [hfe]
  exact para_nodesPlanar a b c d hd

theorem para_paired (p u v w : P3) : EdgePaired (paraCell p u v w) := by
  intro G hG
  simp only [dirEdgeSum, paraCell, cycEdges, pathEdges, sumf_cons, sumf_nil]
  have e1 := hG p (p.add v)
  have e2 := hG (p.add v) ((p.add v).add w)
  have e3 := hG ((p.add v).add w) (p.add w)
  have e4 := hG (p.add w) p
  have e5 := hG (p.add u) ((p.add u).add v)
  have e6 := hG ((p.add u).add v) (((p.add u).add v).add w)
  have e7 := hG (((p.add u).add v).add w) ((p.add u).add w)
  have e8 := hG ((p.add u).add w) (p.add u)
  have e9 := hG p (p.add u)
  have e10 := hG (p.add v) ((p.add u).add v)
  have e11 := hG ((p.add v).add w) (((p.add u).add v).add w)
  have e12 := hG (p.add w) ((p.add u).add w)
  linarith

theorem para_volume (p u v w tc : P3) (hdet : det3 u v w ≠ 0) : cellVol3 tc (paraCell p u v w) = det3 u v w := by
  have h := three_vol_eq_QS _ tc (para_paired p u v w) (para_planarStar_cell p u v w hdet)
  have : sumf (fun f => f.2 * faceQS f.1) (paraCell p u v w) = 3 * det3 u v w := by
    simp [paraCell, faceQS, det3, subC, subN, mean3, cycEdges, pathEdges, P3.dot]
    ring
  linarith

theorem para_tempCenter (p u v w : P3) (hdet : det3 u v w ≠ 0) :
    tempCenter3 (paraCell p u v w) = p.add (P3.smul (1 / 2) ((u.add v).add w)) := by
  have hnd := para_nondegenerate p u v w hdet
  have hc : ∀ f ∈ paraCell p u v w, faceCtr f.1 = mean3 f.1 := by
    intro f hf
    obtain ⟨a, b, c, d, hfe, hd⟩ := para_faces p u v w f hf
    have hn := hnd f hf
    rw [hfe] at hn ⊢
    exact para_faceCtr a b c d hd hn
  have h1 := hc _ (List.mem_cons_self)
  have h2 := hc _ (List.mem_cons_of_mem _ List.mem_cons_self)
  have h3 := hc _ (List.mem_cons_of_mem _ (List.mem_cons_of_mem _ List.mem_cons_self))
  have h4 := hc _ (List.mem_cons_of_mem _ (List.mem_cons_of_mem _ (List.mem_cons_of_mem _ List.mem_cons_self)))
  have h5 := hc _ (List.mem_cons_of_mem _ (List.mem_cons_of_mem _ (List.mem_cons_of_mem _ (List.mem_cons_of_mem _ List.mem_cons_self))))
  have h6 := hc _ (List.mem_cons_of_mem _ (List.mem_cons_of_mem _ (List.mem_cons_of_mem _ (List.mem_cons_of_mem _
    (List.mem_cons_of_mem _ List.mem_cons_self)))))
  simp only [tempCenter3, numEdges, paraCell, sumf_cons, sumf_nil, sum3_cons, sum3_nil] at h1 h2 h3 h4 h5 h6 ⊢
  rw [h1, h2, h3, h4, h5, h6]
  ext <;> simp [mean3] <;> ring

theorem para_star (p u v w : P3) (hdet : 0 < det3 u v w) :
    StarAbout (tempCenter3 (paraCell p u v w)) (paraCell p u v w) := by
  rw [para_tempCenter p u v w (ne_of_gt hdet)]
  intro f hf
  have key : f.2 * ((mean3 f.1).sub (p.add (P3.smul (1 / 2) ((u.add v).add w)))).dot (faceN f.1) = det3 u v w / 2 := by
    simp only [paraCell, List.mem_cons, List.not_mem_nil, or_false] at hf
    rcases hf with rfl | rfl | rfl | rfl | rfl | rfl <;>
    · simp [det3, faceN, subN, mean3, cycEdges, pathEdges, P3.dot]; ring
  rw [key]; linarith

end PorepyVerif.C19
