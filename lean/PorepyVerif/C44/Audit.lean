import PorepyVerif.C44.Props
#print axioms PorepyVerif.C44.halfplane_is_left_of_edge
#print axioms PorepyVerif.C44.clip_convex_exact
#print axioms PorepyVerif.C44.clip_convex_sound
#print axioms PorepyVerif.C44.clip_convex_complete
#print axioms PorepyVerif.C44.clip_convex_none_or_nonempty
#print axioms PorepyVerif.C44.clip_convex_open_strict
#print axioms PorepyVerif.C44.clip_convex_dropped_on_boundary
#print axioms PorepyVerif.C44.clip_simple_sound_partial
#print axioms PorepyVerif.C44.clip_simple_piece_off_boundary
#print axioms PorepyVerif.C44.clip_simple_cover
#print axioms PorepyVerif.C44.merge_union
#print axioms PorepyVerif.C44.clip_simple_merge_union
#print axioms PorepyVerif.C44.sh_clip_sound
#print axioms PorepyVerif.C44.sh_clip_inside_unchanged
