/-
C44 — property theorems.

Property: clipping line segments by a polygon (and polygons by a polyhedron) returns pieces that lie
inside the clipping region and whose union equals the intersection of the input with that region.

`lines_by_polygon` calls a library (shapely), so the theorems are about the exact SPECIFICATION in
Model.lean that the wrapper is tested against (correspondence harness/props/c44.py):

convex region (list of closed half-planes, e.g. `halfPlanes poly`):
  `clip_convex_sound`, `clip_convex_complete`, `clip_convex_exact`  — the returned parameter
       interval IS  {t ∈ [0,1] | s(t) in every half-plane}  (= segment ∩ region), for all inputs;
  `clip_convex_open_strict`, `clip_convex_dropped_on_boundary` — the convention of the code
       (zero-length and boundary-only pieces are not returned) removes nothing of the interior.
simple, possibly non-convex polygon:
  `clip_simple_sound_partial`, `clip_simple_piece_off_boundary`, `clip_simple_cover`, `merge_union`.

FULL statement wanted for simple polygons (NOT proved):
    ∀ t ∈ [0,1],  (∃ (a,b) ∈ clipSimple poly s, a ≤ t ≤ b)  ↔  s(t) ∈ closure (interior poly ∩ s)
  What is proved: the cut parameters partition [0,1] (`clip_simple_cover`); a piece is returned iff
  its midpoint is strictly inside (even–odd rule); the open piece meets no polygon edge at all
  (`clip_simple_piece_off_boundary`, including edges collinear with the segment).
  What is missing: the topological step "a connected set that does not meet the boundary of a simple
  polygon is entirely inside or entirely outside" (Jordan curve theorem for polygons) and that the
  even–odd rule decides the interior; with these two facts the three theorems give the full statement.
-/
import PorepyVerif.C44.Lemmas

namespace PorepyVerif.C44

/-- the closed convex region cut out by a list of half-planes -/
def InRegion (hs : List HP) (P : Pt) : Prop := ∀ h ∈ hs, h.eval P ≤ 0

/-- the half-planes produced from polygon edges mean "to the left of (or on) the directed edge" -/
theorem halfplane_is_left_of_edge (A B P : Pt) :
    (hpOfEdge A B).eval P = - cross (B.sub A) (P.sub A) := by
  simp only [hpOfEdge, HP.eval, cross, Pt.sub]; ring

/-! ### convex region -/

/-- HEADLINE: the returned interval is exactly the set of parameters of segment ∩ region. -/
theorem clip_convex_exact (hs : List HP) (s : Seg) (t : Rat) :
    inIv (clipConvex hs s) t ↔ (0 ≤ t ∧ t ≤ 1 ∧ InRegion hs (s.at t)) := by
  unfold clipConvex InRegion
  rw [clipFrom_spec]
  simp only [inIv]
  tauto

/-- soundness: every point of the returned parameter interval is a point of the segment that
    satisfies all half-plane inequalities -/
theorem clip_convex_sound (hs : List HP) (s : Seg) (lo hi : Rat)
    (h : clipConvex hs s = some (lo, hi)) (t : Rat) (h1 : lo ≤ t) (h2 : t ≤ hi) :
    0 ≤ t ∧ t ≤ 1 ∧ InRegion hs (s.at t) := by
  apply (clip_convex_exact hs s t).mp
  rw [h]; exact ⟨h1, h2⟩

/-- completeness: every point of the segment inside the region lies in the returned interval -/
theorem clip_convex_complete (hs : List HP) (s : Seg) (t : Rat) (h0 : 0 ≤ t) (h1 : t ≤ 1)
    (hin : InRegion hs (s.at t)) :
    ∃ lo hi, clipConvex hs s = some (lo, hi) ∧ lo ≤ t ∧ t ≤ hi := by
  have := (clip_convex_exact hs s t).mpr ⟨h0, h1, hin⟩
  cases hc : clipConvex hs s with
  | none => rw [hc] at this; exact this.elim
  | some p => obtain ⟨lo, hi⟩ := p; rw [hc] at this; exact ⟨lo, hi, rfl, this⟩

/-- `none` is returned only when the segment misses the region; a returned interval is non-empty
    (so its end points are points of segment ∩ region) -/
theorem clip_convex_none_or_nonempty (hs : List HP) (s : Seg) :
    (clipConvex hs s = none → ∀ t, 0 ≤ t → t ≤ 1 → ¬ InRegion hs (s.at t)) ∧
    (∀ lo hi, clipConvex hs s = some (lo, hi) → lo ≤ hi) := by
  constructor
  · intro h t h0 h1 hin
    have := (clip_convex_exact hs s t).mpr ⟨h0, h1, hin⟩
    rw [h] at this; exact this
  · intro lo hi h
    have := clipFrom_ok s hs (some (0, 1)) (by simp [IvOk])
    unfold clipConvex at h
    rw [h] at this; exact this

/-- a piece that survives the convention of the code (positive length, midpoint strictly inside)
    is the closed interval of `clipConvex`, and all its interior points are strictly inside every
    half-plane: nothing but its two end points can be on the boundary -/
theorem clip_convex_open_strict (hs : List HP) (s : Seg) (lo hi : Rat)
    (h : clipConvexOpen hs s = some (lo, hi)) :
    lo < hi ∧ clipConvex hs s = some (lo, hi) ∧
      ∀ t, lo < t → t < hi → ∀ g ∈ hs, g.eval (s.at t) < 0 := by
  unfold clipConvexOpen at h
  cases hc : clipConvex hs s with
  | none => rw [hc] at h; cases h
  | some p =>
    obtain ⟨l, u⟩ := p
    rw [hc] at h
    simp only at h
    split_ifs at h with hcond
    obtain ⟨rfl, rfl⟩ := Prod.mk.inj (Option.some.inj h)
    refine ⟨hcond.2.1, rfl, ?_⟩
    intro t ht1 ht2 g hg
    have hlo := (clip_convex_sound hs s l u hc l (le_refl _) hcond.2.1.le).2.2 g hg
    have hhi := (clip_convex_sound hs s l u hc u hcond.2.1.le (le_refl _)).2.2 g hg
    have hmid : g.eval (s.at ((l + u) / 2)) < 0 := by
      have := hcond.2.2
      simp only [strictlyInside, List.all_eq_true, decide_eq_true_eq] at this
      exact this g hg
    rw [eval_at] at hlo hhi hmid ⊢
    generalize g.eval s.q - g.eval s.p = d at *
    generalize g.eval s.p = n at *
    rcases lt_trichotomy d 0 with hd | hd | hd
    · have := mul_lt_mul_of_neg_right ht1 hd; linarith
    · subst hd; linarith
    · have := mul_lt_mul_of_pos_right ht2 hd; linarith

/-- what the convention drops: a segment of zero length, an interval reduced to a point, or a
    piece along which some half-plane function vanishes identically (the segment runs in the
    boundary line) -/
theorem clip_convex_dropped_on_boundary (hs : List HP) (s : Seg) (lo hi : Rat)
    (hc : clipConvex hs s = some (lo, hi)) (ho : clipConvexOpen hs s = none) :
    s.p = s.q ∨ lo = hi ∨ ∃ g ∈ hs, ∀ t, g.eval (s.at t) = 0 := by
  have hle := (clip_convex_none_or_nonempty hs s).2 lo hi hc
  by_cases hpq : s.p = s.q
  · left; exact hpq
  right
  by_cases hlt : lo < hi
  · right
    unfold clipConvexOpen at ho
    rw [hc] at ho
    simp only at ho
    split_ifs at ho with hcond
    have hns : ¬ (strictlyInside hs (s.at ((lo + hi) / 2)) = true) := fun h => hcond ⟨hpq, hlt, h⟩
    simp only [strictlyInside, List.all_eq_true, decide_eq_true_eq, not_forall] at hns
    obtain ⟨g, hg, hge⟩ := hns
    refine ⟨g, hg, ?_⟩
    have hlo := (clip_convex_sound hs s lo hi hc lo (le_refl _) hle).2.2 g hg
    have hhi := (clip_convex_sound hs s lo hi hc hi hle (le_refl _)).2.2 g hg
    have hmid := (clip_convex_sound hs s lo hi hc ((lo + hi) / 2) (by linarith) (by linarith)).2.2 g hg
    intro t
    rw [eval_at] at hlo hhi hmid hge ⊢
    generalize g.eval s.q - g.eval s.p = d at *
    generalize g.eval s.p = n at *
    have hm0 : n + (lo + hi) / 2 * d = 0 := le_antisymm hmid (not_lt.mp hge)
    have h1 : n + lo * d = 0 := by linarith
    have h2 : n + hi * d = 0 := by linarith
    have hd : (hi - lo) * d = 0 := by linarith
    rcases mul_eq_zero.mp hd with h | h
    · exact absurd hlt (by linarith)
    · subst h; linarith
  · left; exact le_antisymm hle (not_lt.mp hlt)

/-! ### simple (possibly non-convex) polygon -/

theorem dd_ne_zero (s : Seg) (h : s.p ≠ s.q) : dot (s.q.sub s.p) (s.q.sub s.p) ≠ 0 := by
  intro h0
  obtain ⟨hx, hy⟩ := dot_self_eq_zero _ h0
  simp only [Pt.sub] at hx hy
  apply h
  obtain ⟨⟨px, py⟩, ⟨qx, qy⟩⟩ := s
  simp only at hx hy
  simp only [Pt.mk.injEq]
  constructor <;> linarith

theorem cuts_in01 (s : Seg) (es : List (Pt × Pt)) (c : Rat) (hc : c ∈ cutsE s es) : 0 ≤ c ∧ c ≤ 1 := by
  unfold cutsE at hc
  rw [mem_sortU] at hc
  rcases List.mem_cons.mp hc with rfl | hc
  · constructor <;> decide
  rcases List.mem_cons.mp hc with rfl | hc
  · constructor <;> decide
  obtain ⟨e, _, he⟩ := (mem_crossingsE s es c).mp hc
  have := crossingsEdge_in01 s e c he
  simpa [in01] using this

/-- soundness (partial, see header): a returned piece is a sub-interval of [0,1] of positive length,
    its midpoint is strictly inside the polygon, and no boundary crossing parameter lies strictly
    inside it -/
theorem clip_simple_sound_partial (poly : List Pt) (s : Seg) (a b : Rat)
    (h : (a, b) ∈ clipSimpleRaw poly s) :
    0 ≤ a ∧ a < b ∧ b ≤ 1 ∧ insideStrict poly (s.at ((a + b) / 2)) = true ∧
      ∀ c ∈ crossingsE s (edges poly), ¬ (a < c ∧ c < b) := by
  unfold clipSimpleRaw clipSimpleRawE at h
  split_ifs at h with hpq
  · cases h
  obtain ⟨hp, hm⟩ := List.mem_filter.mp h
  obtain ⟨h1, h2, h3, h4⟩ := pairs_spec _ (pairwise_sortU _) a b hp
  refine ⟨(cuts_in01 s _ a h2).1, h1, (cuts_in01 s _ b h3).2, hm, ?_⟩
  intro c hc
  have hcc : c ∈ cutsE s (edges poly) := by
    unfold cutsE
    rw [mem_sortU]
    exact List.mem_cons_of_mem _ (List.mem_cons_of_mem _ hc)
  exact h4 c hcc

/-- the open piece does not meet the polygon boundary at all — not only "no crossing parameter in
    the list": a transversal edge would contribute a crossing parameter, and an edge collinear with
    the segment that met the open piece would contain the whole piece, hence its midpoint -/
theorem clip_simple_piece_off_boundary (poly : List Pt) (s : Seg) (a b : Rat)
    (h : (a, b) ∈ clipSimpleRaw poly s) (t : Rat) (hat : a < t) (htb : t < b) :
    onBoundaryE (edges poly) (s.at t) = false := by
  obtain ⟨h0, hab, h1, hmid, hno⟩ := clip_simple_sound_partial poly s a b h
  have hpq : s.p ≠ s.q := by
    intro e; unfold clipSimpleRaw clipSimpleRawE at h; rw [if_pos e] at h; cases h
  have hdd := dd_ne_zero s hpq
  by_contra hb
  have hb' : onBoundaryE (edges poly) (s.at t) = true := by simpa using hb
  simp only [onBoundaryE, List.any_eq_true] at hb'
  obtain ⟨⟨A, B⟩, he, hon⟩ := hb'
  have ht01 : in01 t = true := by simp only [in01, Bool.and_eq_true, decide_eq_true_eq]; constructor <;> linarith
  rcases edge_crossing_complete s A B t hdd ht01 hon with hin | ⟨hDE, hA, hprod, hcA, hcB⟩
  · exact hno t ((mem_crossingsE s _ t).mpr ⟨(A, B), he, hin⟩) ⟨hat, htb⟩
  · -- collinear overlap: neither end parameter is strictly inside (a,b)
    have out : ∀ u, (in01 u = true → u ∈ crossingsEdge s (A, B)) → u ≤ a ∨ b ≤ u := by
      intro u hu
      by_cases hu01 : in01 u = true
      · have := hno u ((mem_crossingsE s _ u).mpr ⟨(A, B), he, hu hu01⟩)
        by_contra hcon
        rw [not_or] at hcon
        exact this ⟨not_le.mp hcon.1, not_le.mp hcon.2⟩
      · simp only [in01, Bool.and_eq_true, decide_eq_true_eq, not_and_or, not_le] at hu01
        rcases hu01 with h | h
        · left; linarith
        · right; linarith
    have hm : (((a + b) / 2) - param s A) * (((a + b) / 2) - param s B) ≤ 0 := by
      generalize param s A = tA at *
      generalize param s B = tB at *
      rcases mul_nonpos_iff.mp hprod with ⟨h1', h2'⟩ | ⟨h1', h2'⟩
      · -- tA ≤ t ≤ tB
        have hA' : tA ≤ a := by rcases out tA hcA with h | h <;> linarith
        have hB' : b ≤ tB := by rcases out tB hcB with h | h <;> linarith
        exact mul_nonpos_of_nonneg_of_nonpos (by linarith) (by linarith)
      · have hA' : b ≤ tA := by rcases out tA hcA with h | h <;> linarith
        have hB' : tB ≤ a := by rcases out tB hcB with h | h <;> linarith
        exact mul_nonpos_of_nonpos_of_nonneg (by linarith) (by linarith)
    have honm := (onSeg_collinear_iff s A B ((a + b) / 2) hdd hDE hA).mpr hm
    have : onBoundaryE (edges poly) (s.at ((a + b) / 2)) = true := by
      simp only [onBoundaryE, List.any_eq_true]
      exact ⟨(A, B), he, honm⟩
    simp only [insideStrict, insideStrictE, this, Bool.not_true, Bool.false_and] at hmid
    cases hmid

/-- completeness (partial, see header): the cut parameters partition [0,1]; a parameter that is
    not a cut lies strictly inside exactly one candidate piece, and a candidate piece is returned
    iff its midpoint is strictly inside the polygon -/
theorem clip_simple_cover (poly : List Pt) (s : Seg) (hpq : s.p ≠ s.q) (t : Rat)
    (h0 : 0 ≤ t) (h1 : t ≤ 1) :
    t ∈ cutsE s (edges poly) ∨
      ∃ ab ∈ pairs (cutsE s (edges poly)), ab.1 < t ∧ t < ab.2 ∧
        (ab ∈ clipSimpleRaw poly s ↔ insideStrict poly (s.at ((ab.1 + ab.2) / 2)) = true) := by
  have hz : (0 : Rat) ∈ cutsE s (edges poly) := by unfold cutsE; rw [mem_sortU]; simp
  have ho : (1 : Rat) ∈ cutsE s (edges poly) := by unfold cutsE; rw [mem_sortU]; simp
  have hsorted : (cutsE s (edges poly)).Pairwise (· < ·) := by unfold cutsE; exact pairwise_sortU _
  rcases pairs_cover (cutsE s (edges poly)) hsorted t ⟨0, hz, h0⟩ ⟨1, ho, h1⟩ with h | ⟨ab, hab, h2, h3⟩
  · left; exact h
  · right
    refine ⟨ab, hab, h2, h3, ?_⟩
    unfold clipSimpleRaw clipSimpleRawE
    rw [if_neg hpq, List.mem_filter]
    simp only [midIn, insideStrict]
    exact ⟨fun h => h.2, fun h => ⟨hab, h⟩⟩

/-- merging pieces that share an end point does not change the union -/
theorem mergeAux_union (cur : Rat × Rat) (rest : List (Rat × Rat)) (hc : cur.1 ≤ cur.2)
    (hr : ∀ ab ∈ rest, ab.1 ≤ ab.2) (t : Rat) :
    (∃ ab ∈ mergeAux cur rest, ab.1 ≤ t ∧ t ≤ ab.2) ↔
      ((cur.1 ≤ t ∧ t ≤ cur.2) ∨ ∃ ab ∈ rest, ab.1 ≤ t ∧ t ≤ ab.2) := by
  induction rest generalizing cur with
  | nil => simp [mergeAux]
  | cons x rest ih =>
    have hx := hr x (by simp)
    have hr' : ∀ ab ∈ rest, ab.1 ≤ ab.2 := fun ab h => hr ab (List.mem_cons_of_mem _ h)
    simp only [mergeAux]
    split_ifs with he
    · rw [ih (cur.1, x.2) (by simp only; linarith) hr']
      simp only [List.mem_cons, exists_eq_or_imp]
      constructor
      · rintro (⟨h1, h2⟩ | h)
        · rcases le_total t cur.2 with h | h
          · left; exact ⟨h1, h⟩
          · right; left; exact ⟨by linarith, h2⟩
        · right; right; exact h
      · rintro (⟨h1, h2⟩ | ⟨h1, h2⟩ | h)
        · left; exact ⟨h1, by linarith⟩
        · left; exact ⟨by linarith, h2⟩
        · right; exact h
    · simp only [List.mem_cons, exists_eq_or_imp]
      rw [ih x hx hr']

theorem merge_union (l : List (Rat × Rat)) (hl : ∀ ab ∈ l, ab.1 ≤ ab.2) (t : Rat) :
    (∃ ab ∈ merge l, ab.1 ≤ t ∧ t ≤ ab.2) ↔ (∃ ab ∈ l, ab.1 ≤ t ∧ t ≤ ab.2) := by
  cases l with
  | nil => simp [merge]
  | cons x xs =>
    simp only [merge]
    rw [mergeAux_union x xs (hl x (by simp)) (fun ab h => hl ab (List.mem_cons_of_mem _ h))]
    simp only [List.mem_cons, exists_eq_or_imp]

/-- … in particular for the pieces of `clipSimple` (what the harness compares with the code) -/
theorem clip_simple_merge_union (poly : List Pt) (s : Seg) (t : Rat) :
    (∃ ab ∈ clipSimple poly s, ab.1 ≤ t ∧ t ≤ ab.2) ↔
      (∃ ab ∈ clipSimpleRaw poly s, ab.1 ≤ t ∧ t ≤ ab.2) := by
  apply merge_union
  intro ab h
  exact (clip_simple_sound_partial poly s ab.1 ab.2 h).2.1.le

/-! ### polygons clipped by a convex polyhedron (Sutherland–Hodgman reference) -/

/-- every vertex of the clipped polygon satisfies every half-space of the polyhedron (a new
    vertex lies on the clipping plane and, being a convex combination of two vertices that satisfy
    the half-spaces treated before, still satisfies those) -/
theorem sh_clip_sound (hs : List HS) (poly : List P3) (X : P3) (hX : X ∈ shClip hs poly) :
    ∀ h ∈ hs, h.eval X ≤ 0 := by
  induction hs generalizing poly with
  | nil => intro h hh; cases hh
  | cons h hs ih =>
    intro g hg
    simp only [shClip] at hX
    rcases List.mem_cons.mp hg with rfl | hg
    · exact shClip_preserves hs g (shClip1 g poly) (fun P hP => shClip1_sound g poly P hP) X hX
    · exact ih (shClip1 h poly) hX g hg

/-- a polygon that is already inside is returned unchanged -/
theorem sh_clip_inside_unchanged (hs : List HS) (poly : List P3)
    (hin : ∀ P ∈ poly, ∀ h ∈ hs, h.eval P ≤ 0) : shClip hs poly = poly := by
  induction hs with
  | nil => rfl
  | cons h hs ih =>
    have h1 : shClip1 h poly = poly := by
      cases poly with
      | nil => rfl
      | cons a rest =>
        exact shAux_inside h a (a :: rest) (hin a (by simp) h (by simp)) (fun P hP => hin P hP h (by simp))
    simp only [shClip, h1]
    exact ih (fun P hP g hg => hin P hP g (List.mem_cons_of_mem _ hg))

/-! ### non-vacuity: concrete data for every theorem -/

section Examples

def sq : List Pt := [⟨0, 0⟩, ⟨2, 0⟩, ⟨2, 2⟩, ⟨0, 2⟩]
def sqCW : List Pt := [⟨0, 0⟩, ⟨0, 2⟩, ⟨2, 2⟩, ⟨2, 0⟩]
def lShape : List Pt := [⟨0, 0⟩, ⟨2, 0⟩, ⟨2, 1⟩, ⟨1, 1⟩, ⟨1, 2⟩, ⟨0, 2⟩]
def uShape : List Pt := [⟨0, 0⟩, ⟨3, 0⟩, ⟨3, 3⟩, ⟨2, 3⟩, ⟨2, 1⟩, ⟨1, 1⟩, ⟨1, 3⟩, ⟨0, 3⟩]
/-- the polygon of the repaired GeometryCollection defect (F14) -/
def f14 : List Pt := [⟨0, 0⟩, ⟨2, 0⟩, ⟨2, 9 / 10⟩, ⟨4, 1⟩, ⟨2, 11 / 10⟩, ⟨2, 2⟩, ⟨0, 2⟩]

-- a segment entering the square from the left: the right half is kept (both orientations)
example : clipConvex (halfPlanes sq) ⟨⟨-1, 1⟩, ⟨1, 1⟩⟩ = some (1 / 2, 1) := by decide +kernel
example : clipConvex (halfPlanes sqCW) ⟨⟨-1, 1⟩, ⟨1, 1⟩⟩ = some (1 / 2, 1) := by decide +kernel
example : clipConvexOpen (halfPlanes sq) ⟨⟨-1, 1⟩, ⟨3, 1⟩⟩ = some (1 / 4, 3 / 4) := by decide +kernel
-- along the lower edge: closed intersection non-empty, dropped by the convention
example : clipConvex (halfPlanes sq) ⟨⟨-1, 0⟩, ⟨1, 0⟩⟩ = some (1 / 2, 1) := by decide +kernel
example : clipConvexOpen (halfPlanes sq) ⟨⟨-1, 0⟩, ⟨1, 0⟩⟩ = none := by decide +kernel
-- touching the corner (2,2) from outside: a single point, dropped
example : clipConvex (halfPlanes sq) ⟨⟨1, 3⟩, ⟨3, 1⟩⟩ = some (1 / 2, 1 / 2) := by decide +kernel
example : clipConvexOpen (halfPlanes sq) ⟨⟨1, 3⟩, ⟨3, 1⟩⟩ = none := by decide +kernel
-- a segment of zero length inside the square: a point of the region, dropped by the convention
example : clipConvex (halfPlanes sq) ⟨⟨1, 1⟩, ⟨1, 1⟩⟩ = some (0, 1) := by decide +kernel
example : clipConvexOpen (halfPlanes sq) ⟨⟨1, 1⟩, ⟨1, 1⟩⟩ = none := by decide +kernel
-- missing the square
example : clipConvex (halfPlanes sq) ⟨⟨3, 0⟩, ⟨4, 5⟩⟩ = none := by decide +kernel
-- crossing the notch of the U: two pieces
example : clipSimple uShape ⟨⟨-1, 2⟩, ⟨4, 2⟩⟩ = [(1 / 5, 2 / 5), (3 / 5, 4 / 5)] := by decide +kernel
-- through the reflex vertex of the L: two raw pieces, one after merging
example : clipSimpleRaw lShape ⟨⟨0, 2⟩, ⟨2, 0⟩⟩ = [(0, 1 / 2), (1 / 2, 1)] := by decide +kernel
example : clipSimple lShape ⟨⟨0, 2⟩, ⟨2, 0⟩⟩ = [(0, 1)] := by decide +kernel
-- along an edge of the L and then into its interior: only the interior part
example : clipSimple lShape ⟨⟨1, 2⟩, ⟨1, 0⟩⟩ = [(1 / 2, 1)] := by decide +kernel
-- F14: the piece over x ∈ [0,2] is kept, the touching point (4,1) is not
example : clipSimple f14 ⟨⟨-1, 9 / 4⟩, ⟨5, 3 / 4⟩⟩ = [(1 / 6, 1 / 2)] := by decide +kernel
-- Sutherland–Hodgman: the triangle (-1,1,2),(1,1,1),(3,1,2) cut by 0 ≤ x ≤ 2, 0 ≤ z ≤ 2
example : shClip [⟨1, 0, 0, 2⟩, ⟨-1, 0, 0, 0⟩, ⟨0, 0, 1, 2⟩, ⟨0, 0, -1, 0⟩] [⟨-1, 1, 2⟩, ⟨1, 1, 1⟩, ⟨3, 1, 2⟩]
    = [⟨0, 1, 3 / 2⟩, ⟨1, 1, 1⟩, ⟨2, 1, 3 / 2⟩, ⟨2, 1, 2⟩, ⟨0, 1, 2⟩] := by decide +kernel

end Examples

end PorepyVerif.C44
