/-
C44 — property theorems.

Property: clipping line segments by a polygon (and polygons by a polyhedron) returns pieces that lie
inside the clipping region and whose union equals the intersection of the input with that region.

`lines_by_polygon` calls a library (shapely), so the theorems are about the exact SPECIFICATION in
Model.lean that the wrapper is tested against (correspondence harness/props/c44.py):

convex region (list of closed half-planes, e.g. `halfPlanes poly`):
  `clip_convex_sound`, `clip_convex_complete`, `clip_convex_exact`  — the returned parameter
       interval IS  {t ∈ [0,1] | s(t) in every half-plane}  (= segment ∩ region), for all inputs;
  `clip_convex_open_strict`, `clip_convex_dropped_on_boundary` — the convention of the code
       (zero-length and boundary-only pieces are not returned) removes nothing of the interior.
simple, possibly non-convex polygon (`clipSimpleRaw`, inside = even–odd rule with the ray along the
clipped segment, boundary points not inside):
  `clip_simple_exact_evenodd` — for every parameter t ∈ [0,1] that is not one of the finitely many cut
       parameters:  t lies in a returned piece  ⇔  s(t) is strictly inside (even–odd).  All inputs,
       also non-simple polygons.  Parts: `clip_simple_piece_inside` (EVERY point of a returned piece
       is inside, not only its midpoint: the parity cannot change because the open piece never meets
       the boundary, `clip_simple_piece_off_boundary`), `clip_simple_dropped_not_inside`,
       `clip_simple_cover`, `clip_simple_sound_partial`, `merge_union`.
polygon clipped by the half-spaces of a convex polyhedron (Sutherland–Hodgman):
  `sh_clip_sound`, `sh_clip_inside_unchanged` (3d, any polygon); `sh2_complete`, `sh2_sound`,
  `sh2_convex1` … (convex counter-clockwise polygons, in the plane), `sh_clip_planar`,
  `sh_clip_complete_planar` (transport to 3d); `sh2_hull_sound` (hull of the output ⊆ polygon ∩
  half-planes); `inRegion_halfPlanes_iff` (the region of `clipConvex` and `InPoly` coincide).

WHAT REMAINS UNPROVED
  * that the even–odd rule decides the topological interior of a SIMPLE polygon (Jordan curve theorem
    for polygons, independence of the ray direction).  With it `clip_simple_exact_evenodd` reads
    "returned pieces = closure (segment ∩ interior)".  For convex polygons the harness compares the
    fully proved half-plane model with the crossing model on every convex case.
  * Minkowski–Weyl for convex polygons (region `InPoly` = convex hull of the vertices), see the
    Sutherland–Hodgman section.
-/
import PorepyVerif.C44.Lemmas

namespace PorepyVerif.C44

/-- the closed convex region cut out by a list of half-planes -/
def InRegion (hs : List HP) (P : Pt) : Prop := ∀ h ∈ hs, h.eval P ≤ 0

/-- the half-planes produced from polygon edges mean "to the left of (or on) the directed edge" -/
theorem halfplane_is_left_of_edge (A B P : Pt) :
    (hpOfEdge A B).eval P = - cross (B.sub A) (P.sub A) := by
  simp only [hpOfEdge, HP.eval, cross, Pt.sub]; ring

/-! ### convex region -/

/-- HEADLINE: the returned interval is exactly the set of parameters of segment ∩ region. -/
theorem clip_convex_exact (hs : List HP) (s : Seg) (t : Rat) :
    inIv (clipConvex hs s) t ↔ (0 ≤ t ∧ t ≤ 1 ∧ InRegion hs (s.at t)) := by
  unfold clipConvex InRegion
  rw [clipFrom_spec]
  simp only [inIv]
  tauto

/-- soundness: every point of the returned parameter interval is a point of the segment that
    satisfies all half-plane inequalities -/
theorem clip_convex_sound (hs : List HP) (s : Seg) (lo hi : Rat)
    (h : clipConvex hs s = some (lo, hi)) (t : Rat) (h1 : lo ≤ t) (h2 : t ≤ hi) :
    0 ≤ t ∧ t ≤ 1 ∧ InRegion hs (s.at t) := by
  apply (clip_convex_exact hs s t).mp
  rw [h]; exact ⟨h1, h2⟩

/-- completeness: every point of the segment inside the region lies in the returned interval -/
theorem clip_convex_complete (hs : List HP) (s : Seg) (t : Rat) (h0 : 0 ≤ t) (h1 : t ≤ 1)
    (hin : InRegion hs (s.at t)) :
    ∃ lo hi, clipConvex hs s = some (lo, hi) ∧ lo ≤ t ∧ t ≤ hi := by
  have := (clip_convex_exact hs s t).mpr ⟨h0, h1, hin⟩
  cases hc : clipConvex hs s with
  | none => rw [hc] at this; exact this.elim
  | some p => obtain ⟨lo, hi⟩ := p; rw [hc] at this; exact ⟨lo, hi, rfl, this⟩

/-- `none` is returned only when the segment misses the region; a returned interval is non-empty
    (so its end points are points of segment ∩ region) -/
theorem clip_convex_none_or_nonempty (hs : List HP) (s : Seg) :
    (clipConvex hs s = none → ∀ t, 0 ≤ t → t ≤ 1 → ¬ InRegion hs (s.at t)) ∧
    (∀ lo hi, clipConvex hs s = some (lo, hi) → lo ≤ hi) := by
  constructor
  · intro h t h0 h1 hin
    have := (clip_convex_exact hs s t).mpr ⟨h0, h1, hin⟩
    rw [h] at this; exact this
  · intro lo hi h
    have := clipFrom_ok s hs (some (0, 1)) (by simp [IvOk])
    unfold clipConvex at h
    rw [h] at this; exact this

/-- a piece that survives the convention of the code (positive length, midpoint strictly inside)
    is the closed interval of `clipConvex`, and all its interior points are strictly inside every
    half-plane: nothing but its two end points can be on the boundary -/
theorem clip_convex_open_strict (hs : List HP) (s : Seg) (lo hi : Rat)
    (h : clipConvexOpen hs s = some (lo, hi)) :
    lo < hi ∧ clipConvex hs s = some (lo, hi) ∧
      ∀ t, lo < t → t < hi → ∀ g ∈ hs, g.eval (s.at t) < 0 := by
  unfold clipConvexOpen at h
  cases hc : clipConvex hs s with
  | none => rw [hc] at h; cases h
  | some p =>
    obtain ⟨l, u⟩ := p
    rw [hc] at h
    simp only at h
    split_ifs at h with hcond
    obtain ⟨rfl, rfl⟩ := Prod.mk.inj (Option.some.inj h)
    refine ⟨hcond.2.1, rfl, ?_⟩
    intro t ht1 ht2 g hg
    have hlo := (clip_convex_sound hs s l u hc l (le_refl _) hcond.2.1.le).2.2 g hg
    have hhi := (clip_convex_sound hs s l u hc u hcond.2.1.le (le_refl _)).2.2 g hg
    have hmid : g.eval (s.at ((l + u) / 2)) < 0 := by
      have := hcond.2.2
      simp only [strictlyInside, List.all_eq_true, decide_eq_true_eq] at this
      exact this g hg
    rw [eval_at] at hlo hhi hmid ⊢
    generalize g.eval s.q - g.eval s.p = d at *
    generalize g.eval s.p = n at *
    rcases lt_trichotomy d 0 with hd | hd | hd
    · have := mul_lt_mul_of_neg_right ht1 hd; linarith
    · subst hd; linarith
    · have := mul_lt_mul_of_pos_right ht2 hd; linarith

/-- what the convention drops: a segment of zero length, an interval reduced to a point, or a
    piece along which some half-plane function vanishes identically (the segment runs in the
    boundary line) -/
theorem clip_convex_dropped_on_boundary (hs : List HP) (s : Seg) (lo hi : Rat)
    (hc : clipConvex hs s = some (lo, hi)) (ho : clipConvexOpen hs s = none) :
    s.p = s.q ∨ lo = hi ∨ ∃ g ∈ hs, ∀ t, g.eval (s.at t) = 0 := by
  have hle := (clip_convex_none_or_nonempty hs s).2 lo hi hc
  by_cases hpq : s.p = s.q
  · left; exact hpq
  right
  by_cases hlt : lo < hi
  · right
    unfold clipConvexOpen at ho
    rw [hc] at ho
    simp only at ho
    split_ifs at ho with hcond
    have hns : ¬ (strictlyInside hs (s.at ((lo + hi) / 2)) = true) := fun h => hcond ⟨hpq, hlt, h⟩
    simp only [strictlyInside, List.all_eq_true, decide_eq_true_eq, not_forall] at hns
    obtain ⟨g, hg, hge⟩ := hns
    refine ⟨g, hg, ?_⟩
    have hlo := (clip_convex_sound hs s lo hi hc lo (le_refl _) hle).2.2 g hg
    have hhi := (clip_convex_sound hs s lo hi hc hi hle (le_refl _)).2.2 g hg
    have hmid := (clip_convex_sound hs s lo hi hc ((lo + hi) / 2) (by linarith) (by linarith)).2.2 g hg
    intro t
    rw [eval_at] at hlo hhi hmid hge ⊢
    generalize g.eval s.q - g.eval s.p = d at *
    generalize g.eval s.p = n at *
    have hm0 : n + (lo + hi) / 2 * d = 0 := le_antisymm hmid (not_lt.mp hge)
    have h1 : n + lo * d = 0 := by linarith
    have h2 : n + hi * d = 0 := by linarith
    have hd : (hi - lo) * d = 0 := by linarith
    rcases mul_eq_zero.mp hd with h | h
    · exact absurd hlt (by linarith)
    · subst h; linarith
  · left; exact le_antisymm hle (not_lt.mp hlt)

/-! ### simple (possibly non-convex) polygon -/

theorem mem_raw_iff (poly : List Pt) (s : Seg) (ab : Rat × Rat) :
    ab ∈ clipSimpleRaw poly s ↔
      s.p ≠ s.q ∧ ab ∈ pairs (cutsE s (edges poly)) ∧
        insideAlong s (edges poly) ((ab.1 + ab.2) / 2) = true := by
  unfold clipSimpleRaw clipSimpleRawE
  by_cases hpq : s.p = s.q
  · simp [hpq]
  · rw [if_neg hpq, List.mem_filter]
    simp [midIn, hpq]

/-- soundness (midpoint form): a returned piece is a sub-interval of [0,1] of positive length, its
    midpoint is strictly inside the polygon (even–odd rule), and no boundary crossing parameter lies
    strictly inside it -/
theorem clip_simple_sound_partial (poly : List Pt) (s : Seg) (a b : Rat)
    (h : (a, b) ∈ clipSimpleRaw poly s) :
    0 ≤ a ∧ a < b ∧ b ≤ 1 ∧ insideAlong s (edges poly) ((a + b) / 2) = true ∧
      ∀ c ∈ crossingsE s (edges poly), ¬ (a < c ∧ c < b) := by
  obtain ⟨_, hp, hm⟩ := (mem_raw_iff poly s (a, b)).mp h
  obtain ⟨h0, h1, h2, h3⟩ := pair_facts s _ a b hp
  exact ⟨h0, h1, h2, hm, h3⟩

/-- the open piece does not meet the polygon boundary at all — not only "no crossing parameter in
    the list": a transversal edge would contribute a crossing parameter, and an edge collinear with
    the segment that met the open piece would contain the whole piece, hence its midpoint -/
theorem clip_simple_piece_off_boundary (poly : List Pt) (s : Seg) (a b : Rat)
    (h : (a, b) ∈ clipSimpleRaw poly s) (t : Rat) (hat : a < t) (htb : t < b) :
    onBoundaryE (edges poly) (s.at t) = false := by
  obtain ⟨hpq, hp, hm⟩ := (mem_raw_iff poly s (a, b)).mp h
  apply pair_off_boundary s _ a b hp (dd_ne_zero s hpq) _ t hat htb
  simp only [insideAlong, Bool.and_eq_true, Bool.not_eq_true'] at hm
  exact hm.1

/-- soundness (every point): EVERY interior point of a returned piece is strictly inside the polygon
    in the sense of the even–odd rule (off the boundary, odd number of boundary crossings ahead) —
    the parity cannot change along the piece because the piece never meets the boundary -/
theorem clip_simple_piece_inside (poly : List Pt) (s : Seg) (a b : Rat)
    (h : (a, b) ∈ clipSimpleRaw poly s) (t : Rat) (hat : a < t) (htb : t < b) :
    insideAlong s (edges poly) t = true := by
  obtain ⟨hpq, hp, hm⟩ := (mem_raw_iff poly s (a, b)).mp h
  rw [pair_insideAlong_const s _ a b hp (dd_ne_zero s hpq) t hat htb]
  exact hm

/-- completeness (every point): no interior point of a candidate piece that is NOT returned is
    strictly inside the polygon (it is on the boundary, or has an even number of crossings ahead) -/
theorem clip_simple_dropped_not_inside (poly : List Pt) (s : Seg) (hpq : s.p ≠ s.q) (a b : Rat)
    (hp : (a, b) ∈ pairs (cutsE s (edges poly))) (hn : (a, b) ∉ clipSimpleRaw poly s)
    (t : Rat) (hat : a < t) (htb : t < b) : insideAlong s (edges poly) t = false := by
  rw [pair_insideAlong_const s _ a b hp (dd_ne_zero s hpq) t hat htb]
  by_contra hc
  apply hn
  exact (mem_raw_iff poly s (a, b)).mpr ⟨hpq, hp, by simpa using hc⟩

/-- the cut parameters partition [0,1]: a parameter that is not a cut lies strictly inside exactly
    one candidate piece, and a candidate piece is returned iff its midpoint is strictly inside -/
theorem clip_simple_cover (poly : List Pt) (s : Seg) (hpq : s.p ≠ s.q) (t : Rat)
    (h0 : 0 ≤ t) (h1 : t ≤ 1) :
    t ∈ cutsE s (edges poly) ∨
      ∃ ab ∈ pairs (cutsE s (edges poly)), ab.1 < t ∧ t < ab.2 ∧
        (ab ∈ clipSimpleRaw poly s ↔ insideAlong s (edges poly) ((ab.1 + ab.2) / 2) = true) := by
  have hz : (0 : Rat) ∈ cutsE s (edges poly) := by unfold cutsE; rw [mem_sortU]; simp
  have ho : (1 : Rat) ∈ cutsE s (edges poly) := by unfold cutsE; rw [mem_sortU]; simp
  rcases pairs_cover (cutsE s (edges poly)) (cuts_sorted s _) t ⟨0, hz, h0⟩ ⟨1, ho, h1⟩ with h | ⟨ab, hab, h2, h3⟩
  · left; exact h
  · right
    refine ⟨ab, hab, h2, h3, ?_⟩
    rw [mem_raw_iff]
    exact ⟨fun h => h.2.2, fun h => ⟨hpq, hab, h⟩⟩

/-- HEADLINE for arbitrary (also non-convex, also non-simple) polygons: up to the finitely many cut
    parameters, the returned pieces are EXACTLY the parameters of the points of the segment that are
    strictly inside the polygon in the sense of the even–odd rule -/
theorem clip_simple_exact_evenodd (poly : List Pt) (s : Seg) (hpq : s.p ≠ s.q) (t : Rat)
    (h0 : 0 ≤ t) (h1 : t ≤ 1) (hcut : t ∉ cutsE s (edges poly)) :
    (∃ ab ∈ clipSimpleRaw poly s, ab.1 < t ∧ t < ab.2) ↔ insideAlong s (edges poly) t = true := by
  constructor
  · rintro ⟨⟨a, b⟩, hab, h2, h3⟩
    exact clip_simple_piece_inside poly s a b hab t h2 h3
  · intro hin
    rcases clip_simple_cover poly s hpq t h0 h1 with h | ⟨⟨a, b⟩, hab, h2, h3, _⟩
    · exact absurd h hcut
    · by_cases hr : (a, b) ∈ clipSimpleRaw poly s
      · exact ⟨(a, b), hr, h2, h3⟩
      · have := clip_simple_dropped_not_inside poly s hpq a b hab hr t h2 h3
        rw [this] at hin; cases hin

/-- merging pieces that share an end point does not change the union -/
theorem mergeAux_union (cur : Rat × Rat) (rest : List (Rat × Rat)) (hc : cur.1 ≤ cur.2)
    (hr : ∀ ab ∈ rest, ab.1 ≤ ab.2) (t : Rat) :
    (∃ ab ∈ mergeAux cur rest, ab.1 ≤ t ∧ t ≤ ab.2) ↔
      ((cur.1 ≤ t ∧ t ≤ cur.2) ∨ ∃ ab ∈ rest, ab.1 ≤ t ∧ t ≤ ab.2) := by
  induction rest generalizing cur with
  | nil => simp [mergeAux]
  | cons x rest ih =>
    have hx := hr x (by simp)
    have hr' : ∀ ab ∈ rest, ab.1 ≤ ab.2 := fun ab h => hr ab (List.mem_cons_of_mem _ h)
    simp only [mergeAux]
    split_ifs with he
    · rw [ih (cur.1, x.2) (by simp only; linarith) hr']
      simp only [List.mem_cons, exists_eq_or_imp]
      constructor
      · rintro (⟨h1, h2⟩ | h)
        · rcases le_total t cur.2 with h | h
          · left; exact ⟨h1, h⟩
          · right; left; exact ⟨by linarith, h2⟩
        · right; right; exact h
      · rintro (⟨h1, h2⟩ | ⟨h1, h2⟩ | h)
        · left; exact ⟨h1, by linarith⟩
        · left; exact ⟨by linarith, h2⟩
        · right; exact h
    · simp only [List.mem_cons, exists_eq_or_imp]
      rw [ih x hx hr']

theorem merge_union (l : List (Rat × Rat)) (hl : ∀ ab ∈ l, ab.1 ≤ ab.2) (t : Rat) :
    (∃ ab ∈ merge l, ab.1 ≤ t ∧ t ≤ ab.2) ↔ (∃ ab ∈ l, ab.1 ≤ t ∧ t ≤ ab.2) := by
  cases l with
  | nil => simp [merge]
  | cons x xs =>
    simp only [merge]
    rw [mergeAux_union x xs (hl x (by simp)) (fun ab h => hl ab (List.mem_cons_of_mem _ h))]
    simp only [List.mem_cons, exists_eq_or_imp]

/-- … in particular for the pieces of `clipSimple` (what the harness compares with the code) -/
theorem clip_simple_merge_union (poly : List Pt) (s : Seg) (t : Rat) :
    (∃ ab ∈ clipSimple poly s, ab.1 ≤ t ∧ t ≤ ab.2) ↔
      (∃ ab ∈ clipSimpleRaw poly s, ab.1 ≤ t ∧ t ≤ ab.2) := by
  apply merge_union
  intro ab h
  exact (clip_simple_sound_partial poly s ab.1 ab.2 h).2.1.le

/-! ### polygons clipped by a convex polyhedron (Sutherland–Hodgman reference) -/

/-- every vertex of the clipped polygon satisfies every half-space of the polyhedron (a new
    vertex lies on the clipping plane and, being a convex combination of two vertices that satisfy
    the half-spaces treated before, still satisfies those) -/
theorem sh_clip_sound (hs : List HS) (poly : List P3) (X : P3) (hX : X ∈ shClip hs poly) :
    ∀ h ∈ hs, h.eval X ≤ 0 := by
  induction hs generalizing poly with
  | nil => intro h hh; cases hh
  | cons h hs ih =>
    intro g hg
    simp only [shClip] at hX
    rcases List.mem_cons.mp hg with rfl | hg
    · exact shClip_preserves hs g (shClip1 g poly) (fun P hP => shClip1_sound g poly P hP) X hX
    · exact ih (shClip1 h poly) hX g hg

/-- a polygon that is already inside is returned unchanged -/
theorem sh_clip_inside_unchanged (hs : List HS) (poly : List P3)
    (hin : ∀ P ∈ poly, ∀ h ∈ hs, h.eval P ≤ 0) : shClip hs poly = poly := by
  induction hs with
  | nil => rfl
  | cons h hs ih =>
    have h1 : shClip1 h poly = poly := by
      cases poly with
      | nil => rfl
      | cons a rest =>
        exact shAux_inside h a (a :: rest) (hin a (by simp) h (by simp)) (fun P hP => hin P hP h (by simp))
    simp only [shClip, h1]
    exact ih (fun P hP g hg => hin P hP g (List.mem_cons_of_mem _ hg))

/-! ### Sutherland–Hodgman COMPLETENESS for convex polygons (in the plane of the polygon)

Region of a convex counter-clockwise polygon = H-representation `InPoly` (to the left of, or on,
every edge); `ConvexCCW` = every vertex is in that region.  Proved: clipping by a half-plane list
loses nothing (`sh2_complete`), adds nothing (`sh2_sound`), and keeps the polygon convex and
counter-clockwise (so the theorems iterate).  `sh_clip_planar` transports this to the 3d algorithm
applied to a planar polygon.

NOT proved (what remains for "= polygon ∩ polyhedron as point sets" in the V-representation):
that for a convex counter-clockwise polygon the region `InPoly` equals the convex hull of the
vertices (Minkowski–Weyl for polygons).  It matters only in the degenerate outputs: for an output
with fewer than three distinct vertices `InPoly` is a half-plane intersection that can be larger
than the hull (e.g. the empty output when nothing of the polygon is inside). -/

/-- completeness, one half-plane: a point of the polygon that satisfies the half-plane is in the
    clipped polygon -/
theorem sh2_complete1 (h : HP) (poly : List Pt) (hc : ConvexCCW poly) (X : Pt)
    (hX : InPoly poly X) (h0 : h.eval X ≤ 0) : InPoly (shClip12 h poly) X :=
  fun e he => clip_edges_good poly h hc e he X hX h0

/-- soundness, one half-plane: every vertex of the clipped polygon is a point of the polygon that
    satisfies the half-plane -/
theorem sh2_sound1 (h : HP) (poly : List Pt) (hc : ConvexCCW poly) (Y : Pt)
    (hY : Y ∈ shClip12 h poly) : InPoly poly Y ∧ h.eval Y ≤ 0 := by
  refine ⟨fun e he => ?_, shClip12_sound h poly Y hY⟩
  exact shClip12_preserves h poly (fun X => leftOf e.1 e.2 X) (fun C D r => leftOf_lerp2 _ _ C D r)
    (fun P hP => hc P hP e he) Y hY

/-- the clipped polygon is again convex and counter-clockwise -/
theorem sh2_convex1 (h : HP) (poly : List Pt) (hc : ConvexCCW poly) : ConvexCCW (shClip12 h poly) := by
  intro V hV
  obtain ⟨h1, h2⟩ := sh2_sound1 h poly hc V hV
  exact sh2_complete1 h poly hc V h1 h2

/-- COMPLETENESS for a list of half-planes (the faces of a convex polyhedron seen in the plane of
    the polygon): every point of the polygon that satisfies all of them is in the result, which is
    again convex and counter-clockwise -/
theorem sh2_complete (hs : List HP) (poly : List Pt) (hc : ConvexCCW poly) (X : Pt)
    (hX : InPoly poly X) (hall : ∀ h ∈ hs, h.eval X ≤ 0) :
    ConvexCCW (shClip2 hs poly) ∧ InPoly (shClip2 hs poly) X := by
  induction hs generalizing poly with
  | nil => exact ⟨hc, hX⟩
  | cons h hs ih =>
    simp only [shClip2]
    exact ih (shClip12 h poly) (sh2_convex1 h poly hc)
      (sh2_complete1 h poly hc X hX (hall h (by simp))) (fun g hg => hall g (List.mem_cons_of_mem _ hg))

/-- SOUNDNESS for a list of half-planes: every vertex of the result satisfies all half-planes and is
    a point of the original polygon -/
theorem sh2_sound (hs : List HP) (poly : List Pt) (Y : Pt) (hY : Y ∈ shClip2 hs poly) :
    (∀ h ∈ hs, h.eval Y ≤ 0) ∧ (ConvexCCW poly → InPoly poly Y) := by
  constructor
  · induction hs generalizing poly with
    | nil => intro h hh; cases hh
    | cons h hs ih =>
      intro g hg
      simp only [shClip2] at hY
      rcases List.mem_cons.mp hg with rfl | hg
      · have := shClip2_preserves hs (shClip12 g poly) (fun X => -g.eval X)
          (fun C D r => by simp only [eval_lerp2]; ring)
          (fun P hP => by have := shClip12_sound g poly P hP; linarith) Y hY
        linarith
      · exact ih (shClip12 h poly) hY g hg
  · intro hc e he
    exact shClip2_preserves hs poly (fun X => leftOf e.1 e.2 X) (fun C D r => leftOf_lerp2 _ _ C D r)
      (fun P hP => hc P hP e he) Y hY

/-- the 3d algorithm applied to a planar polygon `O + u U + v V` is the 2d algorithm applied to the
    `(u, v)` coordinates with the half-spaces pulled back to the plane -/
theorem sh_clip_planar (O U V : P3) (hs : List HS) (poly : List Pt) :
    shClip hs (poly.map (embed O U V))
      = (shClip2 (hs.map (pullHS O U V)) poly).map (embed O U V) := by
  induction hs generalizing poly with
  | nil => rfl
  | cons h hs ih => simp only [shClip, List.map_cons, shClip2, shClip1_embed, ih]

/-- … hence for a planar convex polygon and the half-spaces of a convex polyhedron: the result of the
    3d clipping is the image of a convex counter-clockwise polygon that contains (the coordinates
    of) every point of the input polygon lying in all half-spaces, and all of whose vertices lie in
    the input polygon and in all half-spaces -/
theorem sh_clip_complete_planar (O U V : P3) (hs : List HS) (poly : List Pt) (hc : ConvexCCW poly) :
    ∃ out : List Pt, shClip hs (poly.map (embed O U V)) = out.map (embed O U V) ∧ ConvexCCW out ∧
      (∀ p, InPoly poly p → (∀ h ∈ hs, h.eval (embed O U V p) ≤ 0) → InPoly out p) ∧
      (∀ q ∈ out, InPoly poly q ∧ ∀ h ∈ hs, h.eval (embed O U V q) ≤ 0) := by
  refine ⟨shClip2 (hs.map (pullHS O U V)) poly, sh_clip_planar O U V hs poly, ?_, ?_, ?_⟩
  · have : ∀ (gs : List HP) (P : List Pt), ConvexCCW P → ConvexCCW (shClip2 gs P) := by
      intro gs
      induction gs with
      | nil => intro P hP; exact hP
      | cons g gs ih => intro P hP; exact ih _ (sh2_convex1 g P hP)
    exact this _ poly hc
  · intro p hp hall
    refine (sh2_complete _ poly hc p hp ?_).2
    intro g hg
    obtain ⟨h, hh, rfl⟩ := List.mem_map.mp hg
    rw [← eval_embed]; exact hall h hh
  · intro q hq
    obtain ⟨h1, h2⟩ := sh2_sound _ poly q hq
    refine ⟨h2 hc, fun h hh => ?_⟩
    rw [eval_embed]; exact h1 _ (List.mem_map.mpr ⟨h, hh, rfl⟩)

/-- the half-planes of a counter-clockwise polygon (segment clipping, `clipConvex`) cut out the same
    region as `InPoly` (polygon clipping): one notion of "convex region" serves both halves -/
theorem inRegion_halfPlanes_iff (poly : List Pt) (hccw : ¬ area2 poly < 0) (X : Pt) :
    InRegion (halfPlanes poly) X ↔ InPoly poly X := by
  unfold InRegion halfPlanes InPoly
  simp only [hccw, if_false, List.mem_map, forall_exists_index, and_imp, forall_apply_eq_imp_iff₂,
    halfplane_is_left_of_edge, leftOf]
  constructor <;> intro h e he <;> have := h e he <;> linarith

/-- an affine constraint satisfied by the vertices is satisfied by their convex combinations -/
theorem eval_comb (h : HP) (ws : List Rat) (vs : List Pt) (hw : ∀ w ∈ ws, 0 ≤ w)
    (hv : ∀ v ∈ vs, h.eval v ≤ 0) :
    h.a * (comb ws vs).x + h.b * (comb ws vs).y - h.c * wsum ws vs ≤ 0 := by
  induction ws generalizing vs with
  | nil => simp [comb, wsum]
  | cons w ws ih =>
    cases vs with
    | nil => simp [comb, wsum]
    | cons v vs =>
      have h1 := ih vs (fun x hx => hw x (List.mem_cons_of_mem _ hx)) (fun x hx => hv x (List.mem_cons_of_mem _ hx))
      have h2 := hv v (by simp)
      have h3 := hw w (by simp)
      simp only [comb, wsum]
      simp only [HP.eval] at h2
      nlinarith [mul_nonneg h3 (neg_nonneg.mpr h2)]

/-- V-representation soundness: the whole convex hull of the output vertices lies in the input
    polygon and in every half-plane:  hull (out) ⊆ polygon ∩ half-planes ⊆ InPoly (out)
    (second inclusion: `sh2_complete`) -/
theorem sh2_hull_sound (hs : List HP) (poly : List Pt) (hc : ConvexCCW poly) (X : Pt)
    (hX : InHull (shClip2 hs poly) X) : InPoly poly X ∧ ∀ h ∈ hs, h.eval X ≤ 0 := by
  obtain ⟨ws, hw, hsum, rfl⟩ := hX
  constructor
  · intro e he
    have := eval_comb (hpOfEdge e.1 e.2) ws _ hw (fun v hv => by
      have := ((sh2_sound hs poly v hv).2 hc) e he
      rw [halfplane_is_left_of_edge]; simp only [leftOf] at this; linarith)
    rw [hsum] at this
    have e2 := halfplane_is_left_of_edge e.1 e.2 (comb ws (shClip2 hs poly))
    simp only [HP.eval] at e2
    simp only [leftOf]
    linarith
  · intro h hh
    have := eval_comb h ws _ hw (fun v hv => (sh2_sound hs poly v hv).1 h hh)
    rw [hsum] at this
    simp only [HP.eval]; linarith

/-! ### the hypotheses as decidable input conditions (evaluated by the driver on every case) -/

theorem convexCCWb_iff (poly : List Pt) : convexCCWb poly = true ↔ ConvexCCW poly := by
  simp [convexCCWb, ConvexCCW, InPoly, List.all_eq_true]

/-- clockwise input: `halfPlanes` reverses the vertex order first -/
theorem inRegion_halfPlanes_cw (poly : List Pt) (hcw : area2 poly < 0) (X : Pt) :
    InRegion (halfPlanes poly) X ↔ InPoly poly.reverse X := by
  unfold InRegion halfPlanes InPoly
  simp only [hcw, if_true, List.mem_map, forall_exists_index, and_imp, forall_apply_eq_imp_iff₂,
    halfplane_is_left_of_edge, leftOf]
  constructor <;> intro h e he <;> have := h e he <;> linarith

/-- the property for a convex polygon given by its vertices (counter-clockwise): the returned
    interval is exactly the set of parameters of the points of the segment in the polygon -/
theorem clip_convex_polygon_exact (poly : List Pt) (hccw : ¬ area2 poly < 0) (s : Seg) (t : Rat) :
    inIv (clipConvex (halfPlanes poly) s) t ↔ (0 ≤ t ∧ t ≤ 1 ∧ InPoly poly (s.at t)) := by
  rw [clip_convex_exact, inRegion_halfPlanes_iff poly hccw]

/-- the property for the 3d clipping with the convexity hypothesis in decidable form: if the driver's
    test `convexCCWb` succeeds on the plane coordinates of the polygon, the clipped polygon contains
    every point of the polygon lying in all half-spaces and consists of such points only -/
theorem sh_clip_complete_decidable (O U V : P3) (hs : List HS) (poly : List Pt)
    (hb : convexCCWb poly = true) :
    ∃ out : List Pt, shClip hs (poly.map (embed O U V)) = out.map (embed O U V) ∧ convexCCWb out = true ∧
      (∀ p, InPoly poly p → (∀ h ∈ hs, h.eval (embed O U V p) ≤ 0) → InPoly out p) ∧
      (∀ q ∈ out, InPoly poly q ∧ ∀ h ∈ hs, h.eval (embed O U V q) ≤ 0) := by
  obtain ⟨out, h1, h2, h3, h4⟩ := sh_clip_complete_planar O U V hs poly ((convexCCWb_iff poly).mp hb)
  exact ⟨out, h1, (convexCCWb_iff out).mpr h2, h3, h4⟩

/-! ### non-vacuity: concrete data for every theorem -/

section Examples

def sq : List Pt := [⟨0, 0⟩, ⟨2, 0⟩, ⟨2, 2⟩, ⟨0, 2⟩]
def sqCW : List Pt := [⟨0, 0⟩, ⟨0, 2⟩, ⟨2, 2⟩, ⟨2, 0⟩]
def lShape : List Pt := [⟨0, 0⟩, ⟨2, 0⟩, ⟨2, 1⟩, ⟨1, 1⟩, ⟨1, 2⟩, ⟨0, 2⟩]
def uShape : List Pt := [⟨0, 0⟩, ⟨3, 0⟩, ⟨3, 3⟩, ⟨2, 3⟩, ⟨2, 1⟩, ⟨1, 1⟩, ⟨1, 3⟩, ⟨0, 3⟩]
/-- the polygon of the repaired GeometryCollection defect (F14) -/
def f14 : List Pt := [⟨0, 0⟩, ⟨2, 0⟩, ⟨2, 9 / 10⟩, ⟨4, 1⟩, ⟨2, 11 / 10⟩, ⟨2, 2⟩, ⟨0, 2⟩]

-- a segment entering the square from the left: the right half is kept (both orientations)
example : clipConvex (halfPlanes sq) ⟨⟨-1, 1⟩, ⟨1, 1⟩⟩ = some (1 / 2, 1) := by decide +kernel
example : clipConvex (halfPlanes sqCW) ⟨⟨-1, 1⟩, ⟨1, 1⟩⟩ = some (1 / 2, 1) := by decide +kernel
example : clipConvexOpen (halfPlanes sq) ⟨⟨-1, 1⟩, ⟨3, 1⟩⟩ = some (1 / 4, 3 / 4) := by decide +kernel
-- along the lower edge: closed intersection non-empty, dropped by the convention
example : clipConvex (halfPlanes sq) ⟨⟨-1, 0⟩, ⟨1, 0⟩⟩ = some (1 / 2, 1) := by decide +kernel
example : clipConvexOpen (halfPlanes sq) ⟨⟨-1, 0⟩, ⟨1, 0⟩⟩ = none := by decide +kernel
-- touching the corner (2,2) from outside: a single point, dropped
example : clipConvex (halfPlanes sq) ⟨⟨1, 3⟩, ⟨3, 1⟩⟩ = some (1 / 2, 1 / 2) := by decide +kernel
example : clipConvexOpen (halfPlanes sq) ⟨⟨1, 3⟩, ⟨3, 1⟩⟩ = none := by decide +kernel
-- a segment of zero length inside the square: a point of the region, dropped by the convention
example : clipConvex (halfPlanes sq) ⟨⟨1, 1⟩, ⟨1, 1⟩⟩ = some (0, 1) := by decide +kernel
example : clipConvexOpen (halfPlanes sq) ⟨⟨1, 1⟩, ⟨1, 1⟩⟩ = none := by decide +kernel
-- missing the square
example : clipConvex (halfPlanes sq) ⟨⟨3, 0⟩, ⟨4, 5⟩⟩ = none := by decide +kernel
-- crossing the notch of the U: two pieces
example : clipSimple uShape ⟨⟨-1, 2⟩, ⟨4, 2⟩⟩ = [(1 / 5, 2 / 5), (3 / 5, 4 / 5)] := by decide +kernel
-- through the reflex vertex of the L: two raw pieces, one after merging
example : clipSimpleRaw lShape ⟨⟨0, 2⟩, ⟨2, 0⟩⟩ = [(0, 1 / 2), (1 / 2, 1)] := by decide +kernel
example : clipSimple lShape ⟨⟨0, 2⟩, ⟨2, 0⟩⟩ = [(0, 1)] := by decide +kernel
-- along an edge of the L and then into its interior: only the interior part
example : clipSimple lShape ⟨⟨1, 2⟩, ⟨1, 0⟩⟩ = [(1 / 2, 1)] := by decide +kernel
-- F14: the piece over x ∈ [0,2] is kept, the touching point (4,1) is not
example : clipSimple f14 ⟨⟨-1, 9 / 4⟩, ⟨5, 3 / 4⟩⟩ = [(1 / 6, 1 / 2)] := by decide +kernel
-- Sutherland–Hodgman: the triangle (-1,1,2),(1,1,1),(3,1,2) cut by 0 ≤ x ≤ 2, 0 ≤ z ≤ 2
example : shClip [⟨1, 0, 0, 2⟩, ⟨-1, 0, 0, 0⟩, ⟨0, 0, 1, 2⟩, ⟨0, 0, -1, 0⟩] [⟨-1, 1, 2⟩, ⟨1, 1, 1⟩, ⟨3, 1, 2⟩]
    = [⟨0, 1, 3 / 2⟩, ⟨1, 1, 1⟩, ⟨2, 1, 3 / 2⟩, ⟨2, 1, 2⟩, ⟨0, 1, 2⟩] := by decide +kernel

-- Sutherland–Hodgman in the plane: the counter-clockwise square is convex; cutting off x > 1
example : ConvexCCW sq := by
  intro V hV e he
  simp only [sq, List.mem_cons, List.not_mem_nil, or_false] at hV
  simp only [sq, edges, edgesAux, List.mem_cons, List.not_mem_nil, or_false] at he
  rcases hV with rfl | rfl | rfl | rfl <;> rcases he with rfl | rfl | rfl | rfl <;> decide +kernel
example : shClip12 ⟨1, 0, 1⟩ sq = [⟨0, 0⟩, ⟨1, 0⟩, ⟨1, 2⟩, ⟨0, 2⟩] := by decide +kernel
-- a point of the segment through the notch of the U is inside exactly on the returned pieces
example : insideAlong ⟨⟨-1, 2⟩, ⟨4, 2⟩⟩ (edges uShape) (3 / 10) = true := by decide +kernel
example : insideAlong ⟨⟨-1, 2⟩, ⟨4, 2⟩⟩ (edges uShape) (1 / 2) = false := by decide +kernel

example : convexCCWb sq = true := by decide +kernel
example : convexCCWb sqCW = false ∧ convexCCWb (ccwOrder sqCW) = true := by decide +kernel
example : convexCCWb lShape = false ∧ convexCCWb lShape.reverse = false := by decide +kernel
example : area2 sqCW < 0 := by decide +kernel

end Examples

end PorepyVerif.C44
