/- C44 line-protocol driver: `lake env lean --run PorepyVerif/C44/Driver.lean` -/
import PorepyVerif.Common.Wire
import PorepyVerif.C44.Model
open Lean PV PorepyVerif.C44

def toPt (l : List Rat) : R Pt :=
  match l with
  | [x, y] => pure ⟨x, y⟩
  | _ => throw "a 2d point needs two coordinates"

def toP3 (l : List Rat) : R P3 :=
  match l with
  | [x, y, z] => pure ⟨x, y, z⟩
  | _ => throw "a 3d point needs three coordinates"

def toHS (l : List Rat) : R HS :=
  match l with
  | [a, b, c, d] => pure ⟨a, b, c, d⟩
  | _ => throw "a half-space needs four coefficients"

def getSeg (j : Json) : R Seg := do
  let pts ← (← fRatss j "seg").mapM toPt
  match pts with
  | [p, q] => pure ⟨p, q⟩
  | _ => throw "a segment needs two points"

def ofIv (ab : Rat × Rat) : Json := ofRats [ab.1, ab.2]

def ofIvOpt : Option (Rat × Rat) → Json
  | none => Json.null
  | some ab => ofIv ab

def step (j : Json) : R Json := do
  let op ← fStr j "op"
  match op with
  | "clip" =>
    let poly ← (← fRatss j "poly").mapM toPt
    let s ← getSeg j
    pure (obj [("raw", ofList ofIv (clipSimpleRaw poly s)), ("merged", ofList ofIv (clipSimple poly s)),
               ("raw_std", ofList ofIv (clipSimpleRawStd poly s))])
  | "clip_convex" =>
    let poly ← (← fRatss j "poly").mapM toPt
    let s ← getSeg j
    let hs := halfPlanes poly
    pure (obj [("closed", ofIvOpt (clipConvex hs s)), ("open", ofIvOpt (clipConvexOpen hs s)),
               ("convex", Json.bool (convexCCWb (ccwOrder poly))),
               ("cw", Json.bool (decide (area2 poly < 0)))])
  | "shclip" =>
    let hs ← (← fRatss j "hs").mapM toHS
    let poly ← (← fRatss j "poly").mapM toP3
    let c := shClip hs poly
    let a := vecArea2 c
    let base := [("n", ofNat c.length), ("area2", ofRats [a.x, a.y, a.z]),
               ("verts", ofList (fun (p : P3) => ofRats [p.x, p.y, p.z]) c)]
    -- optional: plane coordinates of the polygon; then the hypotheses of the completeness theorems
    -- are evaluated (convex counter-clockwise in plane coordinates, polygon = image of them) and the
    -- 2d algorithm is run as well
    match j.getObjVal? "uv" with
    | .ok _ =>
      let uv ← (← fRatss j "uv").mapM toPt
      let fr ← (← fRatss j "frame").mapM toP3
      match fr with
      | [O, U, V] =>
        let uv' := ccwOrder uv
        let img := uv.map (embed O U V)
        let c2 := (shClip2 (hs.map (pullHS O U V)) uv').map (embed O U V)
        let a2 := vecArea2 c2
        pure (obj (base ++ [("convex_ccw", Json.bool (convexCCWb uv')),
                            ("embed_ok", Json.bool (decide (img = poly))),
                            ("planar_ok", Json.bool (decide (shClip hs (uv'.map (embed O U V)) = c2))),
                            ("area2_2d", ofRats [a2.x, a2.y, a2.z])]))
      | _ => throw "frame needs three vectors"
    | .error _ => pure (obj base)
  | _ => throw s!"unknown op {op}"

def main : IO Unit := runPure step
