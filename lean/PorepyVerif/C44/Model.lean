/-
C44 — executable SPECIFICATION of geometric clipping (core Lean only, exact rationals).

`porepy.geometry.constrain_geometry.lines_by_polygon` is a thin wrapper around a library call
(shapely `Polygon.intersection(LineString)`), so the model is not a transcription of code but the
exact reference the wrapper has to agree with:

  * `clipConvex`     segment ∩ convex region given by closed half-planes: intersection of the
                     parameter intervals of the half-planes (Cyrus–Beck / Liang–Barsky);
  * `halfPlanes`     the half-planes of a convex polygon (either orientation);
  * `clipSimpleRaw`  segment clipped by a simple, possibly non-convex polygon: the parameters where
                     the segment meets the boundary (end points of collinear overlaps included)
                     cut [0,1] into pieces, a piece is kept iff its midpoint is strictly inside
                     (even–odd rule with the ray along the segment, exact arithmetic, boundary
                     points are NOT inside);
  * `clipSimple`     … with adjacent pieces merged (shapely splits a segment at polygon vertices it
                     passes through; as point sets the pieces are the same);
  * `shClip`         Sutherland–Hodgman clipping of a planar polygon in 3d by closed half-spaces
                     (reference for `polygons_by_polyhedron` with a convex polyhedron).

CONVENTION (that of the code): what is returned is the closure of  segment ∩ interior(polygon):
pieces of zero length (the segment touches a vertex from outside) and pieces that lie in the
boundary (the segment runs along an edge) are not returned.  `clipConvexOpen` applies this filter
to the closed interval computed by `clipConvex`.

A point of a segment is addressed by its parameter: `s.at t = p + t (q - p)`, `0 ≤ t ≤ 1`.
-/
namespace PorepyVerif.C44

/-! ### points, segments -/

structure Pt where
  x : Rat
  y : Rat
deriving DecidableEq, Repr

def Pt.sub (a b : Pt) : Pt := ⟨a.x - b.x, a.y - b.y⟩
def cross (a b : Pt) : Rat := a.x * b.y - a.y * b.x
def dot (a b : Pt) : Rat := a.x * b.x + a.y * b.y

structure Seg where
  p : Pt
  q : Pt
deriving DecidableEq, Repr

/-- the point of parameter `t` -/
def Seg.at (s : Seg) (t : Rat) : Pt := ⟨s.p.x + t * (s.q.x - s.p.x), s.p.y + t * (s.q.y - s.p.y)⟩

/-! ### convex regions: closed half-planes -/

/-- closed half-plane `a x + b y ≤ c` -/
structure HP where
  a : Rat
  b : Rat
  c : Rat
deriving Repr

/-- signed violation: the point is in the half-plane iff `eval ≤ 0`, in its interior iff `< 0` -/
def HP.eval (h : HP) (P : Pt) : Rat := h.a * P.x + h.b * P.y - h.c

abbrev Iv := Option (Rat × Rat)

/-- membership of a parameter in a closed interval (`none` = empty set) -/
def inIv : Iv → Rat → Prop
  | none, _ => False
  | some (lo, hi), t => lo ≤ t ∧ t ≤ hi

/-- one Liang–Barsky step: intersect the current parameter interval with `{t | h(s(t)) ≤ 0}`.
    Along the segment `h` is the affine function `n + t d`. -/
def clipStep (s : Seg) (h : HP) : Iv → Iv
  | none => none
  | some (lo, hi) =>
    let n := h.eval s.p
    let d := h.eval s.q - h.eval s.p
    if d = 0 then (if n ≤ 0 then some (lo, hi) else none)
    else
      let r := -n / d
      if 0 < d then
        (let hi' := if r < hi then r else hi
         if lo ≤ hi' then some (lo, hi') else none)
      else
        (let lo' := if lo < r then r else lo
         if lo' ≤ hi then some (lo', hi) else none)

def clipFrom (s : Seg) : List HP → Iv → Iv
  | [], acc => acc
  | h :: hs, acc => clipFrom s hs (clipStep s h acc)

/-- segment ∩ ⋂ half-planes, as a closed parameter interval -/
def clipConvex (hs : List HP) (s : Seg) : Iv := clipFrom s hs (some (0, 1))

/-- strictly inside every half-plane -/
def strictlyInside (hs : List HP) (P : Pt) : Bool := hs.all (fun h => decide (h.eval P < 0))

/-- the convention of the code applied to the closed interval: drop zero length (a degenerate input
    segment, or an interval reduced to one parameter) and boundary pieces -/
def clipConvexOpen (hs : List HP) (s : Seg) : Iv :=
  match clipConvex hs s with
  | none => none
  | some (lo, hi) =>
    if s.p ≠ s.q ∧ lo < hi ∧ strictlyInside hs (s.at ((lo + hi) / 2)) then some (lo, hi) else none

/-! ### polygons -/

def edgesAux (first : Pt) : List Pt → List (Pt × Pt)
  | [] => []
  | [a] => [(a, first)]
  | a :: b :: rest => (a, b) :: edgesAux first (b :: rest)

/-- the closed chain of edges of a polygon given by its vertices -/
def edges : List Pt → List (Pt × Pt)
  | [] => []
  | a :: rest => edgesAux a (a :: rest)

/-- twice the signed area (positive = counter-clockwise) -/
def area2 (poly : List Pt) : Rat := ((edges poly).map (fun e => cross e.1 e.2)).foldl (· + ·) 0

/-- half-plane to the LEFT of the directed edge `A → B`: `eval P = - cross (B-A) (P-A)` -/
def hpOfEdge (A B : Pt) : HP :=
  ⟨B.y - A.y, -(B.x - A.x), (B.y - A.y) * A.x - (B.x - A.x) * A.y⟩

/-- half-planes of a convex polygon, whatever its orientation -/
def halfPlanes (poly : List Pt) : List HP :=
  let p := if area2 poly < 0 then poly.reverse else poly
  (edges p).map (fun e => hpOfEdge e.1 e.2)

/-- `P` lies on the closed segment `AB` (also for `A = B`): collinear and inside the circle with
    diameter `AB` -/
def onSeg (A B P : Pt) : Bool :=
  decide (cross (B.sub A) (P.sub A) = 0) && decide (dot (P.sub A) (P.sub B) ≤ 0)

def onBoundaryE (es : List (Pt × Pt)) (P : Pt) : Bool := es.any (fun e => onSeg e.1 e.2 P)

/-- does the horizontal ray from `P` to the right cross the edge `AB` (half-open rule) -/
def rayHits (A B P : Pt) : Bool :=
  if (decide (P.y < A.y)) != (decide (P.y < B.y)) then
    decide (P.x < A.x + (P.y - A.y) * (B.x - A.x) / (B.y - A.y))
  else false

def oddCross : List (Pt × Pt) → Pt → Bool
  | [], _ => false
  | e :: es, P => (rayHits e.1 e.2 P) != (oddCross es P)

/-- strictly inside a simple polygon: not on the boundary and an odd number of ray crossings -/
def insideStrictE (es : List (Pt × Pt)) (P : Pt) : Bool := !onBoundaryE es P && oddCross es P

def insideStrict (poly : List Pt) (P : Pt) : Bool := insideStrictE (edges poly) P

/-! ### clipping by a simple polygon -/

def in01 (t : Rat) : Bool := decide (0 ≤ t) && decide (t ≤ 1)

/-- parameter of the orthogonal projection of `Q` on the line of `s` (requires `s.p ≠ s.q`) -/
def param (s : Seg) (Q : Pt) : Rat := dot (Q.sub s.p) (s.q.sub s.p) / dot (s.q.sub s.p) (s.q.sub s.p)

/-- parameters in [0,1] at which the segment meets the polygon edge `AB`:
    the unique intersection parameter for a transversal edge; the parameters of `A` and `B` for an
    edge on the line of the segment -/
def crossingsEdge (s : Seg) (e : Pt × Pt) : List Rat :=
  let D := s.q.sub s.p
  let E := e.2.sub e.1
  let den := cross D E
  if den ≠ 0 then
    let t := cross (e.1.sub s.p) E / den
    if in01 t && onSeg e.1 e.2 (s.at t) then [t] else []
  else if cross D (e.1.sub s.p) = 0 then
    [param s e.1, param s e.2].filter in01
  else []

def crossingsE (s : Seg) : List (Pt × Pt) → List Rat
  | [] => []
  | e :: es => crossingsEdge s e ++ crossingsE s es

/-- insertion into a strictly increasing list, duplicates dropped -/
def insertU (x : Rat) : List Rat → List Rat
  | [] => [x]
  | y :: ys => if x < y then x :: y :: ys else if x = y then y :: ys else y :: insertU x ys

def sortU : List Rat → List Rat
  | [] => []
  | x :: xs => insertU x (sortU xs)

/-- cut parameters: 0, 1 and every boundary crossing, strictly increasing -/
def cutsE (s : Seg) (es : List (Pt × Pt)) : List Rat := sortU (0 :: 1 :: crossingsE s es)

/-- consecutive pairs -/
def pairs : List Rat → List (Rat × Rat)
  | a :: b :: rest => (a, b) :: pairs (b :: rest)
  | _ => []

/-! #### even–odd rule with the ray ALONG the clipped segment

The point `s.at t` is tested with the ray that starts there and runs in the direction `q - p` of the
segment itself.  For an edge `AB` the sides `sideOf s A`, `sideOf s B` and the point where the line
of `s` meets the edge do not depend on `t`; only "the hit is ahead of the point" does.  This makes
the rule provably constant along a piece that avoids the boundary (Props: `clip_simple_exact_evenodd`).
For a simple polygon the parity does not depend on the direction of the ray; the driver also
evaluates the textbook rule (horizontal ray, `insideStrictE`) and the harness checks that both select
the same pieces. -/

def lerp2 (A B : Pt) (t : Rat) : Pt := ⟨A.x + t * (B.x - A.x), A.y + t * (B.y - A.y)⟩

/-- signed side of `A` relative to the directed line of `s` (positive = to the left) -/
def sideOf (s : Seg) (A : Pt) : Rat := cross (s.q.sub s.p) (A.sub s.p)

/-- the edge reaches from one side of the line of `s` to the other (half-open rule: a vertex on the
    line counts as "not left") -/
def spans (s : Seg) (e : Pt × Pt) : Bool := decide (0 < sideOf s e.1) != decide (0 < sideOf s e.2)

/-- parameter (along `s`) of the point where the line of `s` meets a spanning edge -/
def hitParam (s : Seg) (e : Pt × Pt) : Rat :=
  param s (lerp2 e.1 e.2 (sideOf s e.1 / (sideOf s e.1 - sideOf s e.2)))

/-- the ray from `s.at t` in direction `q - p` crosses the edge -/
def rayHitsAlong (s : Seg) (e : Pt × Pt) (t : Rat) : Bool := spans s e && decide (t < hitParam s e)

def oddAlong (s : Seg) : List (Pt × Pt) → Rat → Bool
  | [], _ => false
  | e :: es, t => (rayHitsAlong s e t) != (oddAlong s es t)

/-- `s.at t` is strictly inside: not on the boundary and an odd number of crossings ahead -/
def insideAlong (s : Seg) (es : List (Pt × Pt)) (t : Rat) : Bool :=
  !onBoundaryE es (s.at t) && oddAlong s es t

def midIn (s : Seg) (es : List (Pt × Pt)) (ab : Rat × Rat) : Bool :=
  insideAlong s es ((ab.1 + ab.2) / 2)

/-- the same selection with the textbook rule (horizontal ray) — cross-check only -/
def midInStd (s : Seg) (es : List (Pt × Pt)) (ab : Rat × Rat) : Bool :=
  insideStrictE es (s.at ((ab.1 + ab.2) / 2))

def clipSimpleRawStd (poly : List Pt) (s : Seg) : List (Rat × Rat) :=
  if s.p = s.q then [] else (pairs (cutsE s (edges poly))).filter (midInStd s (edges poly))

def clipSimpleRawE (es : List (Pt × Pt)) (s : Seg) : List (Rat × Rat) :=
  if s.p = s.q then [] else (pairs (cutsE s es)).filter (midIn s es)

/-- the pieces between consecutive cuts whose midpoint is strictly inside -/
def clipSimpleRaw (poly : List Pt) (s : Seg) : List (Rat × Rat) := clipSimpleRawE (edges poly) s

def mergeAux : Rat × Rat → List (Rat × Rat) → List (Rat × Rat)
  | cur, [] => [cur]
  | cur, ab :: rest => if cur.2 = ab.1 then mergeAux (cur.1, ab.2) rest else cur :: mergeAux ab rest

/-- merge pieces that share an end point -/
def merge : List (Rat × Rat) → List (Rat × Rat)
  | [] => []
  | x :: xs => mergeAux x xs

def clipSimple (poly : List Pt) (s : Seg) : List (Rat × Rat) := merge (clipSimpleRaw poly s)

/-! ### Sutherland–Hodgman in 3d (reference for `polygons_by_polyhedron`, convex polyhedron) -/

structure P3 where
  x : Rat
  y : Rat
  z : Rat
deriving DecidableEq, Repr

/-- closed half-space `a x + b y + c z ≤ d` -/
structure HS where
  a : Rat
  b : Rat
  c : Rat
  d : Rat
deriving Repr

def HS.eval (h : HS) (P : P3) : Rat := h.a * P.x + h.b * P.y + h.c * P.z - h.d

def lerp3 (P Q : P3) (t : Rat) : P3 := ⟨P.x + t * (Q.x - P.x), P.y + t * (Q.y - P.y), P.z + t * (Q.z - P.z)⟩

/-- contribution of the directed edge `P → Q`: `P` if it is inside, then the crossing point if the
    edge properly crosses the plane -/
def shEdge (h : HS) (P Q : P3) : List P3 :=
  let fp := h.eval P
  let fq := h.eval Q
  (if fp ≤ 0 then [P] else []) ++
  (if (fp < 0 ∧ 0 < fq) ∨ (0 < fp ∧ fq < 0) then [lerp3 P Q (fp / (fp - fq))] else [])

def shAux (h : HS) (first : P3) : List P3 → List P3
  | [] => []
  | [a] => shEdge h a first
  | a :: b :: rest => shEdge h a b ++ shAux h first (b :: rest)

/-- clip a polygon (vertex list) by one half-space -/
def shClip1 (h : HS) : List P3 → List P3
  | [] => []
  | a :: rest => shAux h a (a :: rest)

/-- clip by all half-spaces of a convex polyhedron -/
def shClip : List HS → List P3 → List P3
  | [], poly => poly
  | h :: hs, poly => shClip hs (shClip1 h poly)

def cross3 (a b : P3) : P3 := ⟨a.y * b.z - a.z * b.y, a.z * b.x - a.x * b.z, a.x * b.y - a.y * b.x⟩
def add3 (a b : P3) : P3 := ⟨a.x + b.x, a.y + b.y, a.z + b.z⟩

def vecAreaAux (first : P3) : List P3 → P3
  | [] => ⟨0, 0, 0⟩
  | [a] => cross3 a first
  | a :: b :: rest => add3 (cross3 a b) (vecAreaAux first (b :: rest))

/-- twice the vector area of a closed polygon -/
def vecArea2 : List P3 → P3
  | [] => ⟨0, 0, 0⟩
  | a :: rest => vecAreaAux a (a :: rest)

/-! ### Sutherland–Hodgman in the plane of the polygon

`polygons_by_polyhedron` clips PLANAR polygons.  In coordinates `(u, v)` of the polygon's plane
(`embed O U V (u, v) = O + u U + v V`) a half-space of the polyhedron becomes a half-plane
(`pullHS`) and the 3d algorithm becomes the same algorithm in 2d (`Props.sh_clip_planar`).  The
completeness theorems are stated for the 2d form, for convex counter-clockwise polygons. -/

def shEdge2 (h : HP) (P Q : Pt) : List Pt :=
  let fp := h.eval P
  let fq := h.eval Q
  (if fp ≤ 0 then [P] else []) ++
  (if (fp < 0 ∧ 0 < fq) ∨ (0 < fp ∧ fq < 0) then [lerp2 P Q (fp / (fp - fq))] else [])

/-- contributions of the edges `cur → n₁ → n₂ → …` -/
def walk2 (h : HP) : Pt → List Pt → List Pt
  | _, [] => []
  | cur, nxt :: rest => shEdge2 h cur nxt ++ walk2 h nxt rest

/-- clip a polygon (vertex list) by one half-plane -/
def shClip12 (h : HP) : List Pt → List Pt
  | [] => []
  | a :: rest => walk2 h a (rest ++ [a])

def shClip2 : List HP → List Pt → List Pt
  | [], poly => poly
  | h :: hs, poly => shClip2 hs (shClip12 h poly)

/-- `cross (B - A) (X - A)`: non-negative iff `X` is to the left of (or on) the directed line `A → B` -/
def leftOf (A B X : Pt) : Rat := cross (B.sub A) (X.sub A)

/-- the region bounded by the edges of a counter-clockwise polygon (H-representation) -/
def InPoly (poly : List Pt) (X : Pt) : Prop := ∀ e ∈ edges poly, 0 ≤ leftOf e.1 e.2 X

/-- convex and counter-clockwise: every vertex is to the left of (or on) every edge -/
def ConvexCCW (poly : List Pt) : Prop := ∀ V ∈ poly, InPoly poly V

def embed (O U V : P3) (p : Pt) : P3 :=
  ⟨O.x + p.x * U.x + p.y * V.x, O.y + p.x * U.y + p.y * V.y, O.z + p.x * U.z + p.y * V.z⟩

/-- the half-space in the coordinates of the plane `O + u U + v V` -/
def pullHS (O U V : P3) (h : HS) : HP :=
  ⟨h.a * U.x + h.b * U.y + h.c * U.z, h.a * V.x + h.b * V.y + h.c * V.z,
   h.d - (h.a * O.x + h.b * O.y + h.c * O.z)⟩

/-! convex combinations (V-representation) -/

/-- `Σ wᵢ vᵢ` (lists are zipped) -/
def comb : List Rat → List Pt → Pt
  | w :: ws, v :: vs => ⟨w * v.x + (comb ws vs).x, w * v.y + (comb ws vs).y⟩
  | _, _ => ⟨0, 0⟩

def wsum : List Rat → List Pt → Rat
  | w :: ws, _ :: vs => w + wsum ws vs
  | _, _ => 0

/-- `X` is a convex combination of the vertices `vs` -/
def InHull (vs : List Pt) (X : Pt) : Prop :=
  ∃ ws : List Rat, (∀ w ∈ ws, 0 ≤ w) ∧ wsum ws vs = 1 ∧ X = comb ws vs

/-- decidable form of `ConvexCCW` (evaluated by the driver on every case) -/
def convexCCWb (poly : List Pt) : Bool :=
  poly.all (fun V => (edges poly).all (fun e => decide (0 ≤ leftOf e.1 e.2 V)))

/-- the vertex order in which a convex polygon is counter-clockwise -/
def ccwOrder (poly : List Pt) : List Pt := if convexCCWb poly then poly else poly.reverse

end PorepyVerif.C44
