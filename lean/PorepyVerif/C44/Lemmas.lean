/-
C44 — helper lemmas: the affine restriction of a half-plane to a segment, the Liang–Barsky step,
sorted cut lists, the crossing parameters of one polygon edge.
-/
import PorepyVerif.C44.Model
import Mathlib.Algebra.Order.Field.Rat
import Mathlib.Tactic.Ring
import Mathlib.Tactic.Linarith
import Mathlib.Tactic.Positivity
import Mathlib.Tactic.FieldSimp
import Mathlib.Tactic.LinearCombination

namespace PorepyVerif.C44

/-! ### convex clipping -/

/-- along the segment a half-plane is an affine function of the parameter -/
theorem eval_at (h : HP) (s : Seg) (t : Rat) :
    h.eval (s.at t) = h.eval s.p + t * (h.eval s.q - h.eval s.p) := by
  simp only [HP.eval, Seg.at]; ring

theorem affine_le_iff_pos (n d t : Rat) (hd : 0 < d) : n + t * d ≤ 0 ↔ t ≤ -n / d := by
  rw [le_div_iff₀ hd]; constructor <;> intro h <;> linarith

theorem affine_le_iff_neg (n d t : Rat) (hd : d < 0) : n + t * d ≤ 0 ↔ -n / d ≤ t := by
  rw [div_le_iff_of_neg hd]; constructor <;> intro h <;> linarith

theorem clipStep_spec (s : Seg) (h : HP) (iv : Iv) (t : Rat) :
    inIv (clipStep s h iv) t ↔ inIv iv t ∧ h.eval (s.at t) ≤ 0 := by
  rw [eval_at]
  cases iv with
  | none => simp [clipStep, inIv]
  | some p =>
    obtain ⟨lo, hi⟩ := p
    simp only [clipStep]
    generalize h.eval s.q - h.eval s.p = d
    generalize h.eval s.p = n
    by_cases hd : d = 0
    · subst hd
      by_cases hn : n ≤ 0
      · simp [hn, inIv]
      · simp [hn, inIv]
    · simp only [hd, if_false]
      by_cases hpos : 0 < d
      · simp only [hpos, if_true]
        rw [affine_le_iff_pos n d t hpos]
        by_cases hr : -n / d < hi
        · simp only [hr, if_true]
          by_cases hl : lo ≤ -n / d
          · simp only [hl, if_true, inIv]
            constructor
            · rintro ⟨a, b⟩; exact ⟨⟨a, by linarith⟩, b⟩
            · rintro ⟨⟨a, _⟩, b⟩; exact ⟨a, b⟩
          · simp only [hl, if_false, inIv, false_iff]
            rintro ⟨⟨a, _⟩, b⟩; exact hl (le_trans a b)
        · simp only [hr, if_false]
          by_cases hl : lo ≤ hi
          · simp only [hl, if_true, inIv]
            constructor
            · rintro ⟨a, b⟩; exact ⟨⟨a, b⟩, by linarith [not_lt.mp hr]⟩
            · rintro ⟨⟨a, b⟩, _⟩; exact ⟨a, b⟩
          · simp only [hl, if_false, inIv, false_iff]
            rintro ⟨⟨a, b⟩, _⟩; exact hl (le_trans a b)
      · have hneg : d < 0 := lt_of_le_of_ne (not_lt.mp hpos) hd
        simp only [hpos, if_false]
        rw [affine_le_iff_neg n d t hneg]
        by_cases hr : lo < -n / d
        · simp only [hr, if_true]
          by_cases hl : -n / d ≤ hi
          · simp only [hl, if_true, inIv]
            constructor
            · rintro ⟨a, b⟩; exact ⟨⟨by linarith, b⟩, a⟩
            · rintro ⟨⟨_, b⟩, a⟩; exact ⟨a, b⟩
          · simp only [hl, if_false, inIv, false_iff]
            rintro ⟨⟨_, b⟩, a⟩; exact hl (le_trans a b)
        · simp only [hr, if_false]
          by_cases hl : lo ≤ hi
          · simp only [hl, if_true, inIv]
            constructor
            · rintro ⟨a, b⟩; exact ⟨⟨a, b⟩, by linarith [not_lt.mp hr]⟩
            · rintro ⟨⟨a, b⟩, _⟩; exact ⟨a, b⟩
          · simp only [hl, if_false, inIv, false_iff]
            rintro ⟨⟨a, b⟩, _⟩; exact hl (le_trans a b)

theorem clipFrom_spec (s : Seg) (hs : List HP) (iv : Iv) (t : Rat) :
    inIv (clipFrom s hs iv) t ↔ inIv iv t ∧ ∀ h ∈ hs, h.eval (s.at t) ≤ 0 := by
  induction hs generalizing iv with
  | nil => simp [clipFrom]
  | cons h hs ih =>
    simp only [clipFrom, ih, clipStep_spec, List.mem_cons, forall_eq_or_imp]
    tauto

/-- the result of a step is a non-empty interval -/
def IvOk : Iv → Prop
  | none => True
  | some (lo, hi) => lo ≤ hi

theorem clipStep_ok (s : Seg) (h : HP) (iv : Iv) (hiv : IvOk iv) : IvOk (clipStep s h iv) := by
  cases iv with
  | none => simp [clipStep, IvOk]
  | some p =>
    obtain ⟨lo, hi⟩ := p
    simp only [clipStep]
    split_ifs <;> simp_all [IvOk]

theorem clipFrom_ok (s : Seg) (hs : List HP) (iv : Iv) (hiv : IvOk iv) : IvOk (clipFrom s hs iv) := by
  induction hs generalizing iv with
  | nil => simpa [clipFrom]
  | cons h hs ih => exact ih _ (clipStep_ok s h iv hiv)

/-! ### strictly increasing cut lists -/

theorem mem_insertU (x y : Rat) (l : List Rat) : y ∈ insertU x l ↔ y = x ∨ y ∈ l := by
  induction l with
  | nil => simp [insertU]
  | cons z zs ih =>
    simp only [insertU]
    split_ifs with h1 h2
    · simp
    · subst h2; simp
    · simp only [List.mem_cons, ih]; tauto

theorem pairwise_insertU (x : Rat) (l : List Rat) (hl : l.Pairwise (· < ·)) :
    (insertU x l).Pairwise (· < ·) := by
  induction l with
  | nil => simp [insertU]
  | cons z zs ih =>
    simp only [insertU]
    rw [List.pairwise_cons] at hl
    split_ifs with h1 h2
    · rw [List.pairwise_cons]
      refine ⟨?_, List.pairwise_cons.mpr hl⟩
      intro a ha
      rcases List.mem_cons.mp ha with rfl | ha
      · exact h1
      · exact lt_trans h1 (hl.1 a ha)
    · exact List.pairwise_cons.mpr hl
    · rw [List.pairwise_cons]
      refine ⟨?_, ih hl.2⟩
      intro a ha
      rcases (mem_insertU x a zs).mp ha with rfl | ha
      · exact lt_of_le_of_ne (not_lt.mp h1) (fun e => h2 e.symm)
      · exact hl.1 a ha

theorem mem_sortU (y : Rat) (l : List Rat) : y ∈ sortU l ↔ y ∈ l := by
  induction l with
  | nil => simp [sortU]
  | cons x xs ih => simp [sortU, mem_insertU, ih]

theorem pairwise_sortU (l : List Rat) : (sortU l).Pairwise (· < ·) := by
  induction l with
  | nil => simp [sortU]
  | cons x xs ih => exact pairwise_insertU x _ ih

/-- consecutive pairs of a strictly increasing list: increasing, end points are elements, and no
    element lies strictly in between -/
theorem pairs_spec (l : List Rat) (hl : l.Pairwise (· < ·)) (a b : Rat) (hab : (a, b) ∈ pairs l) :
    a < b ∧ a ∈ l ∧ b ∈ l ∧ ∀ c ∈ l, ¬ (a < c ∧ c < b) := by
  induction l with
  | nil => simp [pairs] at hab
  | cons x rest ih =>
    cases rest with
    | nil => simp [pairs] at hab
    | cons y rest =>
      rw [List.pairwise_cons] at hl
      simp only [pairs, List.mem_cons] at hab
      rcases hab with hxy | hin
      · obtain ⟨rfl, rfl⟩ := Prod.mk.inj hxy
        have hab' : a < b := hl.1 b (by simp)
        refine ⟨hab', by simp, by simp, ?_⟩
        intro c hc ⟨h1, h2⟩
        rcases List.mem_cons.mp hc with rfl | hc
        · exact lt_irrefl _ h1
        · rcases List.mem_cons.mp hc with rfl | hc
          · exact lt_irrefl _ h2
          · have := (List.pairwise_cons.mp hl.2).1 c hc
            exact lt_irrefl _ (lt_trans h2 this)
      · obtain ⟨h1, h2, h3, h4⟩ := ih hl.2 hin
        refine ⟨h1, List.mem_cons_of_mem _ h2, List.mem_cons_of_mem _ h3, ?_⟩
        intro c hc ⟨hc1, hc2⟩
        rcases List.mem_cons.mp hc with rfl | hc
        · exact lt_irrefl _ (lt_trans hc1 (hl.1 a h2))
        · exact h4 c hc ⟨hc1, hc2⟩

/-- the consecutive pairs of a strictly increasing list cover everything between its elements -/
theorem pairs_cover (l : List Rat) (hl : l.Pairwise (· < ·)) (t : Rat)
    (hlo : ∃ a ∈ l, a ≤ t) (hhi : ∃ b ∈ l, t ≤ b) :
    t ∈ l ∨ ∃ ab ∈ pairs l, ab.1 < t ∧ t < ab.2 := by
  induction l with
  | nil => obtain ⟨a, ha, _⟩ := hlo; cases ha
  | cons x rest ih =>
    rw [List.pairwise_cons] at hl
    by_cases htx : t = x
    · left; simp [htx]
    have hxt : x < t := by
      obtain ⟨a, ha, hat⟩ := hlo
      rcases List.mem_cons.mp ha with rfl | ha
      · exact lt_of_le_of_ne hat (fun e => htx e.symm)
      · exact lt_of_lt_of_le (hl.1 a ha) hat
    cases rest with
    | nil =>
      obtain ⟨b, hb, htb⟩ := hhi
      simp only [List.mem_singleton] at hb
      subst hb
      exact absurd hxt (not_lt.mpr htb)
    | cons y rest =>
      by_cases hty : t < y
      · right; exact ⟨(x, y), by simp [pairs], hxt, hty⟩
      · have hhi' : ∃ b ∈ y :: rest, t ≤ b := by
          obtain ⟨b, hb, htb⟩ := hhi
          rcases List.mem_cons.mp hb with rfl | hb
          · exact absurd hxt (not_lt.mpr htb)
          · exact ⟨b, hb, htb⟩
        rcases ih hl.2 ⟨y, by simp, not_lt.mp hty⟩ hhi' with h | ⟨ab, hab, h⟩
        · left; exact List.mem_cons_of_mem _ h
        · right; exact ⟨ab, by simp [pairs, hab], h⟩

/-! ### the parameters at which a segment meets one polygon edge -/

theorem onSeg_iff (A B P : Pt) :
    onSeg A B P = true ↔ cross (B.sub A) (P.sub A) = 0 ∧ dot (P.sub A) (P.sub B) ≤ 0 := by
  simp [onSeg]

/-- a point collinear with the segment is `p + param · (q - p)` -/
theorem param_spec (s : Seg) (Q : Pt) (hdd : dot (s.q.sub s.p) (s.q.sub s.p) ≠ 0)
    (hc : cross (s.q.sub s.p) (Q.sub s.p) = 0) :
    Q.x - s.p.x = param s Q * (s.q.x - s.p.x) ∧ Q.y - s.p.y = param s Q * (s.q.y - s.p.y) := by
  simp only [param, dot, cross, Pt.sub] at *
  constructor
  · rw [div_mul_eq_mul_div, eq_div_iff hdd]; linear_combination (-(s.q.y - s.p.y)) * hc
  · rw [div_mul_eq_mul_div, eq_div_iff hdd]; linear_combination (s.q.x - s.p.x) * hc

/-- for an edge on the line of the segment, the points of the segment that lie on the edge are
    those whose parameter is between the parameters of the edge's end points -/
theorem onSeg_collinear_iff (s : Seg) (A B : Pt) (t : Rat)
    (hdd : dot (s.q.sub s.p) (s.q.sub s.p) ≠ 0)
    (hDE : cross (s.q.sub s.p) (B.sub A) = 0)
    (hA : cross (s.q.sub s.p) (A.sub s.p) = 0) :
    onSeg A B (s.at t) = true ↔ (t - param s A) * (t - param s B) ≤ 0 := by
  have hB : cross (s.q.sub s.p) (B.sub s.p) = 0 := by
    simp only [cross, Pt.sub] at *; linear_combination hDE + hA
  obtain ⟨hAx, hAy⟩ := param_spec s A hdd hA
  obtain ⟨hBx, hBy⟩ := param_spec s B hdd hB
  generalize param s A = tA at *
  generalize param s B = tB at *
  obtain ⟨ax, ay⟩ := A
  obtain ⟨bx, by'⟩ := B
  simp only at hAx hAy hBx hBy
  have e1 : ax = s.p.x + tA * (s.q.x - s.p.x) := by linarith
  have e2 : ay = s.p.y + tA * (s.q.y - s.p.y) := by linarith
  have e3 : bx = s.p.x + tB * (s.q.x - s.p.x) := by linarith
  have e4 : by' = s.p.y + tB * (s.q.y - s.p.y) := by linarith
  subst e1 e2 e3 e4
  rw [onSeg_iff]
  have hpos : 0 < dot (s.q.sub s.p) (s.q.sub s.p) := by
    refine lt_of_le_of_ne ?_ (Ne.symm hdd)
    simp only [dot, Pt.sub]; exact add_nonneg (mul_self_nonneg _) (mul_self_nonneg _)
  have hc : cross (Pt.sub ⟨s.p.x + tB * (s.q.x - s.p.x), s.p.y + tB * (s.q.y - s.p.y)⟩
      ⟨s.p.x + tA * (s.q.x - s.p.x), s.p.y + tA * (s.q.y - s.p.y)⟩)
      ((s.at t).sub ⟨s.p.x + tA * (s.q.x - s.p.x), s.p.y + tA * (s.q.y - s.p.y)⟩) = 0 := by
    simp only [cross, Pt.sub, Seg.at]; ring
  have hd : dot ((s.at t).sub ⟨s.p.x + tA * (s.q.x - s.p.x), s.p.y + tA * (s.q.y - s.p.y)⟩)
      ((s.at t).sub ⟨s.p.x + tB * (s.q.x - s.p.x), s.p.y + tB * (s.q.y - s.p.y)⟩)
      = (t - tA) * (t - tB) * dot (s.q.sub s.p) (s.q.sub s.p) := by
    simp only [dot, Pt.sub, Seg.at]; ring
  rw [hd]
  constructor
  · rintro ⟨_, h⟩
    by_contra hn
    have : 0 < (t - tA) * (t - tB) * dot (s.q.sub s.p) (s.q.sub s.p) := mul_pos (not_le.mp hn) hpos
    linarith
  · intro h
    exact ⟨hc, mul_nonpos_of_nonpos_of_nonneg h hpos.le⟩


theorem dot_self_eq_zero (E : Pt) (h : dot E E = 0) : E.x = 0 ∧ E.y = 0 := by
  simp only [dot] at h
  have h1 := mul_self_nonneg E.x
  have h2 := mul_self_nonneg E.y
  constructor
  · exact mul_self_eq_zero.mp (by linarith)
  · exact mul_self_eq_zero.mp (by linarith)

/-- if the point `P` of the line through `p` with direction `D` lies on the edge `AB` and the edge
    is parallel to `D`, then `A` is on that line -/
theorem collinear_of_onSeg_parallel (s : Seg) (A B : Pt) (t : Rat)
    (hDE : cross (s.q.sub s.p) (B.sub A) = 0) (hon : onSeg A B (s.at t) = true) :
    cross (s.q.sub s.p) (A.sub s.p) = 0 := by
  rw [onSeg_iff] at hon
  obtain ⟨hc, hd⟩ := hon
  by_cases hE : dot (B.sub A) (B.sub A) = 0
  · obtain ⟨ex, ey⟩ := dot_self_eq_zero _ hE
    simp only [Pt.sub] at ex ey
    have hBx : B.x = A.x := by linarith
    have hBy : B.y = A.y := by linarith
    have hW : dot ((s.at t).sub A) ((s.at t).sub A) = 0 := by
      have h0 : 0 ≤ dot ((s.at t).sub A) ((s.at t).sub A) := by
        simp only [dot]; exact add_nonneg (mul_self_nonneg _) (mul_self_nonneg _)
      have : dot ((s.at t).sub A) ((s.at t).sub B) = dot ((s.at t).sub A) ((s.at t).sub A) := by
        simp only [dot, Pt.sub, hBx, hBy]
      linarith
    obtain ⟨wx, wy⟩ := dot_self_eq_zero _ hW
    simp only [Pt.sub, Seg.at] at wx wy
    simp only [cross, Pt.sub]
    linear_combination (s.q.y - s.p.y) * wx - (s.q.x - s.p.x) * wy
  · -- cross D W · |E|² = cross D E · (E·W) + (D·E) · cross E W
    have key : cross (s.q.sub s.p) (A.sub s.p) * dot (B.sub A) (B.sub A) = 0 := by
      simp only [cross, dot, Pt.sub, Seg.at] at *
      linear_combination
        (-((B.x - A.x) * (s.p.x + t * (s.q.x - s.p.x) - A.x) + (B.y - A.y) * (s.p.y + t * (s.q.y - s.p.y) - A.y))) * hDE
        - ((s.q.x - s.p.x) * (B.x - A.x) + (s.q.y - s.p.y) * (B.y - A.y)) * hc
    rcases mul_eq_zero.mp key with h | h
    · exact h
    · exact absurd h hE


theorem mem_crossingsE (s : Seg) (es : List (Pt × Pt)) (t : Rat) :
    t ∈ crossingsE s es ↔ ∃ e ∈ es, t ∈ crossingsEdge s e := by
  induction es with
  | nil => simp [crossingsE]
  | cons e es ih => simp [crossingsE, ih]

theorem crossingsEdge_in01 (s : Seg) (e : Pt × Pt) (t : Rat) (h : t ∈ crossingsEdge s e) :
    in01 t = true := by
  simp only [crossingsEdge] at h
  split_ifs at h with h1 h2 h3
  · simp only [List.mem_singleton] at h
    subst h
    simp only [Bool.and_eq_true] at h2
    exact h2.1
  · cases h
  · exact (List.mem_filter.mp h).2
  · cases h

/-- every parameter in [0,1] at which the segment meets the edge `AB` is a crossing parameter, or
    lies in a collinear overlap whose end parameters are crossing parameters when in [0,1] -/
theorem edge_crossing_complete (s : Seg) (A B : Pt) (t : Rat)
    (hdd : dot (s.q.sub s.p) (s.q.sub s.p) ≠ 0) (h01 : in01 t = true)
    (hon : onSeg A B (s.at t) = true) :
    t ∈ crossingsEdge s (A, B) ∨
      (cross (s.q.sub s.p) (B.sub A) = 0 ∧ cross (s.q.sub s.p) (A.sub s.p) = 0 ∧
        (t - param s A) * (t - param s B) ≤ 0 ∧
        (in01 (param s A) = true → param s A ∈ crossingsEdge s (A, B)) ∧
        (in01 (param s B) = true → param s B ∈ crossingsEdge s (A, B))) := by
  by_cases hden : cross (s.q.sub s.p) (B.sub A) = 0
  · right
    have hA := collinear_of_onSeg_parallel s A B t hden hon
    refine ⟨hden, hA, (onSeg_collinear_iff s A B t hdd hden hA).mp hon, ?_, ?_⟩
    · intro h
      simp only [crossingsEdge, hden, ne_eq, not_true_eq_false, if_false, hA, if_true]
      exact List.mem_filter.mpr ⟨by simp, h⟩
    · intro h
      simp only [crossingsEdge, hden, ne_eq, not_true_eq_false, if_false, hA, if_true]
      exact List.mem_filter.mpr ⟨by simp, h⟩
  · left
    have ht : t = cross (A.sub s.p) (B.sub A) / cross (s.q.sub s.p) (B.sub A) := by
      rw [eq_div_iff hden]
      have hc := ((onSeg_iff A B (s.at t)).mp hon).1
      simp only [cross, Pt.sub, Seg.at] at hc ⊢
      linear_combination (-1 : Rat) * hc
    simp only [crossingsEdge, ne_eq, hden, not_false_eq_true, if_true]
    rw [← ht]
    simp [h01, hon]

/-! ### even–odd rule along the segment -/

theorem sideOf_lerp2 (s : Seg) (A B : Pt) (l : Rat) :
    sideOf s (lerp2 A B l) = sideOf s A + l * (sideOf s B - sideOf s A) := by
  simp only [sideOf, lerp2, cross, Pt.sub]; ring

theorem onSeg_lerp2 (A B : Pt) (l : Rat) (h0 : 0 ≤ l) (h1 : l ≤ 1) : onSeg A B (lerp2 A B l) = true := by
  rw [onSeg_iff]
  constructor
  · simp only [cross, Pt.sub, lerp2]; ring
  · have : dot ((lerp2 A B l).sub A) ((lerp2 A B l).sub B)
        = -(l * (1 - l)) * dot (B.sub A) (B.sub A) := by
      simp only [dot, Pt.sub, lerp2]; ring
    rw [this]
    have h2 : 0 ≤ dot (B.sub A) (B.sub A) := by
      simp only [dot]; exact add_nonneg (mul_self_nonneg _) (mul_self_nonneg _)
    have h3 : 0 ≤ l * (1 - l) := mul_nonneg h0 (by linarith)
    nlinarith [mul_nonneg h3 h2]

/-- the hit ratio of a spanning edge is in [0,1] and the hit point is on the line of `s` -/
theorem spans_ratio (s : Seg) (e : Pt × Pt) (hs : spans s e = true) :
    sideOf s e.1 - sideOf s e.2 ≠ 0 ∧ 0 ≤ sideOf s e.1 / (sideOf s e.1 - sideOf s e.2) ∧
      sideOf s e.1 / (sideOf s e.1 - sideOf s e.2) ≤ 1 := by
  simp only [spans, bne_iff_ne, ne_eq, decide_eq_decide] at hs
  generalize sideOf s e.1 = a at *
  generalize sideOf s e.2 = b at *
  by_cases ha : 0 < a
  · have hb : ¬ 0 < b := fun hb => hs ⟨fun _ => hb, fun _ => ha⟩
    have hd : 0 < a - b := by linarith [not_lt.mp hb]
    refine ⟨ne_of_gt hd, div_nonneg ha.le hd.le, ?_⟩
    rw [div_le_one hd]; linarith [not_lt.mp hb]
  · have hb : 0 < b := by
      by_contra hb
      exact hs ⟨fun h => absurd h ha, fun h => absurd h hb⟩
    have hd : a - b < 0 := by linarith [not_lt.mp ha]
    refine ⟨ne_of_lt hd, div_nonneg_of_nonpos (not_lt.mp ha) hd.le, ?_⟩
    rw [div_le_one_of_neg hd]; linarith

theorem ratio_cancel (a b : Rat) (h : a - b ≠ 0) : a + a / (a - b) * (b - a) = 0 := by
  field_simp
  ring

/-- a spanning edge is met by the line of `s` at the parameter `hitParam` -/
theorem spans_hit_onSeg (s : Seg) (e : Pt × Pt) (hdd : dot (s.q.sub s.p) (s.q.sub s.p) ≠ 0)
    (hs : spans s e = true) : onSeg e.1 e.2 (s.at (hitParam s e)) = true := by
  obtain ⟨hne, h0, h1⟩ := spans_ratio s e hs
  have hline : cross (s.q.sub s.p)
      ((lerp2 e.1 e.2 (sideOf s e.1 / (sideOf s e.1 - sideOf s e.2))).sub s.p) = 0 := by
    have := sideOf_lerp2 s e.1 e.2 (sideOf s e.1 / (sideOf s e.1 - sideOf s e.2))
    rw [ratio_cancel _ _ hne] at this
    exact this
  obtain ⟨hx, hy⟩ := param_spec s _ hdd hline
  have heq : s.at (hitParam s e) = lerp2 e.1 e.2 (sideOf s e.1 / (sideOf s e.1 - sideOf s e.2)) := by
    unfold hitParam
    generalize lerp2 e.1 e.2 (sideOf s e.1 / (sideOf s e.1 - sideOf s e.2)) = Q at *
    obtain ⟨qx, qy⟩ := Q
    simp only [Seg.at, Pt.mk.injEq] at *
    constructor <;> linarith
  rw [heq]
  exact onSeg_lerp2 e.1 e.2 _ h0 h1

theorem oddAlong_congr (s : Seg) (es : List (Pt × Pt)) (t1 t2 : Rat)
    (h : ∀ e ∈ es, rayHitsAlong s e t1 = rayHitsAlong s e t2) : oddAlong s es t1 = oddAlong s es t2 := by
  induction es with
  | nil => rfl
  | cons e es ih =>
    simp only [oddAlong]
    rw [h e (by simp), ih (fun e' he' => h e' (List.mem_cons_of_mem _ he'))]

/-- the parity of the crossings ahead is the same at two parameters if the segment does not meet
    the boundary strictly after the first and up to the second -/
theorem oddAlong_const (s : Seg) (es : List (Pt × Pt)) (hdd : dot (s.q.sub s.p) (s.q.sub s.p) ≠ 0)
    (t1 t2 : Rat) (h12 : t1 ≤ t2) (hoff : ∀ u, t1 < u → u ≤ t2 → onBoundaryE es (s.at u) = false) :
    oddAlong s es t1 = oddAlong s es t2 := by
  apply oddAlong_congr
  intro e he
  simp only [rayHitsAlong]
  by_cases hs : spans s e = true
  · simp only [hs, Bool.true_and]
    by_cases h1 : t1 < hitParam s e
    · by_cases h2 : t2 < hitParam s e
      · simp [h1, h2]
      · exfalso
        have hb := hoff (hitParam s e) h1 (not_lt.mp h2)
        have : onBoundaryE es (s.at (hitParam s e)) = true := by
          simp only [onBoundaryE, List.any_eq_true]
          exact ⟨e, he, spans_hit_onSeg s e hdd hs⟩
        rw [this] at hb; cases hb
    · by_cases h2 : t2 < hitParam s e
      · exact absurd (lt_of_le_of_lt h12 h2) h1
      · simp [h1, h2]
  · simp [hs]

/-! ### candidate pieces (consecutive cut parameters) -/

theorem dd_ne_zero (s : Seg) (h : s.p ≠ s.q) : dot (s.q.sub s.p) (s.q.sub s.p) ≠ 0 := by
  intro h0
  obtain ⟨hx, hy⟩ := dot_self_eq_zero _ h0
  simp only [Pt.sub] at hx hy
  apply h
  obtain ⟨⟨px, py⟩, ⟨qx, qy⟩⟩ := s
  simp only at hx hy
  simp only [Pt.mk.injEq]
  constructor <;> linarith

theorem cuts_in01 (s : Seg) (es : List (Pt × Pt)) (c : Rat) (hc : c ∈ cutsE s es) : 0 ≤ c ∧ c ≤ 1 := by
  unfold cutsE at hc
  rw [mem_sortU] at hc
  rcases List.mem_cons.mp hc with rfl | hc
  · constructor <;> decide
  rcases List.mem_cons.mp hc with rfl | hc
  · constructor <;> decide
  obtain ⟨e, _, he⟩ := (mem_crossingsE s es c).mp hc
  have := crossingsEdge_in01 s e c he
  simpa [in01] using this

theorem cuts_sorted (s : Seg) (es : List (Pt × Pt)) : (cutsE s es).Pairwise (· < ·) := by
  unfold cutsE; exact pairwise_sortU _

theorem mem_cuts_of_crossing (s : Seg) (es : List (Pt × Pt)) (c : Rat) (hc : c ∈ crossingsE s es) :
    c ∈ cutsE s es := by
  unfold cutsE
  rw [mem_sortU]
  exact List.mem_cons_of_mem _ (List.mem_cons_of_mem _ hc)

theorem pair_facts (s : Seg) (es : List (Pt × Pt)) (a b : Rat) (h : (a, b) ∈ pairs (cutsE s es)) :
    0 ≤ a ∧ a < b ∧ b ≤ 1 ∧ ∀ c ∈ crossingsE s es, ¬ (a < c ∧ c < b) := by
  obtain ⟨h1, h2, h3, h4⟩ := pairs_spec _ (cuts_sorted s es) a b h
  exact ⟨(cuts_in01 s es a h2).1, h1, (cuts_in01 s es b h3).2,
    fun c hc => h4 c (mem_cuts_of_crossing s es c hc)⟩

/-- if an interior point of a candidate piece lies on a polygon edge, the whole closed piece lies on
    that edge (the edge is collinear with the segment and overlaps the piece: a transversal edge
    would have produced a cut parameter inside the piece) -/
theorem pair_edge_dichotomy (s : Seg) (es : List (Pt × Pt)) (a b : Rat)
    (hp : (a, b) ∈ pairs (cutsE s es)) (hdd : dot (s.q.sub s.p) (s.q.sub s.p) ≠ 0)
    (A B : Pt) (he : (A, B) ∈ es) (t : Rat) (hat : a < t) (htb : t < b)
    (hon : onSeg A B (s.at t) = true) :
    ∀ u, a ≤ u → u ≤ b → onSeg A B (s.at u) = true := by
  obtain ⟨h0, hab, h1, hno⟩ := pair_facts s es a b hp
  have ht01 : in01 t = true := by
    simp only [in01, Bool.and_eq_true, decide_eq_true_eq]; constructor <;> linarith
  rcases edge_crossing_complete s A B t hdd ht01 hon with hin | ⟨hDE, hA, hprod, hcA, hcB⟩
  · exact absurd ⟨hat, htb⟩ (hno t ((mem_crossingsE s _ t).mpr ⟨(A, B), he, hin⟩))
  · have out : ∀ v, (in01 v = true → v ∈ crossingsEdge s (A, B)) → v ≤ a ∨ b ≤ v := by
      intro v hv
      by_cases hv01 : in01 v = true
      · have := hno v ((mem_crossingsE s _ v).mpr ⟨(A, B), he, hv hv01⟩)
        by_contra hcon
        rw [not_or] at hcon
        exact this ⟨not_le.mp hcon.1, not_le.mp hcon.2⟩
      · simp only [in01, Bool.and_eq_true, decide_eq_true_eq, not_and_or, not_le] at hv01
        rcases hv01 with h | h
        · left; linarith
        · right; linarith
    intro u hau hub
    apply (onSeg_collinear_iff s A B u hdd hDE hA).mpr
    generalize param s A = tA at *
    generalize param s B = tB at *
    rcases mul_nonpos_iff.mp hprod with ⟨h1', h2'⟩ | ⟨h1', h2'⟩
    · have hA' : tA ≤ a := by rcases out tA hcA with h | h <;> linarith
      have hB' : b ≤ tB := by rcases out tB hcB with h | h <;> linarith
      exact mul_nonpos_of_nonneg_of_nonpos (by linarith) (by linarith)
    · have hA' : b ≤ tA := by rcases out tA hcA with h | h <;> linarith
      have hB' : tB ≤ a := by rcases out tB hcB with h | h <;> linarith
      exact mul_nonpos_of_nonpos_of_nonneg (by linarith) (by linarith)

/-- a candidate piece whose midpoint is off the boundary is off the boundary in its whole interior -/
theorem pair_off_boundary (s : Seg) (es : List (Pt × Pt)) (a b : Rat)
    (hp : (a, b) ∈ pairs (cutsE s es)) (hdd : dot (s.q.sub s.p) (s.q.sub s.p) ≠ 0)
    (hmid : onBoundaryE es (s.at ((a + b) / 2)) = false) (t : Rat) (hat : a < t) (htb : t < b) :
    onBoundaryE es (s.at t) = false := by
  have hab := (pair_facts s es a b hp).2.1
  by_contra hb
  have hb' : onBoundaryE es (s.at t) = true := by simpa using hb
  simp only [onBoundaryE, List.any_eq_true] at hb'
  obtain ⟨⟨A, B⟩, he, hon⟩ := hb'
  have := pair_edge_dichotomy s es a b hp hdd A B he t hat htb hon ((a + b) / 2) (by linarith) (by linarith)
  have hm : onBoundaryE es (s.at ((a + b) / 2)) = true := by
    simp only [onBoundaryE, List.any_eq_true]; exact ⟨(A, B), he, this⟩
  rw [hm] at hmid; cases hmid

/-- a candidate piece whose midpoint is on the boundary lies in the boundary -/
theorem pair_on_boundary (s : Seg) (es : List (Pt × Pt)) (a b : Rat)
    (hp : (a, b) ∈ pairs (cutsE s es)) (hdd : dot (s.q.sub s.p) (s.q.sub s.p) ≠ 0)
    (hmid : onBoundaryE es (s.at ((a + b) / 2)) = true) (t : Rat) (hat : a ≤ t) (htb : t ≤ b) :
    onBoundaryE es (s.at t) = true := by
  have hab := (pair_facts s es a b hp).2.1
  simp only [onBoundaryE, List.any_eq_true] at hmid ⊢
  obtain ⟨⟨A, B⟩, he, hon⟩ := hmid
  exact ⟨(A, B), he, pair_edge_dichotomy s es a b hp hdd A B he ((a + b) / 2) (by linarith) (by linarith) hon t hat htb⟩

/-- the status (inside / not inside, even–odd rule along the segment) of every interior point of a
    candidate piece is that of its midpoint -/
theorem pair_insideAlong_const (s : Seg) (es : List (Pt × Pt)) (a b : Rat)
    (hp : (a, b) ∈ pairs (cutsE s es)) (hdd : dot (s.q.sub s.p) (s.q.sub s.p) ≠ 0)
    (t : Rat) (hat : a < t) (htb : t < b) :
    insideAlong s es t = insideAlong s es ((a + b) / 2) := by
  have hab := (pair_facts s es a b hp).2.1
  by_cases hmid : onBoundaryE es (s.at ((a + b) / 2)) = true
  · have := pair_on_boundary s es a b hp hdd hmid t hat.le htb.le
    simp [insideAlong, hmid, this]
  · have hmid' : onBoundaryE es (s.at ((a + b) / 2)) = false := by simpa using hmid
    have hoff := pair_off_boundary s es a b hp hdd hmid'
    have ht := hoff t hat htb
    simp only [insideAlong, hmid', ht, Bool.not_false, Bool.true_and]
    rcases le_total t ((a + b) / 2) with h | h
    · exact oddAlong_const s es hdd t _ h (fun u h1 h2 => hoff u (by linarith) (by linarith))
    · exact (oddAlong_const s es hdd _ t h (fun u h1 h2 => hoff u (by linarith) (by linarith))).symm

/-! ### Sutherland–Hodgman -/

theorem eval_lerp3 (h : HS) (P Q : P3) (t : Rat) :
    h.eval (lerp3 P Q t) = h.eval P + t * (h.eval Q - h.eval P) := by
  simp only [HS.eval, lerp3]; ring

theorem mem_shEdge (h : HS) (P Q X : P3) (hX : X ∈ shEdge h P Q) :
    (X = P ∧ h.eval P ≤ 0) ∨
      (X = lerp3 P Q (h.eval P / (h.eval P - h.eval Q)) ∧
        ((h.eval P < 0 ∧ 0 < h.eval Q) ∨ (0 < h.eval P ∧ h.eval Q < 0))) := by
  simp only [shEdge, List.mem_append] at hX
  rcases hX with hX | hX
  · split_ifs at hX with h1
    · left; exact ⟨List.mem_singleton.mp hX, h1⟩
    · cases hX
  · split_ifs at hX with h1
    · right; exact ⟨List.mem_singleton.mp hX, h1⟩
    · cases hX

theorem shEdge_sound (h : HS) (P Q X : P3) (hX : X ∈ shEdge h P Q) : h.eval X ≤ 0 := by
  rcases mem_shEdge h P Q X hX with ⟨rfl, h1⟩ | ⟨rfl, h1⟩
  · exact h1
  · rw [eval_lerp3]
    have hne : h.eval P - h.eval Q ≠ 0 := by rcases h1 with ⟨a, b⟩ | ⟨a, b⟩ <;> intro e <;> linarith
    have : h.eval P / (h.eval P - h.eval Q) * (h.eval Q - h.eval P) = - h.eval P := by
      field_simp; ring
    linarith

theorem shEdge_preserves (h g : HS) (P Q X : P3) (hP : g.eval P ≤ 0) (hQ : g.eval Q ≤ 0)
    (hX : X ∈ shEdge h P Q) : g.eval X ≤ 0 := by
  rcases mem_shEdge h P Q X hX with ⟨rfl, _⟩ | ⟨rfl, h1⟩
  · exact hP
  · rw [eval_lerp3]
    generalize h.eval P = fp at *
    generalize h.eval Q = fq at *
    have ht : 0 ≤ fp / (fp - fq) ∧ fp / (fp - fq) ≤ 1 := by
      rcases h1 with ⟨a, b⟩ | ⟨a, b⟩
      · have hd : fp - fq < 0 := by linarith
        constructor
        · exact div_nonneg_of_nonpos a.le hd.le
        · rw [div_le_one_of_neg hd]; linarith
      · have hd : 0 < fp - fq := by linarith
        constructor
        · exact div_nonneg a.le hd.le
        · rw [div_le_one hd]; linarith
    generalize fp / (fp - fq) = t at *
    nlinarith [mul_nonneg ht.1 (neg_nonneg.mpr hQ), mul_nonneg (sub_nonneg.mpr ht.2) (neg_nonneg.mpr hP)]

theorem mem_shAux (h : HS) (first : P3) (l : List P3) (X : P3) (hX : X ∈ shAux h first l) :
    ∃ P ∈ l, ∃ Q ∈ first :: l, X ∈ shEdge h P Q := by
  induction l with
  | nil => simp [shAux] at hX
  | cons a rest ih =>
    cases rest with
    | nil =>
      simp only [shAux] at hX
      exact ⟨a, by simp, first, by simp, hX⟩
    | cons b rest =>
      simp only [shAux, List.mem_append] at hX
      rcases hX with hX | hX
      · exact ⟨a, by simp, b, by simp, hX⟩
      · obtain ⟨P, hP, Q, hQ, hXe⟩ := ih hX
        refine ⟨P, List.mem_cons_of_mem _ hP, Q, ?_, hXe⟩
        rcases List.mem_cons.mp hQ with rfl | hQ
        · simp
        · exact List.mem_cons_of_mem _ (List.mem_cons_of_mem _ hQ)

theorem mem_shClip1 (h : HS) (poly : List P3) (X : P3) (hX : X ∈ shClip1 h poly) :
    ∃ P ∈ poly, ∃ Q ∈ poly, X ∈ shEdge h P Q := by
  cases poly with
  | nil => simp [shClip1] at hX
  | cons a rest =>
    obtain ⟨P, hP, Q, hQ, hXe⟩ := mem_shAux h a (a :: rest) X hX
    refine ⟨P, hP, Q, ?_, hXe⟩
    rcases List.mem_cons.mp hQ with rfl | hQ
    · simp
    · exact hQ

theorem shClip1_sound (h : HS) (poly : List P3) (X : P3) (hX : X ∈ shClip1 h poly) : h.eval X ≤ 0 := by
  obtain ⟨P, _, Q, _, hXe⟩ := mem_shClip1 h poly X hX
  exact shEdge_sound h P Q X hXe

theorem shClip1_preserves (h g : HS) (poly : List P3) (hg : ∀ P ∈ poly, g.eval P ≤ 0) (X : P3)
    (hX : X ∈ shClip1 h poly) : g.eval X ≤ 0 := by
  obtain ⟨P, hP, Q, hQ, hXe⟩ := mem_shClip1 h poly X hX
  exact shEdge_preserves h g P Q X (hg P hP) (hg Q hQ) hXe

theorem shClip_preserves (hs : List HS) (g : HS) (poly : List P3) (hg : ∀ P ∈ poly, g.eval P ≤ 0)
    (X : P3) (hX : X ∈ shClip hs poly) : g.eval X ≤ 0 := by
  induction hs generalizing poly with
  | nil => exact hg X hX
  | cons h hs ih => exact ih (shClip1 h poly) (fun P hP => shClip1_preserves h g poly hg P hP) hX

theorem shEdge_inside (h : HS) (P Q : P3) (hP : h.eval P ≤ 0) (hQ : h.eval Q ≤ 0) : shEdge h P Q = [P] := by
  simp only [shEdge, hP, if_true]
  rw [if_neg]
  · simp
  · rintro (⟨_, b⟩ | ⟨a, _⟩) <;> linarith

theorem shAux_inside (h : HS) (first : P3) (l : List P3) (hf : h.eval first ≤ 0)
    (hl : ∀ P ∈ l, h.eval P ≤ 0) : shAux h first l = l := by
  induction l with
  | nil => rfl
  | cons a rest ih =>
    cases rest with
    | nil => simp only [shAux]; exact shEdge_inside h a first (hl a (by simp)) hf
    | cons b rest =>
      simp only [shAux]
      rw [shEdge_inside h a b (hl a (by simp)) (hl b (by simp)), ih (fun P hP => hl P (List.mem_cons_of_mem _ hP))]
      rfl

/-! ### Sutherland–Hodgman in the plane: completeness for convex counter-clockwise polygons -/

/-- consecutive pairs of `cur :: ns` -/
def zp : Pt → List Pt → List (Pt × Pt)
  | _, [] => []
  | cur, n :: r => (cur, n) :: zp n r

def lastOf : Pt → List Pt → Pt
  | a, [] => a
  | _, b :: r => lastOf b r

theorem edgesAux_eq_zp (f a : Pt) (rest : List Pt) : edgesAux f (a :: rest) = zp a (rest ++ [f]) := by
  induction rest generalizing a with
  | nil => rfl
  | cons b r ih => simp only [edgesAux, List.cons_append, zp, ih]

theorem edges_eq_zp (a : Pt) (rest : List Pt) : edges (a :: rest) = zp a (rest ++ [a]) :=
  edgesAux_eq_zp a a rest

theorem lastOf_append_singleton (a : Pt) (l : List Pt) (x : Pt) : lastOf a (l ++ [x]) = x := by
  induction l generalizing a with
  | nil => rfl
  | cons b r ih => simp only [List.cons_append, lastOf, ih]

theorem mem_zp (cur : Pt) (ns : List Pt) (e : Pt × Pt) (he : e ∈ zp cur ns) :
    e.1 ∈ cur :: ns ∧ e.2 ∈ ns := by
  induction ns generalizing cur with
  | nil => cases he
  | cons n r ih =>
    simp only [zp, List.mem_cons] at he
    rcases he with rfl | he
    · simp
    · obtain ⟨h1, h2⟩ := ih n he
      exact ⟨List.mem_cons_of_mem _ h1, List.mem_cons_of_mem _ h2⟩

theorem mem_of_mem_edges (poly : List Pt) (e : Pt × Pt) (he : e ∈ edges poly) :
    e.1 ∈ poly ∧ e.2 ∈ poly := by
  cases poly with
  | nil => cases he
  | cons a rest =>
    rw [edges_eq_zp] at he
    obtain ⟨h1, h2⟩ := mem_zp a _ e he
    refine ⟨?_, ?_⟩
    · rcases List.mem_cons.mp h1 with h | h
      · rw [h]; simp
      · rcases List.mem_append.mp h with h | h
        · exact List.mem_cons_of_mem _ h
        · rw [List.mem_singleton.mp h]; simp
    · rcases List.mem_append.mp h2 with h | h
      · exact List.mem_cons_of_mem _ h
      · rw [List.mem_singleton.mp h]; simp

theorem zp_append_singleton (a : Pt) (l : List Pt) (x : Pt) (e : Pt × Pt) :
    e ∈ zp a (l ++ [x]) ↔ e ∈ zp a l ∨ e = (lastOf a l, x) := by
  induction l generalizing a with
  | nil => simp [zp, lastOf]
  | cons b r ih =>
    simp only [List.cons_append, zp, List.mem_cons, lastOf, ih]
    tauto

/-! affine facts -/

theorem lerp2_zero (A B : Pt) : lerp2 A B 0 = A := by
  obtain ⟨x, y⟩ := A; simp [lerp2]

theorem lerp2_one (A B : Pt) : lerp2 A B 1 = B := by
  obtain ⟨x, y⟩ := A; obtain ⟨x', y'⟩ := B; simp [lerp2]

theorem eval_lerp2 (h : HP) (A B : Pt) (r : Rat) :
    h.eval (lerp2 A B r) = h.eval A + r * (h.eval B - h.eval A) := by
  simp only [HP.eval, lerp2]; ring

theorem leftOf_lerp2 (A B C D : Pt) (r : Rat) :
    leftOf A B (lerp2 C D r) = leftOf A B C + r * (leftOf A B D - leftOf A B C) := by
  simp only [leftOf, cross, Pt.sub, lerp2]; ring

theorem inPoly_lerp2 (poly : List Pt) (C D : Pt) (r : Rat) (hC : InPoly poly C) (hD : InPoly poly D)
    (h0 : 0 ≤ r) (h1 : r ≤ 1) : InPoly poly (lerp2 C D r) := by
  intro e he
  rw [leftOf_lerp2]
  have a := hC e he
  have b := hD e he
  nlinarith [mul_nonneg h0 b, mul_nonneg (sub_nonneg.mpr h1) a]

/-- the crossing ratio of an edge that properly crosses the line -/
theorem cross_ratio (fp fq : Rat) (hc : (fp < 0 ∧ 0 < fq) ∨ (0 < fp ∧ fq < 0)) :
    0 ≤ fp / (fp - fq) ∧ fp / (fp - fq) ≤ 1 ∧ fp + fp / (fp - fq) * (fq - fp) = 0 ∧
      (0 < fq → fp / (fp - fq) < 1) := by
  have hne : fp - fq ≠ 0 := by rcases hc with ⟨a, b⟩ | ⟨a, b⟩ <;> intro e <;> linarith
  refine ⟨?_, ?_, ratio_cancel fp fq hne, ?_⟩
  · rcases hc with ⟨a, b⟩ | ⟨a, b⟩
    · exact div_nonneg_of_nonpos a.le (by linarith)
    · exact div_nonneg a.le (by linarith)
  · rcases hc with ⟨a, b⟩ | ⟨a, b⟩
    · rw [div_le_one_of_neg (by linarith)]; linarith
    · rw [div_le_one (by linarith)]; linarith
  · intro hq
    rcases hc with ⟨a, b⟩ | ⟨a, b⟩
    · rw [div_lt_one_of_neg (by linarith)]; linarith
    · linarith

section Clip
variable (poly : List Pt) (h : HP)

/-- "to the left of `U → W`" follows from "in the polygon and in the half-plane" -/
def Good (U W : Pt) : Prop := ∀ X, InPoly poly X → h.eval X ≤ 0 → 0 ≤ leftOf U W X

/-- a point of the clipping line on an edge whose end point is strictly outside -/
def ExitPt (U : Pt) : Prop :=
  h.eval U = 0 ∧ ∃ e ∈ edges poly, ∃ r : Rat, 0 ≤ r ∧ r < 1 ∧ U = lerp2 e.1 e.2 r ∧ 0 < h.eval e.2

theorem good_subseg (A B : Pt) (he : (A, B) ∈ edges poly) (r1 r2 : Rat) (h12 : r1 ≤ r2) :
    Good poly h (lerp2 A B r1) (lerp2 A B r2) := by
  intro X hX _
  have : leftOf (lerp2 A B r1) (lerp2 A B r2) X = (r2 - r1) * leftOf A B X := by
    simp only [leftOf, cross, Pt.sub, lerp2]; ring
  rw [this]
  exact mul_nonneg (by linarith) (hX (A, B) he)

theorem good_chord (U W : Pt) (hU : ExitPt poly h U) (hW : InPoly poly W) (hW0 : h.eval W = 0) :
    Good poly h U W := by
  obtain ⟨hU0, ⟨A, B⟩, he, r, hr0, hr1, rfl, hB⟩ := hU
  intro X _ hX0
  have hWl := hW (A, B) he
  simp only at hWl hB
  have id1 : (h.eval W - h.eval (lerp2 A B r)) * cross (X.sub (lerp2 A B r)) (B.sub (lerp2 A B r))
      + (h.eval X - h.eval (lerp2 A B r)) * cross (B.sub (lerp2 A B r)) (W.sub (lerp2 A B r))
      + (h.eval B - h.eval (lerp2 A B r)) * leftOf (lerp2 A B r) W X = 0 := by
    simp only [HP.eval, leftOf, cross, Pt.sub, lerp2]; ring
  have id2 : cross (B.sub (lerp2 A B r)) (W.sub (lerp2 A B r)) = (1 - r) * leftOf A B W := by
    simp only [leftOf, cross, Pt.sub, lerp2]; ring
  rw [hW0, hU0, id2] at id1
  have hprod : 0 ≤ h.eval B * leftOf (lerp2 A B r) W X := by
    have : 0 ≤ (-h.eval X) * ((1 - r) * leftOf A B W) :=
      mul_nonneg (by linarith) (mul_nonneg (by linarith) hWl)
    linarith
  exact (mul_nonneg_iff_of_pos_left hB).mp hprod

def Chain (R : Pt → Pt → Prop) : List Pt → Prop
  | [] => True
  | [_] => True
  | a :: b :: r => R a b ∧ Chain R (b :: r)

theorem chain_snoc (R : Pt → Pt → Prop) (O : List Pt) (y : Pt) :
    Chain R (O ++ [y]) ↔ Chain R O ∧ ∀ L, O.getLast? = some L → R L y := by
  induction O with
  | nil => simp [Chain]
  | cons a r ih =>
    cases r with
    | nil => simp [Chain]
    | cons b r =>
      simp only [List.cons_append, Chain] at ih ⊢
      rw [ih]
      simp only [List.getLast?_cons_cons]
      tauto

theorem chain_iff_zp (R : Pt → Pt → Prop) (a : Pt) (r : List Pt) :
    Chain R (a :: r) ↔ ∀ e ∈ zp a r, R e.1 e.2 := by
  induction r generalizing a with
  | nil => simp [Chain, zp]
  | cons b r ih =>
    simp only [Chain, zp, List.mem_cons, forall_eq_or_imp, ih]

theorem getLast?_eq_lastOf (a : Pt) (r : List Pt) : (a :: r).getLast? = some (lastOf a r) := by
  induction r generalizing a with
  | nil => rfl
  | cons b r ih => rw [List.getLast?_cons_cons, ih]; rfl

def FirstOK (a0 F : Pt) : Prop :=
  (h.eval a0 ≤ 0 ∧ F = a0) ∨ (0 < h.eval a0 ∧ InPoly poly F ∧ h.eval F = 0)

/-- invariant of the walk: `O` = output so far, `v` = the vertex the walk has reached -/
structure Inv (a0 : Pt) (O : List Pt) (v : Pt) : Prop where
  chain : Chain (Good poly h) O
  mem : ∀ Y ∈ O, InPoly poly Y ∧ h.eval Y ≤ 0
  first : ∀ F, O.head? = some F → FirstOK poly h a0 F
  empty : O = [] → v = a0 ∨ (0 < h.eval a0 ∧ 0 ≤ h.eval v)
  last : ∀ L, O.getLast? = some L →
    (h.eval v ≤ 0 → Good poly h L v) ∧ (0 < h.eval v → ExitPt poly h L)

/-- emitting one vertex -/
theorem inv_emit (a0 : Pt) (O : List Pt) (v y w : Pt) (I : Inv poly h a0 O v)
    (hy : InPoly poly y ∧ h.eval y ≤ 0)
    (hjoin : ∀ L, O.getLast? = some L → Good poly h L y)
    (hfirst : O = [] → FirstOK poly h a0 y)
    (hlast : (h.eval w ≤ 0 → Good poly h y w) ∧ (0 < h.eval w → ExitPt poly h y)) :
    Inv poly h a0 (O ++ [y]) w where
  chain := (chain_snoc _ O y).mpr ⟨I.chain, hjoin⟩
  mem := by
    intro Y hY
    rcases List.mem_append.mp hY with hY | hY
    · exact I.mem Y hY
    · rw [List.mem_singleton.mp hY]; exact hy
  first := by
    intro F hF
    cases O with
    | nil => simp only [List.nil_append, List.head?_cons, Option.some.injEq] at hF; rw [← hF]; exact hfirst rfl
    | cons a r => simp only [List.cons_append, List.head?_cons, Option.some.injEq] at hF; exact I.first F (by simp [hF])
  empty := by intro hO; simp at hO
  last := by
    intro L hL
    rw [List.getLast?_append] at hL
    simp only [List.getLast?_singleton, Option.some_or, Option.some.injEq] at hL
    rw [← hL]; exact hlast


/-- one edge `A → B` of the polygon -/
theorem inv_step (hc : ConvexCCW poly) (a0 : Pt) (O : List Pt) (A B : Pt)
    (he : (A, B) ∈ edges poly) (I : Inv poly h a0 O A) :
    Inv poly h a0 (O ++ shEdge2 h A B) B := by
  obtain ⟨hAm, hBm⟩ := mem_of_mem_edges poly (A, B) he
  have hA : InPoly poly A := hc A hAm
  have hB : InPoly poly B := hc B hBm
  simp only [shEdge2]
  by_cases hp : h.eval A ≤ 0
  · -- `A` is emitted
    have hfirstA : O = [] → FirstOK poly h a0 A := by
      intro hO
      rcases I.empty hO with e | ⟨e1, e2⟩
      · left; exact ⟨e ▸ hp, e⟩
      · right; exact ⟨e1, hA, le_antisymm hp e2⟩
    have hjoinA : ∀ L, O.getLast? = some L → Good poly h L A := fun L hL => (I.last L hL).1 hp
    by_cases hx : (h.eval A < 0 ∧ 0 < h.eval B) ∨ (0 < h.eval A ∧ h.eval B < 0)
    · -- … and the exit crossing
      have hx' : h.eval A < 0 ∧ 0 < h.eval B := by
        rcases hx with h1 | h1
        · exact h1
        · exact absurd h1.1 (not_lt.mpr hp)
      obtain ⟨t0, t1, tz, tlt⟩ := cross_ratio _ _ hx
      simp only [hp, if_true, hx]
      have I1 : Inv poly h a0 (O ++ [A]) (lerp2 A B (h.eval A / (h.eval A - h.eval B))) := by
        refine inv_emit poly h a0 O A A _ I ⟨hA, hp⟩ hjoinA hfirstA ⟨fun _ => ?_, fun hpos => ?_⟩
        · have := good_subseg poly h A B he 0 _ t0
          rwa [lerp2_zero] at this
        · rw [eval_lerp2, tz] at hpos; exact absurd hpos (lt_irrefl _)
      have hc0 : h.eval (lerp2 A B (h.eval A / (h.eval A - h.eval B))) = 0 := by rw [eval_lerp2, tz]
      have I2 := inv_emit poly h a0 (O ++ [A]) _ (lerp2 A B (h.eval A / (h.eval A - h.eval B))) B I1
        ⟨inPoly_lerp2 poly A B _ hA hB t0 t1, hc0.le⟩
        (by
          intro L hL
          rw [List.getLast?_append] at hL
          simp only [List.getLast?_singleton, Option.some_or, Option.some.injEq] at hL
          rw [← hL]
          have := good_subseg poly h A B he 0 _ t0
          rwa [lerp2_zero] at this)
        (by intro hO; simp at hO)
        ⟨fun hle => absurd hx'.2 (not_lt.mpr hle),
         fun _ => ⟨hc0, (A, B), he, _, t0, tlt hx'.2, rfl, hx'.2⟩⟩
      simpa [List.append_assoc] using I2
    · -- no crossing
      simp only [hp, if_true, hx, if_false, List.append_nil]
      refine inv_emit poly h a0 O A A B I ⟨hA, hp⟩ hjoinA hfirstA ⟨fun _ => ?_, fun hpos => ?_⟩
      · have := good_subseg poly h A B he 0 1 (by norm_num)
        rwa [lerp2_zero, lerp2_one] at this
      · have hA0 : h.eval A = 0 := by
          by_contra hne
          exact hx (Or.inl ⟨lt_of_le_of_ne hp hne, hpos⟩)
        exact ⟨hA0, (A, B), he, 0, le_refl _, by norm_num, (lerp2_zero A B).symm, hpos⟩
  · -- `A` is strictly outside
    have hpos : 0 < h.eval A := not_le.mp hp
    by_cases hx : (h.eval A < 0 ∧ 0 < h.eval B) ∨ (0 < h.eval A ∧ h.eval B < 0)
    · have hx' : 0 < h.eval A ∧ h.eval B < 0 := by
        rcases hx with h1 | h1
        · exact absurd h1.1 (not_lt.mpr hpos.le)
        · exact h1
      obtain ⟨t0, t1, tz, _⟩ := cross_ratio _ _ hx
      have hc0 : h.eval (lerp2 A B (h.eval A / (h.eval A - h.eval B))) = 0 := by rw [eval_lerp2, tz]
      have hcP := inPoly_lerp2 poly A B _ hA hB t0 t1
      simp only [hp, if_false, hx, if_true, List.nil_append]
      refine inv_emit poly h a0 O A _ B I ⟨hcP, hc0.le⟩ ?_ ?_ ⟨fun _ => ?_, fun hB0 => ?_⟩
      · intro L hL
        exact good_chord poly h L _ ((I.last L hL).2 hpos) hcP hc0
      · intro hO
        right
        refine ⟨?_, hcP, hc0⟩
        rcases I.empty hO with e | ⟨e1, _⟩
        · rw [← e]; exact hpos
        · exact e1
      · have := good_subseg poly h A B he _ 1 t1
        rwa [lerp2_one] at this
      · exact absurd hB0 (not_lt.mpr hx'.2.le)
    · -- nothing is emitted
      have hq : 0 ≤ h.eval B := by
        by_contra hneg
        exact hx (Or.inr ⟨hpos, not_le.mp hneg⟩)
      simp only [hp, if_false, hx, List.append_nil]
      exact {
        chain := I.chain
        mem := I.mem
        first := I.first
        empty := by
          intro hO
          right
          rcases I.empty hO with e | ⟨e1, _⟩
          · exact ⟨e ▸ hpos, hq⟩
          · exact ⟨e1, hq⟩
        last := by
          intro L hL
          have hE := (I.last L hL).2 hpos
          exact ⟨fun hle => good_chord poly h L B hE hB (le_antisymm hle hq), fun _ => hE⟩ }

theorem inv_walk (hc : ConvexCCW poly) (a0 : Pt) (ns : List Pt) (cur : Pt) (O : List Pt)
    (hes : ∀ e ∈ zp cur ns, e ∈ edges poly) (I : Inv poly h a0 O cur) :
    Inv poly h a0 (O ++ walk2 h cur ns) (lastOf cur ns) := by
  induction ns generalizing cur O with
  | nil => simpa [walk2, lastOf] using I
  | cons n r ih =>
    simp only [walk2, lastOf, ← List.append_assoc]
    apply ih n (O ++ shEdge2 h cur n) (fun e he => hes e (by simp [zp, he]))
    exact inv_step poly h hc a0 O cur n (hes (cur, n) (by simp [zp])) I

/-- the invariant at the end of the walk around a convex counter-clockwise polygon -/
theorem inv_final (hc : ConvexCCW poly) (a : Pt) (rest : List Pt) (hpoly : poly = a :: rest) :
    Inv poly h a (shClip12 h poly) a := by
  have I0 : Inv poly h a [] a :=
    ⟨trivial, fun Y hY => (by cases hY), fun F hF => (by cases hF), fun _ => Or.inl rfl,
      fun L hL => (by cases hL)⟩
  have := inv_walk poly h hc a (rest ++ [a]) a [] (by
    intro e he; rw [hpoly, edges_eq_zp]; exact he) I0
  rw [lastOf_append_singleton] at this
  simpa [hpoly, shClip12] using this

/-- every edge of the clipped polygon has the points of (polygon ∩ half-plane) on its left -/
theorem clip_edges_good (hc : ConvexCCW poly) (e : Pt × Pt) (he : e ∈ edges (shClip12 h poly)) :
    Good poly h e.1 e.2 := by
  cases hpoly : poly with
  | nil => rw [hpoly] at he; cases he
  | cons a rest =>
    have I := inv_final poly h hc a rest hpoly
    rw [← hpoly]
    cases hout : shClip12 h poly with
    | nil => rw [hout] at he; cases he
    | cons F r =>
      rw [hout] at he I
      rw [edges_eq_zp, zp_append_singleton] at he
      rcases he with he | he
      · exact (chain_iff_zp _ F r).mp I.chain e he
      · rw [he]
        have hL := getLast?_eq_lastOf F r
        obtain ⟨l1, l2⟩ := I.last _ hL
        rcases I.first F rfl with ⟨h1, h2⟩ | ⟨h1, h2, h3⟩
        · have g := l1 h1
          rw [← h2] at g
          exact g
        · exact good_chord poly h _ F (l2 h1) h2 h3

end Clip


/-! soundness in the plane (no convexity needed) and the link with the 3d algorithm -/

theorem mem_shEdge2 (h : HP) (P Q X : Pt) (hX : X ∈ shEdge2 h P Q) :
    (X = P ∧ h.eval P ≤ 0) ∨
      (X = lerp2 P Q (h.eval P / (h.eval P - h.eval Q)) ∧
        ((h.eval P < 0 ∧ 0 < h.eval Q) ∨ (0 < h.eval P ∧ h.eval Q < 0))) := by
  simp only [shEdge2, List.mem_append] at hX
  rcases hX with hX | hX
  · split_ifs at hX with h1
    · left; exact ⟨List.mem_singleton.mp hX, h1⟩
    · cases hX
  · split_ifs at hX with h1
    · right; exact ⟨List.mem_singleton.mp hX, h1⟩
    · cases hX

theorem mem_walk2 (h : HP) (cur : Pt) (ns : List Pt) (X : Pt) (hX : X ∈ walk2 h cur ns) :
    ∃ P ∈ cur :: ns, ∃ Q ∈ cur :: ns, X ∈ shEdge2 h P Q := by
  induction ns generalizing cur with
  | nil => cases hX
  | cons n r ih =>
    simp only [walk2, List.mem_append] at hX
    rcases hX with hX | hX
    · exact ⟨cur, by simp, n, by simp, hX⟩
    · obtain ⟨P, hP, Q, hQ, hXe⟩ := ih n hX
      exact ⟨P, List.mem_cons_of_mem _ hP, Q, List.mem_cons_of_mem _ hQ, hXe⟩

theorem mem_shClip12 (h : HP) (poly : List Pt) (X : Pt) (hX : X ∈ shClip12 h poly) :
    ∃ P ∈ poly, ∃ Q ∈ poly, X ∈ shEdge2 h P Q := by
  cases poly with
  | nil => cases hX
  | cons a rest =>
    obtain ⟨P, hP, Q, hQ, hXe⟩ := mem_walk2 h a (rest ++ [a]) X hX
    have fix : ∀ Z, Z ∈ a :: (rest ++ [a]) → Z ∈ a :: rest := by
      intro Z hZ
      simp only [List.mem_cons, List.mem_append] at hZ ⊢
      tauto
    exact ⟨P, fix P hP, Q, fix Q hQ, hXe⟩

/-- every output vertex satisfies the clipping half-plane -/
theorem shClip12_sound (h : HP) (poly : List Pt) (X : Pt) (hX : X ∈ shClip12 h poly) : h.eval X ≤ 0 := by
  obtain ⟨P, _, Q, _, hXe⟩ := mem_shClip12 h poly X hX
  rcases mem_shEdge2 h P Q X hXe with ⟨rfl, h1⟩ | ⟨rfl, h1⟩
  · exact h1
  · rw [eval_lerp2, (cross_ratio _ _ h1).2.2.1]

/-- an affine constraint `0 ≤ φ` satisfied by all input vertices is satisfied by all output vertices -/
theorem shClip12_preserves (h : HP) (poly : List Pt) (φ : Pt → Rat)
    (haff : ∀ C D r, φ (lerp2 C D r) = φ C + r * (φ D - φ C)) (hφ : ∀ P ∈ poly, 0 ≤ φ P)
    (X : Pt) (hX : X ∈ shClip12 h poly) : 0 ≤ φ X := by
  obtain ⟨P, hP, Q, hQ, hXe⟩ := mem_shClip12 h poly X hX
  rcases mem_shEdge2 h P Q X hXe with ⟨rfl, _⟩ | ⟨rfl, h1⟩
  · exact hφ _ hP
  · obtain ⟨t0, t1, _, _⟩ := cross_ratio _ _ h1
    rw [haff]
    nlinarith [mul_nonneg t0 (hφ Q hQ), mul_nonneg (sub_nonneg.mpr t1) (hφ P hP)]

theorem shClip2_preserves (hs : List HP) (poly : List Pt) (φ : Pt → Rat)
    (haff : ∀ C D r, φ (lerp2 C D r) = φ C + r * (φ D - φ C)) (hφ : ∀ P ∈ poly, 0 ≤ φ P)
    (X : Pt) (hX : X ∈ shClip2 hs poly) : 0 ≤ φ X := by
  induction hs generalizing poly with
  | nil => exact hφ X hX
  | cons h hs ih => exact ih (shClip12 h poly) (shClip12_preserves h poly φ haff hφ) hX

theorem eval_embed (O U V : P3) (h : HS) (p : Pt) :
    h.eval (embed O U V p) = (pullHS O U V h).eval p := by
  simp only [HS.eval, HP.eval, embed, pullHS]; ring

theorem lerp3_embed (O U V : P3) (P Q : Pt) (t : Rat) :
    lerp3 (embed O U V P) (embed O U V Q) t = embed O U V (lerp2 P Q t) := by
  simp only [lerp3, embed, lerp2, P3.mk.injEq]
  refine ⟨by ring, by ring, by ring⟩

theorem shEdge_embed (O U V : P3) (h : HS) (P Q : Pt) :
    shEdge h (embed O U V P) (embed O U V Q) = (shEdge2 (pullHS O U V h) P Q).map (embed O U V) := by
  simp only [shEdge, shEdge2, eval_embed, lerp3_embed]
  split_ifs <;> simp

theorem shAux_embed (O U V : P3) (h : HS) (f a : Pt) (rest : List Pt) :
    shAux h (embed O U V f) ((a :: rest).map (embed O U V))
      = (walk2 (pullHS O U V h) a (rest ++ [f])).map (embed O U V) := by
  induction rest generalizing a with
  | nil => simp [shAux, walk2, shEdge_embed]
  | cons b r ih =>
    have := ih b
    simp only [List.map_cons] at this
    simp only [List.map_cons, shAux, List.cons_append, walk2, List.map_append, shEdge_embed, this]

theorem shClip1_embed (O U V : P3) (h : HS) (poly : List Pt) :
    shClip1 h (poly.map (embed O U V)) = (shClip12 (pullHS O U V h) poly).map (embed O U V) := by
  cases poly with
  | nil => rfl
  | cons a rest =>
    have := shAux_embed O U V h a a rest
    simp only [List.map_cons] at this
    simp only [List.map_cons, shClip1, shClip12, this]

end PorepyVerif.C44
