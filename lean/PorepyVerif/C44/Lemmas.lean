/-
C44 — helper lemmas: the affine restriction of a half-plane to a segment, the Liang–Barsky step,
sorted cut lists, the crossing parameters of one polygon edge.
-/
import PorepyVerif.C44.Model
import Mathlib.Algebra.Order.Field.Rat
import Mathlib.Tactic.Ring
import Mathlib.Tactic.Linarith
import Mathlib.Tactic.Positivity
import Mathlib.Tactic.FieldSimp
import Mathlib.Tactic.LinearCombination

namespace PorepyVerif.C44

/-! ### convex clipping -/

/-- along the segment a half-plane is an affine function of the parameter -/
theorem eval_at (h : HP) (s : Seg) (t : Rat) :
    h.eval (s.at t) = h.eval s.p + t * (h.eval s.q - h.eval s.p) := by
  simp only [HP.eval, Seg.at]; ring

theorem affine_le_iff_pos (n d t : Rat) (hd : 0 < d) : n + t * d ≤ 0 ↔ t ≤ -n / d := by
  rw [le_div_iff₀ hd]; constructor <;> intro h <;> linarith

theorem affine_le_iff_neg (n d t : Rat) (hd : d < 0) : n + t * d ≤ 0 ↔ -n / d ≤ t := by
  rw [div_le_iff_of_neg hd]; constructor <;> intro h <;> linarith

theorem clipStep_spec (s : Seg) (h : HP) (iv : Iv) (t : Rat) :
    inIv (clipStep s h iv) t ↔ inIv iv t ∧ h.eval (s.at t) ≤ 0 := by
  rw [eval_at]
  cases iv with
  | none => simp [clipStep, inIv]
  | some p =>
    obtain ⟨lo, hi⟩ := p
    simp only [clipStep]
    generalize h.eval s.q - h.eval s.p = d
    generalize h.eval s.p = n
    by_cases hd : d = 0
    · subst hd
      by_cases hn : n ≤ 0
      · simp [hn, inIv]
      · simp [hn, inIv]
    · simp only [hd, if_false]
      by_cases hpos : 0 < d
      · simp only [hpos, if_true]
        rw [affine_le_iff_pos n d t hpos]
        by_cases hr : -n / d < hi
        · simp only [hr, if_true]
          by_cases hl : lo ≤ -n / d
          · simp only [hl, if_true, inIv]
            constructor
            · rintro ⟨a, b⟩; exact ⟨⟨a, by linarith⟩, b⟩
            · rintro ⟨⟨a, _⟩, b⟩; exact ⟨a, b⟩
          · simp only [hl, if_false, inIv, false_iff]
            rintro ⟨⟨a, _⟩, b⟩; exact hl (le_trans a b)
        · simp only [hr, if_false]
          by_cases hl : lo ≤ hi
          · simp only [hl, if_true, inIv]
            constructor
            · rintro ⟨a, b⟩; exact ⟨⟨a, b⟩, by linarith [not_lt.mp hr]⟩
            · rintro ⟨⟨a, b⟩, _⟩; exact ⟨a, b⟩
          · simp only [hl, if_false, inIv, false_iff]
            rintro ⟨⟨a, b⟩, _⟩; exact hl (le_trans a b)
      · have hneg : d < 0 := lt_of_le_of_ne (not_lt.mp hpos) hd
        simp only [hpos, if_false]
        rw [affine_le_iff_neg n d t hneg]
        by_cases hr : lo < -n / d
        · simp only [hr, if_true]
          by_cases hl : -n / d ≤ hi
          · simp only [hl, if_true, inIv]
            constructor
            · rintro ⟨a, b⟩; exact ⟨⟨by linarith, b⟩, a⟩
            · rintro ⟨⟨_, b⟩, a⟩; exact ⟨a, b⟩
          · simp only [hl, if_false, inIv, false_iff]
            rintro ⟨⟨_, b⟩, a⟩; exact hl (le_trans a b)
        · simp only [hr, if_false]
          by_cases hl : lo ≤ hi
          · simp only [hl, if_true, inIv]
            constructor
            · rintro ⟨a, b⟩; exact ⟨⟨a, b⟩, by linarith [not_lt.mp hr]⟩
            · rintro ⟨⟨a, b⟩, _⟩; exact ⟨a, b⟩
          · simp only [hl, if_false, inIv, false_iff]
            rintro ⟨⟨a, b⟩, _⟩; exact hl (le_trans a b)

theorem clipFrom_spec (s : Seg) (hs : List HP) (iv : Iv) (t : Rat) :
    inIv (clipFrom s hs iv) t ↔ inIv iv t ∧ ∀ h ∈ hs, h.eval (s.at t) ≤ 0 := by
  induction hs generalizing iv with
  | nil => simp [clipFrom]
  | cons h hs ih =>
    simp only [clipFrom, ih, clipStep_spec, List.mem_cons, forall_eq_or_imp]
    tauto

/-- the result of a step is a non-empty interval -/
def IvOk : Iv → Prop
  | none => True
  | some (lo, hi) => lo ≤ hi

theorem clipStep_ok (s : Seg) (h : HP) (iv : Iv) (hiv : IvOk iv) : IvOk (clipStep s h iv) := by
  cases iv with
  | none => simp [clipStep, IvOk]
  | some p =>
    obtain ⟨lo, hi⟩ := p
    simp only [clipStep]
    split_ifs <;> simp_all [IvOk]

theorem clipFrom_ok (s : Seg) (hs : List HP) (iv : Iv) (hiv : IvOk iv) : IvOk (clipFrom s hs iv) := by
  induction hs generalizing iv with
  | nil => simpa [clipFrom]
  | cons h hs ih => exact ih _ (clipStep_ok s h iv hiv)

/-! ### strictly increasing cut lists -/

theorem mem_insertU (x y : Rat) (l : List Rat) : y ∈ insertU x l ↔ y = x ∨ y ∈ l := by
  induction l with
  | nil => simp [insertU]
  | cons z zs ih =>
    simp only [insertU]
    split_ifs with h1 h2
    · simp
    · subst h2; simp
    · simp only [List.mem_cons, ih]; tauto

theorem pairwise_insertU (x : Rat) (l : List Rat) (hl : l.Pairwise (· < ·)) :
    (insertU x l).Pairwise (· < ·) := by
  induction l with
  | nil => simp [insertU]
  | cons z zs ih =>
    simp only [insertU]
    rw [List.pairwise_cons] at hl
    split_ifs with h1 h2
    · rw [List.pairwise_cons]
      refine ⟨?_, List.pairwise_cons.mpr hl⟩
      intro a ha
      rcases List.mem_cons.mp ha with rfl | ha
      · exact h1
      · exact lt_trans h1 (hl.1 a ha)
    · exact List.pairwise_cons.mpr hl
    · rw [List.pairwise_cons]
      refine ⟨?_, ih hl.2⟩
      intro a ha
      rcases (mem_insertU x a zs).mp ha with rfl | ha
      · exact lt_of_le_of_ne (not_lt.mp h1) (fun e => h2 e.symm)
      · exact hl.1 a ha

theorem mem_sortU (y : Rat) (l : List Rat) : y ∈ sortU l ↔ y ∈ l := by
  induction l with
  | nil => simp [sortU]
  | cons x xs ih => simp [sortU, mem_insertU, ih]

theorem pairwise_sortU (l : List Rat) : (sortU l).Pairwise (· < ·) := by
  induction l with
  | nil => simp [sortU]
  | cons x xs ih => exact pairwise_insertU x _ ih

/-- consecutive pairs of a strictly increasing list: increasing, end points are elements, and no
    element lies strictly in between -/
theorem pairs_spec (l : List Rat) (hl : l.Pairwise (· < ·)) (a b : Rat) (hab : (a, b) ∈ pairs l) :
    a < b ∧ a ∈ l ∧ b ∈ l ∧ ∀ c ∈ l, ¬ (a < c ∧ c < b) := by
  induction l with
  | nil => simp [pairs] at hab
  | cons x rest ih =>
    cases rest with
    | nil => simp [pairs] at hab
    | cons y rest =>
      rw [List.pairwise_cons] at hl
      simp only [pairs, List.mem_cons] at hab
      rcases hab with hxy | hin
      · obtain ⟨rfl, rfl⟩ := Prod.mk.inj hxy
        have hab' : a < b := hl.1 b (by simp)
        refine ⟨hab', by simp, by simp, ?_⟩
        intro c hc ⟨h1, h2⟩
        rcases List.mem_cons.mp hc with rfl | hc
        · exact lt_irrefl _ h1
        · rcases List.mem_cons.mp hc with rfl | hc
          · exact lt_irrefl _ h2
          · have := (List.pairwise_cons.mp hl.2).1 c hc
            exact lt_irrefl _ (lt_trans h2 this)
      · obtain ⟨h1, h2, h3, h4⟩ := ih hl.2 hin
        refine ⟨h1, List.mem_cons_of_mem _ h2, List.mem_cons_of_mem _ h3, ?_⟩
        intro c hc ⟨hc1, hc2⟩
        rcases List.mem_cons.mp hc with rfl | hc
        · exact lt_irrefl _ (lt_trans hc1 (hl.1 a h2))
        · exact h4 c hc ⟨hc1, hc2⟩

/-- the consecutive pairs of a strictly increasing list cover everything between its elements -/
theorem pairs_cover (l : List Rat) (hl : l.Pairwise (· < ·)) (t : Rat)
    (hlo : ∃ a ∈ l, a ≤ t) (hhi : ∃ b ∈ l, t ≤ b) :
    t ∈ l ∨ ∃ ab ∈ pairs l, ab.1 < t ∧ t < ab.2 := by
  induction l with
  | nil => obtain ⟨a, ha, _⟩ := hlo; cases ha
  | cons x rest ih =>
    rw [List.pairwise_cons] at hl
    by_cases htx : t = x
    · left; simp [htx]
    have hxt : x < t := by
      obtain ⟨a, ha, hat⟩ := hlo
      rcases List.mem_cons.mp ha with rfl | ha
      · exact lt_of_le_of_ne hat (fun e => htx e.symm)
      · exact lt_of_lt_of_le (hl.1 a ha) hat
    cases rest with
    | nil =>
      obtain ⟨b, hb, htb⟩ := hhi
      simp only [List.mem_singleton] at hb
      subst hb
      exact absurd hxt (not_lt.mpr htb)
    | cons y rest =>
      by_cases hty : t < y
      · right; exact ⟨(x, y), by simp [pairs], hxt, hty⟩
      · have hhi' : ∃ b ∈ y :: rest, t ≤ b := by
          obtain ⟨b, hb, htb⟩ := hhi
          rcases List.mem_cons.mp hb with rfl | hb
          · exact absurd hxt (not_lt.mpr htb)
          · exact ⟨b, hb, htb⟩
        rcases ih hl.2 ⟨y, by simp, not_lt.mp hty⟩ hhi' with h | ⟨ab, hab, h⟩
        · left; exact List.mem_cons_of_mem _ h
        · right; exact ⟨ab, by simp [pairs, hab], h⟩

/-! ### the parameters at which a segment meets one polygon edge -/

theorem onSeg_iff (A B P : Pt) :
    onSeg A B P = true ↔ cross (B.sub A) (P.sub A) = 0 ∧ dot (P.sub A) (P.sub B) ≤ 0 := by
  simp [onSeg]

/-- a point collinear with the segment is `p + param · (q - p)` -/
theorem param_spec (s : Seg) (Q : Pt) (hdd : dot (s.q.sub s.p) (s.q.sub s.p) ≠ 0)
    (hc : cross (s.q.sub s.p) (Q.sub s.p) = 0) :
    Q.x - s.p.x = param s Q * (s.q.x - s.p.x) ∧ Q.y - s.p.y = param s Q * (s.q.y - s.p.y) := by
  simp only [param, dot, cross, Pt.sub] at *
  constructor
  · rw [div_mul_eq_mul_div, eq_div_iff hdd]; linear_combination (-(s.q.y - s.p.y)) * hc
  · rw [div_mul_eq_mul_div, eq_div_iff hdd]; linear_combination (s.q.x - s.p.x) * hc

/-- for an edge on the line of the segment, the points of the segment that lie on the edge are
    those whose parameter is between the parameters of the edge's end points -/
theorem onSeg_collinear_iff (s : Seg) (A B : Pt) (t : Rat)
    (hdd : dot (s.q.sub s.p) (s.q.sub s.p) ≠ 0)
    (hDE : cross (s.q.sub s.p) (B.sub A) = 0)
    (hA : cross (s.q.sub s.p) (A.sub s.p) = 0) :
    onSeg A B (s.at t) = true ↔ (t - param s A) * (t - param s B) ≤ 0 := by
  have hB : cross (s.q.sub s.p) (B.sub s.p) = 0 := by
    simp only [cross, Pt.sub] at *; linear_combination hDE + hA
  obtain ⟨hAx, hAy⟩ := param_spec s A hdd hA
  obtain ⟨hBx, hBy⟩ := param_spec s B hdd hB
  generalize param s A = tA at *
  generalize param s B = tB at *
  obtain ⟨ax, ay⟩ := A
  obtain ⟨bx, by'⟩ := B
  simp only at hAx hAy hBx hBy
  have e1 : ax = s.p.x + tA * (s.q.x - s.p.x) := by linarith
  have e2 : ay = s.p.y + tA * (s.q.y - s.p.y) := by linarith
  have e3 : bx = s.p.x + tB * (s.q.x - s.p.x) := by linarith
  have e4 : by' = s.p.y + tB * (s.q.y - s.p.y) := by linarith
  subst e1 e2 e3 e4
  rw [onSeg_iff]
  have hpos : 0 < dot (s.q.sub s.p) (s.q.sub s.p) := by
    refine lt_of_le_of_ne ?_ (Ne.symm hdd)
    simp only [dot, Pt.sub]; exact add_nonneg (mul_self_nonneg _) (mul_self_nonneg _)
  have hc : cross (Pt.sub ⟨s.p.x + tB * (s.q.x - s.p.x), s.p.y + tB * (s.q.y - s.p.y)⟩
      ⟨s.p.x + tA * (s.q.x - s.p.x), s.p.y + tA * (s.q.y - s.p.y)⟩)
      ((s.at t).sub ⟨s.p.x + tA * (s.q.x - s.p.x), s.p.y + tA * (s.q.y - s.p.y)⟩) = 0 := by
    simp only [cross, Pt.sub, Seg.at]; ring
  have hd : dot ((s.at t).sub ⟨s.p.x + tA * (s.q.x - s.p.x), s.p.y + tA * (s.q.y - s.p.y)⟩)
      ((s.at t).sub ⟨s.p.x + tB * (s.q.x - s.p.x), s.p.y + tB * (s.q.y - s.p.y)⟩)
      = (t - tA) * (t - tB) * dot (s.q.sub s.p) (s.q.sub s.p) := by
    simp only [dot, Pt.sub, Seg.at]; ring
  rw [hd]
  constructor
  · rintro ⟨_, h⟩
    by_contra hn
    have : 0 < (t - tA) * (t - tB) * dot (s.q.sub s.p) (s.q.sub s.p) := mul_pos (not_le.mp hn) hpos
    linarith
  · intro h
    exact ⟨hc, mul_nonpos_of_nonpos_of_nonneg h hpos.le⟩


theorem dot_self_eq_zero (E : Pt) (h : dot E E = 0) : E.x = 0 ∧ E.y = 0 := by
  simp only [dot] at h
  have h1 := mul_self_nonneg E.x
  have h2 := mul_self_nonneg E.y
  constructor
  · exact mul_self_eq_zero.mp (by linarith)
  · exact mul_self_eq_zero.mp (by linarith)

/-- if the point `P` of the line through `p` with direction `D` lies on the edge `AB` and the edge
    is parallel to `D`, then `A` is on that line -/
theorem collinear_of_onSeg_parallel (s : Seg) (A B : Pt) (t : Rat)
    (hDE : cross (s.q.sub s.p) (B.sub A) = 0) (hon : onSeg A B (s.at t) = true) :
    cross (s.q.sub s.p) (A.sub s.p) = 0 := by
  rw [onSeg_iff] at hon
  obtain ⟨hc, hd⟩ := hon
  by_cases hE : dot (B.sub A) (B.sub A) = 0
  · obtain ⟨ex, ey⟩ := dot_self_eq_zero _ hE
    simp only [Pt.sub] at ex ey
    have hBx : B.x = A.x := by linarith
    have hBy : B.y = A.y := by linarith
    have hW : dot ((s.at t).sub A) ((s.at t).sub A) = 0 := by
      have h0 : 0 ≤ dot ((s.at t).sub A) ((s.at t).sub A) := by
        simp only [dot]; exact add_nonneg (mul_self_nonneg _) (mul_self_nonneg _)
      have : dot ((s.at t).sub A) ((s.at t).sub B) = dot ((s.at t).sub A) ((s.at t).sub A) := by
        simp only [dot, Pt.sub, hBx, hBy]
      linarith
    obtain ⟨wx, wy⟩ := dot_self_eq_zero _ hW
    simp only [Pt.sub, Seg.at] at wx wy
    simp only [cross, Pt.sub]
    linear_combination (s.q.y - s.p.y) * wx - (s.q.x - s.p.x) * wy
  · -- cross D W · |E|² = cross D E · (E·W) + (D·E) · cross E W
    have key : cross (s.q.sub s.p) (A.sub s.p) * dot (B.sub A) (B.sub A) = 0 := by
      simp only [cross, dot, Pt.sub, Seg.at] at *
      linear_combination
        (-((B.x - A.x) * (s.p.x + t * (s.q.x - s.p.x) - A.x) + (B.y - A.y) * (s.p.y + t * (s.q.y - s.p.y) - A.y))) * hDE
        - ((s.q.x - s.p.x) * (B.x - A.x) + (s.q.y - s.p.y) * (B.y - A.y)) * hc
    rcases mul_eq_zero.mp key with h | h
    · exact h
    · exact absurd h hE


theorem mem_crossingsE (s : Seg) (es : List (Pt × Pt)) (t : Rat) :
    t ∈ crossingsE s es ↔ ∃ e ∈ es, t ∈ crossingsEdge s e := by
  induction es with
  | nil => simp [crossingsE]
  | cons e es ih => simp [crossingsE, ih]

theorem crossingsEdge_in01 (s : Seg) (e : Pt × Pt) (t : Rat) (h : t ∈ crossingsEdge s e) :
    in01 t = true := by
  simp only [crossingsEdge] at h
  split_ifs at h with h1 h2 h3
  · simp only [List.mem_singleton] at h
    subst h
    simp only [Bool.and_eq_true] at h2
    exact h2.1
  · cases h
  · exact (List.mem_filter.mp h).2
  · cases h

/-- every parameter in [0,1] at which the segment meets the edge `AB` is a crossing parameter, or
    lies in a collinear overlap whose end parameters are crossing parameters when in [0,1] -/
theorem edge_crossing_complete (s : Seg) (A B : Pt) (t : Rat)
    (hdd : dot (s.q.sub s.p) (s.q.sub s.p) ≠ 0) (h01 : in01 t = true)
    (hon : onSeg A B (s.at t) = true) :
    t ∈ crossingsEdge s (A, B) ∨
      (cross (s.q.sub s.p) (B.sub A) = 0 ∧ cross (s.q.sub s.p) (A.sub s.p) = 0 ∧
        (t - param s A) * (t - param s B) ≤ 0 ∧
        (in01 (param s A) = true → param s A ∈ crossingsEdge s (A, B)) ∧
        (in01 (param s B) = true → param s B ∈ crossingsEdge s (A, B))) := by
  by_cases hden : cross (s.q.sub s.p) (B.sub A) = 0
  · right
    have hA := collinear_of_onSeg_parallel s A B t hden hon
    refine ⟨hden, hA, (onSeg_collinear_iff s A B t hdd hden hA).mp hon, ?_, ?_⟩
    · intro h
      simp only [crossingsEdge, hden, ne_eq, not_true_eq_false, if_false, hA, if_true]
      exact List.mem_filter.mpr ⟨by simp, h⟩
    · intro h
      simp only [crossingsEdge, hden, ne_eq, not_true_eq_false, if_false, hA, if_true]
      exact List.mem_filter.mpr ⟨by simp, h⟩
  · left
    have ht : t = cross (A.sub s.p) (B.sub A) / cross (s.q.sub s.p) (B.sub A) := by
      rw [eq_div_iff hden]
      have hc := ((onSeg_iff A B (s.at t)).mp hon).1
      simp only [cross, Pt.sub, Seg.at] at hc ⊢
      linear_combination (-1 : Rat) * hc
    simp only [crossingsEdge, ne_eq, hden, not_false_eq_true, if_true]
    rw [← ht]
    simp [h01, hon]

/-! ### Sutherland–Hodgman -/

theorem eval_lerp3 (h : HS) (P Q : P3) (t : Rat) :
    h.eval (lerp3 P Q t) = h.eval P + t * (h.eval Q - h.eval P) := by
  simp only [HS.eval, lerp3]; ring

theorem mem_shEdge (h : HS) (P Q X : P3) (hX : X ∈ shEdge h P Q) :
    (X = P ∧ h.eval P ≤ 0) ∨
      (X = lerp3 P Q (h.eval P / (h.eval P - h.eval Q)) ∧
        ((h.eval P < 0 ∧ 0 < h.eval Q) ∨ (0 < h.eval P ∧ h.eval Q < 0))) := by
  simp only [shEdge, List.mem_append] at hX
  rcases hX with hX | hX
  · split_ifs at hX with h1
    · left; exact ⟨List.mem_singleton.mp hX, h1⟩
    · cases hX
  · split_ifs at hX with h1
    · right; exact ⟨List.mem_singleton.mp hX, h1⟩
    · cases hX

theorem shEdge_sound (h : HS) (P Q X : P3) (hX : X ∈ shEdge h P Q) : h.eval X ≤ 0 := by
  rcases mem_shEdge h P Q X hX with ⟨rfl, h1⟩ | ⟨rfl, h1⟩
  · exact h1
  · rw [eval_lerp3]
    have hne : h.eval P - h.eval Q ≠ 0 := by rcases h1 with ⟨a, b⟩ | ⟨a, b⟩ <;> intro e <;> linarith
    have : h.eval P / (h.eval P - h.eval Q) * (h.eval Q - h.eval P) = - h.eval P := by
      field_simp; ring
    linarith

theorem shEdge_preserves (h g : HS) (P Q X : P3) (hP : g.eval P ≤ 0) (hQ : g.eval Q ≤ 0)
    (hX : X ∈ shEdge h P Q) : g.eval X ≤ 0 := by
  rcases mem_shEdge h P Q X hX with ⟨rfl, _⟩ | ⟨rfl, h1⟩
  · exact hP
  · rw [eval_lerp3]
    generalize h.eval P = fp at *
    generalize h.eval Q = fq at *
    have ht : 0 ≤ fp / (fp - fq) ∧ fp / (fp - fq) ≤ 1 := by
      rcases h1 with ⟨a, b⟩ | ⟨a, b⟩
      · have hd : fp - fq < 0 := by linarith
        constructor
        · exact div_nonneg_of_nonpos a.le hd.le
        · rw [div_le_one_of_neg hd]; linarith
      · have hd : 0 < fp - fq := by linarith
        constructor
        · exact div_nonneg a.le hd.le
        · rw [div_le_one hd]; linarith
    generalize fp / (fp - fq) = t at *
    nlinarith [mul_nonneg ht.1 (neg_nonneg.mpr hQ), mul_nonneg (sub_nonneg.mpr ht.2) (neg_nonneg.mpr hP)]

theorem mem_shAux (h : HS) (first : P3) (l : List P3) (X : P3) (hX : X ∈ shAux h first l) :
    ∃ P ∈ l, ∃ Q ∈ first :: l, X ∈ shEdge h P Q := by
  induction l with
  | nil => simp [shAux] at hX
  | cons a rest ih =>
    cases rest with
    | nil =>
      simp only [shAux] at hX
      exact ⟨a, by simp, first, by simp, hX⟩
    | cons b rest =>
      simp only [shAux, List.mem_append] at hX
      rcases hX with hX | hX
      · exact ⟨a, by simp, b, by simp, hX⟩
      · obtain ⟨P, hP, Q, hQ, hXe⟩ := ih hX
        refine ⟨P, List.mem_cons_of_mem _ hP, Q, ?_, hXe⟩
        rcases List.mem_cons.mp hQ with rfl | hQ
        · simp
        · exact List.mem_cons_of_mem _ (List.mem_cons_of_mem _ hQ)

theorem mem_shClip1 (h : HS) (poly : List P3) (X : P3) (hX : X ∈ shClip1 h poly) :
    ∃ P ∈ poly, ∃ Q ∈ poly, X ∈ shEdge h P Q := by
  cases poly with
  | nil => simp [shClip1] at hX
  | cons a rest =>
    obtain ⟨P, hP, Q, hQ, hXe⟩ := mem_shAux h a (a :: rest) X hX
    refine ⟨P, hP, Q, ?_, hXe⟩
    rcases List.mem_cons.mp hQ with rfl | hQ
    · simp
    · exact hQ

theorem shClip1_sound (h : HS) (poly : List P3) (X : P3) (hX : X ∈ shClip1 h poly) : h.eval X ≤ 0 := by
  obtain ⟨P, _, Q, _, hXe⟩ := mem_shClip1 h poly X hX
  exact shEdge_sound h P Q X hXe

theorem shClip1_preserves (h g : HS) (poly : List P3) (hg : ∀ P ∈ poly, g.eval P ≤ 0) (X : P3)
    (hX : X ∈ shClip1 h poly) : g.eval X ≤ 0 := by
  obtain ⟨P, hP, Q, hQ, hXe⟩ := mem_shClip1 h poly X hX
  exact shEdge_preserves h g P Q X (hg P hP) (hg Q hQ) hXe

theorem shClip_preserves (hs : List HS) (g : HS) (poly : List P3) (hg : ∀ P ∈ poly, g.eval P ≤ 0)
    (X : P3) (hX : X ∈ shClip hs poly) : g.eval X ≤ 0 := by
  induction hs generalizing poly with
  | nil => exact hg X hX
  | cons h hs ih => exact ih (shClip1 h poly) (fun P hP => shClip1_preserves h g poly hg P hP) hX

theorem shEdge_inside (h : HS) (P Q : P3) (hP : h.eval P ≤ 0) (hQ : h.eval Q ≤ 0) : shEdge h P Q = [P] := by
  simp only [shEdge, hP, if_true]
  rw [if_neg]
  · simp
  · rintro (⟨_, b⟩ | ⟨a, _⟩) <;> linarith

theorem shAux_inside (h : HS) (first : P3) (l : List P3) (hf : h.eval first ≤ 0)
    (hl : ∀ P ∈ l, h.eval P ≤ 0) : shAux h first l = l := by
  induction l with
  | nil => rfl
  | cons a rest ih =>
    cases rest with
    | nil => simp only [shAux]; exact shEdge_inside h a first (hl a (by simp)) hf
    | cons b rest =>
      simp only [shAux]
      rw [shEdge_inside h a b (hl a (by simp)) (hl b (by simp)), ih (fun P hP => hl P (List.mem_cons_of_mem _ hP))]
      rfl

end PorepyVerif.C44
