/-
C36 — property theorems (statements only depend on Model.lean; helper lemmas in Lemmas.lean).

Property: for any domain and range index sets and sizes, applying an array slicer to a vector, a 2-d array, a
sparse matrix, a forward-mode AD array or a scalar, including chained and transposed slicers and pending
right-operand operations, gives the same result as multiplying by the corresponding explicit projection matrix.

`projMatrix c n` is the explicit matrix (`P[ran[k], dom[k]] += 1`, `range_size × n`); `projVec` / `projMat` are the
products with it (they exist iff every domain index addresses a row of the operand).  `Core.WF` = range indices
pairwise distinct and inside the range ("injections"); `Core.Good` = the same for the domain indices as well
(needed as soon as a slicer is transposed).
-/
import PorepyVerif.C36.Lemmas

namespace PorepyVerif.C36

/-! ## one slicing step, per operand type -/

/-- 1-d array: `_slice_vector` (both the `onto` shortcut and the zeros-then-assign path) is `P · x`;
    it raises `IndexError` exactly when `P · x` does not exist. -/
theorem slice_vec_eq_matmul (c : Core) (hwf : c.WF) (x : Vec) :
    sliceRows c x 0 =
      if inBounds c.dom x.length then .ok (matVec (projMatrix c x.length) x) else .error .indexError :=
  sliceVec_eq c hwf x

/-- 2-d array with `m` columns: `_slice_vector` is `P · X`. -/
theorem slice_rows_eq_matmul (c : Core) (hwf : c.WF) (X : Mat) (m : Nat) (hX : ∀ row ∈ X, row.length = m) :
    sliceRows c X (List.replicate m 0) =
      if inBounds c.dom X.length then .ok (matMul (projMatrix c X.length) X m) else .error .indexError :=
  sliceArr_eq c hwf X m hX

/-- Sparse matrix, storage level: the CSR arrays produced by `_slice_matrix` (scipy row indexing on the `onto`
    path; argsort / counts at `ran+1` / cumsum / gather on the other) hold, row by row, exactly the stored
    entries of the selected rows of `A`, in their stored order (unsorted, repeated and explicit-zero entries
    included), and empty rows elsewhere; the number of columns is unchanged. -/
theorem slice_csr_rows (c : Core) (hwf : c.WF) (A : Csr) :
    (sliceCsr c A).map Csr.rows = sliceRows c A.rows [] ∧ ∀ B, sliceCsr c A = .ok B → B.ncols = A.ncols :=
  ⟨sliceCsr_rows c hwf A, fun B h => sliceCsr_ncols c A B h⟩

/-- Sparse matrix, dense level: `(S @ A).toarray() = P · A.toarray()`. -/
theorem slice_csr_eq_matmul (c : Core) (hwf : c.WF) (A : Csr) :
    (sliceCsr c A).map Csr.toDense =
      if inBounds c.dom A.toDense.length then .ok (matMul (projMatrix c A.toDense.length) A.toDense A.ncols)
      else .error .indexError :=
  sliceCsr_toDense c hwf A

/-- AdArray: the value is `P · val`, the Jacobian is `P · jac`. -/
theorem slice_ad (c : Core) (hwf : c.WF) (v : Vec) (J : Csr) :
    (applyCore c (.ad v (.raw J))).map obs = (do
      let v' ← projVec c v
      let J' ← projMat c J.toDense J.ncols
      pure (DVal.ad v' J.ncols J')) :=
  applyCore_obs c hwf (.ad v (.raw J)) (toDense_row_length J)

/-- Scalar: `S @ a = P · (a, a, …, a)` with `domain_size` entries. -/
theorem slice_scalar (c : Core) (h : c.Good) (a : Rat) :
    applyCore c (.scal a) = .ok (.vec (matVec (projMatrix c c.domSize) (List.replicate c.domSize a))) := by
  have hb : inBounds c.dom c.domSize = true := by
    rw [inBounds_iff]; exact h.2.2
  simp only [applyCore, sliceVec_eq c h.1, projVec, List.length_replicate, hb, if_true]
  rfl

/-- All operand types at once: one slicing step, observed densely, is `specCore` (= the explicit products). -/
theorem applyCore_eq_spec (c : Core) (hwf : c.WF) (y : Val) (hy : y.Shaped) :
    (applyCore c y).map obs = specCore c (obs y) :=
  applyCore_obs c hwf y hy

/-! ## transposition -/

theorem countPair_symm (r j : Nat) (rs ds : List Nat) : countPair r j rs ds = countPair j r ds rs := by
  induction rs generalizing ds with
  | nil => cases ds <;> rfl
  | cons a rs ih =>
    cases ds with
    | nil => rfl
    | cons b ds =>
      simp only [countPair, ih ds]
      congr 1
      by_cases h1 : a = r <;> by_cases h2 : b = j <;> simp [h1, h2]

/-- The matrix of the transposed geometry is the transposed matrix (unconditionally), and — for pairwise
    distinct, in-range DOMAIN indices — the transposed slicer acts as that matrix. -/
theorem transpose_is_PT (c : Core) :
    projMatrix c.transpose c.ranSize = transposeMat (projMatrix c c.domSize) c.domSize ∧
    (c.Good → ∀ v : Vec, v.length = c.ranSize →
      sliceRows c.transpose v 0 = .ok (matVec (transposeMat (projMatrix c c.domSize) c.domSize) v)) := by
  have hmat : projMatrix c.transpose c.ranSize = transposeMat (projMatrix c c.domSize) c.domSize := by
    simp only [projMatrix, transposeMat, Core.transpose, col, List.map_map]
    apply List.map_congr_left
    intro j hj
    apply List.map_congr_left
    intro r _
    have hj' : j < c.domSize := List.mem_range.mp hj
    simp only [Function.comp]
    rw [getD_of_lt _ _ _ (by simpa using hj')]
    simp [countPair_symm]
  refine ⟨hmat, ?_⟩
  intro hg v hv
  have hb : inBounds c.transpose.dom v.length = true := by
    rw [inBounds_iff, hv]; exact hg.1.2.2.1
  rw [sliceVec_eq c.transpose hg.transpose.1, projVec, if_pos hb, hv, hmat]

/-- Without distinct domain indices the transposed slicer is NOT `Pᵀ`: for `dom = [0,0]`, `ran = [0,1]`
    (`P = [[1],[1]]`), `Pᵀ · (3,4) = (7)` but the transposed slicer overwrites instead of summing. -/
example : ∀ c : Core,
    c = { dom := [0, 0], ran := [0, 1], domSize := 1, ranSize := 2, isOnto := false, transposed := false } →
    sliceRows c.transpose [3, 4] (0 : Rat) = .ok [4] ∧
    matVec (transposeMat (projMatrix c c.domSize) c.domSize) [3, 4] = [7] := by
  intro c hc; subst hc; decide +kernel

theorem stepCores_eq (ss : List Step) (cs : List Core) (h : stepCores ss = some cs) : ss = cs.map .proj := by
  induction ss generalizing cs with
  | nil => simp only [stepCores] at h; cases h; rfl
  | cons s ss ih =>
    cases s with
    | left a op => simp [stepCores] at h
    | proj c =>
      simp only [stepCores] at h
      cases h' : stepCores ss with
      | none => rw [h'] at h; cases h
      | some cs' => rw [h'] at h; cases h; simp [ih cs' h']

theorem stepCores_map (cs : List Core) : stepCores (cs.map .proj) = some cs := by
  induction cs with
  | nil => rfl
  | cons c cs ih => simp [stepCores, ih]

/-- `(S₀ @ S₁).T = S₁.T @ S₀.T` for slicers without pending operand operations, and `.T` of a plain slicer is the
    plain slicer of the transposed geometry — so the transpose of every chain is the reversed chain of `Pᵀ`s. -/
theorem transpose_chain (S₀ S₁ : Slicer) (c₀ c₁ : List Core)
    (h₀ : stepCores S₀.pending = some c₀) (h₁ : stepCores S₁.pending = some c₁) :
    (chain S₀ S₁).transpose = (do
      let T₀ ← S₀.transpose
      let T₁ ← S₁.transpose
      pure (chain T₁ T₀)) ∧
    Slicer.transpose { core := S₀.core, pending := [] } = .ok { core := S₀.core.transpose, pending := [] } := by
  constructor
  · have e₀ := stepCores_eq _ _ h₀
    have e₁ := stepCores_eq _ _ h₁
    have hc : stepCores (chain S₀ S₁).pending = some (c₁ ++ S₀.core :: c₀) := by
      simp only [chain, e₀, e₁]
      rw [show List.map Step.proj c₁ ++ Step.proj S₀.core :: List.map Step.proj c₀
            = (c₁ ++ S₀.core :: c₀).map Step.proj by simp]
      exact stepCores_map _
    simp only [Slicer.transpose, hc, h₀, h₁]
    -- both sides are `ofCores` of explicit non-empty lists
    have hrev : ((chain S₀ S₁).core :: (c₁ ++ S₀.core :: c₀)).reverse.map Core.transpose
        = (S₀.core :: c₀).reverse.map Core.transpose ++ (S₁.core :: c₁).reverse.map Core.transpose := by
      simp [chain]
    rw [hrev]
    generalize hA : (S₀.core :: c₀).reverse.map Core.transpose = A
    generalize hB : (S₁.core :: c₁).reverse.map Core.transpose = B
    cases A with
    | nil => simp at hA
    | cons a A =>
      cases B with
      | nil => simp at hB
      | cons b B => simp [ofCores, chain, bind, Except.bind, pure, Except.pure]
  · rfl

/-- Transposing twice gives back the projection matrix, both at the level of the matrix
    (`(Pᵀ)ᵀ = P`) and of the geometry (`S.T.T` has the index lists and sizes of `S`, hence the same matrix
    for every operand size, and — for a well-formed `S` — slices every list of rows exactly as `S` does). -/
theorem transpose_involutive (c : Core) (n : Nat) :
    transposeMat (transposeMat (projMatrix c n) n) c.ranSize = projMatrix c n ∧
    projMatrix c.transpose.transpose n = projMatrix c n ∧
    (c.WF → ∀ {α} (x : List α) (z : α), sliceRows c.transpose.transpose x z = sliceRows c x z) := by
  refine ⟨?_, rfl, ?_⟩
  · simp only [projMatrix, transposeMat, col, List.map_map]
    apply List.map_congr_left
    intro r hr
    apply List.ext_getElem (by simp)
    intro j h1 h2
    have hr' : r < c.ranSize := List.mem_range.mp hr
    have hj : j < n := by simpa using h2
    simp only [Function.comp, List.getElem_map, List.getElem_range]
    rw [getD_of_lt _ _ _ (by simpa using hr')]
    simp only [List.getElem_map, List.getElem_range, Function.comp]
    rw [getD_of_lt _ _ _ (by simpa using hj)]
    simp
  · intro hwf α x z
    have hwf' : c.transpose.transpose.WF := ⟨hwf.1, hwf.2.1, hwf.2.2.1, by intro ho; cases ho⟩
    rw [sliceRows_eq_scatter c hwf, sliceRows_eq_scatter _ hwf']
    rfl

/-- The `is_transposed` flag quirk: `transpose` negates the flag of the *fresh* object, so `S.T.T` (which acts
    exactly as `S`, see `transpose_involutive`) still reports "transposed"; also `is_onto` is not restored. -/
example : ∀ c : Core,
    c = { dom := [0, 2], ran := [0, 1], domSize := 3, ranSize := 2, isOnto := true, transposed := false } →
    c.transpose.transposed = true ∧ c.transpose.transpose.transposed = true ∧
    c.transpose.transpose.isOnto = false ∧
    c.transpose.transpose.dom = c.dom ∧ c.transpose.transpose.ran = c.ran ∧
    sliceRows c.transpose.transpose [10, 20, 30] (0 : Rat) = sliceRows c [10, 20, 30] 0 := by
  intro c hc; subst hc; decide +kernel

/-! ## chaining and pending operations -/

/-- `(S₀ @ S₁) @ y = S₀ @ (S₁ @ y)`: chaining is composition (errors propagate). -/
theorem chain_eq_product (S₀ S₁ : Slicer) (y : Val) :
    (chain S₀ S₁).apply y = S₁.apply y >>= S₀.apply := by
  simp only [Slicer.apply, chain]
  cases applyCore S₁.core y with
  | error e => rfl
  | ok z =>
    show applySteps (S₁.pending ++ Step.proj S₀.core :: S₀.pending) z = applySteps S₁.pending z >>= S₀.apply
    rw [applySteps_append]
    cases applySteps S₁.pending z with
    | error e => rfl
    | ok z' => rfl

/-- … in matrices: for plain slicers with well-formed geometries, `S₀ @ S₁ @ x = P₀ · (P₁ · x)`. -/
theorem chain_eq_product_vec (c₀ c₁ : Core) (h₀ : c₀.WF) (h₁ : c₁.WF) (x : Vec) :
    (chain { core := c₀, pending := [] } { core := c₁, pending := [] }).apply (.vec x)
      = (do let z ← projVec c₁ x; let u ← projVec c₀ z; pure (Val.vec u)) := by
  rw [chain_eq_product]
  have e₁ : Slicer.apply { core := c₁, pending := [] } (.vec x) = Val.vec <$> projVec c₁ x := by
    simp only [Slicer.apply, applyCore, sliceVec_eq c₁ h₁]
    cases projVec c₁ x <;> rfl
  have e₀ : ∀ z, Slicer.apply { core := c₀, pending := [] } (.vec z) = Val.vec <$> projVec c₀ z := by
    intro z
    simp only [Slicer.apply, applyCore, sliceVec_eq c₀ h₀]
    cases projVec c₀ z <;> rfl
  rw [e₁]
  cases projVec c₁ x with
  | error e => rfl
  | ok z =>
    show Slicer.apply { core := c₀, pending := [] } (.vec z) = (do let u ← projVec c₀ z; pure (Val.vec u))
    rw [e₀]
    cases projVec c₀ z <;> rfl

/-- `(a ∘ S) @ y = a ∘ (S @ y)` for each of `+ - * / ** @` and each operand kind. -/
theorem pending_eq (S : Slicer) (a : Const) (op : BinOp) (y : Val) :
    (rop S a op).apply y = S.apply y >>= applyLeft op a := by
  simp only [Slicer.apply, rop]
  cases applyCore S.core y with
  | error e => rfl
  | ok z =>
    show applySteps (S.pending ++ [Step.left a op]) z = applySteps S.pending z >>= applyLeft op a
    rw [applySteps_append]
    cases applySteps S.pending z with
    | error e => rfl
    | ok z' =>
      show (applySteps [Step.left a op] z') = applyLeft op a z'
      simp only [applySteps, applyStep]
      cases applyLeft op a z' <;> rfl

/-- `(s / S) @ y` for an AdArray result `S @ y = (v, J)`: the forward-mode rule of `s / x` applied to the SLICED
    array — value `s / vᵢ`, Jacobian row `i` of `J` scaled by `-s / vᵢ²` (division by zero reported). -/
theorem pending_div_ad (S : Slicer) (s : Rat) (y : Val) (v : Vec) (J : SpMat) (h : S.apply y = .ok (.ad v J)) :
    ((rop S (.scal s) .div).apply y).map obs = divAd s v J.ncols J.toDense := by
  rw [pending_eq, h]
  show (applyLeft .div (.scal s) (.ad v J)).map obs = _
  simp only [applyLeft, obs, specLeft, specLeft₀]
  cases divAd s v J.ncols J.toDense with
  | error e => rfl
  | ok d => simp [Functor.map, Except.map, obs_ofD]

/-- `(s ** S) @ y` for an AdArray result `(v, J)` with integral `v`: value `s ** vᵢ`, Jacobian row `i` scaled by
    `s ** vᵢ · L`, `L` being the value used for `ln s`. -/
theorem pending_pow_ad (S : Slicer) (s L : Rat) (y : Val) (v : Vec) (J : SpMat) (h : S.apply y = .ok (.ad v J)) :
    ((rop S (.scalLn s L) .pow).apply y).map obs = powAd s L v J.ncols J.toDense := by
  rw [pending_eq, h]
  show (applyLeft .pow (.scalLn s L) (.ad v J)).map obs = _
  simp only [applyLeft, obs, specLeft]
  cases powAd s L v J.ncols J.toDense with
  | error e => rfl
  | ok d => simp [Functor.map, Except.map, obs_ofD]

/-- The Jacobian scale of `divAd` is the derivative of `x ↦ s / x`: the secant slope between `v` and `v + h`
    is `-s / (v (v + h))`, whose value at `h = 0` is the `-s / v²` used by the rule. -/
theorem div_rule_secant (s v h : Rat) (hv : v ≠ 0) (hvh : v + h ≠ 0) :
    s / (v + h) - s / v = (-s / (v * (v + h))) * h := by
  grind

/-- A slicer with any pending operations (chains, operand operations, transposed geometries), applied to any
    rectangular operand, equals its specification: explicit projection matrices and the operand operations. -/
theorem slicer_eq_spec_wf (S : Slicer) (hS : S.WF) (y : Val) (hy : y.Shaped) :
    (S.apply y).map obs = S.spec (obs y) := by
  have h1 := applyCore_obs S.core hS.1 y hy
  simp only [Slicer.apply, Slicer.spec]
  cases h2 : applyCore S.core y with
  | error e =>
    rw [h2] at h1; simp only [Except.map] at h1; rw [← h1]; rfl
  | ok z =>
    rw [h2] at h1; simp only [Except.map] at h1; rw [← h1]
    exact applySteps_obs S.pending hS.2 z (specCore_shaped S.core (obs y) (obs z) h1.symm)

theorem slicer_eq_spec (S : Slicer) (hS : S.Good) (y : Val) (hy : y.Shaped) :
    (S.apply y).map obs = S.spec (obs y) :=
  slicer_eq_spec_wf S hS.wf y hy

/-! ## programs -/

theorem lookup_good (env : Env) (henv : Env.Good env) (i : Nat) (S : Slicer) (h : lookup env i = .ok S) : S.Good := by
  unfold lookup at h
  cases hf : env.find? (fun p => p.1 == i) with
  | none => rw [hf] at h; cases h
  | some p =>
    rw [hf] at h
    cases h
    exact henv p (List.mem_of_find?_eq_some hf)

theorem transpose_good (S T : Slicer) (hS : S.Good) (h : S.transpose = .ok T) : T.Good := by
  unfold Slicer.transpose at h
  cases hc : stepCores S.pending with
  | none => rw [hc] at h; cases h
  | some cs =>
    rw [hc] at h
    have hp := stepCores_eq _ _ hc
    have hall : ∀ c ∈ (S.core :: cs).reverse.map Core.transpose, c.Good := by
      intro c hc'
      obtain ⟨c0, hc0, rfl⟩ := List.mem_map.mp hc'
      rcases List.mem_cons.mp (List.mem_reverse.mp hc0) with rfl | hmem
      · exact hS.1.transpose
      · have : Step.Good (.proj c0) := hS.2 _ (by rw [hp]; exact List.mem_map.mpr ⟨c0, hmem, rfl⟩)
        exact Core.Good.transpose this
    cases hl : (S.core :: cs).reverse.map Core.transpose with
    | nil => simp at hl
    | cons a l =>
      dsimp only at h
      rw [hl] at h hall
      simp only [ofCores] at h
      cases h
      refine ⟨hall a List.mem_cons_self, ?_⟩
      intro s hs
      obtain ⟨c0, hc0, rfl⟩ := List.mem_map.mp hs
      exact hall c0 (List.mem_cons_of_mem _ hc0)

theorem ProgGood_tail (s : Stmt) (ss : List Stmt) (h : ProgGood (s :: ss)) : ProgGood ss := by
  cases s <;> simp only [ProgGood] at h <;> first | exact h.2 | exact h

theorem transposeProj_good (S T : Slicer) (hS : S.Good) (h : S.transposeProj = .ok T) : T.Good := by
  unfold Slicer.transposeProj at h
  cases hT : S.transpose with
  | error e => rw [hT] at h; cases h
  | ok T' =>
    rw [hT] at h
    cases h
    have hg := transpose_good S T' hS hT
    refine ⟨hg.1, ?_⟩
    intro s hs
    obtain ⟨s0, hs0, rfl⟩ := List.mem_map.mp hs
    have := hg.2 s0 hs0
    cases s0 with
    | proj c => exact this
    | left a op => trivial

theorem build_good (env : Env) (henv : Env.Good env) (s : Stmt) (ss : List Stmt) (hp : ProgGood (s :: ss))
    (i : Nat) (S : Slicer) (h : build env s = some (i, .ok S)) : S.Good := by
  cases s with
  | new i' d r rs ds =>
    simp only [build, Option.some.injEq, Prod.mk.injEq] at h
    obtain ⟨_, h⟩ := h
    simp only [Slicer.new] at h
    cases hc : mkCore d r rs ds with
    | error e => rw [hc] at h; cases h
    | ok c =>
      rw [hc] at h
      cases h
      exact ⟨hp.1 c hc, fun s hs => by cases hs⟩
  | copy i' j =>
    simp only [build, Option.some.injEq, Prod.mk.injEq] at h
    exact lookup_good env henv j S h.2
  | transp i' j =>
    simp only [build, Option.some.injEq, Prod.mk.injEq] at h
    obtain ⟨_, h⟩ := h
    cases hl : lookup env j with
    | error e => rw [hl] at h; cases h
    | ok S' =>
      rw [hl] at h
      exact transpose_good S' S (lookup_good env henv j S' hl) h
  | transpP i' j =>
    simp only [build, Option.some.injEq, Prod.mk.injEq] at h
    obtain ⟨_, h⟩ := h
    cases hl : lookup env j with
    | error e => rw [hl] at h; cases h
    | ok S' =>
      rw [hl] at h
      exact transposeProj_good S' S (lookup_good env henv j S' hl) h
  | rop i' j a op =>
    simp only [build, Option.some.injEq, Prod.mk.injEq] at h
    obtain ⟨_, h⟩ := h
    cases hl : lookup env j with
    | error e => rw [hl] at h; cases h
    | ok S' =>
      rw [hl] at h
      cases h
      have hg := lookup_good env henv j S' hl
      refine ⟨hg.1, ?_⟩
      intro s hs
      rcases List.mem_append.mp hs with h1 | h1
      · exact hg.2 s h1
      · rw [List.mem_singleton.mp h1]; trivial
  | chain i' j k =>
    simp only [build, Option.some.injEq, Prod.mk.injEq] at h
    obtain ⟨_, h⟩ := h
    cases hj : lookup env j with
    | error e => rw [hj] at h; cases h
    | ok S0 =>
      cases hk : lookup env k with
      | error e => rw [hj, hk] at h; cases h
      | ok S1 =>
        rw [hj, hk] at h
        cases h
        have g0 := lookup_good env henv j S0 hj
        have g1 := lookup_good env henv k S1 hk
        refine ⟨g1.1, ?_⟩
        intro s hs
        rcases List.mem_append.mp hs with h1 | h1
        · exact g1.2 s h1
        · rcases List.mem_cons.mp h1 with rfl | h2
          · exact g0.1
          · exact g0.2 s h2
  | apply j y => simp [build] at h

/-- Generic program lemma: if an invariant of slicers implies the specification and is preserved by every
    construction the program performs, model and specification produce the same outputs. -/
theorem run_eq_of_inv (Inv : Slicer → Prop) (OK : List Stmt → Prop)
    (htail : ∀ s ss, OK (s :: ss) → OK ss)
    (happly : ∀ j y ss, OK (.apply j y :: ss) → y.Shaped)
    (hspec : ∀ S, Inv S → ∀ y : Val, y.Shaped → (S.apply y).map obs = S.spec (obs y))
    (hbuild : ∀ env : Env, (∀ p ∈ env, Inv p.2) → ∀ s ss, OK (s :: ss) → ∀ i S, build env s = some (i, .ok S) → Inv S)
    (prog : List Stmt) (env : Env) (henv : ∀ p ∈ env, Inv p.2) (hp : OK prog) :
    run env prog = specRun env prog := by
  induction prog generalizing env with
  | nil => rfl
  | cons s ss ih =>
    have hp' := htail s ss hp
    have hlook : ∀ j S, lookup env j = .ok S → Inv S := by
      intro j S h
      unfold lookup at h
      cases hf : env.find? (fun p => p.1 == j) with
      | none => rw [hf] at h; cases h
      | some p => rw [hf] at h; cases h; exact henv p (List.mem_of_find?_eq_some hf)
    have hstep : ∀ (s' : Stmt), s' = s →
        runWith (fun S y => obs <$> S.apply y)
          (match build env s' with
            | some (i, .ok S) => ((i, S) :: env, (none : Option (Except Err DVal)))
            | _ => (env, none)).1 ss =
        runWith (fun S y => S.spec (obs y))
          (match build env s' with
            | some (i, .ok S) => ((i, S) :: env, (none : Option (Except Err DVal)))
            | _ => (env, none)).1 ss := by
      intro s' hs'
      subst hs'
      cases hb : build env s' with
      | none => exact ih env henv hp'
      | some p =>
        obtain ⟨i', r'⟩ := p
        cases r' with
        | error e => exact ih env henv hp'
        | ok S =>
          have hg := hbuild env henv _ ss hp i' S hb
          exact ih ((i', S) :: env) (fun p hp'' => by
            rcases List.mem_cons.mp hp'' with rfl | h
            · exact hg
            · exact henv p h) hp'
    cases s with
    | apply j y =>
      have hy : y.Shaped := happly j y ss hp
      simp only [run, specRun, runWith, stepWith]
      congr 1
      · congr 1
        cases hl : lookup env j with
        | error e => rfl
        | ok S => exact hspec S (hlook j S hl) y hy
      · exact ih env henv hp'
    | new i d r rs ds =>
      simp only [run, specRun, runWith, stepWith]; congr 1
      exact hstep _ rfl
    | copy i j =>
      simp only [run, specRun, runWith, stepWith]; congr 1
      exact hstep _ rfl
    | transp i j =>
      simp only [run, specRun, runWith, stepWith]; congr 1
      exact hstep _ rfl
    | transpP i j =>
      simp only [run, specRun, runWith, stepWith]; congr 1
      exact hstep _ rfl
    | rop i j a op =>
      simp only [run, specRun, runWith, stepWith]; congr 1
      exact hstep _ rfl
    | chain i j k =>
      simp only [run, specRun, runWith, stepWith]; congr 1
      exact hstep _ rfl

/-- Headline theorem: for EVERY program that builds slicers (constructor, copy, transpose — also through the
    `pp.ad.Projection` wrapper —, reverse operations, chaining; in any order, re-using earlier slicers any number of
    times) and applies them, the outputs of the model (slicing as coded) equal the outputs of the specification
    (explicit projection matrices), provided the constructed geometries are good and the operands rectangular. -/
theorem run_eq_specRun (prog : List Stmt) (env : Env) (henv : Env.Good env) (hp : ProgGood prog) :
    run env prog = specRun env prog :=
  run_eq_of_inv Slicer.Good ProgGood ProgGood_tail (fun _ _ _ h => h.1) slicer_eq_spec
    (fun env henv s ss hp i S h => build_good env henv s ss hp i S h) prog env henv hp

/-! ### the hypotheses as decidable input conditions (evaluated by the driver on every generated program) -/

theorem wfB_iff (c : Core) : c.wfB = true ↔ c.WF := by
  unfold Core.wfB Core.WF
  simp only [Bool.and_eq_true, beq_iff_eq, decide_eq_true_eq, List.all_eq_true, Bool.or_eq_true, Bool.not_eq_true']
  constructor
  · rintro ⟨⟨⟨h1, h2⟩, h3⟩, h4⟩
    refine ⟨h1, h2, h3, ?_⟩
    intro ho
    rcases h4 with h4 | h4
    · rw [ho] at h4; cases h4
    · exact h4
  · rintro ⟨h1, h2, h3, h4⟩
    refine ⟨⟨⟨h1, h2⟩, h3⟩, ?_⟩
    cases ho : c.isOnto with
    | false => left; rfl
    | true => right; exact h4 ho

theorem goodB_iff (c : Core) : c.goodB = true ↔ c.Good := by
  unfold Core.goodB Core.Good
  simp only [Bool.and_eq_true, decide_eq_true_eq, List.all_eq_true, wfB_iff]
  constructor
  · rintro ⟨⟨h1, h2⟩, h3⟩; exact ⟨h1, h2, h3⟩
  · rintro ⟨h1, h2, h3⟩; exact ⟨⟨h1, h2⟩, h3⟩

theorem rowsB_iff (m : Nat) (X : Mat) : rowsB m X = true ↔ ∀ row ∈ X, row.length = m := by
  simp [rowsB]

theorem shapedB_sound (y : Val) (h : y.shapedB = true) : y.Shaped := by
  cases y with
  | scal a => trivial
  | vec v => trivial
  | arr m X => exact (rowsB_iff m X).mp h
  | sp M =>
    cases M with
    | raw A => exact toDense_row_length A
    | dense m X => exact (rowsB_iff m X).mp h
  | ad v J =>
    cases J with
    | raw A => exact toDense_row_length A
    | dense m X => exact (rowsB_iff m X).mp h

theorem progGoodB_sound (prog : List Stmt) (h : progGoodB prog = true) : ProgGood prog := by
  induction prog with
  | nil => trivial
  | cons s ss ih =>
    cases s with
    | new i d r rs ds =>
      simp only [progGoodB, Bool.and_eq_true] at h
      refine ⟨?_, ih h.2⟩
      intro c hc
      have h1 := h.1
      rw [hc] at h1
      exact (goodB_iff c).mp h1
    | apply j y =>
      simp only [progGoodB, Bool.and_eq_true] at h
      exact ⟨shapedB_sound y h.1, ih h.2⟩
    | copy i j => exact ih h
    | transp i j => exact ih h
    | transpP i j => exact ih h
    | rop i j a op => exact ih h
    | chain i j k => exact ih h

/-- `run_eq_specRun` with its hypothesis as a computable check on the program text. -/
theorem run_eq_specRun_dec (prog : List Stmt) (h : progGoodB prog = true) : run [] prog = specRun [] prog :=
  run_eq_specRun prog [] (fun _ hp => by cases hp) (progGoodB_sound prog h)

/-- Programs without transposition need less: range indices pairwise distinct and in range; DOMAIN indices may
    repeat (the projection matrix then has repeated columns) — again as a computable check on the program text. -/
theorem run_eq_specRun_wf (prog : List Stmt) (h : progWfB prog = true) : run [] prog = specRun [] prog := by
  refine run_eq_of_inv Slicer.WF (fun p => progWfB p = true) ?_ ?_ slicer_eq_spec_wf ?_ prog []
    (fun _ hp => by cases hp) h
  · intro s ss h
    cases s <;> simp only [progWfB, Bool.and_eq_true] at h <;> first | exact h.2 | exact h | cases h
  · intro j y ss h
    simp only [progWfB, Bool.and_eq_true] at h
    exact shapedB_sound y h.1
  · intro env henv s ss hp i S hb
    have hlook : ∀ j S, lookup env j = .ok S → S.WF := by
      intro j S h
      unfold lookup at h
      cases hf : env.find? (fun p => p.1 == j) with
      | none => rw [hf] at h; cases h
      | some p => rw [hf] at h; cases h; exact henv p (List.mem_of_find?_eq_some hf)
    cases s with
    | new i' d r rs ds =>
      simp only [build, Option.some.injEq, Prod.mk.injEq] at hb
      obtain ⟨_, hb⟩ := hb
      simp only [Slicer.new] at hb
      simp only [progWfB, Bool.and_eq_true] at hp
      cases hc : mkCore d r rs ds with
      | error e => rw [hc] at hb; cases hb
      | ok c =>
        rw [hc] at hb
        cases hb
        have h1 := hp.1
        rw [hc] at h1
        exact ⟨(wfB_iff c).mp h1, fun s hs => by cases hs⟩
    | copy i' j =>
      simp only [build, Option.some.injEq, Prod.mk.injEq] at hb
      exact hlook j S hb.2
    | transp i' j => simp [progWfB] at hp
    | transpP i' j => simp [progWfB] at hp
    | rop i' j a op =>
      simp only [build, Option.some.injEq, Prod.mk.injEq] at hb
      obtain ⟨_, hb⟩ := hb
      cases hl : lookup env j with
      | error e => rw [hl] at hb; cases hb
      | ok S' =>
        rw [hl] at hb
        cases hb
        have hg := hlook j S' hl
        refine ⟨hg.1, ?_⟩
        intro s hs
        rcases List.mem_append.mp hs with h1 | h1
        · exact hg.2 s h1
        · rw [List.mem_singleton.mp h1]; trivial
    | chain i' j k =>
      simp only [build, Option.some.injEq, Prod.mk.injEq] at hb
      obtain ⟨_, hb⟩ := hb
      cases hj : lookup env j with
      | error e => rw [hj] at hb; cases hb
      | ok S0 =>
        cases hk : lookup env k with
        | error e => rw [hj, hk] at hb; cases hb
        | ok S1 =>
          rw [hj, hk] at hb
          cases hb
          have g0 := hlook j S0 hj
          have g1 := hlook k S1 hk
          refine ⟨g1.1, ?_⟩
          intro s hs
          rcases List.mem_append.mp hs with h1 | h1
          · exact g1.2 s h1
          · rcases List.mem_cons.mp h1 with rfl | h2
            · exact g0.1
            · exact g0.2 s h2
    | apply j y => simp [build] at hb

/-- The `is_transposed` flag has no influence on slicing, so `Projection.transpose()` (flag `False`) and
    `ArraySlicer.transpose()` (flag `True`) act identically. -/
theorem applyCore_flag_irrelevant (c : Core) (y : Val) : applyCore c.clearFlag y = applyCore c y := by
  cases y with
  | scal a => rfl
  | vec v => rfl
  | arr m X => rfl
  | sp M => cases M <;> rfl
  | ad v J => cases J <;> rfl

/-- non-vacuity: a program with a repeated domain index is covered by the `wf` theorem but not by the `good` one -/
example : progWfB [.new 0 (some [1, 1, 0]) none none none, .rop 1 0 (.scal 2) .mul, .apply 1 (.vec [3, 4])] = true ∧
    progGoodB [.new 0 (some [1, 1, 0]) none none none, .rop 1 0 (.scal 2) .mul, .apply 1 (.vec [3, 4])] = false ∧
    progGoodB [.new 0 (some [1, 0]) none none none, .transpP 1 0, .apply 1 (.vec [3, 4])] = true ∧
    run [] [.new 0 (some [1, 1, 0]) none none none, .rop 1 0 (.scal 2) .mul, .apply 1 (.vec [3, 4])]
      = [none, none, some (.ok (.vec [8, 8, 6]))] := by decide +kernel

/-! ## the code before repair a33b43101 vs. the property (= the code now) -/

/-- `a ∘ S` as coded (pending pair overwritten) is right when `S` carries no pending operation. -/
theorem ropNow_eq (S : Slicer) (a : Const) (op : BinOp) (h : S.pending = []) : ropNow S a op = rop S a op := by
  simp [ropNow, rop, h]

/-- `S₀ @ S₁` as coded (pending pair of the copy of `S₁` overwritten) is right when `S₁` carries none. -/
theorem chainNow_eq (S₀ S₁ : Slicer) (h : S₁.pending = []) : chainNow S₀ S₁ = chain S₀ S₁ := by
  simp [chainNow, chain, h]

/-- `S.T` as coded (pending pair dropped) is right when `S` carries none. -/
theorem transposeNow_eq (S : Slicer) (h : S.pending = []) : S.transpose = .ok (transposeNow S) := by
  simp [Slicer.transpose, transposeNow, h, stepCores, ofCores]

/-- Known finding `pending-overwritten`: `2 * (3 * S) @ y` as coded is `2 * (S @ y)`. -/
example : ∀ S : Slicer,
    S = { core := { dom := [1, 0], ran := [0, 1], domSize := 2, ranSize := 2, isOnto := true, transposed := false },
          pending := [] } →
    ((ropNow (ropNow S (.scal 3) .mul) (.scal 2) .mul).apply (.vec [1, 2])).map obs = .ok (.vec [4, 2]) ∧
    ((rop (rop S (.scal 3) .mul) (.scal 2) .mul).apply (.vec [1, 2])).map obs = .ok (.vec [12, 6]) := by
  intro S hS; subst hS; decide +kernel

/-- Known finding `transpose-drops-pending`: `(S₀ @ S₁).T` as coded is `S₁.T`. -/
example : ∀ S₀ S₁ : Slicer,
    S₀ = { core := { dom := [1, 0], ran := [0, 1], domSize := 2, ranSize := 2, isOnto := true, transposed := false }, pending := [] } →
    S₁ = { core := { dom := [0, 2], ran := [0, 1], domSize := 3, ranSize := 2, isOnto := true, transposed := false }, pending := [] } →
    ((transposeNow (chainNow S₀ S₁)).apply (.vec [1, 2])).map obs = .ok (.vec [1, 0, 2]) ∧
    ((chain S₀ S₁).transpose >>= fun T => (T.apply (.vec [1, 2])).map obs) = .ok (.vec [2, 0, 1]) := by
  intro S₀ S₁ h₀ h₁; subst h₀ h₁; decide +kernel

/-! ## the constructor produces good geometries -/

/-- `ArraySlicer(domain_indices, range_indices, range_size, domain_size)` with pairwise distinct indices
    (in each list given), equally many of both when both are given, and explicit sizes (when given) above
    the indices, has a good geometry — in particular `is_onto` is only set when `ran = [0, 1, …]` and
    `range_size = #dom`. -/
theorem mkCore_good (dom? ran? : Option (List Nat)) (ranSize? domSize? : Option Nat) (c : Core)
    (h : mkCore dom? ran? ranSize? domSize? = .ok c)
    (hd : ∀ d, dom? = some d → d.Nodup) (hr : ∀ r, ran? = some r → r.Nodup)
    (hlen : ∀ d r, dom? = some d → ran? = some r → d.length = r.length)
    (hrs : ∀ n, ranSize? = some n → (∀ r, ran? = some r → ∀ a ∈ r, a < n) ∧ (∀ d, dom? = some d → ran? = none → d.length ≤ n))
    (hds : ∀ n, domSize? = some n → (∀ d, dom? = some d → ∀ a ∈ d, a < n) ∧ (∀ r, ran? = some r → dom? = none → r.length ≤ n)) :
    c.Good := by
  cases dom? with
  | none =>
    cases ran? with
    | none => cases h
    | some r =>
      simp only [mkCore, bind, Except.bind, pure, Except.pure] at h
      cases h1 : sizeOr ranSize? r with
      | error e => rw [h1] at h; cases h
      | ok rs =>
        cases h2 : sizeOr domSize? (List.range r.length) with
        | error e => rw [h1, h2] at h; cases h
        | ok ds =>
          rw [h1, h2] at h
          cases h
          refine ⟨⟨by simp, hr r rfl, ?_, by intro ho; cases ho⟩, List.nodup_range, ?_⟩
          · exact sizeOr_bound _ _ _ h1 (fun k hk => (hrs k hk).1 r rfl)
          · exact sizeOr_bound _ _ _ h2 (fun k hk a ha => by
              have := (hds k hk).2 r rfl rfl
              have := List.mem_range.mp ha
              omega)
  | some d =>
    cases ran? with
    | none =>
      simp only [mkCore, bind, Except.bind, pure, Except.pure] at h
      cases h1 : sizeOr ranSize? (List.range d.length) with
      | error e => rw [h1] at h; cases h
      | ok rs =>
        cases h2 : sizeOr domSize? d with
        | error e => rw [h1, h2] at h; cases h
        | ok ds =>
          rw [h1, h2] at h
          cases h
          refine ⟨⟨by simp, List.nodup_range, ?_, ?_⟩, hd d rfl, ?_⟩
          · exact sizeOr_bound _ _ _ h1 (fun k hk a ha => by
              have := (hrs k hk).2 d rfl rfl
              have := List.mem_range.mp ha
              omega)
          · intro ho
            cases ranSize? with
            | some n => simp at ho
            | none => exact ⟨rfl, sizeOr_range _ _ h1⟩
          · exact sizeOr_bound _ _ _ h2 (fun k hk => (hds k hk).1 d rfl)
    | some r =>
      simp only [mkCore, bind, Except.bind, pure, Except.pure] at h
      cases h1 : sizeOr ranSize? r with
      | error e => rw [h1] at h; cases h
      | ok rs =>
        cases h2 : sizeOr domSize? d with
        | error e => rw [h1, h2] at h; cases h
        | ok ds =>
          rw [h1, h2] at h
          cases h
          refine ⟨⟨hlen d r rfl rfl, hr r rfl, ?_, by intro ho; cases ho⟩, hd d rfl, ?_⟩
          · exact sizeOr_bound _ _ _ h1 (fun k hk => (hrs k hk).1 r rfl)
          · exact sizeOr_bound _ _ _ h2 (fun k hk => (hds k hk).1 d rfl)

/-! ## non-vacuity: concrete slicers, operands and programs -/

/-- restriction with explicit range size (hand-written CSR path), unsorted range indices, a matrix with an empty
    row, unsorted columns and an explicit zero: storage and dense content -/
example : ∀ (c : Core) (A : Csr),
    c = { dom := [2, 0], ran := [3, 1], domSize := 3, ranSize := 5, isOnto := false, transposed := false } →
    A = { ncols := 3, indptr := [0, 2, 3, 5], indices := [2, 0, 1, 1, 1], data := [1, 2, 0, 4, 5] } →
    c.WF ∧
    sliceCsr c A = .ok { ncols := 3, indptr := [0, 0, 2, 2, 4, 4], indices := [2, 0, 1, 1], data := [1, 2, 4, 5] } ∧
    (sliceCsr c A).map Csr.toDense = .ok [[0,0,0],[2,0,1],[0,0,0],[0,9,0],[0,0,0]] ∧
    projMat c A.toDense 3 = .ok [[0,0,0],[2,0,1],[0,0,0],[0,9,0],[0,0,0]] := by
  intro c A hc hA; subst hc hA
  refine ⟨⟨by decide, by decide, by decide, by decide⟩, by decide +kernel, by decide +kernel, by decide +kernel⟩

/-- the regression history of the repaired defect F8: `S0 = AS(dom=[1,0]); S1 = AS(dom=[0,2]); S0 @ S1 @ y; S1 @ y`
    (and a pending `2 *`, a transpose, an AdArray on the way) -/
example :
    run [] [.new 0 (some [1, 0]) none none none, .new 1 (some [0, 2]) none none none, .chain 2 0 1,
            .apply 2 (.vec [10, 20, 30]), .apply 1 (.vec [10, 20, 30]),
            .rop 3 2 (.scal 2) .mul, .apply 3 (.vec [10, 20, 30]), .transp 4 1, .apply 4 (.vec [1, 2]),
            .apply 1 (.ad [10, 20, 30] (.raw { ncols := 2, indptr := [0, 1, 1, 2], indices := [1, 0], data := [5, 7] })),
            .apply 1 (.scal 4)]
      = [none, none, none, some (.ok (.vec [30, 10])), some (.ok (.vec [10, 30])), none, some (.ok (.vec [60, 20])),
         none, some (.ok (.vec [1, 0, 2])), some (.ok (.ad [10, 30] 2 [[0, 5], [7, 0]])), some (.ok (.vec [4, 4]))] := by
  decide +kernel

/-- `3 / S @ ad`, `2 ** S @ ad` with `S = AS(dom=[1,0])`, `ad = ((2,4), [[1,0],[0,1]])`, `ln 2 ≈ 7/10` as data -/
example :
    run [] [.new 0 (some [1, 0]) none none none, .rop 1 0 (.scal 3) .div, .rop 2 0 (.scalLn 2 (7/10)) .pow,
            .apply 1 (.ad [2, 4] (.raw { ncols := 2, indptr := [0, 1, 2], indices := [0, 1], data := [1, 1] })),
            .apply 2 (.ad [2, 3] (.raw { ncols := 2, indptr := [0, 1, 2], indices := [0, 1], data := [1, 1] })),
            .apply 1 (.ad [0, 4] (.raw { ncols := 2, indptr := [0, 1, 2], indices := [0, 1], data := [1, 1] }))]
      = [none, none, none,
         some (.ok (.ad [3/4, 3/2] 2 [[0, -3/16], [-3/4, 0]])),
         some (.ok (.ad [8, 4] 2 [[0, 28/5], [14/5, 0]])),
         some (.error .zeroDiv)] := by
  decide +kernel

example : ProgGood [.new 0 (some [1, 0]) none none none, .new 1 (some [0, 2]) none none none, .chain 2 0 1,
    .apply 2 (.vec [10, 20, 30])] := by
  refine ⟨?_, ?_, trivial, trivial⟩
  · intro c h
    exact mkCore_good _ _ _ _ c h (by intro d hd; cases hd; decide) (by intro r hr; cases hr)
      (by intro d r _ hr; cases hr) (by intro n hn; cases hn) (by intro n hn; cases hn)
  · intro c h
    exact mkCore_good _ _ _ _ c h (by intro d hd; cases hd; decide) (by intro r hr; cases hr)
      (by intro d r _ hr; cases hr) (by intro n hn; cases hn) (by intro n hn; cases hn)

end PorepyVerif.C36
