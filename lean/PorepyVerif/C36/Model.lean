/-
C36 — executable model of `porepy.numerics.linalg.matrix_operations.ArraySlicer` (core Lean only).

A slicer is its *geometry* (`Core`: domain / range index lists, sizes, the `is_onto` shortcut flag and the
`is_transposed` flag) plus its *pending operations*.  In the code a slicer carries at most one pending
(operand, operation) pair, the operand being a number / array / matrix or another slicer (which in turn
may carry a pending pair).  Flattened, that is a list of steps applied after the slicing itself:

    S @ y  =  stepₙ ( … step₁ ( slice core y ) … )        stepᵢ ∈ { P' @ · ,  a ∘ · }

The functions `rop` / `chain` / `Slicer.transpose` are the code as it is now (repair a33b43101: the earlier pending pairs
are kept in `_pending_inner`, filled by `copy()`, and all of them are applied in order; the transpose of a chain
is the reversed chain of transposes, a pending number / array operation cannot be transposed: `ValueError`).
`ropNow` / `chainNow` / `transposeNow` are the code BEFORE that repair, which overwrote / dropped an already
pending operation; they agree whenever the right operand carries no pending operation (`ropNow_eq`,
`chainNow_eq`, `transposeNow_eq` in Props.lean).  `Slicer.transposeProj` is the operator-level wrapper
`pp.ad.Projection.transpose()`; `Slicer.forbidden` the unsupported operations of the class.

Slicing itself is modelled branch for branch:
  * `_slice_vector`:  `x[dom]` (onto) or `vec = zeros(range_size); vec[ran] = x[dom]` (sequential
    assignment, last write wins), for 1-d and 2-d arrays (`sliceRows`, generic in the row type);
  * `_slice_matrix`:  scipy row indexing (onto) or the hand-written CSR algorithm: argsort of the range
    indices, per-row counts written at `ran+1`, cumulative sum, gather of the row segments in sorted
    order (`sliceCsr`, on the raw `indptr / indices / data` arrays);
  * AdArray: value by `_slice_vector`, Jacobian by `_slice_matrix`;
  * scalar: `np.full(domain_size, x)` then `_slice_vector`.
Numbers are rationals (every binary64 is one).
-/
namespace PorepyVerif.C36

abbrev Vec := List Rat
abbrev Mat := List (List Rat)

inductive Err where
  | valueError | indexError | zeroDiv | unsupported
deriving DecidableEq, Repr

instance {α} [DecidableEq α] : DecidableEq (Except Err α)
  | .ok a, .ok b => if h : a = b then isTrue (h ▸ rfl) else isFalse (fun e => by cases e; exact h rfl)
  | .error a, .error b => if h : a = b then isTrue (h ▸ rfl) else isFalse (fun e => by cases e; exact h rfl)
  | .ok _, .error _ => isFalse (fun e => by cases e)
  | .error _, .ok _ => isFalse (fun e => by cases e)

/-! ## dense linear algebra (the specification side) -/

def dot : Vec → Vec → Rat
  | a :: as, b :: bs => a * b + dot as bs
  | _, _ => 0

def matVec (M : Mat) (v : Vec) : Vec := M.map (fun row => dot row v)

/-- column `t` of a list of rows -/
def col (t : Nat) (X : Mat) : Vec := X.map (fun row => row.getD t 0)

/-- `M · X` for `X` a list of rows with `m` columns -/
def matMul (M : Mat) (X : Mat) (m : Nat) : Mat :=
  M.map (fun prow => (List.range m).map (fun t => dot prow (col t X)))

/-- transpose of a matrix with `ncols` columns -/
def transposeMat (M : Mat) (ncols : Nat) : Mat := (List.range ncols).map (fun j => col j M)

/-! ## geometry of a slicer -/

structure Core where
  dom : List Nat
  ran : List Nat
  domSize : Nat
  ranSize : Nat
  isOnto : Bool
  transposed : Bool
deriving DecidableEq, Repr

/-- number of positions `k` with `ran[k] = r` and `dom[k] = j` -/
def countPair (r j : Nat) : List Nat → List Nat → Rat
  | a :: rs, b :: ds => (if a = r ∧ b = j then 1 else 0) + countPair r j rs ds
  | _, _ => 0

/-- The explicit projection matrix with `n` columns: `P[ran[k], dom[k]] += 1`
    (what `scipy.sparse.coo_matrix((ones, (ran, dom)), shape=(range_size, n))` builds). -/
def projMatrix (c : Core) (n : Nat) : Mat :=
  (List.range c.ranSize).map (fun r => (List.range n).map (fun j => countPair r j c.ran c.dom))

def maxL : List Nat → Option Nat
  | [] => none
  | a :: l => match maxL l with
    | none => some a
    | some m => some (if a < m then m else a)

/-- `size if size is not None else indices.max() + 1` (`max` of an empty array raises `ValueError`) -/
def sizeOr (size? : Option Nat) (idx : List Nat) : Except Err Nat :=
  match size? with
  | some n => .ok n
  | none => match maxL idx with
    | some m => .ok (m + 1)
    | none => .error .valueError

/-- `ArraySlicer.__init__` -/
def mkCore (dom? ran? : Option (List Nat)) (ranSize? domSize? : Option Nat) : Except Err Core :=
  match dom?, ran? with
  | none, none => .error .valueError
  | some d, none => do
      let r := List.range d.length
      let rs ← sizeOr ranSize? r
      let ds ← sizeOr domSize? d
      pure { dom := d, ran := r, domSize := ds, ranSize := rs, isOnto := ranSize?.isNone, transposed := false }
  | none, some r => do
      let d := List.range r.length
      let rs ← sizeOr ranSize? r
      let ds ← sizeOr domSize? d
      pure { dom := d, ran := r, domSize := ds, ranSize := rs, isOnto := false, transposed := false }
  | some d, some r => do
      let rs ← sizeOr ranSize? r
      let ds ← sizeOr domSize? d
      pure { dom := d, ran := r, domSize := ds, ranSize := rs, isOnto := false, transposed := false }

/-- `ArraySlicer.transpose` on the geometry: a fresh slicer with the index lists and sizes swapped; both index
    lists are given, so it is never `onto`; `obj._is_transposed = not obj._is_transposed` on the *fresh*
    object is always `True` (so `S.T.T` also reports transposed — the flag has no effect on slicing). -/
def Core.transpose (c : Core) : Core :=
  { dom := c.ran, ran := c.dom, domSize := c.ranSize, ranSize := c.domSize, isOnto := false, transposed := true }

/-! ## `_slice_vector` (generic in the row type: numbers for 1-d, rows for 2-d arrays) -/

def inBounds (idx : List Nat) (n : Nat) : Bool := idx.all (· < n)

/-- `x[dom]` -/
def gather {α} (dom : List Nat) (x : List α) (z : α) : List α := dom.map (fun j => x.getD j z)

/-- `acc[ran] = vals`, assignments in order (a repeated index keeps the last value) -/
def scatter {α} : List Nat → List α → List α → List α
  | r :: rs, v :: vs, acc => scatter rs vs (acc.set r v)
  | _, _, acc => acc

def sliceRows {α} (c : Core) (x : List α) (z : α) : Except Err (List α) :=
  if !inBounds c.dom x.length then .error .indexError
  else if c.isOnto then .ok (gather c.dom x z)
  else if !inBounds c.ran c.ranSize then .error .indexError
  else .ok (scatter c.ran (gather c.dom x z) (List.replicate c.ranSize z))

/-! ## `_slice_matrix` on raw CSR storage -/

structure Csr where
  ncols : Nat
  indptr : List Nat
  indices : List Nat
  data : List Rat
deriving DecidableEq, Repr

def Csr.nrows (A : Csr) : Nat := A.indptr.length - 1
def Csr.rowStart (A : Csr) (i : Nat) : Nat := A.indptr.getD i 0
def Csr.rowCount (A : Csr) (i : Nat) : Nat := A.indptr.getD (i + 1) 0 - A.indptr.getD i 0
/-- storage positions of row `i` -/
def Csr.seg (A : Csr) (i : Nat) : List Nat := List.range' (A.rowStart i) (A.rowCount i)
/-- stored entry at position `p` -/
def Csr.entry (A : Csr) (p : Nat) : Nat × Rat := (A.indices.getD p 0, A.data.getD p 0)

/-- inclusive running sum (`np.cumsum`) with start value `acc` -/
def cumsum : List Nat → Nat → List Nat
  | [], _ => []
  | a :: l, acc => (acc + a) :: cumsum l (acc + a)

/-- insertion of index `k` into a list of indices sorted by `key` (before equal keys: stable when folding
    from the right) -/
def insertByKey (key : Nat → Nat) (k : Nat) : List Nat → List Nat
  | [] => [k]
  | a :: l => if key k ≤ key a then k :: a :: l else a :: insertByKey key k l

/-- `np.argsort` (for pairwise distinct keys the result does not depend on the sorting algorithm) -/
def argsort (xs : List Nat) : List Nat :=
  (List.range xs.length).foldr (insertByKey (fun k => xs.getD k 0)) []

/-- rows `rows` of `A`, in that order, packed into new CSR arrays whose row pointer is `indptr` -/
def Csr.pack (A : Csr) (rows : List Nat) (indptr : List Nat) : Csr :=
  let pos := rows.flatMap A.seg
  { ncols := A.ncols, indptr := indptr,
    indices := pos.map (fun p => A.indices.getD p 0), data := pos.map (fun p => A.data.getD p 0) }

/-- scipy `A[dom]` (`csr_row_index`): the selected rows one after the other -/
def sliceCsrOnto (dom : List Nat) (A : Csr) : Csr :=
  A.pack dom (0 :: cumsum (dom.map A.rowCount) 0)

/-- the hand-written algorithm of `_slice_matrix` -/
def sliceCsrScatter (c : Core) (A : Csr) : Csr :=
  let order := argsort c.ran                                   -- _sort_ind_range
  let cnt := c.dom.map A.rowCount                              -- num_elem_per_row_domain
  let numElem := scatter (order.map (fun k => c.ran.getD k 0 + 1)) (order.map (fun k => cnt.getD k 0))
                    (List.replicate (c.ranSize + 1) 0)         -- num_elem_per_row[ran[sort] + 1] = cnt[sort]
  let sortedDom := order.map (fun k => c.dom.getD k 0)         -- sorted_domain_indices
  A.pack sortedDom (cumsum numElem 0)

def sliceCsr (c : Core) (A : Csr) : Except Err Csr :=
  if !inBounds c.dom A.nrows then .error .indexError
  else if c.isOnto then .ok (sliceCsrOnto c.dom A)
  else if !inBounds c.ran c.ranSize then .error .indexError
  else .ok (sliceCsrScatter c A)

/-- the rows of a CSR matrix as lists of stored (column, value) entries -/
def Csr.rows (A : Csr) : List (List (Nat × Rat)) :=
  (List.range A.nrows).map (fun i => (A.seg i).map A.entry)

/-- sum of the stored values in column `j` (scipy sums repeated entries) -/
def entrySum (j : Nat) : List (Nat × Rat) → Rat
  | [] => 0
  | e :: es => (if e.1 = j then e.2 else 0) + entrySum j es

def denseRow (ncols : Nat) (es : List (Nat × Rat)) : Vec := (List.range ncols).map (fun j => entrySum j es)

/-- `A.toarray()` -/
def Csr.toDense (A : Csr) : Mat := A.rows.map (denseRow A.ncols)

/-! ## operands and results -/

/-- a sparse matrix: either raw CSR storage (an input, or the result of slicing raw storage), or known by
    its dense content only (the result of scipy arithmetic, whose storage layout is not modelled) -/
inductive SpMat where
  | raw (A : Csr)
  | dense (m : Nat) (X : Mat)
deriving Repr

def SpMat.ncols : SpMat → Nat
  | .raw A => A.ncols
  | .dense m _ => m

def SpMat.toDense : SpMat → Mat
  | .raw A => A.toDense
  | .dense _ X => X

def sliceSp (c : Core) : SpMat → Except Err SpMat
  | .raw A => .raw <$> sliceCsr c A
  | .dense m X => .dense m <$> sliceRows c X (List.replicate m 0)

/-- what a slicer can be applied to / what comes out -/
inductive Val where
  | scal (a : Rat)
  | vec (v : Vec)
  | arr (m : Nat) (X : Mat)          -- 2-d numpy array with `m` columns
  | sp (A : SpMat)                   -- scipy sparse matrix
  | ad (v : Vec) (J : SpMat)         -- AdArray
deriving Repr

/-- `sliced` in `ArraySlicer.__matmul__` (before any pending operation) -/
def applyCore (c : Core) : Val → Except Err Val
  | .scal a => .vec <$> sliceRows c (List.replicate c.domSize a) 0
  | .vec v => .vec <$> sliceRows c v 0
  | .arr m X => .arr m <$> sliceRows c X (List.replicate m 0)
  | .sp A => .sp <$> sliceSp c A
  | .ad v J => do
      let v' ← sliceRows c v 0
      let J' ← sliceSp c J
      pure (.ad v' J')

/-! ## dense observations and the specification of one slicing step -/

/-- observable content of a value (sparse storage forgotten) -/
inductive DVal where
  | scal (a : Rat)
  | vec (v : Vec)
  | arr (m : Nat) (X : Mat)
  | sp (m : Nat) (X : Mat)
  | ad (v : Vec) (m : Nat) (J : Mat)
deriving DecidableEq, Repr

def obs : Val → DVal
  | .scal a => .scal a
  | .vec v => .vec v
  | .arr m X => .arr m X
  | .sp A => .sp A.ncols A.toDense
  | .ad v J => .ad v J.ncols J.toDense

def ofD : DVal → Val
  | .scal a => .scal a
  | .vec v => .vec v
  | .arr m X => .arr m X
  | .sp m X => .sp (.dense m X)
  | .ad v m J => .ad v (.dense m J)

/-- `P · v` with `P` the explicit projection matrix having as many columns as `v` has entries
    (the product exists iff every domain index addresses an entry of `v`) -/
def projVec (c : Core) (v : Vec) : Except Err Vec :=
  if inBounds c.dom v.length then .ok (matVec (projMatrix c v.length) v) else .error .indexError

def projMat (c : Core) (X : Mat) (m : Nat) : Except Err Mat :=
  if inBounds c.dom X.length then .ok (matMul (projMatrix c X.length) X m) else .error .indexError

/-- SPECIFICATION of one slicing step: multiply by the explicit projection matrix -/
def specCore (c : Core) : DVal → Except Err DVal
  | .scal a => .vec <$> projVec c (List.replicate c.domSize a)
  | .vec v => .vec <$> projVec c v
  | .arr m X => .arr m <$> projMat c X m
  | .sp m X => .sp m <$> projMat c X m
  | .ad v m J => do
      let v' ← projVec c v
      let J' ← projMat c J m
      pure (.ad v' m J')

/-! ## pending right-operand operations: `a ∘ sliced` (numpy / scipy / AdArray arithmetic, modelled) -/

inductive BinOp where
  | add | sub | mul | div | pow | matmul
deriving DecidableEq, Repr

/-- left operand of a pending operation: number, 1-d array, (sparse) matrix with `k` columns;
    `scalLn a L` is the number `a` together with the binary64 value `L` of `np.log(a)` (the logarithm is
    outside the rational model, so its value travels as data; it is only used by `a ** AdArray`) -/
inductive Const where
  | scal (a : Rat)
  | vec (w : Vec)
  | mat (M : Mat) (k : Nat)
  | scalLn (a L : Rat)
deriving DecidableEq, Repr

def natPow (a : Rat) : Nat → Rat
  | 0 => 1
  | n + 1 => a * natPow a n

/-- `a ** e` for integral `e` (other exponents are outside the exact model) -/
def ratPow (a e : Rat) : Except Err Rat :=
  if e.den != 1 then .error .unsupported
  else if 0 ≤ e.num then .ok (natPow a e.num.toNat)
  else if a = 0 then .error .zeroDiv
  else .ok (1 / natPow a (-e.num).toNat)

/-- elementwise `a ∘ b` -/
def ewise (op : BinOp) (a b : Rat) : Except Err Rat :=
  match op with
  | .add => .ok (a + b)
  | .sub => .ok (a - b)
  | .mul => .ok (a * b)
  | .div => if b = 0 then .error .zeroDiv else .ok (a / b)
  | .pow => ratPow a b
  | .matmul => .error .unsupported

/-- `mapM` in `Except`, written out (first error wins) -/
def mapE {α β} (f : α → Except Err β) : List α → Except Err (List β)
  | [] => .ok []
  | a :: l => match f a with
    | .error e => .error e
    | .ok b => match mapE f l with
      | .error e => .error e
      | .ok bs => .ok (b :: bs)

def zipWithM' (f : Rat → Rat → Except Err Rat) : Vec → Vec → Except Err Vec
  | a :: as, b :: bs => do
      let c ← f a b
      let cs ← zipWithM' f as bs
      pure (c :: cs)
  | _, _ => .ok []

/-- row `i` of `J` scaled by `cs[i]` (`sps.diags(cs) * J`, `AdArray._diagvec_mul_jac`) -/
def scaleRows (cs : Vec) (J : Mat) : Mat := List.zipWith (fun c row => row.map (c * ·)) cs J

/-- forward-mode rule of `s / x` (`AdArray.__rtruediv__`: `x ** (-1.0) * s`): value `s / vᵢ`,
    Jacobian row `i` scaled by `-s / vᵢ²`; division by zero is reported -/
def divAd (s : Rat) (v : Vec) (m : Nat) (J : Mat) : Except Err DVal :=
  match mapE (ewise .div s) v with
  | .error e => .error e
  | .ok val => .ok (.ad val m (scaleRows (v.map (fun x => -s / (x * x))) J))

/-- forward-mode rule of `s ** x` (`AdArray.__rpow__`), for integral values of `x` (then `s ** vᵢ` is
    rational): value `s ** vᵢ`, Jacobian row `i` scaled by `s ** vᵢ · ln s`, with `L` standing for `ln s` -/
def powAd (s L : Rat) (v : Vec) (m : Nat) (J : Mat) : Except Err DVal :=
  match mapE (ratPow s) v with
  | .error e => .error e
  | .ok val => .ok (.ad val m (scaleRows (val.map (· * L)) J))

/-- `a ∘ z` for the operand / operation combinations that are meaningful in Python (all but `a ** AdArray`) -/
def specLeft₀ (op : BinOp) (a : Const) (z : DVal) : Except Err DVal :=
  match a, op, z with
  -- number ∘ array: elementwise
  | .scal _, .matmul, _ => .error .unsupported
  | .scal s, op, .scal b => .scal <$> ewise op s b
  | .scal s, op, .vec v => .vec <$> mapE (ewise op s) v
  | .scal s, op, .arr m X => .arr m <$> mapE (fun row => mapE (ewise op s) row) X
  | .scal s, .mul, .sp m X => .ok (.sp m (X.map (fun row => row.map (s * ·))))
  | .scal s, .add, .ad v m J => .ok (.ad (v.map (s + ·)) m J)
  | .scal s, .sub, .ad v m J => .ok (.ad (v.map (s - ·)) m (J.map (fun row => row.map (fun x => -x))))
  | .scal s, .mul, .ad v m J => .ok (.ad (v.map (s * ·)) m (J.map (fun row => row.map (s * ·))))
  | .scal s, .div, .ad v m J => divAd s v m J
  -- 1-d array ∘ 1-d array: elementwise, `@` is the inner product
  | .vec w, .matmul, .vec v => if w.length != v.length then .error .valueError else .ok (.scal (dot w v))
  | .vec w, .matmul, .arr m X =>
      if w.length != X.length then .error .valueError else .ok (.vec ((List.range m).map (fun t => dot w (col t X))))
  | .vec _, .matmul, _ => .error .unsupported
  | .vec w, op, .vec v => if w.length != v.length then .error .valueError else .vec <$> zipWithM' (ewise op) w v
  -- matrix @ anything with rows
  | .mat M k, .matmul, .vec v => if k != v.length then .error .valueError else .ok (.vec (matVec M v))
  | .mat M k, .matmul, .arr m X => if k != X.length then .error .valueError else .ok (.arr m (matMul M X m))
  | .mat M k, .matmul, .sp m X => if k != X.length then .error .valueError else .ok (.sp m (matMul M X m))
  | .mat M k, .matmul, .ad v m J =>
      if k != v.length then .error .valueError else .ok (.ad (matVec M v) m (matMul M J m))
  | _, _, _ => .error .unsupported

/-- `a ∘ z`: a number that carries its logarithm behaves as the number, and additionally supports `a ** AdArray` -/
def specLeft (op : BinOp) (a : Const) (z : DVal) : Except Err DVal :=
  match a, op, z with
  | .scalLn s L, .pow, .ad v m J => powAd s L v m J
  | .scalLn s _, op, z => specLeft₀ op (.scal s) z
  | a, op, z => specLeft₀ op a z

/-- `eval("self._pending_operand <op> sliced")` for a non-slicer operand -/
def applyLeft (op : BinOp) (a : Const) (z : Val) : Except Err Val := ofD <$> specLeft op a (obs z)

/-! ## slicers with pending operations -/

inductive Step where
  | proj (c : Core)                       -- pending operand is a slicer, operation `@`
  | left (a : Const) (op : BinOp)         -- pending operand is a number / array / matrix
deriving Repr

structure Slicer where
  core : Core
  pending : List Step
deriving Repr

def applyStep : Step → Val → Except Err Val
  | .proj c, z => applyCore c z
  | .left a op, z => applyLeft op a z

def applySteps : List Step → Val → Except Err Val
  | [], z => .ok z
  | s :: ss, z => do
      let z' ← applyStep s z
      applySteps ss z'

/-- `S @ y` for a non-slicer `y` -/
def Slicer.apply (S : Slicer) (y : Val) : Except Err Val := do
  let z ← applyCore S.core y
  applySteps S.pending z

/-- `ArraySlicer(...)` -/
def Slicer.new (dom? ran? : Option (List Nat)) (ranSize? domSize? : Option Nat) : Except Err Slicer := do
  let c ← mkCore dom? ran? ranSize? domSize?
  pure { core := c, pending := [] }

/-- `a ∘ S` (`__radd__`, `__rsub__`, `__rmul__`, `__rtruediv__`, `__rpow__`, `__rmatmul__`): a copy of `S`
    with the operation pending *after* whatever `S` already has pending. -/
def rop (S : Slicer) (a : Const) (op : BinOp) : Slicer :=
  { core := S.core, pending := S.pending ++ [.left a op] }

/-- `S0 @ S1`: a copy of `S1` that, after its own pending operations, is multiplied by `S0`. -/
def chain (S0 S1 : Slicer) : Slicer :=
  { core := S1.core, pending := S1.pending ++ (.proj S0.core :: S0.pending) }

def stepCores : List Step → Option (List Core)
  | [] => some []
  | .proj c :: ss => (stepCores ss).map (c :: ·)
  | .left _ _ :: _ => none

/-- slicer with geometry chain `c₀, c₁, …` (applied in this order) -/
def ofCores : List Core → Option Slicer
  | [] => none
  | c :: cs => some { core := c, pending := cs.map .proj }

/-- `S.T`: `(Pₙ ⋯ P₁ P₀)ᵀ = P₀ᵀ P₁ᵀ ⋯ Pₙᵀ`; a pending number / array operation cannot be transposed -/
def Slicer.transpose (S : Slicer) : Except Err Slicer :=
  match stepCores S.pending with
  | none => .error .valueError
  | some cs => match ofCores ((S.core :: cs).reverse.map Core.transpose) with
    | some T => .ok T
    | none => .error .valueError

/-- `pp.ad.Projection.transpose` (the operator-level wrapper): the transposed slicer is built by the constructor from the
    public index / size properties, so its `is_transposed` flag is `False`; the flag never influences slicing
    (`applyCore_flag_irrelevant`). -/
def Core.clearFlag (c : Core) : Core := { c with transposed := false }

def Step.clearFlag : Step → Step
  | .proj c => .proj c.clearFlag
  | s => s

def Slicer.transposeProj (S : Slicer) : Except Err Slicer :=
  match S.transpose with
  | .ok T => .ok { core := T.core.clearFlag, pending := T.pending.map Step.clearFlag }
  | .error e => .error e

/-- `S * x`, `S / x`, `S + x`, `S - x`, `S ** x`, `-S`, and `S @ x` for an `x` of unsupported type: always `ValueError` -/
def Slicer.forbidden (_S : Slicer) : Err := .valueError

/-! ### the code before repair a33b43101 (an already pending operation was overwritten / dropped) -/

def ropNow (S : Slicer) (a : Const) (op : BinOp) : Slicer := { core := S.core, pending := [.left a op] }
def chainNow (S0 S1 : Slicer) : Slicer := { core := S1.core, pending := .proj S0.core :: S0.pending }
def transposeNow (S : Slicer) : Slicer := { core := S.core.transpose, pending := [] }

/-! ### specification of a whole slicer: a product of explicit matrices and operand applications -/

def specStep : Step → DVal → Except Err DVal
  | .proj c, z => specCore c z
  | .left a op, z => specLeft op a z

def specSteps : List Step → DVal → Except Err DVal
  | [], z => .ok z
  | s :: ss, z => do
      let z' ← specStep s z
      specSteps ss z'

def Slicer.spec (S : Slicer) (y : DVal) : Except Err DVal := do
  let z ← specCore S.core y
  specSteps S.pending z

/-! ## programs: slicers are objects held in variables, built from each other and re-used -/

inductive Stmt where
  | new (i : Nat) (dom? ran? : Option (List Nat)) (ranSize? domSize? : Option Nat)
  | copy (i j : Nat)
  | transp (i j : Nat)                                 -- S_i = S_j.T
  | rop (i j : Nat) (a : Const) (op : BinOp)           -- S_i = a ∘ S_j
  | chain (i j k : Nat)                                -- S_i = S_j @ S_k
  | apply (j : Nat) (y : Val)                          -- output S_j @ y
  | transpP (i j : Nat)                                -- S_i = slicer of `Projection(S_j).transpose()`

abbrev Env := List (Nat × Slicer)

def lookup (env : Env) (i : Nat) : Except Err Slicer :=
  match env.find? (fun p => p.1 == i) with
  | some p => .ok p.2
  | none => .error .unsupported

/-- result of constructing a slicer by a statement (`none`: the statement is an `apply`) -/
def build (env : Env) : Stmt → Option (Nat × Except Err Slicer)
  | .new i d r rs ds => some (i, Slicer.new d r rs ds)
  | .copy i j => some (i, lookup env j)
  | .transp i j => some (i, lookup env j >>= Slicer.transpose)
  | .rop i j a op => some (i, (fun S => rop S a op) <$> lookup env j)
  | .chain i j k => some (i, do let S0 ← lookup env j; let S1 ← lookup env k; pure (chain S0 S1))
  | .transpP i j => some (i, lookup env j >>= Slicer.transposeProj)
  | .apply _ _ => none

/-- one statement, parameterised by how a slicer is applied (`Slicer.apply` for the model,
    `Slicer.spec ∘ obs` for the specification): new environment and the observable output of an `apply` -/
def stepWith (app : Slicer → Val → Except Err DVal) (env : Env) (s : Stmt) : Env × Option (Except Err DVal) :=
  match s with
  | .apply j y => (env, some (lookup env j >>= fun S => app S y))
  | s => match build env s with
    | some (i, .ok S) => ((i, S) :: env, none)
    | _ => (env, none)

def runWith (app : Slicer → Val → Except Err DVal) (env : Env) : List Stmt → List (Option (Except Err DVal))
  | [] => []
  | s :: ss => (stepWith app env s).2 :: runWith app (stepWith app env s).1 ss

/-- the model: slicing as coded -/
def run : Env → List Stmt → List (Option (Except Err DVal)) :=
  runWith (fun S y => obs <$> S.apply y)

/-- the specification: explicit projection matrices -/
def specRun : Env → List Stmt → List (Option (Except Err DVal)) :=
  runWith (fun S y => S.spec (obs y))

/-! ## well-formedness ("permutations, injections, restrictions") -/

/-- what the slicing functions need of a geometry: as many range as domain indices, range indices pairwise
    distinct and inside the range, and the `onto` shortcut only for `ran = [0, 1, …]`, `range_size = #dom`
    (which is what the constructor guarantees) -/
def Core.WF (c : Core) : Prop :=
  c.dom.length = c.ran.length ∧ c.ran.Nodup ∧ (∀ r ∈ c.ran, r < c.ranSize) ∧
    (c.isOnto = true → c.ran = List.range c.dom.length ∧ c.ranSize = c.dom.length)

/-- … and the same for the transposed geometry: domain indices pairwise distinct and inside the domain -/
def Core.Good (c : Core) : Prop :=
  c.WF ∧ c.dom.Nodup ∧ (∀ j ∈ c.dom, j < c.domSize)

/-- decidable form of `Core.WF` / `Core.Good` (evaluated by the driver on every constructed slicer) -/
def Core.wfB (c : Core) : Bool :=
  c.dom.length == c.ran.length && decide c.ran.Nodup && c.ran.all (· < c.ranSize) &&
  (!c.isOnto || (c.ran == List.range c.dom.length && c.ranSize == c.dom.length))

def Core.goodB (c : Core) : Bool := c.wfB && decide c.dom.Nodup && c.dom.all (· < c.domSize)

def Step.Good : Step → Prop
  | .proj c => c.Good
  | .left _ _ => True

def Slicer.Good (S : Slicer) : Prop := S.core.Good ∧ ∀ s ∈ S.pending, s.Good

def Step.WF : Step → Prop
  | .proj c => c.WF
  | .left _ _ => True

/-- all geometries of the slicer are well-formed (enough as long as nothing is transposed) -/
def Slicer.WF (S : Slicer) : Prop := S.core.WF ∧ ∀ s ∈ S.pending, s.WF

def Env.Good (env : Env) : Prop := ∀ p ∈ env, p.2.Good

/-- 2-d data are rectangular: every row has the declared number of columns -/
def DVal.Shaped : DVal → Prop
  | .arr m X => ∀ row ∈ X, row.length = m
  | .sp m X => ∀ row ∈ X, row.length = m
  | .ad _ m J => ∀ row ∈ J, row.length = m
  | _ => True

def Val.Shaped (y : Val) : Prop := (obs y).Shaped

def rowsB (m : Nat) (X : Mat) : Bool := X.all (fun row => row.length == m)

/-- decidable form of `Val.Shaped` -/
def Val.shapedB : Val → Bool
  | .arr m X => rowsB m X
  | .sp (.dense m X) => rowsB m X
  | .ad _ (.dense m X) => rowsB m X
  | _ => true

/-- decidable input condition of `run_eq_specRun`: every constructed geometry is good, every operand rectangular -/
def progGoodB : List Stmt → Bool
  | [] => true
  | .new _ d r rs ds :: ss => (match mkCore d r rs ds with | .ok c => c.goodB | .error _ => true) && progGoodB ss
  | .apply _ y :: ss => y.shapedB && progGoodB ss
  | _ :: ss => progGoodB ss

/-- decidable input condition of `run_eq_specRun_wf`: no transposition in the program, every constructed geometry
    well-formed (repeated DOMAIN indices allowed), every operand rectangular -/
def progWfB : List Stmt → Bool
  | [] => true
  | .new _ d r rs ds :: ss => (match mkCore d r rs ds with | .ok c => c.wfB | .error _ => true) && progWfB ss
  | .apply _ y :: ss => y.shapedB && progWfB ss
  | .transp _ _ :: _ => false
  | .transpP _ _ :: _ => false
  | _ :: ss => progWfB ss

/-- every slicer constructed by `new` in the program has a good geometry, every operand is rectangular -/
def ProgGood : List Stmt → Prop
  | [] => True
  | .new _ d r rs ds :: ss => (∀ c, mkCore d r rs ds = .ok c → c.Good) ∧ ProgGood ss
  | .apply _ y :: ss => y.Shaped ∧ ProgGood ss
  | _ :: ss => ProgGood ss

end PorepyVerif.C36
