/-
C36 — helper lemmas (property theorems are in Props.lean).
-/
import PorepyVerif.C36.Model

namespace PorepyVerif.C36

attribute [local simp] Rat.zero_add Rat.add_zero Rat.mul_zero Rat.zero_mul Rat.one_mul Rat.mul_one

/-! ### `getD` helpers -/

theorem getD_map' {α β} (f : α → β) (x : List α) (j : Nat) (z : α) :
    (x.map f).getD j (f z) = f (x.getD j z) := by
  simp only [List.getD_eq_getElem?_getD, List.getElem?_map]
  cases x[j]? <;> rfl

theorem getD_of_lt {α} (x : List α) (j : Nat) (z : α) (h : j < x.length) : x.getD j z = x[j] := by
  simp [List.getD_eq_getElem?_getD, List.getElem?_eq_getElem h]

theorem getD_of_ge {α} (x : List α) (j : Nat) (z : α) (h : x.length ≤ j) : x.getD j z = z := by
  simp [List.getD_eq_getElem?_getD, List.getElem?_eq_none h]

theorem getD_mem_or {α} (x : List α) (j : Nat) (z : α) : x.getD j z ∈ x ∨ x.getD j z = z := by
  by_cases h : j < x.length
  · left; rw [getD_of_lt x j z h]; exact List.getElem_mem h
  · right; exact getD_of_ge x j z (Nat.le_of_not_lt h)

theorem getD_replicate' {α} (n j : Nat) (a : α) : (List.replicate n a).getD j a = a := by
  simp only [List.getD_eq_getElem?_getD, List.getElem?_replicate]
  split <;> rfl

theorem ext_getD {α} (d : α) (l₁ l₂ : List α) (hl : l₁.length = l₂.length)
    (h : ∀ i, i < l₁.length → l₁.getD i d = l₂.getD i d) : l₁ = l₂ := by
  apply List.ext_getElem hl
  intro i h1 h2
  have := h i h1
  rwa [getD_of_lt _ _ _ h1, getD_of_lt _ _ _ h2] at this

/-! ### gather / scatter -/

theorem gather_length {α} (dom : List Nat) (x : List α) (z : α) : (gather dom x z).length = dom.length := by
  simp [gather]

theorem gather_map {α β} (f : α → β) (dom : List Nat) (x : List α) (z : α) :
    (gather dom x z).map f = gather dom (x.map f) (f z) := by
  simp only [gather, List.map_map]
  apply List.map_congr_left
  intro j _
  simp

theorem scatter_length {α} (rs : List Nat) (vs acc : List α) : (scatter rs vs acc).length = acc.length := by
  induction rs generalizing vs acc with
  | nil => simp [scatter]
  | cons r rs ih =>
    cases vs with
    | nil => simp [scatter]
    | cons v vs => simp [scatter, ih]

theorem scatter_map {α β} (f : α → β) (rs : List Nat) (vs acc : List α) :
    (scatter rs vs acc).map f = scatter rs (vs.map f) (acc.map f) := by
  induction rs generalizing vs acc with
  | nil => simp [scatter]
  | cons r rs ih =>
    cases vs with
    | nil => simp [scatter]
    | cons v vs => simp [scatter, ih, List.map_set]

theorem scatter_mem {α} (rs : List Nat) (vs acc : List α) (y : α) (h : y ∈ scatter rs vs acc) : y ∈ vs ∨ y ∈ acc := by
  induction rs generalizing vs acc with
  | nil => right; simpa [scatter] using h
  | cons r rs ih =>
    cases vs with
    | nil => right; simpa [scatter] using h
    | cons v vs =>
      simp only [scatter] at h
      rcases ih vs _ h with h1 | h1
      · left; exact List.mem_cons_of_mem _ h1
      · rcases List.mem_or_eq_of_mem_set h1 with h2 | h2
        · right; exact h2
        · left; rw [h2]; exact List.mem_cons_self

/-- first value stored under key `r` -/
def assoc {α} (r : Nat) : List Nat → List α → Option α
  | a :: rs, v :: vs => if a = r then some v else assoc r rs vs
  | _, _ => none

theorem assoc_none_of_not_mem {α} (r : Nat) (rs : List Nat) (vs : List α) (h : r ∉ rs) : assoc r rs vs = none := by
  induction rs generalizing vs with
  | nil => simp [assoc]
  | cons a rs ih =>
    cases vs with
    | nil => simp [assoc]
    | cons v vs =>
      have h1 : a ≠ r := fun e => h (e ▸ List.mem_cons_self)
      have h2 : r ∉ rs := fun e => h (List.mem_cons_of_mem _ e)
      simp [assoc, h1, ih vs h2]

/-- Entry `r` after `acc[rs] = vs` for pairwise distinct, in-range indices. -/
theorem scatter_getD {α} (rs : List Nat) (vs acc : List α) (r : Nat) (d : α)
    (hnd : rs.Nodup) (hb : ∀ a ∈ rs, a < acc.length) :
    (scatter rs vs acc).getD r d = (assoc r rs vs).getD (acc.getD r d) := by
  induction rs generalizing vs acc with
  | nil => simp [scatter, assoc]
  | cons a rs ih =>
    cases vs with
    | nil => simp [scatter, assoc]
    | cons v vs =>
      have hnd' := (List.nodup_cons.mp hnd)
      simp only [scatter]
      rw [ih vs (acc.set a v) hnd'.2 (by intro b hb'; rw [List.length_set]; exact hb b (List.mem_cons_of_mem _ hb'))]
      by_cases e : a = r
      · subst e
        rw [assoc_none_of_not_mem _ _ _ hnd'.1]
        have hlt := hb a List.mem_cons_self
        simp [assoc, List.getD_eq_getElem?_getD, hlt]
      · simp [assoc, e, List.getD_eq_getElem?_getD]

theorem assoc_map {α β} (f : α → β) (r : Nat) (rs : List Nat) (vs : List α) :
    assoc r rs (vs.map f) = (assoc r rs vs).map f := by
  induction rs generalizing vs with
  | nil => simp [assoc]
  | cons a rs ih =>
    cases vs with
    | nil => simp [assoc]
    | cons v vs =>
      simp only [List.map_cons, assoc]
      split
      · rfl
      · exact ih vs

/-! ### the `onto` shortcut is the general path -/

theorem scatter_range'_append {α} (vs pre suf : List α) (h : suf.length = vs.length) :
    scatter (List.range' pre.length vs.length) vs (pre ++ suf) = pre ++ vs := by
  induction vs generalizing pre suf with
  | nil =>
    cases suf with
    | nil => simp [scatter]
    | cons a suf => simp at h
  | cons v vs ih =>
    cases suf with
    | nil => simp at h
    | cons a suf =>
      simp only [List.length_cons, List.range'_succ, scatter]
      have hs : (pre ++ a :: suf).set pre.length v = (pre ++ [v]) ++ suf := by
        simp
      rw [hs]
      have := ih (pre ++ [v]) suf (by simpa using h)
      simpa using this

theorem scatter_range_id {α} (vs : List α) (z : α) :
    scatter (List.range vs.length) vs (List.replicate vs.length z) = vs := by
  have := scatter_range'_append vs [] (List.replicate vs.length z) (by simp)
  simpa [List.range_eq_range'] using this

theorem inBounds_iff (idx : List Nat) (n : Nat) : inBounds idx n = true ↔ ∀ j ∈ idx, j < n := by
  simp [inBounds]

/-- Under well-formedness both paths of `_slice_vector` are "allocate zeros, assign `vec[ran] = x[dom]`". -/
theorem sliceRows_eq_scatter {α} (c : Core) (hwf : c.WF) (x : List α) (z : α) :
    sliceRows c x z =
      if inBounds c.dom x.length then .ok (scatter c.ran (gather c.dom x z) (List.replicate c.ranSize z))
      else .error .indexError := by
  obtain ⟨hlen, _, hb, honto⟩ := hwf
  unfold sliceRows
  by_cases hd : inBounds c.dom x.length = true
  · simp only [hd, Bool.not_true, Bool.false_eq_true, if_false, if_true]
    by_cases ho : c.isOnto = true
    · obtain ⟨h1, h2⟩ := honto ho
      simp only [ho, if_true]
      have hg : (gather c.dom x z).length = c.dom.length := gather_length _ _ _
      rw [h1, h2]
      conv => rhs; rw [← hg]
      rw [scatter_range_id]
    · have hr : inBounds c.ran c.ranSize = true := (inBounds_iff _ _).mpr hb
      simp [ho, hr]
  · simp [hd]

/-! ### dot products with rows of the projection matrix -/

/-- `Σ_{k : rs[k] = r} vs[k]` -/
def selSum (r : Nat) : List Nat → Vec → Rat
  | a :: rs, v :: vs => (if a = r then v else 0) + selSum r rs vs
  | _, _ => 0

theorem selSum_of_not_mem (r : Nat) (rs : List Nat) (vs : Vec) (h : r ∉ rs) : selSum r rs vs = 0 := by
  induction rs generalizing vs with
  | nil => simp [selSum]
  | cons a rs ih =>
    cases vs with
    | nil => simp [selSum]
    | cons v vs =>
      have h1 : a ≠ r := fun e => h (e ▸ List.mem_cons_self)
      have h2 : r ∉ rs := fun e => h (List.mem_cons_of_mem _ e)
      simp [selSum, h1, ih vs h2]

theorem assoc_getD_eq_selSum (r : Nat) (rs : List Nat) (vs : Vec) (hnd : rs.Nodup) :
    (assoc r rs vs).getD 0 = selSum r rs vs := by
  induction rs generalizing vs with
  | nil => simp [assoc, selSum]
  | cons a rs ih =>
    cases vs with
    | nil => simp [assoc, selSum]
    | cons v vs =>
      have hnd' := List.nodup_cons.mp hnd
      by_cases e : a = r
      · subst e
        simp [assoc, selSum, selSum_of_not_mem _ _ _ hnd'.1]
      · simp [assoc, selSum, e, ih vs hnd'.2]

def sumFn (g : Nat → Rat) : Vec → Nat → Rat
  | [], _ => 0
  | a :: xs, s => g s * a + sumFn g xs (s + 1)

theorem dot_map_range' (g : Nat → Rat) (xs : Vec) (s : Nat) :
    dot ((List.range' s xs.length).map g) xs = sumFn g xs s := by
  induction xs generalizing s with
  | nil => simp [dot, sumFn]
  | cons a xs ih => simp [List.range'_succ, dot, sumFn, ih]

theorem sumFn_add (g1 g2 : Nat → Rat) (xs : Vec) (s : Nat) :
    sumFn (fun j => g1 j + g2 j) xs s = sumFn g1 xs s + sumFn g2 xs s := by
  induction xs generalizing s with
  | nil => simp [sumFn]
  | cons a xs ih => simp only [sumFn, ih]; grind

theorem sumFn_zero (xs : Vec) (s : Nat) : sumFn (fun _ => 0) xs s = 0 := by
  induction xs generalizing s with
  | nil => simp [sumFn]
  | cons a xs ih => simp [sumFn, ih]

theorem sumFn_indicator (b : Nat) (xs : Vec) (s : Nat) :
    sumFn (fun j => if b = j then 1 else 0) xs s = if s ≤ b then xs.getD (b - s) 0 else 0 := by
  induction xs generalizing s with
  | nil => simp [sumFn]
  | cons a xs ih =>
    simp only [sumFn, ih]
    by_cases e : b = s
    · subst e
      have : ¬ b + 1 ≤ b := by omega
      simp [this]
    · by_cases h : s ≤ b
      · have h1 : s + 1 ≤ b := by omega
        have h2 : b - s = (b - (s + 1)) + 1 := by omega
        simp [e, h, h1, h2]
      · have h1 : ¬ s + 1 ≤ b := by omega
        simp [e, h, h1]

/-- row `r` of the projection matrix times `x` = the sum of the selected entries of `x` -/
theorem projRow_dot (r : Nat) (rs ds : List Nat) (x : Vec) :
    dot ((List.range x.length).map (fun j => countPair r j rs ds)) x = selSum r rs (gather ds x 0) := by
  rw [List.range_eq_range', dot_map_range']
  induction rs generalizing ds with
  | nil => simp [countPair, selSum, sumFn_zero]
  | cons a rs ih =>
    cases ds with
    | nil => simp [countPair, selSum, gather, sumFn_zero]
    | cons b ds =>
      have hfun : (fun j => countPair r j (a :: rs) (b :: ds)) =
          (fun j => (if a = r then (if b = j then (1 : Rat) else 0) else 0) + countPair r j rs ds) := by
        funext j
        simp only [countPair]
        by_cases h1 : a = r <;> by_cases h2 : b = j <;> simp [h1, h2]
      rw [hfun, sumFn_add, ih ds]
      simp only [gather, List.map_cons, selSum]
      by_cases h1 : a = r
      · simp [h1, sumFn_indicator]
      · simp [h1, sumFn_zero]

theorem matVec_getD (M : Mat) (v : Vec) (r : Nat) (h : r < M.length) : (matVec M v).getD r 0 = dot M[r] v := by
  simp [matVec, h]

theorem projMatrix_length (c : Core) (n : Nat) : (projMatrix c n).length = c.ranSize := by simp [projMatrix]

/-- `zeros(range_size)[ran] = x[dom]` is the product with the explicit projection matrix
    (needs distinct, in-range range indices). -/
theorem scatter_eq_matVec (c : Core) (hnd : c.ran.Nodup) (hb : ∀ r ∈ c.ran, r < c.ranSize) (x : Vec) :
    scatter c.ran (gather c.dom x 0) (List.replicate c.ranSize 0) = matVec (projMatrix c x.length) x := by
  apply ext_getD 0
  · simp [scatter_length, matVec, projMatrix]
  · intro r hr
    rw [scatter_length, List.length_replicate] at hr
    rw [scatter_getD _ _ _ _ _ hnd (by simpa using hb), getD_replicate', assoc_getD_eq_selSum _ _ _ hnd,
      matVec_getD _ _ _ (by simpa [projMatrix] using hr)]
    simp only [projMatrix, List.getElem_map, List.getElem_range]
    exact (projRow_dot r c.ran c.dom x).symm

/-- Slicing a vector = multiplying by the explicit projection matrix. -/
theorem sliceVec_eq (c : Core) (hwf : c.WF) (x : Vec) : sliceRows c x 0 = projVec c x := by
  rw [sliceRows_eq_scatter c hwf, projVec]
  split
  · rw [scatter_eq_matVec c hwf.2.1 hwf.2.2.1]
  · rfl

/-! ### 2-d arrays: column by column -/

theorem col_length (t : Nat) (X : Mat) : (col t X).length = X.length := by simp [col]

theorem mat_ext (Y Z : Mat) (m : Nat) (hY : ∀ row ∈ Y, row.length = m) (hZ : ∀ row ∈ Z, row.length = m)
    (hl : Y.length = Z.length) (hc : ∀ t, t < m → col t Y = col t Z) : Y = Z := by
  apply List.ext_getElem hl
  intro r h1 h2
  apply List.ext_getElem (by rw [hY _ (List.getElem_mem h1), hZ _ (List.getElem_mem h2)])
  intro t ht1 ht2
  have htm : t < m := by rw [← hY _ (List.getElem_mem h1)]; exact ht1
  have := congrArg (fun v => v.getD r 0) (hc t htm)
  simp only [col] at this
  rw [getD_of_lt _ _ _ (by simpa using h1), getD_of_lt _ _ _ (by simpa using h2)] at this
  simp only [List.getElem_map] at this
  rwa [getD_of_lt _ _ _ ht1, getD_of_lt _ _ _ ht2] at this

theorem col_matMul (M X : Mat) (m t : Nat) (ht : t < m) : col t (matMul M X m) = matVec M (col t X) := by
  simp only [col, matMul, matVec, List.map_map]
  apply List.map_congr_left
  intro prow _
  simp [ht]

theorem matMul_row_length (M X : Mat) (m : Nat) : ∀ row ∈ matMul M X m, row.length = m := by
  intro row h
  simp only [matMul, List.mem_map] at h
  obtain ⟨_, _, rfl⟩ := h
  simp

theorem scatter_eq_matMul (c : Core) (hnd : c.ran.Nodup) (hb : ∀ r ∈ c.ran, r < c.ranSize) (X : Mat) (m : Nat)
    (hX : ∀ row ∈ X, row.length = m) :
    scatter c.ran (gather c.dom X (List.replicate m 0)) (List.replicate c.ranSize (List.replicate m 0))
      = matMul (projMatrix c X.length) X m := by
  apply mat_ext _ _ m
  · intro row h
    rcases scatter_mem _ _ _ _ h with h1 | h1
    · simp only [gather, List.mem_map] at h1
      obtain ⟨j, _, rfl⟩ := h1
      rcases getD_mem_or X j (List.replicate m 0) with h2 | h2
      · exact hX _ h2
      · rw [h2]; simp
    · rw [List.eq_of_mem_replicate h1]; simp
  · exact matMul_row_length _ _ _
  · simp [scatter_length, matMul, projMatrix]
  · intro t ht
    rw [col_matMul _ _ _ _ ht]
    have := scatter_eq_matVec c hnd hb (col t X)
    rw [col_length] at this
    rw [← this]
    show List.map (fun (row : List Rat) => row.getD t 0) _ = _
    rw [scatter_map, gather_map, List.map_replicate, getD_replicate']
    rfl

/-- Slicing a 2-d array = multiplying by the explicit projection matrix. -/
theorem sliceArr_eq (c : Core) (hwf : c.WF) (X : Mat) (m : Nat) (hX : ∀ row ∈ X, row.length = m) :
    sliceRows c X (List.replicate m 0) = projMat c X m := by
  rw [sliceRows_eq_scatter c hwf, projMat]
  split
  · rw [scatter_eq_matMul c hwf.2.1 hwf.2.2.1 X m hX]
  · rfl

theorem sliceRows_map {α β} (f : α → β) (c : Core) (x : List α) (z : α) :
    (sliceRows c x z).map (List.map f) = sliceRows c (x.map f) (f z) := by
  unfold sliceRows
  simp only [List.length_map]
  split
  · rfl
  · split
    · simp [Except.map, gather_map]
    · split
      · rfl
      · simp [Except.map, scatter_map, gather_map]

/-! ### CSR storage: rows of a packed matrix -/

theorem cumsum_length (l : List Nat) (acc : Nat) : (cumsum l acc).length = l.length := by
  induction l generalizing acc with
  | nil => rfl
  | cons a l ih => simp [cumsum, ih]

theorem Csr.rows_length (A : Csr) : A.rows.length = A.nrows := by simp [Csr.rows]

/-- Row `i` of a CSR matrix (also beyond the last row, where it is empty). -/
theorem Csr.rows_getD (A : Csr) (i : Nat) : A.rows.getD i [] = (A.seg i).map A.entry := by
  by_cases h : i < A.nrows
  · rw [getD_of_lt _ _ _ (by simpa [Csr.rows] using h)]
    simp [Csr.rows]
  · rw [getD_of_ge _ _ _ (by simpa [Csr.rows] using Nat.le_of_not_lt h)]
    have h1 : A.indptr.length ≤ i + 1 := by unfold Csr.nrows at h; omega
    have h2 : A.rowCount i = 0 := by
      unfold Csr.rowCount
      rw [getD_of_ge _ _ _ h1]; omega
    simp [Csr.seg, h2]

theorem map_range'_getD_append {β} (d : β) (pre l rest : List β) :
    (List.range' pre.length l.length).map (fun p => (pre ++ l ++ rest).getD p d) = l := by
  apply List.ext_getElem (by simp)
  intro i h1 h2
  simp only [List.length_map, List.length_range'] at h1
  simp only [List.getElem_map, List.getElem_range', Nat.one_mul]
  rw [getD_of_lt _ _ _ (by simp; omega)]
  rw [List.getElem_append_left (by simp; omega), List.getElem_append_right (by omega)]
  simp

/-- Cutting `pre ++ L.flatten` at the running sums of the lengths of `L` gives back `L`. -/
theorem segs_of_cumsum {β} (d : β) (L : List (List β)) (pre : List β) :
    (List.range L.length).map (fun i =>
        (List.range' ((pre.length :: cumsum (L.map List.length) pre.length).getD i 0)
            ((pre.length :: cumsum (L.map List.length) pre.length).getD (i + 1) 0
              - (pre.length :: cumsum (L.map List.length) pre.length).getD i 0)).map
          (fun p => (pre ++ L.flatten).getD p d)) = L := by
  induction L generalizing pre with
  | nil => rfl
  | cons l L ih =>
    rw [List.length_cons, List.range_succ_eq_map, List.map_cons, List.map_map]
    congr 1
    · simp only [List.map_cons, cumsum, List.getD_cons_zero, List.getD_cons_succ, List.flatten_cons]
      rw [Nat.add_sub_cancel_left, ← List.append_assoc]
      exact map_range'_getD_append d pre l L.flatten
    · have := ih (pre ++ l)
      simp only [List.length_append] at this
      conv => rhs; rw [← this]
      apply List.map_congr_left
      intro i _
      simp only [Function.comp, Nat.succ_eq_add_one, List.map_cons, cumsum, List.getD_cons_succ, List.flatten_cons,
        List.append_assoc]

theorem pack_entry (A : Csr) (pos : List Nat) (indptr : List Nat) (p : Nat) :
    Csr.entry { ncols := A.ncols, indptr := indptr, indices := pos.map (fun p => A.indices.getD p 0),
                data := pos.map (fun p => A.data.getD p 0) } p = (pos.map A.entry).getD p (0, 0) := by
  by_cases h : p < pos.length
  · simp [Csr.entry, h]
  · have h' : pos.length ≤ p := Nat.le_of_not_lt h
    simp [Csr.entry, h']

/-- The rows of `pack` when the row pointer is the running sum of the segment lengths. -/
theorem pack_rows (A : Csr) (L : List (List Nat)) (rows : List Nat) (hflat : rows.flatMap A.seg = L.flatten) :
    (A.pack rows (0 :: cumsum (L.map List.length) 0)).rows = L.map (fun l => l.map A.entry) := by
  have hseg := segs_of_cumsum ((0 : Nat), (0 : Rat)) (L.map (fun l => l.map A.entry)) []
  simp only [List.length_nil, List.length_map, List.map_map, List.nil_append] at hseg
  have hlen : (List.length ∘ fun (l : List Nat) => List.map A.entry l) = List.length := by
    funext l; simp
  rw [hlen] at hseg
  conv => rhs; rw [← hseg]
  simp only [Csr.rows, Csr.pack, Csr.nrows, List.length_cons, cumsum_length, List.length_map, Nat.add_sub_cancel]
  apply List.map_congr_left
  intro i _
  simp only [Csr.seg, Csr.rowStart, Csr.rowCount]
  apply List.map_congr_left
  intro p _
  rw [pack_entry, hflat, List.map_flatten]

/-! ### the `onto` path of `_slice_matrix` -/

theorem seg_length (A : Csr) (i : Nat) : (A.seg i).length = A.rowCount i := by simp [Csr.seg]

theorem gather_rows (A : Csr) (dom : List Nat) :
    gather dom A.rows [] = (dom.map A.seg).map (fun l => l.map A.entry) := by
  simp only [gather, List.map_map]
  apply List.map_congr_left
  intro j _
  exact Csr.rows_getD A j

theorem sliceCsrOnto_rows (A : Csr) (dom : List Nat) : (sliceCsrOnto dom A).rows = gather dom A.rows [] := by
  have h := pack_rows A (dom.map A.seg) dom (by rw [List.flatMap_def])
  have hl : (dom.map A.seg).map List.length = dom.map A.rowCount := by
    simp only [List.map_map]; apply List.map_congr_left; intro j _; simp [seg_length]
  rw [hl] at h
  rw [gather_rows]
  exact h

/-! ### argsort: a permutation that sorts the keys -/

theorem insertByKey_perm (key : Nat → Nat) (k : Nat) (l : List Nat) : (insertByKey key k l).Perm (k :: l) := by
  induction l with
  | nil => simp [insertByKey]
  | cons a l ih =>
    unfold insertByKey
    split
    · exact List.Perm.refl _
    · exact ((List.perm_cons a).mpr ih).trans (List.Perm.swap k a l)

theorem insertByKey_sorted (key : Nat → Nat) (k : Nat) (l : List Nat)
    (h : l.Pairwise (fun a b => key a ≤ key b)) : (insertByKey key k l).Pairwise (fun a b => key a ≤ key b) := by
  induction l with
  | nil => simp [insertByKey]
  | cons a l ih =>
    have h' := List.pairwise_cons.mp h
    unfold insertByKey
    split
    · rename_i hle
      refine List.pairwise_cons.mpr ⟨?_, h⟩
      intro b hb
      rcases List.mem_cons.mp hb with rfl | hb
      · exact hle
      · exact Nat.le_trans hle (h'.1 b hb)
    · rename_i hle
      refine List.pairwise_cons.mpr ⟨?_, ih h'.2⟩
      intro b hb
      rcases List.mem_cons.mp ((insertByKey_perm key k l).mem_iff.mp hb) with rfl | hb
      · omega
      · exact h'.1 b hb

theorem foldr_insert_perm (key : Nat → Nat) (l : List Nat) : (l.foldr (insertByKey key) []).Perm l := by
  induction l with
  | nil => exact List.Perm.refl _
  | cons a l ih => exact (insertByKey_perm key a _).trans ((List.perm_cons a).mpr ih)

theorem foldr_insert_sorted (key : Nat → Nat) (l : List Nat) :
    (l.foldr (insertByKey key) []).Pairwise (fun a b => key a ≤ key b) := by
  induction l with
  | nil => simp
  | cons a l ih => exact insertByKey_sorted key a _ ih

theorem argsort_perm (xs : List Nat) : (argsort xs).Perm (List.range xs.length) := foldr_insert_perm _ _

theorem map_range_getD {α} (xs : List α) (d : α) : (List.range xs.length).map (fun k => xs.getD k d) = xs := by
  apply List.ext_getElem (by simp)
  intro i h1 h2
  simp only [List.getElem_map, List.getElem_range]
  exact getD_of_lt _ _ _ h2

theorem map_range_getD' {α} (xs : List α) (d : α) (n : Nat) (h : xs.length = n) :
    (List.range n).map (fun k => xs.getD k d) = xs := by
  subst h; exact map_range_getD xs d

/-- the keys in argsort order are strictly increasing when they are pairwise distinct -/
theorem argsort_strict (xs : List Nat) (hnd : xs.Nodup) :
    ((argsort xs).map (fun k => xs.getD k 0)).Pairwise (· < ·) := by
  have hs : ((argsort xs).map (fun k => xs.getD k 0)).Pairwise (· ≤ ·) :=
    List.pairwise_map.mpr (foldr_insert_sorted _ _)
  have hp : ((argsort xs).map (fun k => xs.getD k 0)).Perm xs := by
    have := (argsort_perm xs).map (fun k => xs.getD k 0)
    rwa [map_range_getD] at this
  have hn : ((argsort xs).map (fun k => xs.getD k 0)).Pairwise (· ≠ ·) := hp.nodup_iff.mpr hnd
  exact (hs.and hn).imp (fun h => Nat.lt_of_le_of_ne h.1 h.2)

/-! ### scatter does not depend on the order of assignments to distinct indices -/

theorem scatter_perm {α} (key : Nat → Nat) (g : Nat → α) (l₁ l₂ : List Nat) (hp : l₁.Perm l₂)
    (hnd : (l₁.map key).Nodup) (acc : List α) :
    scatter (l₁.map key) (l₁.map g) acc = scatter (l₂.map key) (l₂.map g) acc := by
  induction hp generalizing acc with
  | nil => rfl
  | cons x _ ih =>
    simp only [List.map_cons, scatter]
    exact ih (List.nodup_cons.mp hnd).2 _
  | swap x y l =>
    simp only [List.map_cons, scatter]
    have hne : key y ≠ key x := by
      have := (List.nodup_cons.mp hnd).1
      intro e; apply this; rw [e]; exact List.mem_cons_self
    rw [List.set_comm _ _ hne]
  | trans h1 _ ih1 ih2 =>
    rw [ih1 hnd acc]
    exact ih2 ((h1.map key).nodup_iff.mp hnd) acc

theorem scatter_succ {α} (rs : List Nat) (vs : List α) (a : α) (acc : List α) :
    scatter (rs.map (· + 1)) vs (a :: acc) = a :: scatter rs vs acc := by
  induction rs generalizing vs acc with
  | nil => simp [scatter]
  | cons r rs ih =>
    cases vs with
    | nil => simp [scatter]
    | cons v vs => simp [scatter, ih]

/-! ### filling empty rows in increasing order concatenates the segments in that order -/

theorem flatten_eq_nil_of_forall {β} (L : List (List β)) (h : ∀ l ∈ L, l = []) : L.flatten = [] :=
  List.flatten_eq_nil_iff.mpr h

theorem flatten_set_of_tail_nil {β} (acc : List (List β)) (a : Nat) (v : List β) (ha : a < acc.length)
    (hnil : ∀ i, a ≤ i → acc.getD i [] = []) : (acc.set a v).flatten = acc.flatten ++ v := by
  have hdrop : (acc.drop (a + 1)).flatten = [] := by
    apply flatten_eq_nil_of_forall
    intro l hl
    obtain ⟨j, hj, rfl⟩ := List.mem_drop_iff_getElem.mp hl
    have := hnil (a + 1 + j) (by omega)
    rwa [getD_of_lt _ _ _ (by omega)] at this
  have hacc : acc.flatten = (acc.take a).flatten := by
    conv => lhs; rw [← List.take_append_drop a acc, List.drop_eq_getElem_cons ha]
    have h0 : acc[a] = [] := by
      have := hnil a (Nat.le_refl _)
      rwa [getD_of_lt _ _ _ ha] at this
    simp [h0, hdrop]
  rw [List.set_eq_take_append_cons_drop, if_pos ha, hacc]
  simp [hdrop]

theorem flatten_scatter_sorted {β} (rs : List Nat) (vs acc : List (List β)) (lo : Nat)
    (hs : rs.Pairwise (· < ·)) (hlo : ∀ a ∈ rs, lo ≤ a) (hb : ∀ a ∈ rs, a < acc.length)
    (hlen : rs.length = vs.length) (hnil : ∀ i, lo ≤ i → acc.getD i [] = []) :
    (scatter rs vs acc).flatten = acc.flatten ++ vs.flatten := by
  induction rs generalizing vs acc lo with
  | nil =>
    cases vs with
    | nil => simp [scatter]
    | cons v vs => simp at hlen
  | cons a rs ih =>
    cases vs with
    | nil => simp at hlen
    | cons v vs =>
      have hs' := List.pairwise_cons.mp hs
      simp only [scatter]
      rw [ih vs (acc.set a v) (a + 1) hs'.2 (fun b hb' => hs'.1 b hb')
        (fun b hb' => by rw [List.length_set]; exact hb b (List.mem_cons_of_mem _ hb')) (by simpa using hlen)
        (fun i hi => by
          have hai : a ≠ i := by omega
          have := hnil i (by have := hlo a List.mem_cons_self; omega)
          simpa [List.getD_eq_getElem?_getD, List.getElem?_set, hai] using this)]
      rw [flatten_set_of_tail_nil acc a v (hb a List.mem_cons_self)
        (fun i hi => hnil i (by have := hlo a List.mem_cons_self; omega))]
      simp [List.append_assoc]

/-! ### the hand-written path of `_slice_matrix` -/

theorem sliceCsrScatter_rows (c : Core) (A : Csr) (hlen : c.dom.length = c.ran.length) (hnd : c.ran.Nodup)
    (hb : ∀ r ∈ c.ran, r < c.ranSize) :
    (sliceCsrScatter c A).rows = scatter c.ran (gather c.dom A.rows []) (List.replicate c.ranSize []) := by
  -- the rows of the result, as position lists
  let L : List (List Nat) := scatter c.ran (c.dom.map A.seg) (List.replicate c.ranSize [])
  let key : Nat → Nat := fun k => c.ran.getD k 0
  have hperm := argsort_perm c.ran
  have hkey_range : (List.range c.ran.length).map key = c.ran := map_range_getD c.ran 0
  have hnd_order : ((argsort c.ran).map key).Nodup :=
    ((hperm.map key).nodup_iff).mpr (by rw [hkey_range]; exact hnd)
  -- (1) the per-row counts, written at `ran + 1` in argsort order, are `0 :: lengths of the rows`
  have hcnt : ∀ k, (c.dom.map A.rowCount).getD k 0 = ((c.dom.map A.seg).map List.length).getD k 0 := by
    intro k; congr 1; simp only [List.map_map]; apply List.map_congr_left; intro j _; simp [seg_length]
  have hnum : scatter ((argsort c.ran).map (fun k => c.ran.getD k 0 + 1))
        ((argsort c.ran).map (fun k => (c.dom.map A.rowCount).getD k 0)) (List.replicate (c.ranSize + 1) 0)
      = 0 :: L.map List.length := by
    have h1 : (argsort c.ran).map (fun k => c.ran.getD k 0 + 1) = ((argsort c.ran).map key).map (· + 1) := by
      simp [key, List.map_map, Function.comp]
    rw [h1, List.replicate_succ, scatter_succ]
    congr 1
    rw [scatter_perm key _ _ _ hperm hnd_order, hkey_range]
    have h2 : (List.range c.ran.length).map (fun k => (c.dom.map A.rowCount).getD k 0)
        = (c.dom.map A.seg).map List.length := by
      simp only [hcnt]
      exact map_range_getD' _ 0 _ (by simp [hlen])
    rw [h2]
    show _ = (scatter _ _ _).map List.length
    rw [scatter_map, List.map_replicate]
    rfl
  -- (2) the gathered positions, in argsort order, are the concatenation of the rows
  have hpos : ((argsort c.ran).map (fun k => c.dom.getD k 0)).flatMap A.seg = L.flatten := by
    have hL : L = scatter ((argsort c.ran).map key) ((argsort c.ran).map (fun k => A.seg (c.dom.getD k 0)))
        (List.replicate c.ranSize []) := by
      rw [scatter_perm key _ _ _ hperm hnd_order, hkey_range]
      have : (List.range c.ran.length).map (fun k => A.seg (c.dom.getD k 0)) = c.dom.map A.seg := by
        have h := map_range_getD' c.dom 0 c.ran.length hlen
        conv => rhs; rw [← h]
        simp [List.map_map, Function.comp]
      rw [this]
    rw [hL, flatten_scatter_sorted _ _ _ 0 (argsort_strict c.ran hnd) (fun _ _ => Nat.zero_le _)
      (by
        intro a ha
        rw [List.length_replicate]
        obtain ⟨k, hk, rfl⟩ := List.mem_map.mp ha
        have hk' : k < c.ran.length := by simpa using hperm.mem_iff.mp hk
        apply hb
        show c.ran.getD k 0 ∈ c.ran
        rw [getD_of_lt _ _ _ hk']; exact List.getElem_mem hk')
      (by simp) (fun i _ => getD_replicate' _ _ _)]
    rw [flatten_eq_nil_of_forall _ (fun l hl => List.eq_of_mem_replicate hl), List.nil_append,
      List.flatMap_def, List.map_map]
    rfl
  -- assemble
  have hrows := pack_rows A L ((argsort c.ran).map (fun k => c.dom.getD k 0)) hpos
  have hcs : cumsum (0 :: L.map List.length) 0 = 0 :: cumsum (L.map List.length) 0 := by simp [cumsum]
  unfold sliceCsrScatter
  simp only []
  rw [hnum, hcs, hrows]
  show List.map (fun l => List.map A.entry l) (scatter _ _ _) = _
  rw [scatter_map, List.map_replicate, gather_rows]
  rfl

/-! ### `_slice_matrix`: storage level and dense level -/

theorem denseRow_nil (n : Nat) : denseRow n [] = List.replicate n 0 := by
  simp only [denseRow, entrySum]
  apply List.ext_getElem (by simp)
  intro i h1 h2
  simp

theorem toDense_row_length (A : Csr) : ∀ row ∈ A.toDense, row.length = A.ncols := by
  intro row h
  simp only [Csr.toDense, List.mem_map] at h
  obtain ⟨_, _, rfl⟩ := h
  simp [denseRow]

theorem toDense_length (A : Csr) : A.toDense.length = A.nrows := by simp [Csr.toDense, Csr.rows]

/-- Storage-level statement: the rows of the sliced CSR arrays are the selected rows, entry by entry
    (same stored entries in the same order), or empty rows. -/
theorem sliceCsr_rows (c : Core) (hwf : c.WF) (A : Csr) :
    (sliceCsr c A).map Csr.rows = sliceRows c A.rows [] := by
  rw [sliceRows_eq_scatter c hwf]
  obtain ⟨hlen, hnd, hb, honto⟩ := hwf
  unfold sliceCsr
  rw [Csr.rows_length]
  by_cases hd : inBounds c.dom A.nrows = true
  · simp only [hd, Bool.not_true, Bool.false_eq_true, if_false, if_true]
    by_cases ho : c.isOnto = true
    · obtain ⟨h1, h2⟩ := honto ho
      simp only [ho, if_true, Except.map]
      rw [sliceCsrOnto_rows, h1, h2]
      have hg : (gather c.dom A.rows []).length = c.dom.length := gather_length _ _ _
      conv => rhs; rw [← hg]
      rw [scatter_range_id]
    · have hr : inBounds c.ran c.ranSize = true := (inBounds_iff _ _).mpr hb
      simp only [ho, hr, Bool.not_true, Bool.false_eq_true, if_false, Except.map]
      rw [sliceCsrScatter_rows c A hlen hnd hb]
  · simp [hd, Except.map]

theorem sliceCsr_ncols (c : Core) (A B : Csr) (h : sliceCsr c A = .ok B) : B.ncols = A.ncols := by
  unfold sliceCsr at h
  split at h
  · cases h
  · split at h
    · cases h; rfl
    · split at h
      · cases h
      · cases h; rfl

/-- Dense-level statement: `toarray()` of the sliced matrix is `P · toarray()` of the matrix. -/
theorem sliceCsr_toDense (c : Core) (hwf : c.WF) (A : Csr) :
    (sliceCsr c A).map Csr.toDense = projMat c A.toDense A.ncols := by
  have h1 := sliceCsr_rows c hwf A
  have h2 := sliceRows_map (denseRow A.ncols) c A.rows []
  rw [denseRow_nil] at h2
  have h3 := sliceArr_eq c hwf A.toDense A.ncols (toDense_row_length A)
  rw [← h3]
  show _ = sliceRows c (A.rows.map (denseRow A.ncols)) _
  rw [← h2, ← h1]
  cases h : sliceCsr c A with
  | error e => rfl
  | ok B =>
    simp only [Except.map, Csr.toDense]
    rw [sliceCsr_ncols c A B h]

/-! ### shapes -/

theorem mapE_length {α β} (f : α → Except Err β) (l : List α) (l' : List β) (h : mapE f l = .ok l') :
    l'.length = l.length := by
  induction l generalizing l' with
  | nil => simp only [mapE] at h; cases h; rfl
  | cons a l ih =>
    simp only [mapE] at h
    split at h
    · cases h
    · split at h
      · cases h
      · rename_i bs hbs
        cases h
        simp [ih bs hbs]

theorem mapE_mem {α β} (f : α → Except Err β) (l : List α) (l' : List β) (h : mapE f l = .ok l') (b : β) (hb : b ∈ l') :
    ∃ a ∈ l, f a = .ok b := by
  induction l generalizing l' with
  | nil => simp only [mapE] at h; cases h; cases hb
  | cons a l ih =>
    simp only [mapE] at h
    split at h
    · cases h
    · rename_i b0 hb0
      split at h
      · cases h
      · rename_i bs hbs
        cases h
        rcases List.mem_cons.mp hb with rfl | hb
        · exact ⟨a, List.mem_cons_self, hb0⟩
        · obtain ⟨a', ha', hf⟩ := ih bs hbs hb
          exact ⟨a', List.mem_cons_of_mem _ ha', hf⟩

theorem projMat_shaped (c : Core) (X Y : Mat) (m : Nat) (h : projMat c X m = .ok Y) : ∀ row ∈ Y, row.length = m := by
  unfold projMat at h
  split at h
  · cases h; exact matMul_row_length _ _ _
  · cases h

theorem obs_ofD (d : DVal) : obs (ofD d) = d := by cases d <;> rfl

/-! ### one slicing step on every operand type -/

theorem sliceSp_eq (c : Core) (hwf : c.WF) (M : SpMat) (hM : ∀ row ∈ M.toDense, row.length = M.ncols) :
    (sliceSp c M).map (fun B => (B.ncols, B.toDense)) = (projMat c M.toDense M.ncols).map (fun X => (M.ncols, X)) := by
  cases M with
  | raw A =>
    have h := sliceCsr_toDense c hwf A
    simp only [sliceSp, SpMat.toDense, SpMat.ncols]
    rw [← h]
    cases h' : sliceCsr c A with
    | error e => rfl
    | ok B =>
      simp only [Functor.map, Except.map, SpMat.ncols, SpMat.toDense]
      rw [sliceCsr_ncols c A B h']
  | dense m X =>
    have h := sliceArr_eq c hwf X m hM
    simp only [sliceSp, SpMat.toDense, SpMat.ncols]
    rw [← h]
    cases sliceRows c X (List.replicate m 0) <;> rfl

theorem spMat_shaped_raw (A : Csr) : ∀ row ∈ (SpMat.raw A).toDense, row.length = (SpMat.raw A).ncols :=
  toDense_row_length A

/-- One slicing step, observed densely, is the product with the explicit projection matrix — for every
    operand type. -/
theorem applyCore_obs (c : Core) (hwf : c.WF) (y : Val) (hy : y.Shaped) :
    (applyCore c y).map obs = specCore c (obs y) := by
  cases y with
  | scal a =>
    simp only [applyCore, specCore, obs, ← sliceVec_eq c hwf]
    cases sliceRows c (List.replicate c.domSize a) 0 <;> rfl
  | vec v =>
    simp only [applyCore, specCore, obs, ← sliceVec_eq c hwf]
    cases sliceRows c v 0 <;> rfl
  | arr m X =>
    simp only [applyCore, specCore, obs, ← sliceArr_eq c hwf X m hy]
    cases sliceRows c X (List.replicate m 0) <;> rfl
  | sp M =>
    have h := sliceSp_eq c hwf M hy
    simp only [applyCore, specCore, obs]
    cases h1 : sliceSp c M with
    | error e =>
      rw [h1] at h
      cases h2 : projMat c M.toDense M.ncols with
      | error e' => rw [h2] at h; simp only [Except.map] at h; cases h; rfl
      | ok X => rw [h2] at h; simp [Except.map] at h
    | ok B =>
      rw [h1] at h
      cases h2 : projMat c M.toDense M.ncols with
      | error e' => rw [h2] at h; simp [Except.map] at h
      | ok X =>
        rw [h2] at h
        simp only [Except.map, Except.ok.injEq, Prod.mk.injEq] at h
        simp only [Functor.map, Except.map, obs, h.1, h.2]
  | ad v J =>
    have h := sliceSp_eq c hwf J hy
    simp only [applyCore, specCore, obs, ← sliceVec_eq c hwf]
    cases hv : sliceRows c v 0 with
    | error e => rfl
    | ok v' =>
      cases h1 : sliceSp c J with
      | error e =>
        rw [h1] at h
        cases h2 : projMat c J.toDense J.ncols with
        | error e' => rw [h2] at h; simp only [Except.map] at h; cases h; rfl
        | ok X => rw [h2] at h; simp [Except.map] at h
      | ok B =>
        rw [h1] at h
        cases h2 : projMat c J.toDense J.ncols with
        | error e' => rw [h2] at h; simp [Except.map] at h
        | ok X =>
          rw [h2] at h
          simp only [Except.map, Except.ok.injEq, Prod.mk.injEq] at h
          simp only [bind, Except.bind, pure, Except.pure, Except.map, obs, h.1, h.2]

theorem specCore_shaped (c : Core) (d d' : DVal) (h : specCore c d = .ok d') : d'.Shaped := by
  cases d with
  | scal a =>
    simp only [specCore] at h
    cases h1 : projVec c (List.replicate c.domSize a) <;> rw [h1] at h <;> simp [Functor.map, Except.map] at h
    subst h; trivial
  | vec v =>
    simp only [specCore] at h
    cases h1 : projVec c v <;> rw [h1] at h <;> simp [Functor.map, Except.map] at h
    subst h; trivial
  | arr m X =>
    simp only [specCore] at h
    cases h1 : projMat c X m <;> rw [h1] at h <;> simp [Functor.map, Except.map] at h
    subst h; exact projMat_shaped c X _ m h1
  | sp m X =>
    simp only [specCore] at h
    cases h1 : projMat c X m <;> rw [h1] at h <;> simp [Functor.map, Except.map] at h
    subst h; exact projMat_shaped c X _ m h1
  | ad v m J =>
    simp only [specCore] at h
    cases h0 : projVec c v <;> rw [h0] at h <;> simp [bind, Except.bind] at h
    cases h1 : projMat c J m <;> rw [h1] at h <;> simp [pure, Except.pure] at h
    subst h; exact projMat_shaped c J _ m h1


theorem map_ok_inv {α β} (f : α → β) (x : Except Err α) (b : β) (h : f <$> x = .ok b) : ∃ a, x = .ok a ∧ f a = b := by
  cases x with
  | error e => simp [Functor.map, Except.map] at h
  | ok a => simp [Functor.map, Except.map] at h; exact ⟨a, rfl, h⟩

theorem scaleRows_shaped (cs : Vec) (J : Mat) (m : Nat) (hJ : ∀ row ∈ J, row.length = m) :
    ∀ row ∈ scaleRows cs J, row.length = m := by
  induction cs generalizing J with
  | nil => intro row h; simp [scaleRows] at h
  | cons c cs ih =>
    cases J with
    | nil => intro row h; simp [scaleRows] at h
    | cons r J =>
      intro row h
      simp only [scaleRows, List.zipWith_cons_cons, List.mem_cons] at h
      rcases h with rfl | h
      · simpa using hJ r List.mem_cons_self
      · exact ih J (fun row' h' => hJ row' (List.mem_cons_of_mem _ h')) row h

theorem divAd_shaped (s : Rat) (v : Vec) (m : Nat) (J : Mat) (d' : DVal) (hJ : ∀ row ∈ J, row.length = m)
    (h : divAd s v m J = .ok d') : d'.Shaped := by
  unfold divAd at h
  split at h
  · cases h
  · cases h; exact scaleRows_shaped _ J m hJ

theorem powAd_shaped (s L : Rat) (v : Vec) (m : Nat) (J : Mat) (d' : DVal) (hJ : ∀ row ∈ J, row.length = m)
    (h : powAd s L v m J = .ok d') : d'.Shaped := by
  unfold powAd at h
  split at h
  · cases h
  · cases h; exact scaleRows_shaped _ J m hJ

theorem specLeft₀_shaped (op : BinOp) (a : Const) (d d' : DVal) (hd : d.Shaped) (h : specLeft₀ op a d = .ok d') :
    d'.Shaped := by
  unfold specLeft₀ at h
  split at h
  all_goals try (cases h; done)
  all_goals try (obtain ⟨_, _, rfl⟩ := map_ok_inv _ _ _ h; trivial)
  all_goals try (split at h <;> cases h <;> first | trivial | exact matMul_row_length _ _ _)
  all_goals first
    | (exact divAd_shaped _ _ _ _ _ hd h)
    | (cases h; exact hd)
    | (cases h
       intro row hrow
       obtain ⟨row0, hrow0, rfl⟩ := List.mem_map.mp hrow
       simpa using hd row0 hrow0)
    | (obtain ⟨X', hX', rfl⟩ := map_ok_inv _ _ _ h
       intro row hrow
       obtain ⟨row0, hrow0, hf⟩ := mapE_mem _ _ _ hX' row hrow
       rw [mapE_length _ _ _ hf]
       exact hd row0 hrow0)
    | (split at h
       · cases h
       · obtain ⟨_, _, rfl⟩ := map_ok_inv _ _ _ h; trivial)

theorem specLeft_shaped (op : BinOp) (a : Const) (d d' : DVal) (hd : d.Shaped) (h : specLeft op a d = .ok d') :
    d'.Shaped := by
  unfold specLeft at h
  split at h
  · exact powAd_shaped _ _ _ _ _ _ hd h
  · exact specLeft₀_shaped _ _ _ _ hd h
  · exact specLeft₀_shaped _ _ _ _ hd h

/-! ### sequences of pending steps -/

theorem applySteps_append (s₁ s₂ : List Step) (z : Val) :
    applySteps (s₁ ++ s₂) z = applySteps s₁ z >>= applySteps s₂ := by
  induction s₁ generalizing z with
  | nil => rfl
  | cons s ss ih =>
    simp only [List.cons_append, applySteps]
    cases applyStep s z with
    | error e => rfl
    | ok z' => exact ih z'

theorem specSteps_append (s₁ s₂ : List Step) (z : DVal) :
    specSteps (s₁ ++ s₂) z = specSteps s₁ z >>= specSteps s₂ := by
  induction s₁ generalizing z with
  | nil => rfl
  | cons s ss ih =>
    simp only [List.cons_append, specSteps]
    cases specStep s z with
    | error e => rfl
    | ok z' => exact ih z'

theorem applyStep_obs (s : Step) (hs : s.WF) (z : Val) (hz : z.Shaped) :
    (applyStep s z).map obs = specStep s (obs z) := by
  cases s with
  | proj c => exact applyCore_obs c hs z hz
  | left a op =>
    simp only [applyStep, specStep, applyLeft]
    cases specLeft op a (obs z) with
    | error e => rfl
    | ok d => simp [Functor.map, Except.map, obs_ofD]

theorem specStep_shaped (s : Step) (d d' : DVal) (hd : d.Shaped) (h : specStep s d = .ok d') : d'.Shaped := by
  cases s with
  | proj c => exact specCore_shaped c d d' h
  | left a op => exact specLeft_shaped op a d d' hd h

theorem applySteps_obs (ss : List Step) (hs : ∀ s ∈ ss, s.WF) (z : Val) (hz : z.Shaped) :
    (applySteps ss z).map obs = specSteps ss (obs z) := by
  induction ss generalizing z with
  | nil => rfl
  | cons s ss ih =>
    have h1 := applyStep_obs s (hs s List.mem_cons_self) z hz
    simp only [applySteps, specSteps]
    cases h2 : applyStep s z with
    | error e =>
      rw [h2] at h1
      simp only [Except.map] at h1
      rw [← h1]; rfl
    | ok z' =>
      rw [h2] at h1
      simp only [Except.map] at h1
      rw [← h1]
      exact ih (fun s' h' => hs s' (List.mem_cons_of_mem _ h')) z'
        (specStep_shaped s (obs z) (obs z') hz h1.symm)

/-! ### good geometries -/

theorem Core.Good.transpose {c : Core} (h : c.Good) : c.transpose.Good := by
  obtain ⟨⟨hlen, hnd, hb, _⟩, hdn, hdb⟩ := h
  refine ⟨⟨hlen.symm, hdn, hdb, ?_⟩, hnd, hb⟩
  intro ho; cases ho

theorem maxL_spec (l : List Nat) (m : Nat) (h : maxL l = some m) : m ∈ l ∧ ∀ a ∈ l, a ≤ m := by
  induction l generalizing m with
  | nil => cases h
  | cons a l ih =>
    simp only [maxL] at h
    cases hl : maxL l with
    | none =>
      rw [hl] at h
      cases l with
      | nil => cases h; simp
      | cons b l =>
        simp only [maxL] at hl
        cases h' : maxL l <;> rw [h'] at hl <;> cases hl
    | some m' =>
      rw [hl] at h
      obtain ⟨hm, hle⟩ := ih m' hl
      simp only [Option.some.injEq] at h
      by_cases hlt : a < m'
      · rw [if_pos hlt] at h; subst h
        refine ⟨List.mem_cons_of_mem _ hm, ?_⟩
        intro b hb
        rcases List.mem_cons.mp hb with rfl | hb
        · omega
        · exact hle b hb
      · rw [if_neg hlt] at h; subst h
        refine ⟨List.mem_cons_self, ?_⟩
        intro b hb
        rcases List.mem_cons.mp hb with rfl | hb
        · omega
        · have := hle b hb; omega

theorem sizeOr_bound (size? : Option Nat) (idx : List Nat) (n : Nat) (h : sizeOr size? idx = .ok n)
    (hs : ∀ k, size? = some k → ∀ a ∈ idx, a < k) : ∀ a ∈ idx, a < n := by
  cases size? with
  | some k => simp only [sizeOr] at h; cases h; exact hs _ rfl
  | none =>
    simp only [sizeOr] at h
    cases hm : maxL idx with
    | none => rw [hm] at h; cases h
    | some m =>
      rw [hm] at h; cases h
      intro a ha
      have := (maxL_spec idx m hm).2 a ha
      omega

theorem sizeOr_range (k n : Nat) (h : sizeOr none (List.range k) = .ok n) : n = k := by
  simp only [sizeOr] at h
  cases hm : maxL (List.range k) with
  | none => rw [hm] at h; cases h
  | some m =>
    rw [hm] at h; cases h
    obtain ⟨h1, h2⟩ := maxL_spec _ m hm
    have h3 : m < k := List.mem_range.mp h1
    cases k with
    | zero => omega
    | succ k =>
      have := h2 k (List.mem_range.mpr (Nat.lt_succ_self k))
      omega

theorem Step.Good.wf {s : Step} (h : s.Good) : s.WF := by
  cases s with
  | proj c => exact h.1
  | left a op => trivial

theorem Slicer.Good.wf {S : Slicer} (h : S.Good) : S.WF := ⟨h.1.1, fun s hs => (h.2 s hs).wf⟩

end PorepyVerif.C36
