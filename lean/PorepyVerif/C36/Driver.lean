/- C36 line-protocol driver: `lake env lean --run PorepyVerif/C36/Driver.lean` -/
import PorepyVerif.Common.Wire
import PorepyVerif.C36.Model
open Lean PV PorepyVerif.C36

def errJson : Err → Json
  | .valueError => err "ValueError"
  | .indexError => err "IndexError"
  | .zeroDiv => err "ZeroDivision"
  | .unsupported => err "Unsupported"

def fOptNats (j : Json) (k : String) : R (Option (List Nat)) := jOpt (jList jNat) (fieldD j k Json.null)
def fOptNat (j : Json) (k : String) : R (Option Nat) := jOpt jNat (fieldD j k Json.null)

def parseOp (s : String) : R BinOp :=
  match s with
  | "+" => pure .add | "-" => pure .sub | "*" => pure .mul | "/" => pure .div | "**" => pure .pow | "@" => pure .matmul
  | _ => throw s!"unknown operation {s}"

def opSym : BinOp → String
  | .add => "+" | .sub => "-" | .mul => "*" | .div => "/" | .pow => "**" | .matmul => "@"

def parseConst (j : Json) : R Const := do
  match (← fStr j "k") with
  | "s" =>
    match ← jOpt jRat (fieldD j "ln" Json.null) with
    | some L => pure (.scalLn (← fRat j "v") L)
    | none => pure (.scal (← fRat j "v"))
  | "v" => pure (.vec (← fRats j "v"))
  | "m" => pure (.mat (← fRatss j "rows") (← fNat j "ncols"))
  | k => throw s!"unknown operand kind {k}"

def parseCsr (j : Json) : R Csr := do
  pure { ncols := ← fNat j "ncols", indptr := ← fNats j "indptr", indices := ← fNats j "indices", data := ← fRats j "data" }

def parseVal (j : Json) : R Val := do
  match (← fStr j "k") with
  | "s" => pure (.scal (← fRat j "v"))
  | "v" => pure (.vec (← fRats j "v"))
  | "a" => pure (.arr (← fNat j "m") (← fRatss j "rows"))
  | "csr" => pure (.sp (.raw (← parseCsr j)))
  | "ad" => pure (.ad (← fRats j "v") (.raw (← parseCsr (← field j "jac"))))
  | k => throw s!"unknown value kind {k}"

def coreJson (c : Core) : Json :=
  obj [("dom", ofNats c.dom), ("ran", ofNats c.ran), ("dsize", ofNat c.domSize), ("rsize", ofNat c.ranSize),
       ("onto", Json.bool c.isOnto), ("transposed", Json.bool c.transposed)]

def constKind : Const → String
  | .scal _ => "s" | .vec _ => "v" | .mat _ _ => "m" | .scalLn _ _ => "s"

def stepJson : Step → Json
  | .proj c => obj [("proj", coreJson c)]
  | .left a op => obj [("left", Json.str (opSym op)), ("kind", Json.str (constKind a))]

def slicerJson (S : Slicer) : Json := obj [("core", coreJson S.core), ("pending", ofList stepJson S.pending)]

def spJson : SpMat → List (String × Json)
  | .raw A => [("raw", obj [("indptr", ofNats A.indptr), ("indices", ofNats A.indices), ("data", ofRats A.data)]),
               ("shape", ofNats [A.nrows, A.ncols]), ("dense", ofList ofRats A.toDense)]
  | .dense m X => [("raw", Json.null), ("shape", ofNats [X.length, m]), ("dense", ofList ofRats X)]

def valJson : Val → Json
  | .scal a => obj [("kind", Json.str "scal"), ("v", ofRat a)]
  | .vec v => obj [("kind", Json.str "vec"), ("v", ofRats v)]
  | .arr m X => obj [("kind", Json.str "arr"), ("shape", ofNats [X.length, m]), ("rows", ofList ofRats X)]
  | .sp A => obj (("kind", Json.str "sp") :: spJson A)
  | .ad v J => obj [("kind", Json.str "ad"), ("v", ofRats v), ("jac", obj (spJson J))]

abbrev St := Env × List Stmt

def built (st : St) (s : Stmt) : R (St × Json) :=
  match build st.1 s with
  | some (i, .ok S) => pure ((((i, S) :: st.1), s :: st.2), obj [("slicer", slicerJson S), ("good", Json.bool S.core.goodB)])
  | some (_, .error e) => pure ((st.1, s :: st.2), errJson e)
  | none => throw "not a constructing statement"

def step (st : St) (j : Json) : R (St × Json) := do
  let env := st.1
  let op ← fStr j "op"
  match op with
  | "new" => built st (.new (← fNat j "i") (← fOptNats j "dom") (← fOptNats j "ran") (← fOptNat j "rsize") (← fOptNat j "dsize"))
  | "copy" => built st (.copy (← fNat j "i") (← fNat j "j"))
  | "T" => built st (.transp (← fNat j "i") (← fNat j "j"))
  | "TP" => built st (.transpP (← fNat j "i") (← fNat j "j"))
  | "rop" => built st (.rop (← fNat j "i") (← fNat j "j") (← parseConst (← field j "a")) (← parseOp (← fStr j "sym")))
  | "chain" => built st (.chain (← fNat j "i") (← fNat j "j") (← fNat j "k"))
  | "apply" =>
    let y ← parseVal (← field j "y")
    let jj ← fNat j "j"
    let st' : St := (env, .apply jj y :: st.2)
    match lookup env jj >>= fun S => S.apply y with
    | .ok v => pure (st', valJson v)
    | .error e => pure (st', errJson e)
  | "unsup" =>
    -- S * x, S / x, S + x, S - x, S ** x, -S, S @ <unsupported type>
    match lookup env (← fNat j "j") with
    | .ok S => pure (st, errJson S.forbidden)
    | .error e => pure (st, errJson e)
  | "dump" =>
    let vars := (env.map (·.1)).eraseDups
    let entries := vars.filterMap (fun i => match lookup env i with
      | .ok S => some (obj [("i", ofNat i), ("slicer", slicerJson S)])
      | .error _ => none)
    let prog := st.2.reverse
    pure (st, obj [("slicers", ofList id entries), ("progGood", Json.bool (progGoodB prog)),
                   ("progWf", Json.bool (progWfB prog))])
  | _ => throw s!"unknown op {op}"

def main : IO Unit := runDriver (([], []) : St) step
