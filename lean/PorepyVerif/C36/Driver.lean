/- C36 line-protocol driver: `lake env lean --run PorepyVerif/C36/Driver.lean` -/
import PorepyVerif.Common.Wire
import PorepyVerif.C36.Model
open Lean PV PorepyVerif.C36

def errJson : Err → Json
  | .valueError => err "ValueError"
  | .indexError => err "IndexError"
  | .zeroDiv => err "ZeroDivision"
  | .unsupported => err "Unsupported"

def fOptNats (j : Json) (k : String) : R (Option (List Nat)) := jOpt (jList jNat) (fieldD j k Json.null)
def fOptNat (j : Json) (k : String) : R (Option Nat) := jOpt jNat (fieldD j k Json.null)

def parseOp (s : String) : R BinOp :=
  match s with
  | "+" => pure .add | "-" => pure .sub | "*" => pure .mul | "/" => pure .div | "**" => pure .pow | "@" => pure .matmul
  | _ => throw s!"unknown operation {s}"

def opSym : BinOp → String
  | .add => "+" | .sub => "-" | .mul => "*" | .div => "/" | .pow => "**" | .matmul => "@"

def parseConst (j : Json) : R Const := do
  match (← fStr j "k") with
  | "s" =>
    match ← jOpt jRat (fieldD j "ln" Json.null) with
    | some L => pure (.scalLn (← fRat j "v") L)
    | none => pure (.scal (← fRat j "v"))
  | "v" => pure (.vec (← fRats j "v"))
  | "m" => pure (.mat (← fRatss j "rows") (← fNat j "ncols"))
  | k => throw s!"unknown operand kind {k}"

def parseCsr (j : Json) : R Csr := do
  pure { ncols := ← fNat j "ncols", indptr := ← fNats j "indptr", indices := ← fNats j "indices", data := ← fRats j "data" }

def parseVal (j : Json) : R Val := do
  match (← fStr j "k") with
  | "s" => pure (.scal (← fRat j "v"))
  | "v" => pure (.vec (← fRats j "v"))
  | "a" => pure (.arr (← fNat j "m") (← fRatss j "rows"))
  | "csr" => pure (.sp (.raw (← parseCsr j)))
  | "ad" => pure (.ad (← fRats j "v") (.raw (← parseCsr (← field j "jac"))))
  | k => throw s!"unknown value kind {k}"

def coreJson (c : Core) : Json :=
  obj [("dom", ofNats c.dom), ("ran", ofNats c.ran), ("dsize", ofNat c.domSize), ("rsize", ofNat c.ranSize),
       ("onto", Json.bool c.isOnto), ("transposed", Json.bool c.transposed)]

def constKind : Const → String
  | .scal _ => "s" | .vec _ => "v" | .mat _ _ => "m" | .scalLn _ _ => "s"

def stepJson : Step → Json
  | .proj c => obj [("proj", coreJson c)]
  | .left a op => obj [("left", Json.str (opSym op)), ("kind", Json.str (constKind a))]

def slicerJson (S : Slicer) : Json := obj [("core", coreJson S.core), ("pending", ofList stepJson S.pending)]

def spJson : SpMat → List (String × Json)
  | .raw A => [("raw", obj [("indptr", ofNats A.indptr), ("indices", ofNats A.indices), ("data", ofRats A.data)]),
               ("shape", ofNats [A.nrows, A.ncols]), ("dense", ofList ofRats A.toDense)]
  | .dense m X => [("raw", Json.null), ("shape", ofNats [X.length, m]), ("dense", ofList ofRats X)]

def valJson : Val → Json
  | .scal a => obj [("kind", Json.str "scal"), ("v", ofRat a)]
  | .vec v => obj [("kind", Json.str "vec"), ("v", ofRats v)]
  | .arr m X => obj [("kind", Json.str "arr"), ("shape", ofNats [X.length, m]), ("rows", ofList ofRats X)]
  | .sp A => obj (("kind", Json.str "sp") :: spJson A)
  | .ad v J => obj [("kind", Json.str "ad"), ("v", ofRats v), ("jac", obj (spJson J))]

def decide' (p : Prop) [Decidable p] : Bool := decide p

/-- the decidable content of `Core.Good` (reported for the input statistics) -/
def goodB (c : Core) : Bool :=
  c.dom.length == c.ran.length && decide' c.ran.Nodup && c.ran.all (· < c.ranSize) &&
  (!c.isOnto || (c.ran == List.range c.dom.length && c.ranSize == c.dom.length)) &&
  decide' c.dom.Nodup && c.dom.all (· < c.domSize)

def built (env : Env) (i : Nat) (r : Except Err Slicer) : Env × Json :=
  match r with
  | .ok S => ((i, S) :: env, obj [("slicer", slicerJson S), ("good", Json.bool (goodB S.core))])
  | .error e => (env, errJson e)

def step (env : Env) (j : Json) : R (Env × Json) := do
  let op ← fStr j "op"
  match op with
  | "new" =>
    let s := Stmt.new (← fNat j "i") (← fOptNats j "dom") (← fOptNats j "ran") (← fOptNat j "rsize") (← fOptNat j "dsize")
    match build env s with
    | some (i, r) => pure (built env i r)
    | none => throw "new"
  | "copy" =>
    match build env (.copy (← fNat j "i") (← fNat j "j")) with
    | some (i, r) => pure (built env i r)
    | none => throw "copy"
  | "T" =>
    match build env (.transp (← fNat j "i") (← fNat j "j")) with
    | some (i, r) => pure (built env i r)
    | none => throw "T"
  | "rop" =>
    let a ← parseConst (← field j "a")
    let o ← parseOp (← fStr j "sym")
    match build env (.rop (← fNat j "i") (← fNat j "j") a o) with
    | some (i, r) => pure (built env i r)
    | none => throw "rop"
  | "chain" =>
    match build env (.chain (← fNat j "i") (← fNat j "j") (← fNat j "k")) with
    | some (i, r) => pure (built env i r)
    | none => throw "chain"
  | "apply" =>
    let y ← parseVal (← field j "y")
    match lookup env (← fNat j "j") >>= fun S => S.apply y with
    | .ok v => pure (env, valJson v)
    | .error e => pure (env, errJson e)
  | "dump" =>
    let vars := (env.map (·.1)).eraseDups
    let entries := vars.filterMap (fun i => match lookup env i with
      | .ok S => some (obj [("i", ofNat i), ("slicer", slicerJson S)])
      | .error _ => none)
    pure (env, ofList id entries)
  | _ => throw s!"unknown op {op}"

def main : IO Unit := runDriver ([] : Env) step
