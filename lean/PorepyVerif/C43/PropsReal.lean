/-
C43 — property theorems for FRACTIONAL exponents (`"Pa^0.5"`, `"m^-1.5"` …).

The rational model answers `Err.fractional` for a non-integer exponent.  Here the same traversal of
the unit string (`factorParts` of Model.lean: same tokenisation, same attribute lookup, same
`float()` parser, same order of failure) is evaluated over the real numbers with Mathlib's
`Real.rpow` as `x ** float(power)`.  The usual laws (`rpow_add`, `rpow_pos_of_pos`, `rpow_intCast`)
are then theorems of Mathlib, not hypotheses.  `convert_real_extends` ties the two evaluations: where
the rational model succeeds (all exponents integers) the real one returns the same number.

Kept in a separate file so that the Mathlib-free statements of Props.lean are elaborated without
Mathlib's instances in scope.  Rounding (binary64 `pow`) is outside these theorems as well.
-/
import Mathlib.Analysis.SpecialFunctions.Pow.Real
import PorepyVerif.C43.Lemmas

namespace PorepyVerif.C43

noncomputable section

/-- one factor, any rational exponent -/
def factorR (env : Env) (u : Units) (tok : Str) : Except Err ℝ :=
  match factorParts env u tok with
  | .error e => .error e
  | .ok (x, none) => .ok (x : ℝ)
  | .ok (x, some q) => .ok ((x : ℝ) ^ (q : ℝ))

def convertToksR (env : Env) (u : Units) (toSi : Bool) : List Str → ℝ → Except Err ℝ
  | [], v => .ok v
  | t :: ts, v =>
    match factorR env u t with
    | .error e => .error e
    | .ok f => convertToksR env u toSi ts (if toSi then v * f else v / f)

/-- `convert_units` over ℝ with real powers -/
def convertStrR (env : Env) (u : Units) (toSi : Bool) (s : Str) (v : ℝ) : Except Err ℝ :=
  let s' := stripSpaces s
  if isDimless s' then .ok v else convertToksR env u toSi (splitOn '*' s') v

end

/-! ## helper lemmas -/

theorem factorR_pos (env : Env) (henv : env.constsPos = true) (u : Units) (hu : u.Pos) (t : Str)
    (f : ℝ) (h : factorR env u t = .ok f) : 0 < f := by
  unfold factorR at h
  cases hp : factorParts env u t with
  | error e => rw [hp] at h; cases h
  | ok p =>
    obtain ⟨x, q⟩ := p
    -- the symbol's value is positive: read it off `factorParts`
    have hx : 0 < x := by
      unfold factorParts at hp
      split at hp
      · split at hp
        · next sym pw _ =>
          cases ha : env.attr u sym with
          | none => simp [ha] at hp
          | some a =>
            simp only [ha] at hp
            cases hq : parseFloat pw with
            | none => simp [hq] at hp
            | some q' =>
              simp only [hq] at hp
              cases a with
              | other => cases hp
              | num y =>
                simp only [Except.ok.injEq, Prod.mk.injEq] at hp
                rw [← hp.1]; exact attr_pos env henv u hu sym y ha
        · cases hp
      · cases ha : env.attr u t with
        | none => simp [ha] at hp
        | some a =>
          cases a with
          | other => simp [ha] at hp
          | num y =>
            simp only [ha, Except.ok.injEq, Prod.mk.injEq] at hp
            rw [← hp.1]; exact attr_pos env henv u hu t y ha
    have hxr : (0 : ℝ) < (x : ℝ) := by exact_mod_cast hx
    rw [hp] at h
    cases q with
    | none => simp only [Except.ok.injEq] at h; rw [← h]; exact hxr
    | some q => simp only [Except.ok.injEq] at h; rw [← h]; exact Real.rpow_pos_of_pos hxr _

/-- the loop commutes with scaling the value -/
theorem convertToksR_scale (env : Env) (u : Units) (toSi : Bool) (ts : List Str) (c v : ℝ) :
    convertToksR env u toSi ts (c * v) = (convertToksR env u toSi ts v).map (fun w => c * w) := by
  induction ts generalizing v with
  | nil => rfl
  | cons t ts ih =>
    simp only [convertToksR]
    cases factorR env u t with
    | error e => rfl
    | ok f =>
      cases toSi
      · simp only [Bool.false_eq_true, if_false]; rw [mul_div_assoc]; exact ih _
      · simp only [if_true]; rw [mul_assoc]; exact ih _

theorem convertToksR_append (env : Env) (u : Units) (toSi : Bool) (a b : List Str) (v : ℝ) :
    convertToksR env u toSi (a ++ b) v =
      (convertToksR env u toSi a v >>= fun w => convertToksR env u toSi b w) := by
  induction a generalizing v with
  | nil => rfl
  | cons t ts ih =>
    simp only [List.cons_append, convertToksR]
    cases factorR env u t with
    | error e => rfl
    | ok f => exact ih _

theorem convertToksR_roundtrip (env : Env) (henv : env.constsPos = true) (u : Units) (hu : u.Pos)
    (toSi : Bool) (ts : List Str) (v w : ℝ) (h : convertToksR env u toSi ts v = .ok w) :
    convertToksR env u (!toSi) ts w = .ok v := by
  induction ts generalizing v w with
  | nil => simp only [convertToksR] at h ⊢; cases h; rfl
  | cons t ts ih =>
    simp only [convertToksR] at h ⊢
    cases hf : factorR env u t with
    | error e => rw [hf] at h; cases h
    | ok f =>
      rw [hf] at h
      have hpos := factorR_pos env henv u hu t f hf
      have hne : f ≠ 0 := ne_of_gt hpos
      simp only at h ⊢
      have hb := ih _ _ h
      cases toSi
      · simp only [Bool.false_eq_true, if_false, Bool.not_false, if_true] at hb h ⊢
        rw [mul_comm, convertToksR_scale, hb]
        simp only [Except.map]; congr 1; field_simp
      · simp only [if_true, Bool.not_true, Bool.false_eq_true, if_false] at hb h ⊢
        rw [div_eq_inv_mul, convertToksR_scale, hb]
        simp only [Except.map]; congr 1; field_simp

/-! ## the theorems -/

/-- Round trip with arbitrary (also fractional) exponents: for positive scalings, converting to
    simulation units and back with real powers is the identity. -/
theorem convert_roundtrip_real (env : Env) (henv : env.constsPos = true) (u : Units) (hu : u.Pos)
    (toSi : Bool) (s : Str) (v w : ℝ) (h : convertStrR env u toSi s v = .ok w) :
    convertStrR env u (!toSi) s w = .ok v := by
  unfold convertStrR at h ⊢
  by_cases hd : isDimless (stripSpaces s) = true
  · simp only [hd, if_true] at h ⊢; cases h; rfl
  · simp only [hd] at h ⊢
    exact convertToksR_roundtrip env henv u hu toSi _ v w h

/-- Composition with arbitrary exponents: `a*b` converts as `a`, then `b`. -/
theorem convert_compose_real (env : Env) (u : Units) (toSi : Bool) (a b : Str) (v : ℝ)
    (ha : isDimless (stripSpaces a) = false) (hb : isDimless (stripSpaces b) = false) :
    convertStrR env u toSi (a ++ '*' :: b) v =
      (convertStrR env u toSi a v >>= fun w => convertStrR env u toSi b w) := by
  unfold convertStrR
  simp only [stripSpaces_star, not_dimless_of_star, ha, hb, splitOn_append, convertToksR_append]
  rfl

/-- evaluating one `sym^pw` factor over ℝ -/
theorem factorR_pow (env : Env) (u : Units) (tok sym pw : Str) (x q : Rat)
    (h1 : ('^' ∈ tok) = True) (hs : splitOn '^' tok = [sym, pw])
    (h2 : env.attr u sym = some (.num x)) (h3 : parseFloat pw = some q) :
    factorR env u tok = .ok ((x : ℝ) ^ (q : ℝ)) := by
  unfold factorR factorParts
  rw [if_pos (by rw [h1]; trivial), hs]
  simp only [h2, h3]

/-- Exponent addition with rational exponents: `sym^p * sym^q` acts as `sym^r` when r = p + q. -/
theorem convert_exponent_add_real (env : Env) (u : Units) (toSi : Bool) (sym p q r : Str)
    (x ep eq er : Rat) (v : ℝ) (hsym : '^' ∉ sym) (hp : '^' ∉ p) (hq : '^' ∉ q) (hr : '^' ∉ r)
    (hx : env.attr u sym = some (.num x)) (hx0 : 0 < x)
    (hep : parseFloat p = some ep) (heq : parseFloat q = some eq) (her : parseFloat r = some er)
    (hsum : er = ep + eq) :
    convertToksR env u toSi [sym ++ '^' :: p, sym ++ '^' :: q] v
      = convertToksR env u toSi [sym ++ '^' :: r] v := by
  have key : ∀ (w : Str) (e : Rat), '^' ∉ w → parseFloat w = some e →
      factorR env u (sym ++ '^' :: w) = .ok ((x : ℝ) ^ (e : ℝ)) := by
    intro w e hw he
    refine factorR_pow env u _ sym w x e (by simp) ?_ hx he
    rw [splitOn_append, splitOn_of_not_mem _ _ hsym, splitOn_of_not_mem _ _ hw]; rfl
  have hxr : (0 : ℝ) < (x : ℝ) := by exact_mod_cast hx0
  have hadd : (x : ℝ) ^ (er : ℝ) = (x : ℝ) ^ (ep : ℝ) * (x : ℝ) ^ (eq : ℝ) := by
    rw [hsum]; push_cast; exact Real.rpow_add hxr _ _
  simp only [convertToksR, key p ep hp hep, key q eq hq heq, key r er hr her, hadd]
  cases toSi
  · simp only [Bool.false_eq_true, if_false]; congr 1; rw [div_div]
  · simp only [if_true]; congr 1; rw [mul_assoc]

/-- The real evaluation extends the exact rational model: wherever `convertStr` succeeds (every
    exponent an integer), `convertStrR` returns the same number. -/
theorem factorR_extends (env : Env) (u : Units) (t : Str) (f : Rat) (h : factorOf env u t = .ok f) :
    factorR env u t = .ok (f : ℝ) := by
  rw [factorOf_eq_parts] at h
  unfold factorR
  cases hp : factorParts env u t with
  | error e => rw [hp] at h; cases h
  | ok p =>
    obtain ⟨x, q⟩ := p
    rw [hp] at h
    cases q with
    | none => simp only [Except.ok.injEq] at h; rw [h]
    | some q =>
      simp only [powRat] at h
      split at h
      · next hd =>
        simp only [Except.ok.injEq] at h
        have hq : (q : ℝ) = ((q.num : ℤ) : ℝ) := by
          have := Rat.coe_int_num_of_den_eq_one hd
          rw [← this]; push_cast; rw [this]
        simp only
        rw [hq, Real.rpow_intCast, ← h]; push_cast; rfl
      · cases h

theorem convertToksR_extends (env : Env) (u : Units) (toSi : Bool) (ts : List Str) (v w : Rat)
    (h : convertToks env u toSi ts v = .ok w) : convertToksR env u toSi ts (v : ℝ) = .ok (w : ℝ) := by
  induction ts generalizing v with
  | nil => simp only [convertToks] at h; cases h; rfl
  | cons t ts ih =>
    simp only [convertToks] at h
    cases hf : factorOf env u t with
    | error e => rw [hf] at h; cases h
    | ok f =>
      rw [hf] at h
      simp only [convertToksR, factorR_extends env u t f hf]
      have := ih _ h
      cases toSi
      · simp only [Bool.false_eq_true, if_false] at this ⊢; rw [← this]; push_cast; rfl
      · simp only [if_true] at this ⊢; rw [← this]; push_cast; rfl

theorem convert_real_extends (env : Env) (u : Units) (toSi : Bool) (s : Str) (v w : Rat)
    (h : convertStr env u toSi s v = .ok w) : convertStrR env u toSi s (v : ℝ) = .ok (w : ℝ) := by
  unfold convertStr at h
  unfold convertStrR
  by_cases hd : isDimless (stripSpaces s) = true
  · simp only [hd, if_true] at h ⊢; cases h; rfl
  · simp only [hd] at h ⊢
    exact convertToksR_extends env u toSi _ v w h

-- non-vacuity: a fractional exponent is accepted and evaluated (√m with m = 4; no derived units needed)
def uEx' : Units := ⟨4, 1, 1 / 8, 2, 1, 3⟩
def envBase : Env := ⟨[], []⟩

example : factorR envBase uEx' "m^0.5".toList = .ok ((4 : ℝ) ^ (((1 / 2 : Rat)) : ℝ)) := by
  have := factorR_pow envBase uEx' "m^0.5".toList "m".toList "0.5".toList 4 (1 / 2)
    (by decide +kernel) (by decide +kernel) rfl (by decide +kernel)
  simpa using this

end PorepyVerif.C43
