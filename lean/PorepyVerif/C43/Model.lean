/-
C43 — executable model of `porepy.models.units.Units` (base units, derived-unit formulas as
expression trees, `convert_units` with its unit-string grammar) and of the unit handling of the
material-constant data classes (`porepy.compositional.materials.Constants`: conversion from SI at
construction, `to_units`).  CORE LEAN ONLY.

Strings are `List Char` (the driver converts).  The model is generic in an environment `Env`
(table of derived units, non-numeric attribute names); the concrete environment and the tables of
the material classes are regenerated from the python source on every run (`Generated.lean`).

Numbers are exact rationals: every binary64 is a rational; rounding is outside the model.
Powers: an exponent string is parsed to a rational as python's `float()` reads it; integer
exponents are computed exactly (`Rat` integer power), non-integer exponents answer the pseudo error
`Err.fractional` here and are evaluated in binary64 by the driver (correspondence only).
-/
namespace PorepyVerif.C43

abbrev Str := List Char

/-- error kinds of the real code (`fractional` is not a python error: "outside the exact model") -/
inductive Err
  | valueError | attributeError | typeError | notImplementedError | fractional
  deriving DecidableEq, Repr

/-! ## base units -/

structure Units where
  m : Rat
  s : Rat
  kg : Rat
  K : Rat
  mol : Rat
  rad : Rat
  deriving DecidableEq, Repr

inductive Base
  | m | s | kg | K | mol | rad
  deriving DecidableEq, Repr

def Base.all : List Base := [.m, .s, .kg, .K, .mol, .rad]

def Base.name : Base → Str
  | .m => ['m'] | .s => ['s'] | .kg => ['k', 'g'] | .K => ['K']
  | .mol => ['m', 'o', 'l'] | .rad => ['r', 'a', 'd']

def Units.get (u : Units) : Base → Rat
  | .m => u.m | .s => u.s | .kg => u.kg | .K => u.K | .mol => u.mol | .rad => u.rad

def Units.set (u : Units) (b : Base) (x : Rat) : Units :=
  match b with
  | .m => { u with m := x } | .s => { u with s := x } | .kg => { u with kg := x }
  | .K => { u with K := x } | .mol => { u with mol := x } | .rad => { u with rad := x }

/-- the SI system: every base unit 1 (`pp.Units()`) -/
def Units.one : Units := ⟨1, 1, 1, 1, 1, 1⟩

/-- all scalings positive -/
def Units.Pos (u : Units) : Prop := ∀ b : Base, 0 < u.get b

def baseOfName (n : Str) : Option Base :=
  if n = ['m'] then some .m else if n = ['s'] then some .s else if n = ['k', 'g'] then some .kg
  else if n = ['K'] then some .K else if n = ['m', 'o', 'l'] then some .mol
  else if n = ['r', 'a', 'd'] then some .rad else none

/-! ## derived-unit formulas (python property bodies) as expression trees -/

inductive UExpr
  | base (b : Base)            -- `self.kg`
  | const (q : Rat)            -- numeric literal / `np.pi`
  | mul (a b : UExpr)          -- `a * b`
  | div (a b : UExpr)          -- `a / b`
  | pow (a : UExpr) (n : Int)  -- `a ** n`, integer literal
  deriving Repr

def UExpr.eval (u : Units) : UExpr → Rat
  | .base b => u.get b
  | .const q => q
  | .mul a b => a.eval u * b.eval u
  | .div a b => a.eval u / b.eval u
  | .pow a n => a.eval u ^ n

/-- every literal in the formula is positive -/
def UExpr.constsPos : UExpr → Bool
  | .base _ => true
  | .const q => decide (0 < q)
  | .mul a b => a.constsPos && b.constsPos
  | .div a b => a.constsPos && b.constsPos
  | .pow a _ => a.constsPos

/-- exponent of base unit `b` in the formula -/
def UExpr.dim (b : Base) : UExpr → Int
  | .base c => if c = b then 1 else 0
  | .const _ => 0
  | .mul x y => x.dim b + y.dim b
  | .div x y => x.dim b - y.dim b
  | .pow x n => n * x.dim b

/-- numeric coefficient of the formula (= its value in the SI system) -/
def UExpr.coeff (e : UExpr) : Rat := e.eval Units.one

/-- the monomial `Π_b u_b ^ d_b` -/
def monomial (u : Units) (d : Base → Int) : Rat :=
  u.m ^ d .m * u.s ^ d .s * u.kg ^ d .kg * u.K ^ d .K * u.mol ^ d .mol * u.rad ^ d .rad

/-! ## attributes of a `Units` object (`getattr(self, name)`) -/

structure Env where
  /-- derived units (python properties), name ↦ formula -/
  derived : List (Str × UExpr)
  /-- attributes that exist but are not numbers (methods): using them is a `TypeError` -/
  other : List Str

def lookup {α : Type} (k : Str) : List (Str × α) → Option α
  | [] => none
  | (k', v) :: r => if k' = k then some v else lookup k r

inductive Attr
  | num (x : Rat)
  | other
  deriving Repr

def Env.attr (env : Env) (u : Units) (n : Str) : Option Attr :=
  match baseOfName n with
  | some b => some (.num (u.get b))
  | none =>
    match lookup n env.derived with
    | some e => some (.num (e.eval u))
    | none => if n ∈ env.other then some .other else none

def Env.constsPos (env : Env) : Bool := env.derived.all (fun p => p.2.constsPos)

/-! ## the unit-string grammar, as coded -/

/-- `units.replace(" ", "")` -/
def stripSpaces (s : Str) : Str := s.filter (fun c => c != ' ')

/-- python `str.split(sep)` for a one-character separator (never returns `[]`) -/
def splitOn (sep : Char) : Str → List Str
  | [] => [[]]
  | c :: cs =>
    if c = sep then [] :: splitOn sep cs
    else match splitOn sep cs with
      | [] => [[c]]
      | t :: ts => (c :: t) :: ts

/-- `units in ["", "1", "-"]` -/
def isDimless (s : Str) : Bool := s == [] || s == ['1'] || s == ['-']

/-! ### python `float(str)` on ASCII input: `[ws] [sign] digits [. digits] [e [sign] digits] [ws]`
    (also `.5`, `1.`); `inf`, `nan`, digit separators `_` and non-ASCII digits are not modelled. -/

def isWs (c : Char) : Bool :=
  c == ' ' || c == '\t' || c == '\n' || c == '\r' || c == '\x0b' || c == '\x0c'

def digit? (c : Char) : Option Nat :=
  if '0'.toNat ≤ c.toNat ∧ c.toNat ≤ '9'.toNat then some (c.toNat - '0'.toNat) else none

/-- leading decimal digits and the rest -/
def takeDigits : Str → List Nat × Str
  | [] => ([], [])
  | c :: cs =>
    match digit? c with
    | some d => let r := takeDigits cs; (d :: r.1, r.2)
    | none => ([], c :: cs)

def natOfDigits (ds : List Nat) : Nat := ds.foldl (fun a d => 10 * a + d) 0

/-- optional sign: (is negative, rest) -/
def takeSign : Str → Bool × Str
  | '-' :: r => (true, r)
  | '+' :: r => (false, r)
  | s => (false, s)

def stripWs (s : Str) : Str := ((s.dropWhile isWs).reverse.dropWhile isWs).reverse

def parseFloat (s0 : Str) : Option Rat :=
  let s := stripWs s0
  let (neg, s) := takeSign s
  let (ip, s) := takeDigits s
  let (fp, s) : List Nat × Str :=
    match s with
    | '.' :: r => takeDigits r
    | _ => ([], s)
  if ip.isEmpty && fp.isEmpty then none else
  let mant : Rat := (natOfDigits (ip ++ fp) : Rat) / ((10 : Rat) ^ fp.length)
  let sgn : Rat := if neg then -1 else 1
  match s with
  | [] => some (sgn * mant)
  | c :: r =>
    if c = 'e' ∨ c = 'E' then
      let (eneg, r) := takeSign r
      let (ed, r) := takeDigits r
      if ed.isEmpty || !r.isEmpty then none
      else
        let e : Int := natOfDigits ed
        some (sgn * mant * (10 : Rat) ^ (if eneg then -e else e))
    else none

/-- `x ** float(power)`: exact for integer exponents -/
def powRat (x q : Rat) : Except Err Rat :=
  if q.den = 1 then .ok (x ^ q.num) else .error .fractional

/-- one factor of the unit string (`sub_unit` in the loop of `convert_units`): symbol and exponent.
    Order of failure as coded: unpacking of `split("^")`, `getattr`, `float(power)`, `**`. -/
def factorOf (env : Env) (u : Units) (tok : Str) : Except Err Rat :=
  if '^' ∈ tok then
    match splitOn '^' tok with
    | [sym, pw] =>
      match env.attr u sym with
      | none => .error .attributeError
      | some a =>
        match parseFloat pw with
        | none => .error .valueError
        | some q =>
          match a with
          | .other => .error .typeError
          | .num x => powRat x q
    | _ => .error .valueError   -- too many values to unpack
  else
    match env.attr u tok with
    | none => .error .attributeError
    | some .other => .error .typeError
    | some (.num x) => .ok x

/-- the same traversal without evaluating the power: value of the symbol and parsed exponent
    (used by the driver to evaluate non-integer powers in binary64; `factorOf_eq_parts` in
    Lemmas.lean shows that `factorOf` is this followed by `powRat`) -/
def factorParts (env : Env) (u : Units) (tok : Str) : Except Err (Rat × Option Rat) :=
  if '^' ∈ tok then
    match splitOn '^' tok with
    | [sym, pw] =>
      match env.attr u sym with
      | none => .error .attributeError
      | some a =>
        match parseFloat pw with
        | none => .error .valueError
        | some q =>
          match a with
          | .other => .error .typeError
          | .num x => .ok (x, some q)
    | _ => .error .valueError
  else
    match env.attr u tok with
    | none => .error .attributeError
    | some .other => .error .typeError
    | some (.num x) => .ok (x, none)

/-- the loop over `units.split("*")` -/
def convertToks (env : Env) (u : Units) (toSi : Bool) : List Str → Rat → Except Err Rat
  | [], v => .ok v
  | t :: ts, v =>
    match factorOf env u t with
    | .error e => .error e
    | .ok f => convertToks env u toSi ts (if toSi then v * f else v / f)

/-- `Units.convert_units(value, units, to_si)` on a scalar -/
def convertStr (env : Env) (u : Units) (toSi : Bool) (s : Str) (v : Rat) : Except Err Rat :=
  let s' := stripSpaces s
  if isDimless s' then .ok v else convertToks env u toSi (splitOn '*' s') v

/-- `r` is a success with value `x` -/
def isOkEq (r : Except Err Rat) (x : Rat) : Bool :=
  match r with
  | .ok y => y == x
  | .error _ => false

/-- all factors of a token list (first error wins), used to state what `convertToks` computes -/
def factors (env : Env) (u : Units) : List Str → Except Err (List Rat)
  | [] => .ok []
  | t :: ts =>
    match factorOf env u t with
    | .error e => .error e
    | .ok f =>
      match factors env u ts with
      | .error e => .error e
      | .ok fs => .ok (f :: fs)

def prod : List Rat → Rat
  | [] => 1
  | x :: xs => x * prod xs

/-! ### symbolic reading of a unit string: exponent of every base unit (rational, because the
    exponent strings may be fractional).  Compared with the real code run on symbolic units. -/

def symDims (env : Env) (sym : Str) : Option (Base → Int) :=
  match baseOfName sym with
  | some b => some (fun c => if b = c then 1 else 0)
  | none =>
    match lookup sym env.derived with
    | some e => some (fun c => e.dim c)
    | none => none

def tokDims (env : Env) (tok : Str) : Option (Base → Rat) :=
  if '^' ∈ tok then
    match splitOn '^' tok with
    | [sym, pw] =>
      match symDims env sym, parseFloat pw with
      | some d, some q => some (fun c => q * (d c : Rat))
      | _, _ => none
    | _ => none
  else (symDims env tok).map (fun d c => (d c : Rat))

def toksDims (env : Env) : List Str → Option (Base → Rat)
  | [] => some (fun _ => 0)
  | t :: ts =>
    match tokDims env t, toksDims env ts with
    | some d, some r => some (fun c => d c + r c)
    | _, _ => none

def strDims (env : Env) (s : Str) : Option (Base → Rat) :=
  let s' := stripSpaces s
  if isDimless s' then some (fun _ => 0) else toksDims env (splitOn '*' s')

/-! ## `Units.__init__(**kwargs)` -/

/-- a keyword value: a python number, or something that is not `float | int` -/
inductive KwVal
  | num (q : Rat)
  | bad
  deriving Repr

/-- `np.isclose(s, 1)` with the default tolerances (rtol 1e-5, atol 1e-8), over the rationals -/
def closeToOne (s : Rat) : Bool :=
  let d := s - 1
  decide ((if d < 0 then -d else d) ≤ (1 : Rat) / 100000000 + (1 : Rat) / 100000)

def kwLookup (b : Base) (dflt : Rat) : List (Str × KwVal) → Rat
  | [] => dflt
  | (k, v) :: r =>
    if k = b.name then (match v with | .num q => q | .bad => dflt) else kwLookup b dflt r

/-- validation loop (type of value, then key), assignments with defaults, time-scaling check -/
def Units.ofKwargs (allowed : List Str) (dflt : Units) (kw : List (Str × KwVal)) : Except Err Units :=
  if kw.any (fun p => (match p.2 with | .bad => true | .num _ => false) || !(allowed.contains p.1))
  then .error .valueError
  else
    let g := fun b => kwLookup b (dflt.get b) kw
    if !closeToOne (g .s) then .error .notImplementedError
    else .ok ⟨g .m, g .s, g .kg, g .K, g .mol, g .rad⟩

/-! ## material constants (`Constants.__post_init__`, `to_units`) -/

/-- what the translator reads off a material data class -/
structure ConstClass where
  /-- `SI_units` -/
  table : List (Str × Str)
  /-- dataclass fields with their default values, declaration order -/
  defaults : List (Str × Rat)

structure Constants where
  cls : ConstClass
  units : Units
  /-- `constants_in_SI` -/
  si : List (Str × Rat)
  /-- attribute values (simulation units), same order as `si` -/
  vals : List (Str × Rat)

/-- the conversion loop of `__post_init__` -/
def convertAll (env : Env) (table : List (Str × Str)) (u : Units) :
    List (Str × Rat) → Except Err (List (Str × Rat))
  | [] => .ok []
  | (k, v) :: r =>
    match lookup k table with
    | none => .error .attributeError
    | some unit =>
      match convertStr env u false unit v with
      | .error e => .error e
      | .ok w =>
        match convertAll env table u r with
        | .error e => .error e
        | .ok ws => .ok ((k, w) :: ws)

/-- construction from a complete list of SI constants -/
def Constants.ofSI (env : Env) (cls : ConstClass) (u : Units) (si : List (Str × Rat)) :
    Except Err Constants :=
  match convertAll env cls.table u si with
  | .error e => .error e
  | .ok vals => .ok ⟨cls, u, si, vals⟩

/-- dataclass `__init__(units=u, **kw)`: unknown keyword → `TypeError`; missing ↦ default -/
def Constants.new (env : Env) (cls : ConstClass) (u : Units) (kw : List (Str × Rat)) :
    Except Err Constants :=
  if kw.any (fun p => (lookup p.1 cls.defaults).isNone) then .error .typeError
  else Constants.ofSI env cls u (cls.defaults.map (fun p => (p.1, (lookup p.1 kw).getD p.2)))

/-- `Constants.to_units(units)`: `type(self)(units=units, **self.constants_in_SI)` -/
def Constants.toUnits (env : Env) (c : Constants) (u' : Units) : Except Err Constants :=
  Constants.ofSI env c.cls u' c.si

end PorepyVerif.C43
