/-
C43 — property theorems.  "Converting any value to simulation units and back returns it, converting
with a composed unit string equals composing the conversions, derived units agree with their
base-unit expressions, and material constants converted to any unit system convert back to their SI
values.  A flow model run with scaled length and mass units gives the same SI solution as the
unscaled run."

The statements are about the model of `Model.lean` (generic in the table of derived units) and about
`Generated.lean`, which the translator rewrites from the python sources on every run: the theorems
that mention `Gen.*` are re-checked against what `units.py` / `materials.py` say NOW.

Integer exponents only: `convertStr … = .ok _` implies that every exponent string denotes an
integer (non-integer exponents answer `Err.fractional` in the model; they are compared with the
real code numerically in the correspondence check only).  Rounding is outside every theorem.
-/
import PorepyVerif.C43.Lemmas
import PorepyVerif.C43.Generated

namespace PorepyVerif.C43

/-! ## 1. round trip -/

/-- Converting to simulation units and back (and the other way round) is the identity, for every
    environment of derived units with positive literals, every positive scaling, every unit string
    the grammar accepts and every value. -/
theorem convert_roundtrip (env : Env) (henv : env.constsPos = true) (u : Units) (hu : u.Pos)
    (toSi : Bool) (s : Str) (v w : Rat) (h : convertStr env u toSi s v = .ok w) :
    convertStr env u (!toSi) s w = .ok v := by
  obtain ⟨c, hc, h1, h2⟩ := convertStr_linear env henv u hu toSi s v w h
  rw [h1 v] at h
  cases h
  rw [h2 (v * c), Rat.mul_div_cancel (Rat.ne_of_gt hc)]

/-- … and the conversion never fails in one direction only. -/
theorem convert_succeeds_both_ways (env : Env) (u : Units) (toSi : Bool) (s : Str) (v w x : Rat)
    (h : convertStr env u toSi s v = .ok w) : ∃ y, convertStr env u (!toSi) s x = .ok y :=
  convertStr_ok_indep env u u toSi (!toSi) s v w x h

/-- instance for the units of the current source -/
theorem convert_roundtrip_gen (u : Units) (hu : u.Pos) (toSi : Bool) (s : Str) (v w : Rat)
    (h : convertStr Gen.env u toSi s v = .ok w) : convertStr Gen.env u (!toSi) s w = .ok v :=
  convert_roundtrip Gen.env Gen.env_constsPos u hu toSi s v w h

def uEx : Units := ⟨4, 1, 1 / 8, 2, 1, 3⟩
theorem uEx_pos : uEx.Pos := by intro b; cases b <;> decide +kernel

-- non-vacuity: 7 Pa·m⁻¹ in units m = 4, kg = 1/8 (spaces, derived unit, signed power)
example : isOkEq (convertStr Gen.env uEx false "Pa * m^-1".toList 7) 896 = true := by decide +kernel
example : isOkEq (convertStr Gen.env uEx true "Pa * m^-1".toList 896) 7 = true := by decide +kernel

/-! ## 2. composition -/

/-- Converting with the composed unit string `a*b` is converting with `a`, then with `b` (errors:
    the first failing factor decides, as in the loop of the real code).  `a`, `b` must not be one of
    the whole-string dimensionless forms `""`, `"1"`, `"-"`: as coded, these are recognised only as
    the complete string, `"1*m"` is an `AttributeError`. -/
theorem convert_compose (env : Env) (u : Units) (toSi : Bool) (a b : Str) (v : Rat)
    (ha : isDimless (stripSpaces a) = false) (hb : isDimless (stripSpaces b) = false) :
    convertStr env u toSi (a ++ '*' :: b) v =
      (convertStr env u toSi a v >>= fun w => convertStr env u toSi b w) := by
  unfold convertStr
  simp only [stripSpaces_star, not_dimless_of_star, ha, hb, splitOn_append, convertToks_append]
  rfl

example : convertStr Gen.env uEx false ("Pa".toList ++ '*' :: "m^-1".toList) 7
    = (convertStr Gen.env uEx false "Pa".toList 7 >>= fun w => convertStr Gen.env uEx false "m^-1".toList w) :=
  convert_compose _ _ _ _ _ _ (by decide) (by decide)

/-- Exponent addition: the factors `sym^p`, `sym^q` together act as `sym^(p+q)` (integer exponents
    written in any way `float()` accepts, `sym` a base or derived unit of positive value). -/
theorem convert_exponent_add (env : Env) (u : Units) (toSi : Bool) (sym p q r : Str) (x ep eq er : Rat)
    (v : Rat) (hsym : '^' ∉ sym) (hp : '^' ∉ p) (hq : '^' ∉ q) (hr : '^' ∉ r)
    (hx : env.attr u sym = some (.num x)) (hx0 : 0 < x)
    (hep : parseFloat p = some ep) (heq : parseFloat q = some eq) (her : parseFloat r = some er)
    (hpi : ep.den = 1) (hqi : eq.den = 1) (hri : er.den = 1) (hsum : er.num = ep.num + eq.num) :
    convertToks env u toSi [sym ++ '^' :: p, sym ++ '^' :: q] v
      = convertToks env u toSi [sym ++ '^' :: r] v := by
  have key : ∀ (w : Str) (e : Rat), '^' ∉ w → parseFloat w = some e → e.den = 1 →
      factorOf env u (sym ++ '^' :: w) = .ok (x ^ e.num) := by
    intro w e hw he hd
    refine factorOf_pow env u _ sym w x e (by simp) ?_ hx he hd
    rw [splitOn_append, splitOn_of_not_mem _ _ hsym, splitOn_of_not_mem _ _ hw]; rfl
  have hx' : x ≠ 0 := Rat.ne_of_gt hx0
  simp only [convertToks, key p ep hp hep hpi, key q eq hq heq hqi, key r er hr her hri, hsum,
    Rat.zpow_add hx']
  cases toSi
  · simp only [Bool.false_eq_true, if_false, Rat.div_def, Rat.inv_mul_rev]; congr 1; grind
  · simp only [if_true]; congr 1; grind

example (v : Rat) : convertToks Gen.env uEx false ["m^2".toList, "m^-3.0".toList] v
    = convertToks Gen.env uEx false ["m^-1e0".toList] v :=
  convert_exponent_add Gen.env uEx false "m".toList "2".toList "-3.0".toList "-1e0".toList 4 2 (-3) (-1) v
    (by decide) (by decide) (by decide) (by decide) rfl (by decide +kernel)
    (by decide +kernel) (by decide +kernel) (by decide +kernel) (by decide +kernel) (by decide +kernel)
    (by decide +kernel) (by decide +kernel)

/-! ## 3. derived units (formulas regenerated from units.py) -/

local macro "dk" : term => `(by decide +kernel)

theorem factors_Pa (u : Units) : factors Gen.env u ["kg".toList, "m^-1".toList, "s^-2".toList]
    = .ok [u.kg, u.m ^ (-1 : Int), u.s ^ (-2 : Int)] :=
  factors_cons _ _ _ _ _ _ (factorOf_plain _ _ _ _ dk rfl) <|
  factors_cons _ _ _ _ _ _ (factorOf_pow _ _ _ "m".toList "-1".toList _ (-1) dk dk rfl dk dk) <|
  factors_cons _ _ _ _ _ _ (factorOf_pow _ _ _ "s".toList "-2".toList _ (-2) dk dk rfl dk dk) rfl

theorem factors_J (u : Units) : factors Gen.env u ["kg".toList, "m^2".toList, "s^-2".toList]
    = .ok [u.kg, u.m ^ (2 : Int), u.s ^ (-2 : Int)] :=
  factors_cons _ _ _ _ _ _ (factorOf_plain _ _ _ _ dk rfl) <|
  factors_cons _ _ _ _ _ _ (factorOf_pow _ _ _ "m".toList "2".toList _ 2 dk dk rfl dk dk) <|
  factors_cons _ _ _ _ _ _ (factorOf_pow _ _ _ "s".toList "-2".toList _ (-2) dk dk rfl dk dk) rfl

theorem factors_N (u : Units) : factors Gen.env u ["kg".toList, "m".toList, "s^-2".toList]
    = .ok [u.kg, u.m, u.s ^ (-2 : Int)] :=
  factors_cons _ _ _ _ _ _ (factorOf_plain _ _ _ _ dk rfl) <|
  factors_cons _ _ _ _ _ _ (factorOf_plain _ _ _ _ dk rfl) <|
  factors_cons _ _ _ _ _ _ (factorOf_pow _ _ _ "s".toList "-2".toList _ (-2) dk dk rfl dk dk) rfl

theorem factors_W (u : Units) : factors Gen.env u ["kg".toList, "m^2".toList, "s^-3".toList]
    = .ok [u.kg, u.m ^ (2 : Int), u.s ^ (-3 : Int)] :=
  factors_cons _ _ _ _ _ _ (factorOf_plain _ _ _ _ dk rfl) <|
  factors_cons _ _ _ _ _ _ (factorOf_pow _ _ _ "m".toList "2".toList _ 2 dk dk rfl dk dk) <|
  factors_cons _ _ _ _ _ _ (factorOf_pow _ _ _ "s".toList "-3".toList _ (-3) dk dk rfl dk dk) rfl

theorem factors_sym (u : Units) (n : Str) (x : Rat) (h1 : ('^' ∈ n) = False)
    (h2 : Gen.env.attr u n = some (.num x)) : factors Gen.env u [n] = .ok [x] :=
  factors_cons _ _ _ _ _ _ (factorOf_plain _ _ _ _ h1 h2) rfl

/-- conversion with a derived symbol = conversion with the expanded base-unit string -/
theorem derived_string_eq (u : Units) (toSi : Bool) (v : Rat) (sym expanded : Str) (x : Rat)
    (ts : List Str) (fs : List Rat) (h1 : ('^' ∈ sym) = False) (hd1 : isDimless (stripSpaces sym) = false)
    (hs1 : splitOn '*' (stripSpaces sym) = [sym]) (h2 : Gen.env.attr u sym = some (.num x))
    (hd2 : isDimless (stripSpaces expanded) = false) (hs2 : splitOn '*' (stripSpaces expanded) = ts)
    (hf : factors Gen.env u ts = .ok fs) (hx : x = prod fs) :
    convertStr Gen.env u toSi sym v = convertStr Gen.env u toSi expanded v := by
  rw [convertStr_of_factors _ _ _ _ _ _ _ hd1 hs1 (factors_sym u sym x h1 h2),
    convertStr_of_factors _ _ _ _ _ _ _ hd2 hs2 hf]
  simp only [prod, Rat.mul_one, hx]

theorem z2 (x : Rat) : x ^ (2 : Int) = x ^ 2 := Rat.zpow_natCast x 2
theorem z3 (x : Rat) : x ^ (3 : Int) = x ^ 3 := Rat.zpow_natCast x 3
theorem n1 (x : Rat) : x ^ (-1 : Int) = x⁻¹ := by
  rw [show (-1 : Int) = -(1 : Int) from rfl, Rat.zpow_neg, Rat.zpow_one]
theorem n2 (x : Rat) : x ^ (-2 : Int) = (x ^ 2)⁻¹ := by
  rw [show (-2 : Int) = -((2 : Nat) : Int) from rfl, Rat.zpow_neg, Rat.zpow_natCast]
theorem n3 (x : Rat) : x ^ (-3 : Int) = (x ^ 3)⁻¹ := by
  rw [show (-3 : Int) = -((3 : Nat) : Int) from rfl, Rat.zpow_neg, Rat.zpow_natCast]

/-- Derived units agree with their base-unit expressions: the formulas that units.py states NOW
    satisfy N = kg·m/s², Pa = N/m², J = N·m, W = J/s, each is the monomial in the base units with the
    SI exponents, and `convert_units` with the derived symbol equals `convert_units` with the
    expanded base-unit string (both directions, every value). -/
theorem derived_consistent (u : Units) (hu : u.Pos) :
    (Gen.N u = u.kg * u.m / u.s ^ 2 ∧ Gen.Pa u = Gen.N u / u.m ^ 2 ∧ Gen.J u = Gen.N u * u.m
      ∧ Gen.W u = Gen.J u / u.s) ∧
    (Gen.Pa u = monomial u (fun b => match b with | .kg => 1 | .m => -1 | .s => -2 | _ => 0) ∧
     Gen.J u = monomial u (fun b => match b with | .kg => 1 | .m => 2 | .s => -2 | _ => 0) ∧
     Gen.N u = monomial u (fun b => match b with | .kg => 1 | .m => 1 | .s => -2 | _ => 0) ∧
     Gen.W u = monomial u (fun b => match b with | .kg => 1 | .m => 2 | .s => -3 | _ => 0)) ∧
    (∀ (toSi : Bool) (v : Rat),
      convertStr Gen.env u toSi "Pa".toList v = convertStr Gen.env u toSi "kg * m^-1 * s^-2".toList v ∧
      convertStr Gen.env u toSi "J".toList v = convertStr Gen.env u toSi "kg * m^2 * s^-2".toList v ∧
      convertStr Gen.env u toSi "N".toList v = convertStr Gen.env u toSi "kg * m * s^-2".toList v ∧
      convertStr Gen.env u toSi "W".toList v = convertStr Gen.env u toSi "kg * m^2 * s^-3".toList v) := by
  have hm : u.m ≠ 0 := Rat.ne_of_gt (hu .m)
  have hs : u.s ≠ 0 := Rat.ne_of_gt (hu .s)
  refine ⟨⟨?_, ?_, ?_, ?_⟩, ⟨?_, ?_, ?_, ?_⟩, fun toSi v => ⟨?_, ?_, ?_, ?_⟩⟩
  · simp only [Gen.N]
  · simp only [Gen.Pa, Gen.N]; grind
  · simp only [Gen.J, Gen.N]; grind
  · simp only [Gen.W, Gen.J]; grind
  · simp only [Gen.Pa, monomial, Rat.zpow_zero, Rat.zpow_one, n1, n2]; grind
  · simp only [Gen.J, monomial, Rat.zpow_zero, Rat.zpow_one, z2, n2]; grind
  · simp only [Gen.N, monomial, Rat.zpow_zero, Rat.zpow_one, n2]; grind
  · simp only [Gen.W, monomial, Rat.zpow_zero, Rat.zpow_one, z2, n3]; grind
  · refine derived_string_eq u toSi v _ _ (Gen.Pa u) _ _ dk dk dk rfl dk dk (factors_Pa u) ?_
    simp only [Gen.Pa, prod, n1, n2]; grind
  · refine derived_string_eq u toSi v _ _ (Gen.J u) _ _ dk dk dk rfl dk dk (factors_J u) ?_
    simp only [Gen.J, prod, z2, n2]; grind
  · refine derived_string_eq u toSi v _ _ (Gen.N u) _ _ dk dk dk rfl dk dk (factors_N u) ?_
    simp only [Gen.N, prod, n2]; grind
  · refine derived_string_eq u toSi v _ _ (Gen.W u) _ _ dk dk dk rfl dk dk (factors_W u) ?_
    simp only [Gen.W, prod, z2, n3]; grind

example : Gen.Pa uEx = 1 / 32 ∧ Gen.N uEx = 1 / 2 ∧ Gen.J uEx = 2 ∧ Gen.W uEx = 2 := by decide +kernel

/-- Every derived unit the source declares (whatever its name) is a positive coefficient times the
    monomial of the base units given by its exponents, and is positive. -/
theorem derived_monomial (u : Units) (hu : u.Pos) (n : Str) (e : UExpr) (h : (n, e) ∈ Gen.env.derived) :
    e.eval u = e.coeff * monomial u (fun b => e.dim b) ∧ 0 < e.eval u ∧ 0 < e.coeff := by
  have hc : e.constsPos = true := by
    have := List.all_eq_true.mp Gen.env_constsPos (n, e) h
    simpa using this
  exact ⟨eval_eq_coeff_mul_monomial u hu e, eval_pos u hu e hc,
    eval_pos Units.one (fun b => by rw [get_one]; decide) e hc⟩

example : (['d', 'e', 'g', 'r', 'e', 'e'], Gen.degreeExpr) ∈ Gen.env.derived := by simp [Gen.env]

/-- `degree`.  Every attribute of `Units` is the size of the simulation unit expressed in the unit
    the attribute is named after (`m` = length unit in metres, `Pa` = pressure unit in pascal), so
    `degree` = the simulation ANGLE unit expressed in degrees = `rad · 180/π` (1 rad = 180/π degrees),
    and `convert_units(x, "degree")` takes a value given in degrees.  Consistency with the base unit:
    an angle of `x` rad, written in degrees (`x·180/π`), converts to the same simulation value as
    `x` converted with `"rad"` — in particular 180 degrees and π rad agree. -/
theorem degree_agrees_with_rad (u : Units) (hu : u.Pos) (x : Rat) :
    Gen.degree u = u.rad * 180 / Gen.pi64 ∧
    convertStr Gen.env u false "degree".toList (x * 180 / Gen.pi64)
      = convertStr Gen.env u false "rad".toList x ∧
    convertStr Gen.env u true "degree".toList x
      = (convertStr Gen.env u true "rad".toList x).map (fun y => y * 180 / Gen.pi64) := by
  have hr : u.rad ≠ 0 := Rat.ne_of_gt (hu .rad)
  have hpi : Gen.pi64 ≠ 0 := by decide +kernel
  have hd : Gen.degree u = u.rad * 180 / Gen.pi64 := rfl
  refine ⟨hd, ?_, ?_⟩
  · rw [convertStr_of_factors _ _ _ "degree".toList ["degree".toList] _ _ dk dk
        (factors_sym u "degree".toList (Gen.degree u) dk rfl),
      convertStr_of_factors _ _ _ "rad".toList ["rad".toList] _ _ dk dk
        (factors_sym u "rad".toList u.rad dk rfl)]
    simp only [prod, Rat.mul_one, Bool.false_eq_true, if_false, hd]
    congr 1
    generalize Gen.pi64 = p at hpi
    grind
  · rw [convertStr_of_factors _ _ _ "degree".toList ["degree".toList] _ _ dk dk
        (factors_sym u "degree".toList (Gen.degree u) dk rfl),
      convertStr_of_factors _ _ _ "rad".toList ["rad".toList] _ _ dk dk
        (factors_sym u "rad".toList u.rad dk rfl)]
    simp only [prod, Rat.mul_one, if_true, hd, Except.map]
    congr 1
    generalize Gen.pi64 = p at hpi
    grind

/-! ## 4. material constants -/

theorem stored_convert_back (env : Env) (henv : env.constsPos = true) (table : List (Str × Str))
    (u' : Units) (hu' : u'.Pos) (si vals : List (Str × Rat))
    (h : AllPairs (Stored env table u') si vals) :
    AllPairs (fun (p q : Str × Rat) => q.1 = p.1 ∧ ∃ unit, lookup p.1 table = some unit ∧
      convertStr env u' true unit q.2 = .ok p.2) si vals := by
  induction h with
  | nil => exact .nil
  | cons hab _ ih =>
    obtain ⟨h1, unit, h2, h3⟩ := hab
    exact .cons ⟨h1, unit, h2, convert_roundtrip env henv u' hu' false unit _ _ h3⟩ ih

/-- Material constants constructed in any unit system `u` and converted with `to_units` to any
    positive unit system `u'`: the conversion succeeds, the SI values (`constants_in_SI`) are
    carried unchanged, and every stored value converts back (`to_si=True`, with the unit the class
    declares for it) to its SI value. -/
theorem constants_roundtrip (env : Env) (henv : env.constsPos = true) (cls : ConstClass)
    (u u' : Units) (hu' : u'.Pos) (kw : List (Str × Rat)) (c : Constants)
    (hc : Constants.new env cls u kw = .ok c) :
    ∃ c', c.toUnits env u' = .ok c' ∧ c'.si = c.si ∧ c'.units = u' ∧ c'.cls = cls ∧
      AllPairs (fun (p q : Str × Rat) => q.1 = p.1 ∧ ∃ unit, lookup p.1 cls.table = some unit ∧
        convertStr env u' true unit q.2 = .ok p.2) c.si c'.vals := by
  unfold Constants.new at hc
  split at hc
  · cases hc
  · unfold Constants.ofSI at hc
    split at hc
    · cases hc
    · next vals hv =>
      cases hc
      obtain ⟨vals', hv'⟩ := convertAll_ok_indep env cls.table u u' _ vals hv
      refine ⟨⟨cls, u', (cls.defaults.map fun p => (p.1, (lookup p.1 kw).getD p.2)), vals'⟩, ?_, rfl, rfl, rfl, ?_⟩
      · simp only [Constants.toUnits, Constants.ofSI, hv']
      · exact stored_convert_back env henv cls.table u' hu' _ _
          (convertAll_spec env cls.table u' _ vals' hv')

/-- For the material classes of the current source: constructing with any keywords the class
    accepts in any unit system and converting to the SI system `pp.Units()` succeeds and stores
    exactly the SI values. -/
theorem constants_back_to_si (n : Str) (cls : ConstClass) (hcls : (n, cls) ∈ Gen.classes)
    (u : Units) (kw : List (Str × Rat)) (c : Constants) (hc : Constants.new Gen.env cls u kw = .ok c) :
    ∃ c', c.toUnits Gen.env Units.one = .ok c' ∧ c'.vals = c.si := by
  have htab : ∀ p ∈ cls.table, isOkEq (convertStr Gen.env Units.one false p.2 1) 1 = true := by
    have hall : ∀ q ∈ Gen.classes, (q.2.table.all fun p => isOkEq (convertStr Gen.env Units.one false p.2 1) 1) = true := by
      intro q hq
      simp only [Gen.classes, List.mem_cons, List.not_mem_nil, or_false] at hq
      rcases hq with rfl | rfl | rfl | rfl | rfl
      · exact Gen.FluidComponent_table_ok.2
      · exact Gen.SolidConstants_table_ok.2
      · exact Gen.FractureDamageSolidConstants_table_ok.2
      · exact Gen.NumericalConstants_table_ok.2
      · exact Gen.ReferenceVariableValues_table_ok.2
    intro p hp
    exact List.all_eq_true.mp (hall (n, cls) hcls) p hp
  unfold Constants.new at hc
  split at hc
  · cases hc
  · unfold Constants.ofSI at hc
    split at hc
    · cases hc
    · next vals hv =>
      cases hc
      obtain ⟨vals', hv'⟩ := convertAll_ok_indep Gen.env cls.table u Units.one _ vals hv
      refine ⟨⟨cls, Units.one, (cls.defaults.map fun p => (p.1, (lookup p.1 kw).getD p.2)), vals'⟩, ?_, ?_⟩
      · simp only [Constants.toUnits, Constants.ofSI, hv']
      · exact convertAll_identity Gen.env cls.table Units.one htab _ vals' hv'

-- non-vacuity: a solid with two keywords, units m = 4, kg = 1/8
example : (match Constants.new Gen.env Gen.SolidConstants uEx
      [("permeability".toList, 3), ("shear_modulus".toList, 5)] with
    | .ok c => lookup "permeability".toList c.vals == some (3 / 16)
        && lookup "shear_modulus".toList c.vals == some 160 && lookup "porosity".toList c.vals == lookup "porosity".toList c.si
    | .error _ => false) = true := by decide +kernel

/-! ## 5. unit invariance of a simulation -/

/-- If the residual `R'` of the scaled model and the residual `R` of the unscaled model satisfy
    `R'(S x) = T R(x)` for diagonal scalings `S`, `T` with non-zero entries (unknowns and equations
    in other units), then `x` solves `R` iff `S x` solves `R'`; and every root of `R'` is the
    scaling of a root of `R`.  The hypothesis is what the harness samples on the real residuals of
    the flow model; the conclusion is what it checks by running both models. -/
theorem scaled_roots {n m : Nat} (R R' : (Fin n → Rat) → (Fin m → Rat)) (S : Fin n → Rat)
    (T : Fin m → Rat) (hS : ∀ i, S i ≠ 0) (hT : ∀ j, T j ≠ 0)
    (h : ∀ x, R' (fun i => S i * x i) = fun j => T j * R x j) :
    (∀ x, R x = (fun _ => 0) ↔ R' (fun i => S i * x i) = (fun _ => 0)) ∧
    (∀ y, R' y = (fun _ => 0) → ∃ x, y = (fun i => S i * x i) ∧ R x = (fun _ => 0)) := by
  have key : ∀ x, R x = (fun _ => 0) ↔ R' (fun i => S i * x i) = (fun _ => 0) := by
    intro x
    rw [h x]
    constructor
    · intro hx; funext j; rw [hx]; exact Rat.mul_zero _
    · intro hx; funext j
      have := congrFun hx j
      rcases Rat.mul_eq_zero.mp this with h0 | h0
      · exact absurd h0 (hT j)
      · exact h0
  refine ⟨key, fun y hy => ⟨fun i => y i / S i, ?_, ?_⟩⟩
  · funext i; rw [Rat.mul_comm, Rat.div_mul_cancel (hS i)]
  · have hy' : y = fun i => S i * (y i / S i) := by
      funext i; rw [Rat.mul_comm, Rat.div_mul_cancel (hS i)]
    rw [key]; rw [← hy']; exact hy

-- non-vacuity: R x = 2x − 6 (root 3), unknown scaled by 1/4, equation by 8: R' y = 8(2·4y − 6)
example : ∃ (R R' : (Fin 1 → Rat) → (Fin 1 → Rat)) (S T : Fin 1 → Rat), (∀ i, S i ≠ 0) ∧ (∀ j, T j ≠ 0) ∧
    (∀ x, R' (fun i => S i * x i) = fun j => T j * R x j) ∧ R (fun _ => 3) = fun _ => 0 :=
  ⟨fun x _ => 2 * x 0 - 6, fun y _ => 8 * (2 * (4 * y 0) - 6), fun _ => 1 / 4, fun _ => 8,
    fun _ => by show (1 / 4 : Rat) ≠ 0; decide +kernel, fun _ => by show (8 : Rat) ≠ 0; decide +kernel,
    fun x => by funext j; grind,
    by funext j; show (2 : Rat) * 3 - 6 = 0; decide +kernel⟩

end PorepyVerif.C43
