import PorepyVerif.C43.Props
#print axioms PorepyVerif.C43.convert_roundtrip
#print axioms PorepyVerif.C43.convert_succeeds_both_ways
#print axioms PorepyVerif.C43.convert_compose
#print axioms PorepyVerif.C43.convert_exponent_add
#print axioms PorepyVerif.C43.derived_consistent
#print axioms PorepyVerif.C43.derived_monomial
#print axioms PorepyVerif.C43.constants_roundtrip
#print axioms PorepyVerif.C43.constants_back_to_si
#print axioms PorepyVerif.C43.scaled_roots
