import PorepyVerif.C43.Props
import PorepyVerif.C43.PropsReal
#print axioms PorepyVerif.C43.convert_roundtrip
#print axioms PorepyVerif.C43.convert_succeeds_both_ways
#print axioms PorepyVerif.C43.convert_compose
#print axioms PorepyVerif.C43.convert_exponent_add
#print axioms PorepyVerif.C43.derived_consistent
#print axioms PorepyVerif.C43.derived_monomial
#print axioms PorepyVerif.C43.degree_agrees_with_rad
#print axioms PorepyVerif.C43.constants_roundtrip
#print axioms PorepyVerif.C43.constants_back_to_si
#print axioms PorepyVerif.C43.scaled_roots
#print axioms PorepyVerif.C43.convert_roundtrip_real
#print axioms PorepyVerif.C43.convert_compose_real
#print axioms PorepyVerif.C43.convert_exponent_add_real
#print axioms PorepyVerif.C43.convert_real_extends
