/-
GENERATED on every run by harness/props/c43_translate.py from
  <repo>/src/porepy/models/units.py
  <repo>/src/porepy/compositional/materials.py
DO NOT EDIT.  Core Lean only.  Derived-unit formulas exactly as the python property bodies state
them, the expression trees the generic theorems of Props.lean are about, the tables of the material
data classes, and the generated obligations (theorems below) tying them together.
-/
import PorepyVerif.C43.Model

namespace PorepyVerif.C43.Gen
open PorepyVerif.C43

/-- `numpy.pi` (a binary64, hence this rational) -/
def pi64 : Rat := ((884279719003555 : Rat) / 281474976710656)

/-- units.py:109  `Pa = self.kg / (self.m * self.s ** 2)` -/
def Pa (u : Units) : Rat := u.kg / (u.m * u.s ^ 2)
def PaExpr : UExpr := (.div (.base .kg) (.mul (.base .m) (.pow (.base .s) (2))))
theorem Pa_eq (u : Units) : Pa u = PaExpr.eval u := rfl

/-- units.py:114  `J = self.kg * self.m ** 2 / self.s ** 2` -/
def J (u : Units) : Rat := u.kg * u.m ^ 2 / u.s ^ 2
def JExpr : UExpr := (.div (.mul (.base .kg) (.pow (.base .m) (2))) (.pow (.base .s) (2)))
theorem J_eq (u : Units) : J u = JExpr.eval u := rfl

/-- units.py:119  `N = self.kg * self.m / self.s ** 2` -/
def N (u : Units) : Rat := u.kg * u.m / u.s ^ 2
def NExpr : UExpr := (.div (.mul (.base .kg) (.base .m)) (.pow (.base .s) (2)))
theorem N_eq (u : Units) : N u = NExpr.eval u := rfl

/-- units.py:124  `W = self.kg * self.m ** 2 / self.s ** 3` -/
def W (u : Units) : Rat := u.kg * u.m ^ 2 / u.s ^ 3
def WExpr : UExpr := (.div (.mul (.base .kg) (.pow (.base .m) (2))) (.pow (.base .s) (3)))
theorem W_eq (u : Units) : W u = WExpr.eval u := rfl

/-- units.py:129  `degree = self.rad * 180 / np.pi` -/
def degree (u : Units) : Rat := u.rad * 180 / pi64
def degreeExpr : UExpr := (.div (.mul (.base .rad) (.const 180)) (.const pi64))
theorem degree_eq (u : Units) : degree u = degreeExpr.eval u := rfl

/-- `getattr` table of a Units object: derived units (properties) and non-numeric attributes -/
def env : Env :=
  { derived := [(['P', 'a'], PaExpr),
               (['J'], JExpr),
               (['N'], NExpr),
               (['W'], WExpr),
               (['d', 'e', 'g', 'r', 'e', 'e'], degreeExpr)],
    other := [['_', '_', 'i', 'n', 'i', 't', '_', '_'], ['c', 'o', 'n', 'v', 'e', 'r', 't', '_', 'u', 'n', 'i', 't', 's']] }

theorem env_constsPos : env.constsPos = true := by decide +kernel

/-- keys accepted by `Units.__init__` -/
def allowedKeys : List Str := [['m'], ['s'], ['k', 'g'], ['K'], ['m', 'o', 'l'], ['r', 'a', 'd']]
/-- defaults of the base units (`kwargs.get(name, default)`) -/
def defaults : Units := ⟨(1 : Rat), (1 : Rat), (1 : Rat), (1 : Rat), (1 : Rat), (1 : Rat)⟩
theorem allowedKeys_ok : (Base.all.all fun b => allowedKeys.contains b.name) = true := by decide
theorem defaults_eq : defaults = Units.one := by decide +kernel

/-- materials.py class FluidComponent: SI_units and dataclass fields with defaults -/
def FluidComponent : ConstClass :=
  { table := [(['d', 'e', 'n', 's', 'i', 't', 'y'], ['k', 'g', ' ', '*', ' ', 'm', '^', '-', '3']),
               (['m', 'o', 'l', 'a', 'r', '_', 'm', 'a', 's', 's'], ['k', 'g', ' ', '*', ' ', 'm', 'o', 'l', '^', '-', '1']),
               (['c', 'r', 'i', 't', 'i', 'c', 'a', 'l', '_', 'p', 'r', 'e', 's', 's', 'u', 'r', 'e'], ['P', 'a']),
               (['c', 'r', 'i', 't', 'i', 'c', 'a', 'l', '_', 't', 'e', 'm', 'p', 'e', 'r', 'a', 't', 'u', 'r', 'e'], ['K']),
               (['c', 'r', 'i', 't', 'i', 'c', 'a', 'l', '_', 's', 'p', 'e', 'c', 'i', 'f', 'i', 'c', '_', 'v', 'o', 'l', 'u', 'm', 'e'], ['m', '^', '3', ' ', '*', ' ', 'k', 'g', '^', '-', '1']),
               (['a', 'c', 'e', 'n', 't', 'r', 'i', 'c', '_', 'f', 'a', 'c', 't', 'o', 'r'], ['-']),
               (['c', 'o', 'm', 'p', 'r', 'e', 's', 's', 'i', 'b', 'i', 'l', 'i', 't', 'y'], ['P', 'a', '^', '-', '1']),
               (['s', 'p', 'e', 'c', 'i', 'f', 'i', 'c', '_', 'h', 'e', 'a', 't', '_', 'c', 'a', 'p', 'a', 'c', 'i', 't', 'y'], ['J', ' ', '*', ' ', 'k', 'g', '^', '-', '1', ' ', '*', ' ', 'K', '^', '-', '1']),
               (['t', 'h', 'e', 'r', 'm', 'a', 'l', '_', 'e', 'x', 'p', 'a', 'n', 's', 'i', 'o', 'n'], ['K', '^', '-', '1']),
               (['v', 'i', 's', 'c', 'o', 's', 'i', 't', 'y'], ['P', 'a', ' ', '*', ' ', 's']),
               (['t', 'h', 'e', 'r', 'm', 'a', 'l', '_', 'c', 'o', 'n', 'd', 'u', 'c', 't', 'i', 'v', 'i', 't', 'y'], ['W', ' ', '*', ' ', 'm', '^', '-', '1', ' ', '*', ' ', 'K', '^', '-', '1']),
               (['n', 'o', 'r', 'm', 'a', 'l', '_', 't', 'h', 'e', 'r', 'm', 'a', 'l', '_', 'c', 'o', 'n', 'd', 'u', 'c', 't', 'i', 'v', 'i', 't', 'y'], ['W', ' ', '*', ' ', 'm', '^', '-', '1', ' ', '*', ' ', 'K', '^', '-', '1'])],
    defaults := [(['a', 'c', 'e', 'n', 't', 'r', 'i', 'c', '_', 'f', 'a', 'c', 't', 'o', 'r'], (0 : Rat)),
                  (['c', 'o', 'm', 'p', 'r', 'e', 's', 's', 'i', 'b', 'i', 'l', 'i', 't', 'y'], (0 : Rat)),
                  (['c', 'r', 'i', 't', 'i', 'c', 'a', 'l', '_', 'p', 'r', 'e', 's', 's', 'u', 'r', 'e'], (1 : Rat)),
                  (['c', 'r', 'i', 't', 'i', 'c', 'a', 'l', '_', 's', 'p', 'e', 'c', 'i', 'f', 'i', 'c', '_', 'v', 'o', 'l', 'u', 'm', 'e'], (1 : Rat)),
                  (['c', 'r', 'i', 't', 'i', 'c', 'a', 'l', '_', 't', 'e', 'm', 'p', 'e', 'r', 'a', 't', 'u', 'r', 'e'], (1 : Rat)),
                  (['d', 'e', 'n', 's', 'i', 't', 'y'], (1 : Rat)),
                  (['m', 'o', 'l', 'a', 'r', '_', 'm', 'a', 's', 's'], (1 : Rat)),
                  (['n', 'o', 'r', 'm', 'a', 'l', '_', 't', 'h', 'e', 'r', 'm', 'a', 'l', '_', 'c', 'o', 'n', 'd', 'u', 'c', 't', 'i', 'v', 'i', 't', 'y'], (1 : Rat)),
                  (['t', 'h', 'e', 'r', 'm', 'a', 'l', '_', 'c', 'o', 'n', 'd', 'u', 'c', 't', 'i', 'v', 'i', 't', 'y'], (1 : Rat)),
                  (['t', 'h', 'e', 'r', 'm', 'a', 'l', '_', 'e', 'x', 'p', 'a', 'n', 's', 'i', 'o', 'n'], (0 : Rat)),
                  (['s', 'p', 'e', 'c', 'i', 'f', 'i', 'c', '_', 'h', 'e', 'a', 't', '_', 'c', 'a', 'p', 'a', 'c', 'i', 't', 'y'], (1 : Rat)),
                  (['v', 'i', 's', 'c', 'o', 's', 'i', 't', 'y'], (1 : Rat))] }
/-- every field has a unit, every unit string is accepted by the grammar (integer powers of known units)
    and is the identity in the SI system -/
theorem FluidComponent_table_ok :
    (FluidComponent.defaults.all fun p => (lookup p.1 FluidComponent.table).isSome) = true ∧
    (FluidComponent.table.all fun p => isOkEq (convertStr env Units.one false p.2 1) 1) = true := by decide +kernel

/-- materials.py class SolidConstants: SI_units and dataclass fields with defaults -/
def SolidConstants : ConstClass :=
  { table := [(['d', 'e', 'n', 's', 'i', 't', 'y'], ['k', 'g', ' ', '*', ' ', 'm', '^', '-', '3']),
               (['b', 'i', 'o', 't', '_', 'c', 'o', 'e', 'f', 'f', 'i', 'c', 'i', 'e', 'n', 't'], ['-']),
               (['d', 'i', 'l', 'a', 't', 'i', 'o', 'n', '_', 'a', 'n', 'g', 'l', 'e'], ['r', 'a', 'd']),
               (['f', 'r', 'a', 'c', 't', 'u', 'r', 'e', '_', 'g', 'a', 'p'], ['m']),
               (['f', 'r', 'a', 'c', 't', 'u', 'r', 'e', '_', 'n', 'o', 'r', 'm', 'a', 'l', '_', 's', 't', 'i', 'f', 'f', 'n', 'e', 's', 's'], ['P', 'a', ' ', '*', ' ', 'm', '^', '-', '1']),
               (['f', 'r', 'a', 'c', 't', 'u', 'r', 'e', '_', 't', 'a', 'n', 'g', 'e', 'n', 't', 'i', 'a', 'l', '_', 's', 't', 'i', 'f', 'f', 'n', 'e', 's', 's'], ['P', 'a', ' ', '*', ' ', 'm', '^', '-', '1']),
               (['f', 'r', 'i', 'c', 't', 'i', 'o', 'n', '_', 'c', 'o', 'e', 'f', 'f', 'i', 'c', 'i', 'e', 'n', 't'], ['-']),
               (['l', 'a', 'm', 'e', '_', 'l', 'a', 'm', 'b', 'd', 'a'], ['P', 'a']),
               (['m', 'a', 'x', 'i', 'm', 'u', 'm', '_', 'e', 'l', 'a', 's', 't', 'i', 'c', '_', 'f', 'r', 'a', 'c', 't', 'u', 'r', 'e', '_', 'o', 'p', 'e', 'n', 'i', 'n', 'g'], ['m']),
               (['n', 'o', 'r', 'm', 'a', 'l', '_', 'p', 'e', 'r', 'm', 'e', 'a', 'b', 'i', 'l', 'i', 't', 'y'], ['m', '^', '2']),
               (['p', 'e', 'r', 'm', 'e', 'a', 'b', 'i', 'l', 'i', 't', 'y'], ['m', '^', '2']),
               (['p', 'o', 'r', 'o', 's', 'i', 't', 'y'], ['-']),
               (['r', 'e', 's', 'i', 'd', 'u', 'a', 'l', '_', 'a', 'p', 'e', 'r', 't', 'u', 'r', 'e'], ['m']),
               (['s', 'h', 'e', 'a', 'r', '_', 'm', 'o', 'd', 'u', 'l', 'u', 's'], ['P', 'a']),
               (['s', 'k', 'i', 'n', '_', 'f', 'a', 'c', 't', 'o', 'r'], ['-']),
               (['s', 'p', 'e', 'c', 'i', 'f', 'i', 'c', '_', 'h', 'e', 'a', 't', '_', 'c', 'a', 'p', 'a', 'c', 'i', 't', 'y'], ['J', ' ', '*', ' ', 'k', 'g', '^', '-', '1', ' ', '*', ' ', 'K', '^', '-', '1']),
               (['s', 'p', 'e', 'c', 'i', 'f', 'i', 'c', '_', 's', 't', 'o', 'r', 'a', 'g', 'e'], ['P', 'a', '^', '-', '1']),
               (['t', 'h', 'e', 'r', 'm', 'a', 'l', '_', 'c', 'o', 'n', 'd', 'u', 'c', 't', 'i', 'v', 'i', 't', 'y'], ['W', ' ', '*', ' ', 'm', '^', '-', '1', ' ', '*', ' ', 'K', '^', '-', '1']),
               (['t', 'h', 'e', 'r', 'm', 'a', 'l', '_', 'e', 'x', 'p', 'a', 'n', 's', 'i', 'o', 'n'], ['K', '^', '-', '1']),
               (['w', 'e', 'l', 'l', '_', 'r', 'a', 'd', 'i', 'u', 's'], ['m'])],
    defaults := [(['b', 'i', 'o', 't', '_', 'c', 'o', 'e', 'f', 'f', 'i', 'c', 'i', 'e', 'n', 't'], (1 : Rat)),
                  (['d', 'e', 'n', 's', 'i', 't', 'y'], (1 : Rat)),
                  (['d', 'i', 'l', 'a', 't', 'i', 'o', 'n', '_', 'a', 'n', 'g', 'l', 'e'], (0 : Rat)),
                  (['f', 'r', 'a', 'c', 't', 'u', 'r', 'e', '_', 'g', 'a', 'p'], (0 : Rat)),
                  (['f', 'r', 'a', 'c', 't', 'u', 'r', 'e', '_', 'n', 'o', 'r', 'm', 'a', 'l', '_', 's', 't', 'i', 'f', 'f', 'n', 'e', 's', 's'], (1 : Rat)),
                  (['f', 'r', 'a', 'c', 't', 'u', 'r', 'e', '_', 't', 'a', 'n', 'g', 'e', 'n', 't', 'i', 'a', 'l', '_', 's', 't', 'i', 'f', 'f', 'n', 'e', 's', 's'], (-1 : Rat)),
                  (['f', 'r', 'i', 'c', 't', 'i', 'o', 'n', '_', 'c', 'o', 'e', 'f', 'f', 'i', 'c', 'i', 'e', 'n', 't'], (1 : Rat)),
                  (['l', 'a', 'm', 'e', '_', 'l', 'a', 'm', 'b', 'd', 'a'], (1 : Rat)),
                  (['m', 'a', 'x', 'i', 'm', 'u', 'm', '_', 'e', 'l', 'a', 's', 't', 'i', 'c', '_', 'f', 'r', 'a', 'c', 't', 'u', 'r', 'e', '_', 'o', 'p', 'e', 'n', 'i', 'n', 'g'], (0 : Rat)),
                  (['n', 'o', 'r', 'm', 'a', 'l', '_', 'p', 'e', 'r', 'm', 'e', 'a', 'b', 'i', 'l', 'i', 't', 'y'], (1 : Rat)),
                  (['p', 'e', 'r', 'm', 'e', 'a', 'b', 'i', 'l', 'i', 't', 'y'], (1 : Rat)),
                  (['p', 'o', 'r', 'o', 's', 'i', 't', 'y'], ((3602879701896397 : Rat) / 36028797018963968)),
                  (['r', 'e', 's', 'i', 'd', 'u', 'a', 'l', '_', 'a', 'p', 'e', 'r', 't', 'u', 'r', 'e'], ((3602879701896397 : Rat) / 36028797018963968)),
                  (['s', 'h', 'e', 'a', 'r', '_', 'm', 'o', 'd', 'u', 'l', 'u', 's'], (1 : Rat)),
                  (['s', 'k', 'i', 'n', '_', 'f', 'a', 'c', 't', 'o', 'r'], (0 : Rat)),
                  (['s', 'p', 'e', 'c', 'i', 'f', 'i', 'c', '_', 'h', 'e', 'a', 't', '_', 'c', 'a', 'p', 'a', 'c', 'i', 't', 'y'], (1 : Rat)),
                  (['s', 'p', 'e', 'c', 'i', 'f', 'i', 'c', '_', 's', 't', 'o', 'r', 'a', 'g', 'e'], (1 : Rat)),
                  (['t', 'h', 'e', 'r', 'm', 'a', 'l', '_', 'c', 'o', 'n', 'd', 'u', 'c', 't', 'i', 'v', 'i', 't', 'y'], (1 : Rat)),
                  (['t', 'h', 'e', 'r', 'm', 'a', 'l', '_', 'e', 'x', 'p', 'a', 'n', 's', 'i', 'o', 'n'], (0 : Rat)),
                  (['w', 'e', 'l', 'l', '_', 'r', 'a', 'd', 'i', 'u', 's'], ((3602879701896397 : Rat) / 36028797018963968))] }
/-- every field has a unit, every unit string is accepted by the grammar (integer powers of known units)
    and is the identity in the SI system -/
theorem SolidConstants_table_ok :
    (SolidConstants.defaults.all fun p => (lookup p.1 SolidConstants.table).isSome) = true ∧
    (SolidConstants.table.all fun p => isOkEq (convertStr env Units.one false p.2 1) 1) = true := by decide +kernel

/-- materials.py class FractureDamageSolidConstants: SI_units and dataclass fields with defaults -/
def FractureDamageSolidConstants : ConstClass :=
  { table := [(['d', 'e', 'n', 's', 'i', 't', 'y'], ['k', 'g', ' ', '*', ' ', 'm', '^', '-', '3']),
               (['b', 'i', 'o', 't', '_', 'c', 'o', 'e', 'f', 'f', 'i', 'c', 'i', 'e', 'n', 't'], ['-']),
               (['d', 'i', 'l', 'a', 't', 'i', 'o', 'n', '_', 'a', 'n', 'g', 'l', 'e'], ['r', 'a', 'd']),
               (['f', 'r', 'a', 'c', 't', 'u', 'r', 'e', '_', 'g', 'a', 'p'], ['m']),
               (['f', 'r', 'a', 'c', 't', 'u', 'r', 'e', '_', 'n', 'o', 'r', 'm', 'a', 'l', '_', 's', 't', 'i', 'f', 'f', 'n', 'e', 's', 's'], ['P', 'a', ' ', '*', ' ', 'm', '^', '-', '1']),
               (['f', 'r', 'a', 'c', 't', 'u', 'r', 'e', '_', 't', 'a', 'n', 'g', 'e', 'n', 't', 'i', 'a', 'l', '_', 's', 't', 'i', 'f', 'f', 'n', 'e', 's', 's'], ['P', 'a', ' ', '*', ' ', 'm', '^', '-', '1']),
               (['f', 'r', 'i', 'c', 't', 'i', 'o', 'n', '_', 'c', 'o', 'e', 'f', 'f', 'i', 'c', 'i', 'e', 'n', 't'], ['-']),
               (['l', 'a', 'm', 'e', '_', 'l', 'a', 'm', 'b', 'd', 'a'], ['P', 'a']),
               (['m', 'a', 'x', 'i', 'm', 'u', 'm', '_', 'e', 'l', 'a', 's', 't', 'i', 'c', '_', 'f', 'r', 'a', 'c', 't', 'u', 'r', 'e', '_', 'o', 'p', 'e', 'n', 'i', 'n', 'g'], ['m']),
               (['n', 'o', 'r', 'm', 'a', 'l', '_', 'p', 'e', 'r', 'm', 'e', 'a', 'b', 'i', 'l', 'i', 't', 'y'], ['m', '^', '2']),
               (['p', 'e', 'r', 'm', 'e', 'a', 'b', 'i', 'l', 'i', 't', 'y'], ['m', '^', '2']),
               (['p', 'o', 'r', 'o', 's', 'i', 't', 'y'], ['-']),
               (['r', 'e', 's', 'i', 'd', 'u', 'a', 'l', '_', 'a', 'p', 'e', 'r', 't', 'u', 'r', 'e'], ['m']),
               (['s', 'h', 'e', 'a', 'r', '_', 'm', 'o', 'd', 'u', 'l', 'u', 's'], ['P', 'a']),
               (['s', 'k', 'i', 'n', '_', 'f', 'a', 'c', 't', 'o', 'r'], ['-']),
               (['s', 'p', 'e', 'c', 'i', 'f', 'i', 'c', '_', 'h', 'e', 'a', 't', '_', 'c', 'a', 'p', 'a', 'c', 'i', 't', 'y'], ['J', ' ', '*', ' ', 'k', 'g', '^', '-', '1', ' ', '*', ' ', 'K', '^', '-', '1']),
               (['s', 'p', 'e', 'c', 'i', 'f', 'i', 'c', '_', 's', 't', 'o', 'r', 'a', 'g', 'e'], ['P', 'a', '^', '-', '1']),
               (['t', 'h', 'e', 'r', 'm', 'a', 'l', '_', 'c', 'o', 'n', 'd', 'u', 'c', 't', 'i', 'v', 'i', 't', 'y'], ['W', ' ', '*', ' ', 'm', '^', '-', '1', ' ', '*', ' ', 'K', '^', '-', '1']),
               (['t', 'h', 'e', 'r', 'm', 'a', 'l', '_', 'e', 'x', 'p', 'a', 'n', 's', 'i', 'o', 'n'], ['K', '^', '-', '1']),
               (['w', 'e', 'l', 'l', '_', 'r', 'a', 'd', 'i', 'u', 's'], ['m']),
               (['i', 'n', 'i', 't', 'i', 'a', 'l', '_', 'd', 'i', 'l', 'a', 't', 'i', 'o', 'n', '_', 'd', 'a', 'm', 'a', 'g', 'e'], ['-']),
               (['i', 'n', 'i', 't', 'i', 'a', 'l', '_', 'f', 'r', 'i', 'c', 't', 'i', 'o', 'n', '_', 'd', 'a', 'm', 'a', 'g', 'e'], ['-']),
               (['d', 'i', 'l', 'a', 't', 'i', 'o', 'n', '_', 'd', 'a', 'm', 'a', 'g', 'e', '_', 'd', 'e', 'c', 'a', 'y'], ['-']),
               (['f', 'r', 'i', 'c', 't', 'i', 'o', 'n', '_', 'd', 'a', 'm', 'a', 'g', 'e', '_', 'd', 'e', 'c', 'a', 'y'], ['-'])],
    defaults := [(['b', 'i', 'o', 't', '_', 'c', 'o', 'e', 'f', 'f', 'i', 'c', 'i', 'e', 'n', 't'], (1 : Rat)),
                  (['d', 'e', 'n', 's', 'i', 't', 'y'], (1 : Rat)),
                  (['d', 'i', 'l', 'a', 't', 'i', 'o', 'n', '_', 'a', 'n', 'g', 'l', 'e'], (0 : Rat)),
                  (['f', 'r', 'a', 'c', 't', 'u', 'r', 'e', '_', 'g', 'a', 'p'], (0 : Rat)),
                  (['f', 'r', 'a', 'c', 't', 'u', 'r', 'e', '_', 'n', 'o', 'r', 'm', 'a', 'l', '_', 's', 't', 'i', 'f', 'f', 'n', 'e', 's', 's'], (1 : Rat)),
                  (['f', 'r', 'a', 'c', 't', 'u', 'r', 'e', '_', 't', 'a', 'n', 'g', 'e', 'n', 't', 'i', 'a', 'l', '_', 's', 't', 'i', 'f', 'f', 'n', 'e', 's', 's'], (-1 : Rat)),
                  (['f', 'r', 'i', 'c', 't', 'i', 'o', 'n', '_', 'c', 'o', 'e', 'f', 'f', 'i', 'c', 'i', 'e', 'n', 't'], (1 : Rat)),
                  (['l', 'a', 'm', 'e', '_', 'l', 'a', 'm', 'b', 'd', 'a'], (1 : Rat)),
                  (['m', 'a', 'x', 'i', 'm', 'u', 'm', '_', 'e', 'l', 'a', 's', 't', 'i', 'c', '_', 'f', 'r', 'a', 'c', 't', 'u', 'r', 'e', '_', 'o', 'p', 'e', 'n', 'i', 'n', 'g'], (0 : Rat)),
                  (['n', 'o', 'r', 'm', 'a', 'l', '_', 'p', 'e', 'r', 'm', 'e', 'a', 'b', 'i', 'l', 'i', 't', 'y'], (1 : Rat)),
                  (['p', 'e', 'r', 'm', 'e', 'a', 'b', 'i', 'l', 'i', 't', 'y'], (1 : Rat)),
                  (['p', 'o', 'r', 'o', 's', 'i', 't', 'y'], ((3602879701896397 : Rat) / 36028797018963968)),
                  (['r', 'e', 's', 'i', 'd', 'u', 'a', 'l', '_', 'a', 'p', 'e', 'r', 't', 'u', 'r', 'e'], ((3602879701896397 : Rat) / 36028797018963968)),
                  (['s', 'h', 'e', 'a', 'r', '_', 'm', 'o', 'd', 'u', 'l', 'u', 's'], (1 : Rat)),
                  (['s', 'k', 'i', 'n', '_', 'f', 'a', 'c', 't', 'o', 'r'], (0 : Rat)),
                  (['s', 'p', 'e', 'c', 'i', 'f', 'i', 'c', '_', 'h', 'e', 'a', 't', '_', 'c', 'a', 'p', 'a', 'c', 'i', 't', 'y'], (1 : Rat)),
                  (['s', 'p', 'e', 'c', 'i', 'f', 'i', 'c', '_', 's', 't', 'o', 'r', 'a', 'g', 'e'], (1 : Rat)),
                  (['t', 'h', 'e', 'r', 'm', 'a', 'l', '_', 'c', 'o', 'n', 'd', 'u', 'c', 't', 'i', 'v', 'i', 't', 'y'], (1 : Rat)),
                  (['t', 'h', 'e', 'r', 'm', 'a', 'l', '_', 'e', 'x', 'p', 'a', 'n', 's', 'i', 'o', 'n'], (0 : Rat)),
                  (['w', 'e', 'l', 'l', '_', 'r', 'a', 'd', 'i', 'u', 's'], ((3602879701896397 : Rat) / 36028797018963968)),
                  (['i', 'n', 'i', 't', 'i', 'a', 'l', '_', 'f', 'r', 'i', 'c', 't', 'i', 'o', 'n', '_', 'd', 'a', 'm', 'a', 'g', 'e'], (1 : Rat)),
                  (['f', 'r', 'i', 'c', 't', 'i', 'o', 'n', '_', 'd', 'a', 'm', 'a', 'g', 'e', '_', 'd', 'e', 'c', 'a', 'y'], (0 : Rat)),
                  (['i', 'n', 'i', 't', 'i', 'a', 'l', '_', 'd', 'i', 'l', 'a', 't', 'i', 'o', 'n', '_', 'd', 'a', 'm', 'a', 'g', 'e'], (1 : Rat)),
                  (['d', 'i', 'l', 'a', 't', 'i', 'o', 'n', '_', 'd', 'a', 'm', 'a', 'g', 'e', '_', 'd', 'e', 'c', 'a', 'y'], (0 : Rat))] }
/-- every field has a unit, every unit string is accepted by the grammar (integer powers of known units)
    and is the identity in the SI system -/
theorem FractureDamageSolidConstants_table_ok :
    (FractureDamageSolidConstants.defaults.all fun p => (lookup p.1 FractureDamageSolidConstants.table).isSome) = true ∧
    (FractureDamageSolidConstants.table.all fun p => isOkEq (convertStr env Units.one false p.2 1) 1) = true := by decide +kernel

/-- materials.py class NumericalConstants: SI_units and dataclass fields with defaults -/
def NumericalConstants : ConstClass :=
  { table := [(['c', 'h', 'a', 'r', 'a', 'c', 't', 'e', 'r', 'i', 's', 't', 'i', 'c', '_', 'd', 'i', 's', 'p', 'l', 'a', 'c', 'e', 'm', 'e', 'n', 't'], ['m']),
               (['c', 'h', 'a', 'r', 'a', 'c', 't', 'e', 'r', 'i', 's', 't', 'i', 'c', '_', 'c', 'o', 'n', 't', 'a', 'c', 't', '_', 't', 'r', 'a', 'c', 't', 'i', 'o', 'n'], ['P', 'a']),
               (['o', 'p', 'e', 'n', '_', 's', 't', 'a', 't', 'e', '_', 't', 'o', 'l', 'e', 'r', 'a', 'n', 'c', 'e'], ['-'])],
    defaults := [(['c', 'h', 'a', 'r', 'a', 'c', 't', 'e', 'r', 'i', 's', 't', 'i', 'c', '_', 'c', 'o', 'n', 't', 'a', 'c', 't', '_', 't', 'r', 'a', 'c', 't', 'i', 'o', 'n'], (1 : Rat)),
                  (['c', 'h', 'a', 'r', 'a', 'c', 't', 'e', 'r', 'i', 's', 't', 'i', 'c', '_', 'd', 'i', 's', 'p', 'l', 'a', 'c', 'e', 'm', 'e', 'n', 't'], (1 : Rat)),
                  (['o', 'p', 'e', 'n', '_', 's', 't', 'a', 't', 'e', '_', 't', 'o', 'l', 'e', 'r', 'a', 'n', 'c', 'e'], ((7737125245533627 : Rat) / 77371252455336267181195264))] }
/-- every field has a unit, every unit string is accepted by the grammar (integer powers of known units)
    and is the identity in the SI system -/
theorem NumericalConstants_table_ok :
    (NumericalConstants.defaults.all fun p => (lookup p.1 NumericalConstants.table).isSome) = true ∧
    (NumericalConstants.table.all fun p => isOkEq (convertStr env Units.one false p.2 1) 1) = true := by decide +kernel

/-- materials.py class ReferenceVariableValues: SI_units and dataclass fields with defaults -/
def ReferenceVariableValues : ConstClass :=
  { table := [(['p', 'r', 'e', 's', 's', 'u', 'r', 'e'], ['P', 'a']),
               (['t', 'e', 'm', 'p', 'e', 'r', 'a', 't', 'u', 'r', 'e'], ['K'])],
    defaults := [(['p', 'r', 'e', 's', 's', 'u', 'r', 'e'], (0 : Rat)),
                  (['t', 'e', 'm', 'p', 'e', 'r', 'a', 't', 'u', 'r', 'e'], (0 : Rat))] }
/-- every field has a unit, every unit string is accepted by the grammar (integer powers of known units)
    and is the identity in the SI system -/
theorem ReferenceVariableValues_table_ok :
    (ReferenceVariableValues.defaults.all fun p => (lookup p.1 ReferenceVariableValues.table).isSome) = true ∧
    (ReferenceVariableValues.table.all fun p => isOkEq (convertStr env Units.one false p.2 1) 1) = true := by decide +kernel

def classes : List (Str × ConstClass) := [(['F', 'l', 'u', 'i', 'd', 'C', 'o', 'm', 'p', 'o', 'n', 'e', 'n', 't'], FluidComponent), (['S', 'o', 'l', 'i', 'd', 'C', 'o', 'n', 's', 't', 'a', 'n', 't', 's'], SolidConstants), (['F', 'r', 'a', 'c', 't', 'u', 'r', 'e', 'D', 'a', 'm', 'a', 'g', 'e', 'S', 'o', 'l', 'i', 'd', 'C', 'o', 'n', 's', 't', 'a', 'n', 't', 's'], FractureDamageSolidConstants), (['N', 'u', 'm', 'e', 'r', 'i', 'c', 'a', 'l', 'C', 'o', 'n', 's', 't', 'a', 'n', 't', 's'], NumericalConstants), (['R', 'e', 'f', 'e', 'r', 'e', 'n', 'c', 'e', 'V', 'a', 'r', 'i', 'a', 'b', 'l', 'e', 'V', 'a', 'l', 'u', 'e', 's'], ReferenceVariableValues)]

end PorepyVerif.C43.Gen
