/- C43 line-protocol driver: `lake env lean --run PorepyVerif/C43/Driver.lean`
   state = the current `Units` object.  Exact rational answers wherever every exponent string is an
   integer; otherwise (`Err.fractional`) the same traversal (`factorParts`) is evaluated in binary64
   and the answers are sent as IEEE bit patterns ("bits") — correspondence only, no theorem. -/
import PorepyVerif.Common.Wire
import PorepyVerif.C43.Model
import PorepyVerif.C43.Generated
open Lean PV PorepyVerif.C43

def errName : Err → String
  | .valueError => "ValueError" | .attributeError => "AttributeError" | .typeError => "TypeError"
  | .notImplementedError => "NotImplementedError" | .fractional => "fractional"

def ratToFloat (q : Rat) : Float := Float.ofInt q.num / Float.ofNat q.den

def factorF (u : Units) (tok : Str) : Except Err Float :=
  match factorParts Gen.env u tok with
  | .error e => .error e
  | .ok (x, none) => .ok (ratToFloat x)
  | .ok (x, some q) => .ok (Float.pow (ratToFloat x) (ratToFloat q))

def convertToksF (u : Units) (toSi : Bool) : List Str → Float → Except Err Float
  | [], v => .ok v
  | t :: ts, v =>
    match factorF u t with
    | .error e => .error e
    | .ok f => convertToksF u toSi ts (if toSi then v * f else v / f)

def convertStrF (u : Units) (toSi : Bool) (s : Str) (v : Float) : Except Err Float :=
  let s' := stripSpaces s
  if isDimless s' then .ok v else convertToksF u toSi (splitOn '*' s') v

def mapE {α β : Type} (f : α → Except Err β) : List α → Except Err (List β)
  | [] => .ok []
  | a :: r => match f a with
    | .error e => .error e
    | .ok b => match mapE f r with
      | .error e => .error e
      | .ok bs => .ok (b :: bs)

def jKw (j : Json) : R (Str × KwVal) := do
  let l ← jList pure j
  match l with
  | [k, v] =>
    let ks ← jStr k
    if v.isNull then pure (ks.toList, KwVal.bad) else pure (ks.toList, KwVal.num (← jRat v))
  | _ => throw "kwarg must be [key, value]"

def jKv (j : Json) : R (Str × Rat) := do
  let l ← jList pure j
  match l with
  | [k, v] => pure ((← jStr k).toList, ← jRat v)
  | _ => throw "entry must be [key, value]"

def ofUnits (u : Units) : Json := ofRats (Base.all.map u.get)
def ofKvs (l : List (Str × Rat)) : Json := ofList (fun p => Json.arr #[Json.str (String.ofList p.1), ofRat p.2]) l
def ofDims (d : Option (Base → Rat)) : Json :=
  match d with
  | none => Json.null
  | some f => ofRats (Base.all.map f)

def mkUnits (kw : List (Str × KwVal)) : Except Err Units := Units.ofKwargs Gen.allowedKeys Gen.defaults kw

def step (u : Units) (j : Json) : R (Units × Json) := do
  let op ← fStr j "op"
  match op with
  | "units" =>
    let kw ← (field j "kwargs" >>= jList jKw)
    match mkUnits kw with
    | .error e => pure (u, err (errName e))
    | .ok u' => pure (u', obj [("units", ofUnits u')])
  | "attr" =>
    let n ← fStr j "name"
    match Gen.env.attr u n.toList with
    | none => pure (u, err "AttributeError")
    | some .other => pure (u, obj [("other", Json.bool true)])
    | some (.num x) => pure (u, obj [("val", ofRat x)])
  | "convert" =>
    let s := (← fStr j "units").toList
    let vals ← fRats j "values"
    let toSi ← fBool j "to_si"
    let dims := ofDims (strDims Gen.env s)
    -- python raises before touching the value: with no values the loop still runs once (scalar 1)
    match mapE (convertStr Gen.env u toSi s) vals with
    | .ok ws => pure (u, obj [("vals", ofRats ws), ("dims", dims)])
    | .error .fractional =>
      match mapE (fun v => convertStrF u toSi s (ratToFloat v)) vals with
      | .ok ws => pure (u, obj [("bits", ofNats (ws.map (fun x => x.toBits.toNat))), ("dims", dims)])
      | .error e => pure (u, obj [("err", Json.str (errName e)), ("dims", dims)])
    | .error e => pure (u, obj [("err", Json.str (errName e)), ("dims", dims)])
  | "constants" =>
    let cn ← fStr j "cls"
    let kw ← (field j "kwargs" >>= jList jKv)
    let chain ← (field j "chain" >>= jList (jList jKw))
    match lookup cn.toList Gen.classes with
    | none => throw s!"unknown class {cn}"
    | some cls =>
      match Constants.new Gen.env cls u kw with
      | .error e => pure (u, err (errName e))
      | .ok c0 =>
        let rec go (c : Constants) (acc : List Json) : List (List (Str × KwVal)) → Json
          | [] => Json.arr acc.reverse.toArray
          | kwu :: rest =>
            match mkUnits kwu with
            | .error e => Json.arr ((err (errName e)) :: acc).reverse.toArray
            | .ok u' =>
              match c.toUnits Gen.env u' with
              | .error e => Json.arr ((err (errName e)) :: acc).reverse.toArray
              | .ok c' => go c' (obj [("vals", ofKvs c'.vals), ("si", ofKvs c'.si)] :: acc) rest
        pure (u, go c0 [obj [("vals", ofKvs c0.vals), ("si", ofKvs c0.si)]] chain)
  | _ => throw s!"unknown op {op}"

def main : IO Unit := runDriver Units.one step
