/-
C43 — helper lemmas about the model (generic in the environment `Env`).  Core Lean only: the
rational power `q ^ (n : Int)` of core Lean is used throughout, with the lemmas `Rat.zpow_*`.
-/
import PorepyVerif.C43.Model

namespace PorepyVerif.C43

/-! ## rationals -/

theorem Rat.ne_zero_of_pos' {a : Rat} (h : 0 < a) : a ≠ 0 := Rat.ne_of_gt h

theorem rat_div_pos {a b : Rat} (ha : 0 < a) (hb : 0 < b) : 0 < a / b := by
  rw [Rat.div_def]; exact Rat.mul_pos ha (Rat.inv_pos.mpr hb)

theorem rat_inv_one : (1 : Rat)⁻¹ = 1 := by decide +kernel

theorem rat_mul_pow (a b : Rat) (k : Nat) : (a * b) ^ k = a ^ k * b ^ k := by
  induction k with
  | zero => simp
  | succ k ih => rw [Rat.pow_succ, Rat.pow_succ, Rat.pow_succ, ih]; grind

theorem rat_mul_zpow (a b : Rat) (n : Int) : (a * b) ^ n = a ^ n * b ^ n := by
  cases n with
  | ofNat k =>
    show (a * b) ^ ((k : Nat) : Int) = a ^ ((k : Nat) : Int) * b ^ ((k : Nat) : Int)
    rw [Rat.zpow_natCast, Rat.zpow_natCast, Rat.zpow_natCast, rat_mul_pow]
  | negSucc k =>
    have h : Int.negSucc k = -((k + 1 : Nat) : Int) := rfl
    rw [h, Rat.zpow_neg, Rat.zpow_neg, Rat.zpow_neg, Rat.zpow_natCast, Rat.zpow_natCast,
      Rat.zpow_natCast, rat_mul_pow, Rat.inv_mul_rev, Rat.mul_comm]

theorem rat_inv_pow (a : Rat) (k : Nat) : (a⁻¹) ^ k = (a ^ k)⁻¹ := by
  induction k with
  | zero => simp [rat_inv_one]
  | succ k ih => rw [Rat.pow_succ, Rat.pow_succ, ih, Rat.inv_mul_rev, Rat.mul_comm]

theorem rat_inv_zpow (a : Rat) (n : Int) : (a⁻¹) ^ n = (a ^ n)⁻¹ := by
  cases n with
  | ofNat k =>
    show (a⁻¹) ^ ((k : Nat) : Int) = (a ^ ((k : Nat) : Int))⁻¹
    rw [Rat.zpow_natCast, Rat.zpow_natCast, rat_inv_pow]
  | negSucc k =>
    have h : Int.negSucc k = -((k + 1 : Nat) : Int) := rfl
    rw [h, Rat.zpow_neg, Rat.zpow_neg, Rat.zpow_natCast, Rat.zpow_natCast, rat_inv_pow]

theorem rat_zpow_ne_zero {a : Rat} (ha : a ≠ 0) (n : Int) : a ^ n ≠ 0 := by
  intro h
  have h1 : a ^ n * a ^ (-n) = 1 := by
    rw [← Rat.zpow_add ha, Int.add_right_neg, Rat.zpow_zero]
  rw [h, Rat.zero_mul] at h1
  exact absurd h1 (by decide)

theorem rat_zpow_mul_nat {a : Rat} (ha : a ≠ 0) (m : Int) (k : Nat) :
    (a ^ m) ^ ((k : Nat) : Int) = a ^ (m * (k : Int)) := by
  induction k with
  | zero => simp
  | succ k ih =>
    rw [Rat.zpow_natCast] at ih ⊢
    rw [Rat.pow_succ, ih, Int.natCast_succ, Int.mul_add, Int.mul_one, Rat.zpow_add ha]

theorem rat_zpow_mul {a : Rat} (ha : a ≠ 0) (m n : Int) : (a ^ m) ^ n = a ^ (m * n) := by
  cases n with
  | ofNat k => exact rat_zpow_mul_nat ha m k
  | negSucc k =>
    have h : Int.negSucc k = -((k + 1 : Nat) : Int) := rfl
    rw [h, Rat.zpow_neg, rat_zpow_mul_nat ha, Int.mul_neg, Rat.zpow_neg]

/-! ## python `str.split` -/

theorem splitOn_ne_nil (c : Char) (s : Str) : splitOn c s ≠ [] := by
  induction s with
  | nil => simp [splitOn]
  | cons x xs ih =>
    simp only [splitOn]
    split
    · simp
    · split <;> simp

/-- splitting a string glued with the separator = concatenating the splittings -/
theorem splitOn_append (c : Char) (a b : Str) :
    splitOn c (a ++ c :: b) = splitOn c a ++ splitOn c b := by
  induction a with
  | nil => simp [splitOn]
  | cons x xs ih =>
    simp only [List.cons_append, splitOn]
    split
    · simp [ih]
    · rw [ih]
      cases h : splitOn c xs with
      | nil => exact absurd h (splitOn_ne_nil c xs)
      | cons t ts => simp

theorem stripSpaces_append (a b : Str) : stripSpaces (a ++ b) = stripSpaces a ++ stripSpaces b := by
  simp [stripSpaces]

theorem stripSpaces_star (a b : Str) :
    stripSpaces (a ++ '*' :: b) = stripSpaces a ++ '*' :: stripSpaces b := by
  simp [stripSpaces]

theorem not_dimless_of_star (a b : Str) : isDimless (a ++ '*' :: b) = false := by
  cases a with
  | nil => simp [isDimless]
  | cons x xs =>
    cases xs with
    | nil =>
      simp only [isDimless, List.cons_append, List.nil_append]
      simp
    | cons y ys =>
      simp [isDimless]

/-! ## what the conversion loop computes -/

theorem prod_append (a b : List Rat) : prod (a ++ b) = prod a * prod b := by
  induction a with
  | nil => simp [prod]
  | cons x xs ih => simp only [List.cons_append, prod, ih]; grind

theorem prod_pos {l : List Rat} (h : ∀ x ∈ l, 0 < x) : 0 < prod l := by
  induction l with
  | nil => simp only [prod]; decide
  | cons x xs ih =>
    simp only [prod]
    exact Rat.mul_pos (h x (List.mem_cons_self)) (ih (fun y hy => h y (List.mem_cons_of_mem _ hy)))

theorem convertToks_of_factors (env : Env) (u : Units) (toSi : Bool) (ts : List Str) (fs : List Rat)
    (v : Rat) (h : factors env u ts = .ok fs) :
    convertToks env u toSi ts v = .ok (if toSi then v * prod fs else v / prod fs) := by
  induction ts generalizing fs v with
  | nil =>
    simp only [factors] at h
    cases h
    cases toSi <;> simp [convertToks, prod, Rat.div_def, rat_inv_one]
  | cons t ts ih =>
    simp only [factors] at h
    cases hf : factorOf env u t with
    | error e => rw [hf] at h; cases h
    | ok f =>
      rw [hf] at h
      cases hr : factors env u ts with
      | error e => rw [hr] at h; cases h
      | ok fs' =>
        rw [hr] at h
        cases h
        simp only [convertToks, hf]
        rw [ih fs' _ hr]
        cases toSi
        · simp only [prod, Bool.false_eq_true, if_false, Rat.div_def, Rat.inv_mul_rev]; congr 1; grind
        · simp only [prod, if_true]; congr 1; grind

theorem convertToks_of_factors_error (env : Env) (u : Units) (toSi : Bool) (ts : List Str) (e : Err)
    (v : Rat) (h : factors env u ts = .error e) : convertToks env u toSi ts v = .error e := by
  induction ts generalizing v with
  | nil => simp [factors] at h
  | cons t ts ih =>
    simp only [factors] at h
    cases hf : factorOf env u t with
    | error e' => rw [hf] at h; cases h; simp [convertToks, hf]
    | ok f =>
      rw [hf] at h
      cases hr : factors env u ts with
      | error e' => rw [hr] at h; cases h; simp only [convertToks, hf]; exact ih _ hr
      | ok fs' => rw [hr] at h; cases h

/-- a successful conversion has a list of factors -/
theorem factors_of_convertToks (env : Env) (u : Units) (toSi : Bool) (ts : List Str) (v w : Rat)
    (h : convertToks env u toSi ts v = .ok w) : ∃ fs, factors env u ts = .ok fs := by
  cases hr : factors env u ts with
  | ok fs => exact ⟨fs, rfl⟩
  | error e => rw [convertToks_of_factors_error env u toSi ts e v hr] at h; cases h

/-- the loop over a concatenated token list is the composition of the loops (first error wins) -/
theorem convertToks_append (env : Env) (u : Units) (toSi : Bool) (a b : List Str) (v : Rat) :
    convertToks env u toSi (a ++ b) v =
      (convertToks env u toSi a v >>= fun w => convertToks env u toSi b w) := by
  induction a generalizing v with
  | nil => rfl
  | cons t ts ih =>
    simp only [List.cons_append, convertToks]
    cases factorOf env u t with
    | error e => rfl
    | ok f => exact ih _

/-! ## positivity -/

theorem zpow_pos' {a : Rat} (h : 0 < a) (n : Int) : 0 < a ^ n := Rat.zpow_pos h

theorem eval_pos (u : Units) (hu : u.Pos) (e : UExpr) (he : e.constsPos = true) : 0 < e.eval u := by
  induction e with
  | base b => exact hu b
  | const q => simpa [UExpr.constsPos, UExpr.eval] using he
  | mul a b iha ihb =>
    simp only [UExpr.constsPos, Bool.and_eq_true] at he
    exact Rat.mul_pos (iha he.1) (ihb he.2)
  | div a b iha ihb =>
    simp only [UExpr.constsPos, Bool.and_eq_true] at he
    exact rat_div_pos (iha he.1) (ihb he.2)
  | pow a n iha =>
    simp only [UExpr.constsPos] at he
    exact Rat.zpow_pos (iha he)

theorem lookup_mem {α : Type} (k : Str) (l : List (Str × α)) (v : α) (h : lookup k l = some v) :
    (k, v) ∈ l := by
  induction l with
  | nil => simp [lookup] at h
  | cons p r ih =>
    obtain ⟨k', v'⟩ := p
    simp only [lookup] at h
    split at h
    · next hk => cases h; subst hk; exact List.mem_cons_self
    · exact List.mem_cons_of_mem _ (ih h)

theorem attr_pos (env : Env) (henv : env.constsPos = true) (u : Units) (hu : u.Pos) (n : Str) (x : Rat)
    (h : env.attr u n = some (.num x)) : 0 < x := by
  unfold Env.attr at h
  split at h
  · cases h; exact hu _
  · split at h
    · next e he =>
      cases h
      have hm := lookup_mem n env.derived e he
      have : e.constsPos = true := by
        have := List.all_eq_true.mp henv (n, e) hm
        simpa using this
      exact eval_pos u hu e this
    · split at h <;> cases h

theorem factorOf_pos (env : Env) (henv : env.constsPos = true) (u : Units) (hu : u.Pos) (t : Str)
    (f : Rat) (h : factorOf env u t = .ok f) : 0 < f := by
  unfold factorOf at h
  split at h
  · split at h
    · next sym pw _ =>
      split at h
      · cases h
      · next a ha =>
        split at h
        · cases h
        · next q _ =>
          cases a with
          | other => cases h
          | num x =>
            simp only [powRat] at h
            split at h
            · cases h; exact Rat.zpow_pos (attr_pos env henv u hu sym x ha)
            · cases h
    · cases h
  · split at h
    · cases h
    · cases h
    · next x hx => cases h; exact attr_pos env henv u hu t _ hx

theorem factors_pos (env : Env) (henv : env.constsPos = true) (u : Units) (hu : u.Pos) (ts : List Str)
    (fs : List Rat) (h : factors env u ts = .ok fs) : ∀ x ∈ fs, 0 < x := by
  induction ts generalizing fs with
  | nil => simp only [factors] at h; cases h; simp
  | cons t ts ih =>
    simp only [factors] at h
    cases hf : factorOf env u t with
    | error e => rw [hf] at h; cases h
    | ok f =>
      rw [hf] at h
      cases hr : factors env u ts with
      | error e => rw [hr] at h; cases h
      | ok fs' =>
        rw [hr] at h; cases h
        intro x hx
        rcases List.mem_cons.mp hx with rfl | hx
        · exact factorOf_pos env henv u hu t _ hf
        · exact ih fs' hr x hx

/-! ## whether a unit string is accepted does not depend on the scalings -/

theorem attr_shape (env : Env) (u u' : Units) (n : Str) :
    (env.attr u n = none ↔ env.attr u' n = none) ∧
    (env.attr u n = some .other ↔ env.attr u' n = some .other) := by
  unfold Env.attr
  cases baseOfName n with
  | some b => simp
  | none =>
    cases lookup n env.derived with
    | some e => simp
    | none => simp

theorem factorOf_ok_indep (env : Env) (u u' : Units) (t : Str) (f : Rat)
    (h : factorOf env u t = .ok f) : ∃ f', factorOf env u' t = .ok f' := by
  have hs := attr_shape env u u'
  unfold factorOf at h ⊢
  split at h
  · next hc =>
    rw [if_pos hc]
    split at h
    · next sym pw hsp =>
      cases ha : env.attr u sym with
      | none => rw [ha] at h; cases h
      | some a =>
        rw [ha] at h
        cases hq : parseFloat pw with
        | none => rw [hq] at h; cases h
        | some q =>
          rw [hq] at h
          cases a with
          | other => cases h
          | num x =>
            simp only [powRat] at h
            cases ha' : env.attr u' sym with
            | none => exact absurd ((hs sym).1.mpr ha') (by rw [ha]; simp)
            | some a' =>
              cases a' with
              | other => exact absurd ((hs sym).2.mpr ha') (by rw [ha]; simp)
              | num x' =>
                simp only [powRat]
                split at h
                · next hd => rw [if_pos hd]; exact ⟨_, rfl⟩
                · cases h
    · cases h
  · next hc =>
    rw [if_neg hc]
    cases ha : env.attr u t with
    | none => rw [ha] at h; cases h
    | some a =>
      rw [ha] at h
      cases a with
      | other => cases h
      | num x =>
        cases ha' : env.attr u' t with
        | none => exact absurd ((hs t).1.mpr ha') (by rw [ha]; simp)
        | some a' =>
          cases a' with
          | other => exact absurd ((hs t).2.mpr ha') (by rw [ha]; simp)
          | num x' => exact ⟨_, rfl⟩

theorem factors_ok_indep (env : Env) (u u' : Units) (ts : List Str) (fs : List Rat)
    (h : factors env u ts = .ok fs) : ∃ fs', factors env u' ts = .ok fs' := by
  induction ts generalizing fs with
  | nil => exact ⟨[], rfl⟩
  | cons t ts ih =>
    simp only [factors] at h ⊢
    cases hf : factorOf env u t with
    | error e => rw [hf] at h; cases h
    | ok f =>
      rw [hf] at h
      cases hr : factors env u ts with
      | error e => rw [hr] at h; cases h
      | ok fs0 =>
        obtain ⟨f', hf'⟩ := factorOf_ok_indep env u u' t f hf
        obtain ⟨fs', hfs'⟩ := ih fs0 hr
        rw [hf', hfs']; exact ⟨_, rfl⟩

/-! ## every derived-unit formula is a coefficient times a monomial in the base units -/

theorem rat_one_zpow (n : Int) : (1 : Rat) ^ n = 1 := by
  have h : ((1 : Rat) * 1) ^ n = (1 : Rat) ^ n * (1 : Rat) ^ n := rat_mul_zpow 1 1 n
  rw [Rat.mul_one] at h
  have hne : (1 : Rat) ^ n ≠ 0 := rat_zpow_ne_zero (by decide) n
  have h2 : (1 : Rat) ^ n * 1 = (1 : Rat) ^ n * (1 : Rat) ^ n := by rw [Rat.mul_one]; exact h
  have := Rat.mul_div_cancel (a := (1 : Rat)) hne
  grind

theorem Units.Pos.ne {u : Units} (hu : u.Pos) (b : Base) : u.get b ≠ 0 := Rat.ne_of_gt (hu b)

theorem monomial_zero (u : Units) : monomial u (fun _ => 0) = 1 := by
  simp [monomial]

theorem monomial_single (u : Units) (b : Base) :
    monomial u (fun c => if b = c then 1 else 0) = u.get b := by
  cases b <;> simp [monomial, Units.get]

theorem monomial_add (u : Units) (hu : u.Pos) (d e : Base → Int) :
    monomial u (fun b => d b + e b) = monomial u d * monomial u e := by
  have hm := hu.ne .m; have hs := hu.ne .s; have hk := hu.ne .kg
  have hK := hu.ne .K; have hmol := hu.ne .mol; have hr := hu.ne .rad
  simp only [Units.get] at hm hs hk hK hmol hr
  simp only [monomial]
  rw [Rat.zpow_add hm, Rat.zpow_add hs, Rat.zpow_add hk, Rat.zpow_add hK, Rat.zpow_add hmol,
    Rat.zpow_add hr]
  grind

theorem monomial_neg (u : Units) (d : Base → Int) :
    monomial u (fun b => - d b) = (monomial u d)⁻¹ := by
  simp only [monomial, Rat.zpow_neg, Rat.inv_mul_rev]
  grind

theorem monomial_sub (u : Units) (hu : u.Pos) (d e : Base → Int) :
    monomial u (fun b => d b - e b) = monomial u d / monomial u e := by
  have h : (fun b => d b - e b) = (fun b => d b + (fun c => - e c) b) := by
    funext b; exact Int.sub_eq_add_neg
  rw [h, monomial_add u hu, monomial_neg, Rat.div_def]

theorem monomial_zpow (u : Units) (hu : u.Pos) (d : Base → Int) (n : Int) :
    (monomial u d) ^ n = monomial u (fun b => n * d b) := by
  have hm := hu.ne .m; have hs := hu.ne .s; have hk := hu.ne .kg
  have hK := hu.ne .K; have hmol := hu.ne .mol; have hr := hu.ne .rad
  simp only [Units.get] at hm hs hk hK hmol hr
  simp only [monomial, rat_mul_zpow, rat_zpow_mul hm, rat_zpow_mul hs, rat_zpow_mul hk,
    rat_zpow_mul hK, rat_zpow_mul hmol, rat_zpow_mul hr, Int.mul_comm n]

theorem get_one (b : Base) : Units.one.get b = 1 := by cases b <;> rfl

/-- `eval e u = coeff e · Π_b u_b ^ dim_b e` -/
theorem eval_eq_coeff_mul_monomial (u : Units) (hu : u.Pos) (e : UExpr) :
    e.eval u = e.coeff * monomial u (fun b => e.dim b) := by
  induction e with
  | base b =>
    simp only [UExpr.eval, UExpr.coeff, UExpr.dim, get_one, Rat.one_mul]
    exact (monomial_single u b).symm
  | const q => simp [UExpr.eval, UExpr.coeff, UExpr.dim, monomial_zero]
  | mul a b iha ihb =>
    simp only [UExpr.eval, UExpr.coeff, UExpr.dim] at *
    rw [monomial_add u hu, iha, ihb]; grind
  | div a b iha ihb =>
    simp only [UExpr.eval, UExpr.coeff, UExpr.dim] at *
    rw [monomial_sub u hu, iha, ihb]
    simp only [Rat.div_def, Rat.inv_mul_rev]; grind
  | pow a n iha =>
    simp only [UExpr.eval, UExpr.coeff, UExpr.dim] at *
    rw [iha, rat_mul_zpow, monomial_zpow u hu]

/-! ## evaluating `factorOf` / `factors` on concrete tokens (side conditions are closed terms) -/

theorem factorOf_plain (env : Env) (u : Units) (tok : Str) (x : Rat) (h1 : ('^' ∈ tok) = False)
    (h2 : env.attr u tok = some (.num x)) : factorOf env u tok = .ok x := by
  unfold factorOf
  rw [if_neg (by rw [h1]; exact id), h2]

theorem factorOf_pow (env : Env) (u : Units) (tok sym pw : Str) (x q : Rat)
    (h1 : ('^' ∈ tok) = True) (hs : splitOn '^' tok = [sym, pw])
    (h2 : env.attr u sym = some (.num x)) (h3 : parseFloat pw = some q) (h4 : q.den = 1) :
    factorOf env u tok = .ok (x ^ q.num) := by
  unfold factorOf
  rw [if_pos (by rw [h1]; trivial), hs]
  simp only [h2, h3, powRat, if_pos h4]

theorem factors_cons (env : Env) (u : Units) (t : Str) (ts : List Str) (f : Rat) (fs : List Rat)
    (h1 : factorOf env u t = .ok f) (h2 : factors env u ts = .ok fs) :
    factors env u (t :: ts) = .ok (f :: fs) := by
  simp [factors, h1, h2]

/-- `convert_units` on a string that is not one of the dimensionless forms -/
theorem convertStr_of_factors (env : Env) (u : Units) (toSi : Bool) (s : Str) (ts : List Str)
    (fs : List Rat) (v : Rat) (hd : isDimless (stripSpaces s) = false)
    (ht : splitOn '*' (stripSpaces s) = ts) (hf : factors env u ts = .ok fs) :
    convertStr env u toSi s v = .ok (if toSi then v * prod fs else v / prod fs) := by
  unfold convertStr
  simp only [hd, ht]
  exact convertToks_of_factors env u toSi ts fs v hf

theorem splitOn_of_not_mem (c : Char) (s : Str) (h : c ∉ s) : splitOn c s = [s] := by
  induction s with
  | nil => rfl
  | cons x xs ih =>
    have hx : x ≠ c := fun e => h (by rw [e]; exact List.mem_cons_self)
    have hxs : c ∉ xs := fun e => h (List.mem_cons_of_mem _ e)
    simp only [splitOn, if_neg hx, ih hxs]

theorem factorOf_eq_parts (env : Env) (u : Units) (tok : Str) :
    factorOf env u tok = (match factorParts env u tok with
      | .error e => .error e
      | .ok (x, none) => .ok x
      | .ok (x, some q) => powRat x q) := by
  unfold factorOf factorParts
  split
  · split
    · split
      · rfl
      · split
        · rfl
        · split <;> rfl
    · rfl
  · split <;> rfl

/-! ## conversion in general: linear in the value, success independent of the scalings -/

/-- a successful conversion multiplies by a positive number that does not depend on the value -/
theorem convertStr_linear (env : Env) (henv : env.constsPos = true) (u : Units) (hu : u.Pos)
    (toSi : Bool) (s : Str) (v w : Rat) (h : convertStr env u toSi s v = .ok w) :
    ∃ c : Rat, 0 < c ∧ (∀ x, convertStr env u toSi s x = .ok (x * c)) ∧
      (∀ x, convertStr env u (!toSi) s x = .ok (x / c)) := by
  unfold convertStr at h ⊢
  by_cases hd : isDimless (stripSpaces s) = true
  · refine ⟨1, by decide, ?_, ?_⟩ <;> intro x <;> simp [hd, Rat.div_def, rat_inv_one]
  · simp only [hd] at h ⊢
    obtain ⟨fs, hfs⟩ := factors_of_convertToks env u toSi _ v w h
    have hP := prod_pos (factors_pos env henv u hu _ fs hfs)
    cases toSi
    · refine ⟨(prod fs)⁻¹, Rat.inv_pos.mpr hP, ?_, ?_⟩
      · intro x; simp [convertToks_of_factors env u false _ fs x hfs, Rat.div_def]
      · intro x; simp [convertToks_of_factors env u true _ fs x hfs, Rat.div_def, Rat.inv_inv]
    · refine ⟨prod fs, hP, ?_, ?_⟩
      · intro x; simp [convertToks_of_factors env u true _ fs x hfs]
      · intro x; simp [convertToks_of_factors env u false _ fs x hfs]

theorem convertStr_ok_indep (env : Env) (u u' : Units) (toSi toSi' : Bool) (s : Str) (v w v' : Rat)
    (h : convertStr env u toSi s v = .ok w) : ∃ w', convertStr env u' toSi' s v' = .ok w' := by
  unfold convertStr at h ⊢
  by_cases hd : isDimless (stripSpaces s) = true
  · simp [hd]
  · simp only [hd] at h ⊢
    obtain ⟨fs, hfs⟩ := factors_of_convertToks env u toSi _ v w h
    obtain ⟨fs', hfs'⟩ := factors_ok_indep env u u' _ fs hfs
    exact ⟨_, convertToks_of_factors env u' toSi' _ fs' v' hfs'⟩

/-! ## material constants -/

/-- two lists related entry by entry -/
inductive AllPairs {α β : Type} (R : α → β → Prop) : List α → List β → Prop
  | nil : AllPairs R [] []
  | cons {a b l m} : R a b → AllPairs R l m → AllPairs R (a :: l) (b :: m)

/-- what the conversion loop of `__post_init__` stores: entry by entry the converted SI value -/
def Stored (env : Env) (table : List (Str × Str)) (u : Units) (p q : Str × Rat) : Prop :=
  q.1 = p.1 ∧ ∃ unit, lookup p.1 table = some unit ∧ convertStr env u false unit p.2 = .ok q.2

theorem convertAll_spec (env : Env) (table : List (Str × Str)) (u : Units) (si vals : List (Str × Rat))
    (h : convertAll env table u si = .ok vals) : AllPairs (Stored env table u) si vals := by
  induction si generalizing vals with
  | nil => simp only [convertAll] at h; cases h; exact .nil
  | cons p r ih =>
    obtain ⟨k, v⟩ := p
    simp only [convertAll] at h
    cases hl : lookup k table with
    | none => simp [hl] at h
    | some unit =>
      simp only [hl] at h
      cases hc : convertStr env u false unit v with
      | error e => rw [hc] at h; cases h
      | ok w =>
        rw [hc] at h
        cases hr : convertAll env table u r with
        | error e => rw [hr] at h; cases h
        | ok ws =>
          rw [hr] at h; cases h
          exact .cons ⟨rfl, unit, hl, hc⟩ (ih ws hr)

theorem convertAll_ok_indep (env : Env) (table : List (Str × Str)) (u u' : Units)
    (si vals : List (Str × Rat)) (h : convertAll env table u si = .ok vals) :
    ∃ vals', convertAll env table u' si = .ok vals' := by
  induction si generalizing vals with
  | nil => exact ⟨[], rfl⟩
  | cons p r ih =>
    obtain ⟨k, v⟩ := p
    simp only [convertAll] at h ⊢
    cases hl : lookup k table with
    | none => simp [hl] at h
    | some unit =>
      simp only [hl] at h
      cases hc : convertStr env u false unit v with
      | error e => rw [hc] at h; cases h
      | ok w =>
        rw [hc] at h
        cases hr : convertAll env table u r with
        | error e => rw [hr] at h; cases h
        | ok ws =>
          obtain ⟨w', hw'⟩ := convertStr_ok_indep env u u' false false unit v w v hc
          obtain ⟨ws', hws'⟩ := ih ws hr
          simp only [hw', hws']; exact ⟨_, rfl⟩

/-- in a unit system where every table entry converts 1 to 1, the stored values are the SI values -/
theorem convertAll_identity (env : Env) (table : List (Str × Str)) (u : Units)
    (htab : ∀ p ∈ table, isOkEq (convertStr env u false p.2 1) 1 = true)
    (si vals : List (Str × Rat)) (h : convertAll env table u si = .ok vals) : vals = si := by
  induction si generalizing vals with
  | nil => simp only [convertAll] at h; cases h; rfl
  | cons p r ih =>
    obtain ⟨k, v⟩ := p
    simp only [convertAll] at h
    cases hl : lookup k table with
    | none => simp [hl] at h
    | some unit =>
      simp only [hl] at h
      cases hc : convertStr env u false unit v with
      | error e => rw [hc] at h; cases h
      | ok w =>
        rw [hc] at h
        cases hr : convertAll env table u r with
        | error e => rw [hr] at h; cases h
        | ok ws =>
          rw [hr] at h; cases h
          rw [ih ws hr]
          have h1 := htab (k, unit) (lookup_mem k table unit hl)
          simp only [isOkEq] at h1
          -- the conversion is multiplication by a constant, fixed by its value at 1
          have hw : w = v := by
            unfold convertStr at hc h1
            by_cases hd : isDimless (stripSpaces unit) = true
            · simp only [hd, if_true] at hc; cases hc; rfl
            · simp only [hd] at hc h1
              obtain ⟨fs, hfs⟩ := factors_of_convertToks env u false _ v w hc
              rw [convertToks_of_factors env u false _ fs v hfs] at hc
              rw [convertToks_of_factors env u false _ fs 1 hfs] at h1
              simp only [Bool.false_eq_true, if_false] at hc h1
              cases hc
              have h2 : (1 : Rat) / prod fs = 1 := by simpa using h1
              rw [Rat.div_def, Rat.one_mul] at h2
              rw [Rat.div_def, h2, Rat.mul_one]
          rw [hw]

end PorepyVerif.C43
