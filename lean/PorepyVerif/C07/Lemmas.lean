/-
C07 — helper lemmas about the row / column bookkeeping of `Model.lean`.
-/
import PorepyVerif.C07.Model
import PorepyVerif.C37.Lemmas
import Mathlib.Data.List.Perm.Basic
import Mathlib.Data.List.Range
import Mathlib.Data.List.Nodup

namespace PorepyVerif.C07

/-! ### generic list facts -/

/-- appending rearranged pieces: used to combine per-equation partitions -/
theorem perm_interleave {a p b x c s r1 r2 : List Nat}
    (h1 : (a ++ (b ++ c)).Perm r1) (h2 : (p ++ (x ++ s)).Perm r2) :
    ((a ++ p) ++ ((b ++ x) ++ (c ++ s))).Perm (r1 ++ r2) := by
  rw [List.perm_iff_count]
  intro n
  have e1 := h1.count_eq n
  have e2 := h2.count_eq n
  simp only [List.count_append] at e1 e2 ⊢
  omega

/-- a duplicate-free part of a duplicate-free list, together with its complement, is the list -/
theorem nodup_sub_perm {idx all : List Nat} (hn : idx.Nodup) (ha : all.Nodup) (hsub : idx ⊆ all) :
    (idx ++ all.filter (fun i => decide (i ∉ idx))).Perm all := by
  have h1 : idx.Perm (all.filter (fun i => decide (i ∈ idx))) := by
    rw [List.perm_ext_iff_of_nodup hn (ha.filter _)]
    intro a
    simp only [List.mem_filter, decide_eq_true_eq]
    exact ⟨fun h => ⟨hsub h, h⟩, fun h => h.2⟩
  have h2 := List.filter_append_perm (fun i => decide (i ∈ idx)) all
  have h3 : (all.filter (fun i => decide (i ∉ idx))) = all.filter (fun x => !(decide (x ∈ idx))) := by
    congr 1; funext x; simp
  rw [h3]
  exact (h1.append_right _).trans h2

theorem map_add_range (off m : Nat) : (List.range m).map (· + off) = List.range' off m := by
  rw [List.range'_eq_map_range]
  apply List.map_congr_left
  intro a _
  omega

/-! ### rows -/

theorem selectIdx_sublist (gs : List Nat) (e : EqLayout) (off : Nat) :
    (selectIdx gs (blocksFrom off e)).Sublist (List.range' off (eqSize e)) := by
  induction e generalizing off with
  | nil => simp [blocksFrom, selectIdx, eqSize]
  | cons b rest ih =>
    obtain ⟨g, s⟩ := b
    simp only [blocksFrom, selectIdx, eqSize]
    rw [← List.range'_append_1]
    split
    · exact List.Sublist.append (List.Sublist.refl _) (ih _)
    · exact (ih _).trans (List.sublist_append_right _ _)

theorem localSel_nodup (e : EqLayout) (gs : List Nat) : (localSel e gs).Nodup :=
  (selectIdx_sublist gs e 0).nodup (List.nodup_range' (s := 0) (n := eqSize e))

theorem localSel_subset (e : EqLayout) (gs : List Nat) : localSel e gs ⊆ List.range (eqSize e) := by
  have := (selectIdx_sublist gs e 0).subset
  rw [List.range_eq_range']
  exact this

/-- one grid-restricted equation: requested rows + excluded rows = the equation's rows -/
theorem eq_rows_partition (e : EqLayout) (gs : List Nat) (off : Nat) :
    ((localSel e gs).map (· + off) ++ (complementIdx (eqSize e) (localSel e gs)).map (· + off)).Perm
      (List.range' off (eqSize e)) := by
  rw [← List.map_append, ← map_add_range]
  apply List.Perm.map
  exact nodup_sub_perm (localSel_nodup e gs) List.nodup_range (localSel_subset e gs)

/-- the three row lists of the model partition the rows of the equations they were built from -/
theorem rows_partition_aux (req : EqReq) (eqs : List EqLayout) (k off : Nat) :
    (primRows req k off eqs ++ (exclRows req k off eqs ++ secEqRows req k off eqs)).Perm
      (List.range' off (totalRows eqs)) := by
  induction eqs generalizing k off with
  | nil => simp [primRows, exclRows, secEqRows, totalRows]
  | cons e rest ih =>
    simp only [primRows, exclRows, secEqRows, totalRows]
    rw [← List.range'_append_1]
    apply perm_interleave _ (ih (k + 1) (off + eqSize e))
    cases req.sel k with
    | no => simp
    | all => simp
    | grids gs => simpa using eq_rows_partition e gs off

/-! ### columns -/

theorem insertSorted_perm (a : Nat) (l : List Nat) : (insertSorted a l).Perm (a :: l) := by
  induction l with
  | nil => simp [insertSorted]
  | cons b l ih =>
    simp only [insertSorted]
    split
    · exact List.Perm.refl _
    · exact ((List.Perm.cons b ih).trans (List.Perm.swap a b l))

theorem isort_perm (l : List Nat) : (isort l).Perm l := by
  induction l with
  | nil => simp [isort]
  | cons a l ih => exact (insertSorted_perm a (isort l)).trans (List.Perm.cons a ih)

theorem dofsOf_append (l1 l2 : List Block) : dofsOf (l1 ++ l2) = dofsOf l1 ++ dofsOf l2 := by
  induction l1 with
  | nil => rfl
  | cons b l ih => simp [dofsOf, ih]

theorem dofsOf_perm {l1 l2 : List Block} (h : l1.Perm l2) : (dofsOf l1).Perm (dofsOf l2) := by
  induction h with
  | nil => exact List.Perm.refl _
  | cons b _ ih => exact List.Perm.append_left _ ih
  | swap a b l =>
    simp only [dofsOf]
    rw [← List.append_assoc, ← List.append_assoc]
    exact List.Perm.append_right _ List.perm_append_comm
  | trans _ _ ih1 ih2 => exact ih1.trans ih2

theorem dofsOf_varBlocks (vars : List Var) (j off : Nat) :
    dofsOf (varBlocks j off vars) = List.range' off (totalDofs vars) := by
  induction vars generalizing j off with
  | nil => simp [varBlocks, dofsOf, totalDofs]
  | cons v rest ih =>
    simp only [varBlocks, dofsOf, totalDofs]
    rw [ih, List.range'_append_1]

theorem idx_varBlocks (vars : List Var) (j off : Nat) :
    (varBlocks j off vars).map (·.idx) = List.range' j vars.length := by
  induction vars generalizing j off with
  | nil => simp [varBlocks]
  | cons v rest ih =>
    simp only [varBlocks, List.map_cons, List.length_cons]
    rw [ih, List.range'_succ]

theorem parseVars_subset (blocks : List Block) (items : List VarItem) :
    parseVars blocks items ⊆ blocks := by
  induction items with
  | nil => simp [parseVars]
  | cons it rest ih =>
    simp only [parseVars]
    intro b hb
    rcases List.mem_append.mp hb with h | h
    · exact (List.mem_filter.mp h).1
    · exact ih h

/-- a duplicate-free selection of blocks plus the blocks that were not selected = all blocks -/
theorem blocks_partition (blocks active : List Block) (hb : (blocks.map (·.idx)).Nodup)
    (ha : (active.map (·.idx)).Nodup) (hsub : active ⊆ blocks) :
    (active ++ secBlocks blocks active).Perm blocks := by
  have hbn : blocks.Nodup := List.Nodup.of_map _ hb
  have han : active.Nodup := List.Nodup.of_map _ ha
  have hinj : ∀ b ∈ blocks, ∀ b' ∈ blocks, b.idx = b'.idx → b = b' :=
    fun b hb1 b' hb2 h => List.inj_on_of_nodup_map hb hb1 hb2 h
  have h1 : active.Perm (blocks.filter (fun b => decide (b.idx ∈ active.map (·.idx)))) := by
    rw [List.perm_ext_iff_of_nodup han (hbn.filter _)]
    intro b
    simp only [List.mem_filter, decide_eq_true_eq, List.mem_map]
    constructor
    · exact fun h => ⟨hsub h, b, h, rfl⟩
    · rintro ⟨hbm, b', hb', he⟩
      have := hinj b' (hsub hb') b hbm he
      exact this ▸ hb'
  have h2 := List.filter_append_perm (fun b => decide (b.idx ∈ active.map (·.idx))) blocks
  have h3 : secBlocks blocks active
      = blocks.filter (fun x => !(decide (x.idx ∈ active.map (·.idx)))) := by
    unfold secBlocks
    congr 1; funext x
    by_cases hx : x.idx ∈ active.map (·.idx) <;> simp [hx]
  rw [h3]
  exact (h1.append_right _).trans h2

/-! ### expansion -/

theorem scatterAt_not_mem (idx : List Nat) (vals : List Rat) (j : Nat) (h : j ∉ idx) :
    scatterAt idx vals j = 0 := by
  induction idx generalizing vals with
  | nil => cases vals <;> rfl
  | cons i is ih =>
    cases vals with
    | nil => rfl
    | cons v vs =>
      have hne : i ≠ j := fun e => h (e ▸ List.mem_cons_self)
      have hj : j ∉ is := fun hm => h (List.mem_cons_of_mem _ hm)
      simp [scatterAt, hne, ih vs hj]

theorem scatterAt_get (idx : List Nat) (vals : List Rat) (i j : Nat) (hn : idx.Nodup)
    (hlen : vals.length = idx.length) (hj : idx[i]? = some j) :
    some (scatterAt idx vals j) = vals[i]? := by
  induction idx generalizing vals i with
  | nil => simp at hj
  | cons a is ih =>
    cases vals with
    | nil => simp at hlen
    | cons v vs =>
      have hn' := List.nodup_cons.mp hn
      cases i with
      | zero =>
        simp only [List.getElem?_cons_zero, Option.some.injEq] at hj
        subst hj
        simp [scatterAt, scatterAt_not_mem is vs a hn'.1]
      | succ i =>
        simp only [List.getElem?_cons_succ] at hj
        have hmem : j ∈ is := List.mem_of_getElem? hj
        have hne : a ≠ j := fun e => hn'.1 (e ▸ hmem)
        have := ih vs i hn'.2 (by simpa using hlen) hj
        simp [scatterAt, hne, this]

/-! ### lists of rationals read as Mathlib matrices -/

section Bridge
open Matrix

/-- a list of rows read as an `a × b` Mathlib matrix (missing entries are 0) -/
def toM (a b : Nat) (L : Mat) : Matrix (Fin a) (Fin b) ℚ := fun i j => (L.getD i []).getD j 0
/-- a list read as a vector of length `a` -/
def toV (a : Nat) (v : Vec) : Fin a → ℚ := fun i => v.getD i 0

theorem dot_nil_left (b : Vec) : dot [] b = 0 := by cases b <;> rfl
theorem dot_nil_right (a : Vec) : dot a [] = 0 := by cases a <;> rfl

theorem dot_eq_sum (a b : Vec) (n : Nat) (h : a.length ≤ n) :
    dot a b = ∑ k ∈ Finset.range n, a.getD k 0 * b.getD k 0 := by
  induction a generalizing b n with
  | nil => simp [dot_nil_left]
  | cons x a ih =>
    cases b with
    | nil => simp [dot_nil_right]
    | cons y b =>
      cases n with
      | zero => simp at h
      | succ n =>
        rw [Finset.sum_range_succ', dot, ih b n (by simpa using h)]
        simp [add_comm]

theorem getD_mulVec (A : Mat) (x : Vec) (i : Nat) :
    (mulVec A x).getD i 0 = dot (A.getD i []) x := by
  unfold mulVec
  rw [List.getD_eq_getElem?_getD, List.getD_eq_getElem?_getD, List.getElem?_map]
  cases A[i]? with
  | none => simp [dot_nil_left]
  | some row => simp

theorem getD_row_le {b : Nat} (A : Mat) (h : ∀ row ∈ A, row.length ≤ b) (i : Nat) :
    (A.getD i []).length ≤ b := by
  rw [List.getD_eq_getElem?_getD]
  cases hi : A[i]? with
  | none => simp
  | some row => simpa using h row (List.mem_of_getElem? hi)

theorem toV_mulVec (a b : Nat) (A : Mat) (x : Vec) (h : ∀ row ∈ A, row.length ≤ b) :
    toV a (mulVec A x) = toM a b A *ᵥ toV b x := by
  funext i
  simp only [toV, toM, Matrix.mulVec, dotProduct]
  rw [getD_mulVec, dot_eq_sum _ _ b (getD_row_le A h i), Finset.sum_range]

theorem getD_vsub (a b : Vec) (h : a.length = b.length) (i : Nat) :
    (vsub a b).getD i 0 = a.getD i 0 - b.getD i 0 := by
  induction a generalizing b i with
  | nil => cases b <;> simp_all [vsub]
  | cons x a ih =>
    cases b with
    | nil => simp at h
    | cons y b =>
      cases i with
      | zero => simp [vsub]
      | succ i => simpa [vsub] using ih b (by simpa using h) i

theorem toV_vsub (n : Nat) (a b : Vec) (h : a.length = b.length) :
    toV n (vsub a b) = toV n a - toV n b := by
  funext i; simp only [toV, Pi.sub_apply]; exact getD_vsub a b h i


/-! shapes -/
def Shape (a c : Nat) (L : Mat) : Prop := L.length = a ∧ ∀ row ∈ L, row.length = c

theorem shape_pick (A : Mat) (rows cols : List Nat) :
    Shape rows.length cols.length (pickCols (pickRows A rows) cols) := by
  constructor
  · simp [pickCols, pickRows]
  · intro row h
    simp only [pickCols, List.mem_map] at h
    obtain ⟨r0, _, rfl⟩ := h
    simp [pick]

theorem shape_matMul (A B : Mat) (c : Nat) : Shape A.length c (matMul A B c) := by
  constructor
  · simp [matMul]
  · intro row h
    simp only [matMul, List.mem_map] at h
    obtain ⟨r0, _, rfl⟩ := h
    simp [transpose]

theorem getD_map' {α β : Type} (f : α → β) (l : List α) (i : Nat) (d : β) :
    (l.map f).getD i d = (l[i]?.map f).getD d := by
  simp [List.getD_eq_getElem?_getD]

theorem getD_matMul (A B : Mat) (c i j : Nat) (hj : j < c) :
    ((matMul A B c).getD i []).getD j 0 = dot (A.getD i []) (B.map (fun row => row.getD j 0)) := by
  have h1 : (matMul A B c).getD i []
      = (A[i]?.map (fun row => (transpose B c).map (fun cl => dot row cl))).getD [] := by
    unfold matMul; exact getD_map' _ A i []
  rw [h1, List.getD_eq_getElem?_getD (l := A)]
  cases A[i]? with
  | none => simp [dot_nil_left]
  | some row =>
    simp only [Option.map_some, Option.getD_some]
    rw [getD_map', transpose, List.getElem?_map, List.getElem?_range hj]
    simp

theorem getD_map_getD (B : Mat) (j k : Nat) :
    (B.map (fun row => row.getD j 0)).getD k 0 = (B.getD k []).getD j 0 := by
  rw [List.getD_eq_getElem?_getD, List.getD_eq_getElem?_getD (l := B), List.getElem?_map]
  cases B[k]? <;> simp

theorem toM_matMul (a b c : Nat) (A B : Mat) (h : ∀ row ∈ A, row.length ≤ b) :
    toM a c (matMul A B c) = toM a b A * toM b c B := by
  ext i j
  simp only [toM, Matrix.mul_apply]
  rw [getD_matMul A B c i j j.2, dot_eq_sum _ _ b (getD_row_le A h i), Finset.sum_range]
  simp only [getD_map_getD]

theorem toM_msub (a c : Nat) (A B : Mat) (hA : Shape A.length c A) (hB : Shape A.length c B) :
    toM a c (msub A B) = toM a c A - toM a c B := by
  ext i j
  simp only [toM, Matrix.sub_apply, msub]
  have h1 : (List.zipWith vsub A B).getD (i : Nat) []
      = ((List.zipWith vsub A B)[(i : Nat)]?).getD [] := List.getD_eq_getElem?_getD ..
  rw [h1, List.getElem?_zipWith, List.getD_eq_getElem?_getD (l := A), List.getD_eq_getElem?_getD (l := B)]
  cases hAi : A[(i : Nat)]? with
  | none =>
    have : B[(i : Nat)]? = none := by
      rw [List.getElem?_eq_none_iff] at hAi ⊢; rw [hB.1]; exact hAi
    simp [this]
  | some ra =>
    cases hBi : B[(i : Nat)]? with
    | none =>
      have : A[(i : Nat)]? = none := by
        rw [List.getElem?_eq_none_iff] at hBi ⊢; rw [← hB.1]; exact hBi
      simp [this] at hAi
    | some rb =>
      simp only [Option.getD_some]
      exact getD_vsub ra rb (by rw [hA.2 ra (List.mem_of_getElem? hAi), hB.2 rb (List.mem_of_getElem? hBi)]) j

theorem toM_pick (J : Mat) (rows cols : List Nat) (a b : Nat) (ha : rows.length = a)
    (hb : cols.length = b) (i : Fin a) (j : Fin b) :
    toM a b (pickCols (pickRows J rows) cols) i j
      = (J.getD (rows.getD i 0) []).getD (cols.getD j 0) 0 := by
  subst ha; subst hb
  simp [toM, pickCols, pickRows, pick]

theorem toV_pick (r : Vec) (rows : List Nat) (a : Nat) (ha : rows.length = a) (i : Fin a) :
    toV a (pick r rows) i = r.getD (rows.getD i 0) 0 := by
  subst ha
  simp [toV, pick]

/-- the Gauss–Jordan elimination shared with C37 returns a two-sided inverse (read as Mathlib
    matrices), whenever it returns anything -/
theorem inverse_toM (A B : Mat) (a b : Nat) (ha : A.length = a) (hb : A.length = b)
    (h : C37.inverse A = some B) :
    toM a b A * toM b a B = 1 ∧ toM b a B * toM a b A = 1 := by
  subst ha; subst hb
  obtain ⟨hrows, _, _, _⟩ := C37.inverse_some A B h
  obtain ⟨hBl, hBr⟩ := C37.inverse_length A B h
  have hBA : toM A.length A.length B * toM A.length A.length A = 1 :=
    C37.toMatrix_mul_of_matMul A.length A B rfl hrows hBl hBr (C37.inverse_left A B h)
  exact ⟨mul_eq_one_comm.mp hBA, hBA⟩

theorem length_mulVec (A : Mat) (x : Vec) : (mulVec A x).length = A.length := by simp [mulVec]
theorem length_pick (v : Vec) (idx : List Nat) : (pick v idx).length = idx.length := by simp [pick]
theorem length_msub (A B : Mat) (h : A.length = B.length) : (msub A B).length = A.length := by
  simp [msub, h]

theorem shape_le {a c : Nat} {L : Mat} (h : Shape a c L) : ∀ row ∈ L, row.length ≤ c :=
  fun row hr => le_of_eq (h.2 row hr)

theorem shape_pick' (A : Mat) (rows cols : List Nat) (a c : Nat) (ha : rows.length = a)
    (hc : cols.length = c) : Shape a c (pickCols (pickRows A rows) cols) := by
  subst ha; subst hc; exact shape_pick A rows cols


/-- the model's reduced system, read as Mathlib matrices, for blocks of the right shapes -/
theorem reduced_toM (b : Blocks) (inv : Mat) (pl pc ns : Nat)
    (shApp : Shape pl pc b.App) (shAps : Shape pl ns b.Aps) (lbp : b.bp.length = pl) :
    toM pl pc (reduced b inv pc ns).1
        = toM pl pc b.App - toM pl ns b.Aps * toM ns ns inv * toM ns pc b.Asp ∧
      toV pl (reduced b inv pc ns).2
        = toV pl b.bp - (toM pl ns b.Aps * toM ns ns inv) *ᵥ toV ns b.bs := by
  have shAI : Shape pl ns (matMul b.Aps inv ns) :=
    ⟨by rw [(shape_matMul b.Aps inv ns).1, shAps.1], (shape_matMul b.Aps inv ns).2⟩
  have shAIA : Shape pl pc (matMul (matMul b.Aps inv ns) b.Asp pc) :=
    ⟨by rw [(shape_matMul _ b.Asp pc).1, shAI.1], (shape_matMul _ b.Asp pc).2⟩
  have mAI : toM pl ns (matMul b.Aps inv ns) = toM pl ns b.Aps * toM ns ns inv :=
    toM_matMul pl ns ns b.Aps inv (shape_le shAps)
  constructor
  · show toM pl pc (msub b.App (matMul (matMul b.Aps inv ns) b.Asp pc)) = _
    rw [toM_msub pl pc _ _ (by rw [shApp.1]; exact shApp) (by rw [shApp.1]; exact shAIA),
      toM_matMul pl ns pc _ b.Asp (shape_le shAI), mAI]
  · show toV pl (vsub b.bp (mulVec (matMul b.Aps inv ns) b.bs)) = _
    rw [toV_vsub pl _ _ (by rw [lbp, length_mulVec, shAI.1]),
      toV_mulVec pl ns _ b.bs (shape_le shAI), mAI]

end Bridge

end PorepyVerif.C07
